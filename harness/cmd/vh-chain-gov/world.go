package main

import (
	"crypto/sha256"
	"encoding/hex"
	"encoding/json"
	"fmt"
	"math"
	"regexp"
	"sort"
	"strconv"
	"strings"
	"time"

	"github.com/pokt-network/pocket-core/app"
	"github.com/pokt-network/pocket-core/codec"
	"github.com/pokt-network/pocket-core/crypto"
	sdk "github.com/pokt-network/pocket-core/types"
	govTypes "github.com/pokt-network/pocket-core/x/gov/types"
	abci "github.com/tendermint/tendermint/abci/types"

	"verifharness/chainsim"
	"verifharness/internal/hx"
)

// world is a chain plus what this module needs to rebuild real messages from abstract ones.
type world struct {
	s     *chainsim.Sim
	t     int64
	cands map[string]candidate // per parameter key: a well-typed new value (fixed at chain creation)
}

// candidate is a well-typed replacement value for one parameter, derived once from the value the chain
// started with (so the same abstract request maps to the same bytes on every identically built chain).
type candidate struct {
	raw      []byte
	Val      string            `json:"val"`      // abstraction of raw (see absVal)
	NewAcl   map[string]string `json:"newAcl"`   // gov/acl only: the ACL the value describes
	NewOwner string            `json:"newOwner"` // gov/daoOwner only
	NewUpg   *upgState         `json:"newUpg"`   // gov/upgrade only
}

var invalidValue = []byte(`{"bad"`) // not JSON: unparsable for every parameter type

const (
	kOwner     = 0 // a1: DAO owner and default ACL owner
	kOwner2    = 1 // a2: owner of pos/MaxValidators
	kOwner3    = 2 // a3: owner of application/MaxApplications
	kUnrelated = 7 // a8: funded, owns nothing
	kFresh     = 8 // a9: no account
)

func govConfig(seed int64, zero bool) chainsim.Config {
	cfg := chainsim.Config{Seed: seed, NKeys: 10,
		Balances: map[int]int64{0: 40000000, 1: 40000000, 2: 20000000, 3: 20000000, 7: 4000000},
		Nodes: []chainsim.NodeSpec{{Key: 0, Output: -1, Tokens: 5000000, Chains: []string{"0001"}},
			{Key: 1, Output: -1, Tokens: 3000000, Chains: []string{"0001", "0002"}}},
		Apps:      []chainsim.AppSpec{{Key: 3, Tokens: 2000000, Chains: []string{"0001"}}},
		DAOTokens: 1000000, DAOOwner: kOwner, Servicer: -1,
		ACLOwners: map[string]int{"pos/MaxValidators": kOwner2, "application/MaxApplications": kOwner3}}
	if zero {
		// a chain whose genesis stores no upgrade (height 0, no features) and whose process has no
		// feature scheduled either; chainsim's codec heights (2 / 1) stand for "past the hard-coded
		// codec upgrade height", as on a network that reached it without any upgrade transaction
		cfg.Features = map[string]int64{}
	}
	return cfg
}

// newWorld builds variant N (stored upgrade height 2, all features at 2) or Z (stored height 0).
func newWorld(seed int64, zero bool) *world {
	cfg := govConfig(seed, zero)
	if zero {
		keys := chainsimKeys(cfg)
		gen := chainsim.BuildGenesis(cfg, keys)
		var gg govTypes.GenesisState
		cdc := codecOf()
		cdc.MustUnmarshalJSON(gen[govTypes.ModuleName], &gg)
		gg.Params.Upgrade = govTypes.Upgrade{Height: 0, Version: "0.1.0"}
		gen[govTypes.ModuleName] = cdc.MustMarshalJSON(gg)
		cfg.GenesisOverride = gen
	}
	w := &world{s: chainsim.New(cfg)}
	w.block()
	w.block()
	w.cands = w.candidates()
	return w
}

func chainsimKeys(cfg chainsim.Config) []crypto.PrivateKey {
	var ks []crypto.PrivateKey
	for i := 0; i < cfg.NKeys; i++ {
		ks = append(ks, chainsim.Key(cfg.Seed, i))
	}
	return ks
}

func codecOf() *codec.Codec { return app.Codec() }

func (w *world) begin() {
	w.t++
	tm := chainsim.T0.Add(time.Duration(w.t) * chainsim.BlockInterval)
	w.s.BeginBlock(chainsim.BlockOpts{Time: &tm})
}

// commit commits the block WITHOUT feeding the transaction indexer (chainsim.Sim.Commit does both).
// After a feature-only upgrade on the height-0 chain the code sets codec.UpgradeHeight = 0, and the
// indexer's height-0 encoding of a TxResult then fails ("does not implement proto marshaller") - on a
// real node the indexer service would log that error; chainsim panics on it.  No scenario of this
// module resubmits bytes, so replay protection is not needed here.
func (w *world) commit() {
	r := w.s.App.Commit()
	w.s.LastHash = r.Data
	w.s.InBlock = false
}

func (w *world) block(txs ...[]byte) []abci.ResponseDeliverTx {
	w.begin()
	var out []abci.ResponseDeliverTx
	for _, tx := range txs {
		out = append(out, w.s.DeliverTx(tx))
	}
	w.s.EndBlock()
	w.commit()
	return out
}

// restart emulates a process restart on the same databases: the codec's process-global schedule is
// reset to its initial values, then the application object is re-created (NewPocketCoreApp restores the
// globals from the stored upgrade).  When that leaves the codec before its upgrade height (stored
// height 0) the codec heights - NOT the feature map - are put back to chainsim's stand-in values.
func (w *world) restart() {
	codec.UpgradeFeatureMap = make(map[string]int64)
	codec.UpgradeHeight = math.MaxInt64
	codec.OldUpgradeHeight = 0
	w.s.Restart()
	if codec.GetCodecUpgradeHeight() > w.s.Height {
		codec.UpgradeHeight = 2
		codec.OldUpgradeHeight = 1
	}
}

func (w *world) name(i int) string { return w.s.Name(w.s.Addr(i)) }

// ---- projection ---------------------------------------------------------------------------

type upgState struct {
	Height   int64           `json:"height"`
	Version  string          `json:"version"`
	Old      int64           `json:"old"`
	Features [][]interface{} `json:"features"` // [key, height] in stored order
}

func splitFeatures(fs []string) [][]interface{} {
	out := [][]interface{}{}
	for _, f := range fs {
		kv := strings.SplitN(f, ":", 2)
		h := int64(-1)
		if len(kv) == 2 {
			if n, err := strconv.ParseInt(kv[1], 10, 64); err == nil {
				h = n
			}
		}
		out = append(out, []interface{}{kv[0], h})
	}
	return out
}

func upgOf(u govTypes.Upgrade) *upgState {
	return &upgState{Height: u.Height, Version: u.Version, Old: u.OldUpgradeHeight, Features: splitFeatures(u.Features)}
}

// absVal abstracts a raw parameter value: itself when short, a digest otherwise.
func absVal(raw []byte) string {
	if len(raw) <= 40 {
		return string(raw)
	}
	sum := sha256.Sum256(raw)
	return "#" + hex.EncodeToString(sum[:5])
}

var govOwnKeys = map[string]bool{"gov/acl": true, "gov/daoOwner": true, "gov/upgrade": true}

// ProbeKeys / ProbeGrid: where the real activation predicate is sampled
var probeKeys = []string{"F1", "F2", "BLOCK"}

const probeMax = 14

type govProj struct {
	st map[string]interface{} // small, logged on every event
	gp map[string]interface{} // params + acl, logged when changed
}

func (w *world) project() (govProj, chainsim.Cfg) {
	s := w.s
	core, cfg := s.Split(s.Project())
	ctx := s.Ctx()
	gk := s.App.VerifGovKeeper()
	params := map[string]string{}
	for k, v := range gk.GetAllParamNameValue(ctx) {
		if !govOwnKeys[k] {
			params[k] = absVal([]byte(v))
		}
	}
	probe := map[string][]int64{}
	for _, k := range probeKeys {
		hs := []int64{}
		for h := int64(1); h <= probeMax; h++ {
			if s.App.VerifCodec().IsAfterNamedFeatureActivationHeight(h, k) {
				hs = append(hs, h)
			}
		}
		probe[k] = hs
	}
	st := map[string]interface{}{"bal": core["bal"], "supply": core["supply"], "nopk": core["nopk"],
		"daoOwner": cfg.DAOOwner, "upg": upgOf(gk.GetUpgrade(ctx)), "featMem": cfg.FeatMem, "probe": probe}
	for _, k := range []string{"bal", "supply", "nopk", "h"} {
		delete(core, k)
	}
	rb, _ := json.Marshal(core)
	sum := sha256.Sum256(rb)
	st["rest"] = hex.EncodeToString(sum[:8])
	gp := map[string]interface{}{"params": params, "acl": cfg.ACL}
	cfg.ACL = map[string]string{}
	cfg.Upgrade = chainsim.UpgradeState{Features: []string{}}
	cfg.FeatMem = map[string]int64{}
	cfg.DAOOwner = ""
	return govProj{st, gp}, cfg
}

// ---- candidate values ----------------------------------------------------------------------

var (
	reQuotedInt = regexp.MustCompile(`^"(-?\d+)"$`)
	reInt       = regexp.MustCompile(`^\d+$`)
	reDec       = regexp.MustCompile(`^"(\d+)\.(\d)(\d+)"$`)
)

func (w *world) candidates() map[string]candidate {
	s := w.s
	ctx := s.Ctx()
	gk := s.App.VerifGovKeeper()
	out := map[string]candidate{}
	for key, v := range gk.GetAllParamNameValue(ctx) {
		raw := []byte(v)
		c := candidate{}
		switch {
		case key == "gov/acl":
			acl := gk.GetACL(ctx)
			na := govTypes.ACL(append([]govTypes.ACLPair{}, acl...))
			na.SetOwner("pos/MaxJailedBlocks", s.Addr(kUnrelated))
			c.raw = codecOf().MustMarshalJSON(na)
			c.NewAcl = map[string]string{}
			for _, p := range na {
				c.NewAcl[p.Key] = s.Name(p.Addr)
			}
		case key == "gov/daoOwner":
			c.raw = codecOf().MustMarshalJSON(s.Addr(kOwner2))
			c.NewOwner = w.name(kOwner2)
		case key == "gov/upgrade":
			u := gk.GetUpgrade(ctx)
			u.Features = append(append([]string{}, u.Features...), "ZZ9:77")
			c.raw = codecOf().MustMarshalJSON(u)
			c.NewUpg = upgOf(u)
		case reQuotedInt.Match(raw):
			n, _ := strconv.ParseInt(reQuotedInt.FindStringSubmatch(v)[1], 10, 64)
			c.raw = []byte(fmt.Sprintf(`"%d"`, n+1))
		case reInt.Match(raw):
			n, _ := strconv.ParseInt(v, 10, 64)
			c.raw = []byte(fmt.Sprintf(`%d`, n+1))
		case v == "true":
			c.raw = []byte("false")
		case v == "false":
			c.raw = []byte("true")
		case reDec.Match(raw):
			m := reDec.FindStringSubmatch(v)
			d, _ := strconv.Atoi(m[2])
			c.raw = []byte(fmt.Sprintf(`"%s.%d%s"`, m[1], (d+1)%10, m[3]))
		default: // strings, lists, maps: the same (well-typed) value again
			c.raw = raw
		}
		c.Val = absVal(c.raw)
		out[key] = c
	}
	return out
}

func sortedCandKeys(m map[string]candidate) []string {
	ks := make([]string, 0, len(m))
	for k := range m {
		ks = append(ks, k)
	}
	sort.Strings(ks)
	return ks
}

// ---- transactions -----------------------------------------------------------------------------

func (w *world) opts(signer int, entropy int64) chainsim.TxOpts {
	return chainsim.TxOpts{Signer: w.s.Keys[signer], Fee: 10000, Entropy: entropy}
}

func (w *world) abs(kind string, from int, id int64) map[string]interface{} {
	m := w.s.SigFields(w.opts(from, id), from)
	m["kind"] = kind
	m["id"] = id
	m["from"] = w.name(from)
	m["dup"] = "no"
	return m
}

type txn struct {
	bz  []byte
	abs map[string]interface{}
}

func (w *world) changeParam(from int, key string, valid bool, id int64) txn {
	c := w.cands[key]
	raw := c.raw
	a := w.abs("change_param", from, id)
	a["key"] = key
	a["valid"] = valid
	a["newAcl"] = map[string]string{}
	a["newOwner"] = ""
	a["newUpg"] = upgState{Features: [][]interface{}{}}
	if valid {
		a["val"] = c.Val
		if c.NewAcl != nil {
			a["newAcl"] = c.NewAcl
		}
		a["newOwner"] = c.NewOwner
		if c.NewUpg != nil {
			a["newUpg"] = c.NewUpg
		}
	} else {
		raw = invalidValue
		a["val"] = absVal(raw)
	}
	msg := &govTypes.MsgChangeParam{FromAddress: w.s.Addr(from), ParamKey: key, ParamVal: raw}
	return txn{w.s.SignTx(msg, w.opts(from, id)), a}
}

func (w *world) daoTransfer(from, to int, amount int64, id int64) txn {
	a := w.abs("dao_transfer", from, id)
	a["to"] = w.name(to)
	a["amount"] = amount
	msg := &govTypes.MsgDAOTransfer{FromAddress: w.s.Addr(from), ToAddress: w.s.Addr(to), Amount: sdk.NewInt(amount), Action: govTypes.DAOTransferString}
	return txn{w.s.SignTx(msg, w.opts(from, id)), a}
}

func (w *world) daoBurn(from int, amount int64, id int64) txn {
	a := w.abs("dao_burn", from, id)
	a["to"] = ""
	a["amount"] = amount
	msg := &govTypes.MsgDAOTransfer{FromAddress: w.s.Addr(from), Amount: sdk.NewInt(amount), Action: govTypes.DAOBurnString}
	return txn{w.s.SignTx(msg, w.opts(from, id)), a}
}

// upgrade: features are [key, height] pairs in message order
func (w *world) upgrade(from int, height int64, version string, feats [][]interface{}, id int64) txn {
	a := w.abs("upgrade", from, id)
	a["upHeight"] = height
	a["upVersion"] = version
	a["upFeatures"] = feats
	var fs []string
	for _, f := range feats {
		fs = append(fs, fmt.Sprintf("%v:%v", f[0], f[1]))
	}
	msg := &govTypes.MsgUpgrade{Address: w.s.Addr(from), Upgrade: govTypes.Upgrade{Height: height, Version: version, Features: fs}}
	return txn{w.s.SignTx(msg, w.opts(from, id)), a}
}

// ---- off-chain noise ---------------------------------------------------------------------------
// Forged transactions: FromAddress is the rightful owner, the signature carries the owner's public key
// and junk bytes, and the message hands control to `intruder`.  They are only ever passed to
// Sim.Noise (CheckTx + the app/simulate query), never delivered and never recorded.
func (w *world) forged(kind string, owner, intruder int, id int64) []byte {
	o := w.opts(owner, id)
	if id%2 == 0 {
		o.CorruptSig = true
	} else {
		o.BadSignBytes = true
	}
	var msg sdk.ProtoMsg
	switch kind {
	case "acl": // every key of the current ACL goes to the intruder
		acl := w.s.App.VerifGovKeeper().GetACL(w.s.Ctx())
		na := govTypes.ACL(append([]govTypes.ACLPair{}, acl...))
		for _, p := range acl {
			na.SetOwner(p.Key, w.s.Addr(intruder))
		}
		msg = &govTypes.MsgChangeParam{FromAddress: w.s.Addr(owner), ParamKey: "gov/acl", ParamVal: codecOf().MustMarshalJSON(na)}
	case "daoOwner":
		msg = &govTypes.MsgChangeParam{FromAddress: w.s.Addr(owner), ParamKey: "gov/daoOwner", ParamVal: codecOf().MustMarshalJSON(w.s.Addr(intruder))}
	case "upgrade":
		msg = &govTypes.MsgUpgrade{Address: w.s.Addr(owner), Upgrade: govTypes.Upgrade{Height: 1, Version: "FEATURE", Features: []string{"F1:3", "F2:3"}}}
	case "transfer":
		msg = &govTypes.MsgDAOTransfer{FromAddress: w.s.Addr(owner), ToAddress: w.s.Addr(intruder), Amount: sdk.NewInt(1000), Action: govTypes.DAOTransferString}
	default:
		hx.Fatal("unknown forged kind %q", kind)
	}
	return w.s.SignTx(msg, o)
}

func keyIdxOf(s *chainsim.Sim, name string) int {
	for i := range s.Keys {
		if s.Name(s.Addr(i)) == name {
			return i
		}
	}
	return -1
}

// ---- recorder -------------------------------------------------------------------------------------

type recorder struct {
	w       *world
	tw      *hx.TraceWriter
	lastCfg string
	lastGp  string
}

func (r *recorder) emit(ev map[string]interface{}) {
	p, cfg := r.w.project()
	ev["st"] = p.st
	gb, _ := json.Marshal(p.gp)
	if string(gb) != r.lastGp {
		r.lastGp = string(gb)
		ev["gp"] = p.gp
	}
	cb, _ := json.Marshal(cfg)
	if string(cb) != r.lastCfg {
		r.lastCfg = string(cb)
		ev["cfg"] = cfg
	}
	ev["h"] = r.w.s.Height
	ev["t"] = r.w.t
	r.tw.Emit(ev)
}

func (r *recorder) reset(label string) {
	r.lastCfg, r.lastGp = "", ""
	r.emit(map[string]interface{}{"ev": "reset", "label": label})
}

func (r *recorder) block(rep *hx.Report, txs ...txn) { r.blockWith(rep, nil, txs...) }

// blockWith: `inBlock` (off-chain noise, not recorded) runs after BeginBlock, before the deliveries.
func (r *recorder) blockWith(rep *hx.Report, inBlock func(), txs ...txn) {
	r.w.begin()
	r.emit(map[string]interface{}{"ev": "BeginBlock"})
	if inBlock != nil {
		inBlock()
	}
	for _, tx := range txs {
		res := r.w.s.DeliverTx(tx.bz)
		rep.Steps++
		cls := "ok"
		if res.Code != 0 {
			cls = fmt.Sprintf("%s/%d", res.Codespace, res.Code)
		}
		rep.OpCounts[tx.abs["kind"].(string)+":"+cls]++
		r.emit(map[string]interface{}{"ev": "DeliverTx", "tx": tx.abs,
			"res": map[string]interface{}{"code": res.Code, "codespace": res.Codespace}})
	}
	r.w.s.EndBlock()
	r.emit(map[string]interface{}{"ev": "EndBlock"})
	r.w.commit()
	r.emit(map[string]interface{}{"ev": "Commit"})
}

func (r *recorder) restart(rep *hx.Report) {
	r.w.restart()
	rep.Steps++
	rep.OpCounts["restart"]++
	r.emit(map[string]interface{}{"ev": "Restart"})
}
