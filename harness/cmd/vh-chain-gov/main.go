// vh-chain-gov: chain module `gov` (x/gov driven through ABCI by harness/chainsim).
//
//	init-state -out F                  projections of the two design-model variants + candidate parameter values
//	replay-gov -in F [-shard i -of n]  replay TLC behaviours of MCChainGov on the real application
//	trace-gov  -out F -mode params|dao|upgrade|random -n N -blocks B   record ABCI traces
package main

import (
	"encoding/json"
	"flag"
	"fmt"
	"os"

	sdk "github.com/pokt-network/pocket-core/types"

	"verifharness/internal/hx"
)

func variantWorld(v int) *world {
	switch v {
	case 1:
		return newWorld(hx.Seed(), false)
	case 2:
		return newWorld(hx.Seed(), true)
	}
	hx.Fatal("unknown variant %d", v)
	return nil
}

func (w *world) names() map[string]string {
	return map[string]string{"owner": w.name(kOwner), "owner2": w.name(kOwner2), "owner3": w.name(kOwner3),
		"unrelated": w.name(kUnrelated), "fresh": w.name(kFresh)}
}

func candJSON(c candidate) map[string]interface{} {
	m := map[string]interface{}{"val": c.Val, "newAcl": map[string]string{}, "newOwner": c.NewOwner,
		"newUpg": upgState{Features: [][]interface{}{}}}
	if c.NewAcl != nil {
		m["newAcl"] = c.NewAcl
	}
	if c.NewUpg != nil {
		m["newUpg"] = c.NewUpg
	}
	return m
}

func initState(out string) {
	var all []interface{}
	for v := 1; v <= 2; v++ {
		w := variantWorld(v)
		p, cfg := w.project()
		core, _ := w.s.Split(w.s.Project())
		votes := w.s.Votes(nil)
		prop := ""
		if len(votes) > 0 {
			prop = w.s.Name(sdk.Address(votes[0].Validator.Address))
		}
		cands := map[string]interface{}{}
		for k, c := range w.cands {
			cands[k] = candJSON(c)
		}
		all = append(all, map[string]interface{}{"st": p.st, "gp": p.gp, "cfg": cfg, "h": w.s.Height, "proposer": prop,
			"blk": map[string]interface{}{"val": core["val"], "prevProposer": core["prevProposer"]},
			"cands": cands, "invalid": absVal(invalidValue), "names": w.names()})
	}
	b, _ := json.Marshal(all)
	if err := os.WriteFile(out, b, 0644); err != nil {
		hx.Fatal("%v", err)
	}
	hx.NewReport("chain-gov", "init-state").Print()
}

func main() {
	if len(os.Args) < 2 {
		fmt.Fprintln(os.Stderr, "usage: vh-chain-gov <init-state|replay-gov|trace-gov> ...")
		os.Exit(2)
	}
	fs := flag.NewFlagSet(os.Args[1], flag.ExitOnError)
	out := fs.String("out", "", "output file")
	in := fs.String("in", "", "behaviour file")
	n := fs.Int("n", 4, "number of traces")
	blocks := fs.Int("blocks", 25, "blocks per trace")
	mode := fs.String("mode", "random", "params | dao | upgrade | random")
	shard := fs.Int("shard", 0, "shard index")
	of := fs.Int("of", 1, "number of shards")
	_ = fs.Parse(os.Args[2:])
	switch os.Args[1] {
	case "init-state":
		initState(*out)
	case "replay-gov":
		replayGov(*in, *shard, *of)
	case "probe-noise": // development aid: what does off-chain noise do to the projected state?
		w := variantWorld(1)
		before, _ := w.project()
		for i, k := range []string{"acl", "daoOwner", "upgrade", "transfer"} {
			c, q := w.s.Noise(w.forged(k, kOwner, kUnrelated, int64(900+i)))
			fmt.Fprintf(os.Stderr, "noise %s: check=%d simulate=%d\n", k, c, q)
			after, _ := w.project()
			ok, why := diff(mergeSt(before), mergeSt(after))
			fmt.Fprintf(os.Stderr, "   unchanged=%v %s\n", ok, why)
		}
	case "trace-gov":
		traceGov(*out, *mode, *n, *blocks)
	default:
		fmt.Fprintln(os.Stderr, "unknown command", os.Args[1])
		os.Exit(2)
	}
}

func mergeSt(p govProj) map[string]interface{} {
	m := map[string]interface{}{}
	for k, v := range p.st {
		m[k] = v
	}
	for k, v := range p.gp {
		m[k] = v
	}
	return m
}
