package main

import (
	"encoding/json"
	"fmt"
	"os"
	"reflect"
	"sort"
	"strings"

	"verifharness/internal/hx"
)

var mapFields = map[string]bool{"bal": true, "nopk": true, "featMem": true, "probe": true, "params": true, "acl": true}

// canon: JSON round trip + TLA+ empty functions print as [].
func canon(v interface{}) map[string]interface{} {
	b, _ := json.Marshal(v)
	var m map[string]interface{}
	_ = json.Unmarshal(b, &m)
	for k, x := range m {
		if a, isArr := x.([]interface{}); isArr && len(a) == 0 && mapFields[k] {
			m[k] = map[string]interface{}{}
		}
	}
	return m
}

func short(v interface{}) string {
	b, _ := json.Marshal(v)
	if len(b) > 240 {
		return string(b[:240]) + "..."
	}
	return string(b)
}

// diff compares the fields present in the specification's state with the real projection.
func diff(want interface{}, got map[string]interface{}) (bool, string) {
	w, ok := want.(map[string]interface{})
	if !ok {
		return false, "expected state is not an object"
	}
	wn, gn := canon(w), canon(got)
	keys := make([]string, 0, len(wn))
	for k := range wn {
		keys = append(keys, k)
	}
	sort.Strings(keys)
	var parts []string
	for _, k := range keys {
		if reflect.DeepEqual(wn[k], gn[k]) {
			continue
		}
		wm, ok1 := wn[k].(map[string]interface{})
		gm, ok2 := gn[k].(map[string]interface{})
		if ok1 && ok2 {
			all := map[string]bool{}
			for x := range wm {
				all[x] = true
			}
			for x := range gm {
				all[x] = true
			}
			xs := make([]string, 0, len(all))
			for x := range all {
				xs = append(xs, x)
			}
			sort.Strings(xs)
			for _, x := range xs {
				if !reflect.DeepEqual(wm[x], gm[x]) {
					parts = append(parts, fmt.Sprintf("%s[%s]: spec=%s real=%s", k, x, short(wm[x]), short(gm[x])))
				}
			}
			continue
		}
		parts = append(parts, fmt.Sprintf("%s: spec=%s real=%s", k, short(wn[k]), short(gn[k])))
	}
	return len(parts) == 0, strings.Join(parts, "; ")
}

func fieldsOf(why string) string {
	var fs []string
	for _, p := range strings.Split(why, "; ") {
		if i := strings.Index(p, ": spec="); i > 0 {
			fs = append(fs, p[:i])
		}
	}
	return strings.Join(fs, ",")
}

func (w *world) real() map[string]interface{} {
	p, _ := w.project()
	m := map[string]interface{}{}
	for k, v := range p.st {
		m[k] = v
	}
	for k, v := range p.gp {
		m[k] = v
	}
	return m
}

func pairsOf(v interface{}) [][]interface{} {
	arr, _ := v.([]interface{})
	out := [][]interface{}{}
	for _, e := range arr {
		p, _ := e.([]interface{})
		if len(p) == 2 {
			h := p[1]
			if f, ok := h.(float64); ok {
				h = int64(f)
			}
			out = append(out, []interface{}{p[0], h})
		}
	}
	return out
}

func (w *world) buildTx(tx hx.Step) txn {
	from := keyIdxOf(w.s, tx.Str("from"))
	if from < 0 {
		hx.Fatal("behaviour names unknown sender %q", tx.Str("from"))
	}
	id := int64(tx.Int("id"))
	switch tx.Str("kind") {
	case "change_param":
		if _, ok := w.cands[tx.Str("key")]; !ok {
			hx.Fatal("behaviour names unknown parameter %q", tx.Str("key"))
		}
		return w.changeParam(from, tx.Str("key"), tx.Bool("valid"), id)
	case "dao_transfer":
		return w.daoTransfer(from, keyIdxOf(w.s, tx.Str("to")), int64(tx.Int("amount")), id)
	case "dao_burn":
		return w.daoBurn(from, int64(tx.Int("amount")), id)
	case "upgrade":
		return w.upgrade(from, int64(tx.Int("upHeight")), tx.Str("upVersion"), pairsOf(tx["upFeatures"]), id)
	}
	hx.Fatal("unknown transaction kind %q", tx.Str("kind"))
	return txn{}
}

// replayGov replays behaviours of MCChainGov.  A restart step on the known pattern has two admitted
// outcomes (st = this behaviour's branch, alt = the other one): when the real outcome is the other
// branch the behaviour simply is not the one the real code takes and is dropped (counted); when the
// real outcome equals a branch the specification marked with a known-finding id, that is counted as a
// confirmed reproduction of the finding on the real code.
func replayGov(in string, shard, of int) {
	rep := hx.NewReport("chain-gov", "replay-gov")
	seen := map[string]bool{}
	confirmed := []interface{}{}
	err := hx.ReadBehaviours(in, func(idx int, beh []hx.Step) error {
		if idx%of != shard || len(beh) == 0 {
			return nil
		}
		rep.Behaviours++
		raw, _ := json.Marshal(beh)
		fresh := !seen[string(raw)]
		seen[string(raw)] = true
		w := variantWorld(beh[0].Int("v"))
		nontrivial := false
		mismatch := func(si int, step hx.Step, stage, what string, want, got interface{}) {
			kind := ""
			if tx, ok := step["tx"].(map[string]interface{}); ok {
				kind = hx.Step(tx).Str("kind")
			}
			rep.OpCounts["!"+step.Str("op")+"|"+stage+"|"+kind+"|"+fieldsOf(what)]++
			rep.AddMismatch(hx.Mismatch{Behaviour: idx, Step: si, Op: kind, What: stage + ": " + what, Want: want, Got: got, History: beh, Variant: stage})
		}
	steps:
		for si, step := range beh {
			rep.Steps++
			switch step.Str("op") {
			case "restart":
				w.restart()
				got := w.real()
				rep.OpCounts["restart"]++
				if ok, why := diff(step["st"], got); !ok {
					if ok2, _ := diff(step["alt"], got); ok2 && step.Str("branch") != "" {
						rep.OpCounts["branch-not-taken"]++
						break steps
					}
					mismatch(si, step, "Restart", why, nil, nil)
					break steps
				}
				nontrivial = true
				if k := step.Str("known"); k != "" {
					rep.OpCounts["known:"+k]++
					if len(confirmed) < 3 {
						confirmed = append(confirmed, map[string]interface{}{"known": k, "behaviour": beh, "step": si})
					}
				}
			case "tx":
				tx := hx.Step(step["tx"].(map[string]interface{}))
				rep.OpCounts[tx.Str("kind")+":"+step.Str("ante")]++
				w.begin()
				stop := false
				if ok, why := diff(step["begun"], w.real()); !ok {
					mismatch(si, step, "BeginBlock", why, nil, nil)
					stop = true
				}
				if !stop {
					t := w.buildTx(tx)
					res := w.s.DeliverTx(t.bz)
					if os.Getenv("VERIF_DEBUG") != "" {
						fmt.Fprintf(os.Stderr, "step %d %s: code=%d codespace=%s log=%.300s\n", si, tx.Str("kind"), res.Code, res.Codespace, res.Log)
					}
					if step.Bool("ok") != (res.Code == 0) {
						mismatch(si, step, "result", "message success", step.Bool("ok"), fmt.Sprintf("code=%d codespace=%s log=%.200s", res.Code, res.Codespace, res.Log))
						stop = true
					} else if ok, why := diff(step["st"], w.real()); !ok {
						mismatch(si, step, "DeliverTx", why, nil, nil)
						stop = true
					}
					if step.Str("ante") == "ok" {
						nontrivial = true
					}
				}
				w.s.EndBlock()
				w.commit()
				if stop {
					break steps
				}
			}
		}
		if fresh && nontrivial {
			rep.Nontrivial++
		}
		if idx%1500 == 11 {
			rep.AddSample(beh)
		}
		return nil
	})
	if err != nil {
		hx.Fatal("%v", err)
	}
	rep.Distinct = len(seen)
	rep.Extra["confirmed"] = confirmed
	rep.Print()
}
