package main

import (
	"verifharness/internal/hx"
)

type scenario struct {
	w   *world
	r   *recorder
	rep *hx.Report
	id  int64
}

func start(tw *hx.TraceWriter, rep *hx.Report, label string, seed int64, zero bool) *scenario {
	w := newWorld(seed, zero)
	sc := &scenario{w: w, r: &recorder{w: w, tw: tw}, rep: rep, id: 100}
	sc.r.reset(label)
	return sc
}

func (sc *scenario) next() int64 { sc.id++; return sc.id }
func (sc *scenario) block(txs ...txn) { sc.r.block(sc.rep, txs...) }
func (sc *scenario) restart()        { sc.r.restart(sc.rep) }
func (sc *scenario) param(from int, key string, valid bool) txn {
	return sc.w.changeParam(from, key, valid, sc.next())
}
func (sc *scenario) transfer(from, to int, amt int64) txn { return sc.w.daoTransfer(from, to, amt, sc.next()) }
func (sc *scenario) burn(from int, amt int64) txn          { return sc.w.daoBurn(from, amt, sc.next()) }
func (sc *scenario) feat(from int, fs ...interface{}) txn {
	return sc.w.upgrade(from, 1, "FEATURE", pairs(fs...), sc.next())
}
func (sc *scenario) version(from int, h int64, ver string, fs ...interface{}) txn {
	return sc.w.upgrade(from, h, ver, pairs(fs...), sc.next())
}

func pairs(fs ...interface{}) [][]interface{} {
	out := [][]interface{}{}
	for i := 0; i+1 < len(fs); i += 2 {
		h := fs[i+1]
		if n, ok := h.(int); ok {
			h = int64(n)
		}
		out = append(out, []interface{}{fs[i], h})
	}
	return out
}

// noise: a forged transaction (rightful owner's address and public key, junk signature, control handed to
// the intruder) goes through CheckTx and the app/simulate query.  Not recorded.
func (sc *scenario) noise(kinds ...string) {
	st := sc.w.s.Project()
	for _, k := range kinds {
		owner := -1
		switch k {
		case "acl":
			owner = keyIdxOf(sc.w.s, st.ACL["gov/acl"])
		case "daoOwner":
			owner = keyIdxOf(sc.w.s, st.ACL["gov/daoOwner"])
		case "upgrade":
			owner = keyIdxOf(sc.w.s, st.ACL["gov/upgrade"])
		case "transfer":
			owner = keyIdxOf(sc.w.s, st.DAOOwner)
		}
		if owner < 0 {
			continue
		}
		sc.w.s.Noise(sc.w.forged(k, owner, kUnrelated, sc.next()))
		sc.rep.OpCounts["noise:"+k]++
	}
}

// noiseTx: a correctly signed transaction that is only checked / simulated, never delivered
func (sc *scenario) noiseTx(t txn) {
	sc.w.s.Noise(t.bz)
	sc.rep.OpCounts["noise:signed-"+t.abs["kind"].(string)]++
}

func (sc *scenario) blockWith(inBlock func(), txs ...txn) { sc.r.blockWith(sc.rep, inBlock, txs...) }

func daoBal(sc *scenario) int64 { return sc.w.s.Project().Bal["dao"] }

// owners of a key in the running chain (read only to choose WHO sends; no expectation is kept)
func (sc *scenario) ownerIdx(key string) int {
	st := sc.w.s.Project()
	return keyIdxOf(sc.w.s, st.ACL[key])
}

// ---- scripted scenarios ---------------------------------------------------------------------

// every parameter key x sender x validity, three requests per block
func paramsScenario(tw *hx.TraceWriter, rep *hx.Report, seed int64, zero bool) {
	sc := start(tw, rep, "params", seed, zero)
	for _, key := range sortedCandKeys(sc.w.cands) {
		owner := sc.ownerIdx(key)
		if owner < 0 {
			continue
		}
		other := kOwner
		if owner == kOwner {
			other = kOwner2
		}
		sc.block(sc.param(kUnrelated, key, true), sc.param(other, key, true), sc.param(owner, key, false))
		if key != "gov/daoOwner" && key != "gov/acl" && key != "gov/upgrade" {
			sc.block(sc.param(owner, key, true))
		}
	}
}

func daoScenario(tw *hx.TraceWriter, rep *hx.Report, seed int64) {
	sc := start(tw, rep, "dao", seed, false)
	for _, from := range []int{kUnrelated, kOwner2, kOwner} {
		b := daoBal(sc)
		sc.block(sc.transfer(from, kFresh, 0), sc.transfer(from, kFresh, 1), sc.burn(from, 1), sc.burn(from, 0))
		sc.block(sc.transfer(from, kUnrelated, b+20000), sc.burn(from, b+20000))
	}
	sc.block(sc.param(kUnrelated, "gov/daoOwner", true))
	sc.block(sc.param(kOwner, "gov/daoOwner", true)) // a2 becomes the DAO owner
	sc.block(sc.transfer(kOwner, kFresh, 5), sc.transfer(kOwner2, kFresh, 5), sc.burn(kOwner, 7), sc.burn(kOwner2, 7))
	sc.block(sc.param(kOwner, "gov/acl", true)) // a8 becomes the owner of pos/MaxJailedBlocks
	sc.block(sc.param(kOwner, "pos/MaxJailedBlocks", true), sc.param(kUnrelated, "pos/MaxJailedBlocks", true))
	b := daoBal(sc)
	sc.block(sc.transfer(kOwner2, kUnrelated, b+1))
	sc.block(sc.transfer(kOwner2, kUnrelated, daoBal(sc)))
	sc.block(sc.burn(kOwner2, 1))
	sc.block()
	sc.block(sc.burn(kOwner2, daoBal(sc)))
}

func upgradeScenario(tw *hx.TraceWriter, rep *hx.Report, seed int64, zero bool) {
	sc := start(tw, rep, "upgrade", seed, zero)
	h := int(sc.w.s.Height)
	sc.block(sc.feat(kUnrelated, "F2", h+3))
	sc.block(sc.feat(kOwner, "F2", h+4, "F1", h+6))
	sc.restart()
	sc.block(sc.feat(kOwner, "F1", h+6, "F1", h+6))
	sc.block(sc.feat(kOwner, "F1", h+8))
	sc.block()
	sc.restart()
	// version upgrades name a past height (see MCChainGov.VerHeight)
	sc.block(sc.version(kOwner, 2, "0.2.0", "F2", h+9))
	sc.restart()
	sc.block(sc.feat(kOwner, "BLOCK", h+10)) // re-scheduling a feature whose activation extends the ACL
	sc.block(sc.param(kOwner, "gov/daoOwner", true))
	sc.block()
	sc.block() // height h+10: BeginBlock hands pocketcore/BlockByteSize to the (new) DAO owner
	sc.restart()
	sc.block(sc.version(kOwner, 1, "0.3.0", "F1", h+13))
	sc.block()
}

// intruderScenario: off-chain forgeries followed by the intruder's own, correctly signed transactions.
// Everything the intruder sends must be refused (the stored ACL / DAO owner never named it), and the
// rightful owners must still be served.
func intruderScenario(tw *hx.TraceWriter, rep *hx.Report, seed int64, zero bool) {
	sc := start(tw, rep, "intruder", seed, zero)
	h := int(sc.w.s.Height)
	in := kUnrelated
	attack := func() []txn {
		return []txn{sc.param(in, "application/StabilityAdjustment", true), sc.param(in, "gov/daoOwner", true),
			sc.param(in, "gov/acl", true), sc.transfer(in, in, 500), sc.burn(in, 7), sc.feat(in, "F2", h+9)}
	}
	sc.block(attack()...) // before any noise
	sc.noise("acl", "daoOwner", "transfer")
	sc.block(attack()...)
	sc.blockWith(func() { sc.noise("acl", "daoOwner", "transfer") }, attack()...) // noise inside the block
	sc.block(sc.param(kOwner, "application/StabilityAdjustment", true), sc.transfer(kOwner, kFresh, 3))
	// the rightful owner's own change, only simulated: nothing may stick, the intruder stays out
	sc.noiseTx(sc.param(kOwner, "gov/acl", true))
	sc.noiseTx(sc.param(kOwner, "gov/daoOwner", true))
	sc.block(attack()...)
	sc.block(sc.param(kOwner, "gov/daoOwner", true)) // now really: a2 is the DAO owner
	sc.noise("acl", "daoOwner", "transfer")
	sc.block(append(attack(), sc.transfer(kOwner, in, 5), sc.transfer(kOwner2, kFresh, 5))...)
	// a forged upgrade, simulated between two blocks (known finding F-C37-simulate while open), then the
	// intruder again, a real upgrade by the owner and a restart
	sc.noise("upgrade")
	sc.block(attack()...)
	sc.block(sc.feat(kOwner, "F1", h+12))
	sc.restart()
	sc.block(attack()...)
}

// random mixture
func randomScenario(tw *hx.TraceWriter, rep *hx.Report, idx, blocks int) {
	rng := hx.Rng(int64(idx)*104729 + 5)
	sc := start(tw, rep, "random", hx.Seed()*1000+int64(idx), rng.Intn(3) == 0)
	keys := sortedCandKeys(sc.w.cands)
	senders := []int{kOwner, kOwner, kOwner2, kOwner3, kUnrelated}
	for b := 0; b < blocks; b++ {
		if rng.Intn(7) == 0 {
			sc.restart()
		}
		forgeries := []string{"acl", "daoOwner", "transfer", "upgrade"}
		noisy := false
		if rng.Intn(3) == 0 { // off-chain forgeries between two blocks
			for i := 1 + rng.Intn(2); i > 0; i-- {
				sc.noise(forgeries[rng.Intn(4)])
			}
			noisy = true
		}
		var inBlock func()
		if rng.Intn(4) == 0 { // ... and inside the block (never a forged upgrade right before a delivered one)
			k := forgeries[rng.Intn(3)]
			inBlock = func() { sc.noise(k) }
			noisy = true
		}
		var txs []txn
		for i := rng.Intn(4); i > 0; i-- {
			from := senders[rng.Intn(len(senders))]
			switch x := rng.Intn(100); {
			case x < 40:
				key := keys[rng.Intn(len(keys))]
				if key == "gov/upgrade" || key == "pos/StakeDenom" {
					continue
				}
				if rng.Intn(2) == 0 {
					if o := sc.ownerIdx(key); o >= 0 {
						from = o
					}
				}
				txs = append(txs, sc.param(from, key, rng.Intn(4) > 0))
			case x < 70:
				bal := daoBal(sc)
				amt := []int64{0, 1, bal, bal + 1, 1 + rng.Int63n(50000), bal / 2}[rng.Intn(6)]
				if rng.Intn(2) == 0 {
					txs = append(txs, sc.transfer(from, []int{kFresh, kUnrelated, kOwner3}[rng.Intn(3)], amt))
				} else {
					txs = append(txs, sc.burn(from, amt))
				}
			default:
				h := int(sc.w.s.Height)
				fk := []string{"F1", "F2"}[rng.Intn(2)]
				switch rng.Intn(4) {
				case 0:
					txs = append(txs, sc.feat(from, fk, h+1+rng.Intn(6), []string{"F1", "F2"}[rng.Intn(2)], h+2+rng.Intn(6)))
				case 1:
					txs = append(txs, sc.version(from, int64(2+rng.Intn(2)), []string{"0.2.0", "0.3.0", "0.1.5"}[rng.Intn(3)], fk, h+1+rng.Intn(6)))
				default:
					txs = append(txs, sc.feat(from, fk, h+1+rng.Intn(8)))
				}
			}
		}
		if noisy { // the intruder follows up with its own, correctly signed transactions
			for i := 1 + rng.Intn(3); i > 0; i-- {
				switch rng.Intn(4) {
				case 0:
					txs = append(txs, sc.param(kUnrelated, keys[rng.Intn(len(keys))], true))
				case 1:
					txs = append(txs, sc.param(kUnrelated, "gov/daoOwner", true))
				case 2:
					txs = append(txs, sc.transfer(kUnrelated, kUnrelated, 1+rng.Int63n(5000)))
				default:
					txs = append(txs, sc.burn(kUnrelated, 1+rng.Int63n(5000)))
				}
			}
		}
		sc.blockWith(inBlock, txs...)
	}
}

func traceGov(out, mode string, n, blocks int) {
	tw, err := hx.NewTraceWriter(out)
	if err != nil {
		hx.Fatal("%v", err)
	}
	rep := hx.NewReport("chain-gov", "trace-gov-"+mode)
	seed := hx.Seed() * 100
	switch mode {
	case "params":
		paramsScenario(tw, rep, seed, false)
		rep.Behaviours++
	case "dao":
		daoScenario(tw, rep, seed+1)
		rep.Behaviours++
	case "upgrade":
		upgradeScenario(tw, rep, seed+2, false)
		upgradeScenario(tw, rep, seed+3, true)
		rep.Behaviours += 2
	case "intruder":
		intruderScenario(tw, rep, seed+4, false)
		intruderScenario(tw, rep, seed+5, true)
		rep.Behaviours += 2
	case "random":
		for i := 0; i < n; i++ {
			randomScenario(tw, rep, i, blocks)
			rep.Behaviours++
		}
	default:
		hx.Fatal("unknown mode %q", mode)
	}
	if err := tw.Close(); err != nil {
		hx.Fatal("%v", err)
	}
	rep.Extra["events"] = tw.N
	rep.Print()
}
