package main

import (
	"math/rand"
	"sort"

	sdk "github.com/pokt-network/pocket-core/types"
	appsTypes "github.com/pokt-network/pocket-core/x/apps/types"

	"verifharness/chainsim"
	"verifharness/internal/hx"
)

// A scenario drives one recorded chain.  Drivers read the projected state only to pick
// boundary inputs (amounts around the balance / the current stake); they keep no model of
// the expected results - those are computed by the specification when TLC validates the
// trace.
type scenario struct {
	w       *world
	r       *recorder
	rep     *hx.Report
	entropy int64
}

func startScenario(tw *hx.TraceWriter, rep *hx.Report, label string, a appCfg) *scenario {
	w := newWorld(a)
	sc := &scenario{w: w, r: &recorder{w: w, tw: tw}, rep: rep, entropy: 1}
	sc.r.reset(label)
	return sc
}

type txn struct {
	bz  []byte
	abs map[string]interface{}
}

func (sc *scenario) next() int64 { sc.entropy++; return sc.entropy }

func (sc *scenario) stake(app, signer int, chains []string, amount int64) txn {
	e := sc.next()
	return txn{sc.w.stakeTx(app, signer, chains, amount, e), sc.w.stakeAbs(app, signer, chains, amount, e)}
}
func (sc *scenario) transfer(from, to int) txn { return sc.stake(to, from, nil, 0) }
func (sc *scenario) unstake(app, signer int) txn {
	e := sc.next()
	return txn{sc.w.unstakeTx(app, signer, e), sc.w.simpleAbs("app_unstake", app, signer, e)}
}
func (sc *scenario) unjail(app, signer int) txn {
	e := sc.next()
	return txn{sc.w.unjailTx(app, signer, e), sc.w.simpleAbs("app_unjail", app, signer, e)}
}
func (sc *scenario) fund(from, to int, amount int64) txn {
	e := sc.next()
	return txn{sc.w.sendTx(from, sc.w.s.Addr(to), amount, e), sc.w.sendAbs(from, sc.w.s.Addr(to), amount, e)}
}
func (sc *scenario) donate(from int, amount int64) txn {
	e := sc.next()
	return txn{sc.w.sendTx(from, poolAddr(sc.w), amount, e), sc.w.sendAbs(from, poolAddr(sc.w), amount, e)}
}

// noise: off-chain activity that must leave no trace - a request whose signature is junk (the rightful
// application's public key, corrupted signature bytes) or that is correctly signed but never delivered goes
// through CheckTx and the app/simulate query (which does not verify signatures).  Not recorded: the next
// recorded step is judged from the last recorded post-state.
func (sc *scenario) noise(kind string, app, other int) {
	e := sc.next()
	o := sc.w.opts(app, e)
	o.CorruptSig = true
	var bz []byte
	switch kind {
	case "unstake": // somebody unstakes `app` without its signature
		bz = sc.w.s.SignTx(&appsTypes.MsgBeginUnstake{Address: sc.w.s.Addr(app)}, o)
	case "transfer": // `app` is handed to `other`
		bz = sc.w.s.SignTx(&appsTypes.MsgStake{PubKey: sc.w.s.Keys[other].PublicKey(), Value: sdk.ZeroInt()}, o)
	case "stake": // `app` is staked / bumped with its whole balance
		amt := sc.w.s.Project().Bal[sc.w.name(app)] - 10000
		if amt < 1 {
			amt = 1
		}
		bz = sc.w.s.SignTx(&appsTypes.MsgStake{PubKey: sc.w.s.Keys[app].PublicKey(), Chains: []string{"0001"}, Value: sdk.NewInt(amt)}, o)
	case "signed-unstake": // correctly signed, only checked / simulated
		bz = sc.w.unstakeTx(app, app, e)
	}
	sc.w.s.Noise(bz)
	sc.rep.OpCounts["noise:"+kind]++
}

// block records one block with time advanced by dt.
func (sc *scenario) block(dt int64, txs ...txn) {
	sc.r.begin(dt)
	for _, tx := range txs {
		res := sc.r.deliver(tx.bz, tx.abs)
		sc.rep.Steps++
		sc.rep.OpCounts[tx.abs["kind"].(string)+":"+classOf(res)]++
	}
	sc.r.end()
	sc.r.commit()
}

func defaultCfg(seed int64) appCfg {
	return appCfg{seed: seed, maxApps: 2, maxChains: 2, unstaking: 3, baseRelays: 100000, balances: baseBalances()}
}

var c1, c2, c12, c123 = []string{"0001"}, []string{"0002"}, []string{"0001", "0002"}, []string{"0001", "0002", "0003"}

const (
	k4 = 3 // key index of a4
	k5 = 4
	k6 = 5
	k7 = 6
	k8 = 7
	k9 = 8
)

// ---- scripted scenarios ------------------------------------------------------------------

func scripted(tw *hx.TraceWriter, rep *hx.Report, seed int64) int {
	n := 0
	// S1: life cycle with block-time jumps around the completion time, re-stake after completion
	{
		sc := startScenario(tw, rep, "lifecycle", defaultCfg(seed))
		sc.block(1)
		sc.block(1)
		for cycle, jump := range [][]int64{{1, 1, 1}, {3}, {7}, {2, 1}, {1, 2}} {
			sc.block(1, sc.stake(k4, k4, c1, 2000000+int64(cycle)*250000))
			sc.block(1, sc.stake(k4, k4, c12, 3000000+int64(cycle)*250000)) // bump + chains change
			sc.block(1, sc.stake(k4, k4, c2, 3000000+int64(cycle)*250000))  // chains only
			sc.block(1, sc.stake(k4, k4, c2, 2999999))                      // lowering refused
			// the admission limits on the edit path: too many chains (alone / with a bump), a duplicated id,
			// a malformed id, no chains, a bump the balance cannot cover
			cur := 3000000 + int64(cycle)*250000
			sc.block(1, sc.stake(k4, k4, c123, cur), sc.stake(k4, k4, c123, cur+100000))
			sc.block(1, sc.stake(k4, k4, []string{"0002", "0002"}, cur), sc.stake(k4, k4, []string{"0001", "zz"}, cur), sc.stake(k4, k4, nil, cur))
			sc.block(1, sc.stake(k4, k4, c2, cur+sc.w.s.Project().Bal[sc.w.name(k4)]), sc.stake(k4, k4, c2, cur))
			sc.block(1, sc.unstake(k4, k5))                                 // not its own request
			sc.block(1, sc.unstake(k4, k4))
			sc.block(1, sc.unstake(k4, k4)) // again: refused, completion time unchanged
			// the first jump list element(s) lead up to / over the completion time (3 after the unstake block)
			for i, dt := range jump {
				if i == len(jump)-1 {
					sc.block(dt, sc.stake(k4, k4, c1, 1500000)) // delivered while still unstaking: refused; matures at EndBlock
				} else {
					sc.block(dt)
				}
			}
			sc.block(1)
			sc.block(1, sc.unjail(k4, k4))
		}
		n++
	}
	// S2: transfers - chain of keys, target exists, wrong signers, staking a transferred-away key again
	{
		a := defaultCfg(seed + 1)
		sc := startScenario(tw, rep, "transfers", a)
		sc.block(1)
		sc.block(1)
		sc.block(1, sc.stake(k4, k4, c12, 2500000))
		sc.noise("unstake", k4, k8) // off-chain forgeries against the staked a4: nothing may stick
		sc.noise("transfer", k4, k8)
		sc.noise("stake", k4, k8)
		sc.noise("signed-unstake", k4, k8)
		sc.block(1, sc.transfer(k8, k5))                              // signer is not an application
		sc.block(1, sc.transfer(k4, k5))                              // a4 -> a5
		sc.block(1, sc.transfer(k4, k6))                              // a4 is gone now
		sc.block(1, sc.transfer(k5, k6), sc.transfer(k6, k4))         // a5 -> a6 -> a4 in one block
		sc.block(1, sc.stake(k5, k5, c1, 1000000))                    // previously transferred-away key stakes anew
		sc.block(1, sc.transfer(k4, k5))                              // target exists
		sc.block(1, sc.stake(k6, k6, c1, 1000000))                    // set is full (2)
		sc.block(1, sc.transfer(k5, k9))                              // to a key without an account
		sc.block(1, sc.unstake(k9, k9))                               // the new key cannot pay the fee yet
		sc.block(1, sc.fund(0, k9, 50000))
		sc.block(1, sc.unstake(k4, k4))                               // slot opens at begin-unstake
		sc.block(1, sc.stake(k6, k6, c1, 1000000), sc.transfer(k4, k7)) // unstaking signer: ante accepts, handler refuses
		sc.block(1, sc.unstake(k9, k9))
		sc.block(1, sc.transfer(k6, k4))                              // target exists (unstaking)
		sc.block(5)
		sc.block(1, sc.transfer(k6, k4), sc.transfer(k4, k6))
		sc.block(1, sc.stake(k6, k4, c1, 1000000)) // ordinary stake signed by another application: unauthorized
		n++
	}
	// S3: several applications in one queue slot / several slots maturing in one block
	{
		a := defaultCfg(seed + 2)
		a.maxApps, a.unstaking, a.adjustment = 4, 2, 5
		sc := startScenario(tw, rep, "queue", a)
		sc.block(1)
		sc.block(1)
		sc.block(1, sc.stake(k4, k4, c1, 1000000), sc.stake(k5, k5, c12, 1200000), sc.stake(k6, k6, c2, 1999999), sc.stake(k8, k8, c1, 3000001))
		sc.block(1, sc.unstake(k6, k6), sc.unstake(k4, k4), sc.unstake(k5, k5)) // one slot, stored order a6,a4,a5
		sc.block(1, sc.unstake(k8, k8), sc.stake(k4, k4, c1, 1000000))
		sc.block(1) // first slot due
		sc.block(1) // second slot due
		sc.block(1, sc.stake(k4, k4, c1, 1000000), sc.stake(k5, k5, c1, 1000000))
		sc.block(1, sc.unstake(k4, k4))
		sc.block(1, sc.unstake(k5, k5))
		sc.block(9) // both slots at once
		sc.block(1, sc.stake(k4, k4, c1, 1000000), sc.unstake(k4, k4))
		sc.block(2)
		n++
	}
	// S4: the transfer feature activates at height 8
	{
		a := defaultCfg(seed + 3)
		a.transferAt = 8
		sc := startScenario(tw, rep, "feature", a)
		sc.block(1)
		sc.block(1)
		sc.block(1, sc.stake(k4, k4, c1, 1500000))
		sc.block(1, sc.transfer(k4, k5))
		sc.block(1, sc.stake(k4, k4, nil, 0))
		sc.block(1)
		sc.block(1, sc.transfer(k4, k5)) // height 7
		sc.block(1, sc.transfer(k4, k5)) // height 8
		sc.block(1, sc.transfer(k5, k4))
		n++
	}
	// S5: participation rate on, and a relay base that is not a multiple of 100: the allowance is
	// bound from the log and only its relation to stake / bump / transfer is judged
	for i, base := range []int64{100000, 150} {
		a := defaultCfg(seed + 4 + int64(i))
		a.participation = i == 0
		a.baseRelays = base
		a.apps = []chainsim.AppSpec{{Key: k5, Tokens: 1500000, Chains: c1}}
		sc := startScenario(tw, rep, "relays-bound", a)
		sc.block(1)
		sc.block(1)
		sc.block(1, sc.stake(k4, k4, c1, 2000000))
		sc.block(1, sc.stake(k4, k4, c2, 2000000))
		sc.block(1, sc.stake(k4, k4, c2, 2750000))
		sc.block(1, sc.transfer(k4, k6))
		sc.block(1, sc.stake(k5, k5, c1, 1500001))
		sc.block(1, sc.unstake(k6, k6))
		sc.block(4)
		n++
	}
	// S6: unstaking time 1, several requests of one application in one block
	{
		a := defaultCfg(seed + 6)
		a.unstaking, a.maxApps = 1, 3
		sc := startScenario(tw, rep, "fast", a)
		sc.block(1)
		sc.block(1)
		sc.block(1, sc.stake(k4, k4, c1, 1000000), sc.stake(k4, k4, c1, 1000001), sc.unstake(k4, k4), sc.stake(k4, k4, c1, 1000001))
		sc.block(1, sc.stake(k4, k4, c1, 1000000)) // due at this block's end
		sc.block(1, sc.stake(k4, k4, c1, 1000000), sc.transfer(k4, k5), sc.unstake(k5, k5), sc.transfer(k5, k4))
		sc.block(1)
		sc.block(1, sc.stake(k4, k4, c123, 1000000), sc.stake(k4, k4, []string{"zz"}, 1000000), sc.stake(k4, k4, nil, 1000000), sc.stake(k4, k4, c1, 0))
		n++
	}
	return n
}

// legacyRestake: a chain that lives on both sides of the codec (amino -> proto) upgrade height K = 9.
// Before K there is no edit-stake, MaxApplications is not enforced, transfers do not exist and a matured
// application keeps a record (Unstaked, 0 tokens); that legacy record stakes again after K.
func legacyRestake(tw *hx.TraceWriter, rep *hx.Report, seed int64) int {
	a := defaultCfg(seed)
	a.codecAt, a.unstaking, a.maxApps = 9, 2, 2
	a.apps = []chainsim.AppSpec{{Key: k4, Tokens: 2000000, Chains: c1}, {Key: k6, Tokens: 1500001, Chains: c12}}
	sc := startScenario(tw, rep, "legacy-restake", a)
	sc.block(1)                                                         // h1
	sc.block(1)                                                         // h2
	sc.block(1, sc.stake(k5, k5, c1, 1200000))                          // h3: a third application although MaxApplications = 2
	sc.block(1, sc.stake(k5, k5, c12, 1300000), sc.unstake(k5, k5))     // h4: no edit-stake before K; begin unstaking (due 6)
	sc.block(1, sc.transfer(k4, k7), sc.stake(k5, k5, c1, 1200000))     // h5: no transfers before K; unstaking: refused
	sc.block(1)                                                         // h6: a5 matures, its record stays
	if r, ok := sc.w.s.Project().App[sc.w.name(k5)]; ok && r.Status == 0 && r.Tokens == 0 {
		rep.OpCounts["legacy-record-present"]++
	}
	sc.block(1, sc.stake(k8, k8, c1, 1000000), sc.unstake(k8, k8))      // h7: a8 stakes and leaves at once (due 9 = K)
	sc.block(1, sc.unstake(k6, k6))                                     // h8: a6 is unstaking across K (due 10)
	sc.block(1, sc.stake(k8, k8, c1, 1000000))                          // h9 = K: state conversion in BeginBlock; a8 still unstaking: refused; matures (deleted)
	sc.block(1, sc.stake(k8, k8, c1, 1000000), sc.stake(k5, k5, c1, 1300000)) // h10: a6 matures; a8 fresh; then the set is full for a5
	sc.block(1, sc.unstake(k8, k8))                                     // h11: a slot opens
	sc.block(1, sc.stake(k5, k5, c1, 1300000))                          // h12: the legacy record stakes again: fresh-stake path
	sc.block(1, sc.stake(k5, k5, c12, 1800000))                         // h13: edit-stake exists now
	sc.block(1, sc.transfer(k5, k7), sc.transfer(k7, k5))               // h14: so do transfers
	sc.block(1, sc.unstake(k5, k5))
	sc.block(1)
	sc.block(1) // a5 matures: the record is deleted now
	sc.block(1, sc.stake(k5, k5, c1, 1000000))
	return 1
}

// donation: the known finding - coins sent to the pool's address
func donation(tw *hx.TraceWriter, rep *hx.Report, seed int64) int {
	sc := startScenario(tw, rep, "donation", defaultCfg(seed))
	sc.block(1)
	sc.block(1)
	sc.block(1, sc.stake(k4, k4, c1, 2000000))
	sc.block(1, sc.donate(k7, 12345))
	sc.block(1, sc.unstake(k4, k4))
	sc.block(3)
	sc.block(1, sc.donate(k7, 1))
	return 1
}

// ---- random scenarios ----------------------------------------------------------------------

var chainPool = []string{"0001", "0002", "0003", "0021", "00a1"}

func pickChains(rng *rand.Rand, maxChains int64) []string {
	k := rng.Intn(int(maxChains) + 2)
	if k > len(chainPool) {
		k = len(chainPool)
	}
	perm := rng.Perm(len(chainPool))[:k]
	out := []string{}
	for _, i := range perm {
		out = append(out, chainPool[i])
	}
	if len(out) > 0 && rng.Intn(20) == 0 {
		out[0] = out[len(out)-1] // a duplicated chain id
	}
	sort.Strings(out)
	if rng.Intn(25) == 0 {
		out = append(out, "zz") // malformed id (sorts last)
	}
	return out
}

func randomTrace(tw *hx.TraceWriter, rep *hx.Report, idx int, blocks int) {
	rng := hx.Rng(int64(idx)*7919 + 77)
	a := appCfg{seed: hx.Seed()*1000 + int64(idx), maxApps: 2 + int64(rng.Intn(3)), maxChains: 1 + int64(rng.Intn(3)),
		unstaking: 1 + int64(rng.Intn(4)), baseRelays: []int64{100000, 100000, 20000, 100, 150}[rng.Intn(5)],
		adjustment: []int64{0, 0, 5}[rng.Intn(3)], participation: rng.Intn(7) == 0}
	if rng.Intn(4) == 0 {
		a.transferAt = 5 + int64(rng.Intn(8))
	}
	a.balances = map[int]int64{0: 40000000, 1: 40000000, 6: 300000}
	for k := k4; k <= k8; k++ {
		if k == k7 {
			continue
		}
		a.balances[k] = 1100000 + rng.Int63n(9000000)
	}
	a.balances[k9] = 15000
	for i := 0; i < rng.Intn(3); i++ {
		a.apps = append(a.apps, chainsim.AppSpec{Key: k4 + i, Tokens: 1000001 + rng.Int63n(2000000), Chains: c1})
	}
	sc := startScenario(tw, rep, "random", a)
	keys := []int{k4, k5, k6, k8, k9, 9} // a4 a5 a6 a8 a9 a10
	pick := func() int { return keys[rng.Intn(len(keys))] }
	for b := 0; b < blocks; b++ {
		dt := []int64{1, 1, 1, 1, 1, 2, 2, 3, 6}[rng.Intn(9)]
		if rng.Intn(3) == 0 {
			for i := 1 + rng.Intn(2); i > 0; i-- {
				sc.noise([]string{"unstake", "transfer", "stake", "signed-unstake"}[rng.Intn(4)], pick(), pick())
			}
		}
		var txs []txn
		for i := rng.Intn(4); i > 0; i-- {
			st := sc.w.s.Project()
			staked := []int{}
			for _, k := range keys {
				if r, ok := st.App[sc.w.name(k)]; ok && r.Status == 2 {
					staked = append(staked, k)
				}
			}
			pickStaked := func() int {
				if len(staked) > 0 && rng.Intn(10) < 7 {
					return staked[rng.Intn(len(staked))]
				}
				return pick()
			}
			switch x := rng.Intn(100); {
			case x < 38: // stake / edit
				app := pick()
				bal := st.Bal[sc.w.name(app)]
				avail := bal - 10000
				var amt int64
				if r, ok := st.App[sc.w.name(app)]; ok && r.Status == 2 {
					amt = []int64{r.Tokens - 1, r.Tokens, r.Tokens + 1, r.Tokens + 1 + rng.Int63n(1500000), r.Tokens + avail, r.Tokens + avail + 1, 1 + rng.Int63n(3000000)}[rng.Intn(7)]
				} else {
					amt = []int64{999999, 1000000, 1000000 + rng.Int63n(2000000), avail, avail + 1, 1 + rng.Int63n(900000), 0}[rng.Intn(7)]
				}
				if amt < 0 {
					amt = 1
				}
				signer := app
				if rng.Intn(12) == 0 {
					signer = pick()
				}
				txs = append(txs, sc.stake(app, signer, pickChains(rng, a.maxChains), amt))
			case x < 58: // transfer
				from, to := pickStaked(), pick()
				if from == to {
					to = keys[(rng.Intn(len(keys)-1)+1+indexOf(keys, from))%len(keys)]
				}
				txs = append(txs, sc.transfer(from, to))
			case x < 78: // begin unstake
				app := pickStaked()
				signer := app
				if rng.Intn(8) == 0 {
					signer = pick()
				}
				txs = append(txs, sc.unstake(app, signer))
			case x < 81:
				app := pick()
				txs = append(txs, sc.unjail(app, app))
			case x < 97: // fund an application key from a validator's account
				txs = append(txs, sc.fund(rng.Intn(2), pick(), 10000+rng.Int63n(2500000)))
			default:
				txs = append(txs, sc.donate(k7, 1+rng.Int63n(5000)))
			}
		}
		sc.block(dt, txs...)
	}
}

func indexOf(xs []int, x int) int {
	for i, v := range xs {
		if v == x {
			return i
		}
	}
	return 0
}

func traceApps(out, mode string, n, blocks int) {
	tw, err := hx.NewTraceWriter(out)
	if err != nil {
		hx.Fatal("%v", err)
	}
	rep := hx.NewReport("chain-apps", "trace-apps-"+mode)
	switch mode {
	case "random":
		for i := 0; i < n; i++ {
			randomTrace(tw, rep, i, blocks)
			rep.Behaviours++
		}
	case "scripted":
		rep.Behaviours += scripted(tw, rep, hx.Seed()*100)
		rep.Behaviours += legacyRestake(tw, rep, hx.Seed()*100+50)
	case "donation":
		rep.Behaviours += donation(tw, rep, hx.Seed()*100)
	default:
		hx.Fatal("unknown mode %q", mode)
	}
	if err := tw.Close(); err != nil {
		hx.Fatal("%v", err)
	}
	rep.Extra["events"] = tw.N
	rep.Print()
}
