package main

import (
	"encoding/json"
	"fmt"
	"os"
	"reflect"
	"sort"
	"strings"

	"verifharness/internal/hx"
)

// normalise brings a JSON value (decoded) of a focus state into canonical form: the
// staking-set index is a SET in the specification (printed in TLC's order), TLA+ empty
// functions print as [].
func normalise(m map[string]interface{}) map[string]interface{} {
	out := map[string]interface{}{}
	for _, k := range focusFields {
		v, ok := m[k]
		if !ok {
			continue
		}
		switch k {
		case "bal", "nopk", "app":
			if a, isArr := v.([]interface{}); isArr && len(a) == 0 {
				v = map[string]interface{}{}
			}
		case "appUnst": // names inside a queue slot are compared as a bag (state conversion re-appends in store order)
			arr, _ := v.([]interface{})
			var slots []interface{}
			for _, e := range arr {
				pr, _ := e.([]interface{})
				if len(pr) == 2 {
					ns, _ := pr[1].([]interface{})
					strs := make([]string, 0, len(ns))
					for _, n := range ns {
						strs = append(strs, fmt.Sprint(n))
					}
					sort.Strings(strs)
					slots = append(slots, []interface{}{pr[0], strings.Join(strs, ",")})
				}
			}
			v = slots
			if slots == nil {
				v = []interface{}{}
			}
		case "appIx":
			arr, _ := v.([]interface{})
			strs := make([]string, 0, len(arr))
			for _, e := range arr {
				b, _ := json.Marshal(e)
				strs = append(strs, string(b))
			}
			sort.Strings(strs)
			v = strings.Join(strs, " ")
		}
		out[k] = v
	}
	return out
}

func roundtrip(v interface{}) map[string]interface{} {
	b, _ := json.Marshal(v)
	var m map[string]interface{}
	_ = json.Unmarshal(b, &m)
	return m
}

func short(v interface{}) string {
	b, _ := json.Marshal(v)
	if len(b) > 300 {
		return string(b[:300]) + "..."
	}
	return string(b)
}

// diff lists the focus fields on which the specification's state and the real state differ.
func diff(want interface{}, got map[string]interface{}) (bool, string) {
	w, ok := want.(map[string]interface{})
	if !ok {
		return false, "expected state is not an object"
	}
	wn, gn := normalise(w), normalise(roundtrip(got))
	var parts []string
	for _, k := range focusFields {
		if !reflect.DeepEqual(wn[k], gn[k]) {
			if wm, ok1 := wn[k].(map[string]interface{}); ok1 {
				if gm, ok2 := gn[k].(map[string]interface{}); ok2 {
					keys := map[string]bool{}
					for x := range wm {
						keys[x] = true
					}
					for x := range gm {
						keys[x] = true
					}
					ks := make([]string, 0, len(keys))
					for x := range keys {
						ks = append(ks, x)
					}
					sort.Strings(ks)
					for _, x := range ks {
						if !reflect.DeepEqual(wm[x], gm[x]) {
							wr, ok3 := wm[x].(map[string]interface{})
							gr, ok4 := gm[x].(map[string]interface{})
							if ok3 && ok4 { // records (applications): name the differing fields
								for _, f := range sortedKeys(wr, gr) {
									if !reflect.DeepEqual(wr[f], gr[f]) {
										parts = append(parts, fmt.Sprintf("%s[%s].%s: spec=%s real=%s", k, x, f, short(wr[f]), short(gr[f])))
									}
								}
								continue
							}
							parts = append(parts, fmt.Sprintf("%s[%s]: spec=%s real=%s", k, x, short(wm[x]), short(gm[x])))
						}
					}
					continue
				}
			}
			parts = append(parts, fmt.Sprintf("%s: spec=%s real=%s", k, short(wn[k]), short(gn[k])))
		}
	}
	return len(parts) == 0, strings.Join(parts, "; ")
}

func sortedKeys(a, b map[string]interface{}) []string {
	keys := map[string]bool{}
	for x := range a {
		keys[x] = true
	}
	for x := range b {
		keys[x] = true
	}
	ks := make([]string, 0, len(keys))
	for x := range keys {
		ks = append(ks, x)
	}
	sort.Strings(ks)
	return ks
}

// fieldsOf extracts the field paths from a diff description ("a[b].c: spec=.. real=..; ...").
func fieldsOf(why string) string {
	var fs []string
	for _, p := range strings.Split(why, "; ") {
		if i := strings.Index(p, ": spec="); i > 0 {
			fs = append(fs, p[:i])
		}
	}
	return strings.Join(fs, ",")
}

func (w *world) realFocus() map[string]interface{} {
	core, _ := project(w.s)
	f := focus(core)
	delete(f, "rest")
	return f
}

func chainsOf(v interface{}) []string {
	arr, _ := v.([]interface{})
	out := []string{}
	for _, e := range arr {
		if s, ok := e.(string); ok {
			out = append(out, s)
		}
	}
	return out
}

// buildTx turns the abstract transaction of a behaviour step into really signed bytes.
func (w *world) buildTx(tx hx.Step) []byte {
	signer := keyIdxOf(w.s, tx.Str("signer"))
	if signer < 0 {
		hx.Fatal("behaviour names unknown signer %q", tx.Str("signer"))
	}
	id := int64(tx.Int("id"))
	switch tx.Str("kind") {
	case "app_stake":
		return w.stakeTx(keyIdxOf(w.s, tx.Str("app")), signer, chainsOf(tx["chains"]), int64(tx.Int("amount")), id)
	case "app_unstake":
		return w.unstakeTx(keyIdxOf(w.s, tx.Str("app")), signer, id)
	case "app_unjail":
		return w.unjailTx(keyIdxOf(w.s, tx.Str("app")), signer, id)
	case "send":
		return w.sendTx(keyIdxOf(w.s, tx.Str("from")), addrOf(w.s, tx.Str("to")), int64(tx.Int("amount")), id)
	}
	hx.Fatal("behaviour has unknown transaction kind %q", tx.Str("kind"))
	return nil
}

// replayApps replays behaviours of MCChainApps block by block on a chain built exactly
// like the variant the behaviour started from, comparing the projected state after
// BeginBlock, DeliverTx and EndBlock with the specification's.
func replayApps(in string, shard, of int) {
	rep := hx.NewReport("chain-apps", "replay-apps")
	seen := map[string]bool{}
	err := hx.ReadBehaviours(in, func(idx int, beh []hx.Step) error {
		if idx%of != shard || len(beh) == 0 {
			return nil
		}
		rep.Behaviours++
		raw, _ := json.Marshal(beh)
		fresh := !seen[string(raw)]
		seen[string(raw)] = true
		w := variantWorld(beh[0].Int("v"))
		nontrivial := false
		mismatch := func(si int, step hx.Step, stage, what string, want, got interface{}) {
			kind := ""
			if tx, ok := step["tx"].(map[string]interface{}); ok {
				kind = hx.Step(tx).Str("kind")
			}
			// every divergence is counted by (request class | stage | message kind | the specification's reason for
			// refusing the request | differing fields) so that the check can attribute ALL of them to properties,
			// not only the few kept verbatim
			rep.OpCounts["!"+step.Str("cls")+"|"+stage+"|"+kind+"|"+step.Str("why")+"|"+fieldsOf(what)]++
			rep.AddMismatch(hx.Mismatch{Behaviour: idx, Step: si, Op: step.Str("cls"), What: stage + ": " + what,
				Want: want, Got: got, History: beh, Variant: stage})
		}
		for si, step := range beh {
			rep.Steps++
			rep.OpCounts[step.Str("cls")]++
			w.begin(int64(step.Int("dt")))
			stop := false
			if ok, why := diff(step["begun"], w.realFocus()); !ok {
				mismatch(si, step, "BeginBlock", why, nil, nil)
				stop = true
			}
			if !stop && step.Bool("hasTx") {
				tx := hx.Step(step["tx"].(map[string]interface{}))
				res := w.s.DeliverTx(w.buildTx(tx))
				if os.Getenv("VERIF_DEBUG") != "" {
					fmt.Fprintf(os.Stderr, "step %d %s: code=%d codespace=%s log=%.300s\n", si, tx.Str("kind"), res.Code, res.Codespace, res.Log)
				}
				if step.Bool("ok") != (res.Code == 0) {
					mismatch(si, step, "result", "message success", step.Bool("ok"), fmt.Sprintf("code=%d codespace=%s log=%.200s", res.Code, res.Codespace, res.Log))
					stop = true
				} else if ok, why := diff(step["st"], w.realFocus()); !ok {
					mismatch(si, step, "DeliverTx", why, nil, nil)
					stop = true
				}
				if step.Bool("ok") || step.Str("ante") == "ok" {
					nontrivial = true
				}
			}
			w.s.EndBlock()
			if !stop {
				if ok, why := diff(step["end"], w.realFocus()); !ok {
					mismatch(si, step, "EndBlock", why, nil, nil)
					stop = true
				}
			}
			w.s.Commit()
			if !step.Bool("hasTx") && !reflect.DeepEqual(step["st"], step["end"]) {
				nontrivial = true // a tick that matures an application
			}
			if stop {
				break
			}
		}
		if fresh && nontrivial {
			rep.Nontrivial++
		}
		if idx%2000 == 7 {
			rep.AddSample(beh)
		}
		return nil
	})
	if err != nil {
		hx.Fatal("%v", err)
	}
	rep.Distinct = len(seen)
	rep.Print()
}
