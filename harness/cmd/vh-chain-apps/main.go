// vh-chain-apps: chain module `apps` (x/apps driven through ABCI by harness/chainsim).
//
//	init-state  -out F                 projections of the design-model variants (TLC's initial states)
//	replay-apps -in F [-shard i -of n] replay TLC behaviours of MCChainApps on the real application
//	trace-apps  -out F -n N -blocks B [-mode random|scripted|donation]
//	                                   record ABCI traces of random / scripted application scenarios
package main

import (
	"encoding/json"
	"flag"
	"fmt"
	"os"

	sdk "github.com/pokt-network/pocket-core/types"

	"verifharness/internal/hx"
)

func initState(out string) {
	var all []interface{}
	for v := 1; v <= nVariants; v++ {
		w := variantWorld(v)
		core, cfg := project(w.s)
		votes := w.s.Votes(nil)
		prop := ""
		if len(votes) > 0 {
			prop = w.s.Name(sdk.Address(votes[0].Validator.Address))
		}
		all = append(all, map[string]interface{}{"st": core, "cfg": cfg, "h": w.s.Height, "t": w.t, "proposer": prop})
	}
	b, _ := json.Marshal(all)
	if err := os.WriteFile(out, b, 0644); err != nil {
		hx.Fatal("%v", err)
	}
	hx.NewReport("chain-apps", "init-state").Print()
}

func main() {
	if len(os.Args) < 2 {
		fmt.Fprintln(os.Stderr, "usage: vh-chain-apps <init-state|replay-apps|trace-apps> ...")
		os.Exit(2)
	}
	fs := flag.NewFlagSet(os.Args[1], flag.ExitOnError)
	out := fs.String("out", "", "output file")
	in := fs.String("in", "", "behaviour file")
	n := fs.Int("n", 5, "number of traces")
	blocks := fs.Int("blocks", 30, "blocks per trace")
	mode := fs.String("mode", "random", "random | scripted | donation")
	shard := fs.Int("shard", 0, "shard index")
	of := fs.Int("of", 1, "number of shards")
	_ = fs.Parse(os.Args[2:])
	switch os.Args[1] {
	case "init-state":
		initState(*out)
	case "replay-apps":
		replayApps(*in, *shard, *of)
	case "trace-apps":
		traceApps(*out, *mode, *n, *blocks)
	default:
		fmt.Fprintln(os.Stderr, "unknown command", os.Args[1])
		os.Exit(2)
	}
}
