package main

import (
	"bytes"
	"crypto/sha256"
	"encoding/binary"
	"encoding/hex"
	"encoding/json"
	"fmt"
	"sort"
	"time"

	sdk "github.com/pokt-network/pocket-core/types"
	appsTypes "github.com/pokt-network/pocket-core/x/apps/types"
	nodesTypes "github.com/pokt-network/pocket-core/x/nodes/types"
	abci "github.com/tendermint/tendermint/abci/types"

	"verifharness/chainsim"
	"verifharness/internal/hx"
)

// world is a chain plus the clock of this module's scenarios: block times are chosen by
// the scenario (t = block intervals since genesis), not derived from the height.
type world struct {
	s *chainsim.Sim
	t int64 // time of the last begun block
}

func (w *world) timeOf(t int64) *time.Time {
	tm := chainsim.T0.Add(time.Duration(t) * chainsim.BlockInterval)
	return &tm
}

// begin starts a block dt intervals after the previous one.
func (w *world) begin(dt int64) {
	w.t += dt
	w.s.BeginBlock(chainsim.BlockOpts{Time: w.timeOf(w.t)})
}

// block runs a whole block (no recording).
func (w *world) block(dt int64, txs ...[]byte) []abci.ResponseDeliverTx {
	w.begin(dt)
	var out []abci.ResponseDeliverTx
	for _, tx := range txs {
		out = append(out, w.s.DeliverTx(tx))
	}
	w.s.EndBlock()
	w.s.Commit()
	return out
}

// ---- configuration ------------------------------------------------------------------

type appCfg struct {
	seed          int64
	maxApps       int64
	maxChains     int64
	unstaking     int64 // block intervals
	baseRelays    int64
	adjustment    int64
	participation bool
	transferAt    int64 // activation height of the AppTransfer feature
	codecAt       int64 // height K of the amino -> proto codec upgrade (0 / 1: every block is past it)
	apps          []chainsim.AppSpec
	balances      map[int]int64
}

func baseBalances() map[int]int64 {
	// a1,a2 validators; a4..a6 the application keys of the design model; a7 donor; a8 funded spare
	return map[int]int64{0: 40000000, 1: 40000000, 3: 20000000, 4: 5000000, 5: 3000000, 6: 300000, 7: 4000000}
}

func (a appCfg) config() chainsim.Config {
	feats := chainsim.DefaultFeatures()
	if a.codecAt > 1 { // no feature can be active before the codec upgrade
		for k := range feats {
			feats[k] = a.codecAt + 1
		}
	}
	if a.transferAt > 0 {
		feats["AppTransfer"] = a.transferAt
	}
	return chainsim.Config{Seed: a.seed, NKeys: 10, Balances: a.balances, CodecUpgradeAt: a.codecAt,
		Nodes: []chainsim.NodeSpec{{Key: 0, Output: -1, Tokens: 5000000, Chains: []string{"0001"}},
			{Key: 1, Output: -1, Tokens: 3000000, Chains: []string{"0001", "0002"}}},
		Apps: a.apps, DAOTokens: 1000000, DAOOwner: 0, Servicer: -1, Features: feats,
		AppParams: func(p *appsTypes.Params) {
			p.MaxApplications = a.maxApps
			p.MaxChains = a.maxChains
			p.UnstakingTime = time.Duration(a.unstaking) * chainsim.BlockInterval
			p.BaseRelaysPerPOKT = a.baseRelays
			p.StabilityAdjustment = a.adjustment
			p.ParticipationRateOn = a.participation
		}}
}

func newWorld(a appCfg) *world {
	return &world{s: chainsim.New(a.config())}
}

// ---- design-model variants: a chain built by genesis + a fixed warm-up script ---------

const nVariants = 5

func variantWorld(v int) *world {
	a := appCfg{seed: hx.Seed(), maxApps: 2, maxChains: 2, unstaking: 2, baseRelays: 100000, balances: baseBalances()}
	two := []chainsim.AppSpec{{Key: 3, Tokens: 2000000, Chains: []string{"0001"}}, {Key: 4, Tokens: 1500000, Chains: []string{"0001", "0002"}}}
	switch v {
	case 1: // no application staked
	case 2: // the application set is full (MaxApplications = 2)
		a.apps = two
	case 3: // a4 staked, a5 unstaking and due in the next block
		a.apps = two
	case 4: // three slots, non-zero stability adjustment, a4 staked
		a.maxApps = 3
		a.adjustment = 7
		a.apps = two[:1]
	case 5: // two blocks before the codec upgrade height (K = 9): a4 staked, a5 a legacy record (Unstaked, 0 tokens)
		a.codecAt = 9
		a.apps = two
	default:
		hx.Fatal("unknown variant %d", v)
	}
	w := newWorld(a)
	w.block(1)
	w.block(1)
	if v == 5 {
		r := w.block(1, w.unstakeTx(4, 4, 900001)) // h3: due 5
		if r[0].Code != 0 {
			hx.Fatal("variant 5 warm-up: unstake failed: %s", r[0].Log)
		}
		for w.s.Height < 7 {
			w.block(1)
		}
		if rec, ok := w.s.Project().App[w.name(4)]; !ok || rec.Status != 0 {
			hx.Fatal("variant 5 warm-up: no legacy record")
		}
	}
	if v == 3 {
		tx := w.unstakeTx(4, 4, 900001)
		r := w.block(1, tx)
		if r[0].Code != 0 {
			hx.Fatal("variant 3 warm-up: unstake failed: %s", r[0].Log)
		}
		w.block(1)
	}
	return w
}

// ---- transactions -------------------------------------------------------------------------

// opts: transactions are built between blocks, for the NEXT block; below the codec upgrade height they
// are amino encoded (the decoder is gated on the last committed height).
func (w *world) opts(signer int, entropy int64) chainsim.TxOpts {
	return chainsim.TxOpts{Signer: w.s.Keys[signer], Fee: 10000, Entropy: entropy, Legacy: w.s.Height < w.s.Cfg.CodecUpgradeAt}
}

func (w *world) name(i int) string { return w.s.Name(w.s.Addr(i)) }

func (w *world) abs(kind string, o chainsim.TxOpts, signer int, id int64) map[string]interface{} {
	m := w.s.SigFields(o, signer)
	m["kind"] = kind
	m["id"] = id
	m["app"] = ""
	m["chains"] = []string{}
	m["amount"] = int64(0)
	m["from"] = ""
	m["to"] = ""
	m["dup"] = "no"
	return m
}

// stakeTx: MsgStake naming key `app`, signed by key `signer` (a transfer when they differ,
// chains are empty and amount is 0).
func (w *world) stakeTx(app, signer int, chains []string, amount int64, entropy int64) []byte {
	if len(chains) == 0 {
		// an empty list must be nil: the sign bytes are the message's JSON, and a decoded message
		// has nil chains ("null"), so a client signing over "[]" produces an invalid signature
		chains = nil
	}
	msg := &appsTypes.MsgStake{PubKey: w.s.Keys[app].PublicKey(), Chains: chains, Value: sdk.NewInt(amount)}
	return w.s.SignTx(msg, w.opts(signer, entropy))
}

func (w *world) stakeAbs(app, signer int, chains []string, amount int64, entropy int64) map[string]interface{} {
	m := w.abs("app_stake", w.opts(signer, entropy), signer, entropy)
	m["app"] = w.name(app)
	if chains == nil {
		chains = []string{}
	}
	m["chains"] = chains
	m["amount"] = amount
	return m
}

func (w *world) unstakeTx(app, signer int, entropy int64) []byte {
	return w.s.SignTx(&appsTypes.MsgBeginUnstake{Address: w.s.Addr(app)}, w.opts(signer, entropy))
}

func (w *world) unjailTx(app, signer int, entropy int64) []byte {
	return w.s.SignTx(&appsTypes.MsgUnjail{AppAddr: w.s.Addr(app)}, w.opts(signer, entropy))
}

func (w *world) simpleAbs(kind string, app, signer int, entropy int64) map[string]interface{} {
	m := w.abs(kind, w.opts(signer, entropy), signer, entropy)
	m["app"] = w.name(app)
	return m
}

func (w *world) sendTx(from int, to sdk.Address, amount int64, entropy int64) []byte {
	return w.s.SignTx(&nodesTypes.MsgSend{FromAddress: w.s.Addr(from), ToAddress: to, Amount: sdk.NewInt(amount)}, w.opts(from, entropy))
}

func (w *world) sendAbs(from int, to sdk.Address, amount int64, entropy int64) map[string]interface{} {
	m := w.abs("send", w.opts(from, entropy), from, entropy)
	m["from"] = w.name(from)
	m["to"] = w.s.Name(to)
	m["amount"] = amount
	return m
}

func poolAddr(w *world) sdk.Address {
	for a, n := range w.s.Names {
		if n == appsTypes.StakedPoolName {
			ad, _ := sdk.AddressFromHex(a)
			return ad
		}
	}
	return nil
}

func keyIdxOf(s *chainsim.Sim, name string) int {
	for i := range s.Keys {
		if s.Name(s.Addr(i)) == name {
			return i
		}
	}
	return -1
}

func addrOf(s *chainsim.Sim, name string) sdk.Address {
	for a, n := range s.Names {
		if n == name {
			ad, _ := sdk.AddressFromHex(a)
			return ad
		}
	}
	return nil
}

// ---- projection: chainsim's + the raw application indexes in this module's shape ----------

// appIndex reads the staking-set index (prefix 0x02; key = power || ^address, value =
// address) as [name, power] pairs in a canonical (sorted) order.
func appIndex(s *chainsim.Sim) [][]interface{} {
	ctx := s.Ctx()
	store := ctx.KVStore(s.App.Keys[appsTypes.StoreKey])
	it, _ := sdk.KVStorePrefixIterator(store, appsTypes.StakedAppsKey)
	defer it.Close()
	type ent struct {
		name  string
		power int64
	}
	var es []ent
	for ; it.Valid(); it.Next() {
		k := it.Key()
		power := int64(binary.BigEndian.Uint64(k[1:9]))
		ka := sdk.CopyBytes(k[9:])
		for i := range ka {
			ka[i] = ^ka[i]
		}
		name := s.Name(sdk.Address(it.Value()))
		if !bytes.Equal(ka, it.Value()) {
			name = "KEY-VALUE-MISMATCH:" + hex.EncodeToString(ka)[:8] + "/" + name
		}
		es = append(es, ent{name, power})
	}
	sort.Slice(es, func(i, j int) bool {
		if es[i].name != es[j].name {
			return es[i].name < es[j].name
		}
		return es[i].power < es[j].power
	})
	out := [][]interface{}{}
	for _, e := range es {
		out = append(out, []interface{}{e.name, e.power})
	}
	return out
}

// focusFields are logged / compared in full; everything else is folded into a digest.
var focusFields = []string{"bal", "supply", "nopk", "app", "appIx", "appUnst"}

// project returns (core state with this module's fields, configuration).
func project(s *chainsim.Sim) (map[string]interface{}, map[string]interface{}) {
	core, cfg := s.Split(s.Project())
	core["appIx"] = appIndex(s)
	core["appUnst"] = core["ixAppUnstaking"]
	delete(core, "ixAppStaked")
	delete(core, "ixAppUnstaking")
	delete(core, "h")
	p := s.App.VerifAppsKeeper().GetParams(s.Ctx())
	if p.ParticipationRateOn {
		cfg.AppParams["ParticipationRateOn"] = 1
	} else {
		cfg.AppParams["ParticipationRateOn"] = 0
	}
	cb, _ := json.Marshal(cfg)
	var cm map[string]interface{}
	_ = json.Unmarshal(cb, &cm)
	k := s.Cfg.CodecUpgradeAt
	if k < 1 {
		k = 1
	}
	cm["codecAt"] = k // height of the codec upgrade (ChainApps.CodecAt)
	return core, cm
}

// focus keeps the focus fields and digests the rest.
func focus(core map[string]interface{}) map[string]interface{} {
	keep := map[string]interface{}{}
	rest := map[string]interface{}{}
	for k, v := range core {
		rest[k] = v
	}
	for _, k := range focusFields {
		keep[k] = core[k]
		delete(rest, k)
	}
	rb, _ := json.Marshal(rest)
	sum := sha256.Sum256(rb)
	keep["rest"] = hex.EncodeToString(sum[:8])
	return keep
}

// ---- recorder: one NDJSON event per ABCI call, shaped like chainsim.Recorder's events -------

type recorder struct {
	w       *world
	tw      *hx.TraceWriter
	lastCfg string
}

func (r *recorder) emit(ev map[string]interface{}) {
	core, cfg := project(r.w.s)
	ev["st"] = focus(core)
	cb, _ := json.Marshal(cfg)
	if string(cb) != r.lastCfg {
		r.lastCfg = string(cb)
		ev["cfg"] = cfg
	}
	ev["h"] = r.w.s.Height
	ev["t"] = r.w.t
	r.tw.Emit(ev)
}

func (r *recorder) reset(label string) {
	r.lastCfg = ""
	r.emit(map[string]interface{}{"ev": "reset", "label": label})
}

func (r *recorder) begin(dt int64) {
	r.w.begin(dt)
	r.emit(map[string]interface{}{"ev": "BeginBlock"})
}

func (r *recorder) deliver(tx []byte, abs map[string]interface{}) abci.ResponseDeliverTx {
	res := r.w.s.DeliverTx(tx)
	r.emit(map[string]interface{}{"ev": "DeliverTx", "tx": abs,
		"res": map[string]interface{}{"code": res.Code, "codespace": res.Codespace}})
	return res
}

func (r *recorder) end() {
	r.w.s.EndBlock()
	r.emit(map[string]interface{}{"ev": "EndBlock"})
}

func (r *recorder) commit() {
	r.w.s.Commit()
	r.emit(map[string]interface{}{"ev": "Commit"})
}

func classOf(res abci.ResponseDeliverTx) string {
	if res.Code == 0 {
		return "ok"
	}
	return fmt.Sprintf("%s/%d", res.Codespace, res.Code)
}
