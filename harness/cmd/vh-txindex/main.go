// vh-txindex: txindex engine (C42 transaction search).
//
//	vh-txindex replay -in behaviours -variants memdb,memdb-index[,goleveldb] [-dir scratch]
//	vh-txindex trace  -out trace.ndjson -n TRACES -txs N [-backend memdb|goleveldb|mixed] [-dir scratch]
//	vh-txindex probe  (observations outside C42's statement; never a verdict)
//
// The object under test is the real types.TransactionIndexer over tm-db memdb / goleveldb,
// driven the way tendermint's rpc/core.TxSearch drives it: a parsed pubsub query plus
// Pagination{Size: perPage, Skip: (page-1)*perPage, Sort}.
package main

import (
	"bufio"
	"bytes"
	"context"
	"crypto/sha256"
	"encoding/binary"
	"encoding/hex"
	"encoding/json"
	"flag"
	"fmt"
	"os"
	"path/filepath"
	"strings"
	"sync"
	"sync/atomic"

	abci "github.com/tendermint/tendermint/abci/types"
	"github.com/tendermint/tendermint/libs/pubsub/query"
	"github.com/tendermint/tendermint/state/txindex"
	tmtypes "github.com/tendermint/tendermint/types"
	dbm "github.com/tendermint/tm-db"

	sdk "github.com/pokt-network/pocket-core/types"

	"verifharness/internal/hx"
)

func main() {
	if len(os.Args) < 2 {
		fmt.Fprintln(os.Stderr, "usage: vh-txindex <replay|trace|probe> ...")
		os.Exit(2)
	}
	cmd := os.Args[1]
	fs := flag.NewFlagSet(cmd, flag.ExitOnError)
	in := fs.String("in", "", "behaviour file")
	out := fs.String("out", "", "trace output file")
	variants := fs.String("variants", "memdb,memdb-index", "comma separated variants")
	dir := fs.String("dir", "", "scratch directory for goleveldb")
	n := fs.Int("n", 10, "number of traces")
	txs := fs.Int("txs", 60, "transactions per trace (at least)")
	backend := fs.String("backend", "memdb", "backend for trace generation")
	every := fs.Bool("every-step", false, "judge every step of each behaviour (simulated behaviours), not only the last (transition cover)")
	_ = fs.Parse(os.Args[2:])
	if *dir == "" && cmd != "probe" {
		tmp, err := os.MkdirTemp("", "vh-txindex-")
		if err != nil {
			hx.Fatal("%v", err)
		}
		defer os.RemoveAll(tmp)
		*dir = tmp
	}
	switch cmd {
	case "replay":
		replay(*in, *variants, *dir, *every)
	case "trace":
		trace(*out, *n, *txs, *backend, *dir)
	case "probe":
		probe()
	default:
		fmt.Fprintln(os.Stderr, "unknown command", cmd)
		os.Exit(2)
	}
}

// ---------------------------------------------------------------------------- world

var dbSeq int64

type world struct {
	variant string
	db      dbm.DB
	ix      *sdk.TransactionIndexer
	stored  map[int]*tmtypes.TxResult // id -> what was handed to the indexer
	salt    int64
	rng     *lcg
	cleanup func()
}

func newWorld(variant, dir string, salt int64) *world {
	w := &world{variant: variant, stored: map[int]*tmtypes.TxResult{}, salt: salt,
		rng: &lcg{uint64(hx.Seed()*7919+salt)*2862933555777941757 + 3037000493}}
	if strings.HasPrefix(variant, "goleveldb") {
		if dir == "" {
			hx.Fatal("goleveldb variant needs -dir")
		}
		name := fmt.Sprintf("txi-%d-%d", os.Getpid(), atomic.AddInt64(&dbSeq, 1))
		db, err := dbm.NewGoLevelDB(name, dir)
		if err != nil {
			hx.Fatal("goleveldb: %v", err)
		}
		w.db = db
		w.cleanup = func() { db.Close(); os.RemoveAll(filepath.Join(dir, name+".db")) }
	} else {
		w.db = dbm.NewMemDB()
		w.cleanup = func() {}
	}
	w.ix = sdk.NewTransactionIndexer(w.db)
	return w
}

// lcg: a cheap seeded generator for the per-world choice of result codes (math/rand's seeding
// costs more than a whole replayed behaviour).
type lcg struct{ s uint64 }

func (g *lcg) Intn(n int) int {
	g.s = g.s*6364136223846793005 + 1442695040888963407
	return int((g.s >> 33) % uint64(n))
}

// addr maps the abstract address a >= 1 to 20 bytes.  All addresses share their first 19
// bytes so that a wrong prefix length in a range scan mixes them up; 0 = none.
func addr(a int) []byte {
	if a == 0 {
		return nil
	}
	h := sha256.Sum256([]byte(fmt.Sprintf("verif-addr-%d", hx.Seed())))
	b := append([]byte{}, h[:20]...)
	b[19] = byte(a)
	return b
}

// txBytes: the raw transaction of (height, position); the indexer never decodes it, it only
// hashes it, so any distinct byte string does.
func txBytes(h, i int) tmtypes.Tx {
	var buf [24]byte
	binary.BigEndian.PutUint64(buf[0:], uint64(hx.Seed()))
	binary.BigEndian.PutUint64(buf[8:], uint64(h))
	binary.BigEndian.PutUint64(buf[16:], uint64(i))
	s := sha256.Sum256(buf[:])
	b := make([]byte, 40+int(s[31])%160)
	for o := 0; o < len(b); o += 32 {
		copy(b[o:], s[:])
		s = sha256.Sum256(s[:])
	}
	return tmtypes.Tx(b)
}

// result builds the real TxResult for class c: 0 success, 1 ante handler rejection
// (codespace "auth", code 1..9), 2 a later failure that is still indexed (boundary: auth/10).
func (w *world) result(h, i, s, r, c int) *tmtypes.TxResult {
	res := abci.ResponseDeliverTx{Signer: addr(s), Recipient: addr(r), GasUsed: int64(1000 + i), MessageType: "send"}
	switch c {
	case 1:
		res.Codespace = sdk.AuthCodespace
		res.Code = []uint32{1, 4, 6, 9}[w.rng.Intn(4)]
		res.Log = "ante handler rejected"
	case 2:
		switch w.rng.Intn(3) {
		case 0:
			res.Codespace, res.Code = sdk.AuthCodespace, 10
		case 1:
			res.Codespace, res.Code = "pos", uint32(1+w.rng.Intn(9))
		default:
			res.Codespace, res.Code = "sdk", 4
		}
		res.Log = "message failed"
	}
	return &tmtypes.TxResult{Height: int64(h), Index: uint32(i), Tx: txBytes(h, i), Result: res}
}

func classOf(v interface{}) (s, r, c int) {
	t := hx.Ints(v)
	if len(t) != 3 {
		panic(fmt.Sprintf("bad tx class %v", v))
	}
	return t[0], t[1], t[2]
}

func (w *world) addBatch(h int, txs []interface{}) error {
	results := make([]*tmtypes.TxResult, len(txs))
	for k, t := range txs {
		s, r, c := classOf(t)
		results[k] = w.result(h, k, s, r, c)
		w.stored[h*100+k] = results[k]
	}
	if strings.HasSuffix(w.variant, "-index") {
		for _, tr := range results {
			if err := w.ix.Index(tr); err != nil {
				return err
			}
		}
		return nil
	}
	b := txindex.NewBatch(int64(len(results)))
	for _, tr := range results {
		if err := b.Add(tr); err != nil {
			return err
		}
	}
	return w.ix.AddBatch(b)
}

func sameResult(a, b *tmtypes.TxResult) bool {
	return a.Height == b.Height && a.Index == b.Index && bytes.Equal(a.Tx, b.Tx) &&
		a.Result.Code == b.Result.Code && a.Result.Codespace == b.Result.Codespace &&
		bytes.Equal(a.Result.Signer, b.Result.Signer) && bytes.Equal(a.Result.Recipient, b.Result.Recipient) &&
		a.Result.Log == b.Result.Log && a.Result.GasUsed == b.Result.GasUsed && a.Result.MessageType == b.Result.MessageType
}

// idOf projects a returned result to the specification's identity and checks that its content
// is what was stored under that (height, position).
func (w *world) idOf(r *tmtypes.TxResult) (int, string) {
	if r == nil {
		return 0, "nil result in list"
	}
	id := int(r.Height)*100 + int(r.Index)
	st, ok := w.stored[id]
	if !ok {
		return id, fmt.Sprintf("returned a result (%d,%d) that was never submitted", r.Height, r.Index)
	}
	if !sameResult(st, r) {
		return id, fmt.Sprintf("content of result (%d,%d) differs from what was stored", r.Height, r.Index)
	}
	return id, ""
}

func (w *world) get(h, i int) ([]int, string) {
	r, err := w.ix.Get(txBytes(h, i).Hash())
	if err != nil {
		return nil, "Get error: " + err.Error()
	}
	if r == nil {
		return []int{-1}, ""
	}
	id, e := w.idOf(r)
	if e != "" {
		return nil, e
	}
	if id != h*100+i {
		return nil, fmt.Sprintf("Get(hash of (%d,%d)) returned (%d,%d)", h, i, r.Height, r.Index)
	}
	return []int{id}, ""
}

// spell writes the address operand of a search the way a caller may: lower-case hex for odd keys,
// upper-case hex for even ones (every spelling of a hex address names the same account).
func spell(key int) string {
	h := hex.EncodeToString(addr(key))
	if key%2 == 0 {
		return strings.ToUpper(h)
	}
	return h
}

func queryString(kind string, key int) string {
	switch kind {
	case "height":
		return fmt.Sprintf("%s=%d", sdk.TxHeightKey, key)
	case "signer":
		return fmt.Sprintf("%s='%s'", sdk.TxSignerKey, spell(key))
	case "recipient":
		return fmt.Sprintf("%s='%s'", sdk.TxRecipientKey, spell(key))
	}
	panic("unknown query kind " + kind)
}

// parsed caches parsed queries: the PEG parser allocates 32767 tokens per query string, which
// would dominate the replay.  Conditions() only reads the parse tree, so a parsed query can be
// shared; every search gets its own shallow copy with its own Pagination.
var queryCache sync.Map

func parsed(qs string) (*query.Query, error) {
	if c, ok := queryCache.Load(qs); ok {
		q := *(c.(*query.Query))
		return &q, nil
	}
	q, err := query.New(qs)
	if err != nil {
		return nil, err
	}
	queryCache.Store(qs, q)
	c := *q
	return &c, nil
}

// search mirrors rpc/core.TxSearch: q.AddPage(perPage, validateSkipCount(page, perPage), orderBy).
func (w *world) search(qs, sort string, page, pp int) ([]int, string) {
	q, err := parsed(qs)
	if err != nil {
		return nil, "query parse: " + err.Error()
	}
	skip := (page - 1) * pp
	if skip < 0 {
		skip = 0
	}
	q.AddPage(pp, skip, sort)
	res, total, err := w.ix.Search(context.Background(), q)
	if err != nil {
		return nil, "Search error: " + err.Error()
	}
	out := []int{total}
	for _, r := range res {
		id, e := w.idOf(r)
		if e != "" {
			return nil, e
		}
		out = append(out, id)
	}
	return out, ""
}

func (w *world) nkeys() int {
	it, err := w.db.Iterator(nil, nil)
	if err != nil {
		return -1
	}
	defer it.Close()
	n := 0
	for ; it.Valid(); it.Next() {
		n++
	}
	return n
}

func eqInts(a, b []int) bool {
	if len(a) != len(b) {
		return false
	}
	for i := range a {
		if a[i] != b[i] {
			return false
		}
	}
	return true
}

// ---------------------------------------------------------------------------- replay

// step executes one history entry; what == "" means agreement.
func (w *world) step(s hx.Step, project bool) (what string, want, got interface{}) {
	defer func() {
		if r := recover(); r != nil {
			what, want, got = "exec", s, fmt.Sprintf("panic: %v", r)
		}
	}()
	switch s.Str("op") {
	case "AddBatch":
		txs, _ := s["txs"].([]interface{})
		if err := w.addBatch(s.Int("h"), txs); err != nil {
			return "exec", s, "AddBatch error: " + err.Error()
		}
		if !project {
			return "", nil, nil
		}
		// projection: every id of the expected view is retrievable by hash, every submitted
		// result outside it is not, and the store holds exactly the expected number of entries
		view := map[int]bool{}
		for _, id := range hx.Ints(s["view"]) {
			view[id] = true
		}
		for id := range w.stored {
			g, e := w.get(id/100, id%100)
			if e != "" {
				return "view", s["view"], e
			}
			if view[id] != (g[0] == id) {
				return "view", s["view"], fmt.Sprintf("Get(%d) = %v", id, g)
			}
		}
		for id := range view {
			if _, ok := w.stored[id]; !ok {
				return "view", s["view"], fmt.Sprintf("expected id %d was never submitted", id)
			}
		}
		if n := w.nkeys(); n != s.Int("nkeys") {
			return "store-entries", s.Int("nkeys"), n
		}
	case "Get":
		g, e := w.get(s.Int("h"), s.Int("i"))
		if e != "" {
			return "exec", s, e
		}
		if !eqInts(g, hx.Ints(s["ret"])) {
			return "ret", s["ret"], g
		}
	case "Search":
		g, e := w.search(queryString(s.Str("kind"), s.Int("key")), s.Str("sort"), s.Int("page"), s.Int("pp"))
		if e != "" {
			return "exec", s, e
		}
		ret := hx.Ints(s["ret"])
		if eqInts(g, ret) {
			return "", nil, nil
		}
		if eqInts(g, hx.Ints(s["inv"])) {
			// exactly the same search in the opposite direction (same total, same page arithmetic)
			return "sort-direction-inverted", s["ret"], g
		}
		return "ret", s["ret"], g
	default:
		return "exec", s, "unknown op " + s.Str("op")
	}
	return "", nil, nil
}

// group = consecutive behaviours of the input that share all steps but the last.  A TLC
// transition cover prints, for every abstract state, the shortest history reaching it followed by
// each outgoing transition, so a group is "one state, all its outgoing transitions": the real
// index for the state is built once per variant and every read-only transition (Get / Search) is
// executed on it; a mutating last step (AddBatch) gets a freshly built index of its own.
type group struct {
	first int
	lines [][]byte
}

// prefixOf returns the text of a behaviour line up to its last step (records never nest, so the
// last ",{" starts the last step).
func prefixOf(line []byte) []byte {
	if k := bytes.LastIndex(line, []byte(",{")); k >= 0 {
		return line[:k]
	}
	return nil
}

type collector struct {
	mu           sync.Mutex
	inverted     int64
	others       int64
	knownSample  *hx.Mismatch
	knownLen     int
	otherSamples []hx.Mismatch
}

func (c *collector) add(m hx.Mismatch, behLen int) {
	c.mu.Lock()
	defer c.mu.Unlock()
	if m.What == "sort-direction-inverted" {
		c.inverted++
		if c.knownSample == nil || behLen < c.knownLen {
			c.knownSample, c.knownLen = &m, behLen
		}
		return
	}
	c.others++
	if len(c.otherSamples) < 5 {
		c.otherSamples = append(c.otherSamples, m)
	}
}

func parseBeh(line []byte) ([]hx.Step, error) {
	var beh []hx.Step
	err := json.Unmarshal(hx.Unquote(line), &beh)
	if err == nil && len(beh) == 0 {
		err = fmt.Errorf("empty behaviour")
	}
	return beh, err
}

// replay executes behaviours on the real indexer.  every=false (transition cover): only the last
// step of each behaviour is judged (every earlier step is the last step of another behaviour of the
// same cover); every=true (simulated behaviours): each step is judged.
func replay(in, variants, dir string, every bool) {
	rep := hx.NewReport("txindex", "replay")
	vs := strings.Split(variants, ",")
	col := &collector{}
	f, err := os.Open(in)
	if err != nil {
		hx.Fatal("%v", err)
	}
	defer f.Close()
	jobs := make(chan group, 256)
	workers := hx.Workers()
	done := make(chan *hx.Report, workers)
	var builds int64
	for wk := 0; wk < workers; wk++ {
		go func() {
			wr := hx.NewReport("txindex", "replay")
			// build executes the shared steps; a disagreement there belongs to the behaviour that has
			// that step last, here it only makes the group unusable
			build := func(variant string, steps []hx.Step, salt int64) (*world, bool) {
				atomic.AddInt64(&builds, 1)
				w := newWorld(variant, dir, salt)
				for _, s := range steps {
					wr.Steps++
					if what, _, _ := w.step(s, false); what != "" && what != "sort-direction-inverted" {
						w.cleanup()
						return nil, false
					}
				}
				return w, true
			}
			for g := range jobs {
				head, err := parseBeh(g.lines[0])
				if err != nil {
					col.add(hx.Mismatch{Behaviour: g.first, What: "unparsable behaviour", Got: err.Error()}, 0)
					continue
				}
				pre := head[:len(head)-1]
				for vi, variant := range vs {
					salt := int64(g.first)*31 + int64(vi)
					var shared *world
					for li, line := range g.lines {
						idx := g.first + li
						beh := head
						if li > 0 {
							if beh, err = parseBeh(line); err != nil {
								col.add(hx.Mismatch{Behaviour: idx, What: "unparsable behaviour", Got: err.Error()}, 0)
								continue
							}
						}
						if vi == 0 {
							wr.Behaviours++
							if len(beh) > 1 {
								wr.Nontrivial++ // observes or extends a non-empty history
							}
							if idx%50000 == 17 {
								wr.AddSample(beh)
							}
						}
						last := beh[len(beh)-1]
						wr.OpCounts[last.Str("op")]++
						if every {
							w := newWorld(variant, dir, salt)
							for si, s := range beh {
								wr.Steps++
								if what, want, got := w.step(s, true); what != "" {
									col.add(hx.Mismatch{Behaviour: idx, Step: si, Op: s.Str("op"), What: what, Want: want, Got: got, History: beh, Variant: variant}, len(beh))
									if what != "sort-direction-inverted" {
										break
									}
								}
							}
							w.cleanup()
							continue
						}
						var w *world
						ok := true
						if last.Str("op") == "AddBatch" {
							w, ok = build(variant, pre, salt+int64(li)*7)
						} else {
							if shared == nil {
								shared, ok = build(variant, pre, salt)
							}
							w = shared
						}
						if !ok || w == nil {
							col.add(hx.Mismatch{Behaviour: idx, Step: len(beh) - 1, Op: last.Str("op"), What: "abandoned", Want: "shared history executes", Got: "an earlier step disagreed", History: beh, Variant: variant}, len(beh))
							shared = nil
							continue
						}
						wr.Steps++
						if what, want, got := w.step(last, true); what != "" {
							col.add(hx.Mismatch{Behaviour: idx, Step: len(beh) - 1, Op: last.Str("op"), What: what, Want: want, Got: got, History: beh, Variant: variant}, len(beh))
						}
						if w != shared {
							w.cleanup()
						}
					}
					if shared != nil {
						shared.cleanup()
					}
				}
			}
			done <- wr
		}()
	}
	sc := bufio.NewScanner(f)
	sc.Buffer(make([]byte, 1<<20), 1<<28)
	idx := 0
	cur := group{}
	var curPrefix []byte
	seen := map[[32]byte]bool{}
	flush := func() {
		if len(cur.lines) > 0 {
			jobs <- cur
		}
		cur = group{}
	}
	for sc.Scan() {
		b := sc.Bytes()
		if len(b) == 0 {
			continue
		}
		line := append([]byte{}, b...)
		if every {
			h := sha256.Sum256(line)
			if seen[h] {
				continue
			}
			seen[h] = true
		}
		p := prefixOf(line)
		if every || len(cur.lines) == 0 || len(cur.lines) >= 4096 || !bytes.Equal(p, curPrefix) {
			flush()
			cur.first = idx
			curPrefix = p
		}
		cur.lines = append(cur.lines, line)
		idx++
	}
	flush()
	close(jobs)
	for wk := 0; wk < workers; wk++ {
		rep.Merge(<-done)
	}
	if err := sc.Err(); err != nil {
		hx.Fatal("%v", err)
	}
	rep.Distinct = idx
	// one mismatch of the inverted-direction kind plus the first five of any other kind, so that a
	// flood of the former cannot hide the latter
	rep.Mismatches = col.otherSamples
	rep.NMismatches = int(col.others)
	if col.knownSample != nil {
		rep.Mismatches = append(rep.Mismatches, *col.knownSample)
		rep.NMismatches++
	}
	rep.Extra["variants"] = vs
	rep.Extra["other_mismatches"] = col.others
	rep.Extra["sort_direction_inverted"] = col.inverted
	rep.Extra["indexes_built"] = builds
	rep.Print()
}

// ---------------------------------------------------------------------------- trace

var interestingHeights = []int{1, 2, 3, 9, 10, 11, 19, 20, 99, 100, 101, 999, 1000, 1001, 9999, 10000, 10001,
	99999, 100000, 100001, 999998, 999999, 1000000}

// trace: seeded random driver.  It keeps no model of the expected answers: heights are fresh,
// pages are picked from the total the real code itself reported.
func trace(out string, n, ntx int, backend, dir string) {
	tw, err := hx.NewTraceWriter(out)
	if err != nil {
		hx.Fatal("%v", err)
	}
	rep := hx.NewReport("txindex", "trace")
	const naddr = 5
	for t := 0; t < n; t++ {
		rng := hx.Rng(int64(t)*13 + 4242)
		variant := backend
		if backend == "mixed" {
			variant = []string{"memdb", "memdb-index", "goleveldb"}[t%3]
		}
		w := newWorld(variant, dir, int64(t)+99991)
		tw.Emit(map[string]interface{}{"op": "reset", "variant": variant})
		used := map[int]bool{}
		var heights []int
		var positions [][2]int // submitted (h, i)
		ok := true
		emit := func(ev hx.Step, got []int, e string) {
			if e != "" {
				ev["fail"] = e
				ok = false
			} else if got != nil {
				ev["ret"] = got
			}
			tw.Emit(ev)
			rep.Steps++
			rep.OpCounts[ev.Str("op")]++
		}
		doSearch := func(kind string, key int) {
			sort := []string{"asc", "desc"}[rng.Intn(2)]
			pp := []int{1, 2, 3, 5, 7, 10, 30, 1000}[rng.Intn(8)]
			page := 1
			for round := 0; round < 2 && ok; round++ {
				got, e := func() (g []int, e string) {
					defer func() {
						if r := recover(); r != nil {
							e = fmt.Sprintf("panic: %v", r)
						}
					}()
					return w.search(queryString(kind, key), sort, page, pp)
				}()
				emit(hx.Step{"op": "Search", "kind": kind, "key": key, "sort": sort, "page": page, "pp": pp}, got, e)
				if e != "" {
					return
				}
				// a later page chosen from the total the real code reported (incl. one past the end)
				np := (got[0]+pp-1)/pp + 1
				if np <= 1 || rng.Intn(3) == 0 {
					return
				}
				page = 2 + rng.Intn(np-1)
			}
		}
		submitted := 0
		for submitted < ntx && ok {
			var h int
			for {
				switch rng.Intn(3) {
				case 0:
					h = interestingHeights[rng.Intn(len(interestingHeights))]
				case 1:
					h = 1 + rng.Intn(120)
				default:
					h = 1 + rng.Intn(1000000)
				}
				if !used[h] {
					break
				}
			}
			used[h] = true
			heights = append(heights, h)
			size := 1 + rng.Intn(5)
			if rng.Intn(6) == 0 {
				size = 9 + rng.Intn(5) // positions 9, 10, 11 ...: the position encoding changes length
			}
			txs := make([]interface{}, size)
			for k := range txs {
				c := 0
				switch r := rng.Intn(10); {
				case r < 2:
					c = 1
				case r < 4:
					c = 2
				}
				s, r := 1+rng.Intn(naddr), rng.Intn(naddr+1)
				if rng.Intn(12) == 0 {
					s = 0
				}
				txs[k] = []int{s, r, c}
				positions = append(positions, [2]int{h, k})
			}
			submitted += size
			ev := hx.Step{"op": "AddBatch", "h": h, "txs": txs}
			var e string
			func() {
				defer func() {
					if r := recover(); r != nil {
						e = fmt.Sprintf("panic: %v", r)
					}
				}()
				// hx.Ints needs []interface{} elements
				conv := make([]interface{}, len(txs))
				for k, t := range txs {
					ti := t.([]int)
					conv[k] = []interface{}{float64(ti[0]), float64(ti[1]), float64(ti[2])}
				}
				if err := w.addBatch(h, conv); err != nil {
					e = "AddBatch error: " + err.Error()
				}
			}()
			emit(ev, nil, e)
			for q := 0; q < 6 && ok; q++ {
				switch r := rng.Intn(10); {
				case r < 2: // lookup by hash: submitted, or never submitted
					p := positions[rng.Intn(len(positions))]
					if rng.Intn(4) == 0 {
						p = [2]int{p[0] + 1, p[1]}
						if used[p[0]] {
							continue
						}
					}
					got, e := w.get(p[0], p[1])
					emit(hx.Step{"op": "Get", "h": p[0], "i": p[1]}, got, e)
				case r < 5:
					hq := heights[rng.Intn(len(heights))]
					switch rng.Intn(8) {
					case 0:
						hq = hq*10 + rng.Intn(2) // 2 vs 20 / 21: a prefix of the decimal digits
					case 1:
						hq = hq + 1
					}
					doSearch("height", hq)
				case r < 8:
					doSearch("signer", 1+rng.Intn(naddr+1))
				default:
					doSearch("recipient", 1+rng.Intn(naddr+1))
				}
			}
		}
		w.cleanup()
		rep.Behaviours++
		if ok {
			rep.Nontrivial++
		}
	}
	if err := tw.Close(); err != nil {
		hx.Fatal("%v", err)
	}
	rep.Extra["events"] = tw.N
	rep.Print()
}

// ---------------------------------------------------------------------------- probe

// probe records behaviour that C42 does not state (so it is never a verdict): what the optional
// "AND tx.height=h" condition of the account queries returns.
func probe() {
	rep := hx.NewReport("txindex", "probe")
	w := newWorld("memdb", "", 1)
	for _, h := range []int{2, 5, 10} {
		if err := w.addBatch(h, []interface{}{[]interface{}{float64(1), float64(2), float64(0)}}); err != nil {
			hx.Fatal("%v", err)
		}
	}
	qs := fmt.Sprintf("%s='%s' AND %s=%d", sdk.TxSignerKey, hex.EncodeToString(addr(1)), sdk.TxHeightKey, 5)
	got, e := w.search(qs, "desc", 1, 30)
	rep.Extra["signer_and_height_5_over_heights_2_5_10"] = got
	rep.Extra["error"] = e
	rep.Steps = 1
	rep.Behaviours = 1
	rep.Print()
}
