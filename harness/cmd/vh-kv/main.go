// vh-kv: kv engine (C01 cache-wrapped stores, C02 prefix stores).
//
//	vh-kv replay-cachekv -in behaviours.ndjson -nk N [-variants memdb,iavl,memdb-empty]
//	vh-kv trace-cachekv  -out trace.ndjson -n TRACES -steps K -nk N [-backend memdb]
//	vh-kv replay-prefix  -in behaviours.ndjson
//	vh-kv trace-prefix   -out trace.ndjson -n TRACES -steps K
package main

import (
	"flag"
	"fmt"
	"os"
)

func main() {
	if len(os.Args) < 2 {
		fmt.Fprintln(os.Stderr, "usage: vh-kv <replay-cachekv|trace-cachekv|replay-prefix|trace-prefix> ...")
		os.Exit(2)
	}
	cmd := os.Args[1]
	fs := flag.NewFlagSet(cmd, flag.ExitOnError)
	in := fs.String("in", "", "behaviour file")
	out := fs.String("out", "", "trace output file")
	nk := fs.Int("nk", 3, "number of keys of the specification instance")
	variants := fs.String("variants", "memdb,iavl,memdb-empty", "comma separated backend variants")
	n := fs.Int("n", 10, "number of traces")
	steps := fs.Int("steps", 200, "steps per trace")
	backend := fs.String("backend", "memdb", "backend for trace generation")
	maxDepth := fs.Int("maxdepth", 3, "maximum nesting for trace generation")
	maxIters := fs.Int("maxiters", 3, "maximum simultaneously tracked iterators per trace")
	_ = fs.Parse(os.Args[2:])
	switch cmd {
	case "replay-cachekv":
		replayCacheKV(*in, *nk, *variants)
	case "trace-cachekv":
		traceCacheKV(*out, *n, *steps, *nk, *backend, *maxDepth, *maxIters)
	case "replay-prefix":
		replayPrefix(*in, *variants)
	case "trace-prefix":
		tracePrefix(*out, *n, *steps, *backend)
	default:
		fmt.Fprintln(os.Stderr, "unknown command", cmd)
		os.Exit(2)
	}
}
