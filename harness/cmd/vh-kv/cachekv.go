package main

import (
	"bytes"
	"fmt"
	"math/rand"
	"sort"
	"strings"

	"github.com/pokt-network/pocket-core/store/dbadapter"
	"github.com/pokt-network/pocket-core/store/iavl"
	"github.com/pokt-network/pocket-core/store/rootmulti/heightcache"
	"github.com/pokt-network/pocket-core/store/types"
	dbm "github.com/tendermint/tm-db"

	"verifharness/internal/hx"
)

// keyPool is an ordered pool of byte-string keys with prefix-related and
// boundary members; a universe of NK keys is a sorted subset of it.
var keyPool = [][]byte{
	{0x00}, {0x00, 0x00}, {0x00, 0x01}, []byte("a"), []byte("a\x00"), []byte("a\x00\x00"),
	[]byte("aa"), []byte("ab"), []byte("b"), []byte("b\xff"), []byte("b\xff\xff"), []byte("c"),
	[]byte("ca"), []byte("d"), {0xfe}, {0xff}, {0xff, 0x00}, {0xff, 0xff},
}

func universe(nk int, rng *rand.Rand) [][]byte {
	if nk > len(keyPool) {
		hx.Fatal("nk %d larger than key pool", nk)
	}
	idx := rng.Perm(len(keyPool))[:nk]
	sort.Ints(idx)
	u := make([][]byte, nk)
	for i, j := range idx {
		u[i] = keyPool[j]
	}
	// the pool is listed in byte order, so u is sorted
	return u
}

type kvWorld struct {
	variant string
	base    types.KVStore
	layers  []types.CacheKVStore
	iters   map[int]types.Iterator
	keys    [][]byte // index k-1
	emptyV  bool
}

func newBase(variant string) types.KVStore {
	switch {
	case strings.HasPrefix(variant, "memdb"):
		return dbadapter.Store{DB: dbm.NewMemDB()}
	case strings.HasPrefix(variant, "iavl"):
		cs, err := iavl.LoadStore(dbm.NewMemDB(), types.CommitID{}, types.PruneNothing, false, heightcache.InvalidCache{}, 1000)
		if err != nil {
			hx.Fatal("iavl.LoadStore: %v", err)
		}
		return cs.(types.KVStore)
	}
	hx.Fatal("unknown variant %q", variant)
	return nil
}

func newWorld(variant string, keys [][]byte) *kvWorld {
	return &kvWorld{variant: variant, base: newBase(variant), iters: map[int]types.Iterator{},
		keys: keys, emptyV: strings.HasSuffix(variant, "-empty")}
}

func (w *kvWorld) store(d int) types.KVStore {
	if d == 0 {
		return w.base
	}
	return w.layers[d-1]
}

func (w *kvWorld) depth() int { return len(w.layers) }

func (w *kvWorld) val(v int) []byte {
	if w.emptyV && v == 1 {
		return []byte{}
	}
	return []byte(fmt.Sprintf("val-%d", v))
}

// valIdx maps a stored value back to the specification's value index (0 = nil).
func (w *kvWorld) valIdx(b []byte) int {
	if b == nil {
		return 0
	}
	if w.emptyV && len(b) == 0 {
		return 1
	}
	var v int
	if n, _ := fmt.Sscanf(string(b), "val-%d", &v); n == 1 {
		return v
	}
	return -2
}

func (w *kvWorld) keyIdx(b []byte) int {
	for i, k := range w.keys {
		if bytes.Equal(k, b) {
			return i + 1
		}
	}
	return -2
}

func (w *kvWorld) bound(i int) []byte {
	if i <= 0 || i > len(w.keys) {
		return nil
	}
	return w.keys[i-1]
}

func (w *kvWorld) closeAll() {
	for id, it := range w.iters {
		it.Close()
		delete(w.iters, id)
	}
}

// dump reads the whole store at layer d in four independent ways and returns the
// ascending view as value indices per key, or an error description if the ways disagree.
func (w *kvWorld) dump(d int) ([]int, string) {
	st := w.store(d)
	asc := make([]int, len(w.keys))
	it, _ := st.Iterator(nil, nil)
	prev := []byte(nil)
	first := true
	for ; it.Valid(); it.Next() {
		k := it.Key()
		if !first && bytes.Compare(prev, k) >= 0 {
			it.Close()
			return nil, fmt.Sprintf("ascending iterator not strictly increasing at %x", k)
		}
		first = false
		prev = append([]byte{}, k...)
		ki := w.keyIdx(k)
		if ki < 0 {
			it.Close()
			return nil, fmt.Sprintf("iterator yields key outside universe %x", k)
		}
		asc[ki-1] = w.valIdx(it.Value())
	}
	it.Close()
	desc := make([]int, len(w.keys))
	rit, _ := st.ReverseIterator(nil, nil)
	first = true
	for ; rit.Valid(); rit.Next() {
		k := rit.Key()
		if !first && bytes.Compare(prev, k) <= 0 {
			rit.Close()
			return nil, fmt.Sprintf("reverse iterator not strictly decreasing at %x", k)
		}
		first = false
		prev = append([]byte{}, k...)
		ki := w.keyIdx(k)
		if ki < 0 {
			rit.Close()
			return nil, fmt.Sprintf("reverse iterator yields key outside universe %x", k)
		}
		desc[ki-1] = w.valIdx(rit.Value())
	}
	rit.Close()
	for i := range asc {
		if asc[i] != desc[i] {
			return nil, fmt.Sprintf("forward and reverse iteration disagree on key %d: %d vs %d", i+1, asc[i], desc[i])
		}
		g, _ := st.Get(w.keys[i])
		if w.valIdx(g) != asc[i] {
			return nil, fmt.Sprintf("Get disagrees with iteration on key %d: %d vs %d", i+1, w.valIdx(g), asc[i])
		}
		h, _ := st.Has(w.keys[i])
		if h != (asc[i] != 0) {
			return nil, fmt.Sprintf("Has disagrees with iteration on key %d", i+1)
		}
	}
	return asc, ""
}

func intsEqual(a, b []int) bool {
	if len(a) != len(b) {
		return false
	}
	for i := range a {
		if a[i] != b[i] {
			return false
		}
	}
	return true
}

// exec performs one specification action on the real stores and returns the
// observed return value in the specification's vocabulary.
func (w *kvWorld) exec(s hx.Step) (got interface{}, err string) {
	defer func() {
		if r := recover(); r != nil {
			err = fmt.Sprintf("panic: %v", r)
		}
	}()
	switch s.Str("op") {
	case "Get":
		v, _ := w.store(s.Int("d")).Get(w.keys[s.Int("k")-1])
		return w.valIdx(v), ""
	case "Has":
		h, _ := w.store(s.Int("d")).Has(w.keys[s.Int("k")-1])
		return h, ""
	case "Set":
		_ = w.store(w.depth()).Set(w.keys[s.Int("k")-1], w.val(s.Int("v")))
	case "Delete":
		_ = w.store(w.depth()).Delete(w.keys[s.Int("k")-1])
	case "Wrap":
		cw := w.store(w.depth()).CacheWrap()
		w.layers = append(w.layers, cw.(types.CacheKVStore))
	case "Write":
		w.layers[w.depth()-1].Write()
	case "Discard":
		w.layers = w.layers[:w.depth()-1]
	case "IterOpen":
		var it types.Iterator
		lo, hi := w.bound(s.Int("lo")), w.bound(s.Int("hi"))
		if s.Bool("asc") {
			it, _ = w.store(s.Int("d")).Iterator(lo, hi)
		} else {
			it, _ = w.store(s.Int("d")).ReverseIterator(lo, hi)
		}
		w.iters[s.Int("i")] = it
	case "IterStep":
		it := w.iters[s.Int("i")]
		if !it.Valid() {
			return []int{}, ""
		}
		r := []int{w.keyIdx(it.Key()), w.valIdx(it.Value())}
		it.Next()
		return r, ""
	case "IterClose":
		w.iters[s.Int("i")].Close()
		delete(w.iters, s.Int("i"))
	case "Dump":
		v, e := w.dump(s.Int("d"))
		if e != "" {
			return nil, e
		}
		return v, ""
	default:
		return nil, "unknown op " + s.Str("op")
	}
	return 0, ""
}

// checkStep compares what the specification recorded with the real outcome.
func (w *kvWorld) checkStep(s hx.Step, got interface{}) (what string, want, g interface{}) {
	switch s.Str("op") {
	case "Get":
		if s.Int("ret") != got.(int) {
			return "ret", s.Int("ret"), got
		}
	case "Has":
		if s.Bool("ret") != got.(bool) {
			return "ret", s.Bool("ret"), got
		}
	case "IterStep", "Dump":
		wantV := hx.Ints(s["ret"])
		if !intsEqual(wantV, got.([]int)) {
			return "ret", wantV, got
		}
	}
	if s.Has("view") {
		d := s.Int("d")
		if s.Str("op") == "Discard" {
			d = d - 1
		}
		v, e := w.dump(d)
		if e != "" {
			return "view-consistency", s["view"], e
		}
		if wantV := hx.Ints(s["view"]); !intsEqual(wantV, v) {
			return "view", wantV, v
		}
	}
	if s.Has("below") {
		v, e := w.dump(s.Int("d") - 1)
		if e != "" {
			return "below-consistency", s["below"], e
		}
		if wantV := hx.Ints(s["below"]); !intsEqual(wantV, v) {
			return "below", wantV, v
		}
	}
	return "", nil, nil
}

func replayCacheKV(in string, nk int, variants string) {
	rep := hx.NewReport("kv", "replay-cachekv")
	vs := strings.Split(variants, ",")
	err := hx.ParallelBehaviours(in, hx.Workers(), rep, func(idx int, beh []hx.Step, fresh bool, rep *hx.Report) {
		// non-trivial: observes or checks a wrapped layer after some mutation
		mutated, nontrivial := false, false
		for _, s := range beh {
			switch s.Str("op") {
			case "Set", "Delete":
				mutated = true
				if s.Int("d") >= 1 {
					nontrivial = true // carries a view check of a wrapped layer
				}
			case "Get", "Has", "IterStep", "Write", "Discard", "Dump":
				if mutated {
					nontrivial = true
				}
			}
		}
		if fresh && nontrivial {
			rep.Nontrivial++
		}
		if idx%50000 == 7 {
			rep.AddSample(beh)
		}
		for vi, variant := range vs {
			rng := rand.New(rand.NewSource(hx.Seed()*7919 + int64(idx)*31 + int64(vi)))
			w := newWorld(variant, universe(nk, rng))
			for si, s := range beh {
				rep.Steps++
				rep.OpCounts[s.Str("op")]++
				got, e := w.exec(s)
				if e != "" {
					rep.AddMismatch(hx.Mismatch{Behaviour: idx, Step: si, Op: s.Str("op"), What: "exec", Want: s, Got: e, History: beh, Variant: variant})
					break
				}
				if what, want, g := w.checkStep(s, got); what != "" {
					rep.AddMismatch(hx.Mismatch{Behaviour: idx, Step: si, Op: s.Str("op"), What: what, Want: want, Got: g, History: beh, Variant: variant})
					break
				}
			}
			w.closeAll()
		}
	})
	if err != nil {
		hx.Fatal("%v", err)
	}
	rep.Extra["variants"] = vs
	rep.Print()
}

// traceCacheKV drives the real stores with a seeded random driver that respects the
// specification's enabling conditions and logs each call with its real result.  The
// driver keeps no model of the contents: TLC is the oracle.
func traceCacheKV(out string, n, steps, nk int, backend string, maxDepth, maxIters int) {
	tw, err := hx.NewTraceWriter(out)
	if err != nil {
		hx.Fatal("%v", err)
	}
	rep := hx.NewReport("kv", "trace-cachekv")
	for t := 0; t < n; t++ {
		rng := hx.Rng(int64(t))
		variant := backend
		if backend == "mixed" {
			variant = []string{"memdb", "iavl", "memdb-empty"}[t%3]
		}
		w := newWorld(variant, universe(nk, rng))
		tw.Emit(map[string]interface{}{"op": "reset", "variant": variant})
		nIters := 0
		open := []int{}
		emit := func(ev hx.Step) bool {
			got, e := w.exec(ev)
			if e != "" {
				ev["fail"] = e
			} else {
				ev["ret"] = got
			}
			tw.Emit(ev)
			rep.Steps++
			rep.OpCounts[ev.Str("op")]++
			return e == ""
		}
		for s := 0; s < steps; s++ {
			d := w.depth()
			r := rng.Intn(100)
			k := 1 + rng.Intn(nk)
			ok := true
			switch {
			case r < 22:
				if d == 0 && len(open) > 0 {
					continue
				}
				ok = emit(hx.Step{"op": "Set", "d": d, "k": k, "v": 1 + rng.Intn(3)})
			case r < 32:
				if d == 0 && len(open) > 0 {
					continue
				}
				ok = emit(hx.Step{"op": "Delete", "d": d, "k": k})
			case r < 46:
				ok = emit(hx.Step{"op": "Get", "d": rng.Intn(d + 1), "k": k})
			case r < 52:
				ok = emit(hx.Step{"op": "Has", "d": rng.Intn(d + 1), "k": k})
			case r < 58:
				if d < maxDepth {
					ok = emit(hx.Step{"op": "Wrap", "d": d + 1})
				}
			case r < 63:
				if d > 0 && len(open) == 0 {
					ok = emit(hx.Step{"op": "Write", "d": d})
				}
			case r < 66:
				if d > 0 && len(open) == 0 {
					ok = emit(hx.Step{"op": "Discard", "d": d})
				}
			case r < 74:
				if nIters < maxIters {
					nIters++
					lo, hi := rng.Intn(nk+1), 1+rng.Intn(nk+1)
					if rng.Intn(4) == 0 {
						lo = 0
					}
					if rng.Intn(4) == 0 {
						hi = nk + 1
					}
					id := nIters
					ok = emit(hx.Step{"op": "IterOpen", "d": rng.Intn(d + 1), "lo": lo, "hi": hi, "asc": rng.Intn(2) == 0, "i": id})
					open = append(open, id)
				}
			case r < 90:
				if len(open) > 0 {
					ok = emit(hx.Step{"op": "IterStep", "i": open[rng.Intn(len(open))]})
				}
			case r < 94:
				if len(open) > 0 {
					j := rng.Intn(len(open))
					ok = emit(hx.Step{"op": "IterClose", "i": open[j]})
					open = append(open[:j], open[j+1:]...)
				}
			default:
				ok = emit(hx.Step{"op": "Dump", "d": rng.Intn(d + 1)})
			}
			if !ok {
				break
			}
		}
		for _, id := range open {
			emit(hx.Step{"op": "IterClose", "i": id})
		}
		for d := 0; d <= w.depth(); d++ {
			emit(hx.Step{"op": "Dump", "d": d})
		}
		w.closeAll()
		rep.Behaviours++
	}
	if err := tw.Close(); err != nil {
		hx.Fatal("%v", err)
	}
	rep.Extra["events"] = tw.N
	rep.Print()
}
