package main

import (
	"bytes"
	"fmt"
	"math/rand"
	"strings"

	"github.com/pokt-network/pocket-core/store/prefix"
	"github.com/pokt-network/pocket-core/store/types"

	"verifharness/internal/hx"
)

func toBytes(v interface{}) []byte {
	if s, ok := v.(string); ok && s == "nil" {
		return nil
	}
	if ints, ok := v.([]int); ok {
		if len(ints) == 1 && ints[0] == -1 {
			return nil // NILB
		}
		out := make([]byte, len(ints))
		for i, e := range ints {
			out[i] = byte(e)
		}
		return out
	}
	arr, ok := v.([]interface{})
	if !ok {
		return nil
	}
	if len(arr) == 1 && int(arr[0].(float64)) == -1 {
		return nil // NILB
	}
	out := make([]byte, len(arr))
	for i, e := range arr {
		out[i] = byte(int(e.(float64)))
	}
	return out
}

func fromBytes(b []byte) []int {
	out := make([]int, len(b))
	for i, x := range b {
		out[i] = int(x)
	}
	return out
}

type pfxWorld struct {
	variant string
	parent  types.KVStore
	rng     *rand.Rand
}

func newPfxWorld(variant string, rng *rand.Rand) *pfxWorld {
	var parent types.KVStore
	switch {
	case strings.HasPrefix(variant, "cachekv"):
		parent = newBase("memdb").CacheWrap().(types.KVStore)
	default:
		parent = newBase(variant)
	}
	return &pfxWorld{variant: variant, parent: parent, rng: rng}
}

// view returns a store scoped to prefix p; with a "-nested" variant the prefix is
// split at a random point into a prefix store of a prefix store.
func (w *pfxWorld) view(p []byte) types.KVStore {
	if strings.HasSuffix(w.variant, "-nested") && len(p) > 0 {
		cut := w.rng.Intn(len(p) + 1)
		return prefix.NewStore(prefix.NewStore(w.parent, append([]byte{}, p[:cut]...)), append([]byte{}, p[cut:]...))
	}
	return prefix.NewStore(w.parent, p)
}

func pval(v int) []byte { return []byte(fmt.Sprintf("val-%d", v)) }
func pvalIdx(b []byte) int {
	if b == nil {
		return 0
	}
	var v int
	if n, _ := fmt.Sscanf(string(b), "val-%d", &v); n == 1 {
		return v
	}
	return -2
}

func collect(it types.Iterator, asc bool) (items []interface{}, err string) {
	defer it.Close()
	var prev []byte
	first := true
	items = []interface{}{}
	for ; it.Valid(); it.Next() {
		k := append([]byte{}, it.Key()...)
		if !first {
			c := bytes.Compare(prev, k)
			if (asc && c >= 0) || (!asc && c <= 0) {
				return nil, fmt.Sprintf("iteration order violated at %x after %x", k, prev)
			}
		}
		first = false
		prev = k
		items = append(items, []interface{}{fromBytes(k), pvalIdx(it.Value())})
	}
	return items, ""
}

func (w *pfxWorld) exec(s hx.Step) (got interface{}, err string) {
	defer func() {
		if r := recover(); r != nil {
			err = fmt.Sprintf("panic: %v", r)
		}
	}()
	switch s.Str("op") {
	case "VGet":
		v, _ := w.view(toBytes(s["p"])).Get(toBytes(s["s"]))
		return pvalIdx(v), ""
	case "VHas":
		h, _ := w.view(toBytes(s["p"])).Has(toBytes(s["s"]))
		return h, ""
	case "VSet":
		_ = w.view(toBytes(s["p"])).Set(toBytes(s["s"]), pval(s.Int("v")))
	case "VDelete":
		_ = w.view(toBytes(s["p"])).Delete(toBytes(s["s"]))
	case "PSet":
		_ = w.parent.Set(toBytes(s["k"]), pval(s.Int("v")))
	case "PDelete":
		_ = w.parent.Delete(toBytes(s["k"]))
	case "VIter":
		var it types.Iterator
		v := w.view(toBytes(s["p"]))
		if s.Bool("asc") {
			it, _ = v.Iterator(toBytes(s["lo"]), toBytes(s["hi"]))
		} else {
			it, _ = v.ReverseIterator(toBytes(s["lo"]), toBytes(s["hi"]))
		}
		return collect(it, s.Bool("asc"))
	case "PAll":
		it, _ := w.parent.Iterator(nil, nil)
		return collect(it, true)
	default:
		return nil, "unknown op " + s.Str("op")
	}
	return 0, ""
}

func jsonEq(a, b interface{}) bool { return fmt.Sprint(normalize(a)) == fmt.Sprint(normalize(b)) }

// normalize makes decoded-JSON values and Go-built values comparable by printing.
func normalize(v interface{}) interface{} {
	switch x := v.(type) {
	case []interface{}:
		out := make([]interface{}, len(x))
		for i, e := range x {
			out[i] = normalize(e)
		}
		return out
	case []int:
		out := make([]interface{}, len(x))
		for i, e := range x {
			out[i] = e
		}
		return out
	case float64:
		return int(x)
	}
	return v
}

func (w *pfxWorld) check(s hx.Step, got interface{}) (what string, want, g interface{}) {
	switch s.Str("op") {
	case "VGet":
		if s.Int("ret") != got.(int) {
			return "ret", s.Int("ret"), got
		}
	case "VHas":
		if s.Bool("ret") != got.(bool) {
			return "ret", s.Bool("ret"), got
		}
	case "VIter", "PAll":
		if !jsonEq(s["ret"], got) {
			return "ret", s["ret"], got
		}
	}
	if s.Has("all") { // the whole parent after a write through a view (isolation)
		it, _ := w.parent.Iterator(nil, nil)
		items, e := collect(it, true)
		if e != "" {
			return "parent-iteration", s["all"], e
		}
		if !jsonEq(s["all"], items) {
			return "parent-after-write", s["all"], items
		}
	}
	return "", nil, nil
}

func replayPrefix(in string, variants string) {
	rep := hx.NewReport("kv", "replay-prefix")
	vs := strings.Split(variants, ",")
	err := hx.ParallelBehaviours(in, hx.Workers(), rep, func(idx int, beh []hx.Step, fresh bool, rep *hx.Report) {
		last := beh[len(beh)-1]
		nontrivial := false
		switch last.Str("op") {
		case "VIter":
			nontrivial = len(beh) > 1
		case "VSet", "VDelete", "VGet", "VHas":
			nontrivial = true
		}
		if fresh && nontrivial {
			rep.Nontrivial++
		}
		if idx%40000 == 11 {
			rep.AddSample(beh)
		}
		for vi, variant := range vs {
			rng := rand.New(rand.NewSource(hx.Seed()*7919 + int64(idx)*31 + int64(vi)))
			w := newPfxWorld(variant, rng)
			for si, s := range beh {
				rep.Steps++
				rep.OpCounts[s.Str("op")]++
				got, e := w.exec(s)
				if e != "" {
					rep.AddMismatch(hx.Mismatch{Behaviour: idx, Step: si, Op: s.Str("op"), What: "exec", Want: s, Got: e, History: beh, Variant: variant})
					break
				}
				if what, want, g := w.check(s, got); what != "" {
					rep.AddMismatch(hx.Mismatch{Behaviour: idx, Step: si, Op: s.Str("op"), What: what, Want: want, Got: g, History: beh, Variant: variant})
					break
				}
			}
		}
	})
	if err != nil {
		hx.Fatal("%v", err)
	}
	rep.Extra["variants"] = vs
	rep.Print()
}

var traceAlphabet = []byte{0x00, 0x01, 0x61, 0xfe, 0xff}

func randBytes(rng *rand.Rand, minLen, maxLen int) []byte {
	n := minLen + rng.Intn(maxLen-minLen+1)
	b := make([]byte, n)
	for i := range b {
		// bias towards 0xff so that carry chains in PrefixEndBytes are exercised
		if rng.Intn(3) == 0 {
			b[i] = 0xff
		} else {
			b[i] = traceAlphabet[rng.Intn(len(traceAlphabet))]
		}
	}
	return b
}

// tracePrefix: seeded random driver over arbitrary byte-string keys and prefixes; TLC
// (TracePrefix.tla) is the oracle.
func tracePrefix(out string, n, steps int, backend string) {
	tw, err := hx.NewTraceWriter(out)
	if err != nil {
		hx.Fatal("%v", err)
	}
	rep := hx.NewReport("kv", "trace-prefix")
	bnd := func(rng *rand.Rand) interface{} {
		if rng.Intn(3) == 0 {
			return []int{-1}
		}
		return fromBytes(randBytes(rng, 0, 2))
	}
	for t := 0; t < n; t++ {
		rng := hx.Rng(int64(t) + 7777)
		variant := backend
		if backend == "mixed" {
			variant = []string{"memdb", "iavl", "cachekv", "memdb-nested", "iavl-nested"}[t%5]
		}
		w := newPfxWorld(variant, rng)
		tw.Emit(map[string]interface{}{"op": "reset", "variant": variant})
		// a few prefixes per trace so that keys collide with prefix boundaries
		pfx := [][]byte{{}, randBytes(rng, 1, 1), randBytes(rng, 1, 3), randBytes(rng, 2, 4), {0xff}, {0xff, 0xff}}
		pfx = append(pfx, append(append([]byte{}, pfx[2]...), 0xff))
		emit := func(ev hx.Step) bool {
			got, e := w.exec(ev)
			if e != "" {
				ev["fail"] = e
			} else {
				ev["ret"] = got
			}
			tw.Emit(ev)
			rep.Steps++
			rep.OpCounts[ev.Str("op")]++
			return e == ""
		}
		for s := 0; s < steps; s++ {
			p := pfx[rng.Intn(len(pfx))]
			r := rng.Intn(100)
			ok := true
			// suffix: non-empty unless the prefix itself is a non-empty key
			minLen := 1
			if len(p) > 0 && rng.Intn(4) == 0 {
				minLen = 0
			}
			sfx := randBytes(rng, minLen, 2)
			switch {
			case r < 30:
				ok = emit(hx.Step{"op": "VSet", "p": fromBytes(p), "s": fromBytes(sfx), "v": 1 + rng.Intn(3)})
			case r < 38:
				ok = emit(hx.Step{"op": "VDelete", "p": fromBytes(p), "s": fromBytes(sfx)})
			case r < 50:
				// a parent key that shares a prefix with some view, or its neighbourhood
				q := pfx[rng.Intn(len(pfx))]
				k := append(append([]byte{}, q...), randBytes(rng, 0, 2)...)
				if len(k) == 0 {
					k = []byte{0x00}
				}
				if rng.Intn(4) == 0 {
					ok = emit(hx.Step{"op": "PDelete", "k": fromBytes(k)})
				} else {
					ok = emit(hx.Step{"op": "PSet", "k": fromBytes(k), "v": 1 + rng.Intn(3)})
				}
			case r < 60:
				ok = emit(hx.Step{"op": "VGet", "p": fromBytes(p), "s": fromBytes(sfx)})
			case r < 65:
				ok = emit(hx.Step{"op": "VHas", "p": fromBytes(p), "s": fromBytes(sfx)})
			case r < 95:
				ok = emit(hx.Step{"op": "VIter", "p": fromBytes(p), "lo": bnd(rng), "hi": bnd(rng), "asc": rng.Intn(2) == 0})
			default:
				ok = emit(hx.Step{"op": "PAll"})
			}
			if !ok {
				break
			}
		}
		emit(hx.Step{"op": "PAll"})
		rep.Behaviours++
	}
	if err := tw.Close(); err != nil {
		hx.Fatal("%v", err)
	}
	rep.Extra["events"] = tw.N
	rep.Print()
}
