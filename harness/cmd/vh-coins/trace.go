package main

import (
	"math/rand"

	"verifharness/internal/hx"
)

// trace: seeded random driver over the real Coins / BigInt / BigDec.  It keeps no model of the
// expected results; it only respects the enabling conditions of the specification (sorted
// argument lists, comparisons on valid sets - asked from the real IsValid -, divisors that divide).
// Values stay in the range TLC can evaluate (amounts |a| <= 60, limb coefficients |c| <= 900,
// scaled decimals |x| <= 20000): full-width random operands are not checkable by TLC.
func trace(out string, n, steps int) {
	tw, err := hx.NewTraceWriter(out)
	if err != nil {
		hx.Fatal("%v", err)
	}
	rep := hx.NewReport("coins", "trace")
	const nd = 6
	randList := func(rng *rand.Rand, positive bool) []int {
		flat := []int{}
		for d := 1; d <= nd; d++ {
			if rng.Intn(2) == 0 {
				continue
			}
			var a int
			switch {
			case positive:
				a = 1 + rng.Intn(60)
			case rng.Intn(5) == 0:
				a = 0
			default:
				a = rng.Intn(121) - 60
			}
			flat = append(flat, d, a)
		}
		return flat
	}
	randSeq := func(rng *rand.Rand) []int {
		flat := []int{}
		for k := rng.Intn(5); k > 0; k-- {
			flat = append(flat, 1+rng.Intn(nd), rng.Intn(8)-2)
		}
		return flat
	}
	coef := func(rng *rand.Rand, m int) int { return rng.Intn(2*m+1) - m }
	for t := 0; t < n; t++ {
		rng := hx.Rng(int64(t)*17 + 515)
		w := &coinWorld{nilEmpty: t%2 == 0}
		tw.Emit(map[string]interface{}{"op": "reset"})
		emit := func(ev hx.Step, got []int, e string) {
			if e != "" {
				ev["fail"] = e
			} else if got != nil {
				ev["ret"] = got
			}
			tw.Emit(ev)
			rep.Steps++
			rep.OpCounts[ev.Str("op")]++
		}
		coin := func(ev hx.Step) {
			// exec reads decoded-JSON shaped values
			s := hx.Step{}
			for k, v := range ev {
				if ints, ok := v.([]int); ok {
					arr := make([]interface{}, len(ints))
					for i, x := range ints {
						arr[i] = float64(x)
					}
					s[k] = arr
				} else {
					s[k] = v
				}
			}
			got, e := w.exec(s)
			emit(ev, got, e)
		}
		num := func(variant, op string, x, y []int) {
			got, skip, e := numObserve(variant, op, x, y)
			if skip {
				return
			}
			ev := hx.Step{"op": "Num" + op, "k": variant, "x": x}
			if y != nil {
				ev["y"] = y
			}
			emit(ev, got, e)
		}
		for s := 0; s < steps; s++ {
			switch r := rng.Intn(100); {
			case r < 8:
				coin(hx.Step{"op": "Load", "a": randList(rng, rng.Intn(3) == 0)})
			case r < 22:
				coin(hx.Step{"op": "Add", "b": randList(rng, rng.Intn(2) == 0)})
			case r < 34:
				coin(hx.Step{"op": "SafeSub", "b": randList(rng, rng.Intn(2) == 0)})
			case r < 42:
				coin(hx.Step{"op": "Sub", "b": randList(rng, true)})
			case r < 54:
				// comparisons are specified on valid sets: ask the real code whether the receiver is one
				if !w.acc.IsValid() {
					coin(hx.Step{"op": "Pred"})
					coin(hx.Step{"op": "Load", "a": randList(rng, true)})
				}
				op := []string{"IsAllGT", "IsAllGTE", "IsAllLT", "IsAllLTE", "IsAnyGT", "IsAnyGTE"}[rng.Intn(6)]
				coin(hx.Step{"op": op, "b": randList(rng, true)})
			case r < 58:
				coin(hx.Step{"op": "Pred"})
			case r < 62:
				coin(hx.Step{"op": "AmountOf", "d": 1 + rng.Intn(nd)})
			case r < 66:
				coin(hx.Step{"op": "NewCoins", "a": randSeq(rng)})
			case r < 69:
				coin(hx.Step{"op": "PredSeq", "a": randSeq(rng)})
			case r < 84:
				variant := []string{"int", "dec"}[rng.Intn(2)]
				x := []int{coef(rng, 2), coef(rng, 900), coef(rng, 900)}
				y := []int{coef(rng, 2), coef(rng, 900), coef(rng, 900)}
				if rng.Intn(3) == 0 { // right at the bound: +-(2V^2 - small)
					x = []int{2, 0, -1 - rng.Intn(5)}
					if rng.Intn(2) == 0 {
						x = []int{-2, 0, 1 + rng.Intn(5)}
					}
					y = []int{0, 0, coef(rng, 6)}
				}
				// operands must be representable themselves (domain of the specification)
				if !representable(variant, x) || !representable(variant, y) {
					continue
				}
				switch rng.Intn(5) {
				case 0:
					num(variant, "Add", x, y)
				case 1:
					num(variant, "Sub", x, y)
				case 2:
					num(variant, "Cmp", x, y)
				case 3:
					num(variant, "Neg", x, nil)
				default:
					if variant == "int" {
						num("int", "FromString", []int{coef(rng, 3), coef(rng, 900), coef(rng, 900)}, nil)
					} else {
						num("dec", "Mul", x, []int{0, 0, coef(rng, 9)})
					}
				}
			case r < 90:
				// products around the bound: (a*V + e) * (b*V + f) = ab*V^2 + (af+be)*V + ef
				x := []int{0, coef(rng, 40), coef(rng, 900)}
				y := []int{0, coef(rng, 40), coef(rng, 900)}
				if rng.Intn(2) == 0 {
					x[1], y[1] = []int{1, -1, 2, -2}[rng.Intn(4)], []int{1, -1, 2, -2}[rng.Intn(4)]
				}
				num("int", "Mul", x, y)
			case r < 93:
				a, b := coef(rng, 900), coef(rng, 30)
				num("int", "Quo", []int{0, 0, a}, []int{0, 0, b})
			case r < 97:
				op := []string{"DecMul", "DecMulTruncate"}[rng.Intn(2)]
				x, y := coef(rng, 20000), coef(rng, 20000)
				if rng.Intn(2) == 0 { // exact halves: x*y = (2q+1)*50
					x, y = (2*coef(rng, 100)+1)*[]int{1, 5, 25}[rng.Intn(3)], []int{50, 10, 2}[rng.Intn(3)]
				}
				res, ok, e := decOp(op, x, y)
				got := []int{1}
				if ok {
					got = []int{0, res}
				}
				emit(hx.Step{"op": op, "x": x, "y": y}, got, e)
			case r < 99:
				op := []string{"DecQuo", "DecQuoTruncate", "DecQuoRoundUp"}[rng.Intn(3)]
				x, y := coef(rng, 2000), coef(rng, 5000)
				if y != 0 && (x*10000)%y != 0 { // enabling condition: the first division is exact
					y = []int{1, 2, 4, 5, 8, 16, 25, 40, 125, 200, 400, 625, 1000, 2500, 5000}[rng.Intn(15)] * (1 - 2*rng.Intn(2))
				}
				res, ok, e := decOp(op, x, y)
				got := []int{1}
				if ok {
					got = []int{0, res}
				}
				emit(hx.Step{"op": op, "x": x, "y": y}, got, e)
			default:
				x := coef(rng, 20000)
				if rng.Intn(2) == 0 {
					x = coef(rng, 200)*100 + 50
				}
				r, t, e := decRound(x)
				emit(hx.Step{"op": "DecRound", "x": x}, []int{0, r, t}, e)
			}
		}
		rep.Behaviours++
		rep.Nontrivial++
	}
	if err := tw.Close(); err != nil {
		hx.Fatal("%v", err)
	}
	rep.Extra["events"] = tw.N
	rep.Print()
}
