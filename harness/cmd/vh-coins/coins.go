package main

import (
	"fmt"
	"sync/atomic"

	sdk "github.com/pokt-network/pocket-core/types"

	"verifharness/internal/hx"
)

// denomination d of the specification (1-based, ordered) -> a valid lower-case name, same order
var denomNames = []string{"aaa", "ab1", "upokt", "uzz", "zed", "zz9"}

func denomIndex(name string) int {
	for i, n := range denomNames {
		if n == name {
			return i + 1
		}
	}
	return -1
}

// toCoins builds a Coins value from the flat list <<d1, a1, d2, a2, ...>> as a literal would:
// no sanitisation (NewCoin would refuse negative amounts).  An empty list is nil or Coins{}.
func toCoins(flat []int, nilEmpty bool) sdk.Coins {
	if len(flat) == 0 {
		if nilEmpty {
			return nil
		}
		return sdk.Coins{}
	}
	out := make(sdk.Coins, 0, len(flat)/2)
	for k := 0; k+1 < len(flat); k += 2 {
		out = append(out, sdk.Coin{Denom: denomNames[flat[k]-1], Amount: sdk.NewInt(int64(flat[k+1]))})
	}
	return out
}

func flatOf(c sdk.Coins) []int {
	out := []int{}
	for _, x := range c {
		out = append(out, denomIndex(x.Denom), int(x.Amount.Int64()))
	}
	return out
}

func cp(c sdk.Coins) sdk.Coins {
	if c == nil {
		return nil
	}
	out := make(sdk.Coins, len(c))
	copy(out, c)
	return out
}

func b2i(b bool) int {
	if b {
		return 1
	}
	return 0
}

var inputsMutated int64 // observation only: Add / NewCoins rewrite a caller's slice that holds zero coins

func sameCoins(a, b sdk.Coins) bool {
	if len(a) != len(b) {
		return false
	}
	for i := range a {
		if a[i].Denom != b[i].Denom || !a[i].Amount.Equal(b[i].Amount) {
			return false
		}
	}
	return true
}

// coinWorld: the real counterpart of the specification's `acc`.
type coinWorld struct {
	acc      sdk.Coins
	nilEmpty bool
}

// exec runs one operation on the real types; got is the flat observation (<<1>> = panic).
func (w *coinWorld) exec(s hx.Step) (got []int, err string) {
	op := s.Str("op")
	var next sdk.Coins
	setNext := false
	func() {
		defer func() {
			if r := recover(); r != nil {
				got = []int{1}
			}
		}()
		recv := cp(w.acc) // operate on copies: the property speaks about results, not about the inputs
		var arg, arg0 sdk.Coins
		if s.Has("b") {
			arg0 = toCoins(hx.Ints(s["b"]), w.nilEmpty)
			arg = cp(arg0)
		}
		switch op {
		case "Load":
			next, setNext = toCoins(hx.Ints(s["a"]), w.nilEmpty), true
			got = nil
		case "Add":
			r := recv.Add(arg)
			got = append([]int{0}, flatOf(r)...)
			next, setNext = r, true
		case "SafeSub":
			r, neg := recv.SafeSub(arg)
			got = append([]int{0, b2i(neg)}, flatOf(r)...)
			next, setNext = r, true
		case "Sub":
			r := recv.Sub(arg)
			got = append([]int{0}, flatOf(r)...)
			next, setNext = r, true
		case "IsAllGT":
			got = []int{0, b2i(recv.IsAllGT(arg))}
		case "IsAllGTE":
			got = []int{0, b2i(recv.IsAllGTE(arg))}
		case "IsAllLT":
			got = []int{0, b2i(recv.IsAllLT(arg))}
		case "IsAllLTE":
			got = []int{0, b2i(recv.IsAllLTE(arg))}
		case "IsAnyGT":
			got = []int{0, b2i(recv.IsAnyGT(arg))}
		case "IsAnyGTE":
			got = []int{0, b2i(recv.IsAnyGTE(arg))}
		case "Pred":
			got = []int{0, b2i(recv.IsValid()), b2i(recv.IsZero()), b2i(recv.IsAnyNegative()), b2i(recv.IsAllPositive()), b2i(recv.Empty())}
		case "PredSeq":
			c := toCoins(hx.Ints(s["a"]), w.nilEmpty)
			got = []int{0, b2i(c.IsValid()), b2i(c.IsZero()), b2i(c.IsAnyNegative()), b2i(c.IsAllPositive()), b2i(c.Empty())}
		case "AmountOf":
			got = []int{0, int(recv.AmountOf(denomNames[s.Int("d")-1]).Int64())}
		case "NewCoins":
			c := toCoins(hx.Ints(s["a"]), w.nilEmpty)
			r := sdk.NewCoins(c...)
			got = append([]int{0}, flatOf(r)...)
			next, setNext = r, true
		default:
			err = "unknown op " + op
		}
		if (recv != nil && !sameCoins(recv, w.acc)) || (arg != nil && !sameCoins(arg, arg0)) {
			atomic.AddInt64(&inputsMutated, 1)
		}
	}()
	if setNext && (len(got) == 0 || got[0] == 0) {
		w.acc = next
	}
	return got, err
}

func eqInts(a, b []int) bool {
	if len(a) != len(b) {
		return false
	}
	for i := range a {
		if a[i] != b[i] {
			return false
		}
	}
	return true
}

func replayCoins(in string) {
	rep := hx.NewReport("coins", "replay-coins")
	err := hx.ParallelBehaviours(in, hx.Workers(), rep, func(idx int, beh []hx.Step, fresh bool, rep *hx.Report) {
		last := beh[len(beh)-1]
		// non-trivial: an operation on a non-empty receiver or with a non-empty argument
		if fresh && (len(beh) > 1 || len(hx.Ints(last["a"])) > 0 || len(hx.Ints(last["b"])) > 0) {
			rep.Nontrivial++
		}
		if idx%40000 == 7 {
			rep.AddSample(beh)
		}
		w := &coinWorld{nilEmpty: idx%2 == 0}
		for si, s := range beh {
			rep.Steps++
			rep.OpCounts[s.Str("op")]++
			got, e := w.exec(s)
			if e != "" {
				rep.AddMismatch(hx.Mismatch{Behaviour: idx, Step: si, Op: s.Str("op"), What: "exec", Want: s, Got: e, History: beh})
				break
			}
			if s.Has("ret") && !eqInts(got, hx.Ints(s["ret"])) {
				rep.AddMismatch(hx.Mismatch{Behaviour: idx, Step: si, Op: s.Str("op"), What: "ret", Want: s["ret"], Got: got, History: beh})
				break
			}
		}
	})
	if err != nil {
		hx.Fatal("%v", err)
	}
	rep.Extra["inputs_mutated_observations"] = atomic.LoadInt64(&inputsMutated)
	rep.Print()
}

var _ = fmt.Sprint
