// vh-coins: coins engine (C41 coin sets, BigInt, BigDec).
//
//	vh-coins replay-coins -in behaviours            (spec/coins/Coins.tla)
//	vh-coins replay-num   -in behaviours            (spec/coins/Num.tla; variants int and dec)
//	vh-coins trace        -out trace.ndjson -n TRACES -steps K   (validated by TraceC41.tla)
package main

import (
	"flag"
	"fmt"
	"os"
)

func main() {
	if len(os.Args) < 2 {
		fmt.Fprintln(os.Stderr, "usage: vh-coins <replay-coins|replay-num|trace> ...")
		os.Exit(2)
	}
	cmd := os.Args[1]
	fs := flag.NewFlagSet(cmd, flag.ExitOnError)
	in := fs.String("in", "", "behaviour file")
	out := fs.String("out", "", "trace output file")
	n := fs.Int("n", 10, "number of traces")
	steps := fs.Int("steps", 200, "steps per trace")
	_ = fs.Parse(os.Args[2:])
	switch cmd {
	case "replay-coins":
		replayCoins(*in)
	case "replay-num":
		replayNum(*in)
	case "trace":
		trace(*out, *n, *steps)
	default:
		fmt.Fprintln(os.Stderr, "unknown command", cmd)
		os.Exit(2)
	}
}
