package main

import (
	"fmt"
	"math/big"

	sdk "github.com/pokt-network/pocket-core/types"

	"verifharness/internal/hx"
)

// Limb numbers of spec/coins/NumOps.tla: <<c2, c1, c0>> = c2*V^2 + c1*V + c0.
// BigInt: V = 2^127 (2*V^2 = 2^255); integer under a BigDec: V = 2^157 (2*V^2 = 2^315).
var (
	vInt = new(big.Int).Lsh(big.NewInt(1), 127)
	vDec = new(big.Int).Lsh(big.NewInt(1), 157)
	// third instantiation of the uninterpreted base: V = 2^63, so that V + V, V*2 - c + c' ... cross the
	// machine-word boundary 2^64 (operands that fit a uint64 whose sum or difference does not).  The
	// specification's overflow bound 2*V^2 is NOT the type's bound here: steps the specification calls an
	// overflow are skipped in this variant.
	vW64 = new(big.Int).Lsh(big.NewInt(1), 63)
)

func vOf(variant string) *big.Int {
	switch variant {
	case "dec":
		return vDec
	case "w64":
		return vW64
	}
	return vInt
}

func limbVal(c []int, v *big.Int) *big.Int {
	if len(c) != 3 {
		panic(fmt.Sprintf("limb number with %d coefficients", len(c)))
	}
	r := big.NewInt(int64(c[0]))
	r.Mul(r, v)
	r.Add(r, big.NewInt(int64(c[1])))
	r.Mul(r, v)
	r.Add(r, big.NewInt(int64(c[2])))
	return r
}

// limbsOf writes x in base v with balanced digits; ok = the coefficients are small (trace direction:
// the real result is projected back into the specification's vocabulary).
func limbsOf(x *big.Int, v *big.Int) (c []int, ok bool) {
	half := new(big.Int).Rsh(v, 1)
	rest := new(big.Int).Set(x)
	digits := make([]*big.Int, 3)
	for k := 2; k >= 1; k-- {
		d := new(big.Int)
		rest.DivMod(rest, v, d) // Euclidean: 0 <= d < v
		if d.Cmp(half) > 0 {
			d.Sub(d, v)
			rest.Add(rest, big.NewInt(1))
		}
		digits[k] = d
	}
	digits[0] = rest
	c = make([]int, 3)
	for k, d := range digits {
		if !d.IsInt64() || d.Int64() > 1<<30 || d.Int64() < -(1<<30) {
			return nil, false
		}
		c[k] = int(d.Int64())
	}
	return c, true
}

// decRaw builds the BigDec whose underlying integer (number of 10^-18 units) is i.
func decRaw(i *big.Int) sdk.BigDec {
	return sdk.NewDecFromBigIntWithPrec(new(big.Int).Set(i), sdk.Precision)
}

func pow10(k int) *big.Int { return new(big.Int).Exp(big.NewInt(10), big.NewInt(int64(k)), nil) }

// representable: |x| <= 2*V^2 - 1, i.e. within the bit length bound of the type
func representable(variant string, x []int) bool {
	if variant == "dec" {
		return limbVal(x, vDec).BitLen() <= 255+sdk.DecimalPrecisionBits
	}
	return limbVal(x, vInt).BitLen() <= 255
}

// numBin executes a binary limb-number operation on the real type; res == nil means the call failed
// (panic / not ok).  skip = the operation has no counterpart in this variant.
func numBin(variant, op string, x, y []int) (res *big.Int, cmp int, skip bool, err string) {
	defer func() {
		if r := recover(); r != nil {
			res = nil
		}
	}()
	switch variant {
	case "int", "w64":
		if variant == "w64" && op == "Quo" {
			return nil, 0, true, ""
		}
		a := sdk.NewIntFromBigInt(limbVal(x, vOf(variant)))
		var b sdk.BigInt
		if y != nil {
			b = sdk.NewIntFromBigInt(limbVal(y, vOf(variant)))
		}
		switch op {
		case "Add":
			res = a.Add(b).BigInt()
		case "Sub":
			res = a.Sub(b).BigInt()
		case "Mul":
			res = a.Mul(b).BigInt()
		case "Quo":
			res = a.Quo(b).BigInt()
		case "Neg":
			res = a.Neg().BigInt()
		case "Cmp":
			gt, lt, eq := a.GT(b), a.LT(b), a.Equal(b)
			gte, lte := a.GTE(b), a.LTE(b)
			if b2i(gt)+b2i(lt)+b2i(eq) != 1 || gte != (gt || eq) || lte != (lt || eq) {
				return nil, 0, false, fmt.Sprintf("inconsistent comparisons gt=%v lt=%v eq=%v gte=%v lte=%v", gt, lt, eq, gte, lte)
			}
			res, cmp = big.NewInt(0), b2i(gt)-b2i(lt)
		default:
			err = "unknown op " + op
		}
	case "dec":
		a := decRaw(limbVal(x, vDec))
		var b sdk.BigDec
		small := y != nil && y[0] == 0 && y[1] == 0
		if y != nil {
			b = decRaw(limbVal(y, vDec))
		}
		switch op {
		case "Add":
			res = a.Add(b).BigInt()
		case "Sub":
			res = a.Sub(b).BigInt()
		case "Mul": // raw integer times a small integer: MulInt64 and MulInt must agree
			if !small {
				return nil, 0, true, ""
			}
			var r1, r2 *big.Int
			func() {
				defer func() { _ = recover() }()
				r1 = a.MulInt64(int64(y[2])).BigInt()
			}()
			func() {
				defer func() { _ = recover() }()
				r2 = a.MulInt(sdk.NewInt(int64(y[2]))).BigInt()
			}()
			if (r1 == nil) != (r2 == nil) || (r1 != nil && r1.Cmp(r2) != 0) {
				return nil, 0, false, fmt.Sprintf("MulInt64 = %v but MulInt = %v", r1, r2)
			}
			res = r1
		case "Quo":
			if !small {
				return nil, 0, true, ""
			}
			res = a.QuoInt64(int64(y[2])).BigInt()
		case "Neg":
			res = a.Neg().BigInt()
		case "Cmp":
			gt, lt, eq := a.GT(b), a.LT(b), a.Equal(b)
			if b2i(gt)+b2i(lt)+b2i(eq) != 1 || a.GTE(b) != (gt || eq) || a.LTE(b) != (lt || eq) {
				return nil, 0, false, "inconsistent comparisons"
			}
			res, cmp = big.NewInt(0), b2i(gt)-b2i(lt)
		default:
			err = "unknown op " + op
		}
	}
	return
}

func fromString(x []int) (res *big.Int) {
	v := limbVal(x, vInt)
	i, ok := sdk.NewIntFromString(v.String())
	if !ok {
		return nil
	}
	return i.BigInt()
}

// decOp executes a rounding operation of the scaled-decimal model (precision 100 in the
// specification) on the real BigDec (precision 10^18).  Operand mapping, so that the real code
// takes the same quotient / remainder decisions and the real result in 10^-18 units equals the
// specified result in specification ulps:
//
//	Mul, MulTruncate: X = x*10^a, Y = y*10^(16-a)  =>  X*Y / 10^18 = x*y / 100     (a = 0, 8, 16)
//	Quo*:             X = x*10^k, Y = y*10^(16+k)  =>  X*10^36 / Y = (x*10^4 / y) * 10^16, an exact
//	                  integer multiple of 10^16 on the class QuoExact, chopped by 10^18 like t / 100
//
// All mappings must give the same answer.  ok=false: the call panicked.
func decOp(op string, x, y int) (res int, ok bool, err string) {
	type pair struct{ X, Y *big.Int }
	var maps []pair
	bx, by := big.NewInt(int64(x)), big.NewInt(int64(y))
	switch op {
	case "DecMul", "DecMulTruncate":
		for _, a := range []int{0, 8, 16} {
			maps = append(maps, pair{new(big.Int).Mul(bx, pow10(a)), new(big.Int).Mul(by, pow10(16-a))})
		}
	default:
		for _, k := range []int{0, 1, 5} {
			maps = append(maps, pair{new(big.Int).Mul(bx, pow10(k)), new(big.Int).Mul(by, pow10(16+k))})
		}
	}
	first := true
	for _, m := range maps {
		var r *big.Int
		func() {
			defer func() {
				if rec := recover(); rec != nil {
					r = nil
				}
			}()
			X, Y := decRaw(m.X), decRaw(m.Y)
			switch op {
			case "DecMul":
				r = X.Mul(Y).BigInt()
			case "DecMulTruncate":
				r = X.MulTruncate(Y).BigInt()
			case "DecQuo":
				r = X.Quo(Y).BigInt()
			case "DecQuoTruncate":
				r = X.QuoTruncate(Y).BigInt()
			case "DecQuoRoundUp":
				r = X.QuoRoundUp(Y).BigInt()
			default:
				err = "unknown op " + op
			}
		}()
		if err != "" {
			return 0, false, err
		}
		curOK := r != nil
		cur := 0
		if curOK {
			if !r.IsInt64() || r.Int64() > 1<<30 || r.Int64() < -(1<<30) {
				return 0, false, fmt.Sprintf("%s(%d,%d): result %v is not small", op, x, y, r)
			}
			cur = int(r.Int64())
		}
		if first {
			res, ok, first = cur, curOK, false
		} else if curOK != ok || cur != res {
			return 0, false, fmt.Sprintf("%s(%d,%d): operand mappings disagree: %d/%v vs %d/%v", op, x, y, res, ok, cur, curOK)
		}
	}
	return res, ok, ""
}

// decRound: the decimal x/100 as a real BigDec; RoundInt64 (bankers) and TruncateInt64.
func decRound(x int) (r, t int, err string) {
	defer func() {
		if rec := recover(); rec != nil {
			err = fmt.Sprintf("panic: %v", rec)
		}
	}()
	d := decRaw(new(big.Int).Mul(big.NewInt(int64(x)), pow10(16)))
	r, t = int(d.RoundInt64()), int(d.TruncateInt64())
	if !d.RoundInt().Equal(sdk.NewInt(int64(r))) || !d.TruncateInt().Equal(sdk.NewInt(int64(t))) {
		return 0, 0, "RoundInt / TruncateInt disagree with their Int64 versions"
	}
	return r, t, ""
}

// numObserve: the observation of a limb-number operation in the specification's vocabulary.
func numObserve(variant, op string, x, y []int) (got []int, skip bool, err string) {
	v := vOf(variant)
	if op == "FromString" {
		if variant != "int" {
			return nil, true, ""
		}
		r := fromString(x)
		if r == nil {
			return []int{1}, false, ""
		}
		c, ok := limbsOf(r, v)
		if !ok {
			return nil, false, "parsed value has no small limb representation"
		}
		return append([]int{0}, c...), false, ""
	}
	r, cmp, skip, err := numBin(variant, op, x, y)
	if skip || err != "" {
		return nil, skip, err
	}
	if r == nil {
		return []int{1}, false, ""
	}
	if op == "Cmp" {
		return []int{0, cmp}, false, ""
	}
	c, ok := limbsOf(r, v)
	if !ok {
		return nil, false, fmt.Sprintf("result %v has no small limb representation", r)
	}
	return append([]int{0}, c...), false, ""
}

func replayNum(in string) {
	rep := hx.NewReport("coins", "replay-num")
	err := hx.ParallelBehaviours(in, hx.Workers(), rep, func(idx int, beh []hx.Step, fresh bool, rep *hx.Report) {
		last := beh[len(beh)-1]
		if fresh && last.Str("op") != "Set" {
			rep.Nontrivial++ // an arithmetic / parsing / rounding operation is observed
		}
		if idx%5000 == 3 {
			rep.AddSample(beh)
		}
		for _, variant := range []string{"int", "dec", "w64"} {
			reg := []int{0, 0, 0}
			for si, s := range beh {
				op := s.Str("op")
				var got []int
				var e string
				skip := false
				switch op {
				case "Set":
					reg = hx.Ints(s["x"])
					continue
				case "Add", "Sub", "Mul", "Quo", "Cmp":
					got, skip, e = numObserve(variant, op, reg, hx.Ints(s["y"]))
				case "Neg":
					got, skip, e = numObserve(variant, op, reg, nil)
				case "FromString":
					got, skip, e = numObserve(variant, op, hx.Ints(s["x"]), nil)
				case "DecMul", "DecMulTruncate", "DecQuo", "DecQuoTruncate", "DecQuoRoundUp":
					if variant != "dec" {
						skip = true
						break
					}
					r, ok, e2 := decOp(op, s.Int("x"), s.Int("y"))
					e = e2
					if ok {
						got = []int{0, r}
					} else {
						got = []int{1}
					}
				case "DecRound":
					if variant != "dec" {
						skip = true
						break
					}
					r, t, e2 := decRound(s.Int("x"))
					e, got = e2, []int{0, r, t}
				default:
					e = "unknown op " + op
				}
				if skip {
					break
				}
				if variant == "w64" && len(hx.Ints(s["ret"])) > 0 && hx.Ints(s["ret"])[0] != 0 {
					break // an overflow of the specification's bound 2*V^2, which is not the type's bound when V = 2^63
				}
				rep.Steps++
				rep.OpCounts[variant+"."+op]++
				if e != "" {
					rep.AddMismatch(hx.Mismatch{Behaviour: idx, Step: si, Op: op, What: "exec", Want: s, Got: e, History: beh, Variant: variant})
					break
				}
				want := hx.Ints(s["ret"])
				if !eqInts(got, want) {
					rep.AddMismatch(hx.Mismatch{Behaviour: idx, Step: si, Op: op, What: "ret", Want: want, Got: got, History: beh, Variant: variant})
					break
				}
				// the register follows the real result
				if len(got) == 4 && got[0] == 0 && op != "FromString" {
					reg = got[1:]
				}
			}
		}
	})
	if err != nil {
		hx.Fatal("%v", err)
	}
	rep.Extra["variants"] = []string{"int (V=2^127, BigInt)", "dec (V=2^157, integer under BigDec; rounding ops at 10^18)",
		"w64 (V=2^63, BigInt at the machine-word boundary; Add/Sub/Mul/Neg/Cmp, steps the specification calls overflow skipped)"}
	rep.Print()
}
