// vh-chain: chain engine (PocketCoreApp driven through ABCI by harness/chainsim).
package main

import (
	"encoding/json"
	"flag"
	"fmt"
	"os"

	sdk "github.com/pokt-network/pocket-core/types"
	nodesTypes "github.com/pokt-network/pocket-core/x/nodes/types"

	"verifharness/chainsim"
)

func smoke() {
	cfg := chainsim.Config{Seed: 1, NKeys: 8,
		Balances: map[int]int64{0: 50000000, 1: 50000000, 2: 20000000, 3: 20000000, 4: 5000000},
		Nodes: []chainsim.NodeSpec{{Key: 0, Output: 2, Tokens: 5000000, Chains: []string{"0001"}}, {Key: 1, Output: -1, Tokens: 3000000, Chains: []string{"0001", "0002"}}},
		Apps:  []chainsim.AppSpec{{Key: 3, Tokens: 2000000, Chains: []string{"0001"}}},
		DAOTokens: 1000000, DAOOwner: 0, Servicer: -1}
	s := chainsim.New(cfg)
	for i := 0; i < 3; i++ {
		var txs [][]byte
		if i == 2 {
			msg := &nodesTypes.MsgSend{FromAddress: s.Addr(4), ToAddress: s.Addr(5), Amount: sdk.NewInt(12345)}
			txs = append(txs, s.SignTx(msg, chainsim.TxOpts{Signer: s.Keys[4], Fee: 10000, Entropy: 1}))
		}
		r := s.Block(txs, chainsim.BlockOpts{})
		fmt.Fprintf(os.Stderr, "block %d hash %x results %d\n", r.Height, r.AppHash[:4], len(r.Results))
		for _, x := range r.Results {
			fmt.Fprintf(os.Stderr, "  code=%d cs=%s log=%.120s\n", x.Code, x.Codespace, x.Log)
		}
	}
	b, _ := json.MarshalIndent(s.Project(), "", " ")
	fmt.Println(string(b))
}

func main() {
	if len(os.Args) < 2 {
		fmt.Fprintln(os.Stderr, "usage: vh-chain <cmd>")
		os.Exit(2)
	}
	fs := flag.NewFlagSet(os.Args[1], flag.ExitOnError)
	out := fs.String("out", "", "trace output")
	n := fs.Int("n", 5, "traces")
	blocks := fs.Int("blocks", 20, "blocks per trace")
	in := fs.String("in", "", "behaviour file")
	shard := fs.Int("shard", 0, "shard index")
	of := fs.Int("of", 1, "number of shards")
	_ = fs.Parse(os.Args[2:])
	switch os.Args[1] {
	case "smoke":
		smoke()
	case "trace-auth":
		traceAuth(*out, *n, *blocks)
	case "init-state":
		initState(*out)
	case "replay-auth":
		replayAuth(*in, *shard, *of)
	default:
		os.Exit(2)
	}
}
