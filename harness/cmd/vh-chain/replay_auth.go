package main

import (
	"encoding/json"
	"fmt"
	"os"
	"reflect"

	sdk "github.com/pokt-network/pocket-core/types"
	authTypes "github.com/pokt-network/pocket-core/x/auth/types"
	nodesTypes "github.com/pokt-network/pocket-core/x/nodes/types"

	"verifharness/chainsim"
	"verifharness/internal/hx"
)

const warmBlocks = 2 // empty blocks before a scenario starts (all features active from height 2)

func newWarmSim(seed int64) *chainsim.Sim {
	s := chainsim.New(stdConfig(seed))
	for i := 0; i < warmBlocks; i++ {
		s.Block(nil, chainsim.BlockOpts{})
	}
	return s
}

// initState writes the projection of the warmed-up genesis: TLC's design models start
// from it, so their behaviours can be replayed on an identically built chain.
func initState(out string) {
	s := newWarmSim(hx.Seed())
	core, cfg := s.Split(s.Project())
	votes := s.Votes(nil)
	prop := ""
	if len(votes) > 0 {
		prop = s.Name(sdk.Address(votes[0].Validator.Address))
	}
	b, _ := json.Marshal(map[string]interface{}{"st": core, "cfg": cfg, "h": s.Height, "proposer": prop})
	if err := os.WriteFile(out, b, 0644); err != nil {
		hx.Fatal("%v", err)
	}
	rep := hx.NewReport("chain", "init-state")
	rep.Print()
}

func addrOf(s *chainsim.Sim, name string) sdk.Address {
	for a, n := range s.Names {
		if n == name {
			ad, _ := sdk.AddressFromHex(a)
			return ad
		}
	}
	return nil
}

func keyIdxOf(s *chainsim.Sim, name string) int {
	for i := range s.Keys {
		if s.Name(s.Addr(i)) == name {
			return i
		}
	}
	return -1
}

func sigOpts(s *chainsim.Sim, tx hx.Step) (chainsim.TxOpts, int) {
	o := chainsim.TxOpts{Fee: int64(tx.Int("fee")), Entropy: int64(tx.Int("id"))}
	if !tx.Bool("hasSig") {
		o.NoSig = true
	} else if !tx.Bool("sigOK") {
		o.CorruptSig = true
	}
	if !tx.Bool("chainOK") {
		o.ChainID = "other-chain"
	}
	si := keyIdxOf(s, tx.Str("signer"))
	if si >= 0 {
		o.Signer = s.Keys[si]
	}
	return o, si
}

// buildSend turns the abstract send transaction of a behaviour into real signed bytes.
func buildSend(s *chainsim.Sim, tx hx.Step) []byte {
	o, si := sigOpts(s, tx)
	if si < 0 {
		hx.Fatal("behaviour names unknown signer %q", tx.Str("signer"))
	}
	msg := &nodesTypes.MsgSend{FromAddress: addrOf(s, tx.Str("from")), ToAddress: addrOf(s, tx.Str("to")), Amount: sdk.NewInt(int64(tx.Int("amount")))}
	return s.SignTx(msg, o)
}

func focusOf(st chainsim.State) map[string]interface{} {
	b, _ := json.Marshal(map[string]interface{}{"bal": st.Bal, "supply": st.Supply, "nopk": st.Nopk})
	var m map[string]interface{}
	_ = json.Unmarshal(b, &m)
	return m
}

func sameFocus(want interface{}, got map[string]interface{}) (bool, string) {
	w, ok := want.(map[string]interface{})
	if !ok {
		return false, "expected state is not an object"
	}
	for k := range w {
		a, b := w[k], got[k]
		if m, ok := a.([]interface{}); ok && len(m) == 0 { // TLA empty function prints as []
			a = map[string]interface{}{}
		}
		if !reflect.DeepEqual(a, b) {
			return false, fmt.Sprintf("%s: spec=%v real=%v", k, a, b)
		}
	}
	return true, ""
}

// replayAuth replays TLC behaviours of MCChainAuth (one transaction per block) on the
// real application.  Chains are process-global, so behaviours run sequentially; use
// -shard/-of to spread them over processes.
func replayAuth(in string, shard, of int) {
	rep := hx.NewReport("chain", "replay-auth")
	seen := map[string]bool{}
	err := hx.ReadBehaviours(in, func(idx int, beh []hx.Step) error {
		if idx%of != shard {
			return nil
		}
		rep.Behaviours++
		raw, _ := json.Marshal(beh)
		fresh := !seen[string(raw)]
		seen[string(raw)] = true
		s := newWarmSim(hx.Seed())
		bytesByID := map[int][]byte{}
		nontrivial := false
		for si, step := range beh {
			tx := hx.Step(step["tx"].(map[string]interface{}))
			rep.Steps++
			rep.OpCounts[step.Str("class")]++
			id := tx.Int("id")
			bz, ok := bytesByID[id]
			if !ok {
				bz = buildSend(s, tx)
				bytesByID[id] = bz
			}
			s.BeginBlock(chainsim.BlockOpts{})
			if ok, why := sameFocus(step["begun"], focusOf(s.Project())); !ok {
				rep.AddMismatch(hx.Mismatch{Behaviour: idx, Step: si, Op: "BeginBlock", What: "state after BeginBlock: " + why, History: beh})
				s.EndBlock()
				s.Commit()
				break
			}
			res := s.DeliverTx(bz)
			got := focusOf(s.Project())
			s.EndBlock()
			s.Commit()
			if step.Bool("ok") != (res.Code == 0) {
				rep.AddMismatch(hx.Mismatch{Behaviour: idx, Step: si, Op: "DeliverTx", What: "result", Want: step.Bool("ok"),
					Got: fmt.Sprintf("code=%d codespace=%s", res.Code, res.Codespace), History: beh})
				break
			}
			if ok, why := sameFocus(step["st"], got); !ok {
				rep.AddMismatch(hx.Mismatch{Behaviour: idx, Step: si, Op: "DeliverTx", What: "state after DeliverTx: " + why, History: beh})
				break
			}
			if step.Str("class") == "ok" || tx.Str("dup") != "no" {
				nontrivial = true
			}
		}
		if fresh && nontrivial {
			rep.Nontrivial++
		}
		if idx%5000 == 3 {
			rep.AddSample(beh)
		}
		return nil
	})
	if err != nil {
		hx.Fatal("%v", err)
	}
	rep.Distinct = len(seen)
	rep.Print()
}

var _ = authTypes.FeeCollectorName
