package main

import (
	"math/rand"

	posCrypto "github.com/pokt-network/pocket-core/crypto"
	sdk "github.com/pokt-network/pocket-core/types"
	authTypes "github.com/pokt-network/pocket-core/x/auth/types"
	nodesTypes "github.com/pokt-network/pocket-core/x/nodes/types"

	"verifharness/chainsim"
	"verifharness/internal/hx"
)

// stdConfig is the small-number economy shared by the chain drivers.
func stdConfig(seed int64) chainsim.Config {
	return chainsim.Config{Seed: seed, NKeys: 10,
		Balances:  map[int]int64{0: 40000000, 1: 40000000, 2: 20000000, 3: 20000000, 4: 5000000, 5: 300000, 6: 30000},
		Nodes:     []chainsim.NodeSpec{{Key: 0, Output: -1, Tokens: 5000000, Chains: []string{"0001"}}, {Key: 1, Output: -1, Tokens: 3000000, Chains: []string{"0001", "0002"}}},
		Apps:      []chainsim.AppSpec{{Key: 3, Tokens: 2000000, Chains: []string{"0001"}}},
		DAOTokens: 1000000, DAOOwner: 0, Servicer: -1}
}

type sentTx struct {
	bytes []byte
	abs   map[string]interface{}
}

// sendTx builds a send transaction with randomly varied authentication / fee /
// amount dimensions.  Reading balances here only chooses boundary inputs; expected
// outcomes are computed by the specification, not here.
func sendTx(s *chainsim.Sim, rng *rand.Rand, entropy int64) sentTx {
	st := s.Project()
	n := len(s.Keys)
	from := rng.Intn(7)
	bal := st.Bal[s.Name(s.Addr(from))]
	var toAddr sdk.Address
	toName := ""
	switch rng.Intn(6) {
	case 0:
		toAddr = s.Addr(from) // self
	case 1:
		toAddr = s.Addr(7 + rng.Intn(n-7)) // possibly new account
	case 2:
		toAddr = authTypes.NewModuleAddress([]string{authTypes.FeeCollectorName, "dao", nodesTypes.StakedPoolName}[rng.Intn(3)])
	default:
		toAddr = s.Addr(rng.Intn(7))
	}
	if len(s.Cfg.BigBase) > 0 && rng.Intn(3) == 0 {
		toAddr = s.Addr(9) // the account whose balance sits just below 2^64
	}
	toName = s.Name(toAddr)
	fee := int64(10000)
	switch rng.Intn(10) {
	case 0:
		fee = 9999
	case 1:
		fee = 10001
	case 2:
		fee = 0
	case 3:
		fee = 50000
	}
	var amount int64
	switch rng.Intn(8) {
	case 0:
		amount = 1
	case 1:
		amount = bal - fee - 1
	case 2:
		amount = bal - fee
	case 3:
		amount = bal - fee + 1
	case 4:
		amount = bal
	case 5:
		amount = bal + 1
	default:
		amount = 1 + rng.Int63n(100000)
	}
	basicOK := true
	if amount <= 0 {
		if rng.Intn(3) > 0 {
			amount = 1 + rng.Int63n(1000)
		} else {
			basicOK = false // ValidateBasic rejects non-positive amounts
		}
	}
	signerIdx := from
	o := chainsim.TxOpts{Fee: fee, Entropy: entropy}
	switch rng.Intn(14) {
	case 0:
		signerIdx = (from + 1 + rng.Intn(6)) % 7 // another funded key signs
	case 1:
		o.CorruptSig = true
	case 2:
		o.ChainID = "other-chain"
	case 3:
		o.NoSig = true
	case 5:
		o.BadSignBytes = true
	case 6:
		o.Memo = string(make([]byte, 76))
	case 7:
		signerIdx = 7 + rng.Intn(3) // a key whose account may not exist
	}
	feeValid := true
	if rng.Intn(25) == 0 { // invalid fee coin sets
		switch rng.Intn(3) {
		case 0:
			o.FeeCoins = sdk.Coins{sdk.Coin{Denom: sdk.DefaultStakeDenom, Amount: sdk.ZeroInt()}}
		case 1:
			o.FeeCoins = sdk.Coins{sdk.NewCoin(sdk.DefaultStakeDenom, sdk.NewInt(fee)), sdk.NewCoin(sdk.DefaultStakeDenom, sdk.NewInt(fee))}
		default:
			o.FeeCoins = sdk.Coins{sdk.NewCoin("zzz", sdk.NewInt(5)), sdk.NewCoin("aaa", sdk.NewInt(5))}
		}
		feeValid = o.FeeCoins.IsValid()
		_ = feeValid
	}
	o.Signer = s.Keys[signerIdx]
	msg := &nodesTypes.MsgSend{FromAddress: s.Addr(from), ToAddress: toAddr, Amount: sdk.NewInt(amount)}
	bz := s.SignTx(msg, o)
	abs := s.SigFields(o, signerIdx)
	abs["kind"] = "send"
	abs["from"] = s.Name(s.Addr(from))
	abs["to"] = toName
	abs["amount"] = amount
	abs["basicOK"] = basicOK
	return sentTx{bz, abs}
}

// multiTx: a send from the 2-member multi-signature account "m1" with varied fee (the ante
// handler does not apply the minimum-fee check to multi-signature keys), member order
// and completeness.
func multiTx(s *chainsim.Sim, rng *rand.Rand, entropy int64, members []int) sentTx {
	keys := []posCrypto.PrivateKey{s.Keys[members[0]], s.Keys[members[1]]}
	from := chainsim.MultiAddr(keys)
	fee := []int64{1, 5000, 10000, 10000}[rng.Intn(4)]
	o := chainsim.TxOpts{Fee: fee, Entropy: entropy, Multi: keys, Signer: keys[0]}
	sigOK := true
	switch rng.Intn(5) {
	case 0:
		o.MultiSignOrder = []int{1, 0} // signatures in the wrong order
		sigOK = false
	case 1:
		o.MultiSignOrder = []int{0} // one member missing
		sigOK = false
	case 2:
		o.MultiSignOrder = []int{0, 0} // the same member twice
		sigOK = false
	}
	amount := 1 + rng.Int63n(1000)
	to := s.Addr(rng.Intn(7))
	msg := &nodesTypes.MsgSend{FromAddress: from, ToAddress: to, Amount: sdk.NewInt(amount)}
	bz := s.SignTx(msg, o)
	abs := s.SigFields(o, -1)
	abs["signer"] = "m1"
	abs["multisig"] = true
	abs["sigOK"] = sigOK
	abs["kind"] = "send"
	abs["from"] = "m1"
	abs["to"] = s.Name(to)
	abs["amount"] = amount
	return sentTx{bz, abs}
}

// traceAuth records chains of blocks full of send transactions (C14-C18).
func traceAuth(out string, nTraces, blocks int) {
	tw, err := hx.NewTraceWriter(out)
	if err != nil {
		hx.Fatal("%v", err)
	}
	rep := hx.NewReport("chain", "trace-auth")
	for t := 0; t < nTraces; t++ {
		rng := hx.Rng(int64(t) + 4242)
		cfg := stdConfig(hx.Seed()*1000 + int64(t))
		if t%3 == 2 {
			// every third chain: a10, which only ever RECEIVES, holds 2^64 - 5000 uPOKT (the projection subtracts
			// the offset again), so that ordinary sends carry a balance across the machine-word boundary.  (A
			// sender cannot be offset: the specification decides "enough funds" from the projected balance.)
			cfg.Balances[9] = 5000
			cfg.BigBase = map[int]string{9: "18446744073709541616"}
		}
		s := chainsim.New(cfg)
		r := chainsim.NewRecorder(s, tw)
		r.Focus = []string{"h", "bal", "supply", "nopk", "badCoins", "val", "app"}
		members := []int{7, 8}
		maddr := chainsim.MultiAddr([]posCrypto.PrivateKey{s.Keys[7], s.Keys[8]})
		s.Names[maddr.String()] = "m1"
		r.Reset("auth")
		var history []sentTx
		// transactions of earlier blocks that were refused with a non-zero code: resubmitting the ones that
		// passed the ante handler (fee paid) and failed in their message handler must not charge the fee again
		var failed []sentTx
		funded := false
		entropy := int64(1)
		for b := 0; b < blocks; b++ {
			r.BeginBlock(chainsim.BlockOpts{})
			ntx := rng.Intn(5)
			var inBlock, failedNow []sentTx
			for i := 0; i < ntx; i++ {
				var tx sentTx
				switch {
				case len(failed) > 0 && rng.Intn(5) == 0:
					tx = failed[rng.Intn(len(failed))] // a refused transaction of an earlier block, same bytes
				case len(inBlock) > 0 && rng.Intn(8) == 0:
					tx = inBlock[rng.Intn(len(inBlock))] // same bytes again in this block
				case len(history) > 0 && rng.Intn(6) == 0:
					tx = history[rng.Intn(len(history))] // same bytes from an earlier block
				case len(history) > 0 && rng.Intn(6) == 0:
					// the same signed content in different bytes (re-encoding)
					old := history[rng.Intn(len(history))]
					if bz, ok := s.Reencode(old.bytes, rng.Intn(2)); ok {
						abs := map[string]interface{}{}
						for k, v := range old.abs {
							abs[k] = v
						}
						abs["dup"] = "reencoded"
						tx = sentTx{bz, abs}
					} else {
						entropy++
						tx = sendTx(s, rng, entropy)
					}
				case !funded && b >= 2:
					// fund the multi-signature account with an ordinary send from a1
					entropy++
					o := chainsim.TxOpts{Fee: 10000, Entropy: entropy, Signer: s.Keys[0]}
					msg := &nodesTypes.MsgSend{FromAddress: s.Addr(0), ToAddress: maddr, Amount: sdk.NewInt(2000000)}
					abs := s.SigFields(o, 0)
					abs["kind"], abs["from"], abs["to"], abs["amount"] = "send", "a1", "m1", int64(2000000)
					tx = sentTx{s.SignTx(msg, o), abs}
					funded = true
				case funded && rng.Intn(5) == 0:
					entropy++
					tx = multiTx(s, rng, entropy, members)
				case s.Height >= 3 && rng.Intn(5) == 0:
					// (new-style node messages do not decode before the block after NCUST activation)
					entropy++
					tx = otherKindTx(s, rng, entropy)
				default:
					entropy++
					tx = sendTx(s, rng, entropy)
				}
				res := r.DeliverTx(tx.bytes, tx.abs)
				rep.Steps++
				rep.OpCounts[classOf(res.Code, res.Codespace)]++
				inBlock = append(inBlock, tx)
				if res.Code != 0 && !(res.Codespace == "auth" && res.Code == 6) {
					failedNow = append(failedNow, tx)
				}
			}
			history = append(history, inBlock...)
			failed = append(failed, failedNow...)
			r.EndBlock()
			r.Commit()
		}
		rep.Behaviours++
	}
	if err := tw.Close(); err != nil {
		hx.Fatal("%v", err)
	}
	rep.Extra["events"] = tw.N
	rep.Print()
}

func classOf(code uint32, cs string) string {
	if code == 0 {
		return "ok"
	}
	return cs + "/" + itoa(int(code))
}

func itoa(i int) string {
	if i == 0 {
		return "0"
	}
	s := ""
	for i > 0 {
		s = string(rune('0'+i%10)) + s
		i /= 10
	}
	return s
}
