package main

import (
	"math/rand"

	sdk "github.com/pokt-network/pocket-core/types"
	appsTypes "github.com/pokt-network/pocket-core/x/apps/types"
	authTypes "github.com/pokt-network/pocket-core/x/auth/types"
	govTypes "github.com/pokt-network/pocket-core/x/gov/types"
	nodesTypes "github.com/pokt-network/pocket-core/x/nodes/types"

	"verifharness/chainsim"
)

// otherKindTx builds a transaction of a kind other than send with a randomly chosen
// signer relation (proper signer, another staked application, another node's operator,
// an unrelated funded key, the node's output address).  TraceChainAuth judges the
// authentication outcome of every kind (an unauthenticated transaction must change
// nothing); the message semantics of these kinds belong to the other chain modules.
func otherKindTx(s *chainsim.Sim, rng *rand.Rand, entropy int64) sentTx {
	name := func(i int) string { return s.Name(s.Addr(i)) }
	// key roles in stdConfig: 0,1 genesis nodes; 3 genesis application; 2,4,5,6 funded plain accounts
	candidates := []int{0, 1, 2, 3, 4}
	signerIdx := candidates[rng.Intn(len(candidates))]
	o := chainsim.TxOpts{Fee: 10000, Entropy: entropy}
	switch rng.Intn(12) {
	case 0:
		o.CorruptSig = true
	case 1:
		o.ChainID = "other-chain"
	case 2:
		o.BadSignBytes = true
	}
	var msg sdk.ProtoMsg
	abs := map[string]interface{}{}
	switch rng.Intn(8) {
	case 7: // the parameter owner (a1) changes the fee multiplier of send, possibly in the middle of a block
		signerIdx = 0
		o = chainsim.TxOpts{Fee: 10000, Entropy: entropy}
		fm := authTypes.FeeMultipliers{FeeMultis: []authTypes.FeeMultiplier{{Key: "send", Multiplier: int64(1 + rng.Intn(2))}}, Default: 1}
		val, _ := chainsim.Codec().MarshalJSON(fm)
		msg = &govTypes.MsgChangeParam{FromAddress: s.Addr(0), ParamKey: "auth/FeeMultipliers", ParamVal: val}
		abs["kind"], abs["from"] = "change_param", name(0)
	case 0: // node stake / edit-stake of a genesis node or of key 2
		node := []int{0, 1, 2}[rng.Intn(3)]
		m := &nodesTypes.MsgStake{PublicKey: s.Keys[node].PublicKey(), Chains: []string{"0001"}, Value: sdk.NewInt(int64(3+rng.Intn(4)) * 1000000),
			ServiceUrl: "https://node.example:443"}
		out := ""
		if rng.Intn(2) == 0 {
			m.Output = s.Addr(4)
			out = name(4)
		}
		msg = m
		abs["kind"], abs["node"], abs["output"], abs["amount"], abs["chains"] = "node_stake", name(node), out, m.Value.Int64(), []string{"0001"}
	case 1:
		node := rng.Intn(2)
		msg = &nodesTypes.MsgBeginUnstake{Address: s.Addr(node), Signer: s.Addr(signerIdx)}
		abs["kind"], abs["node"], abs["msgSigner"] = "node_unstake", name(node), name(signerIdx)
	case 2:
		node := rng.Intn(2)
		msg = &nodesTypes.MsgUnjail{ValidatorAddr: s.Addr(node), Signer: s.Addr(signerIdx)}
		abs["kind"], abs["node"], abs["msgSigner"] = "node_unjail", name(node), name(signerIdx)
	case 3: // application stake / edit-stake (never transfer-shaped: value and chains are set)
		a := []int{3, 4, 2}[rng.Intn(3)]
		chains := []string{"0001", "0002"}[:1+rng.Intn(2)]
		m := &appsTypes.MsgStake{PubKey: s.Keys[a].PublicKey(), Chains: chains, Value: sdk.NewInt(int64(2+rng.Intn(3)) * 1000000)}
		msg = m
		abs["kind"], abs["app"], abs["amount"], abs["chains"] = "app_stake", name(a), m.Value.Int64(), chains
	case 4:
		a := []int{3, 4}[rng.Intn(2)]
		msg = &appsTypes.MsgBeginUnstake{Address: s.Addr(a)}
		abs["kind"], abs["app"] = "app_unstake", name(a)
	case 5:
		from := candidates[rng.Intn(len(candidates))]
		val, _ := chainsim.Codec().MarshalJSON(int64(3))
		msg = &govTypes.MsgChangeParam{FromAddress: s.Addr(from), ParamKey: "pos/MaxValidators", ParamVal: val}
		abs["kind"], abs["from"] = "change_param", name(from)
	default:
		from := candidates[rng.Intn(len(candidates))]
		msg = &govTypes.MsgDAOTransfer{FromAddress: s.Addr(from), ToAddress: s.Addr(5), Amount: sdk.NewInt(1000), Action: govTypes.DAOTransferString}
		abs["kind"], abs["from"] = "dao_transfer", name(from)
	}
	o.Signer = s.Keys[signerIdx]
	bz := s.SignTx(msg, o)
	for k, v := range s.SigFields(o, signerIdx) {
		abs[k] = v
	}
	abs["basicOK"] = msg.ValidateBasic() == nil
	return sentTx{bz, abs}
}
