package main

import (
	"encoding/json"
	"fmt"
	"sort"
	"strconv"
	"time"

	posCrypto "github.com/pokt-network/pocket-core/crypto"
	sdk "github.com/pokt-network/pocket-core/types"
	appsTypes "github.com/pokt-network/pocket-core/x/apps/types"
	authTypes "github.com/pokt-network/pocket-core/x/auth/types"
	govTypes "github.com/pokt-network/pocket-core/x/gov/types"
	nodesTypes "github.com/pokt-network/pocket-core/x/nodes/types"
	pc "github.com/pokt-network/pocket-core/x/pocketcore/types"

	"verifharness/chainsim"
	"verifharness/internal/hx"
)

// absTx is the abstract transaction record of the specification (ChainAuth header plus the
// message's own fields, see PocketChain.tla).  buildTx turns it into really signed bytes, so
// the same record drives the recorded traces and the replay of TLC behaviours.
type absTx map[string]interface{}

func strs(v interface{}) []string {
	out := []string{}
	switch a := v.(type) {
	case []string:
		return append(out, a...)
	case []interface{}:
		for _, x := range a {
			if s, ok := x.(string); ok {
				out = append(out, s)
			}
		}
	}
	return out
}

func intMap(v interface{}) map[string]int64 {
	out := map[string]int64{}
	switch m := v.(type) {
	case map[string]int64:
		return m
	case map[string]interface{}:
		for k, x := range m {
			switch n := x.(type) {
			case float64:
				out[k] = int64(n)
			case int64:
				out[k] = n
			case int:
				out[k] = int64(n)
			}
		}
	}
	return out
}

func (w *world) nextID() int64 { w.entropy++; return w.entropy }

// sig fills the signing dimensions of an abstract transaction (all valid, fee 10000)
func (w *world) sig(a absTx, signer string) absTx {
	def := absTx{"signer": signer, "sigOK": true, "chainOK": true, "hasSig": true, "hasPK": true, "multisig": false,
		"depthOK": true, "fee": int64(10000), "feeValid": true, "memoLen": 0, "decodes": true, "basicOK": true, "dup": "no"}
	for k, v := range def {
		if _, ok := a[k]; !ok {
			a[k] = v
		}
	}
	if _, ok := a["id"]; !ok {
		a["id"] = w.nextID()
	}
	return a
}

// multiMembers: the two member keys of the multi-signature account "m1"
var multiMembers = []int{kU2, kSpare}

func (w *world) multiKeys() []posCrypto.PrivateKey {
	return []posCrypto.PrivateKey{w.s.Keys[multiMembers[0]], w.s.Keys[multiMembers[1]]}
}

// sigOpts maps the signing dimensions of the abstract record to signing options.
//
//	badSign = the signature is made over other content (right key, other message)
//	msOrder = order in which the members of the multi-signature key sign ([] = proper order)
func (w *world) sigOpts(tx hx.Step) chainsim.TxOpts {
	o := chainsim.TxOpts{Fee: int64(tx.Int("fee")), Entropy: int64(tx.Int("id"))}
	if !tx.Bool("hasSig") {
		o.NoSig = true
	} else if !tx.Bool("sigOK") && !tx.Bool("multisig") {
		if tx.Bool("badSign") {
			o.BadSignBytes = true
		} else {
			o.CorruptSig = true
		}
	}
	if !tx.Bool("chainOK") {
		o.ChainID = "other-chain"
	}
	if !tx.Bool("hasPK") {
		o.NoPubKey = true
	}
	if n := tx.Int("memoLen"); n > 0 {
		o.Memo = string(make([]byte, n))
	}
	if fc := tx.Str("feeCoins"); fc != "" {
		fee := o.Fee
		switch fc {
		case "zero":
			o.FeeCoins = sdk.Coins{sdk.Coin{Denom: sdk.DefaultStakeDenom, Amount: sdk.ZeroInt()}}
		case "dupdenom":
			o.FeeCoins = sdk.Coins{sdk.NewCoin(sdk.DefaultStakeDenom, sdk.NewInt(fee)), sdk.NewCoin(sdk.DefaultStakeDenom, sdk.NewInt(fee))}
		default:
			o.FeeCoins = sdk.Coins{sdk.NewCoin("zzz", sdk.NewInt(5)), sdk.NewCoin("aaa", sdk.NewInt(5))}
		}
	}
	if tx.Bool("multisig") {
		o.Multi = w.multiKeys()
		o.Signer = o.Multi[0]
		if ord, ok := tx["msOrder"]; ok {
			for _, x := range hx.Ints(jsonClone(ord)) {
				o.MultiSignOrder = append(o.MultiSignOrder, x)
			}
			if len(o.MultiSignOrder) == 0 {
				o.MultiSignOrder = nil
			}
		}
		return o
	}
	si := w.keyIdx(tx.Str("signer"))
	if si < 0 {
		hx.Fatal("transaction names unknown signer %q", tx.Str("signer"))
	}
	o.Signer = w.s.Keys[si]
	return o
}

func jsonClone(v interface{}) interface{} {
	b, _ := json.Marshal(v)
	var out interface{}
	_ = json.Unmarshal(b, &out)
	return out
}

func (w *world) nodePub(name string) posCrypto.PublicKey {
	i := w.keyIdx(name)
	if i < 0 {
		hx.Fatal("unknown key %q", name)
	}
	return w.s.Keys[i].PublicKey()
}

func evOfID(id int) evSpec { return evSpec{N: id / 10, Var: id % 10, Cheat: -1} }

// evidence sets built around one really signed relay (Cheat >= 0) are remembered by id
var cheatSpecs = map[int]evSpec{}

// buildMsg turns an abstract transaction into the real message.
func (w *world) buildMsg(a absTx) sdk.ProtoMsg {
	tx := hx.Step(a)
	switch tx.Str("kind") {
	case "send":
		return &nodesTypes.MsgSend{FromAddress: w.addrOf(tx.Str("from")), ToAddress: w.addrOf(tx.Str("to")), Amount: sdk.NewInt(int64(tx.Int("amount")))}
	case "node_stake":
		m := &nodesTypes.MsgStake{PublicKey: w.nodePub(tx.Str("node")), Chains: strs(a["chains"]), Value: sdk.NewInt(int64(tx.Int("amount"))),
			ServiceUrl: tx.Str("url"), Output: w.addrOf(tx.Str("output"))}
		if d := intMap(a["delegators"]); len(d) > 0 {
			m.RewardDelegators = map[string]uint32{}
			for n, sh := range d {
				m.RewardDelegators[w.addrOf(n).String()] = uint32(sh)
			}
		}
		return m
	case "node_unstake":
		return &nodesTypes.MsgBeginUnstake{Address: w.addrOf(tx.Str("node")), Signer: w.addrOf(tx.Str("msgSigner"))}
	case "node_unjail":
		return &nodesTypes.MsgUnjail{ValidatorAddr: w.addrOf(tx.Str("node")), Signer: w.addrOf(tx.Str("msgSigner"))}
	case "app_stake":
		chains := strs(a["chains"])
		if len(chains) == 0 {
			chains = nil // a decoded message has nil chains; the sign bytes are the message's JSON
		}
		return &appsTypes.MsgStake{PubKey: w.nodePub(tx.Str("app")), Chains: chains, Value: sdk.NewInt(int64(tx.Int("amount")))}
	case "app_unstake":
		return &appsTypes.MsgBeginUnstake{Address: w.addrOf(tx.Str("app"))}
	case "app_unjail":
		return &appsTypes.MsgUnjail{AppAddr: w.addrOf(tx.Str("app"))}
	case "claim":
		node, app := w.keyIdx(tx.Str("node")), w.keyIdx(tx.Str("app"))
		ev := w.evidence(node, app, tx.Str("chain"), int64(tx.Int("sessionH")), evOfID(tx.Int("root")))
		return ev.claimMsg(w.s, int64(tx.Int("total")))
	case "proof":
		node, app := w.keyIdx(tx.Str("node")), w.keyIdx(tx.Str("app"))
		ev := w.evidence(node, app, tx.Str("chain"), int64(tx.Int("sessionH")), evOfID(tx.Int("ev")))
		extra := 0
		if tx.Int("levels") > ceilLog2(ev.Key.N) {
			extra = -1
		}
		return ev.proofMsg(w.b, tx.Int("leafIdx"), tx.Int("tIndex"), tx.Str("leafKind") == "foreign", extra)
	case "change_param":
		raw, ok := a["raw"].(string)
		if !ok {
			hx.Fatal("change_param without raw value")
		}
		return &govTypes.MsgChangeParam{FromAddress: w.addrOf(tx.Str("from")), ParamKey: tx.Str("key"), ParamVal: []byte(raw)}
	case "dao_transfer":
		return &govTypes.MsgDAOTransfer{FromAddress: w.addrOf(tx.Str("from")), ToAddress: w.addrOf(tx.Str("to")), Amount: sdk.NewInt(int64(tx.Int("amount"))), Action: govTypes.DAOTransferString}
	case "dao_burn":
		return &govTypes.MsgDAOTransfer{FromAddress: w.addrOf(tx.Str("from")), Amount: sdk.NewInt(int64(tx.Int("amount"))), Action: govTypes.DAOBurnString}
	case "upgrade":
		var fs []string
		if arr, ok := jsonClone(a["upFeatures"]).([]interface{}); ok {
			for _, f := range arr {
				p := f.([]interface{})
				fs = append(fs, fmt.Sprintf("%v:%v", p[0], int64(p[1].(float64))))
			}
		}
		return &govTypes.MsgUpgrade{Address: w.addrOf(tx.Str("from")), Upgrade: govTypes.Upgrade{Height: int64(tx.Int("upHeight")), Version: tx.Str("upVersion"), Features: fs}}
	}
	hx.Fatal("unknown transaction kind %q", tx.Str("kind"))
	return nil
}

func ceilLog2(n int) int {
	l := 0
	for (1 << uint(l)) < n {
		l++
	}
	return l
}

func (w *world) buildTx(a absTx) []byte {
	return w.s.SignTx(w.buildMsg(a), w.sigOpts(hx.Step(a)))
}

func (w *world) mustBuild(a absTx) []byte { return w.buildTx(a) }

// ---- constructors ---------------------------------------------------------------------------------

func (w *world) sendTx(from, to string, amount int64) absTx {
	return w.sig(absTx{"kind": "send", "from": from, "to": to, "amount": amount, "basicOK": amount > 0}, from)
}

func (w *world) nodeStakeTx(node, output string, amount int64, chains []string, url string, dels map[string]int64, signer string) absTx {
	cs := append([]string{}, chains...)
	sort.Strings(cs)
	if dels == nil {
		dels = map[string]int64{}
	}
	a := absTx{"kind": "node_stake", "node": node, "output": output, "amount": amount, "chains": cs, "url": url, "delegators": dels}
	a["basicOK"] = w.buildMsg(a).ValidateBasic() == nil
	return w.sig(a, signer)
}

func (w *world) nodeUnstakeTx(node, msgSigner, signer string) absTx {
	return w.sig(absTx{"kind": "node_unstake", "node": node, "msgSigner": msgSigner}, signer)
}

func (w *world) nodeUnjailTx(node, msgSigner, signer string) absTx {
	return w.sig(absTx{"kind": "node_unjail", "node": node, "msgSigner": msgSigner}, signer)
}

// appStakeTx: MsgStake naming key `app`, signed by `signer` (a transfer when they differ, chains
// are empty and the amount is 0)
func (w *world) appStakeTx(app, signer string, chains []string, amount int64) absTx {
	cs := append([]string{}, chains...)
	return w.sig(absTx{"kind": "app_stake", "app": app, "chains": cs, "amount": amount}, signer)
}
func (w *world) appTransferTx(from, to string) absTx { return w.appStakeTx(to, from, nil, 0) }
func (w *world) appUnstakeTx(app, signer string) absTx {
	return w.sig(absTx{"kind": "app_unstake", "app": app, "chains": []string{}, "amount": int64(0)}, signer)
}
func (w *world) appUnjailTx(app, signer string) absTx {
	return w.sig(absTx{"kind": "app_unjail", "app": app, "chains": []string{}, "amount": int64(0)}, signer)
}

func (w *world) daoTransferTx(from, to string, amount int64) absTx {
	return w.sig(absTx{"kind": "dao_transfer", "from": from, "to": to, "amount": amount}, from)
}
func (w *world) daoBurnTx(from string, amount int64) absTx {
	return w.sig(absTx{"kind": "dao_burn", "from": from, "to": "", "amount": amount}, from)
}

// upgradeTx: features are [key, height] pairs in message order
func (w *world) upgradeTx(from string, height int64, version string, feats ...interface{}) absTx {
	fs := [][]interface{}{}
	for i := 0; i+1 < len(feats); i += 2 {
		h := feats[i+1]
		if n, ok := h.(int); ok {
			h = int64(n)
		}
		fs = append(fs, []interface{}{feats[i], h})
	}
	return w.sig(absTx{"kind": "upgrade", "from": from, "upHeight": height, "upVersion": version, "upFeatures": fs}, from)
}
func (w *world) featureTx(from string, feats ...interface{}) absTx {
	return w.upgradeTx(from, 1, "FEATURE", feats...)
}

// ---- parameter changes ------------------------------------------------------------------------------
// A change_param record carries: key, raw (the JSON value sent), val (its abstraction as it will be
// stored), valid (the bytes parse as the parameter's type), what the value MEANS for the typed
// configuration (`typed`: sections of the configuration record it replaces - decoded from the value
// that is sent, never read back from the chain) and, for the three governance keys, newAcl / newOwner
// / newUpg.

var emptyUpg = upgState{Features: [][]interface{}{}}

func (w *world) paramRaw(from int, key string, raw []byte, valid bool, typed map[string]interface{}) absTx {
	if typed == nil {
		typed = map[string]interface{}{}
	}
	stored := raw
	if valid {
		// the parameter store keeps the key-sorted re-encoding of the parsed value (Subspace.Set);
		// the values sent here are produced by the same codec, so that is the sorted value itself
		stored = sdk.MustSortJSON(raw)
	}
	a := absTx{"kind": "change_param", "from": w.name(from), "key": key, "raw": string(raw), "val": absVal(stored), "valid": valid,
		"typed": typed, "newAcl": map[string]string{}, "newOwner": "", "newUpg": emptyUpg}
	return w.sig(a, w.name(from))
}

func quoted(n int64) []byte { return []byte(`"` + strconv.FormatInt(n, 10) + `"`) }

// int64Params: parameter key -> (section, field, unit) of the typed configuration
var int64Params = map[string][3]string{
	"pos/MaxValidators":                 {"nodeParams", "MaxValidators", ""},
	"pos/StakeMinimum":                  {"nodeParams", "StakeMinimum", ""},
	"pos/BlocksPerSession":              {"nodeParams", "SessionBlockFrequency", ""},
	"pos/UnstakingTime":                 {"nodeParams", "UnstakingTime", "interval"},
	"pos/DowntimeJailDuration":          {"nodeParams", "DowntimeJailDuration", "interval"},
	"pos/MaxJailedBlocks":               {"nodeParams", "MaxJailedBlocks", ""},
	"pos/MaximumChains":                 {"nodeParams", "MaximumChains", ""},
	"pos/RelaysToTokensMultiplier":      {"nodeParams", "RelaysToTokensMultiplier", ""},
	"pos/DAOAllocation":                 {"nodeParams", "DAOAllocation", ""},
	"pos/ProposerPercentage":            {"nodeParams", "ProposerAllocation", ""},
	"pos/ServicerStakeFloorMultiplier":  {"nodeParams", "ServicerStakeFloorMultiplier", ""},
	"pos/ServicerStakeWeightCeiling":    {"nodeParams", "ServicerStakeWeightCeiling", ""},
	"application/MaxApplications":       {"appParams", "MaxApplications", ""},
	"application/ApplicationStakeMinimum": {"appParams", "AppStakeMin", ""},
	"application/MaximumChains":         {"appParams", "MaxChains", ""},
	"application/AppUnstakingTime":      {"appParams", "UnstakingTime", "interval"},
	"application/BaseRelaysPerPOKT":     {"appParams", "BaseRelaysPerPOKT", ""},
	"pocketcore/ClaimExpiration":        {"pcParams", "ClaimExpiration", ""},
	"pocketcore/ClaimSubmissionWindow":  {"pcParams", "ClaimSubmissionWindow", ""},
	"pocketcore/SessionNodeCount":       {"pcParams", "SessionNodeCount", ""},
	"pocketcore/MinimumNumberOfProofs":  {"pcParams", "MinimumNumberOfProofs", ""},
	"pocketcore/ReplayAttackBurnMultiplier": {"pcParams", "ReplayAttackBurnMultiplier", ""},
	"auth/MaxMemoCharacters":            {"top", "maxMemo", ""},
}

// paramInt: a well-typed change of an integer parameter (durations are given in block intervals)
func (w *world) paramInt(from int, key string, v int64) absTx {
	m, ok := int64Params[key]
	if !ok {
		hx.Fatal("paramInt: unknown key %s", key)
	}
	sent := v
	if m[2] == "interval" {
		sent = v * int64(chainsim.BlockInterval/time.Nanosecond)
	}
	typed := map[string]interface{}{}
	if m[0] == "top" {
		typed[m[1]] = v
	} else {
		typed[m[0]] = map[string]interface{}{m[1]: v}
	}
	return w.paramRaw(from, key, quoted(sent), true, typed)
}

// paramInvalid: bytes that parse as no parameter type (reported as success, changes nothing)
func (w *world) paramInvalid(from int, key string) absTx {
	return w.paramRaw(from, key, []byte(`{"bad"`), false, nil)
}

// paramFeeMult: auth/FeeMultipliers := {per message type multipliers, default}
func (w *world) paramFeeMult(from int, mult map[string]int64, def int64) absTx {
	fm := authTypes.FeeMultipliers{Default: def}
	kinds := make([]string, 0, len(mult))
	for k := range mult {
		kinds = append(kinds, k)
	}
	sort.Strings(kinds)
	typedMult := map[string]int64{}
	for _, k := range kinds {
		fm.FeeMultis = append(fm.FeeMultis, authTypes.FeeMultiplier{Key: k, Multiplier: mult[k]})
		if sk, ok := chainsim.KindOf[k]; ok {
			typedMult[sk] = mult[k]
		} else {
			typedMult[k] = mult[k]
		}
	}
	raw, err := chainsim.Codec().MarshalJSON(fm)
	if err != nil {
		hx.Fatal("fee multipliers: %v", err)
	}
	return w.paramRaw(from, "auth/FeeMultipliers", raw, true, map[string]interface{}{"feeMult": typedMult, "feeMultDefault": def})
}

// paramSupported: pocketcore/SupportedBlockchains
func (w *world) paramSupported(from int, chains []string) absTx {
	raw, _ := chainsim.Codec().MarshalJSON(chains)
	return w.paramRaw(from, "pocketcore/SupportedBlockchains", raw, true,
		map[string]interface{}{"supported": chains, "pcParams": map[string]interface{}{"NSupported": int64(len(chains))}})
}

// paramDaoOwner: gov/daoOwner := key index
func (w *world) paramDaoOwner(from int, newOwner int) absTx {
	raw, _ := chainsim.Codec().MarshalJSON(w.s.Addr(newOwner))
	a := w.paramRaw(from, "gov/daoOwner", raw, true, nil)
	a["newOwner"] = w.name(newOwner)
	return a
}

// paramAclOwner: gov/acl := the current ACL with the owner of `key` replaced
func (w *world) paramAclOwner(from int, key string, newOwner int) absTx {
	gk := w.s.App.VerifGovKeeper()
	acl := gk.GetACL(w.s.Ctx())
	na := govTypes.ACL(append([]govTypes.ACLPair{}, acl...))
	na.SetOwner(key, w.s.Addr(newOwner))
	raw, _ := chainsim.Codec().MarshalJSON(na)
	a := w.paramRaw(from, "gov/acl", raw, true, nil)
	m := map[string]string{}
	for _, p := range na {
		m[p.Key] = w.s.Name(p.Addr)
	}
	a["newAcl"] = m
	return a
}

// ---- claims and proofs ------------------------------------------------------------------------------

type evSpec struct {
	N     int
	Var   int
	Cheat int // -1, or the position of the single really signed relay
}

func (e evSpec) id() int { return e.N*10 + e.Var }

var e5 = evSpec{N: 5, Var: 1, Cheat: -1}
var e6 = evSpec{N: 6, Var: 2, Cheat: -1}
var e6dup = evSpec{N: 6, Var: 3, Cheat: -1}
var e8 = evSpec{N: 8, Var: 1, Cheat: -1}

func (w *world) evidence(node, app int, chain string, S int64, e evSpec) *evidence {
	if e.Cheat >= 0 {
		cheatSpecs[e.id()] = e
	} else if c, ok := cheatSpecs[e.id()]; ok && e.Var == 4 {
		e = c
	}
	return w.b.get(evKey{Node: node, App: app, Chain: chain, SessionH: S, N: e.N, Ev: e.id(), Dup: e.Var == 3 && e.Cheat < 0, Cheat: e.Cheat})
}

func (w *world) header(app int, chain string, S int64) pc.SessionHeader {
	return pc.SessionHeader{ApplicationPubKey: w.s.Keys[app].PublicKey().RawString(), Chain: chain, SessionBlockHeight: S}
}

// paramsAt reads (blocks per session, claim submission window) as of height S (the session context)
func (w *world) paramsAt(S int64) (int64, int64, bool) {
	ctx := w.s.Ctx()
	if S >= w.s.Height || S < 1 {
		return w.s.App.VerifNodesKeeper().BlocksPerSession(ctx), w.s.App.VerifPocketKeeper().ClaimSubmissionWindow(ctx), false
	}
	sc, err := ctx.PrevCtx(S)
	if err != nil {
		return 0, 0, false
	}
	return w.s.App.VerifNodesKeeper().BlocksPerSession(sc), w.s.App.VerifPocketKeeper().ClaimSubmissionWindow(sc), true
}

// sessionNodes computes the session with the real code (the specification needs it only when the
// session is a proper pseudorandom subset of the eligible nodes - property C33's subject).
func (w *world) sessionNodes(hdr pc.SessionHeader) []string {
	s := w.s
	B, _, ok := w.paramsAt(hdr.SessionBlockHeight)
	if !ok || hdr.SessionBlockHeight+B-1 >= s.Height {
		return nil
	}
	defer func() { _ = recover() }()
	ctx := s.Ctx()
	sessCtx, err := ctx.PrevCtx(hdr.SessionBlockHeight)
	if err != nil {
		return nil
	}
	endCtx, err := ctx.PrevCtx(hdr.SessionBlockHeight + B - 1)
	if err != nil {
		return nil
	}
	bh, err := sessCtx.BlockHash(s.App.VerifCodec(), sessCtx.BlockHeight())
	if err != nil {
		return nil
	}
	pk := s.App.VerifPocketKeeper()
	sess, e2 := pc.NewSession(sessCtx, endCtx, s.App.VerifNodesKeeper(), hdr, fmt.Sprintf("%x", bh), int(pk.SessionNodeCount(sessCtx)))
	if e2 != nil {
		return nil
	}
	out := []string{}
	for _, a := range sess.SessionNodes {
		out = append(out, s.Name(a))
	}
	return out
}

func (w *world) claimTx(node, app int, chain string, S, total int64, e evSpec, signer int) absTx {
	a := absTx{"kind": "claim", "node": w.name(node), "app": w.name(app), "chain": chain, "sessionH": S, "total": total,
		"evidence": 1, "root": e.id()}
	if sn := w.sessionNodes(w.header(app, chain, S)); sn != nil {
		a["sessNodes"] = sn
	}
	w.evidence(node, app, chain, S, e) // registers the root id before the claim is projected
	return w.sig(a, w.name(signer))
}

type proofOpts struct {
	Leaf     string // "req" (the leaf the entropy block selects), "next" (req+1), "prev" (the leaf block e-1 selects), "zero"
	TIndex   string // same vocabulary; "" = same as Leaf
	Foreign  bool
	AddLevel bool
	Signer   int // -1 = the node
}

// proofTx builds a proof for the claim (node, app, chain, S) from evidence e.
func (w *world) proofTx(node, app int, chain string, S int64, e evSpec, po proofOpts) absTx {
	s := w.s
	hdr := w.header(app, chain, S)
	total := int64(e.N)
	if cl, found := s.App.VerifPocketKeeper().GetClaim(s.Ctx(), s.Addr(node), hdr, pc.RelayEvidence); found {
		total = cl.TotalProofs
	}
	B, W, _ := w.paramsAt(S)
	eh := S + W*B - 1 // entropy block
	ia := indexAt(s, hdr, total, []int64{eh - 1, eh, eh + 1})
	pick := func(what string) int {
		switch what {
		case "req":
			return int(ia[fmt.Sprintf("%d", eh)])
		case "next":
			return int((ia[fmt.Sprintf("%d", eh)] + 1) % total)
		case "prev":
			return int(ia[fmt.Sprintf("%d", eh-1)])
		case "after":
			return int(ia[fmt.Sprintf("%d", eh+1)])
		}
		return 0
	}
	leaf := pick(po.Leaf) % e.N
	tIdx := leaf
	if po.TIndex != "" {
		tIdx = pick(po.TIndex)
	}
	signer := node
	if po.Signer >= 0 {
		signer = po.Signer
	}
	levels := ceilLog2(e.N)
	if po.AddLevel {
		levels++
	}
	dup := e.Var == 3 && e.Cheat < 0
	a := absTx{"kind": "proof", "node": w.name(node), "app": w.name(app), "chain": chain, "sessionH": S, "evidence": 1,
		"ev": e.id(), "leafIdx": leaf, "tIndex": tIdx, "levels": levels, "leafKind": "member", "dupEv": dup, "idxAt": ia,
		"basicOK": !(dup && leaf%2 == 1)}
	if po.Foreign {
		a["leafKind"] = "foreign"
	}
	return w.sig(a, w.name(signer))
}

// requiredFee reads the fee the chain currently requires for this message (an input choice)
func (w *world) requiredFee(a absTx) int64 {
	defer func() { _ = recover() }()
	return w.s.App.VerifAccountKeeper().GetParams(w.s.Ctx()).FeeMultiplier.GetFee(w.buildMsg(a)).Int64()
}
