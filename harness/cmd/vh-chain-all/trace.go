package main

import (
	"fmt"
	"math/rand"
	"sort"
	"strings"

	"verifharness/chainsim"
	"verifharness/internal/hx"
)

// Drivers read the projected state only to pick inputs (boundary amounts, who is jailed, which
// claims are pending); they keep no model of the expected results - those are computed by the
// specification when TLC validates the trace.

// block runs one whole block: BeginBlock, the transactions, EndBlock + Commit.
func (w *world) block(o blockOpts, txs ...absTx) []string {
	w.begin(o)
	var out []string
	for _, tx := range txs {
		r := w.deliver(w.buildTx(tx), tx)
		out = append(out, classOf(r))
		if w.rep != nil {
			w.rep.Steps++
			w.rep.OpCounts[tx["kind"].(string)+":"+classOf(r)]++
		}
	}
	w.end()
	return out
}

func (w *world) blocks(n int) {
	for i := 0; i < n; i++ {
		w.block(blockOpts{})
	}
}

// to runs empty blocks until height h has been committed
func (w *world) to(h int64) {
	for w.s.Height < h {
		w.block(blockOpts{})
	}
}

func (w *world) valNames() []string {
	var out []string
	for _, v := range w.s.ValSet {
		out = append(out, w.s.Name(chainsimAddr(v.PubKey)))
	}
	sort.Strings(out)
	return out
}

func (w *world) until(max int, o func() blockOpts, pred func(st chainsim.State) bool) bool {
	for i := 0; i < max; i++ {
		if pred(w.s.Project()) {
			return true
		}
		w.block(o())
	}
	return pred(w.s.Project())
}

func jailed(n string) func(chainsim.State) bool {
	return func(st chainsim.State) bool { v, ok := st.Val[n]; return ok && v.Jailed }
}

var urls = []string{"https://node.example:443", "https://e1.io:1", "https://e2.io:2"}

func startChain(tw *hx.TraceWriter, rep *hx.Report, c allCfg, label string) *world {
	w := newWorld(c)
	w.tw = tw
	w.rep = rep
	w.reset(label)
	rep.Behaviours++
	rep.OpCounts["chain:"+label]++
	return w
}

func req() proofOpts { return proofOpts{Leaf: "req", Signer: -1} }

// note counts a scenario outcome (which path of the real code was reached), for the evidence
func (w *world) note(what string, classes []string, i int) {
	if i < len(classes) {
		w.rep.OpCounts["path:"+what+":"+classes[i]]++
	}
}

// ---- scripted cross-module scenarios ---------------------------------------------------------------

// (a) a node begins unstaking with a pending claim; the claim is proven while it is unstaking (a3)
// and after its record is gone (a2); a node that stays (a1) is the control
func scUnstakePendingClaim(tw *hx.TraceWriter, rep *hx.Report, seed int64) {
	c := baseCfg(seed)
	c.B, c.UnstakingTime = 2, 1
	w := startChain(tw, rep, c, "a-unstake-pending-claim")
	w.to(6)              // session 5..6 has ended
	w.block(blockOpts{}, // height 7
		w.claimTx(kN1, kA1, "0001", 5, 5, e5, kN1), w.claimTx(kN2, kA1, "0001", 5, 6, e6, kN2),
		w.claimTx(kN2, kA2, "0002", 5, 5, e5, kN2), w.claimTx(kN3, kA2, "0002", 5, 5, e5, kN3),
		w.nodeUnstakeTx("a2", "a2", "a2"), w.nodeUnstakeTx("a3", "a3", "a3"))
	w.block(blockOpts{})      // height 8: session end, a2 and a3 begin unstaking (due at t+1)
	r := w.block(blockOpts{}, // height 9 = first proof height; both mature at this EndBlock
		w.proofTx(kN3, kA2, "0002", 5, e5, req()), w.proofTx(kN1, kA1, "0001", 5, e5, req()))
	w.note("a:proof-while-unstaking", r, 0)
	r = w.block(blockOpts{}, // height 10: the records of a2 and a3 are gone
		w.proofTx(kN2, kA1, "0001", 5, e6, req()), w.proofTx(kN2, kA2, "0002", 5, e5, req()),
		w.claimTx(kN2, kA1, "0001", 7, 5, e5, kN2)) // was in session 7..8 (left the index at the EndBlock of 8)
	w.note("a:proof-after-node-gone", r, 0)
	w.note("a:claim-after-node-gone", r, 2)
	w.block(blockOpts{}, w.nodeStakeTx("a2", "a2", 3000000, []string{"0001"}, urls[1], nil, "a2")) // stakes again
	w.block(blockOpts{}, w.proofTx(kN2, kA1, "0001", 7, e5, req()))
	w.blocks(3)
}

// (b) an application is transferred to a new key in the middle of a session; claims for the old
// and the new key, for that session and the next; the new key unstakes before the proofs
func scAppTransferMidSession(tw *hx.TraceWriter, rep *hx.Report, seed int64) {
	c := baseCfg(seed)
	c.AppUnstaking = 2
	w := startChain(tw, rep, c, "b-app-transfer-mid-session")
	w.block(blockOpts{})                               // 5: session 5..8 begins
	w.block(blockOpts{}, w.appTransferTx("a4", "a11")) // 6: a4 -> a11
	w.to(8)
	r := w.block(blockOpts{}, // 9
		w.claimTx(kN1, kA1, "0001", 5, 5, e5, kN1), // old key: the application of session 5
		w.claimTx(kN2, kA3, "0001", 5, 5, e5, kN2)) // new key: did not exist when session 5 began
	w.note("b:claim-old-key", r, 0)
	w.note("b:claim-new-key-old-session", r, 1)
	w.block(blockOpts{}, w.appStakeTx("a11", "a11", []string{"0001", "0002"}, 2500000)) // 10: edit of the transferred record
	w.to(12)
	r = w.block(blockOpts{}, // 13: session 9..12 ended; proof height of session 5
		w.claimTx(kN1, kA3, "0001", 9, 5, e5, kN1), w.claimTx(kN2, kA1, "0001", 9, 5, e5, kN2),
		w.proofTx(kN1, kA1, "0001", 5, e5, req()))
	w.note("b:claim-new-key", r, 0)
	w.note("b:claim-old-key-next-session", r, 1)
	w.note("b:proof-old-key", r, 2)
	w.block(blockOpts{}, w.appUnstakeTx("a11", "a11"), w.appTransferTx("a11", "a4")) // 14: unstaking applications cannot be transferred
	w.to(16)
	r = w.block(blockOpts{}, w.proofTx(kN1, kA3, "0001", 9, e5, req())) // 17: the application record is gone
	w.note("b:proof-after-app-gone", r, 0)
	w.blocks(2)
}

// (c) MaxValidators lowered while the top validator is jailed; unjail; raised again
func scMaxValidatorsJailed(tw *hx.TraceWriter, rep *hx.Report, seed int64) {
	c := baseCfg(seed)
	c.JailDuration, c.MaxJailed = 2, 12
	w := startChain(tw, rep, c, "c-maxvalidators-jailed")
	miss := func() blockOpts { return blockOpts{Proposer: "a3", Absent: []string{"a1"}} }
	if !w.until(12, miss, jailed("a1")) {
		hx.Fatal("scenario c: a1 was not jailed")
	}
	w.block(blockOpts{Proposer: "a3"}, w.paramInt(kOwner, "pos/MaxValidators", 1))
	w.block(blockOpts{Proposer: "a3"})
	w.block(blockOpts{Proposer: "a3", Dt: 3}, w.nodeUnjailTx("a1", "a1", "a1"))
	w.block(blockOpts{Proposer: "a3"})
	w.block(blockOpts{Proposer: "a1"}, w.paramInt(kOwner, "pos/MaxValidators", 2), w.paramInt(kU1, "pos/MaxValidators", 5))
	w.block(blockOpts{Proposer: "a1"}, w.paramInt(kOwner, "pos/MaxValidators", 0))
	w.block(blockOpts{Proposer: "a1"})
	w.block(blockOpts{Proposer: "a1"}, w.paramInt(kOwner, "pos/MaxValidators", 3))
	w.blocks(2)
}

// (d) StakeMinimum raised above existing stakes, then slashes (evidence, downtime), edits and
// unjail attempts under the new minimum
func scStakeMinimumSlash(tw *hx.TraceWriter, rep *hx.Report, seed int64) {
	c := baseCfg(seed)
	c.JailDuration = 1
	w := startChain(tw, rep, c, "d-stakeminimum-slash")
	w.block(blockOpts{}, w.paramInt(kOwner, "pos/StakeMinimum", 4500000))
	w.block(blockOpts{}, w.nodeStakeTx("a9", "a10", 4000000, []string{"0001"}, urls[1], nil, "a9"), // below the new minimum
		w.nodeStakeTx("a2", "a2", 3500000, []string{"0001", "0002"}, urls[0], nil, "a2")) // an edit is not checked against it
	w.block(blockOpts{Evidence: []evidenceSpec{{Node: "a3", Height: w.s.Height, Time: w.t, Power: 1}}}) // a3: 4.0 -> 3.5 < minimum: forced unstake
	w.block(blockOpts{}, w.nodeUnjailTx("a3", "a3", "a3"))                                              // too low to unjail
	miss := func() blockOpts { return blockOpts{Absent: []string{"a2"}} }
	w.until(12, miss, jailed("a2"))
	w.block(blockOpts{Dt: 2}, w.nodeUnjailTx("a2", "a2", "a2"), w.nodeStakeTx("a2", "a2", 5000000, []string{"0001", "0002"}, urls[0], nil, "a2"))
	w.block(blockOpts{}, w.paramInt(kOwner, "pos/StakeMinimum", 1000000), w.nodeUnjailTx("a2", "a2", "a2"))
	w.blocks(6)
}

// (e) DAO transfers to the node pool, the application pool and the fee collector, followed by
// block-reward distribution, an unstake payout from the enlarged pool and a DAO burn
func scDaoPools(tw *hx.TraceWriter, rep *hx.Report, seed int64) {
	c := baseCfg(seed)
	c.UnstakingTime = 1
	w := startChain(tw, rep, c, "e-dao-pools")
	r := w.block(blockOpts{Proposer: "a1"}, w.daoTransferTx("a8", "staked_tokens_pool", 70000), w.daoTransferTx("a8", "fee_collector", 110000),
		w.daoTransferTx("a8", "application_staked_tokens_pool", 30000), w.daoTransferTx("a6", "fee_collector", 5))
	w.note("e:dao-to-node-pool", r, 0)
	w.note("e:dao-to-fee-collector", r, 1)
	w.block(blockOpts{Proposer: "a2"}) // BeginBlock distributes the collector's balance: DAO cut + proposer a1
	w.block(blockOpts{Proposer: "a2"}, w.nodeUnstakeTx("a3", "a3", "a3"), w.appUnstakeTx("a5", "a5"), w.sendTx("a6", "fee_collector", 22000))
	w.block(blockOpts{Proposer: "a2"}, w.sendTx("a6", "dao", 1000), w.sendTx("a7", "staked_tokens_pool", 7))
	w.blocks(5)
	w.block(blockOpts{}, w.daoBurnTx("a8", 50000), w.daoTransferTx("a8", "a14", 1), w.daoTransferTx("a8", "dao", 10))
	w.blocks(2)
}

// (f) the fee multipliers are raised in the middle of a block; claim / proof multipliers change the
// compensation the proof pays back to the OPERATOR (a9: output address a1, delegator a6 - so the
// split between operator, output address and delegator depends on the multipliers in force)
func scFeeMultiplier(tw *hx.TraceWriter, rep *hx.Report, seed int64) {
	c := baseCfg(seed)
	c.B, c.NodeCount = 2, 3
	w := startChain(tw, rep, c, "f-fee-multiplier-mid-block")
	w.block(blockOpts{}, w.nodeStakeTx("a9", "a1", 4000000, []string{"0001"}, urls[1], map[string]int64{"a6": 20}, "a9")) // 5
	w.to(8)                                                                                                               // session 7..8 (a1, a2, a9 serve 0001) has ended
	send := func(fee int64) absTx { a := w.sendTx("a6", "a7", 100); a["fee"] = fee; return a }
	withFee := func(a absTx, fee int64) absTx { a["fee"] = fee; return a }
	r := w.block(blockOpts{}, // 9
		send(10000), w.paramFeeMult(kOwner, map[string]int64{"send": 2, "claim": 2, "proof": 3}, 1),
		send(10000), send(19999), send(20000),
		w.claimTx(kN4, kA1, "0001", 7, 5, e5, kN4)) // declared fee 10000 < 2 * 10000
	w.note("f:send-old-fee-after-raise", r, 2)
	w.block(blockOpts{}, withFee(w.claimTx(kN4, kA1, "0001", 7, 5, e5, kN4), 20000), withFee(w.claimTx(kN1, kA1, "0001", 7, 8, e8, kN1), 20000),
		w.paramFeeMult(kU1, map[string]int64{"send": 1}, 1)) // 10
	r = w.block(blockOpts{}, withFee(w.proofTx(kN4, kA1, "0001", 7, e5, req()), 30000), // 11: compensation = min(share, 20000 + 30000)
		w.paramFeeMult(kOwner, map[string]int64{}, 3), withFee(w.proofTx(kN1, kA1, "0001", 7, e8, req()), 30000), send(20000), send(30000))
	w.note("f:proof-under-raised-multipliers", r, 0)
	w.block(blockOpts{}, withFee(w.paramFeeMult(kOwner, map[string]int64{}, 1), 30000), send(10000))
	w.blocks(2)
}

// (g) features activated in the middle of the chain by real upgrade transactions: AppTransfer and
// RSCAL (whose activation block installs the main-net stake-weight bins and extends the ACL);
// proofs before, at the zero-reward bins, and after governance installs small bins; restarts
func scFeatureUpgrade(tw *hx.TraceWriter, rep *hx.Report, seed int64) {
	c := baseCfg(seed)
	c.B = 2
	c.Features = map[string]int64{"RSCAL": 0, "AppTransfer": 0}
	c.Floor = 0
	w := startChain(tw, rep, c, "g-feature-upgrade")
	w.to(6)
	w.block(blockOpts{}, // 7
		w.appTransferTx("a4", "a11"), // feature not scheduled
		w.featureTx("a6", "AppTransfer", 9), w.featureTx("a8", "AppTransfer", 9, "RSCAL", 12),
		w.claimTx(kN1, kA1, "0001", 5, 5, e5, kN1), w.claimTx(kN2, kA1, "0001", 5, 5, e5, kN2))
	w.block(blockOpts{}, w.appTransferTx("a4", "a11")) // 8: one block early
	w.restart()
	r := w.block(blockOpts{}, w.appTransferTx("a4", "a11"), w.proofTx(kN1, kA1, "0001", 5, e5, req()), // 9: active; flat reward
		w.claimTx(kN1, kA1, "0001", 7, 5, e5, kN1), w.claimTx(kN2, kA1, "0001", 7, 6, e6, kN2))
	w.note("g:transfer-at-activation", r, 0)
	w.block(blockOpts{}, w.paramInt(kOwner, "pos/ServicerStakeFloorMultiplier", 1000000))                      // 10: the key has no owner yet
	w.block(blockOpts{}, w.claimTx(kN1, kA3, "0001", 9, 5, e5, kN1))                                           // 11
	w.block(blockOpts{}, w.proofTx(kN2, kA1, "0001", 5, e5, req()), w.proofTx(kN1, kA1, "0001", 7, e5, req())) // 12: RSCAL: bins of 15e9 -> nothing to pay
	w.restart()
	w.block(blockOpts{}, w.paramInt(kOwner, "pos/ServicerStakeFloorMultiplier", 1000000), w.paramInt(kOwner, "pos/ServicerStakeWeightCeiling", 4000000),
		w.proofTx(kN2, kA1, "0001", 7, e6, req()), w.proofTx(kN1, kA3, "0001", 9, e5, req())) // 13: weighted by the bins
	w.block(blockOpts{}, w.featureTx("a8", "F1", int(w.s.Height)+3, "F1", int(w.s.Height)+3), w.upgradeTx("a8", 2, "0.2.0", "F2", int(w.s.Height)+2))
	w.blocks(3)
	w.restart()
	w.blocks(2)
}

// (h) an unstake matures in the EndBlock of a block that is a session boundary (another node is
// released, an application matures too) and carries the proof of the maturing node
func scMatureAtBoundary(tw *hx.TraceWriter, rep *hx.Report, seed int64) {
	c := baseCfg(seed)
	c.B, c.UnstakingTime, c.AppUnstaking = 2, 2, 2
	w := startChain(tw, rep, c, "h-mature-at-boundary-with-proof")
	w.to(6)
	w.block(blockOpts{}, w.claimTx(kN2, kA1, "0001", 5, 5, e5, kN2), w.claimTx(kN1, kA1, "0001", 5, 5, e5, kN1), w.nodeUnstakeTx("a2", "a2", "a2")) // 7
	w.block(blockOpts{}, w.appUnstakeTx("a5", "a5"))                                                                                                // 8: a2 unstaking, due at t+2; a5 due at t+2
	w.block(blockOpts{}, w.nodeUnstakeTx("a1", "a1", "a1"))                                                                                         // 9: a1 waits for the session end
	r := w.block(blockOpts{}, w.proofTx(kN2, kA1, "0001", 5, e5, req()), w.proofTx(kN1, kA1, "0001", 5, e5, req()))                                 // 10: boundary + maturity + proofs
	w.note("h:proof-in-maturity-block", r, 0)
	w.block(blockOpts{Dt: 5}, w.sendTx("a2", "a6", 1000))
	w.blocks(3)
}

// (i) a replay attack detected by a proof burns the servicer's stake through the NODES keeper; the
// stake falls below a minimum that governance raised in the meantime: the proof transaction
// force-unstakes the node (jailed, waiting, released at the session end).  The claim is authored
// at the last accepted height, when the selecting block exists, so that the driver can pick a
// claimed total whose required leaf is an ORIGINAL of the duplicated relays.
func scReplayBurnForceUnstake(tw *hx.TraceWriter, rep *hx.Report, seed int64) {
	c := baseCfg(seed)
	c.B = 2
	w := startChain(tw, rep, c, "i-replay-burn-force-unstake")
	w.block(blockOpts{}, w.paramInt(kOwner, "pos/StakeMinimum", 2900000), // a2 holds 3.0
		w.nodeStakeTx("a9", "a1", 3000000, []string{"0002"}, urls[1], map[string]int64{"a6": 10}, "a9")) // 5: output = a validator
	w.to(8)
	total := int64(6)
	hdr := w.header(kA1, "0001", 5)
	for _, t := range []int64{6, 7, 8} {
		if ix := indexFromHash(hashOfBlock(w.s, 8), hdr, t); ix%2 == 0 && ix < 6 {
			total = t
			break
		}
	}
	r := w.block(blockOpts{}, w.claimTx(kN2, kA1, "0001", 5, total, e6dup, kN2), w.proofTx(kN2, kA1, "0001", 5, e6dup, req()), // 9
		w.claimTx(kN4, kA2, "0002", 7, 5, e5, kN4), w.claimTx(kN3, kA2, "0002", 7, 5, e5, kN3))
	w.note("i:replay-proof", r, 1)
	w.block(blockOpts{}, w.nodeUnjailTx("a2", "a2", "a2"))                                                         // 10: too low to unjail; session end releases it
	r = w.block(blockOpts{}, w.proofTx(kN4, kA2, "0002", 7, e5, req()), w.proofTx(kN3, kA2, "0002", 7, e5, req())) // 11: reward of a9 goes to its output a1 and delegator a6
	w.note("i:proof-output-and-delegator", r, 0)
	w.blocks(4)
}

// (j) governance raises pos/BlocksPerSession after a session's claim window has closed: the window
// is judged with the CURRENT parameter and re-opens, while the block whose hash selects the leaf
// to prove (computed with the SESSION's parameters) is known for several blocks.  The servicer
// reads the required index from the committed chain, builds a tree with ONE really signed relay at
// that position, claims `total` relays and proves them in the same block.
func scWindowReopenedByGovernance(tw *hx.TraceWriter, rep *hx.Report, seed int64) {
	c := baseCfg(seed)
	c.B = 2
	w := startChain(tw, rep, c, "j-claim-window-reopened-by-governance")
	const S, total = 5, 9 // session 5..6; selecting block = 5 + 2*2 - 1 = 8; last claim height 9
	w.to(9)
	r := w.block(blockOpts{}, w.claimTx(kN1, kA1, "0001", S, 5, e5, kN1)) // 10: the window has closed
	w.note("j:claim-after-window", r, 0)
	w.block(blockOpts{}, w.paramInt(kOwner, "pos/BlocksPerSession", 4)) // 11
	pred := indexFromHash(hashOfBlock(w.s, S+2*2-1), w.header(kA1, "0001", S), total)
	cheat := evSpec{N: total, Var: 4, Cheat: int(pred)}
	pre := w.s.Project().Supply
	r = w.block(blockOpts{}, w.claimTx(kN1, kA1, "0001", S, total, cheat, kN1), w.proofTx(kN1, kA1, "0001", S, cheat, req())) // 12
	w.note("j:claim-in-reopened-window", r, 0)
	w.note("j:proof-with-one-signed-relay", r, 1)
	rep.Extra["window_reopened"] = map[string]interface{}{"sessionH": S, "selectingBlock": S + 3, "claimHeight": w.s.Height, "predictedIndex": pred,
		"total": total, "signedRelays": 1, "claim": r[0], "proof": r[1], "minted": w.s.Project().Supply - pre}
	w.blocks(3)
}

// (k) a node staked before the non-custodial upgrade (no output address in its record): a stake
// message for it that names the SENDER as output address and is signed by that sender passes the
// ante handler (the output address is a declared signer) and must be refused by the handler; the
// operator then sets an output address, after which only operator and output address may act
func scLegacyNodeTakeover(tw *hx.TraceWriter, rep *hx.Report, seed int64) {
	w := startChain(tw, rep, baseCfg(seed), "k-legacy-node-takeover")
	v := w.s.Project().Val["a1"]
	r := w.block(blockOpts{Proposer: "a2"},
		w.nodeStakeTx("a1", "a7", v.Tokens, v.Chains, v.URL, nil, "a7"),         // stranger names itself output and signs
		w.nodeStakeTx("a1", "a7", v.Tokens+1000000, v.Chains, v.URL, nil, "a7"), // ... with a bump it pays itself
		w.nodeUnstakeTx("a1", "a7", "a7"), w.nodeUnjailTx("a1", "a7", "a7"))
	w.note("k:takeover-by-declared-output", r, 0)
	w.note("k:takeover-with-bump", r, 1)
	w.block(blockOpts{Proposer: "a2"}, w.nodeStakeTx("a1", "a10", v.Tokens, v.Chains, v.URL, nil, "a1")) // the operator sets the output address
	v = w.s.Project().Val["a1"]
	r = w.block(blockOpts{Proposer: "a2"},
		w.nodeStakeTx("a1", "a7", v.Tokens, v.Chains, v.URL, nil, "a7"),     // stranger again
		w.nodeStakeTx("a1", "a10", v.Tokens, v.Chains, urls[2], nil, "a10"), // the output address edits
		w.nodeStakeTx("a1", "a7", v.Tokens, v.Chains, v.URL, nil, "a10"))    // the output address hands over to a7
	w.note("k:stranger-after-output-set", r, 0)
	w.block(blockOpts{Proposer: "a2"}, w.nodeUnstakeTx("a1", "a10", "a10"), w.nodeUnstakeTx("a1", "a7", "a7"))
	w.blocks(6)
}

// (l) the relay allowance of an application is fixed when it stakes; governance then changes the
// parameter the allowance is computed from; a transfer to a new key must carry the stake AND the
// allowance over unchanged, an edit-stake afterwards recomputes it
func scTransferAfterRelayParamChange(tw *hx.TraceWriter, rep *hx.Report, seed int64) {
	w := startChain(tw, rep, baseCfg(seed), "l-transfer-after-relay-param-change")
	w.block(blockOpts{}, w.paramInt(kOwner, "application/BaseRelaysPerPOKT", 50000))
	r := w.block(blockOpts{}, w.appTransferTx("a4", "a11"))
	w.note("l:transfer-after-param-change", r, 0)
	w.block(blockOpts{}, w.paramInt(kOwner, "application/BaseRelaysPerPOKT", 300000))
	r = w.block(blockOpts{}, w.appTransferTx("a11", "a12"), w.appTransferTx("a5", "a4"))
	w.note("l:second-transfer", r, 0)
	w.block(blockOpts{}, w.appStakeTx("a12", "a12", []string{"0001"}, 2500000))
	w.blocks(2)
}

// (m) a node whose OUTPUT ADDRESS is also one of its reward delegators (and whose operator is another one):
// the same account is entitled to two shares of every split - relay reward (proof) and block reward (it
// proposes) - and must receive both
func scOutputIsDelegator(tw *hx.TraceWriter, rep *hx.Report, seed int64) {
	c := baseCfg(seed)
	c.B, c.NodeCount = 2, 3
	w := startChain(tw, rep, c, "m-output-is-delegator")
	w.block(blockOpts{}, w.nodeStakeTx("a9", "a1", 4000000, []string{"0001"}, urls[1], map[string]int64{"a1": 30, "a9": 15, "a6": 20}, "a9")) // 5
	w.to(8)                                                                                                                                   // session 7..8 (a1, a2, a9 serve 0001) has ended
	send := func() absTx { return w.sendTx("a6", "a7", 100) }
	w.block(blockOpts{Proposer: "a9"}, send(), send(), w.claimTx(kN4, kA1, "0001", 7, 5, e5, kN4)) // 9: a9 proposes: fees of this block
	w.block(blockOpts{Proposer: "a9"}, send())                                                     // 10: ... are split at this BeginBlock
	r := w.block(blockOpts{Proposer: "a2"}, w.proofTx(kN4, kA1, "0001", 7, e5, req()), send())     // 11: relay reward split
	w.note("m:proof-output-is-delegator", r, 0)
	w.blocks(2)
}

type scenario struct {
	name string
	run  func(tw *hx.TraceWriter, rep *hx.Report, seed int64)
}

// empty blocks only (performance baseline of the trace specification)
func scEmpty(tw *hx.TraceWriter, rep *hx.Report, seed int64) {
	w := startChain(tw, rep, baseCfg(seed), "z-empty")
	w.blocks(100)
}

var scenarios = []scenario{
	{"a", scUnstakePendingClaim}, {"b", scAppTransferMidSession}, {"c", scMaxValidatorsJailed}, {"d", scStakeMinimumSlash},
	{"e", scDaoPools}, {"f", scFeeMultiplier}, {"g", scFeatureUpgrade}, {"h", scMatureAtBoundary}, {"i", scReplayBurnForceUnstake}, {"j", scWindowReopenedByGovernance},
	{"k", scLegacyNodeTakeover}, {"l", scTransferAfterRelayParamChange}, {"m", scOutputIsDelegator},
	{"zempty", scEmpty},
}

// ---- random mixed driver ----------------------------------------------------------------------------

type sentClaim struct {
	node, app int
	chain     string
	S         int64
	e         evSpec
}

type mix struct {
	w       *world
	r       *rand.Rand
	victim  string
	missing int
	claims  []sentClaim
	history []absTx
	funded  bool
}

func (g *mix) pick(xs ...string) string { return xs[g.r.Intn(len(xs))] }
func (g *mix) pickI(xs ...int) int      { return xs[g.r.Intn(len(xs))] }
func (g *mix) pick64(xs ...int64) int64 { return xs[g.r.Intn(len(xs))] }

var nodeNames = []string{"a1", "a2", "a3", "a9", "a13"}
var nodeKeys = []int{kN1, kN2, kN3, kN4}
var appNames = []string{"a4", "a5", "a11", "a13", "a14"}

func (g *mix) chains() []string {
	n := 1 + g.r.Intn(2)
	if g.r.Intn(12) == 0 {
		n = 3
	}
	perm := g.r.Perm(3)
	var cs []string
	for i := 0; i < n; i++ {
		cs = append(cs, ChainUniverse[perm[i]])
	}
	return cs
}

func (g *mix) delegators() map[string]int64 {
	switch g.r.Intn(4) {
	case 0:
		return map[string]int64{"a6": 10}
	case 1:
		return map[string]int64{"a6": 10, "a7": 25}
	}
	return map[string]int64{}
}

func (g *mix) send(st chainsim.State) absTx {
	from := g.pick("a6", "a7", "a1", "a4", "a10", "a11", "a13")
	to := g.pick("a6", "a7", "a11", "a13", "a14", "a9", "a10", "staked_tokens_pool", "application_staked_tokens_pool", "dao", "fee_collector", from)
	bal := st.Bal[from]
	amount := g.pick64(1, 1+g.r.Int63n(60000), 1+g.r.Int63n(60000), 1+g.r.Int63n(600000), 0)
	if from == "a7" || from == "a10" {
		amount = g.pick64(1, bal-10001, bal-10000, bal-9999, bal+1, 1+g.r.Int63n(60000), 1+g.r.Int63n(60000), 0)
	}
	if amount < 0 {
		amount = 1 + g.r.Int63n(1000)
	}
	return g.w.sendTx(from, to, amount)
}

func (g *mix) nodeStake(st chainsim.State) absTx {
	w := g.w
	node := g.pick(nodeNames...)
	v, found := st.Val[node]
	out := g.pick("a10", node, "a10", "a7")
	if !found {
		amount := g.pick64(2000000, 3000000, 4000000, 6000000, 1999999, 1000000, 2500000)
		signer := g.pick(node, out, node, "a6")
		if g.r.Intn(15) == 0 {
			out = ""
		}
		return w.nodeStakeTx(node, out, amount, g.chains(), g.pick(urls...), g.delegators(), signer)
	}
	amount := v.Tokens
	switch g.r.Intn(6) {
	case 0:
		amount = v.Tokens - 1 - g.r.Int63n(1000000)
	case 1:
		amount = v.Tokens + 1000000
	case 2:
		amount = v.Tokens + 1 + g.r.Int63n(999999)
	case 3:
		amount = v.Tokens + 3000000
	}
	if amount <= 0 {
		amount = 1
	}
	chains, url, output, dels := v.Chains, v.URL, v.Output, v.Delegators
	if g.r.Intn(3) == 0 {
		chains = g.chains()
	}
	if g.r.Intn(4) == 0 {
		url = g.pick(urls...)
	}
	if output == "" || g.r.Intn(4) == 0 {
		output = out
	}
	if g.r.Intn(4) == 0 {
		dels = g.delegators()
	}
	cur := v.Output
	if cur == "" {
		cur = node
	}
	return w.nodeStakeTx(node, output, amount, chains, url, dels, g.pick(node, cur, output, node, cur, "a6"))
}

func (g *mix) nodeUnstakeOrUnjail(st chainsim.State, kind string) absTx {
	w := g.w
	node := g.pick(nodeNames...)
	if kind == "node_unjail" && g.r.Intn(4) > 0 {
		found := false
		for _, n := range nodeNames {
			if v, ok := st.Val[n]; ok && v.Jailed {
				node, found = n, true
			}
		}
		if !found && g.r.Intn(4) > 0 {
			return nil
		}
	}
	out := node
	if v, ok := st.Val[node]; ok && v.Output != "" {
		out = v.Output
	}
	msgSigner := g.pick(node, out, node, out, "a6")
	signer := msgSigner
	if g.r.Intn(5) == 0 {
		signer = g.pick(node, "a6")
	}
	if kind == "node_unjail" {
		return w.nodeUnjailTx(node, msgSigner, signer)
	}
	return w.nodeUnstakeTx(node, msgSigner, signer)
}

func (g *mix) stakedApps(st chainsim.State) []string {
	var out []string
	for _, a := range appNames {
		if r, ok := st.App[a]; ok && r.Status == 2 {
			out = append(out, a)
		}
	}
	return out
}

func (g *mix) appTx(st chainsim.State) absTx {
	w := g.w
	staked := g.stakedApps(st)
	pickStaked := func() string {
		if len(staked) > 0 && g.r.Intn(10) < 7 {
			return staked[g.r.Intn(len(staked))]
		}
		return g.pick(appNames...)
	}
	switch x := g.r.Intn(100); {
	case x < 45: // stake / edit
		app := g.pick(appNames...)
		avail := st.Bal[app] - 10000
		var amt int64
		if r, ok := st.App[app]; ok && r.Status == 2 {
			amt = g.pick64(r.Tokens-1, r.Tokens, r.Tokens+1, r.Tokens+1+g.r.Int63n(1500000), r.Tokens+avail, r.Tokens+avail+1, r.Tokens+1000000)
		} else {
			amt = g.pick64(999999, 1000000, 1000000+g.r.Int63n(2000000), 2000000, avail, avail+1, 0)
		}
		if amt < 0 {
			amt = 1
		}
		signer := app
		if g.r.Intn(12) == 0 {
			signer = g.pick(appNames...)
		}
		cs := g.chains()
		sort.Strings(cs)
		if g.r.Intn(25) == 0 {
			cs = append(cs, "zz")
		}
		return w.appStakeTx(app, signer, cs, amt)
	case x < 70: // transfer
		from, to := pickStaked(), g.pick(appNames...)
		if from == to {
			to = g.pick("a13", "a14", "a11")
		}
		return w.appTransferTx(from, to)
	case x < 95:
		app := pickStaked()
		signer := app
		if g.r.Intn(8) == 0 {
			signer = g.pick(appNames...)
		}
		return w.appUnstakeTx(app, signer)
	default:
		app := g.pick(appNames...)
		return w.appUnjailTx(app, app)
	}
}

var appKeyOf = map[string]int{"a4": kA1, "a5": kA2, "a11": kA3, "a13": kSpare, "a14": kFresh, "a6": kU1}

// claim: mostly a claim that has a chance (an ended session inside the claim window, a staked
// application, one of the session's nodes - read from the real chain to CHOOSE inputs), sometimes
// an arbitrary one
func (g *mix) claim(st chainsim.State, h int64) absTx {
	w := g.w
	B := st.NodeParams["SessionBlockFrequency"]
	cur := ((h-1)/B)*B + 1
	e := []evSpec{e5, e6, e6dup, e8, e5, e6, e8, e5}[g.r.Intn(8)]
	total := int64(e.N)
	if g.r.Intn(10) < 7 {
		var cands []int64
		for k := int64(1); k <= 4; k++ {
			S := cur - k*B
			if S < w.firstH {
				break
			}
			if Bs, _, ok := w.paramsAt(S); ok && (S-1)%Bs == 0 && S+Bs-1 < h {
				cands = append(cands, S)
			}
		}
		staked := g.stakedApps(st)
		if len(cands) > 0 && len(staked) > 0 {
			S := cands[g.r.Intn(len(cands))]
			if g.r.Intn(3) > 0 {
				S = cands[0]
			}
			appName := staked[g.r.Intn(len(staked))]
			app := appKeyOf[appName]
			chains := st.App[appName].Chains
			chain := chains[g.r.Intn(len(chains))]
			node := g.pickI(kN1, kN2, kN3, kN4)
			if sn := w.sessionNodes(w.header(app, chain, S)); len(sn) > 0 && g.r.Intn(8) > 0 {
				if ni := w.keyIdx(sn[g.r.Intn(len(sn))]); ni >= 0 {
					node = ni
				}
			}
			tx := w.claimTx(node, app, chain, S, total, e, node)
			tx["_claim"] = sentClaim{node, app, chain, S, e}
			return tx
		}
	}
	Wd := st.PcParams["ClaimSubmissionWindow"]
	node := g.pickI(kN1, kN2, kN3, kN4, kN1, kN2)
	appName := g.pick("a4", "a5", "a11", "a4", "a5", "a6", "a13")
	app := appKeyOf[appName]
	chain := "0001"
	if r, ok := st.App[appName]; ok && len(r.Chains) > 0 {
		chain = r.Chains[g.r.Intn(len(r.Chains))]
	}
	if g.r.Intn(8) == 0 {
		chain = g.pick("0001", "0002", "0003")
	}
	S := cur - B*int64(1+g.r.Intn(int(Wd)+1))
	switch g.r.Intn(10) {
	case 0:
		S++ // not a session start
	case 1:
		S = cur // not over yet
	}
	if S < w.firstH {
		S = w.firstH
	}
	switch g.r.Intn(10) {
	case 0:
		total = 1000
	case 1:
		total = 1001
	case 2:
		total = int64(e.N) + 1
	}
	signer := node
	if g.r.Intn(10) == 0 {
		signer = g.pickI(kN1, kN2, kN3)
	}
	tx := w.claimTx(node, app, chain, S, total, e, signer)
	tx["_claim"] = sentClaim{node, app, chain, S, e}
	return tx
}

// pending reads the claims the chain currently holds (to choose which one to prove)
func (g *mix) pending() []sentClaim {
	var out []sentClaim
	for _, c := range g.w.claims() {
		if c.Root < 0 {
			continue
		}
		ni, ai := g.w.keyIdx(c.Node), g.w.keyIdx(c.App)
		if ni < 0 || ai < 0 {
			continue
		}
		out = append(out, sentClaim{ni, ai, c.Chain, c.SessionH, evOfID(c.Root)})
	}
	return out
}

func (g *mix) proof(st chainsim.State, h int64) absTx {
	w := g.w
	open := func(c sentClaim) bool {
		B, Wd, ok := w.paramsAt(c.S)
		return ok && h >= c.S+Wd*B
	}
	var cl sentClaim
	pend := g.pending()
	var ready []sentClaim
	for _, c := range pend {
		if open(c) {
			ready = append(ready, c)
		}
	}
	switch {
	case len(ready) > 0 && g.r.Intn(10) < 8:
		cl = ready[g.r.Intn(len(ready))]
	case len(pend) > 0 && g.r.Intn(3) > 0:
		cl = pend[g.r.Intn(len(pend))] // too early
	case len(g.claims) > 0 && g.r.Intn(4) == 0:
		cl = g.claims[g.r.Intn(len(g.claims))] // possibly paid or expired already
	default:
		return nil
	}
	if _, _, ok := w.paramsAt(cl.S); !ok {
		return nil
	}
	po := req()
	switch g.r.Intn(24) {
	case 0:
		po.Leaf = "next"
	case 1:
		po.Leaf = "prev"
	case 2:
		po.Leaf = "after"
	case 3:
		po.Foreign = true
	case 4:
		po.Leaf, po.TIndex = "next", "req"
	case 5:
		po.AddLevel = true
	case 6:
		po.Signer = g.pickI(kN1, kN2, kN3)
	case 7:
		cl.e = []evSpec{e5, e6, e6dup, e8}[g.r.Intn(4)] // branch of another tree
	}
	return w.proofTx(cl.node, cl.app, cl.chain, cl.S, cl.e, po)
}

type paramChoice struct {
	key  string
	vals []int64
}

var intChoices = []paramChoice{
	{"pos/MaxValidators", []int64{1, 2, 3, 4}}, {"pos/StakeMinimum", []int64{1000000, 2000000, 3000000, 4500000}},
	{"pos/BlocksPerSession", []int64{2, 3, 4}}, {"pos/UnstakingTime", []int64{1, 2, 4}}, {"pos/MaxJailedBlocks", []int64{2, 3, 5}},
	{"pos/MaximumChains", []int64{1, 2, 3}}, {"pos/RelaysToTokensMultiplier", []int64{5000, 10000}}, {"pos/DAOAllocation", []int64{10, 20}},
	{"pos/ProposerPercentage", []int64{1, 5}}, {"pos/ServicerStakeFloorMultiplier", []int64{1000000, 3000000}},
	{"pos/ServicerStakeWeightCeiling", []int64{4000000, 6000000}}, {"pos/DowntimeJailDuration", []int64{1, 3}},
	{"application/MaxApplications", []int64{1, 2, 3, 4}}, {"application/ApplicationStakeMinimum", []int64{1000000, 2000000}},
	{"application/MaximumChains", []int64{1, 2}}, {"application/AppUnstakingTime", []int64{1, 3}},
	{"application/BaseRelaysPerPOKT", []int64{100000, 50000}}, {"pocketcore/ClaimExpiration", []int64{2, 3, 4}},
	{"pocketcore/ClaimSubmissionWindow", []int64{2, 3}}, {"pocketcore/SessionNodeCount", []int64{1, 2, 3}},
	{"pocketcore/MinimumNumberOfProofs", []int64{5, 6}}, {"pocketcore/ReplayAttackBurnMultiplier", []int64{1, 3}},
	{"auth/MaxMemoCharacters", []int64{75, 256}},
}

func (g *mix) govTx(st chainsim.State) absTx {
	w := g.w
	owner := w.keyIdx(st.DAOOwner)
	from := owner
	if g.r.Intn(5) == 0 {
		from = g.pickI(kU1, kU2, kN1, kOwner)
	}
	switch x := g.r.Intn(100); {
	case x < 55:
		pcx := intChoices[g.r.Intn(len(intChoices))]
		who := w.keyIdx(st.ACL[pcx.key])
		if who < 0 || g.r.Intn(6) == 0 {
			who = from
		}
		if g.r.Intn(9) == 0 {
			return w.paramInvalid(who, pcx.key)
		}
		return w.paramInt(who, pcx.key, pcx.vals[g.r.Intn(len(pcx.vals))])
	case x < 63:
		return w.paramFeeMult(w.keyIdx(st.ACL["auth/FeeMultipliers"]), []map[string]int64{{"send": 2}, {"claim": 2, "proof": 1}, {}, {"stake_validator": 2}}[g.r.Intn(4)], 1)
	case x < 68:
		return w.paramSupported(w.keyIdx(st.ACL["pocketcore/SupportedBlockchains"]), [][]string{{"0001", "0002"}, {"0001"}, {"0001", "0002", "0003"}}[g.r.Intn(3)])
	case x < 72:
		return w.paramDaoOwner(w.keyIdx(st.ACL["gov/daoOwner"]), g.pickI(kOwner, kU2))
	case x < 75:
		return w.paramAclOwner(w.keyIdx(st.ACL["gov/acl"]), "pos/MaxJailedBlocks", g.pickI(kOwner, kU2))
	case x < 90:
		bal := st.Bal["dao"]
		amt := g.pick64(0, 1, bal, bal+1, 1+g.r.Int63n(90000), 1+g.r.Int63n(90000))
		if g.r.Intn(3) == 0 {
			return w.daoBurnTx(w.name(from), amt)
		}
		return w.daoTransferTx(w.name(from), g.pick("a14", "a6", "staked_tokens_pool", "fee_collector", "application_staked_tokens_pool", "a11"), amt)
	default:
		h := int(w.s.Height)
		fk := g.pick("F1", "F2")
		who := w.keyIdx(st.ACL["gov/upgrade"])
		if g.r.Intn(5) == 0 {
			who = from
		}
		return w.featureTx(w.name(who), fk, h+1+g.r.Intn(6))
	}
}

// vary: authentication / fee variations of an otherwise well-formed transaction
func (g *mix) vary(tx absTx) absTx {
	if tx["multisig"] == true {
		return tx
	}
	switch g.r.Intn(14) {
	case 0:
		tx["signer"] = g.pick("a6", "a7", "a1", "a4", "a8")
	case 1:
		tx["sigOK"] = false
	case 2:
		tx["chainOK"] = false
	case 3:
		tx["hasSig"], tx["sigOK"] = false, false
	case 4:
		tx["sigOK"], tx["badSign"] = false, true
	case 5:
		tx["fee"] = g.pick64(tx["fee"].(int64)-1, 0, tx["fee"].(int64)+1, 50000, 10000)
	case 6:
		tx["memoLen"] = 76 + g.r.Intn(200)
	case 7:
		tx["feeCoins"] = g.pick("zero", "dupdenom", "unsorted")
		tx["feeValid"] = false
	case 8:
		tx["hasPK"] = false
	case 9:
		tx["signer"] = "a14" // a key without an account
	}
	return tx
}

func (g *mix) multi() absTx {
	w := g.w
	fee := g.pick64(1, 5000, 10000, 10000)
	a := w.sendTx("m1", g.pick("a6", "a7", "a11"), 1+g.r.Int63n(1000))
	a["signer"], a["multisig"], a["fee"] = "m1", true, fee
	switch g.r.Intn(5) {
	case 0:
		a["msOrder"], a["sigOK"] = []int{1, 0}, false
	case 1:
		a["msOrder"], a["sigOK"] = []int{0}, false
	case 2:
		a["msOrder"], a["sigOK"] = []int{0, 0}, false
	}
	return a
}

// upkeep keeps the economy alive (chooses inputs only): stakes a node / an application when few
// are staked, refills accounts that ran dry from the rich account a8
func (g *mix) upkeep(st chainsim.State) absTx {
	w := g.w
	nStaked := 0
	for _, v := range st.Val {
		if v.Status == 2 && !v.Jailed {
			nStaked++
		}
	}
	if nStaked < 3 && g.r.Intn(2) == 0 {
		for _, n := range []string{"a1", "a2", "a3", "a9"} {
			if _, ok := st.Val[n]; !ok && st.Bal[n] > 7000000 {
				out := g.pick(n, "a10")
				min := st.NodeParams["StakeMinimum"]
				return w.nodeStakeTx(n, out, min+g.pick64(0, 1000000, 2000000), [][]string{{"0001"}, {"0001", "0002"}, {"0002"}}[g.r.Intn(3)], urls[0], g.delegators(), n)
			}
		}
	}
	if len(g.stakedApps(st)) < 2 && g.r.Intn(2) == 0 {
		for _, a := range []string{"a4", "a5", "a11"} {
			if _, ok := st.App[a]; !ok && st.Bal[a] > 4000000 {
				return w.appStakeTx(a, a, [][]string{{"0001"}, {"0002"}, {"0001", "0002"}}[g.r.Intn(3)], st.AppParams["AppStakeMin"]+g.pick64(0, 1000000, 1500000))
			}
		}
	}
	if g.r.Intn(3) == 0 && st.Bal["a8"] > 40000000 {
		for _, n := range []string{"a1", "a2", "a3", "a4", "a5", "a6", "a7", "a9", "a10", "a11", "a13"} {
			if st.Bal[n] < 3000000 {
				return w.sendTx("a8", n, 8000000)
			}
		}
	}
	return nil
}

func (g *mix) tx(st chainsim.State, h int64) absTx {
	var tx absTx
	if up := g.upkeep(st); up != nil {
		up["fee"] = g.w.requiredFee(up)
		return up
	}
	switch x := g.r.Intn(100); {
	case x < 13:
		tx = g.send(st)
	case x < 26:
		tx = g.nodeStake(st)
	case x < 29:
		tx = g.nodeUnstakeOrUnjail(st, "node_unstake")
	case x < 37:
		tx = g.nodeUnstakeOrUnjail(st, "node_unjail")
	case x < 52:
		tx = g.appTx(st)
	case x < 65:
		tx = g.claim(st, h)
	case x < 80:
		tx = g.proof(st, h)
	case x < 96:
		tx = g.govTx(st)
	case x < 98 && g.funded:
		tx = g.multi()
	default:
		tx = g.send(st)
	}
	if tx == nil {
		tx = g.send(st)
	}
	// declare the fee the current multipliers require (the variations below also try lower ones)
	if tx["multisig"] != true {
		tx["fee"] = g.w.requiredFee(tx)
	}
	if g.r.Intn(9) == 0 {
		tx = g.vary(tx)
	}
	return tx
}

func (g *mix) blockOpts() blockOpts {
	w := g.w
	o := blockOpts{Dt: 1}
	if g.r.Intn(8) == 0 {
		o.Dt = int64(2 + g.r.Intn(5))
	}
	vals := w.valNames()
	if len(vals) > 0 {
		o.Proposer = vals[g.r.Intn(len(vals))]
	} else {
		o.Proposer = "a1"
	}
	if g.missing == 0 && len(vals) > 0 && g.r.Intn(9) == 0 {
		g.victim = vals[g.r.Intn(len(vals))]
		g.missing = 2 + g.r.Intn(5)
	}
	if g.missing > 0 {
		o.Absent = append(o.Absent, g.victim)
		g.missing--
	}
	if len(vals) > 1 && g.r.Intn(14) == 0 {
		o.Absent = append(o.Absent, vals[g.r.Intn(len(vals))])
	}
	if g.r.Intn(12) == 0 {
		e := evidenceSpec{Node: g.pick(nodeNames...), Height: w.s.Height + 1 - int64(g.r.Intn(5)), Time: w.t + o.Dt - int64(g.r.Intn(40)), Power: int64(1 + g.r.Intn(4))}
		if e.Time < 1 {
			e.Time = 1
		}
		o.Evidence = append(o.Evidence, e)
	}
	return o
}

func randomChain(tw *hx.TraceWriter, rep *hx.Report, idx, blocks int) {
	r := hx.Rng(int64(idx) + 9001)
	c := baseCfg(hx.Seed()*1000 + int64(idx))
	switch idx % 3 {
	case 1: // features activate during the run; one seat per session (the session is pseudorandom: bound from the log)
		c.B, c.NodeCount = 2, 1
		c.Features = map[string]int64{"AppTransfer": 12, "RSCAL": 0, "OEDIT": 9, "RewardDelegators": 15}
		c.Floor = 0
	case 2:
		c.B, c.Exp, c.UnstakingTime, c.AppUnstaking, c.MaxValidators = 3, 2, 1, 1, 2
		c.Floor, c.Ceiling = 1000000, 4000000
	}
	w := startChain(tw, rep, c, fmt.Sprintf("random-%d", idx%3))
	w.Lag = idx % 3
	g := &mix{w: w, r: r}
	for b := 0; b < blocks; b++ {
		if r.Intn(45) == 0 {
			w.restart()
			rep.OpCounts["restart"]++
		}
		w.begin(g.blockOpts())
		h := w.s.Height
		ntx := []int{0, 0, 1, 1, 1, 2, 2, 3, 4}[r.Intn(9)]
		var inBlock []absTx
		for i := 0; i < ntx; i++ {
			st := w.s.Project()
			var tx absTx
			var bz []byte
			switch {
			case len(inBlock) > 0 && r.Intn(14) == 0:
				tx = inBlock[r.Intn(len(inBlock))] // the same bytes again in this block
			case len(g.history) > 0 && r.Intn(14) == 0:
				tx = g.history[r.Intn(len(g.history))] // the same bytes from an earlier block
			case !g.funded && b >= 3:
				tx = w.sendTx("a1", "m1", 2000000)
				g.funded = true
			default:
				tx = g.tx(st, h)
			}
			if cached, ok := tx["_bytes"].([]byte); ok {
				bz = cached
			} else {
				bz = w.buildTx(tx)
				tx["_bytes"] = bz
			}
			log := absTx{}
			for k, v := range tx {
				if !strings.HasPrefix(k, "_") {
					log[k] = v
				}
			}
			res := w.deliver(bz, log)
			rep.Steps++
			k := tx["kind"].(string)
			rep.OpCounts[k+":"+classOf(res)]++
			if cl, ok := tx["_claim"].(sentClaim); ok && res.Code == 0 {
				g.claims = append(g.claims, cl)
				if len(g.claims) > 40 {
					g.claims = g.claims[1:]
				}
			}
			inBlock = append(inBlock, tx)
		}
		g.history = append(g.history, inBlock...)
		if len(g.history) > 30 {
			g.history = g.history[len(g.history)-30:]
		}
		ups := w.end()
		rep.Steps += 2
		if len(ups) > 0 {
			rep.OpCounts["endblock:updates"]++
		}
	}
}

// traceAll records the scripted cross-module scenarios and n random mixed chains.  With split > 1
// the chains are written round-robin into out.0 .. out.<split-1> (validated by parallel TLC runs).
func traceAll(out string, n, blocks int, scen string, split int) {
	if split < 1 {
		split = 1
	}
	var tws []*hx.TraceWriter
	for i := 0; i < split; i++ {
		p := out
		if split > 1 {
			p = fmt.Sprintf("%s.%d", out, i)
		}
		tw, err := hx.NewTraceWriter(p)
		if err != nil {
			hx.Fatal("%v", err)
		}
		tws = append(tws, tw)
	}
	rep := hx.NewReport("chain-all", "trace-all")
	k := 0
	// the next chain goes to the file with the fewest events so far (balanced parallel validation)
	next := func() *hx.TraceWriter {
		k++
		best := tws[0]
		for _, tw := range tws {
			if tw.N < best.N {
				best = tw
			}
		}
		return best
	}
	// long random chains first, so that they land in different files
	for i := 0; i < n; i++ {
		randomChain(next(), rep, i+int(hx.Seed()%3), blocks) // the seed also rotates the three configurations
	}
	for _, sc := range scenarios {
		if (scen == "all" && !strings.HasPrefix(sc.name, "z")) || strings.Contains(","+scen+",", ","+sc.name+",") {
			sc.run(next(), rep, hx.Seed()*100+int64(len(sc.name)))
		}
	}
	events := 0
	for _, tw := range tws {
		if err := tw.Close(); err != nil {
			hx.Fatal("%v", err)
		}
		events += tw.N
	}
	rep.Extra["events"] = events
	rep.Extra["files"] = split
	rep.Print()
}
