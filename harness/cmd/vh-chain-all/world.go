package main

import (
	"bytes"
	"crypto/sha256"
	"encoding/binary"
	"encoding/hex"
	"encoding/json"
	"fmt"
	"math"
	"os"
	"sort"
	"strconv"
	"strings"
	"time"

	"github.com/pokt-network/pocket-core/codec"
	sdk "github.com/pokt-network/pocket-core/types"
	appsTypes "github.com/pokt-network/pocket-core/x/apps/types"
	govTypes "github.com/pokt-network/pocket-core/x/gov/types"
	nodesTypes "github.com/pokt-network/pocket-core/x/nodes/types"
	pc "github.com/pokt-network/pocket-core/x/pocketcore/types"
	abci "github.com/tendermint/tendermint/abci/types"
	tmtypes "github.com/tendermint/tendermint/types"

	"verifharness/chainsim"
	"verifharness/internal/hx"
)

// Key roles of the whole-chain economy (names a1.. = index + 1):
//
//	a1 a2 a3  nodes staked at genesis (a1: 0001; a2: 0001,0002; a3: 0002)
//	a4 a5     applications staked at genesis (a4: 0001; a5: 0002)
//	a6 a7     funded accounts, neither node nor application (a6 also reward delegator)
//	a8        DAO owner and owner of every parameter
//	a9        node staked by transaction (output address a10)
//	a10       output address
//	a11       funded key: new application / transfer target
//	a12       gateway client: signs the relays of every evidence set (evidence.go)
//	a13       funded spare (second transfer target, second node key)
//	a14       never funded
const (
	kN1, kN2, kN3 = 0, 1, 2
	kA1, kA2      = 3, 4
	kU1, kU2      = 5, 6
	kOwner        = 7
	kN4           = 8
	kOut          = 9
	kA3           = 10
	kClient       = 11
	kSpare        = 12
	kFresh        = 13
	nKeys         = 14
)

// ChainUniverse lists every chain id the drivers use (ascending byte order).
var ChainUniverse = []string{"0001", "0002", "0003", "0021"}

// allCfg describes one world.
type allCfg struct {
	Seed          int64
	B, W, Exp     int64 // blocks per session, claim submission window, claim expiration (sessions)
	NodeCount     int64 // session node count
	StakeMin      int64
	MaxValidators int64
	UnstakingTime int64 // block intervals (nodes)
	AppUnstaking  int64
	MaxJailed     int64
	Window        int64
	MinSignedPct  int64
	JailDuration  int64
	DowntimePpm   int64
	DoubleSignPct int64
	MaxChains     int64
	MaxApps       int64
	AppMaxChains  int64
	RTTM          int64
	Features      map[string]int64 // overrides of the activation heights (0 = not scheduled)
	// stake-weight bins put in place by governance transactions in the warm-up when RSCAL is
	// scheduled at height 2 (its activation block installs the main-net defaults, 15e9)
	Floor, Ceiling int64
	Warm           int // last warm-up height (blocks before recording starts)
	ThirdNode      bool
}

func baseCfg(seed int64) allCfg {
	return allCfg{Seed: seed, B: 4, W: 2, Exp: 3, NodeCount: 2, StakeMin: 2000000, MaxValidators: 3, UnstakingTime: 3, AppUnstaking: 3,
		MaxJailed: 3, Window: 10, MinSignedPct: 80, JailDuration: 3, DowntimePpm: 100000, DoubleSignPct: 50, MaxChains: 2,
		MaxApps: 3, AppMaxChains: 2, RTTM: 10000, Floor: 3000000, Ceiling: 6000000, Warm: 4, ThirdNode: true}
}

func (c allCfg) simConfig() chainsim.Config {
	feats := chainsim.DefaultFeatures()
	for k, v := range c.Features {
		if v == 0 {
			delete(feats, k)
		} else {
			feats[k] = v
		}
	}
	nodes := []chainsim.NodeSpec{
		{Key: kN1, Output: -1, Tokens: 5000000, Chains: []string{"0001"}},
		{Key: kN2, Output: -1, Tokens: 3000000, Chains: []string{"0001", "0002"}}}
	if c.ThirdNode {
		nodes = append(nodes, chainsim.NodeSpec{Key: kN3, Output: -1, Tokens: 4000000, Chains: []string{"0002"}})
	}
	return chainsim.Config{Seed: c.Seed, NKeys: nKeys,
		Balances: map[int]int64{kN1: 30000000, kN2: 30000000, kN3: 30000000, kA1: 20000000, kA2: 20000000, kU1: 20000000, kU2: 5000000,
			kOwner: 400000000, kN4: 30000000, kOut: 10000000, kA3: 9000000, kSpare: 9000000},
		Nodes: nodes,
		Apps:  []chainsim.AppSpec{{Key: kA1, Tokens: 2000000, Chains: []string{"0001"}}, {Key: kA2, Tokens: 3000000, Chains: []string{"0002"}}},
		DAOTokens: 5000000, DAOOwner: kOwner, Servicer: -1, Features: feats,
		NodeParams: func(p *nodesTypes.Params) {
			p.StakeMinimum = c.StakeMin
			p.MaxValidators = c.MaxValidators
			p.UnstakingTime = time.Duration(c.UnstakingTime) * chainsim.BlockInterval
			p.SessionBlockFrequency = c.B
			p.MaxJailedBlocks = c.MaxJailed
			p.SignedBlocksWindow = c.Window
			p.MinSignedPerWindow = sdk.NewDecWithPrec(c.MinSignedPct, 2)
			p.DowntimeJailDuration = time.Duration(c.JailDuration) * chainsim.BlockInterval
			p.SlashFractionDowntime = sdk.NewDecWithPrec(c.DowntimePpm, 6)
			p.SlashFractionDoubleSign = sdk.NewDecWithPrec(c.DoubleSignPct, 2)
			p.MaximumChains = c.MaxChains
			p.MaxEvidenceAge = 30 * time.Minute
			p.RelaysToTokensMultiplier = c.RTTM
		},
		AppParams: func(p *appsTypes.Params) {
			p.MaxApplications = c.MaxApps
			p.MaxChains = c.AppMaxChains
			p.UnstakingTime = time.Duration(c.AppUnstaking) * chainsim.BlockInterval
			p.BaseRelaysPerPOKT = 100000
		},
		PocketParams: func(pp *pc.Params) {
			pp.SessionNodeCount = c.NodeCount
			pp.ClaimSubmissionWindow = c.W
			pp.ClaimExpiration = c.Exp
			pp.SupportedBlockchains = []string{"0001", "0002"}
		},
	}
}

// world is a chain, the clock of the scenario, the evidence book and (optionally) a trace.
type world struct {
	s   *chainsim.Sim
	cfg allCfg
	t   int64 // time of the last begun block (block intervals since T0)
	b   *evBook
	tw  *hx.TraceWriter
	// delta recorder: a state field is logged only when its JSON differs from the last logged one
	lastField map[string]string
	lastCfg   string
	entropy   int64
	lagSets   []map[string]chainsim.ValInfo
	Lag       int
	seen      map[string]seenTx // tx hash -> where identical bytes were delivered before
	effected  map[string]bool   // signed content -> passed the ante handler before
	noIndex   bool              // commit without feeding the indexer (after the codec upgrade height was reset)
	rep       *hx.Report
	firstH    int64 // height at which recording started (history before it is not in the trace)
}

type seenTx struct {
	Height  int64
	Indexed bool
}

func timeOf(t int64) *time.Time {
	tm := chainsim.T0.Add(time.Duration(t) * chainsim.BlockInterval)
	return &tm
}

func newWorld(c allCfg) *world {
	w := &world{s: chainsim.New(c.simConfig()), cfg: c, lastField: map[string]string{}, seen: map[string]seenTx{}, effected: map[string]bool{}, entropy: 1000}
	w.b = newEvBook(w.s)
	w.s.Names[chainsim.MultiAddr(w.multiKeys()).String()] = "m1"
	// warm-up: block 1 (codec upgrade), block 2 (every default feature activates; RSCAL installs the
	// main-net stake-weight bins), then - by REAL governance transactions of the parameter owner -
	// the small-economy bins, then empty blocks up to c.Warm
	for w.s.Height < 2 {
		w.quietBlock()
	}
	if w.s.App.VerifCodec().IsAfterNamedFeatureActivationHeight(3, codec.RSCALKey) && c.Floor > 0 {
		w.quietBlock(w.mustBuild(w.paramInt(kOwner, "pos/ServicerStakeFloorMultiplier", c.Floor)),
			w.mustBuild(w.paramInt(kOwner, "pos/ServicerStakeWeightCeiling", c.Ceiling)))
	}
	for w.s.Height < int64(c.Warm) {
		w.quietBlock()
	}
	return w
}

// quietBlock runs an unrecorded block at the next time index; every transaction must succeed.
func (w *world) quietBlock(txs ...[]byte) {
	w.t++
	w.s.BeginBlock(chainsim.BlockOpts{Time: timeOf(w.t), Proposer: w.s.Addr(kN1)})
	for _, tx := range txs {
		if r := w.s.DeliverTx(tx); r.Code != 0 {
			hx.Fatal("warm-up transaction failed: %s/%d %s", r.Codespace, r.Code, r.Log)
		}
	}
	w.s.EndBlock()
	w.commit()
	w.lagSets = append(w.lagSets, copySet(w.s.ValSet))
}

func (w *world) commit() {
	if w.noIndex {
		r := w.s.App.Commit()
		w.s.LastHash = r.Data
		w.s.InBlock = false
		return
	}
	w.s.Commit()
}

func (w *world) name(i int) string { return w.s.Name(w.s.Addr(i)) }

func (w *world) keyIdx(name string) int {
	for i := range w.s.Keys {
		if w.name(i) == name {
			return i
		}
	}
	return -1
}

func (w *world) addrOf(name string) sdk.Address {
	if name == "" {
		return nil
	}
	for a, n := range w.s.Names {
		if n == name {
			ad, _ := sdk.AddressFromHex(a)
			return ad
		}
	}
	return nil
}

// ---- projection: chainsim's plus the extras of every module ---------------------------------

// stateFields are the fields of the unified state record (PocketChain.tla header).
var stateFields = []string{"bal", "supply", "nopk", "badCoins", "val", "ixStaked", "ixChain", "ixUnstaking", "ixWaiting",
	"prevPower", "prevTotal", "signing", "missed", "prevProposer", "tmSet", "app", "appIx", "appUnst", "claims",
	"params", "acl", "daoOwner", "upg", "featMem", "probe", "active"}

// missedBits reads the raw missed-block bit array (prefix 0x12 || address || index LE).
func (w *world) missedBits() map[string][]int64 {
	out := map[string][]int64{}
	ctx := w.s.Ctx()
	store := ctx.KVStore(w.s.App.Keys[nodesTypes.StoreKey])
	it, _ := sdk.KVStorePrefixIterator(store, nodesTypes.ValidatorMissedBlockBitArrayKey)
	defer it.Close()
	for ; it.Valid(); it.Next() {
		k := it.Key()
		if len(k) != 1+sdk.AddrLen+8 {
			continue
		}
		var b sdk.Bool
		if err := w.s.App.VerifCodec().UnmarshalBinaryLengthPrefixed(it.Value(), &b, ctx.BlockHeight()); err != nil || !bool(b) {
			continue
		}
		n := w.s.Name(sdk.Address(k[1 : 1+sdk.AddrLen]))
		out[n] = append(out[n], int64(binary.LittleEndian.Uint64(k[1+sdk.AddrLen:])))
	}
	for n := range out {
		sort.Slice(out[n], func(i, j int) bool { return out[n][i] < out[n][j] })
	}
	return out
}

// appIndex reads the application staking-set index (prefix 0x02; key = power || ^address,
// value = address) as [name, power] pairs in a canonical (sorted) order.
func (w *world) appIndex() [][]interface{} {
	s := w.s
	ctx := s.Ctx()
	store := ctx.KVStore(s.App.Keys[appsTypes.StoreKey])
	it, _ := sdk.KVStorePrefixIterator(store, appsTypes.StakedAppsKey)
	defer it.Close()
	type ent struct {
		name  string
		power int64
	}
	var es []ent
	for ; it.Valid(); it.Next() {
		k := it.Key()
		power := int64(binary.BigEndian.Uint64(k[1:9]))
		ka := sdk.CopyBytes(k[9:])
		for i := range ka {
			ka[i] = ^ka[i]
		}
		name := s.Name(sdk.Address(it.Value()))
		if !bytes.Equal(ka, it.Value()) {
			name = "KEY-VALUE-MISMATCH:" + hex.EncodeToString(ka)[:8] + "/" + name
		}
		es = append(es, ent{name, power})
	}
	sort.Slice(es, func(i, j int) bool {
		if es[i].name != es[j].name {
			return es[i].name < es[j].name
		}
		return es[i].power < es[j].power
	})
	out := [][]interface{}{}
	for _, e := range es {
		out = append(out, []interface{}{e.name, e.power})
	}
	return out
}

type claimX struct {
	Node     string `json:"node"`
	App      string `json:"app"`
	Chain    string `json:"chain"`
	SessionH int64  `json:"sessionH"`
	Total    int64  `json:"total"`
	Evidence int    `json:"evidence"`
	Expires  int64  `json:"expires"`
	Root     int    `json:"root"` // evidence set id of the committed Merkle root (-1 unknown)
}

func nameOfPub(s *chainsim.Sim, pubHex string) string {
	for _, k := range s.Keys {
		if k.PublicKey().RawString() == pubHex {
			return s.Name(chainsim.Addr(k))
		}
	}
	if len(pubHex) > 8 {
		return "x" + pubHex[:8]
	}
	return pubHex
}

func (w *world) claims() []claimX {
	s := w.s
	out := []claimX{}
	for _, c := range s.App.VerifPocketKeeper().GetAllClaims(s.Ctx()) {
		root := -1
		if id, ok := w.b.roots[hex.EncodeToString(c.MerkleRoot.Hash)]; ok {
			root = id
		}
		out = append(out, claimX{Node: s.Name(c.FromAddress), App: nameOfPub(s, c.SessionHeader.ApplicationPubKey), Chain: c.SessionHeader.Chain,
			SessionH: c.SessionHeader.SessionBlockHeight, Total: c.TotalProofs, Evidence: int(c.EvidenceType), Expires: c.ExpirationHeight, Root: root})
	}
	sort.Slice(out, func(i, j int) bool {
		a, b := out[i], out[j]
		if a.SessionH != b.SessionH {
			return a.SessionH < b.SessionH
		}
		if a.Node != b.Node {
			return a.Node < b.Node
		}
		if a.App != b.App {
			return a.App < b.App
		}
		return a.Chain < b.Chain
	})
	return out
}

type upgState struct {
	Height   int64           `json:"height"`
	Version  string          `json:"version"`
	Old      int64           `json:"old"`
	Features [][]interface{} `json:"features"` // [key, height] in stored order
}

func splitFeatures(fs []string) [][]interface{} {
	out := [][]interface{}{}
	for _, f := range fs {
		kv := strings.SplitN(f, ":", 2)
		h := int64(-1)
		if len(kv) == 2 {
			if n, err := strconv.ParseInt(kv[1], 10, 64); err == nil {
				h = n
			}
		}
		out = append(out, []interface{}{kv[0], h})
	}
	return out
}

func upgOf(u govTypes.Upgrade) *upgState {
	return &upgState{Height: u.Height, Version: u.Version, Old: u.OldUpgradeHeight, Features: splitFeatures(u.Features)}
}

// absVal abstracts a raw parameter value: itself when short, a digest otherwise.
func absVal(raw []byte) string {
	if len(raw) <= 40 {
		return string(raw)
	}
	sum := sha256.Sum256(raw)
	return "#" + hex.EncodeToString(sum[:5])
}

var govOwnKeys = map[string]bool{"gov/acl": true, "gov/daoOwner": true, "gov/upgrade": true}

// probeKeys / probeMax: where the real activation predicate is sampled on a fixed grid (ChainGov.ProbeGrid)
var probeKeys = []string{"F1", "F2", "BLOCK"}

const probeMax = 14

// activeKeys: the feature keys whose activation predicate is sampled at the CURRENT height
var activeKeys = append(append([]string{}, chainsim.AllFeatures...), "F1", "F2")

// featureActive asks the predicate the code itself uses for the feature (the dedicated one where the
// codec has one, the generic named-feature predicate otherwise)
func featureActive(cdc *codec.Codec, key string, h int64) bool {
	switch key {
	case codec.NonCustodialUpdateKey:
		return cdc.IsAfterNonCustodialUpgrade(h)
	case codec.OutputAddressEditKey:
		return cdc.IsAfterOutputAddressEditorUpgrade(h)
	case codec.PerChainRTTM:
		return cdc.IsAfterPerChainRTTMUpgrade(h)
	case codec.AppTransferKey:
		return cdc.IsAfterAppTransferUpgrade(h)
	case codec.RewardDelegatorsKey:
		return cdc.IsAfterRewardDelegatorUpgrade(h)
	case codec.EnforceMaxChainsUpdateKey:
		return cdc.IsAfterEnforceMaxChainsUpgrade(h)
	}
	return cdc.IsAfterNamedFeatureActivationHeight(h, key)
}

// nx: derived values the nodes specification needs
func (w *world) nx() map[string]interface{} {
	ctx := w.s.Ctx()
	nk := w.s.App.VerifNodesKeeper()
	idx := make([]int, len(w.s.Keys))
	for i := range idx {
		idx[i] = i
	}
	sort.Slice(idx, func(a, b int) bool { return bytes.Compare(w.s.Addr(idx[a]), w.s.Addr(idx[b])) < 0 })
	rank := map[string]int{}
	for pos, i := range idx {
		rank[w.name(i)] = pos
	}
	crank := map[string]int{}
	for i, c := range ChainUniverse {
		crank[c] = i
	}
	age := nk.MaxEvidenceAge(ctx)
	return map[string]interface{}{"rank": rank, "crank": crank, "minSigned": nk.MinBlocksSignedPerWindow(ctx),
		"maxEvidenceAge": int64(age / chainsim.BlockInterval), "maxEvidenceAgeMin": int64(age.Minutes())}
}

func toMap(v interface{}) map[string]interface{} {
	b, _ := json.Marshal(v)
	var m map[string]interface{}
	_ = json.Unmarshal(b, &m)
	return m
}

// capInts caps numbers above 2*10^9 (the main-net stake-weight bins installed when RSCAL
// activates: 15*10^9) at 2*10^9 so that they fit TLC's 32-bit integers.  Every stake of the
// economy is far below that, so the bin computed from the capped value is the same (0).
func capInts(v interface{}) interface{} {
	switch x := v.(type) {
	case map[string]interface{}:
		for k, e := range x {
			x[k] = capInts(e)
		}
		return x
	case []interface{}:
		for i, e := range x {
			x[i] = capInts(e)
		}
		return x
	case float64:
		if x > 2e9 {
			return float64(2e9)
		}
	}
	return v
}

// snapshot returns the unified state (every field of stateFields) and the configuration.
func (w *world) snapshot() (map[string]interface{}, map[string]interface{}) {
	s := w.s
	core, cfg := s.Split(s.Project())
	ctx := s.Ctx()
	gk := s.App.VerifGovKeeper()
	core["missed"] = w.missedBits()
	core["appIx"] = w.appIndex()
	core["appUnst"] = core["ixAppUnstaking"]
	core["claims"] = w.claims()
	params := map[string]string{}
	for k, v := range gk.GetAllParamNameValue(ctx) {
		if !govOwnKeys[k] {
			params[k] = absVal([]byte(v))
		}
	}
	core["params"] = params
	core["acl"] = cfg.ACL
	core["daoOwner"] = cfg.DAOOwner
	core["upg"] = upgOf(gk.GetUpgrade(ctx))
	core["featMem"] = cfg.FeatMem
	probe := map[string][]int64{}
	for _, k := range probeKeys {
		hs := []int64{}
		for h := int64(1); h <= probeMax; h++ {
			if s.App.VerifCodec().IsAfterNamedFeatureActivationHeight(h, k) {
				hs = append(hs, h)
			}
		}
		probe[k] = hs
	}
	core["probe"] = probe
	act := []string{}
	seenKey := map[string]bool{}
	for _, k := range activeKeys {
		seenKey[k] = true
	}
	keys := append([]string{}, activeKeys...)
	for k := range codec.UpgradeFeatureMap {
		if !seenKey[k] {
			keys = append(keys, k)
		}
	}
	for _, k := range keys {
		if featureActive(s.App.VerifCodec(), k, s.Height) {
			act = append(act, k)
		}
	}
	sort.Strings(act)
	core["active"] = act
	st := map[string]interface{}{}
	for _, k := range stateFields {
		st[k] = core[k]
	}
	p := s.App.VerifAppsKeeper().GetParams(ctx)
	if p.ParticipationRateOn {
		cfg.AppParams["ParticipationRateOn"] = 1
	} else {
		cfg.AppParams["ParticipationRateOn"] = 0
	}
	cfg.ACL = map[string]string{}
	cfg.Upgrade = chainsim.UpgradeState{Features: []string{}}
	cfg.FeatMem = map[string]int64{}
	cfg.DAOOwner = ""
	cm := toMap(cfg)
	cm["nx"] = w.nx()
	cm = capInts(toMap(cm)).(map[string]interface{})
	return toMap(st), cm
}

func (w *world) emit(ev map[string]interface{}) {
	if w.tw == nil {
		return
	}
	st, cfg := w.snapshot()
	delta := map[string]interface{}{}
	for _, k := range stateFields {
		b, _ := json.Marshal(st[k])
		if w.lastField[k] != string(b) {
			w.lastField[k] = string(b)
			delta[k] = json.RawMessage(b)
		}
	}
	ev["st"] = delta
	ev["h"] = w.s.Height
	ev["t"] = w.t
	cb, _ := json.Marshal(cfg)
	if string(cb) != w.lastCfg {
		w.lastCfg = string(cb)
		ev["cfg"] = cfg
	}
	w.tw.Emit(ev)
}

func (w *world) reset(label string) {
	w.lastCfg = ""
	w.lastField = map[string]string{}
	w.seen = map[string]seenTx{}
	w.effected = map[string]bool{}
	w.firstH = w.s.Height
	w.emit(map[string]interface{}{"ev": "reset", "label": label})
}

// ---- block steps ------------------------------------------------------------------------------

type evidenceSpec struct {
	Node   string
	Height int64
	Time   int64
	Power  int64
}

type blockOpts struct {
	Dt       int64 // time advance (block intervals)
	AbsTime  int64 // absolute time (overrides Dt when > 0)
	Proposer string
	Absent   []string // names of validators that did not sign
	Evidence []evidenceSpec
}

func copySet(m map[string]chainsim.ValInfo) map[string]chainsim.ValInfo {
	out := map[string]chainsim.ValInfo{}
	for k, v := range m {
		out[k] = v
	}
	return out
}

// begin runs BeginBlock.  With Lag > 0 the votes come from the consensus set of `Lag` blocks
// ago (Tendermint applies validator updates with a delay), not from the current one.
func (w *world) begin(o blockOpts) {
	if o.AbsTime > 0 {
		w.t = o.AbsTime
	} else {
		if o.Dt == 0 {
			o.Dt = 1
		}
		w.t += o.Dt
	}
	cur := w.s.ValSet
	voteSet := cur
	if w.Lag > 0 && len(w.lagSets) > 0 {
		i := len(w.lagSets) - w.Lag
		if i < 0 {
			i = 0
		}
		voteSet = w.lagSets[i]
	}
	absent := map[string]bool{}
	for _, n := range o.Absent {
		absent[hex.EncodeToString(w.addrOf(n))] = true
	}
	var evs []abci.Evidence
	for _, e := range o.Evidence {
		evs = append(evs, abci.Evidence{Type: tmtypes.ABCIEvidenceTypeDuplicateVote,
			Validator: abci.Validator{Address: w.addrOf(e.Node), Power: e.Power}, Height: e.Height, Time: *timeOf(e.Time)})
	}
	prop := w.addrOf(o.Proposer)
	if prop == nil {
		prop = w.s.Addr(kN1)
	}
	w.s.ValSet = voteSet
	votes := w.s.Votes(absent)
	w.s.BeginBlock(chainsim.BlockOpts{Time: timeOf(w.t), Proposer: prop, Absent: absent, Evidence: evs})
	w.s.ValSet = cur
	if w.tw != nil {
		vs := [][]interface{}{}
		for _, v := range votes {
			vs = append(vs, []interface{}{w.s.Name(sdk.Address(v.Validator.Address)), v.Validator.Power, v.SignedLastBlock})
		}
		es := [][]interface{}{}
		for _, e := range o.Evidence {
			es = append(es, []interface{}{e.Node, e.Height, e.Time, e.Power})
		}
		w.emit(map[string]interface{}{"ev": "BeginBlock", "proposer": w.s.Name(prop), "votes": vs, "evidence": es})
	}
}

// deliver delivers transaction bytes; abs is the abstract transaction record.  The
// duplicate-submission class is filled in from what was delivered before (as chainsim.Recorder does).
func (w *world) deliver(bz []byte, abs absTx) abci.ResponseDeliverTx {
	hsh := hex.EncodeToString(tmtypes.Tx(bz).Hash())
	dup := "no"
	if p, ok := w.seen[hsh]; ok {
		if p.Height == w.s.Height {
			dup = "inblock"
		} else if p.Indexed {
			dup = "indexed"
		}
	}
	if abs["kind"] == "claim" {
		// the session as the real code computes it NOW (needed by the specification only when it is a proper
		// pseudorandom subset of the eligible nodes)
		tx := hx.Step(abs)
		if ai := w.keyIdx(tx.Str("app")); ai >= 0 {
			if sn := w.sessionNodes(w.header(ai, tx.Str("chain"), int64(tx.Int("sessionH")))); sn != nil {
				abs["sessNodes"] = sn
			} else {
				delete(abs, "sessNodes")
			}
		}
	}
	res := w.s.DeliverTx(bz)
	if os.Getenv("VERIF_DEBUG") != "" {
		fmt.Fprintf(os.Stderr, "h=%d %v id=%v dup=%s: %s/%d %.200s\n", w.s.Height, abs["kind"], abs["id"], dup, res.Codespace, res.Code, res.Log)
	}
	anteFail := res.Codespace == "auth" && res.Code < 10
	if p, ok := w.seen[hsh]; !ok || !p.Indexed {
		w.seen[hsh] = seenTx{Height: w.s.Height, Indexed: !anteFail}
	}
	a := absTx{}
	for k, v := range abs {
		if k != "raw" && !strings.HasPrefix(k, "_") { // raw parameter bytes can be kilobytes; `val` abstracts them
			a[k] = v
		}
	}
	if v, ok := a["dup"]; !ok || v == "no" || (v == "reencoded" && dup != "no") {
		a["dup"] = dup
	}
	ck := map[string]interface{}{}
	for k, v := range a {
		if k != "dup" {
			ck[k] = v
		}
	}
	cb, _ := json.Marshal(ck)
	a["priorEffect"] = w.effected[string(cb)]
	if !anteFail {
		w.effected[string(cb)] = true
	}
	if w.tw != nil {
		w.emit(map[string]interface{}{"ev": "DeliverTx", "tx": a,
			"res": map[string]interface{}{"code": res.Code, "codespace": res.Codespace}})
	}
	return res
}

func (w *world) updates(ups []abci.ValidatorUpdate) [][]interface{} {
	out := [][]interface{}{}
	for _, u := range ups {
		h := sha256.Sum256(u.PubKey.Data)
		out = append(out, []interface{}{w.s.Name(sdk.Address(h[:20])), u.Power})
	}
	return out
}

// end runs EndBlock + Commit (one event: the state after EndBlock is the committed state)
func (w *world) end() []abci.ValidatorUpdate {
	res := w.s.EndBlock()
	w.commit()
	w.lagSets = append(w.lagSets, copySet(w.s.ValSet))
	if len(w.lagSets) > 4 {
		w.lagSets = w.lagSets[1:]
	}
	if w.tw != nil {
		w.emit(map[string]interface{}{"ev": "EndBlock", "updates": w.updates(res.ValidatorUpdates)})
	}
	return res.ValidatorUpdates
}

// restart emulates a process restart on the same databases: the codec's process-global schedule is
// reset to its initial values, then the application object is re-created (NewPocketCoreApp restores
// the globals from the stored upgrade).
func (w *world) restart() {
	codec.UpgradeFeatureMap = make(map[string]int64)
	codec.UpgradeHeight = math.MaxInt64
	codec.OldUpgradeHeight = 0
	w.s.Restart()
	if codec.GetCodecUpgradeHeight() > w.s.Height {
		codec.UpgradeHeight = 2
		codec.OldUpgradeHeight = 1
	}
	if w.tw != nil {
		w.emit(map[string]interface{}{"ev": "Restart"})
	}
}

func chainsimAddr(pub []byte) sdk.Address {
	h := sha256.Sum256(pub)
	return sdk.Address(h[:20])
}

func classOf(r abci.ResponseDeliverTx) string {
	if r.Code == 0 {
		return "ok"
	}
	return fmt.Sprintf("%s/%d", r.Codespace, r.Code)
}
