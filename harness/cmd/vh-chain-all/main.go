// vh-chain-all: the WHOLE application (auth, nodes, apps, pocketcore claims, gov) driven through
// ABCI by harness/chainsim, projected into the unified state of spec/chain/PocketChain.tla.
//
//	init-state -out F                   projection of the design model's start chain (MCPocketChain)
//	replay-all -in F [-shard i -of n]   replay TLC behaviours of MCPocketChain block by block
//	trace-all  -out F -n N -blocks B -scenarios all|none|a,b,..   record mixed chains for TracePocketChain
//	smoke                               development aid
package main

import (
	"flag"
	"fmt"
	"os"
)

func main() {
	if len(os.Args) < 2 {
		fmt.Fprintln(os.Stderr, "usage: vh-chain-all <init-state|replay-all|trace-all|smoke> ...")
		os.Exit(2)
	}
	fs := flag.NewFlagSet(os.Args[1], flag.ExitOnError)
	out := fs.String("out", "", "output file")
	in := fs.String("in", "", "behaviour file")
	n := fs.Int("n", 1, "random chains")
	blocks := fs.Int("blocks", 120, "blocks per random chain")
	scen := fs.String("scenarios", "all", "scripted scenarios to record (all | none | comma list)")
	split := fs.Int("split", 1, "write the chains round-robin into this many files (out.0, out.1, ...)")
	shard := fs.Int("shard", 0, "shard index")
	of := fs.Int("of", 1, "number of shards")
	_ = fs.Parse(os.Args[2:])
	switch os.Args[1] {
	case "smoke":
		smoke()
	case "init-state":
		initState(*out)
	case "replay-all":
		replayAll(*in, *shard, *of)
	case "trace-all":
		traceAll(*out, *n, *blocks, *scen, *split)
	default:
		fmt.Fprintln(os.Stderr, "unknown command", os.Args[1])
		os.Exit(2)
	}
}
