package main

import (
	"encoding/json"
	"fmt"
	"os"
	"reflect"
	"sort"

	"verifharness/internal/hx"
)

// ---- the design model's start chain (MCPocketChain) --------------------------------------------
//
// Two nodes (a1 5.0, a2 3.0 POKT), two applications (a4 on 0001, a5 on 0002), 2 blocks per session,
// claim window 2 sessions, unstaking time 1 block, MaxValidators 2, AppTransfer NOT scheduled,
// RSCAL active with bins of 3 POKT.  Warm-up (not part of the model, executed identically by
// init-state and by every replay): session 5..6 is served; at height 7 a1 and a2 claim it and a2
// asks to unstake; at the EndBlock of 8 (session end) a2 begins unstaking, due at the next block.
// The model starts at height 8: the proofs can be delivered from height 9 on - before (9) and
// after (10) the node a2 is gone.

func mcCfg(seed int64) allCfg {
	c := baseCfg(seed)
	c.B, c.W, c.Exp, c.UnstakingTime, c.AppUnstaking, c.MaxValidators = 2, 2, 2, 1, 1, 2
	c.ThirdNode = false
	c.Features = map[string]int64{"AppTransfer": 0}
	c.Warm = 4
	return c
}

const mcSession = 5

type mcWorld struct {
	w    *world
	hist map[string]interface{} // height -> {val, app, ixChain} as committed by that height
}

func newMCWorld(seed int64) *mcWorld {
	w := newWorld(mcCfg(seed))
	m := &mcWorld{w: w, hist: map[string]interface{}{}}
	snap := func() {
		st, _ := w.snapshot()
		m.hist[fmt.Sprint(w.s.Height)] = map[string]interface{}{"val": st["val"], "app": st["app"], "ixChain": st["ixChain"]}
	}
	snap()
	step := func(txs ...absTx) {
		w.begin(blockOpts{Dt: 1, Proposer: "a1"})
		for _, tx := range txs {
			if r := w.deliver(w.buildTx(tx), tx); r.Code != 0 {
				hx.Fatal("design-model warm-up transaction %v failed: %s/%d %s", tx["kind"], r.Codespace, r.Code, r.Log)
			}
		}
		w.end()
		snap()
	}
	step()
	step()
	step(w.claimTx(kN1, kA1, "0001", mcSession, 5, e5, kN1), w.claimTx(kN2, kA1, "0001", mcSession, 5, e5, kN2), w.nodeUnstakeTx("a2", "a2", "a2"))
	step()
	if w.s.Height != 8 {
		hx.Fatal("design-model warm-up ended at height %d", w.s.Height)
	}
	return m
}

// menu: every transaction the design model may deliver, built by the same constructors the trace
// drivers use (the model only chooses among them and numbers them)
func (m *mcWorld) menu() []absTx {
	w := m.w
	var out []absTx
	add := func(name string, tx absTx) {
		tx["name"] = name
		tx["id"] = int64(0)
		out = append(out, tx)
	}
	bad := func(tx absTx) absTx { tx["sigOK"] = false; return tx }
	add("send", w.sendTx("a6", "a7", 100))
	add("send-to-node-pool", w.sendTx("a6", "staked_tokens_pool", 7))
	add("send-to-fee-collector", w.sendTx("a6", "fee_collector", 5))
	add("send-bad-signature", bad(w.sendTx("a6", "a7", 100)))
	add("node-edit-bump", w.nodeStakeTx("a1", "a1", 6000000, []string{"0001"}, urls[0], nil, "a1"))
	add("node-edit-chains-by-stranger", w.nodeStakeTx("a1", "a1", 5000000, []string{"0001", "0002"}, urls[0], nil, "a6"))
	add("node-unstake", w.nodeUnstakeTx("a1", "a1", "a1"))
	add("node-unjail", w.nodeUnjailTx("a1", "a1", "a1"))
	add("node-stake-while-unstaking-or-gone", w.nodeStakeTx("a2", "a2", 3000000, []string{"0001"}, urls[0], nil, "a2"))
	add("app-stake-new", w.appStakeTx("a11", "a11", []string{"0001"}, 1000000))
	add("app-transfer", w.appTransferTx("a4", "a11"))
	add("app-edit-bump", w.appStakeTx("a4", "a4", []string{"0001"}, 3000000))
	add("app-unstake", w.appUnstakeTx("a4", "a4"))
	add("claim-next-session", w.claimTx(kN1, kA1, "0001", mcSession+2, 5, e5, kN1))
	add("claim-next-session-leaving-node", w.claimTx(kN2, kA1, "0001", mcSession+2, 5, e5, kN2))
	add("proof", w.proofTx(kN1, kA1, "0001", mcSession, e5, req()))
	add("proof-leaving-node", w.proofTx(kN2, kA1, "0001", mcSession, e5, req()))
	add("proof-wrong-index", w.proofTx(kN1, kA1, "0001", mcSession, e5, proofOpts{Leaf: "next", Signer: -1}))
	add("proof-foreign-signer", w.proofTx(kN1, kA1, "0001", mcSession, e5, proofOpts{Leaf: "req", Signer: kN2}))
	add("param-maxvalidators-1", w.paramInt(kOwner, "pos/MaxValidators", 1))
	add("param-stakeminimum-above-stakes", w.paramInt(kOwner, "pos/StakeMinimum", 6000000))
	add("param-fee-multiplier", w.paramFeeMult(kOwner, map[string]int64{"send": 2, "proof": 2}, 1))
	add("param-maxapplications-2", w.paramInt(kOwner, "application/MaxApplications", 2))
	add("param-claim-expiration", w.paramInt(kOwner, "pocketcore/ClaimExpiration", 1))
	add("param-by-stranger", w.paramInt(kU1, "pos/MaxValidators", 1))
	add("param-unparsable", w.paramInvalid(kOwner, "pos/MaxValidators"))
	add("dao-transfer-to-node-pool", w.daoTransferTx("a8", "staked_tokens_pool", 70000))
	add("dao-transfer-to-fee-collector", w.daoTransferTx("a8", "fee_collector", 110000))
	add("dao-burn", w.daoBurnTx("a8", 50000))
	add("dao-transfer-by-stranger", w.daoTransferTx("a6", "a6", 1))
	add("upgrade-apptransfer-next-block", w.featureTx("a8", "AppTransfer", int(w.s.Height)+2))
	add("upgrade-by-stranger", w.featureTx("a6", "AppTransfer", int(w.s.Height)+2))
	return out
}

func initState(out string) {
	m := newMCWorld(hx.Seed())
	st, cfg := m.w.snapshot()
	b, _ := json.Marshal(map[string]interface{}{"st": st, "cfg": cfg, "h": m.w.s.Height, "t": m.w.t, "hist": m.hist, "menu": m.menu()})
	if err := os.WriteFile(out, b, 0644); err != nil {
		hx.Fatal("%v", err)
	}
	hx.NewReport("chain-all", "init-state").Print()
}

// ---- replay --------------------------------------------------------------------------------------

// canon maps TLC's ToJson rendering and encoding/json's to one shape: empty functions /
// sequences / sets become nil; the fields that are sets in the specification are sorted.
func canon(v interface{}) interface{} {
	switch x := v.(type) {
	case map[string]interface{}:
		if len(x) == 0 {
			return nil
		}
		out := map[string]interface{}{}
		for k, e := range x {
			out[k] = canon(e)
		}
		return out
	case []interface{}:
		if len(x) == 0 {
			return nil
		}
		out := make([]interface{}, len(x))
		for i, e := range x {
			out[i] = canon(e)
		}
		return out
	}
	return v
}

var setFields = map[string]bool{"appIx": true, "claims": true, "active": true}

func canonField(f string, v interface{}) interface{} {
	c := canon(v)
	if setFields[f] {
		if arr, ok := c.([]interface{}); ok {
			strs := make([]string, len(arr))
			for i, e := range arr {
				b, _ := json.Marshal(e)
				strs[i] = string(b)
			}
			sort.Strings(strs)
			return strs
		}
	}
	return c
}

// expect is the specification's state carried along a behaviour: stages print only the fields
// that changed, everything else must stay what it was
type expect struct {
	st  map[string]interface{}
	cfg interface{}
}

func (x *expect) apply(delta interface{}) {
	if d, ok := delta.(map[string]interface{}); ok {
		for k, v := range d {
			x.st[k] = v
		}
	}
}

func short(v interface{}) string {
	b, _ := json.Marshal(v)
	if len(b) > 400 {
		return string(b[:400]) + "..."
	}
	return string(b)
}

// describe names the entries of a map-valued field that differ (the whole value otherwise)
func describe(f string, a, b interface{}) string {
	am, ok1 := a.(map[string]interface{})
	bm, ok2 := b.(map[string]interface{})
	if !ok1 && a != nil || !ok2 && b != nil || (a == nil && b == nil) {
		return fmt.Sprintf("%s: spec=%s real=%s", f, short(a), short(b))
	}
	keys := map[string]bool{}
	for k := range am {
		keys[k] = true
	}
	for k := range bm {
		keys[k] = true
	}
	ks := make([]string, 0, len(keys))
	for k := range keys {
		ks = append(ks, k)
	}
	sort.Strings(ks)
	out := ""
	for _, k := range ks {
		if !reflect.DeepEqual(am[k], bm[k]) {
			if out != "" {
				out += "; "
			}
			out += fmt.Sprintf("%s[%s]: spec=%s real=%s", f, k, short(am[k]), short(bm[k]))
		}
	}
	return out
}

// diff returns the first field on which the specification's state and the real one differ
func (x *expect) diff(w *world) (string, string) {
	st, cfg := w.snapshot()
	for _, f := range stateFields {
		a, b := canonField(f, x.st[f]), canonField(f, st[f])
		if !reflect.DeepEqual(a, b) {
			return f, describe(f, a, b)
		}
	}
	if x.cfg != nil {
		wc, _ := x.cfg.(map[string]interface{})
		for _, sec := range []string{"nodeParams", "appParams", "pcParams", "feeMult", "feeMultDefault", "maxMemo", "supported"} {
			a, b := canon(wc[sec]), canon(cfg[sec])
			if !reflect.DeepEqual(a, b) {
				return "cfg." + sec, describe("cfg."+sec, a, b)
			}
		}
	}
	return "", ""
}

// replayAll replays behaviours of MCPocketChain (one block per history entry) on the real
// application, comparing the unified projection after BeginBlock, after the transaction and after
// EndBlock, the message result and the reported validator updates.  A behaviour stops at its first
// divergence.  Chains have process-global state: behaviours run sequentially inside a process.
func replayAll(in string, shard, of int) {
	rep := hx.NewReport("chain-all", "replay-all")
	seen := map[string]bool{}
	err := hx.ReadBehaviours(in, func(idx int, beh []hx.Step) error {
		if idx%of != shard {
			return nil
		}
		rep.Behaviours++
		raw, _ := json.Marshal(beh)
		fresh := !seen[string(raw)]
		seen[string(raw)] = true
		m := newMCWorld(hx.Seed())
		w := m.w
		byName := map[string]absTx{}
		for _, tx := range m.menu() {
			byName[tx["name"].(string)] = tx
		}
		st0, cfg0 := w.snapshot()
		x := &expect{st: st0, cfg: cfg0}
		nontrivial := false
		mismatch := func(step int, op, field, what string, want, got interface{}) {
			rep.OpCounts["!"+op+"|"+field]++
			rep.AddMismatch(hx.Mismatch{Behaviour: idx, Step: step, Op: op, What: what, Variant: field, Want: want, Got: got, History: beh})
		}
	steps:
		for si, e := range beh {
			rep.Steps++
			var evs []evidenceSpec
			if arr, ok := e["evidence"].([]interface{}); ok {
				for _, v := range arr {
					t := v.([]interface{})
					evs = append(evs, evidenceSpec{Node: t[0].(string), Height: int64(t[1].(float64)), Time: int64(t[2].(float64)), Power: int64(t[3].(float64))})
				}
			}
			absent := strs(e["absent"])
			if len(evs) > 0 || len(absent) > 0 {
				nontrivial = true
			}
			w.begin(blockOpts{Dt: int64(e.Int("dt")), Proposer: "a1", Absent: absent, Evidence: evs})
			if w.s.Height != int64(e.Int("h")) || w.t != int64(e.Int("t")) {
				hx.Fatal("behaviour %d step %d: height/time out of step (real %d/%d, spec %d/%d)", idx, si, w.s.Height, w.t, e.Int("h"), e.Int("t"))
			}
			x.apply(e["begun"])
			if c, ok := e["cfgB"]; ok {
				x.cfg = c
			}
			if f, why := x.diff(w); f != "" {
				mismatch(si, "BeginBlock", f, "state after BeginBlock: "+why, nil, nil)
				w.end()
				break
			}
			if e.Bool("hasTx") {
				spec := hx.Step(e["tx"].(map[string]interface{}))
				name := spec.Str("name")
				tx, ok := byName[name]
				if !ok {
					hx.Fatal("behaviour names unknown transaction %q", name)
				}
				tx["id"] = int64(spec.Int("id"))
				res := w.deliver(w.buildTx(tx), tx)
				rep.OpCounts[name+":"+classOf(res)]++
				if res.Code == 0 {
					nontrivial = true
				}
				if e.Bool("ok") != (res.Code == 0) {
					mismatch(si, "DeliverTx:"+name, "result", "message result", e.Bool("ok"), fmt.Sprintf("code=%d codespace=%s log=%.200s", res.Code, res.Codespace, res.Log))
					w.end()
					break steps
				}
				x.apply(e["post"])
				if c, ok := e["cfgD"]; ok {
					x.cfg = c
				}
				if f, why := x.diff(w); f != "" {
					mismatch(si, "DeliverTx:"+name, f, "state after DeliverTx: "+why, nil, nil)
					w.end()
					break steps
				}
			}
			ups := w.updates(w.end())
			wantUps, _ := json.Marshal(canon(e["ups"]))
			gotUps, _ := json.Marshal(canon(jsonClone(ups)))
			if string(wantUps) != string(gotUps) {
				mismatch(si, "EndBlock", "updates", fmt.Sprintf("validator updates: spec=%s real=%s", wantUps, gotUps), nil, nil)
				break
			}
			x.apply(e["ended"])
			if f, why := x.diff(w); f != "" {
				mismatch(si, "EndBlock", f, "state after EndBlock: "+why, nil, nil)
				break
			}
		}
		if fresh && nontrivial {
			rep.Nontrivial++
		}
		if idx%397 == 5 {
			var brief []interface{}
			for _, e := range beh {
				name := ""
				if tx, ok := e["tx"].(map[string]interface{}); ok {
					name = hx.Step(tx).Str("name")
				}
				brief = append(brief, map[string]interface{}{"h": e["h"], "dt": e["dt"], "absent": e["absent"], "evidence": e["evidence"], "tx": name, "ok": e["ok"], "ups": e["ups"]})
			}
			rep.AddSample(brief)
		}
		return nil
	})
	if err != nil {
		hx.Fatal("%v", err)
	}
	rep.Distinct = len(seen)
	rep.Print()
}
