package main

import (
	"encoding/json"
	"fmt"
	"os"
	"time"

	"verifharness/internal/hx"
)

// smoke: development aid - builds a world, runs a claim / proof cycle and prints what the
// projection sees (raw parameter values around feature activation, reward amounts per bin).
func smoke() {
	c := baseCfg(hx.Seed())
	c.B = 2
	c.Floor, c.Ceiling = 1000000, 4000000
	w := newWorld(c)
	st, cfg := w.snapshot()
	b, _ := json.Marshal(st["params"])
	fmt.Fprintf(os.Stderr, "height %d params: %s\n", w.s.Height, b)
	b, _ = json.Marshal(cfg)
	fmt.Fprintf(os.Stderr, "cfg: %s\n", b)
	b, _ = json.Marshal(st)
	fmt.Fprintf(os.Stderr, "state bytes: %d\n", len(b))
	// session 5..6 (B = 2); claims at 7, proofs from 9 (W = 2)
	for w.s.Height < 6 {
		w.block(blockOpts{})
	}
	res := w.block(blockOpts{}, w.claimTx(kN1, kA1, "0001", 5, 5, e5, kN1), w.claimTx(kN2, kA1, "0001", 5, 5, e5, kN2))
	fmt.Fprintf(os.Stderr, "claims: %v\n", res)
	w.block(blockOpts{})
	pre := w.s.Project()
	res = w.block(blockOpts{}, w.proofTx(kN1, kA1, "0001", 5, e5, proofOpts{Leaf: "req", Signer: -1}), w.proofTx(kN2, kA1, "0001", 5, e5, proofOpts{Leaf: "req", Signer: -1}))
	post := w.s.Project()
	fmt.Fprintf(os.Stderr, "proofs: %v supply %d -> %d (a1 stake %d, a2 stake %d)\n", res, pre.Supply, post.Supply, pre.Val["a1"].Tokens, pre.Val["a2"].Tokens)
	for _, n := range []string{"a1", "a2", "fee_collector", "dao"} {
		fmt.Fprintf(os.Stderr, "  %s: %d -> %d\n", n, pre.Bal[n], post.Bal[n])
	}
	for _, tx := range []absTx{w.sendTx("a6", "a7", 5), w.nodeUnstakeTx("a3", "a3", "a3"), w.nodeUnstakeTx("a3", "a10", "a3")} {
		tx["hasPK"] = false
		w.begin(blockOpts{})
		r := w.s.DeliverTx(w.buildTx(tx))
		fmt.Fprintf(os.Stderr, "no-pubkey %v: %s/%d %.3000s\n", tx["kind"], r.Codespace, r.Code, r.Log)
		w.end()
	}
	t0 := time.Now()
	tw, _ := hx.NewTraceWriter("/dev/null")
	w.tw = tw
	w.reset("smoke")
	for i := 0; i < 100; i++ {
		w.block(blockOpts{}, w.sendTx("a6", "a7", 5))
	}
	fmt.Fprintf(os.Stderr, "100 recorded blocks with one send: %v\n", time.Since(t0))
}
