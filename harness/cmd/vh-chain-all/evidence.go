package main

import (
	"encoding/hex"
	"encoding/json"
	"fmt"
	"sort"

	"github.com/pokt-network/pocket-core/crypto"
	sdk "github.com/pokt-network/pocket-core/types"
	pc "github.com/pokt-network/pocket-core/x/pocketcore/types"

	"verifharness/chainsim"
)

// ---------------------------------------------------------------------------
// REAL evidence built off-chain, the way a gateway client and a servicer produce it:
// the application key signs an AAT for a client key, the client signs RelayProofs
// addressed to the servicer, the servicer builds the Merkle-sum-index tree with the
// real functions (pc.GenerateRoot / pc.GenerateProofs).
// ---------------------------------------------------------------------------

// evKey identifies an evidence set by its construction parameters.
type evKey struct {
	Node, App int // key indexes
	Chain     string
	SessionH  int64
	N         int  // number of leaves
	Ev        int  // evidence set id (different ids = different relays)
	Dup       bool // replay attack: every relay appears twice (the copy has a zero-width range)
	Cheat     int  // >= 0: only ONE leaf is a really signed relay and it sits at this index
}

type evidence struct {
	Key    evKey
	Proofs []pc.Proof // sorted (tree order)
	Root   pc.HashRange
}

func makeAAT(app, client crypto.PrivateKey) pc.AAT {
	aat := pc.AAT{Version: "0.0.1", ApplicationPublicKey: app.PublicKey().RawString(),
		ClientPublicKey: client.PublicKey().RawString(), ApplicationSignature: ""}
	sig, err := app.Sign(aat.Hash())
	if err != nil {
		panic(err)
	}
	aat.ApplicationSignature = hex.EncodeToString(sig)
	return aat
}

// makeRelay builds one relay proof; signed = the client really signs it.
func makeRelay(aat pc.AAT, client crypto.PrivateKey, servicer crypto.PublicKey, chain string, sessionH, entropy int64, signed bool) pc.RelayProof {
	rp := pc.RelayProof{Entropy: entropy, RequestHash: aat.HashString(), SessionBlockHeight: sessionH,
		ServicerPubKey: servicer.RawString(), Blockchain: chain, Token: aat, Signature: ""}
	if signed {
		sig, err := client.Sign(rp.Hash())
		if err != nil {
			panic(err)
		}
		rp.Signature = hex.EncodeToString(sig)
	} else {
		rp.Signature = hex.EncodeToString(make([]byte, 64)) // never checked unless revealed
	}
	return rp
}

// leafSum is the Merkle-sum weight of a leaf (what the tree sorts by).  It is read back
// from a one-leaf-plus-padding structure produced by the real code, so no hash function
// is duplicated here.
func leafSum(p pc.Proof) uint64 {
	mp, _ := pc.GenerateProofs(3, []pc.Proof{p, p}, 0)
	return mp.Target.Range.Upper
}

// clientKeyIdx is the key index used as the gateway client of every evidence set.
const clientKeyIdx = 11

type evBook struct {
	s     *chainsim.Sim
	sets  map[evKey]*evidence
	roots map[string]int // hex(root hash) -> evidence id (projection of claim roots)
}

func newEvBook(s *chainsim.Sim) *evBook {
	return &evBook{s: s, sets: map[evKey]*evidence{}, roots: map[string]int{}}
}

// get builds (or returns) the evidence set k.
func (b *evBook) get(k evKey) *evidence {
	if e, ok := b.sets[k]; ok {
		return e
	}
	s := b.s
	client := s.Keys[clientKeyIdx]
	aat := makeAAT(s.Keys[k.App], client)
	servicer := s.Keys[k.Node].PublicKey()
	base := int64(k.Ev)*100000 + 1
	var proofs []pc.Proof
	switch {
	case k.Dup:
		// N/2 relays, each twice: in tree order the pairs sit at (even, odd) positions; the even
		// leaf has a proper range and a zero-width sibling, the odd leaf a zero-width range
		for i := 0; i < k.N/2; i++ {
			rp := makeRelay(aat, client, servicer, k.Chain, k.SessionH, base+int64(i), true)
			proofs = append(proofs, rp, rp)
		}
	case k.Cheat >= 0:
		// one real relay; fabricate the others so that exactly k.Cheat of them sort before it
		real := makeRelay(aat, client, servicer, k.Chain, k.SessionH, base, true)
		rs := leafSum(real)
		proofs = append(proofs, real)
		below, above := 0, 0
		for e := base + 1; below < k.Cheat || above < k.N-1-k.Cheat; e++ {
			f := makeRelay(aat, client, servicer, k.Chain, k.SessionH, e, false)
			fs := leafSum(f)
			if fs < rs && below < k.Cheat {
				proofs = append(proofs, f)
				below++
			} else if fs > rs && above < k.N-1-k.Cheat {
				proofs = append(proofs, f)
				above++
			}
			if e > base+100000 {
				panic("cheat evidence: cannot place the real leaf")
			}
		}
	default:
		for i := 0; i < k.N; i++ {
			proofs = append(proofs, makeRelay(aat, client, servicer, k.Chain, k.SessionH, base+int64(i), true))
		}
	}
	cp := append([]pc.Proof{}, proofs...)
	root, sorted := pc.GenerateRoot(k.SessionH, cp)
	e := &evidence{Key: k, Proofs: sorted, Root: root}
	b.sets[k] = e
	b.roots[hex.EncodeToString(root.Hash)] = k.Ev
	return e
}

// foreignRelay is a really signed relay of the same session that is NOT in any tree.
func (b *evBook) foreignRelay(k evKey) pc.RelayProof {
	s := b.s
	client := s.Keys[clientKeyIdx]
	aat := makeAAT(s.Keys[k.App], client)
	return makeRelay(aat, client, s.Keys[k.Node].PublicKey(), k.Chain, k.SessionH, int64(k.Ev)*100000+77777, true)
}

func (e *evidence) claimMsg(s *chainsim.Sim, total int64) *pc.MsgClaim {
	return &pc.MsgClaim{
		SessionHeader: pc.SessionHeader{ApplicationPubKey: s.Keys[e.Key.App].PublicKey().RawString(), Chain: e.Key.Chain, SessionBlockHeight: e.Key.SessionH},
		MerkleRoot:    e.Root, TotalProofs: total, FromAddress: s.Addr(e.Key.Node), EvidenceType: pc.RelayEvidence}
}

// proofMsg builds the proof message for leaf `leafIdx` of the tree, declaring
// TargetIndex = tIndex; foreign = reveal a relay that is not in the tree.
func (e *evidence) proofMsg(b *evBook, leafIdx, tIndex int, foreign bool, dropLevels int) *pc.MsgProof {
	cp := append([]pc.Proof{}, e.Proofs...)
	mp, leaf := pc.GenerateProofs(e.Key.SessionH, cp, leafIdx)
	mp.TargetIndex = int64(tIndex)
	if foreign {
		leaf = b.foreignRelay(e.Key)
	}
	if dropLevels > 0 && dropLevels < len(mp.HashRanges) {
		mp.HashRanges = mp.HashRanges[:len(mp.HashRanges)-dropLevels]
	}
	if dropLevels < 0 { // one level too many
		mp.HashRanges = append(mp.HashRanges, mp.HashRanges[len(mp.HashRanges)-1])
	}
	return &pc.MsgProof{MerkleProof: mp, Leaf: leaf, EvidenceType: pc.RelayEvidence}
}

// ---------------------------------------------------------------------------
// The pseudorandom leaf index, computed OFF-CHAIN from a committed block hash exactly
// as the protocol document describes (doc/specs/reward_protocol.md, "Pseudorandom
// Selection of Proof Index"): hash(json{BlockHash, Header}) mod total.  Only exported
// library functions of the real code are used (pc.Hash, pc.PseudorandomSelection,
// SessionHeader.HashString).
// ---------------------------------------------------------------------------

type pseudorandomGenerator struct {
	BlockHash string
	Header    string
}

func indexFromHash(blockHash []byte, header pc.SessionHeader, total int64) int64 {
	r, err := json.Marshal(pseudorandomGenerator{hex.EncodeToString(blockHash), header.HashString()})
	if err != nil {
		panic(err)
	}
	return pc.PseudorandomSelection(sdk.NewInt(total), pc.Hash(r)).Int64()
}

// hashOfBlock returns the hash of committed block h as Tendermint's block store has it
// (nil when that block does not exist yet).
func hashOfBlock(s *chainsim.Sim, h int64) []byte {
	if m := s.BS.LoadBlockMeta(h); m != nil {
		return m.BlockID.Hash
	}
	return nil
}

// indexAt returns, for each existing block height in hs, the leaf index that block's
// hash selects.
func indexAt(s *chainsim.Sim, header pc.SessionHeader, total int64, hs []int64) map[string]int64 {
	out := map[string]int64{}
	for _, h := range hs {
		if bh := hashOfBlock(s, h); bh != nil {
			out[fmt.Sprintf("%d", h)] = indexFromHash(bh, header, total)
		}
	}
	return out
}

func sortedKeys(m map[string]int64) []string {
	ks := make([]string, 0, len(m))
	for k := range m {
		ks = append(ks, k)
	}
	sort.Strings(ks)
	return ks
}
