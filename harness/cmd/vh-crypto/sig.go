package main

// C39: behaviours of SigIdeal.tla replayed on real ed25519 / secp256k1 / multi-signature
// keys (replay-sig), and a seeded driver whose events are validated by TraceSig.tla
// (trace-sig).

import (
	"bytes"
	"encoding/hex"
	"encoding/json"
	"fmt"
	"math/big"
	"math/rand"
	"strings"
	"sync"

	secp "github.com/btcsuite/btcd/btcec"
	"github.com/pokt-network/pocket-core/crypto"
	sdk "github.com/pokt-network/pocket-core/types"
	authTypes "github.com/pokt-network/pocket-core/x/auth/types"

	"verifharness/internal/hx"
)

// ------------------------------------------------------------------ key ring
// ring maps the specification's key ids and message ids to real keys / byte strings.
type ring struct {
	variant string
	privs   map[int]crypto.PrivateKey
	msgs    map[int][]byte
	entries map[[3]int][]byte // <<signer, msg, site>> -> slot contents
	back    map[string][]int  // slot contents -> entry
}

const ringKeys, ringMsgs = 8, 4

// newRing precomputes every key, message and signature so that replay workers only read.
func newRing(variant string) *ring {
	r := &ring{variant: variant, privs: map[int]crypto.PrivateKey{}, msgs: map[int][]byte{},
		entries: map[[3]int][]byte{}, back: map[string][]int{}}
	for m := 0; m < ringMsgs; m++ {
		r.msgs[m] = seededBytes(hx.Rng(int64(9000+m)), []int{97, 2, 32, 1500}[m])
	}
	for k := 1; k <= ringKeys; k++ {
		r.privs[k] = seededKey(r.ktype(k), k)
		for m := 0; m < ringMsgs; m++ {
			sig, err := r.privs[k].Sign(r.msgs[m])
			if err != nil {
				hx.Fatal("sign: %v", err)
			}
			for site := 0; site <= 3; site++ {
				s := append([]byte{}, sig...)
				switch site {
				case 1:
					s[0] ^= 0x01
				case 2:
					s[len(s)/2] ^= 0x10
				case 3:
					s[len(s)-1] ^= 0x80
				}
				r.entries[[3]int{k, m, site}] = s
				r.back[string(s)] = []int{k, m, site}
			}
		}
	}
	return r
}

func (r *ring) ktype(k int) string {
	switch r.variant {
	case "ed":
		return "ed25519"
	case "secp":
		return "secp256k1"
	}
	if k%2 == 1 {
		return "ed25519"
	}
	return "secp256k1"
}

func (r *ring) priv(k int) crypto.PrivateKey {
	p, ok := r.privs[k]
	if !ok {
		hx.Fatal("key id %d outside the ring", k)
	}
	return p
}

func (r *ring) pub(k int) crypto.PublicKey { return r.priv(k).PublicKey() }

func (r *ring) msg(m int) []byte {
	b, ok := r.msgs[m]
	if !ok {
		hx.Fatal("message id %d outside the ring", m)
	}
	return b
}

// entryBytes: <<signer, msg, site>> -> the real slot contents.
func (r *ring) entryBytes(e []int) []byte {
	if len(e) != 3 {
		hx.Fatal("bad entry %v", e)
	}
	if e[0] == 0 {
		if e[2] == 1 {
			return []byte{0} // PAD
		}
		return []byte{} // EMPTY
	}
	s, ok := r.entries[[3]int{e[0], e[1], e[2]}]
	if !ok {
		hx.Fatal("entry %v outside the ring", e)
	}
	return append([]byte{}, s...)
}

// entryOf maps real slot contents back to the specification's vocabulary.
func (r *ring) entryOf(b []byte) []int {
	if len(b) == 0 {
		return []int{0, 0, 0}
	}
	if len(b) == 1 && b[0] == 0 {
		return []int{0, 0, 1}
	}
	if e, ok := r.back[string(b)]; ok {
		return e
	}
	return []int{-1, -1, -1}
}

func (r *ring) multiKey(ks []int) crypto.PublicKeyMultiSignature {
	pk := crypto.PublicKeyMultiSignature{}
	for _, k := range ks {
		pk.PublicKeys = append(pk.PublicKeys, r.pub(k))
	}
	return pk
}

// ------------------------------------------------------------------ replay
type sigWorld struct {
	r    *ring
	keys []int
	ms   crypto.MultiSig
	rng  *rand.Rand
}

// verifyBoth evaluates VerifyBytes on the constructed key and on the key decoded from its
// own encoding (the path transaction authentication takes: NewPublicKey(hex)).
func verifyBoth(pk crypto.PublicKey, msg, sig []byte) (res bool, err string) {
	err = catch(func() {
		a := pk.VerifyBytes(msg, sig)
		dec, e := crypto.NewPublicKey(pk.RawString())
		if e != nil {
			panic(fmt.Sprintf("NewPublicKey(RawString): %v", e))
		}
		b := dec.VerifyBytes(msg, sig)
		if a != b {
			panic(fmt.Sprintf("constructed key says %v, decoded key says %v", a, b))
		}
		res = a
	})
	return
}

// viewEq compares the specification's slot list with the projected real one.
func viewEq(spec interface{}, got [][]int) bool {
	l := toList(spec)
	if len(l) != len(got) {
		return false
	}
	for i, e := range l {
		ints := toInts(e)
		if len(ints) != 3 || ints[0] != got[i][0] || ints[1] != got[i][1] || ints[2] != got[i][2] {
			return false
		}
	}
	return true
}

func b2i(b bool) int {
	if b {
		return 1
	}
	return 0
}

func (w *sigWorld) view() [][]int {
	out := [][]int{}
	for _, s := range w.ms.Signatures() {
		out = append(out, w.r.entryOf(s))
	}
	return out
}

// step executes one history entry; returns what differed ("" = agreement), want, got and
// whether the disagreement is the known empty-multisig pattern.
func (w *sigWorld) step(s hx.Step) (what string, want, got interface{}, known bool) {
	switch s.Str("op") {
	case "NewKey":
		w.keys = toInts(s["keys"])
		w.ms = crypto.MultiSignature{}.NewMultiSignature()
	case "AddByIndex":
		e := toInts(s["e"])
		w.ms = w.ms.AddSignatureByIndex(w.r.entryBytes(e), s.Int("i"))
		if v := w.view(); !viewEq(s["view"], v) {
			return "view", s["view"], v, false
		}
	case "AddByKey":
		e := toInts(s["e"])
		pk := w.r.multiKey(w.keys)
		ms, err := w.ms.AddSignature(w.r.entryBytes(e), w.r.pub(s.Int("k")), pk.Keys())
		if err == nil {
			w.ms = ms
		}
		if b2i(err == nil) != s.Int("ret") {
			return "ret", s.Int("ret"), fmt.Sprint(err), false
		}
		if v := w.view(); !viewEq(s["view"], v) {
			return "view", s["view"], v, false
		}
	case "Verify":
		pk := w.r.multiKey(w.keys)
		res, e := verifyBoth(pk, w.r.msg(s.Int("m")), w.ms.Marshal())
		if e != "" {
			return "exec", s, e, false
		}
		if b2i(res) != s.Int("ideal") {
			if len(w.keys) == 0 && b2i(res) == s.Int("ret") {
				return "ideal", s.Int("ideal"), b2i(res), true
			}
			return "ideal", s.Int("ideal"), b2i(res), false
		}
	case "Codec":
		// the multi-signature survives its own encoding slot by slot
		dec := crypto.MultiSignature{}.Unmarshal(w.ms.Marshal())
		a, b := w.ms.Signatures(), dec.Signatures()
		if len(a) != len(b) {
			return "multisig-codec", len(a), len(b), false
		}
		for i := range a {
			if !bytes.Equal(a[i], b[i]) {
				return "multisig-codec", hex.EncodeToString(a[i]), hex.EncodeToString(b[i]), false
			}
		}
		if v := w.view(); !viewEq(s["view"], v) {
			return "view", s["view"], v, false
		}
		pk := w.r.multiKey(w.keys)
		dk, err := crypto.NewPublicKeyBz(pk.Bytes())
		if err != nil {
			return "key-codec", "decodable", err.Error(), false
		}
		if !samePub(pk, dk) {
			return "key-codec", pk.String(), dk.String(), false
		}
	case "VerifyOne":
		return w.verifyOne(s)
	case "StablePub":
		if e := w.stablePub(s.Str("kind"), s.Str("form")); e != "" {
			return "stable", 1, e, false
		}
	case "StablePriv":
		if e := w.stablePriv(s.Str("kt"), s.Str("form")); e != "" {
			return "stable", 1, e, false
		}
	default:
		return "exec", s, "unknown op", false
	}
	return "", nil, nil, false
}

var secpN = secp.S256().N

// verifyOne instantiates one abstract single-key case with several real keys / messages.
func (w *sigWorld) verifyOne(s hx.Step) (string, interface{}, interface{}, bool) {
	kt := s.Str("kt")
	for inst := 0; inst < 8; inst++ {
		sk := seededKey(kt, 100+inst)
		var signer crypto.PrivateKey
		switch s.Str("signer") {
		case "same":
			signer = sk
		case "other":
			signer = seededKey(kt, 200+inst)
		case "othertype":
			signer = seededKey(otherType(kt), 100+inst)
		}
		msg := seededBytes(w.rng, []int{2, 31, 32, 33, 200, 4096, 64, 1}[inst])
		sig, err := signer.Sign(msg)
		if err != nil {
			return "exec", s, err.Error(), false
		}
		var sig2 []byte
		if s.Str("ssite") == "highS" {
			// the other ECDSA signature of the same (r, message): s' = N - s
			sv := new(big.Int).SetBytes(sig[32:])
			sv.Sub(secpN, sv)
			sig2 = append(append([]byte{}, sig[:32]...), make([]byte, 32)...)
			sb := sv.Bytes()
			copy(sig2[64-len(sb):], sb)
		} else {
			sig2 = mutate(sig, s.Str("ssite"), w.rng, 7-inst) // every bit position over the 8 instances
		}
		msg2 := mutate(msg, s.Str("msite"), w.rng, inst)
		res, e := verifyBoth(sk.PublicKey(), msg2, sig2)
		if e != "" {
			return "exec", s, e, false
		}
		if b2i(res) != s.Int("ret") {
			return "ret", s.Int("ret"), map[string]interface{}{"got": b2i(res), "pub": sk.PublicKey().RawString(),
				"msg": hex.EncodeToString(msg2), "sig": hex.EncodeToString(sig2)}, false
		}
		// the tendermint twin of the key gives the same answer
		if tm := sk.PublicKey().PubKey(); tm.VerifyBytes(msg2, sig2) != res {
			return "ret", s.Int("ret"), "tendermint PubKey() disagrees with PublicKey", false
		}
	}
	return "", nil, nil, false
}

func kindKey(kind string, salt int) crypto.PublicKey {
	ed := func(i int) crypto.PublicKey { return seededKey("ed25519", salt*10+i).PublicKey() }
	sp := func(i int) crypto.PublicKey { return seededKey("secp256k1", salt*10+i).PublicKey() }
	switch kind {
	case "ed25519":
		return ed(0)
	case "secp256k1":
		return sp(0)
	case "multi0":
		return crypto.PublicKeyMultiSignature{}
	case "multi1":
		return crypto.PublicKeyMultiSignature{PublicKeys: []crypto.PublicKey{ed(1)}}
	case "multi2":
		return crypto.PublicKeyMultiSignature{PublicKeys: []crypto.PublicKey{ed(1), sp(2)}}
	case "multi3":
		return crypto.PublicKeyMultiSignature{PublicKeys: []crypto.PublicKey{sp(1), sp(2), ed(3)}}
	case "multi4":
		return crypto.PublicKeyMultiSignature{PublicKeys: []crypto.PublicKey{ed(1), ed(2), ed(1), sp(4)}}
	case "nested":
		return crypto.PublicKeyMultiSignature{PublicKeys: []crypto.PublicKey{ed(1),
			crypto.PublicKeyMultiSignature{PublicKeys: []crypto.PublicKey{sp(2), ed(3)}}, sp(4)}}
	}
	hx.Fatal("unknown key kind %q", kind)
	return nil
}

// stablePub: encode -> decode -> the same key, the same address, the same encoding again.
func (w *sigWorld) stablePub(kind, form string) (fail string) {
	for salt := 1; salt <= 3; salt++ {
		pk := kindKey(kind, salt)
		var dec crypto.PublicKey
		var err error
		e := catch(func() {
			switch form {
			case "raw":
				dec, err = crypto.NewPublicKeyBz(pk.RawBytes())
			case "rawhex":
				dec, err = crypto.NewPublicKey(pk.RawString())
			case "amino":
				dec, err = crypto.PubKeyFromBytes(pk.Bytes())
			case "aminohex":
				var bz []byte
				bz, err = hex.DecodeString(pk.String())
				if err == nil {
					dec, err = crypto.PubKeyFromBytes(bz)
				}
			case "aminojson":
				var bz []byte
				bz, err = authTypes.ModuleCdc.MarshalJSON(&pk)
				if err == nil {
					err = authTypes.ModuleCdc.UnmarshalJSON(bz, &dec)
				}
			case "json":
				var bz []byte
				bz, err = json.Marshal(pk)
				if err == nil {
					switch pk.(type) {
					case crypto.Ed25519PublicKey:
						var k crypto.Ed25519PublicKey
						err = json.Unmarshal(bz, &k)
						dec = k
					case crypto.Secp256k1PublicKey:
						var k crypto.Secp256k1PublicKey
						err = json.Unmarshal(bz, &k)
						dec = k
					}
				}
			case "tm":
				dec, err = crypto.PubKeyToPublicKey(pk.PubKey())
				if err == nil && !bytes.Equal(pk.PubKey().Address(), pk.Address()) {
					err = fmt.Errorf("tendermint key address differs")
				}
				if err == nil && pk.PubKeyToPublicKey(pk.PubKey()) != dec {
					err = fmt.Errorf("method PubKeyToPublicKey differs from function")
				}
			case "addrhex":
				var a sdk.Address
				a, err = sdk.AddressFromHex(sdk.Address(pk.Address()).String())
				if err == nil && !bytes.Equal(a, pk.Address()) {
					err = fmt.Errorf("address %x became %x", pk.Address(), a)
				}
				dec = pk
			case "stdsig":
				ss := authTypes.StdSignature{PublicKey: pk, Signature: []byte{1, 2, 3}}
				var bz []byte
				bz, err = ss.Marshal()
				if err == nil {
					var out authTypes.StdSignature
					err = out.Unmarshal(bz)
					dec = out.PublicKey
					if err == nil && !bytes.Equal(out.Signature, ss.Signature) {
						err = fmt.Errorf("signature bytes changed")
					}
				}
			default:
				err = fmt.Errorf("unknown form %s", form)
			}
		})
		if e != "" {
			return fmt.Sprintf("%s/%s: %s", kind, form, e)
		}
		if err != nil {
			return fmt.Sprintf("%s/%s: %v", kind, form, err)
		}
		if !samePub(pk, dec) {
			return fmt.Sprintf("%s/%s: %s decoded as %v", kind, form, pk.String(), dec)
		}
		if len(pk.Address()) != 20 {
			return fmt.Sprintf("%s: address length %d", kind, len(pk.Address()))
		}
		// Equals agrees (guarded: Equals type-asserts its argument)
		var eq bool
		if e := catch(func() { eq = pk.Equals(dec) }); e != "" || !eq {
			return fmt.Sprintf("%s/%s: Equals(decoded) = %v %s", kind, form, eq, e)
		}
	}
	return ""
}

func (w *sigWorld) stablePriv(kt, form string) string {
	for salt := 1; salt <= 3; salt++ {
		sk := seededKey(kt, 300+salt)
		var dec crypto.PrivateKey
		var err error
		e := catch(func() {
			switch form {
			case "raw":
				dec, err = crypto.NewPrivateKeyBz(sk.RawBytes())
			case "rawhex":
				dec, err = crypto.NewPrivateKey(sk.RawString())
			case "amino":
				dec, err = crypto.PrivKeyFromBytes(sk.Bytes())
			case "tm":
				dec, err = crypto.PrivKeyToPrivateKey(sk.PrivKey())
			case "pub":
				dec = sk
				a, e2 := crypto.PubKeyToPublicKey(sk.PubKey())
				if e2 != nil || !samePub(a, sk.PublicKey()) {
					err = fmt.Errorf("PubKey()/PublicKey() differ: %v", e2)
				}
			}
		})
		if e != "" {
			return fmt.Sprintf("%s/%s: %s", kt, form, e)
		}
		if err != nil {
			return fmt.Sprintf("%s/%s: %v", kt, form, err)
		}
		if dec == nil || !bytes.Equal(dec.RawBytes(), sk.RawBytes()) || !bytes.Equal(dec.Bytes(), sk.Bytes()) ||
			!samePub(dec.PublicKey(), sk.PublicKey()) || fmt.Sprintf("%T", dec) != fmt.Sprintf("%T", sk) {
			return fmt.Sprintf("%s/%s: key changed", kt, form)
		}
		msg := seededBytes(w.rng, 40)
		sig, _ := dec.Sign(msg)
		if !sk.PublicKey().VerifyBytes(msg, sig) {
			return fmt.Sprintf("%s/%s: decoded key's signature does not verify", kt, form)
		}
	}
	return ""
}

func replaySig(in, variants string, knownEmpty bool) {
	silenceStdout()
	rep := hx.NewReport("crypto", "replay-sig")
	vs := strings.Split(variants, ",")
	rings := map[string]*ring{}
	for _, v := range vs {
		rings[v] = newRing(v)
	}
	var mu sync.Mutex
	knownHits := 0
	var knownSample interface{}
	err := hx.ParallelBehaviours(in, hx.Workers(), rep, func(idx int, beh []hx.Step, fresh bool, rep *hx.Report) {
		last := beh[len(beh)-1]
		op := last.Str("op")
		if fresh && (op == "Verify" || op == "VerifyOne" || op == "StablePub" || op == "StablePriv") {
			rep.Nontrivial++
		}
		if idx%20011 == 7 {
			rep.AddSample(beh)
		}
		single := op == "VerifyOne" || op == "StablePub" || op == "StablePriv"
		for vi, variant := range vs {
			if single && vi > 0 {
				break // single-key cases carry their own key types
			}
			if variant == "mixed" {
				// getIndex panics on keys of different types (Equals type-asserts); AddSignature
				// is therefore only exercised with homogeneous member keys
				skip := false
				for _, s := range beh {
					if s.Str("op") == "AddByKey" {
						skip = true
					}
				}
				if skip {
					continue
				}
			}
			w := &sigWorld{r: rings[variant], rng: rand.New(rand.NewSource(hx.Seed()*7919 + int64(idx)))}
			for si, s := range beh {
				rep.Steps++
				rep.OpCounts[s.Str("op")]++
				var what string
				var want, got interface{}
				var known bool
				if e := catch(func() { what, want, got, known = w.step(s) }); e != "" {
					what, want, got = "exec", s, e
				}
				if what == "" {
					continue
				}
				if known && knownEmpty {
					mu.Lock()
					knownHits++
					if knownSample == nil {
						knownSample = beh
					}
					mu.Unlock()
					continue
				}
				rep.AddMismatch(hx.Mismatch{Behaviour: idx, Step: si, Op: s.Str("op"), What: what, Want: want, Got: got, History: beh, Variant: variant})
				break
			}
		}
	})
	if err != nil {
		hx.Fatal("%v", err)
	}
	rep.Extra["variants"] = vs
	rep.Extra["known_empty_multisig_hits"] = knownHits
	if knownSample != nil {
		rep.Extra["known_sample"] = knownSample
	}
	printReport(rep)
}

// ------------------------------------------------------------------ trace driver
type keyTree struct {
	multi bool
	id    int
	ks    []*keyTree
}

func (k *keyTree) pub(r *ring) crypto.PublicKey {
	if !k.multi {
		return r.pub(k.id)
	}
	pk := crypto.PublicKeyMultiSignature{}
	for _, m := range k.ks {
		pk.PublicKeys = append(pk.PublicKeys, m.pub(r))
	}
	return pk
}

func (k *keyTree) json() map[string]interface{} {
	if !k.multi {
		return map[string]interface{}{"t": "s", "id": k.id}
	}
	ks := []interface{}{}
	for _, m := range k.ks {
		ks = append(ks, m.json())
	}
	return map[string]interface{}{"t": "m", "ks": ks}
}

func (k *keyTree) hasEmptyMulti() bool {
	if !k.multi {
		return false
	}
	if len(k.ks) == 0 {
		return true
	}
	for _, m := range k.ks {
		if m.hasEmptyMulti() {
			return true
		}
	}
	return false
}

type sigTree struct {
	t          string // s, m, e, p, g
	k, m, site int
	sigs       []*sigTree
}

func (s *sigTree) bytes(r *ring) []byte {
	switch s.t {
	case "s":
		return r.entryBytes([]int{s.k, s.m, s.site})
	case "e":
		return []byte{}
	case "p":
		return []byte{0}
	case "g":
		return []byte{0xde, 0xad, 0xbe, 0xef, 0x01, 0x02, 0x03}
	}
	ms := crypto.MultiSignature{Sigs: [][]byte{}}
	for _, c := range s.sigs {
		ms.Sigs = append(ms.Sigs, c.bytes(r))
	}
	return ms.Marshal()
}

func (s *sigTree) json() map[string]interface{} {
	switch s.t {
	case "s":
		return map[string]interface{}{"t": "s", "k": s.k, "m": s.m, "site": s.site}
	case "m":
		l := []interface{}{}
		for _, c := range s.sigs {
			l = append(l, c.json())
		}
		return map[string]interface{}{"t": "m", "sigs": l}
	}
	return map[string]interface{}{"t": s.t}
}

func genKeyTree(rng *rand.Rand, depth, nk int) *keyTree {
	if depth == 0 || rng.Intn(3) == 0 {
		return &keyTree{id: 1 + rng.Intn(nk)}
	}
	n := []int{0, 1, 1, 2, 2, 2, 2, 3, 3, 3, 3, 4, 4, 5, 5, 6, 7, 2, 3, 4}[rng.Intn(20)]
	k := &keyTree{multi: true}
	for i := 0; i < n; i++ {
		k.ks = append(k.ks, genKeyTree(rng, depth-1, nk))
	}
	return k
}

func honestSig(k *keyTree, m int) *sigTree {
	if !k.multi {
		return &sigTree{t: "s", k: k.id, m: m}
	}
	s := &sigTree{t: "m"}
	for _, c := range k.ks {
		s.sigs = append(s.sigs, honestSig(c, m))
	}
	return s
}

func allNodes(s *sigTree, acc *[]*sigTree) {
	*acc = append(*acc, s)
	for _, c := range s.sigs {
		allNodes(c, acc)
	}
}

// perturb alters the signature tree somewhere; it has no idea whether the result verifies.
func perturb(s *sigTree, rng *rand.Rand, nk, nm int) {
	var nodes []*sigTree
	allNodes(s, &nodes)
	n := nodes[rng.Intn(len(nodes))]
	switch rng.Intn(11) {
	case 0: // other signer
		if n.t == "s" {
			n.k = 1 + rng.Intn(nk+1)
		}
	case 1: // other message
		if n.t == "s" {
			n.m = rng.Intn(nm)
		}
	case 2: // corrupted byte
		if n.t == "s" {
			n.site = 1 + rng.Intn(3)
		}
	case 3:
		*n = sigTree{t: []string{"e", "p", "g"}[rng.Intn(3)]}
	case 4: // swap two slots
		if n.t == "m" && len(n.sigs) >= 2 {
			i, j := rng.Intn(len(n.sigs)), rng.Intn(len(n.sigs))
			n.sigs[i], n.sigs[j] = n.sigs[j], n.sigs[i]
		}
	case 5: // drop a slot
		if n.t == "m" && len(n.sigs) >= 1 {
			i := rng.Intn(len(n.sigs))
			n.sigs = append(n.sigs[:i:i], n.sigs[i+1:]...)
		}
	case 6: // duplicate a slot over another
		if n.t == "m" && len(n.sigs) >= 2 {
			i, j := rng.Intn(len(n.sigs)), rng.Intn(len(n.sigs))
			c := *n.sigs[j]
			n.sigs[i] = &c
		}
	case 7: // surplus slot
		if n.t == "m" {
			n.sigs = append(n.sigs, &sigTree{t: "s", k: 1 + rng.Intn(nk), m: rng.Intn(nm)})
		}
	case 8: // a single signature where a multi-signature is expected, and vice versa
		if n.t == "m" {
			*n = sigTree{t: "s", k: 1 + rng.Intn(nk), m: rng.Intn(nm)}
		} else {
			c := *n
			*n = sigTree{t: "m", sigs: []*sigTree{&c}}
		}
	case 9: // drop every slot
		if n.t == "m" {
			n.sigs = nil
		}
	case 10: // rotate
		if n.t == "m" && len(n.sigs) >= 2 {
			n.sigs = append(n.sigs[1:], n.sigs[0])
		}
	}
}

func traceSig(out string, n int) {
	silenceStdout()
	tw, err := hx.NewTraceWriter(out)
	if err != nil {
		hx.Fatal("%v", err)
	}
	rep := hx.NewReport("crypto", "trace-sig")
	const nk, nm = 6, 4
	knownHits := 0
	var knownSample interface{}
	variants := []string{"ed", "secp", "mixed"}
	rings := map[string]*ring{}
	for _, v := range variants {
		rings[v] = newRing(v)
	}
	for t := 0; t < n; t++ {
		rng := hx.Rng(int64(t) + 424242)
		variant := variants[t%3]
		r := rings[variant]
		tw.Emit(map[string]interface{}{"op": "reset", "variant": variant})
		// (a) verification of perturbed signature trees
		for c := 0; c < 12; c++ {
			k := genKeyTree(rng, 2, nk)
			m := rng.Intn(nm)
			s := honestSig(k, m)
			for p := rng.Intn(3); p > 0; p-- {
				perturb(s, rng, nk, nm)
			}
			vm := m
			if rng.Intn(4) == 0 {
				vm = rng.Intn(nm)
			}
			ev := map[string]interface{}{"op": "Verify", "key": k.json(), "m": vm, "sig": s.json()}
			res, e := verifyBoth(k.pub(r), r.msg(vm), s.bytes(r))
			if e != "" {
				ev["fail"] = e
			} else {
				ev["ret"] = b2i(res)
				if res && k.hasEmptyMulti() {
					knownHits++
					if knownSample == nil {
						knownSample = ev
					}
				}
			}
			tw.Emit(ev)
			rep.Steps++
			rep.OpCounts["Verify"]++
		}
		// (b) the multi-signature builder
		ms := crypto.MultiSignature{}.NewMultiSignature()
		view := func() [][]int {
			o := [][]int{}
			for _, s := range ms.Signatures() {
				o = append(o, r.entryOf(s))
			}
			return o
		}
		for c := 0; c < 8; c++ {
			e := []int{1 + rng.Intn(nk), rng.Intn(nm), 0}
			if rng.Intn(6) == 0 {
				e = []int{0, 0, 0}
			}
			before := view()
			i := rng.Intn(len(before) + 4)
			ev := map[string]interface{}{"op": "AddByIndex", "before": before, "i": i, "e": e}
			if f := catch(func() { ms = ms.AddSignatureByIndex(r.entryBytes(e), i) }); f != "" {
				ev["fail"] = f
			} else {
				ev["after"] = view()
			}
			tw.Emit(ev)
			rep.Steps++
			rep.OpCounts["AddByIndex"]++
		}
		rep.Behaviours++
	}
	if err := tw.Close(); err != nil {
		hx.Fatal("%v", err)
	}
	rep.Extra["events"] = tw.N
	rep.Extra["known_empty_multisig_hits"] = knownHits
	if knownSample != nil {
		rep.Extra["known_sample"] = knownSample
	}
	printReport(rep)
}

// ------------------------------------------------------------------ F-C39
// emptyMultisig re-checks the suspected defect of DESIGN.md section 7 concretely: the
// encoding of a multi-signature key without member keys is accepted by every decoder on
// the transaction-authentication path and then verifies a fixed 4-byte "signature" for
// every message.
func emptyMultisig() {
	silenceStdout()
	rep := hx.NewReport("crypto", "empty-multisig")
	keyBz := crypto.PublicKeyMultiSignature{}.Bytes()
	sigBz := crypto.MultiSignature{}.Marshal()
	res := map[string]interface{}{"key_bytes": hex.EncodeToString(keyBz), "sig_bytes": hex.EncodeToString(sigBz)}
	reproduced := false
	e := catch(func() {
		pk, err := crypto.NewPublicKey(hex.EncodeToString(keyBz)) // what ante.ValidateTransaction calls
		res["NewPublicKey_err"] = fmt.Sprint(err)
		if err != nil {
			return
		}
		res["address"] = hex.EncodeToString(pk.Address())
		_, isMulti := pk.(crypto.PublicKeyMultiSig)
		res["is_multisig"] = isMulti
		// a complete transaction: decode as the node does, then the ante handler's own steps
		from := sdk.Address(pk.Address())
		to := sdk.Address(seededKey("ed25519", 1).PublicKey().Address())
		okAll := true
		for i, amount := range []int64{1, 1000000} {
			txBz, err := buildSendTx(from, to, amount, pk, sigBz, int64(i+7))
			if err != nil {
				res["tx_err"] = err.Error()
				return
			}
			tx, derr := authTypes.DefaultTxDecoder(fullCodec())(txBz, -1)
			if derr != nil {
				res["decode_err"] = derr.Error()
				return
			}
			stdTx := tx.(authTypes.StdTx)
			if verr := stdTx.ValidateBasic(); verr != nil {
				res["validate_basic"] = verr.Error()
				return
			}
			pk2, err := crypto.NewPublicKey(stdTx.GetSignature().GetPublicKey())
			if err != nil {
				res["tx_pubkey_err"] = err.Error()
				return
			}
			signBytes, _ := authTypes.StdSignBytes("chain-x", stdTx.GetEntropy(), stdTx.GetFee(), stdTx.GetMsg(), stdTx.GetMemo())
			signerOK := bytes.Equal(pk2.Address(), stdTx.GetSigners()[0])
			ver := pk2.VerifyBytes(signBytes, stdTx.GetSignature().GetSignature())
			res[fmt.Sprintf("tx%d", i)] = map[string]interface{}{"signer_matches": signerOK, "verifies": ver}
			okAll = okAll && signerOK && ver
		}
		reproduced = okAll
	})
	if e != "" {
		res["panic"] = e
	}
	res["reproduced"] = reproduced
	rep.Extra = res
	rep.Behaviours = 1
	printReport(rep)
}
