package main

// C40: behaviours of Keybase.tla replayed on the real keybase (keys.NewInMemory, the lazy
// on-disk keybase) and the mintkey armor layer (replay-keybase); a seeded driver whose
// events are validated by TraceKeybase.tla (trace-keybase).

import (
	"bytes"
	"encoding/base64"
	"encoding/hex"
	"encoding/json"
	"fmt"
	"math/rand"
	"os"
	"sort"
	"strings"

	"github.com/pokt-network/pocket-core/crypto"
	"github.com/pokt-network/pocket-core/crypto/keys"
	"github.com/pokt-network/pocket-core/crypto/keys/mintkey"
	sdk "github.com/pokt-network/pocket-core/types"

	"verifharness/internal/hx"
)

// passphrases by id: empty, unicode (multi-byte, combining, emoji, trailing blank), ascii,
// one with quotes / newline / NUL, a long one
var passphrases = []string{
	"",
	"pässwörd-密码-🔑 é ",
	"correct horse battery staple",
	"quo\"te\\ \n\x00tab\t",
	strings.Repeat("long-passphrase-", 64),
}

// second table: five DIFFERENT passphrases that agree on their first 84 bytes (a long sentence and
// variations of its tail): whatever protects a key must depend on the whole passphrase
const passPrefix = "correct horse battery staple orbit lantern velvet canyon marble thunder quiet river "

var passphrasesSharedPrefix = []string{
	passPrefix,
	passPrefix + "x",
	passPrefix + "y",
	passPrefix + "x ",
	passPrefix + strings.Repeat("z", 200),
}

func (w *kbWorld) pass(id int) string {
	t := passphrases
	if w.salt%2 == 1 {
		t = passphrasesSharedPrefix
	}
	if id < 0 || id >= len(t) {
		hx.Fatal("passphrase id %d unknown", id)
	}
	return t[id]
}

type slot struct {
	raw  *[64]byte // known for imported keys only
	pub  crypto.PublicKey
	addr sdk.Address
}

type kbWorld struct {
	variant string
	kb      keys.Keybase
	dir     string
	slots   map[int]*slot
	armors  []string
	rng     *rand.Rand
	salt    int
}

func newKbWorld(variant string, rng *rand.Rand, salt int) *kbWorld {
	w := &kbWorld{variant: variant, slots: map[int]*slot{}, rng: rng, salt: salt}
	switch variant {
	case "mem":
		w.kb = keys.NewInMemory()
	case "lazy":
		d, err := os.MkdirTemp("", "vh-kb-")
		if err != nil {
			hx.Fatal("%v", err)
		}
		w.dir = d
		w.kb = keys.New("keybase", d)
	default:
		hx.Fatal("unknown keybase variant %q", variant)
	}
	return w
}

func (w *kbWorld) close() {
	if w.dir != "" {
		os.RemoveAll(w.dir)
	}
}

// importable returns the seeded key material of slot k (binding the slot on first use).
func (w *kbWorld) importable(k int) *slot {
	if s, ok := w.slots[k]; ok && s.raw != nil {
		return s
	}
	sk := seededKey("ed25519", 5000+w.salt*100+k).(crypto.Ed25519PrivateKey)
	raw := [64]byte(sk)
	s := &slot{raw: &raw, pub: sk.PublicKey(), addr: sdk.Address(sk.PublicKey().Address())}
	w.slots[k] = s
	return s
}

// addrOf: the address of slot k; a slot never bound (a Create slot not yet used) maps to an
// address that is in no keybase.
func (w *kbWorld) addrOf(k int) sdk.Address {
	if s, ok := w.slots[k]; ok {
		return s.addr
	}
	return sdk.Address(seededKey("ed25519", 900000+k).PublicKey().Address())
}

// identify maps a private key handed out by the code to a slot id (-1 = a key nobody stored).
func (w *kbWorld) identify(priv crypto.PrivateKey) int {
	if priv == nil {
		return -1
	}
	for id, s := range w.slots {
		if s.raw != nil {
			if bytes.Equal(priv.RawBytes(), s.raw[:]) {
				return id
			}
		} else if bytes.Equal(priv.PublicKey().RawBytes(), s.pub.RawBytes()) {
			// a created key: the private key must also really belong to the public key
			msg := []byte("identify")
			sig, err := priv.Sign(msg)
			if err == nil && s.pub.VerifyBytes(msg, sig) {
				return id
			}
		}
	}
	return -1
}

func (w *kbWorld) list() (ids []int, fail string) {
	kps, err := w.kb.List()
	if err != nil {
		return nil, "List: " + err.Error()
	}
	ids = []int{}
	var prev string
	for i, kp := range kps {
		a := kp.GetAddress().String()
		if i > 0 && !(prev < a) {
			return nil, fmt.Sprintf("List not in ascending address order: %s after %s", a, prev)
		}
		prev = a
		id := -1
		for sid, s := range w.slots {
			if bytes.Equal(s.addr, kp.GetAddress()) {
				id = sid
				if !bytes.Equal(kp.PublicKey.RawBytes(), s.pub.RawBytes()) {
					return nil, "List: public key of " + a + " differs from the stored key's"
				}
			}
		}
		ids = append(ids, id)
	}
	sort.Ints(ids)
	return ids, ""
}

// mutateArmor alters the armor text at the site named by the specification.
func mutateArmor(armor, site string) string {
	if site == "none" {
		return armor
	}
	if site == "json" {
		return armor[:len(armor)-1]
	}
	var a mintkey.ArmoredJson
	if err := json.Unmarshal([]byte(armor), &a); err != nil {
		hx.Fatal("armor is not JSON: %v", err)
	}
	flipHex := func(h string, i int) string {
		b, err := hex.DecodeString(h)
		if err != nil || len(b) == 0 {
			hx.Fatal("salt not hex: %q", h)
		}
		b[i%len(b)] ^= 0x04
		return strings.ToUpper(hex.EncodeToString(b))
	}
	ct := func(f func([]byte) []byte) string {
		b, err := base64.StdEncoding.DecodeString(a.Ciphertext)
		if err != nil || len(b) < 20 {
			hx.Fatal("ciphertext not base64")
		}
		return base64.StdEncoding.EncodeToString(f(b))
	}
	switch site {
	case "hint":
		a.Hint += "x"
	case "secparam":
		a.SecParam = "13"
	case "kdf":
		a.Kdf = "bcrypt"
	case "salt":
		a.Salt = flipHex(a.Salt, 5)
	case "saltempty":
		a.Salt = ""
	case "saltbad":
		a.Salt = "ZZ" + a.Salt[2:]
	case "ctfirst":
		a.Ciphertext = ct(func(b []byte) []byte { b[0] ^= 0x01; return b })
	case "ctmiddle":
		a.Ciphertext = ct(func(b []byte) []byte { b[len(b)/2] ^= 0x20; return b })
	case "ctlast":
		a.Ciphertext = ct(func(b []byte) []byte { b[len(b)-1] ^= 0x80; return b })
	case "cttrunc":
		a.Ciphertext = ct(func(b []byte) []byte { return b[:len(b)-1] })
	case "ctbad":
		a.Ciphertext = "!" + a.Ciphertext[1:]
	default:
		hx.Fatal("unknown armor site %q", site)
	}
	out, _ := json.Marshal(a)
	return string(out)
}

// exec performs one operation on the real keybase and projects the result into the
// specification's vocabulary (ret: list of ints).  `list` is filled for mutators.
func (w *kbWorld) exec(s hx.Step) (ret []int, list []int, fail string) {
	k := s.Int("k")
	mut := false
	switch s.Str("op") {
	case "Create":
		kp, err := w.kb.Create(w.pass(s.Int("p")))
		if err == nil {
			if _, dup := w.slots[k]; dup {
				return nil, nil, "Create into a bound slot (driver error)"
			}
			w.slots[k] = &slot{pub: kp.PublicKey, addr: kp.GetAddress()}
			if !bytes.Equal(kp.PublicKey.Address(), kp.GetAddress()) {
				return nil, nil, "Create: address is not the public key's address"
			}
		}
		ret, mut = []int{b2i(err == nil)}, true
	case "ImportObj":
		sl := w.importable(k)
		kp, err := w.kb.ImportPrivateKeyObject(*sl.raw, w.pass(s.Int("p")))
		if err == nil && !bytes.Equal(kp.GetAddress(), sl.addr) {
			return nil, nil, "ImportPrivateKeyObject returned another address"
		}
		ret, mut = []int{b2i(err == nil)}, true
	case "Export":
		armor, err := w.kb.ExportPrivKeyEncryptedArmor(w.addrOf(k), w.pass(s.Int("dp")), w.pass(s.Int("ep")), fmt.Sprintf("hint-%d", len(w.armors)))
		if err == nil {
			w.armors = append(w.armors, armor)
		}
		ret = []int{b2i(err == nil)}
	case "ImportArmor":
		a := s.Int("a")
		if a < 1 || a > len(w.armors) {
			return nil, nil, fmt.Sprintf("armor %d does not exist (driver error)", a)
		}
		kp, err := w.kb.ImportPrivKey(w.armors[a-1], w.pass(s.Int("dp")), w.pass(s.Int("ep")))
		if err == nil {
			found := false
			for _, sl := range w.slots {
				if bytes.Equal(sl.addr, kp.GetAddress()) {
					found = true
				}
			}
			if !found {
				return nil, nil, "ImportPrivKey stored a key nobody exported"
			}
		}
		ret, mut = []int{b2i(err == nil)}, true
	case "Delete":
		err := w.kb.Delete(w.addrOf(k), w.pass(s.Int("p")))
		ret, mut = []int{b2i(err == nil)}, true
	case "UnsafeDelete":
		err := w.kb.UnsafeDelete(w.addrOf(k))
		ret, mut = []int{b2i(err == nil)}, true
	case "Update":
		err := w.kb.Update(w.addrOf(k), w.pass(s.Int("o")), w.pass(s.Int("n")))
		ret, mut = []int{b2i(err == nil)}, true
	case "Get":
		kp, err := w.kb.Get(w.addrOf(k))
		if err == nil {
			sl := w.slots[k]
			if sl == nil || !bytes.Equal(kp.PublicKey.RawBytes(), sl.pub.RawBytes()) || !bytes.Equal(kp.GetAddress(), sl.addr) {
				return nil, nil, "Get returned another key"
			}
		}
		ret = []int{b2i(err == nil)}
	case "List":
		ids, f := w.list()
		if f != "" {
			return nil, nil, f
		}
		ret = ids
	case "Sign":
		msg := seededBytes(w.rng, 1+w.rng.Intn(200))
		sig, pub, err := w.kb.Sign(w.addrOf(k), w.pass(s.Int("p")), msg)
		if err != nil {
			ret = []int{0}
			break
		}
		other := append(append([]byte{}, msg...), 1)
		sl := w.slots[k]
		if sl == nil || !bytes.Equal(pub.RawBytes(), sl.pub.RawBytes()) || !sl.pub.VerifyBytes(msg, sig) || sl.pub.VerifyBytes(other, sig) {
			ret = []int{2} // a signature, but not this key's signature of this message
		} else {
			ret = []int{1}
		}
	case "ExportObj":
		priv, err := w.kb.ExportPrivateKeyObject(w.addrOf(k), w.pass(s.Int("p")))
		if err != nil {
			ret = []int{0}
		} else {
			ret = []int{w.identify(priv)}
		}
	case "Decrypt":
		a := s.Int("a")
		if a < 1 || a > len(w.armors) {
			return nil, nil, fmt.Sprintf("armor %d does not exist (driver error)", a)
		}
		priv, err := mintkey.UnarmorDecryptPrivKey(mutateArmor(w.armors[a-1], s.Str("site")), w.pass(s.Int("p")))
		if err != nil {
			ret = []int{0}
		} else {
			ret = []int{w.identify(priv)}
		}
	default:
		return nil, nil, "unknown op " + s.Str("op")
	}
	if mut {
		ids, f := w.list()
		if f != "" {
			return nil, nil, f
		}
		list = ids
	}
	return ret, list, ""
}

func intsEq(spec interface{}, got []int) bool {
	var want []int
	switch v := spec.(type) {
	case float64:
		want = []int{int(v)}
	case int:
		want = []int{v}
	default:
		want = toInts(spec)
	}
	if len(want) != len(got) {
		return false
	}
	for i := range want {
		if want[i] != got[i] {
			return false
		}
	}
	return true
}

// probeStore checks the whole abstract state after a history: every stored key is handed out
// for exactly the passphrase the specification says protects it (one scrypt per pair).
func (w *kbWorld) probeStore(st []int, npass int) (what string, want, got interface{}) {
	for i, p := range st {
		k := i + 1
		for q := 0; q < npass; q++ {
			exp := 0
			if p == q {
				exp = k
			}
			priv, err := w.kb.ExportPrivateKeyObject(w.addrOf(k), w.pass(q))
			g := 0
			if err == nil {
				g = w.identify(priv)
			}
			if g != exp {
				return fmt.Sprintf("final-state probe: key %d with passphrase %d", k, q), exp, g
			}
		}
	}
	return "", nil, nil
}

func replayKeybase(in, variants string, sample, offset, npass int) {
	silenceStdout()
	rep := hx.NewReport("crypto", "replay-keybase")
	vs := strings.Split(variants, ",")
	skipped := 0
	err := hx.ParallelBehaviours(in, hx.Workers(), rep, func(idx int, beh []hx.Step, fresh bool, rep *hx.Report) {
		if sample > 1 && idx%sample != offset%sample {
			rep.Behaviours-- // not replayed in this tier
			skipped++
			return
		}
		last := beh[len(beh)-1].Str("op")
		if fresh && len(beh) > 1 && last != "Get" && last != "List" {
			rep.Nontrivial++
		}
		if idx%97 == 3 {
			rep.AddSample(beh)
		}
		variant := vs[idx%len(vs)]
		w := newKbWorld(variant, rand.New(rand.NewSource(hx.Seed()*7919+int64(idx))), idx%50)
		defer w.close()
		var lastSt []int
		for si, s := range beh {
			rep.Steps++
			rep.OpCounts[s.Str("op")]++
			if s.Has("st") {
				lastSt = toInts(s["st"])
			}
			var ret, list []int
			var fail string
			if e := catch(func() { ret, list, fail = w.exec(s) }); e != "" {
				fail = e
			}
			if fail != "" {
				rep.AddMismatch(hx.Mismatch{Behaviour: idx, Step: si, Op: s.Str("op"), What: "exec", Want: s, Got: fail, History: beh, Variant: variant})
				return
			}
			if !intsEq(s["ret"], ret) {
				rep.AddMismatch(hx.Mismatch{Behaviour: idx, Step: si, Op: s.Str("op"), What: "ret", Want: s["ret"], Got: ret, History: beh, Variant: variant})
				return
			}
			if s.Has("list") && !intsEq(s["list"], list) {
				rep.AddMismatch(hx.Mismatch{Behaviour: idx, Step: si, Op: s.Str("op"), What: "list", Want: s["list"], Got: list, History: beh, Variant: variant})
				return
			}
		}
		// after a history that ends in a mutation (and after every simulated history): the full state
		if lastSt != nil && (beh[len(beh)-1].Has("st") || len(beh) >= 8) {
			var what string
			var want, got interface{}
			if e := catch(func() { what, want, got = w.probeStore(lastSt, npass) }); e != "" {
				what, got = "exec", e
			}
			rep.OpCounts["probe"]++
			if what != "" {
				rep.AddMismatch(hx.Mismatch{Behaviour: idx, Step: len(beh) - 1, Op: beh[len(beh)-1].Str("op"), What: what, Want: want, Got: got, History: beh, Variant: variant})
			}
		}
	})
	if err != nil {
		hx.Fatal("%v", err)
	}
	rep.Extra["variants"] = vs
	rep.Extra["not_sampled"] = skipped
	printReport(rep)
}

// traceKeybase: seeded random operation sequences over more keys, passphrases and armors
// than the design model; no expected results are computed here.
func traceKeybase(out string, n, steps int, variants string) {
	silenceStdout()
	vs := strings.Split(variants, ",")
	type result struct {
		events []map[string]interface{}
	}
	results := make([]result, n)
	jobs := make(chan int, n)
	done := make(chan bool)
	workers := hx.Workers()
	for wk := 0; wk < workers; wk++ {
		go func() {
			for t := range jobs {
				results[t].events = oneKeybaseTrace(t, steps, vs[t%len(vs)])
			}
			done <- true
		}()
	}
	for t := 0; t < n; t++ {
		jobs <- t
	}
	close(jobs)
	for wk := 0; wk < workers; wk++ {
		<-done
	}
	tw, err := hx.NewTraceWriter(out)
	if err != nil {
		hx.Fatal("%v", err)
	}
	rep := hx.NewReport("crypto", "trace-keybase")
	for _, r := range results {
		for _, ev := range r.events {
			tw.Emit(ev)
			if op, _ := ev["op"].(string); op != "reset" {
				rep.Steps++
				rep.OpCounts[op]++
			}
		}
		rep.Behaviours++
	}
	if err := tw.Close(); err != nil {
		hx.Fatal("%v", err)
	}
	rep.Extra["events"] = tw.N
	printReport(rep)
}

func oneKeybaseTrace(t, steps int, variant string) []map[string]interface{} {
	rng := hx.Rng(int64(t) + 313131)
	w := newKbWorld(variant, rng, t%50)
	defer w.close()
	evs := []map[string]interface{}{{"op": "reset", "variant": variant}}
	const nImport, nPass = 4, 5
	nextCreate := 101
	created := []int{}
	narm := 0
	anyKey := func() int {
		if len(created) > 0 && rng.Intn(3) == 0 {
			return created[rng.Intn(len(created))]
		}
		return 1 + rng.Intn(nImport)
	}
	sitesList := []string{"none", "hint", "secparam", "kdf", "salt", "saltempty", "saltbad", "ctfirst", "ctmiddle", "ctlast", "cttrunc", "ctbad", "json"}
	// Passphrase choice: mostly the passphrase of the last call on that key / armor that the
	// real code accepted (learnt from real results only), otherwise a random one.
	goodKey := map[int]int{}
	goodArm := map[int]int{}
	passFor := func(k int) int {
		if p, ok := goodKey[k]; ok && rng.Intn(10) < 6 {
			return p
		}
		return rng.Intn(nPass)
	}
	armPass := func(a int) int {
		if p, ok := goodArm[a]; ok && rng.Intn(10) < 8 {
			return p
		}
		return rng.Intn(nPass)
	}
	anyPass := func() int { return rng.Intn(nPass) }
	for s := 0; s < steps; s++ {
		ev := hx.Step{}
		r := rng.Intn(100)
		if narm == 0 && (r >= 87 || (r >= 34 && r < 44)) {
			r = 25 // nothing exported yet: export instead
		}
		switch {
		case r < 8:
			ev = hx.Step{"op": "Create", "k": nextCreate, "p": anyPass()}
		case r < 22:
			k := 1 + rng.Intn(nImport)
			w.importable(k)
			ev = hx.Step{"op": "ImportObj", "k": k, "p": anyPass()}
		case r < 34:
			k := anyKey()
			if k <= nImport {
				w.importable(k)
			}
			ev = hx.Step{"op": "Export", "k": k, "dp": passFor(k), "ep": anyPass()}
		case r < 44:
			a := 1 + rng.Intn(narm)
			ev = hx.Step{"op": "ImportArmor", "a": a, "dp": armPass(a), "ep": anyPass()}
		case r < 54:
			k := anyKey()
			if k <= nImport {
				w.importable(k)
			}
			ev = hx.Step{"op": "Delete", "k": k, "p": passFor(k)}
		case r < 57:
			k := anyKey()
			if k <= nImport {
				w.importable(k)
			}
			ev = hx.Step{"op": "UnsafeDelete", "k": k}
		case r < 67:
			k := anyKey()
			if k <= nImport {
				w.importable(k)
			}
			ev = hx.Step{"op": "Update", "k": k, "o": passFor(k), "n": anyPass()}
		case r < 70:
			k := anyKey()
			if k <= nImport {
				w.importable(k)
			}
			ev = hx.Step{"op": "Get", "k": k}
		case r < 73:
			ev = hx.Step{"op": "List"}
		case r < 80:
			k := anyKey()
			if k <= nImport {
				w.importable(k)
			}
			ev = hx.Step{"op": "Sign", "k": k, "p": passFor(k)}
		case r < 87:
			k := anyKey()
			if k <= nImport {
				w.importable(k)
			}
			ev = hx.Step{"op": "ExportObj", "k": k, "p": passFor(k)}
		default:
			a := 1 + rng.Intn(narm)
			ev = hx.Step{"op": "Decrypt", "a": a, "p": armPass(a), "site": sitesList[rng.Intn(len(sitesList))]}
		}
		var ret, list []int
		var fail string
		if e := catch(func() { ret, list, fail = w.exec(ev) }); e != "" {
			fail = e
		}
		out := map[string]interface{}(ev)
		if fail != "" {
			out["fail"] = fail
			evs = append(evs, out)
			break
		}
		out["ret"] = ret
		if list != nil {
			out["list"] = list
		}
		ok := len(ret) == 1 && ret[0] == 1
		switch ev.Str("op") {
		case "Create":
			if ok {
				created = append(created, nextCreate)
				goodKey[nextCreate] = ev.Int("p")
			}
			nextCreate++
		case "ImportObj":
			if ok {
				goodKey[ev.Int("k")] = ev.Int("p")
			}
		case "Update":
			if ok {
				goodKey[ev.Int("k")] = ev.Int("n")
			}
		case "Export":
			if ok {
				narm++
				out["aid"] = narm
				goodArm[narm] = ev.Int("ep")
			}
		}
		evs = append(evs, out)
	}
	return evs
}
