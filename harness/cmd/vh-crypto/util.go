package main

import (
	"bytes"
	"encoding/binary"
	"encoding/json"
	"fmt"
	"math/rand"
	"os"

	"github.com/pokt-network/pocket-core/crypto"
	tmed "github.com/tendermint/tendermint/crypto/ed25519"
	tmsecp "github.com/tendermint/tendermint/crypto/secp256k1"

	"verifharness/internal/hx"
)

// The packages under test print diagnostics with fmt.Println (mintkey.DecryptAESGCM,
// keybase.writeLocalKeyPair, ProofI.FromProto ...).  The report must be the last line of
// stdout, so everything else written to os.Stdout is discarded.
var realStdout = os.Stdout

func silenceStdout() {
	if null, err := os.OpenFile(os.DevNull, os.O_WRONLY, 0); err == nil {
		os.Stdout = null
	}
}

func printReport(rep *hx.Report) {
	os.Stdout = realStdout
	rep.Print()
}

// seededKey derives key pair number idx of the given type from VERIF_SEED.
func seededKey(kt string, idx int) crypto.PrivateKey {
	secret := make([]byte, 24)
	binary.BigEndian.PutUint64(secret, uint64(hx.Seed()))
	binary.BigEndian.PutUint64(secret[8:], uint64(idx))
	copy(secret[16:], kt)
	switch kt {
	case "ed25519":
		return crypto.Ed25519PrivateKey(tmed.GenPrivKeyFromSecret(secret))
	case "secp256k1":
		return crypto.Secp256k1PrivateKey(tmsecp.GenPrivKeySecp256k1(secret))
	}
	hx.Fatal("unknown key type %q", kt)
	return nil
}

func otherType(kt string) string {
	if kt == "ed25519" {
		return "secp256k1"
	}
	return "ed25519"
}

func seededBytes(rng *rand.Rand, n int) []byte {
	b := make([]byte, n)
	for i := range b {
		b[i] = byte(rng.Intn(256))
	}
	return b
}

// mutate applies a byte-level alteration named by the specification to a copy of b.
func mutate(b []byte, site string, rng *rand.Rand, bitIdx int) []byte {
	c := append([]byte{}, b...)
	bit := byte(1) << uint(bitIdx%8)
	switch site {
	case "none":
	case "first":
		c[0] ^= bit
	case "middle":
		c[len(c)/2] ^= bit
	case "last":
		c[len(c)-1] ^= bit
	case "truncate":
		c = c[:len(c)-1]
	case "append":
		c = append(c, byte(rng.Intn(256)))
	case "empty":
		c = []byte{}
	default:
		hx.Fatal("unknown mutation site %q", site)
	}
	return c
}

func siteName(i int) string {
	return []string{"none", "first", "middle", "last"}[i]
}

func toInts(v interface{}) []int {
	switch x := v.(type) {
	case []int:
		return x
	case []interface{}:
		out := make([]int, len(x))
		for i, e := range x {
			switch n := e.(type) {
			case float64:
				out[i] = int(n)
			case int:
				out[i] = n
			}
		}
		return out
	}
	return nil
}

func toList(v interface{}) []interface{} {
	if l, ok := v.([]interface{}); ok {
		return l
	}
	return nil
}

// jsonNorm renders a value through JSON so that decoded-JSON and Go-built values compare.
func jsonNorm(v interface{}) string {
	b, err := json.Marshal(v)
	if err != nil {
		return fmt.Sprintf("!%v", err)
	}
	var x interface{}
	_ = json.Unmarshal(b, &x)
	b, _ = json.Marshal(x)
	return string(b)
}

func jsonEq(a, b interface{}) bool { return jsonNorm(a) == jsonNorm(b) }

func samePub(a, b crypto.PublicKey) bool {
	if a == nil || b == nil {
		return false
	}
	return fmt.Sprintf("%T", a) == fmt.Sprintf("%T", b) && bytes.Equal(a.Bytes(), b.Bytes()) &&
		bytes.Equal(a.RawBytes(), b.RawBytes()) && bytes.Equal(a.Address(), b.Address())
}

func catch(f func()) (msg string) {
	defer func() {
		if r := recover(); r != nil {
			msg = fmt.Sprintf("panic: %v", r)
		}
	}()
	f()
	return ""
}
