package main

// C38: round trips of every catalogue value through the height-dependent codec
// (codec.Codec: legacy amino / protobuf, chosen from the height and the process-global
// upgrade heights), through amino JSON, and canonical sign bytes.

import (
	"bytes"
	"encoding/json"
	"fmt"
	"math"
	"math/rand"
	"reflect"
	"sort"
	"strings"

	"github.com/pokt-network/pocket-core/codec"
	sdk "github.com/pokt-network/pocket-core/types"
	authTypes "github.com/pokt-network/pocket-core/x/auth/types"

	"verifharness/internal/hx"
)

// setGlobals sets the real gating globals of package codec (never codec.TestMode).
func setGlobals(uh, oh int64, override int) {
	codec.TestMode = 0
	codec.UpgradeHeight = uh
	codec.OldUpgradeHeight = oh
	cdc := fullCodec()
	switch override {
	case -1:
		cdc.DisableUpgradeOverride()
	case 0:
		cdc.SetUpgradeOverride(false)
	case 1:
		cdc.SetUpgradeOverride(true)
	}
}

// specHeight maps the specification's "MAX" upgrade height (2^31-1 in TLC) to the real default.
func specHeight(h int) int64 {
	if h >= math.MaxInt32 {
		return math.MaxInt64
	}
	return int64(h)
}

type rtResult struct {
	status string // ok | encerr | decerr | diff
	detail string
	loose  bool     // equal only modulo nil-versus-empty
	equiv  []string // the nil-versus-empty places
	format string   // amino | proto: what the bytes really are
	bz     []byte
}

// sniffFormat tells which codec produced bz by decoding it with each directly.
func encodeAt(c *caseDef, v interface{}, lp bool, h int64) (bz []byte, err error, pan string) {
	cdc := fullCodec()
	pan = catch(func() {
		if lp {
			bz, err = cdc.MarshalBinaryLengthPrefixed(v, h)
		} else {
			bz, err = cdc.MarshalBinaryBare(v, h)
		}
	})
	return
}

func decodeAt(c *caseDef, bz []byte, lp bool, h int64) (out interface{}, err error, pan string) {
	cdc := fullCodec()
	out = c.zero()
	pan = catch(func() {
		if lp {
			err = cdc.UnmarshalBinaryLengthPrefixed(bz, out, h)
		} else {
			err = cdc.UnmarshalBinaryBare(bz, out, h)
		}
	})
	return
}

var lastEquiv = func(orig, dec interface{}) []string { return nilEmptyPaths(orig, dec) }

func compare(orig, dec interface{}) (equal, looseOnly bool, diff string) {
	a, b := canon(orig, true), canon(dec, true)
	if a == b {
		return true, false, ""
	}
	la, lb := canon(orig, false), canon(dec, false)
	if la == lb {
		return true, true, ""
	}
	return false, false, firstDiff(la, lb)
}

// roundTrip: encode at height he, decode at height hd (globals already set).
func roundTrip(c *caseDef, lp bool, he, hd int64) rtResult {
	v := c.mk()
	bz, err, pan := encodeAt(c, v, lp, he)
	if pan != "" {
		return rtResult{status: "encerr", detail: pan}
	}
	if err != nil {
		return rtResult{status: "encerr", detail: err.Error()}
	}
	out, err, pan := decodeAt(c, bz, lp, hd)
	if pan != "" {
		return rtResult{status: "decerr", detail: pan, bz: bz}
	}
	if err != nil {
		return rtResult{status: "decerr", detail: err.Error(), bz: bz}
	}
	eq, loose, diff := compare(c.mk(), out)
	if !eq {
		return rtResult{status: "diff", detail: diff, bz: bz}
	}
	var equiv []string
	if loose {
		equiv = nilEmptyPaths(c.mk(), out)
	}
	// the encoder must not have modified its input
	if eq2, _, d2 := compare(c.mk(), v); !eq2 {
		return rtResult{status: "diff", detail: "encoding modified the value: " + d2, bz: bz}
	}
	return rtResult{status: "ok", loose: loose, equiv: equiv, bz: bz}
}

func jsonRoundTrip(c *caseDef) rtResult {
	cdc := fullCodec()
	v := c.mk()
	var bz []byte
	var err error
	if pan := catch(func() { bz, err = cdc.MarshalJSON(v) }); pan != "" {
		return rtResult{status: "encerr", detail: pan}
	}
	if err != nil {
		return rtResult{status: "encerr", detail: err.Error()}
	}
	// parameters are stored sorted (Subspace.Set); sorting must not change the value either
	sorted, serr := sdk.SortJSON(bz)
	if serr != nil {
		return rtResult{status: "encerr", detail: "SortJSON: " + serr.Error()}
	}
	for i, text := range [][]byte{bz, sorted} {
		out := c.zero()
		if pan := catch(func() { err = cdc.UnmarshalJSON(text, out) }); pan != "" {
			return rtResult{status: "decerr", detail: pan, bz: text}
		}
		if err != nil {
			return rtResult{status: "decerr", detail: err.Error(), bz: text}
		}
		eq, loose, diff := compare(c.mk(), out)
		if !eq {
			return rtResult{status: "diff", detail: fmt.Sprintf("(sorted=%v) %s", i == 1, diff), bz: text}
		}
		if i == 1 {
			var equiv []string
			if loose {
				equiv = nilEmptyPaths(c.mk(), out)
			}
			return rtResult{status: "ok", loose: loose, equiv: equiv, bz: bz}
		}
	}
	return rtResult{status: "ok"}
}

// ------------------------------------------------------------------ ordered JSON (for permutations)
type jnode struct {
	kind string // obj | arr | lit
	keys []string
	vals []*jnode
	lit  string
}

func parseOrdered(dec *json.Decoder) (*jnode, error) {
	tok, err := dec.Token()
	if err != nil {
		return nil, err
	}
	switch t := tok.(type) {
	case json.Delim:
		switch t {
		case '{':
			n := &jnode{kind: "obj"}
			for dec.More() {
				kt, err := dec.Token()
				if err != nil {
					return nil, err
				}
				v, err := parseOrdered(dec)
				if err != nil {
					return nil, err
				}
				n.keys = append(n.keys, kt.(string))
				n.vals = append(n.vals, v)
			}
			_, err := dec.Token()
			return n, err
		case '[':
			n := &jnode{kind: "arr"}
			for dec.More() {
				v, err := parseOrdered(dec)
				if err != nil {
					return nil, err
				}
				n.vals = append(n.vals, v)
			}
			_, err := dec.Token()
			return n, err
		}
		return nil, fmt.Errorf("unexpected delimiter %v", t)
	case string:
		b, _ := json.Marshal(t)
		return &jnode{kind: "lit", lit: string(b)}, nil
	case json.Number:
		return &jnode{kind: "lit", lit: t.String()}, nil
	case bool:
		return &jnode{kind: "lit", lit: fmt.Sprint(t)}, nil
	case nil:
		return &jnode{kind: "lit", lit: "null"}, nil
	}
	return nil, fmt.Errorf("unexpected token %v", tok)
}

func parseJSONOrdered(bz []byte) (*jnode, error) {
	dec := json.NewDecoder(bytes.NewReader(bz))
	dec.UseNumber()
	return parseOrdered(dec)
}

// emit writes the tree with the member order of every object permuted as `perm` says and
// insignificant white space varied; arrays keep their order (order is content there).
func (n *jnode) emit(sb *strings.Builder, perm string, rng *rand.Rand) {
	ws := func() {
		if perm == "shuffle-ws" {
			sb.WriteString([]string{"", " ", "\n", "\t "}[rng.Intn(4)])
		}
	}
	switch n.kind {
	case "lit":
		sb.WriteString(n.lit)
	case "arr":
		sb.WriteString("[")
		for i, v := range n.vals {
			if i > 0 {
				sb.WriteString(",")
			}
			ws()
			v.emit(sb, perm, rng)
		}
		ws()
		sb.WriteString("]")
	case "obj":
		idx := make([]int, len(n.keys))
		for i := range idx {
			idx[i] = i
		}
		switch perm {
		case "identity":
		case "reverse":
			for i, j := 0, len(idx)-1; i < j; i, j = i+1, j-1 {
				idx[i], idx[j] = idx[j], idx[i]
			}
		case "rotate":
			if len(idx) > 1 {
				idx = append(idx[1:], idx[0])
			}
		case "sorted":
			sort.Slice(idx, func(a, b int) bool { return n.keys[idx[a]] < n.keys[idx[b]] })
		case "revsorted":
			sort.Slice(idx, func(a, b int) bool { return n.keys[idx[a]] > n.keys[idx[b]] })
		default: // shuffle, shuffle-ws
			rng.Shuffle(len(idx), func(a, b int) { idx[a], idx[b] = idx[b], idx[a] })
		}
		sb.WriteString("{")
		for i, j := range idx {
			if i > 0 {
				sb.WriteString(",")
			}
			ws()
			kb, _ := json.Marshal(n.keys[j])
			sb.Write(kb)
			ws()
			sb.WriteString(":")
			ws()
			n.vals[j].emit(sb, perm, rng)
		}
		ws()
		sb.WriteString("}")
	}
}

func (n *jnode) objects() int {
	c := 0
	if n.kind == "obj" && len(n.keys) > 1 {
		c = 1
	}
	for _, v := range n.vals {
		c += v.objects()
	}
	return c
}

// signBytesCase: the sign bytes of a transaction carrying the message are a function of
// its abstract content: any member order / white space of the JSON document that is
// canonicalised gives the same bytes, and rebuilding the message (fresh maps, other
// insertion order) gives the same bytes.
func signBytesCase(c *caseDef, perm string, feeShape, memoShape string, rng *rand.Rand) (fail string, nontrivial bool) {
	msg, ok := c.mk().(sdk.ProtoMsg)
	if !ok {
		return "not a message", false
	}
	fee := feeOf(feeShape)
	memo := memoOf(memoShape)
	entropy := int64(rng.Int63())
	var sb1, sb2 []byte
	var err error
	if pan := catch(func() { sb1, err = authTypes.StdSignBytes("chain-<&>", entropy, fee, msg, memo) }); pan != "" {
		return "StdSignBytes: " + pan, false
	}
	if err != nil {
		return "StdSignBytes: " + err.Error(), false
	}
	// (1) a second, independently built but equal message
	msg2 := c.mk().(sdk.ProtoMsg)
	sb2, err = authTypes.StdSignBytes("chain-<&>", entropy, feeOf(feeShape), msg2, memo)
	if err != nil || !bytes.Equal(sb1, sb2) {
		return "sign bytes differ between two equal messages", false
	}
	// (2) the document before canonicalisation, with members permuted at every level
	feeJSON, _ := fee.MarshalJSON()
	doc, err := authTypes.ModuleCdc.MarshalJSON(authTypes.StdSignDoc{ChainID: "chain-<&>", Fee: feeJSON, Memo: memo, Msg: msg.GetSignBytes(), Entropy: entropy})
	if err != nil {
		return "StdSignDoc: " + err.Error(), false
	}
	if !bytes.Equal(sdk.MustSortJSON(doc), sb1) {
		return "StdSignBytes is not MustSortJSON(StdSignDoc)", false
	}
	for _, src := range [][]byte{doc, rawMsgJSON(msg)} {
		tree, err := parseJSONOrdered(src)
		if err != nil {
			return "cannot parse sign document: " + err.Error(), false
		}
		var sb strings.Builder
		tree.emit(&sb, perm, rng)
		want, err1 := sdk.SortJSON(src)
		got, err2 := sdk.SortJSON([]byte(sb.String()))
		if err1 != nil || err2 != nil {
			return fmt.Sprintf("SortJSON failed: %v %v", err1, err2), false
		}
		if !bytes.Equal(want, got) {
			return fmt.Sprintf("permutation %s changes the canonical bytes: %s vs %s", perm, clip(string(want)), clip(string(got))), false
		}
		// canonical form is a fixed point and has sorted members
		again, _ := sdk.SortJSON(want)
		if !bytes.Equal(again, want) {
			return "SortJSON is not idempotent", false
		}
		if tree.objects() > 0 && perm != "identity" {
			nontrivial = true
		}
	}
	return "", nontrivial
}

// rawMsgJSON is the message's amino JSON before GetSignBytes sorts it.
func rawMsgJSON(msg sdk.ProtoMsg) []byte {
	bz, err := fullCodec().MarshalJSON(msg)
	if err != nil {
		return []byte("{}")
	}
	return bz
}

func clip(s string) string {
	if len(s) > 160 {
		return s[:160] + "..."
	}
	return s
}

func feeOf(shape string) sdk.Coins {
	switch shape {
	case "nil":
		return nil
	case "empty":
		return sdk.Coins{}
	case "two":
		return coins(10000, 3)
	}
	return coins(10000)
}

func memoOf(shape string) string {
	switch shape {
	case "empty":
		return ""
	case "long":
		return longStr(70) + "<&>\"\\\n"
	}
	return "memo"
}

func sigOf(shape string, signBytes []byte) authTypes.StdSignature {
	switch shape {
	case "secp":
		sk := seededKey("secp256k1", 7300)
		sig, _ := sk.Sign(signBytes)
		return authTypes.StdSignature{PublicKey: sk.PublicKey(), Signature: sig}
	case "multisig":
		return authTypes.StdSignature{PublicKey: cMulti(3), Signature: []byte{0xb2, 0xf5, 0x15, 0xf9, 0x0a, 0x02, 0x01, 0x02}}
	case "emptysig":
		return authTypes.StdSignature{PublicKey: cEd(7), Signature: []byte{}}
	case "nilsig":
		return authTypes.StdSignature{PublicKey: cEd(7)}
	case "nopubkey": // "technically optional if the public key is in the world state" (stdtx.go)
		sk := seededKey("ed25519", 7300)
		sig, _ := sk.Sign(signBytes)
		return authTypes.StdSignature{Signature: sig}
	}
	sk := seededKey("ed25519", 7300)
	sig, _ := sk.Sign(signBytes)
	return authTypes.StdSignature{PublicKey: sk.PublicKey(), Signature: sig}
}

// txCase wraps the message in a StdTx (fee / memo / signature shapes) and pushes it through
// the real transaction encoder and decoder at the given heights.
func txCase(c *caseDef, feeShape, memoShape, sigShape string, he, hd int64, entropy int64) rtResult {
	cdc := fullCodec()
	mkTx := func() authTypes.StdTx {
		msg := c.mk().(sdk.ProtoMsg)
		sb, _ := authTypes.StdSignBytes("chain-x", entropy, feeOf(feeShape), msg, memoOf(memoShape))
		return authTypes.StdTx{Msg: msg, Fee: feeOf(feeShape), Signature: sigOf(sigShape, sb), Memo: memoOf(memoShape), Entropy: entropy}
	}
	tx := mkTx()
	var bz []byte
	var err error
	if pan := catch(func() { bz, err = authTypes.DefaultTxEncoder(cdc)(tx, he) }); pan != "" {
		return rtResult{status: "encerr", detail: pan}
	}
	if err != nil {
		return rtResult{status: "encerr", detail: err.Error()}
	}
	var out sdk.Tx
	var derr sdk.Error
	if pan := catch(func() { out, derr = authTypes.DefaultTxDecoder(cdc)(bz, hd) }); pan != "" {
		return rtResult{status: "decerr", detail: pan, bz: bz}
	}
	if derr != nil {
		return rtResult{status: "decerr", detail: derr.Error(), bz: bz}
	}
	got, ok := out.(authTypes.StdTx)
	if !ok {
		return rtResult{status: "diff", detail: fmt.Sprintf("decoded %T", out), bz: bz}
	}
	want := mkTx()
	eq, loose, diff := compare(&want, &got)
	if !eq {
		return rtResult{status: "diff", detail: diff, bz: bz}
	}
	var equiv []string
	if loose {
		equiv = nilEmptyPaths(&want, &got)
	}
	return rtResult{status: "ok", loose: loose, equiv: equiv, bz: bz}
}

var _ = reflect.TypeOf
var _ = hx.Seed
