package main

// replay-codec / trace-codec / list-cases (C38).

import (
	"bytes"
	"fmt"
	"math"
	"math/rand"
	"os"
	"runtime"
	"sort"
	"strings"
	"sync"

	"github.com/pokt-network/pocket-core/codec"
	sdk "github.com/pokt-network/pocket-core/types"
	pcTypes "github.com/pokt-network/pocket-core/x/pocketcore/types"

	"verifharness/internal/hx"
)

// listCases prints the catalogue so that the check can compare it with the specification's.
func listCases() {
	buildCatalogue()
	rep := hx.NewReport("crypto", "list-cases")
	types := map[string]map[string]interface{}{}
	for _, c := range allCases {
		t, ok := types[c.typ]
		if !ok {
			t = map[string]interface{}{"amino": c.amino, "proto": c.proto, "json": c.json, "msg": c.msg, "shapes": []string{}}
			types[c.typ] = t
		}
		t["shapes"] = append(t["shapes"].([]string), c.shape)
	}
	for _, t := range types {
		sort.Strings(t["shapes"].([]string))
	}
	rep.Extra["types"] = types
	rep.Behaviours = len(allCases)
	printReport(rep)
}

// sniff tells which binary format bz is, by comparing with both direct encoders.
func sniff(c *caseDef, lp bool, bz []byte) string {
	cdc := fullCodec()
	v := c.mk()
	var a, p []byte
	_ = catch(func() {
		if lp {
			a, _ = cdc.LegacyMarshalBinaryLengthPrefixed(v)
		} else {
			a, _ = cdc.LegacyMarshalBinaryBare(v)
		}
	})
	_ = catch(func() {
		if pm, ok := v.(codec.ProtoMarshaler); ok {
			if lp {
				p, _ = cdc.ProtoMarshalBinaryLengthPrefixed(pm)
			} else {
				p, _ = cdc.ProtoMarshalBinaryBare(pm)
			}
		}
	})
	isA, isP := a != nil && bytes.Equal(a, bz), p != nil && bytes.Equal(p, bz)
	if !isA && !isP {
		// encodings need not be byte-deterministic (MsgProtoStake marshals its map in Go map
		// order): fall back to "which direct decoder reproduces the value"
		try := func(dec func(out interface{}) error) bool {
			out := c.zero()
			var err error
			if pan := catch(func() { err = dec(out) }); pan != "" || err != nil {
				return false
			}
			eq, _, _ := compare(c.mk(), out)
			return eq
		}
		isA = try(func(out interface{}) error {
			if lp {
				return cdc.LegacyUnmarshalBinaryLengthPrefixed(bz, out)
			}
			return cdc.LegacyUnmarshalBinaryBare(bz, out)
		})
		isP = try(func(out interface{}) error {
			pm, ok := out.(codec.ProtoMarshaler)
			if !ok {
				return fmt.Errorf("not a proto marshaler")
			}
			if lp {
				return cdc.ProtoUnmarshalBinaryLengthPrefixed(bz, pm)
			}
			return cdc.ProtoUnmarshalBinaryBare(bz, pm)
		})
	}
	switch {
	case isA && isP:
		return "both" // a plain struct without interface fields encodes identically in both
	case isA:
		return "amino"
	case isP:
		return "proto"
	}
	return "unknown"
}

type gcfg struct {
	uh, oh, ncust int64
	ovr           int
}

func (g gcfg) apply() {
	setGlobals(g.uh, g.oh, g.ovr)
	codec.UpgradeFeatureMap = map[string]int64{}
	if g.ncust != 0 {
		codec.UpgradeFeatureMap[codec.NonCustodialUpdateKey] = g.ncust
	}
}

func cfgOf(s hx.Step) gcfg {
	return gcfg{uh: specHeight(s.Int("uh")), oh: specHeight(s.Int("oh")), ncust: int64(s.Int("ncust")), ovr: s.Int("ovr")}
}

// evidenceObject: Evidence (and Session) have their own cache encodings besides the codec
func objectRoundTrips(c *caseDef, legacy0 bool) string {
	switch v := c.mk().(type) {
	case *pcTypes.Evidence:
		bz, err := v.MarshalObject()
		if err != nil {
			return "MarshalObject: " + err.Error()
		}
		out, err := pcTypes.Evidence{}.UnmarshalObject(bz)
		if err != nil {
			return "UnmarshalObject: " + err.Error()
		}
		o := out.(pcTypes.Evidence)
		if eq, _, d := compare(c.mk(), &o); !eq {
			return "MarshalObject round trip: " + d
		}
		if !legacy0 {
			return "" // LegacyAminoMarshal uses the codec "at height 0": only meaningful while that is the legacy era
		}
		bz, err = v.LegacyAminoMarshal()
		if err != nil {
			return "LegacyAminoMarshal: " + err.Error()
		}
		out, err = pcTypes.Evidence{}.LegacyAminoUnmarshal(bz)
		if err != nil {
			return "LegacyAminoUnmarshal: " + err.Error()
		}
		o = out.(pcTypes.Evidence)
		if eq, _, d := compare(c.mk(), &o); !eq {
			return "LegacyAminoMarshal round trip: " + d
		}
	case *pcTypes.Session:
		bz, err := v.MarshalObject()
		if err != nil {
			return "MarshalObject: " + err.Error()
		}
		out, err := pcTypes.Session{}.UnmarshalObject(bz)
		if err != nil {
			return "UnmarshalObject: " + err.Error()
		}
		o := out.(pcTypes.Session)
		if eq, _, d := compare(c.mk(), &o); !eq {
			return "MarshalObject round trip: " + d
		}
	}
	return ""
}

type caseOutcome struct {
	what      string // "" = as the specification expects
	want, got interface{}
	known     string   // non-empty: a listed known finding matched
	loose     []string // places that were equal only modulo nil-versus-empty
	unjudged  string   // what happened on a pair the code makes no promise for
}

// execCase runs one stateless case (globals already set for its configuration).
func execCase(s hx.Step, rng *rand.Rand) (o caseOutcome) {
	op := s.Str("op")
	c := findCase(s.Str("typ"), s.Str("shape"))
	if c == nil {
		return caseOutcome{what: "catalogue", want: s.Str("typ") + "/" + s.Str("shape"), got: "unknown to the harness"}
	}
	exp := s.Str("exp")
	judge := func(r rtResult, tag string) caseOutcome {
		switch exp {
		case "ok":
			if r.status != "ok" {
				return caseOutcome{what: tag + ":" + r.status, want: "ok", got: r.detail}
			}
			if r.loose {
				eq := r.equiv
				if len(eq) == 0 {
					eq = []string{c.typ + "/" + c.shape + ": (unlocated)"}
				}
				return caseOutcome{loose: eq}
			}
		default: // "unreadable", "na": no promise; record only
			return caseOutcome{unjudged: exp + ":" + r.status}
		}
		return caseOutcome{}
	}
	switch op {
	case "RT":
		he, hd := specHeight(s.Int("he")), specHeight(s.Int("hd"))
		for _, lp := range []bool{false, true} {
			r := roundTrip(c, lp, he, hd)
			if exp == "ok" || exp == "unreadable" {
				// the format really produced is the one the mode machine says
				if r.bz != nil {
					if f := sniff(c, lp, r.bz); f != s.Str("fmt") && f != "both" {
						return caseOutcome{what: "format", want: s.Str("fmt"), got: f}
					}
				}
			}
			if o = judge(r, "binary"); o.what != "" {
				return o
			}
		}
		if exp == "ok" {
			if f := objectRoundTrips(c, s.Int("legacy0") == 1); f != "" {
				return caseOutcome{what: "object", want: "ok", got: f}
			}
		}
		return o
	case "JSON":
		return judge(jsonRoundTrip(c), "json")
	case "Sign":
		f, _ := signBytesCase(c, s.Str("perm"), s.Str("fee"), s.Str("memo"), rng)
		if f != "" {
			return caseOutcome{what: "signbytes", want: "invariant", got: f}
		}
		return caseOutcome{}
	case "Tx":
		he, hd := specHeight(s.Int("he")), specHeight(s.Int("hd"))
		r := txCase(c, s.Str("fee"), s.Str("memo"), s.Str("sig"), he, hd, int64(rng.Int63()))
		o = judge(r, "tx")
		if o.what != "" && s.Str("sig") == "nopubkey" && strings.Contains(fmt.Sprint(o.got), "nil pointer") && strings.HasPrefix(o.what, "tx:encerr") {
			o.known = "F-C38-stdsignature-nil-pubkey"
		}
		return o
	}
	return caseOutcome{what: "exec", want: s, got: "unknown op " + op}
}

// ------------------------------------------------------------------ the mode machine on real bytes
type modeWorld struct {
	uh, oh   int64
	now      int64
	cells    map[string][]byte
	snaps    map[int64]map[string][]byte
	cases    map[string]*caseDef
	lp       map[string]bool
	override int
}

func (w *modeWorld) applyGlobals() { setGlobals(w.uh, w.oh, w.override) }

func (w *modeWorld) fmtOf(m string) string {
	if w.cells[m] == nil {
		return "none"
	}
	return sniff(w.cases[m], w.lp[m], w.cells[m])
}

func (w *modeWorld) readable(m string, bz []byte, h int64) (bool, string) {
	out, err, pan := decodeAt(w.cases[m], bz, w.lp[m], h)
	if pan != "" || err != nil {
		return false, pan + fmt.Sprint(err)
	}
	if eq, _, d := compare(w.cases[m].mk(), out); !eq {
		return false, "decoded to another value: " + d
	}
	return true, ""
}

func fmtEq(spec, real string) bool { return spec == real || (real == "both" && spec != "none") }

func (w *modeWorld) step(s hx.Step) (what string, want, got interface{}) {
	m := s.Str("m")
	checkCells := func() (string, interface{}, interface{}) {
		if cs, ok := s["cell"].(map[string]interface{}); ok {
			for name, f := range cs {
				if real := w.fmtOf(name); !fmtEq(f.(string), real) {
					return "cell-format", cs, map[string]string{name: real}
				}
			}
		}
		return "", nil, nil
	}
	switch s.Str("op") {
	case "Start":
		w.uh, w.oh, w.now, w.override = specHeight(s.Int("uh")), specHeight(s.Int("oh")), int64(s.Int("now")), -1
		w.applyGlobals()
	case "Put":
		bz, err, pan := encodeAt(w.cases[m], w.cases[m].mk(), w.lp[m], w.now)
		if err != nil || pan != "" {
			return "exec", "encodable", pan + fmt.Sprint(err)
		}
		w.cells[m] = bz
		return checkCells()
	case "Get":
		ok, why := w.readable(m, w.cells[m], w.now)
		if b2i(ok) != s.Int("ret") {
			return "ret", s.Int("ret"), why
		}
	case "Query":
		h := int64(s.Int("h"))
		ok, why := w.readable(m, w.snaps[h][m], h)
		if b2i(ok) != s.Int("ret") {
			return "ret", s.Int("ret"), why
		}
	case "NextBlock":
		snap := map[string][]byte{}
		for k, v := range w.cells {
			snap[k] = v
		}
		w.snaps[w.now] = snap
		w.now++
		if w.now == codec.GetCodecUpgradeHeight() { // baseapp.BeginBlock
			w.override = 1
			w.applyGlobals()
		}
		if int64(s.Int("now")) != w.now {
			return "now", s.Int("now"), w.now
		}
		if (s.Int("upgrading") == 1) != (w.now == codec.GetCodecUpgradeHeight()) {
			return "upgrade-block", s.Int("upgrading"), codec.GetCodecUpgradeHeight()
		}
	case "Convert": // keeper.ConvertState of one module
		cdc := fullCodec()
		cdc.SetUpgradeOverride(false)
		var val interface{}
		if w.cells[m] != nil {
			out, err, pan := decodeAt(w.cases[m], w.cells[m], w.lp[m], w.now)
			if err != nil || pan != "" {
				return "convert-read", "readable", pan + fmt.Sprint(err)
			}
			val = out
		}
		cdc.SetUpgradeOverride(true)
		if val != nil {
			bz, err, pan := encodeAt(w.cases[m], val, w.lp[m], w.now)
			if err != nil || pan != "" {
				return "convert-write", "encodable", pan + fmt.Sprint(err)
			}
			w.cells[m] = bz
		}
		cdc.DisableUpgradeOverride()
		w.override = -1
		return checkCells()
	case "Upgrade":
		if s.Str("kind") == "new" {
			w.oh = w.uh
		}
		w.uh = specHeight(s.Int("h"))
		w.applyGlobals()
	default:
		return "exec", s, "unknown op"
	}
	return "", nil, nil
}

// pairs of catalogue cases usable as module state in both formats
func modeCasePairs() [][2]*caseDef {
	buildCatalogue()
	var both []*caseDef
	for i := range allCases {
		c := &allCases[i]
		if c.amino && c.proto && c.typ != "param" {
			both = append(both, c)
		}
	}
	sort.Slice(both, func(i, j int) bool { return both[i].typ+both[i].shape < both[j].typ+both[j].shape })
	var out [][2]*caseDef
	for i := range both {
		out = append(out, [2]*caseDef{both[i], both[(i*7+3)%len(both)]})
	}
	return out
}

func replayCodec(in string, known string, shard, nshards int) {
	silenceStdout()
	defer func() { os.Stdout = realStdout }()
	rep := hx.NewReport("crypto", "replay-codec")
	buildCatalogue()
	knownSet := map[string]bool{}
	for _, k := range strings.Split(known, ",") {
		if k != "" {
			knownSet[k] = true
		}
	}
	// read everything, bucket stateless cases by configuration, keep mode-machine histories apart
	type job struct {
		idx int
		beh []hx.Step
	}
	buckets := map[gcfg][]job{}
	var machine []job
	seen := map[string]bool{}
	err := hx.ReadBehaviours(in, func(idx int, beh []hx.Step) error {
		if nshards > 1 && idx%nshards != shard {
			return nil
		}
		rep.Behaviours++
		last := beh[len(beh)-1]
		key := fmt.Sprint(len(beh), last)
		if len(beh) > 1 {
			key = fmt.Sprint(beh)
		}
		seen[key] = true
		switch last.Str("op") {
		case "RT", "JSON", "Sign", "Tx":
			g := cfgOf(last)
			buckets[g] = append(buckets[g], job{idx, beh})
		default:
			machine = append(machine, job{idx, beh})
		}
		return nil
	})
	if err != nil {
		hx.Fatal("%v", err)
	}
	rep.Distinct = len(seen)
	var mu sync.Mutex
	looseSet := map[string]bool{}
	unjudged := map[string]int{}
	knownHits := map[string]int{}
	knownSamples := map[string]interface{}{}
	cfgs := make([]gcfg, 0, len(buckets))
	for g := range buckets {
		cfgs = append(cfgs, g)
	}
	sort.Slice(cfgs, func(i, j int) bool { return fmt.Sprint(cfgs[i]) < fmt.Sprint(cfgs[j]) })
	for _, g := range cfgs {
		g.apply() // process-global: one configuration at a time, cases of it in parallel (read-only use)
		jobs := buckets[g]
		var wg sync.WaitGroup
		ch := make(chan job, 256)
		for wk := 0; wk < runtime.NumCPU(); wk++ {
			wg.Add(1)
			go func() {
				defer wg.Done()
				for j := range ch {
					s := j.beh[len(j.beh)-1]
					rng := rand.New(rand.NewSource(hx.Seed()*7919 + int64(j.idx)))
					var o caseOutcome
					if e := catch(func() { o = execCase(s, rng) }); e != "" {
						o = caseOutcome{what: "exec", want: s, got: e}
					}
					mu.Lock()
					rep.Steps++
					rep.OpCounts[s.Str("op")]++
					if s.Str("exp") == "ok" || s.Str("op") == "Sign" {
						rep.Nontrivial++
					}
					for _, l := range o.loose {
						looseSet[l] = true
					}
					if o.unjudged != "" {
						unjudged[o.unjudged]++
					}
					if o.what != "" {
						if o.known != "" && knownSet[o.known] {
							knownHits[o.known]++
							if knownSamples[o.known] == nil {
								knownSamples[o.known] = map[string]interface{}{"case": s, "got": o.got}
							}
						} else {
							rep.AddMismatch(hx.Mismatch{Behaviour: j.idx, Step: 0, Op: s.Str("op"), What: o.what, Want: o.want, Got: o.got, History: j.beh})
						}
					}
					if j.idx%9973 == 5 {
						rep.AddSample(s)
					}
					mu.Unlock()
				}
			}()
		}
		for _, j := range jobs {
			ch <- j
		}
		close(ch)
		wg.Wait()
	}
	// mode-machine histories: sequential (they change the globals as they go)
	pairs := modeCasePairs()
	for _, j := range machine {
		pr := pairs[j.idx%len(pairs)]
		w := &modeWorld{cells: map[string][]byte{}, snaps: map[int64]map[string][]byte{}, cases: map[string]*caseDef{"A": pr[0], "B": pr[1]},
			lp: map[string]bool{"A": true, "B": false}}
		codec.UpgradeFeatureMap = map[string]int64{}
		if j.idx%4001 == 1 {
			rep.AddSample(j.beh)
		}
		if len(j.beh) > 2 {
			rep.Nontrivial++
		}
		for si, s := range j.beh {
			rep.Steps++
			rep.OpCounts[s.Str("op")]++
			var what string
			var want, got interface{}
			if e := catch(func() { what, want, got = w.step(s) }); e != "" {
				what, want, got = "exec", s, e
			}
			if what != "" {
				rep.AddMismatch(hx.Mismatch{Behaviour: j.idx, Step: si, Op: s.Str("op"), What: what, Want: want, Got: got, History: j.beh,
					Variant: pr[0].typ + "/" + pr[0].shape + "+" + pr[1].typ + "/" + pr[1].shape})
				break
			}
		}
	}
	setGlobals(math.MaxInt64, 0, -1)
	loose := make([]string, 0, len(looseSet))
	for k := range looseSet {
		loose = append(loose, k)
	}
	sort.Strings(loose)
	rep.Extra["nil_empty_equivalences_used"] = loose
	rep.Extra["unjudged_pairs"] = unjudged
	rep.Extra["known_hits"] = knownHits
	rep.Extra["known_samples"] = knownSamples
	rep.Extra["configurations"] = len(cfgs)
	rep.Extra["mode_machine_histories"] = len(machine)
	printReport(rep)
}

// traceCodec: seeded driver.  Random configuration, heights and catalogue case; the real
// codec decides format and outcome, which are logged (the format by comparing the bytes
// with both direct encoders).  No expectation is computed here.
func traceCodec(out string, n int) {
	silenceStdout()
	buildCatalogue()
	tw, err := hx.NewTraceWriter(out)
	if err != nil {
		hx.Fatal("%v", err)
	}
	rep := hx.NewReport("crypto", "trace-codec")
	rng := hx.Rng(777)
	heightPool := []int64{-1, 0, 1, 2, 3, 4, 5, 9, 10, 11, 100, 30023, 30024, 30025, 45353, 100000}
	uhPool := []int64{1, 2, 3, 5, 10, 30023, 30024, 30025, 99999, math.MaxInt64}
	ohPool := []int64{0, 0, 1, 2, 3, 9, 30024, math.MaxInt64}
	logH := func(h int64) int64 {
		if h == math.MaxInt64 {
			return math.MaxInt32
		}
		return h
	}
	var binCases []*caseDef
	for i := range allCases {
		if allCases[i].amino || allCases[i].proto {
			binCases = append(binCases, &allCases[i])
		}
	}
	for t := 0; t < n; t++ {
		g := gcfg{uh: uhPool[rng.Intn(len(uhPool))], oh: ohPool[rng.Intn(len(ohPool))], ovr: []int{-1, -1, -1, 0, 1}[rng.Intn(5)]}
		if rng.Intn(2) == 0 {
			g.ncust = []int64{1, 5, 30025}[rng.Intn(3)]
		}
		g.apply()
		tw.Emit(map[string]interface{}{"op": "reset", "uh": logH(g.uh), "oh": logH(g.oh), "ovr": g.ovr, "ncust": g.ncust,
			"cuh": codec.GetCodecUpgradeHeight()})
		for k := 0; k < 25; k++ {
			c := binCases[rng.Intn(len(binCases))]
			he, hd := heightPool[rng.Intn(len(heightPool))], heightPool[rng.Intn(len(heightPool))]
			if rng.Intn(3) == 0 {
				hd = he
			}
			lp := rng.Intn(2) == 0
			ev := map[string]interface{}{"op": "RT", "typ": c.typ, "shape": c.shape, "amino": c.amino, "proto": c.proto, "he": he, "hd": hd, "lp": lp,
				"uh": logH(g.uh), "oh": logH(g.oh), "ovr": g.ovr}
			r := roundTrip(c, lp, he, hd)
			ev["status"] = r.status
			if r.bz != nil {
				ev["fmt"] = sniff(c, lp, r.bz)
			} else {
				ev["fmt"] = "none"
			}
			tw.Emit(ev)
			rep.Steps++
			rep.OpCounts["RT"]++
		}
		rep.Behaviours++
	}
	setGlobals(math.MaxInt64, 0, -1)
	if err := tw.Close(); err != nil {
		hx.Fatal("%v", err)
	}
	rep.Extra["events"] = tw.N
	printReport(rep)
}

var _ = sdk.NewInt
