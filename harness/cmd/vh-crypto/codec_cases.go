package main

// The catalogue of C38: for every registered message / state type, explicit constructors
// of the shapes the specification enumerates (CodecModes.tla, ShapesOf).  No reflection or
// random generation is used to build values; every shape is written out.

import (
	"math"
	"math/big"
	"strings"
	"time"

	"github.com/pokt-network/pocket-core/crypto"
	sdk "github.com/pokt-network/pocket-core/types"
	appsTypes "github.com/pokt-network/pocket-core/x/apps/types"
	authTypes "github.com/pokt-network/pocket-core/x/auth/types"
	govTypes "github.com/pokt-network/pocket-core/x/gov/types"
	nodesTypes "github.com/pokt-network/pocket-core/x/nodes/types"
	pcTypes "github.com/pokt-network/pocket-core/x/pocketcore/types"
	"github.com/willf/bloom"
)

// caseDef is one (type, shape) of the catalogue.
type caseDef struct {
	typ, shape string
	mk         func() interface{} // a pointer to a freshly built value
	zero       func() interface{} // a pointer to a zero value to decode into
	// which encodings the code base uses this type with
	amino bool // legacy binary codec (before the codec upgrade)
	proto bool // protobuf binary codec
	json  bool // amino JSON (ModuleCdc.MarshalJSON / UnmarshalJSON): params, genesis, RPC, sign bytes
	msg   bool // an sdk.ProtoMsg: also wrapped in a StdTx and signed
}

var allCases []caseDef
var caseIndex = map[string]*caseDef{}

func addCase(c caseDef) {
	allCases = append(allCases, c)
	caseIndex[c.typ+"/"+c.shape] = &allCases[len(allCases)-1]
}

func findCase(typ, shape string) *caseDef {
	buildCatalogue()
	for i := range allCases {
		if allCases[i].typ == typ && allCases[i].shape == shape {
			return &allCases[i]
		}
	}
	return nil
}

// ---- building blocks
func cAddr(i int) sdk.Address      { return sdk.Address(seededKey("ed25519", 7000+i).PublicKey().Address()) }
func cEd(i int) crypto.PublicKey   { return seededKey("ed25519", 7100+i).PublicKey() }
func cSecp(i int) crypto.PublicKey { return seededKey("secp256k1", 7200+i).PublicKey() }
func cMulti(n int) crypto.PublicKey {
	pk := crypto.PublicKeyMultiSignature{}
	for i := 0; i < n; i++ {
		if i%2 == 0 {
			pk.PublicKeys = append(pk.PublicKeys, cEd(10+i))
		} else {
			pk.PublicKeys = append(pk.PublicKeys, cSecp(10+i))
		}
	}
	return pk
}

var maxBig = func() sdk.BigInt {
	b := new(big.Int).Lsh(big.NewInt(1), 255)
	b.Sub(b, big.NewInt(1))
	return sdk.NewIntFromBigInt(b)
}()

func tTypical() time.Time { return time.Date(2023, 4, 26, 21, 52, 12, 123456789, time.UTC) }
func tFar() time.Time     { return time.Date(9999, 12, 31, 23, 59, 59, 999999999, time.UTC) }

func chainsN(n int) []string {
	out := make([]string, n)
	for i := range out {
		out[i] = strings.ToUpper(strings.Repeat("0", 3) + string("0123456789ABCDEF"[i%16]))
	}
	return out
}

func longStr(n int) string { return strings.Repeat("ü", n/2) }

func coins(amounts ...int64) sdk.Coins {
	out := sdk.Coins{}
	denoms := []string{"upokt", "zcoin"}
	for i, a := range amounts {
		out = append(out, sdk.Coin{Denom: denoms[i], Amount: sdk.NewInt(a)})
	}
	return out
}

func delegators(n int) map[string]uint32 {
	m := map[string]uint32{}
	for i := 0; i < n; i++ {
		k := cAddr(40 + i).String()
		if i%2 == 1 {
			k = strings.ToUpper(k) // a hex address is valid in either case; the codec must keep the key as written
		}
		m[k] = uint32(1 + i*7)
	}
	return m
}

func aat(i int) pcTypes.AAT {
	return pcTypes.AAT{Version: "0.0.1", ApplicationPublicKey: cEd(20 + i).RawString(), ClientPublicKey: cEd(30 + i).RawString(),
		ApplicationSignature: strings.Repeat("ab", 64)}
}

func relayProof(i int) pcTypes.RelayProof {
	return pcTypes.RelayProof{RequestHash: strings.Repeat("0f", 32), Entropy: int64(1000 + i), SessionBlockHeight: int64(1 + 4*i),
		ServicerPubKey: cEd(50 + i).RawString(), Blockchain: "0021", Token: aat(i), Signature: strings.Repeat("cd", 64)}
}

func relayResponse(i int) pcTypes.RelayResponse {
	return pcTypes.RelayResponse{Signature: strings.Repeat("ef", 64), Response: "{\"jsonrpc\":\"2.0\",\"result\":\"0x" + strings.Repeat("1", i+1) + "\"}", Proof: relayProof(i)}
}

func challenge() pcTypes.ChallengeProofInvalidData {
	return pcTypes.ChallengeProofInvalidData{MajorityResponses: []pcTypes.RelayResponse{relayResponse(1), relayResponse(2)},
		MinorityResponse: relayResponse(3), ReporterAddress: cAddr(9)}
}

func hashRange(i int, lo, hi uint64) pcTypes.HashRange {
	h := make([]byte, 32)
	for j := range h {
		h[j] = byte(i*31 + j)
	}
	return pcTypes.HashRange{Hash: h, Range: pcTypes.Range{Lower: lo, Upper: hi}}
}

func sessionHeader() pcTypes.SessionHeader {
	return pcTypes.SessionHeader{ApplicationPubKey: cEd(20).RawString(), Chain: "0021", SessionBlockHeight: 101}
}

func bloomWith(n int) bloom.BloomFilter {
	b := bloom.NewWithEstimates(1000, 0.001)
	for i := 0; i < n; i++ {
		b.Add([]byte{byte(i), 1, 2})
	}
	return *b
}

var catalogueBuilt = false

func buildCatalogue() {
	if catalogueBuilt {
		return
	}
	catalogueBuilt = true
	fullCodec()
	P := func(v interface{}) func() interface{} { return func() interface{} { return v } }
	_ = P

	// ------------------------------------------------------------ x/nodes
	val := func(f func(v *nodesTypes.Validator)) func() interface{} {
		return func() interface{} {
			v := &nodesTypes.Validator{Address: sdk.Address(cEd(1).Address()), PublicKey: cEd(1), Jailed: false, Status: sdk.Staked,
				Chains: chainsN(2), ServiceURL: "https://node1.example.com:443", StakedTokens: sdk.NewInt(15000000000),
				UnstakingCompletionTime: time.Time{}, OutputAddress: cAddr(2)}
			f(v)
			return v
		}
	}
	zVal := func() interface{} { return &nodesTypes.Validator{} }
	for shape, f := range map[string]func(v *nodesTypes.Validator){
		"typical":    func(v *nodesTypes.Validator) {},
		"delegators": func(v *nodesTypes.Validator) { v.RewardDelegators = delegators(3) },
		"nils": func(v *nodesTypes.Validator) {
			v.Chains, v.OutputAddress, v.RewardDelegators, v.ServiceURL = nil, nil, nil, ""
		},
		"empties": func(v *nodesTypes.Validator) {
			v.Chains, v.OutputAddress, v.RewardDelegators = []string{}, sdk.Address{}, map[string]uint32{}
		},
		"max": func(v *nodesTypes.Validator) {
			v.Jailed, v.Status, v.Chains, v.ServiceURL, v.StakedTokens, v.UnstakingCompletionTime, v.RewardDelegators =
				true, sdk.Unstaking, chainsN(15), "https://"+longStr(240), maxBig, tFar(), delegators(12)
		},
		"unstaking":  func(v *nodesTypes.Validator) { v.Status, v.UnstakingCompletionTime = sdk.Unstaking, tTypical() },
		"secp":       func(v *nodesTypes.Validator) { v.PublicKey, v.Address = cSecp(1), sdk.Address(cSecp(1).Address()) },
		"multisig":   func(v *nodesTypes.Validator) { v.PublicKey, v.Address = cMulti(3), sdk.Address(cMulti(3).Address()) },
		"zerotokens": func(v *nodesTypes.Validator) { v.StakedTokens = sdk.ZeroInt() },
	} {
		addCase(caseDef{typ: "nodes.Validator", shape: shape, mk: val(f), zero: zVal, proto: true, json: true})
	}
	lval := func(f func(v *nodesTypes.LegacyValidator)) func() interface{} {
		return func() interface{} {
			v := &nodesTypes.LegacyValidator{Address: sdk.Address(cEd(1).Address()), PublicKey: cEd(1), Status: sdk.Staked,
				Chains: chainsN(2), ServiceURL: "https://node1.example.com:443", StakedTokens: sdk.NewInt(15000000000)}
			f(v)
			return v
		}
	}
	zLVal := func() interface{} { return &nodesTypes.LegacyValidator{} }
	for shape, f := range map[string]func(v *nodesTypes.LegacyValidator){
		"typical": func(v *nodesTypes.LegacyValidator) {},
		"nils":    func(v *nodesTypes.LegacyValidator) { v.Chains, v.ServiceURL = nil, "" },
		"empties": func(v *nodesTypes.LegacyValidator) { v.Chains = []string{} },
		"max": func(v *nodesTypes.LegacyValidator) {
			v.Jailed, v.Status, v.Chains, v.ServiceURL, v.StakedTokens, v.UnstakingCompletionTime =
				true, sdk.Unstaking, chainsN(15), "https://"+longStr(240), maxBig, tFar()
		},
		"unstaking": func(v *nodesTypes.LegacyValidator) { v.Status, v.UnstakingCompletionTime = sdk.Unstaking, tTypical() },
		"secp": func(v *nodesTypes.LegacyValidator) {
			v.PublicKey, v.Address = cSecp(1), sdk.Address(cSecp(1).Address())
		},
	} {
		addCase(caseDef{typ: "nodes.LegacyValidator", shape: shape, mk: lval(f), zero: zLVal, amino: true, proto: true, json: true})
	}
	mstake := func(f func(m *nodesTypes.MsgStake)) func() interface{} {
		return func() interface{} {
			m := &nodesTypes.MsgStake{PublicKey: cEd(1), Chains: chainsN(2), Value: sdk.NewInt(15000000000),
				ServiceUrl: "https://node1.example.com:443", Output: cAddr(2)}
			f(m)
			return m
		}
	}
	for shape, f := range map[string]func(m *nodesTypes.MsgStake){
		"typical":    func(m *nodesTypes.MsgStake) {},
		"delegators": func(m *nodesTypes.MsgStake) { m.RewardDelegators = delegators(3) },
		"nils":       func(m *nodesTypes.MsgStake) { m.Chains, m.Output, m.RewardDelegators, m.ServiceUrl = nil, nil, nil, "" },
		"empties": func(m *nodesTypes.MsgStake) {
			m.Chains, m.Output, m.RewardDelegators = []string{}, sdk.Address{}, map[string]uint32{}
		},
		"max": func(m *nodesTypes.MsgStake) {
			m.Chains, m.ServiceUrl, m.Value, m.RewardDelegators = chainsN(15), "https://"+longStr(240), maxBig, delegators(12)
		},
		"secp":     func(m *nodesTypes.MsgStake) { m.PublicKey = cSecp(1) },
		"multisig": func(m *nodesTypes.MsgStake) { m.PublicKey = cMulti(2) },
	} {
		addCase(caseDef{typ: "nodes.MsgStake", shape: shape, mk: mstake(f), zero: func() interface{} { return &nodesTypes.MsgStake{} },
			proto: true, json: true, msg: true})
	}
	lmstake := func(f func(m *nodesTypes.LegacyMsgStake)) func() interface{} {
		return func() interface{} {
			m := &nodesTypes.LegacyMsgStake{PublicKey: cEd(1), Chains: chainsN(2), Value: sdk.NewInt(15000000000), ServiceUrl: "https://node1.example.com:443"}
			f(m)
			return m
		}
	}
	for shape, f := range map[string]func(m *nodesTypes.LegacyMsgStake){
		"typical": func(m *nodesTypes.LegacyMsgStake) {},
		"nils":    func(m *nodesTypes.LegacyMsgStake) { m.Chains, m.ServiceUrl = nil, "" },
		"empties": func(m *nodesTypes.LegacyMsgStake) { m.Chains = []string{} },
		"max": func(m *nodesTypes.LegacyMsgStake) {
			m.Chains, m.ServiceUrl, m.Value = chainsN(15), "https://"+longStr(240), maxBig
		},
		"secp": func(m *nodesTypes.LegacyMsgStake) { m.PublicKey = cSecp(1) },
	} {
		addCase(caseDef{typ: "nodes.LegacyMsgStake", shape: shape, mk: lmstake(f), zero: func() interface{} { return &nodesTypes.LegacyMsgStake{} },
			amino: true, proto: true, json: true, msg: true})
	}
	simple := func(typ string, amino bool, msg bool, zero func() interface{}, shapes map[string]func() interface{}) {
		for shape, mk := range shapes {
			addCase(caseDef{typ: typ, shape: shape, mk: mk, zero: zero, amino: amino, proto: true, json: true, msg: msg})
		}
	}
	simple("nodes.MsgBeginUnstake", true, true, func() interface{} { return &nodesTypes.MsgBeginUnstake{} }, map[string]func() interface{}{
		"typical": func() interface{} { return &nodesTypes.MsgBeginUnstake{Address: cAddr(1), Signer: cAddr(2)} },
		"nils":    func() interface{} { return &nodesTypes.MsgBeginUnstake{Address: cAddr(1)} },
		"empties": func() interface{} { return &nodesTypes.MsgBeginUnstake{Address: sdk.Address{}, Signer: sdk.Address{}} },
		"zero":    func() interface{} { return &nodesTypes.MsgBeginUnstake{} },
	})
	simple("nodes.LegacyMsgBeginUnstake", true, true, func() interface{} { return &nodesTypes.LegacyMsgBeginUnstake{} }, map[string]func() interface{}{
		"typical": func() interface{} { return &nodesTypes.LegacyMsgBeginUnstake{Address: cAddr(1)} },
		"zero":    func() interface{} { return &nodesTypes.LegacyMsgBeginUnstake{} },
	})
	simple("nodes.MsgUnjail", true, true, func() interface{} { return &nodesTypes.MsgUnjail{} }, map[string]func() interface{}{
		"typical": func() interface{} { return &nodesTypes.MsgUnjail{ValidatorAddr: cAddr(1), Signer: cAddr(2)} },
		"nils":    func() interface{} { return &nodesTypes.MsgUnjail{ValidatorAddr: cAddr(1)} },
		"zero":    func() interface{} { return &nodesTypes.MsgUnjail{} },
	})
	simple("nodes.LegacyMsgUnjail", true, true, func() interface{} { return &nodesTypes.LegacyMsgUnjail{} }, map[string]func() interface{}{
		"typical": func() interface{} { return &nodesTypes.LegacyMsgUnjail{ValidatorAddr: cAddr(1)} },
		"zero":    func() interface{} { return &nodesTypes.LegacyMsgUnjail{} },
	})
	simple("nodes.MsgSend", true, true, func() interface{} { return &nodesTypes.MsgSend{} }, map[string]func() interface{}{
		"typical": func() interface{} {
			return &nodesTypes.MsgSend{FromAddress: cAddr(1), ToAddress: cAddr(2), Amount: sdk.NewInt(1000000)}
		},
		"max": func() interface{} {
			return &nodesTypes.MsgSend{FromAddress: cAddr(1), ToAddress: cAddr(1), Amount: maxBig}
		},
		"zeroamt": func() interface{} {
			return &nodesTypes.MsgSend{FromAddress: cAddr(1), ToAddress: cAddr(2), Amount: sdk.ZeroInt()}
		},
		"negative": func() interface{} {
			return &nodesTypes.MsgSend{FromAddress: cAddr(1), ToAddress: cAddr(2), Amount: sdk.NewInt(-5)}
		},
		"nils": func() interface{} { return &nodesTypes.MsgSend{Amount: sdk.NewInt(1)} },
	})
	simple("nodes.ValidatorSigningInfo", true, false, func() interface{} { return &nodesTypes.ValidatorSigningInfo{} }, map[string]func() interface{}{
		"typical": func() interface{} {
			return &nodesTypes.ValidatorSigningInfo{Address: cAddr(1), StartHeight: 10, Index: 3, JailedUntil: tTypical(), MissedBlocksCounter: 2, JailedBlocksCounter: 1}
		},
		"zero": func() interface{} { return &nodesTypes.ValidatorSigningInfo{} },
		"max": func() interface{} {
			return &nodesTypes.ValidatorSigningInfo{Address: cAddr(1), StartHeight: math.MaxInt64, Index: math.MaxInt64, JailedUntil: tFar(),
				MissedBlocksCounter: math.MaxInt64, JailedBlocksCounter: math.MinInt64}
		},
	})

	// ------------------------------------------------------------ x/apps
	app := func(f func(a *appsTypes.Application)) func() interface{} {
		return func() interface{} {
			a := &appsTypes.Application{Address: sdk.Address(cEd(3).Address()), PublicKey: cEd(3), Status: sdk.Staked, Chains: chainsN(2),
				StakedTokens: sdk.NewInt(1000000), MaxRelays: sdk.NewInt(250000)}
			f(a)
			return a
		}
	}
	for shape, f := range map[string]func(a *appsTypes.Application){
		"typical": func(a *appsTypes.Application) {},
		"nils":    func(a *appsTypes.Application) { a.Chains = nil },
		"empties": func(a *appsTypes.Application) { a.Chains = []string{} },
		"max": func(a *appsTypes.Application) {
			a.Jailed, a.Status, a.Chains, a.StakedTokens, a.MaxRelays, a.UnstakingCompletionTime = true, sdk.Unstaking, chainsN(15), maxBig, maxBig, tFar()
		},
		"unstaking": func(a *appsTypes.Application) { a.Status, a.UnstakingCompletionTime = sdk.Unstaking, tTypical() },
		"secp":      func(a *appsTypes.Application) { a.PublicKey, a.Address = cSecp(3), sdk.Address(cSecp(3).Address()) },
		"multisig":  func(a *appsTypes.Application) { a.PublicKey, a.Address = cMulti(2), sdk.Address(cMulti(2).Address()) },
	} {
		addCase(caseDef{typ: "apps.Application", shape: shape, mk: app(f), zero: func() interface{} { return &appsTypes.Application{} },
			amino: true, proto: true, json: true})
	}
	simple("apps.MsgStake", true, true, func() interface{} { return &appsTypes.MsgStake{} }, map[string]func() interface{}{
		"typical": func() interface{} {
			return &appsTypes.MsgStake{PubKey: cEd(3), Chains: chainsN(2), Value: sdk.NewInt(1000000)}
		},
		"nils": func() interface{} { return &appsTypes.MsgStake{PubKey: cEd(3), Chains: nil, Value: sdk.NewInt(1)} },
		"empties": func() interface{} {
			return &appsTypes.MsgStake{PubKey: cEd(3), Chains: []string{}, Value: sdk.ZeroInt()}
		},
		"max": func() interface{} { return &appsTypes.MsgStake{PubKey: cEd(3), Chains: chainsN(15), Value: maxBig} },
		"secp": func() interface{} {
			return &appsTypes.MsgStake{PubKey: cSecp(3), Chains: chainsN(1), Value: sdk.NewInt(1000000)}
		},
		"multisig": func() interface{} {
			return &appsTypes.MsgStake{PubKey: cMulti(3), Chains: chainsN(1), Value: sdk.NewInt(1000000)}
		},
	})
	simple("apps.MsgBeginUnstake", true, true, func() interface{} { return &appsTypes.MsgBeginUnstake{} }, map[string]func() interface{}{
		"typical": func() interface{} { return &appsTypes.MsgBeginUnstake{Address: cAddr(3)} },
		"zero":    func() interface{} { return &appsTypes.MsgBeginUnstake{} },
	})
	simple("apps.MsgUnjail", true, true, func() interface{} { return &appsTypes.MsgUnjail{} }, map[string]func() interface{}{
		"typical": func() interface{} { return &appsTypes.MsgUnjail{AppAddr: cAddr(3)} },
		"zero":    func() interface{} { return &appsTypes.MsgUnjail{} },
	})

	// ------------------------------------------------------------ x/pocketcore
	simple("pocketcore.MsgClaim", true, true, func() interface{} { return &pcTypes.MsgClaim{} }, map[string]func() interface{}{
		"typical": func() interface{} {
			return &pcTypes.MsgClaim{SessionHeader: sessionHeader(), MerkleRoot: hashRange(1, 0, 12345), TotalProofs: 100, FromAddress: cAddr(1),
				EvidenceType: pcTypes.RelayEvidence}
		},
		"stored": func() interface{} { // a claim as the keeper stores it (expiration set)
			return &pcTypes.MsgClaim{SessionHeader: sessionHeader(), MerkleRoot: hashRange(1, 0, 12345), TotalProofs: 100, FromAddress: cAddr(1),
				EvidenceType: pcTypes.ChallengeEvidence, ExpirationHeight: 5000}
		},
		"zero": func() interface{} { return &pcTypes.MsgClaim{} },
		"max": func() interface{} {
			return &pcTypes.MsgClaim{SessionHeader: pcTypes.SessionHeader{ApplicationPubKey: longStr(200), Chain: longStr(50), SessionBlockHeight: math.MaxInt64},
				MerkleRoot: hashRange(2, math.MaxUint64, math.MaxUint64), TotalProofs: math.MaxInt64, FromAddress: cAddr(1),
				EvidenceType: pcTypes.ChallengeEvidence, ExpirationHeight: math.MaxInt64}
		},
		"empties": func() interface{} {
			return &pcTypes.MsgClaim{MerkleRoot: pcTypes.HashRange{Hash: []byte{}}, FromAddress: sdk.Address{}}
		},
	})
	merkle := func(n int) pcTypes.MerkleProof {
		mp := pcTypes.MerkleProof{TargetIndex: 3, Target: hashRange(9, 10, 20)}
		for i := 0; i < n; i++ {
			mp.HashRanges = append(mp.HashRanges, hashRange(i, uint64(i*10), uint64(i*10+10)))
		}
		return mp
	}
	simple("pocketcore.MsgProof", true, true, func() interface{} { return &pcTypes.MsgProof{} }, map[string]func() interface{}{
		"relay": func() interface{} {
			return &pcTypes.MsgProof{MerkleProof: merkle(4), Leaf: relayProof(1), EvidenceType: pcTypes.RelayEvidence}
		},
		"challenge": func() interface{} {
			return &pcTypes.MsgProof{MerkleProof: merkle(3), Leaf: challenge(), EvidenceType: pcTypes.ChallengeEvidence}
		},
		"nils": func() interface{} {
			return &pcTypes.MsgProof{MerkleProof: pcTypes.MerkleProof{}, Leaf: pcTypes.RelayProof{}, EvidenceType: pcTypes.RelayEvidence}
		},
		"empties": func() interface{} {
			return &pcTypes.MsgProof{MerkleProof: pcTypes.MerkleProof{HashRanges: []pcTypes.HashRange{}, Target: pcTypes.HashRange{Hash: []byte{}}},
				Leaf: pcTypes.ChallengeProofInvalidData{MajorityResponses: []pcTypes.RelayResponse{}, ReporterAddress: sdk.Address{}}, EvidenceType: pcTypes.ChallengeEvidence}
		},
		"max": func() interface{} {
			rp := relayProof(2)
			rp.Entropy, rp.SessionBlockHeight, rp.RequestHash = math.MaxInt64, math.MaxInt64, longStr(300)
			mp := merkle(40)
			mp.TargetIndex = math.MaxInt64
			return &pcTypes.MsgProof{MerkleProof: mp, Leaf: rp, EvidenceType: pcTypes.RelayEvidence}
		},
	})
	ev := func(n int, challengeToo bool, et pcTypes.EvidenceType) func() interface{} {
		return func() interface{} {
			e := &pcTypes.Evidence{Bloom: bloomWith(n), SessionHeader: sessionHeader(), NumOfProofs: int64(n), EvidenceType: et}
			for i := 0; i < n; i++ {
				if challengeToo && i%2 == 1 {
					e.Proofs = append(e.Proofs, challenge())
				} else {
					e.Proofs = append(e.Proofs, relayProof(i))
				}
			}
			return e
		}
	}
	for shape, mk := range map[string]func() interface{}{
		"relay3": ev(3, false, pcTypes.RelayEvidence), "mixed4": ev(4, true, pcTypes.ChallengeEvidence),
		"noproofs": ev(0, false, pcTypes.RelayEvidence), "one": ev(1, false, pcTypes.RelayEvidence),
		"emptyproofs": func() interface{} {
			e := ev(0, false, pcTypes.RelayEvidence)().(*pcTypes.Evidence)
			e.Proofs = pcTypes.Proofs{}
			return e
		},
	} {
		addCase(caseDef{typ: "pocketcore.Evidence", shape: shape, mk: mk, zero: func() interface{} { return &pcTypes.Evidence{} }, proto: true})
	}

	simple("pocketcore.Session", false, false, func() interface{} { return &pcTypes.Session{} }, map[string]func() interface{}{
		"typical": func() interface{} {
			return &pcTypes.Session{SessionHeader: sessionHeader(), SessionKey: pcTypes.SessionKey(hashRange(3, 0, 0).Hash),
				SessionNodes: pcTypes.SessionNodes{cAddr(1), cAddr(2), cAddr(3)}}
		},
		"nils": func() interface{} { return &pcTypes.Session{SessionHeader: sessionHeader()} },
		"empties": func() interface{} {
			return &pcTypes.Session{SessionKey: pcTypes.SessionKey{}, SessionNodes: pcTypes.SessionNodes{}}
		},
	})

	// ------------------------------------------------------------ x/gov
	simple("gov.MsgChangeParam", true, true, func() interface{} { return &govTypes.MsgChangeParam{} }, map[string]func() interface{}{
		"typical": func() interface{} {
			return &govTypes.MsgChangeParam{FromAddress: cAddr(5), ParamKey: "pos/StakeMinimum", ParamVal: []byte("\"15000000000\"")}
		},
		"nils": func() interface{} { return &govTypes.MsgChangeParam{FromAddress: cAddr(5), ParamKey: "gov/acl"} },
		"empties": func() interface{} {
			return &govTypes.MsgChangeParam{FromAddress: sdk.Address{}, ParamKey: "", ParamVal: []byte{}}
		},
		"max": func() interface{} {
			return &govTypes.MsgChangeParam{FromAddress: cAddr(5), ParamKey: longStr(200), ParamVal: []byte(strings.Repeat("{\"a\":1}", 300))}
		},
	})
	simple("gov.MsgDAOTransfer", true, true, func() interface{} { return &govTypes.MsgDAOTransfer{} }, map[string]func() interface{}{
		"typical": func() interface{} {
			return &govTypes.MsgDAOTransfer{FromAddress: cAddr(5), ToAddress: cAddr(6), Amount: sdk.NewInt(1000), Action: "dao_transfer"}
		},
		"burn": func() interface{} {
			return &govTypes.MsgDAOTransfer{FromAddress: cAddr(5), Amount: maxBig, Action: "dao_burn"}
		},
	})
	simple("gov.MsgUpgrade", true, true, func() interface{} { return &govTypes.MsgUpgrade{} }, map[string]func() interface{}{
		"typical": func() interface{} {
			return &govTypes.MsgUpgrade{Address: cAddr(5), Upgrade: govTypes.Upgrade{Height: 30024, Version: "0.6.0"}}
		},
		"features": func() interface{} {
			return &govTypes.MsgUpgrade{Address: cAddr(5), Upgrade: govTypes.Upgrade{Height: 1, Version: "FEATURE", Features: []string{"REDUP:5", "NCUST:7"}}}
		},
		"empties": func() interface{} {
			return &govTypes.MsgUpgrade{Address: cAddr(5), Upgrade: govTypes.Upgrade{Height: 9, Version: "1.0.0", Features: []string{}}}
		},
		"max": func() interface{} {
			return &govTypes.MsgUpgrade{Address: cAddr(5), Upgrade: govTypes.Upgrade{Height: math.MaxInt64, Version: longStr(60), OldUpgradeHeight: math.MaxInt64,
				Features: []string{"A:1", "B:2", "C:3", "D:4", "E:5", "F:6", "G:9223372036854775807"}}}
		},
	})
	aclCase := func(shapes map[string]func() interface{}) {
		for shape, mk := range shapes {
			addCase(caseDef{typ: "gov.ACL", shape: shape, mk: mk, zero: func() interface{} { return &govTypes.ACL{} }, json: true})
		}
	}
	aclCase(map[string]func() interface{}{
		"typical": func() interface{} {
			a := govTypes.ACL{{Key: "pos/StakeMinimum", Addr: cAddr(5)}, {Key: "gov/acl", Addr: cAddr(6)}}
			return &a
		},
		"empties": func() interface{} { a := govTypes.ACL{}; return &a },
		"nils":    func() interface{} { var a govTypes.ACL; return &a },
	})
	simple("gov.Upgrade", true, false, func() interface{} { return &govTypes.Upgrade{} }, map[string]func() interface{}{
		"typical": func() interface{} { return &govTypes.Upgrade{Height: 30024, Version: "0.6.0"} },
		"features": func() interface{} {
			return &govTypes.Upgrade{Height: 100, Version: "0.9.0", OldUpgradeHeight: 50, Features: []string{"REDUP:5"}}
		},
		"zero": func() interface{} { return &govTypes.Upgrade{} },
	})

	// ------------------------------------------------------------ x/auth
	simple("auth.BaseAccount", true, false, func() interface{} { return &authTypes.BaseAccount{} }, map[string]func() interface{}{
		"typical": func() interface{} {
			return &authTypes.BaseAccount{Address: sdk.Address(cEd(7).Address()), Coins: coins(5000000), PubKey: cEd(7)}
		},
		"nopubkey": func() interface{} { return &authTypes.BaseAccount{Address: cAddr(7), Coins: coins(1)} },
		"nils":     func() interface{} { return &authTypes.BaseAccount{Address: cAddr(7)} },
		"empties":  func() interface{} { return &authTypes.BaseAccount{Address: cAddr(7), Coins: sdk.Coins{}} },
		"twocoins": func() interface{} {
			return &authTypes.BaseAccount{Address: cAddr(7), Coins: coins(7, 9), PubKey: cSecp(7)}
		},
		"max": func() interface{} {
			return &authTypes.BaseAccount{Address: cAddr(7), Coins: sdk.Coins{{Denom: "upokt", Amount: maxBig}}, PubKey: cEd(7)}
		},
		"multisig": func() interface{} {
			return &authTypes.BaseAccount{Address: sdk.Address(cMulti(3).Address()), Coins: coins(10), PubKey: cMulti(3)}
		},
	})
	mod := func(f func(m *authTypes.ModuleAccount)) func() interface{} {
		return func() interface{} {
			m := authTypes.NewEmptyModuleAccount("application_stakes_pool", "burner", "minter", "staking")
			m.Coins = coins(123456)
			f(m)
			return m
		}
	}
	for shape, f := range map[string]func(m *authTypes.ModuleAccount){
		"typical": func(m *authTypes.ModuleAccount) {},
		"nils":    func(m *authTypes.ModuleAccount) { m.Permissions, m.Coins = nil, nil },
		"empties": func(m *authTypes.ModuleAccount) { m.Permissions, m.Coins = []string{}, sdk.Coins{} },
	} {
		addCase(caseDef{typ: "auth.ModuleAccount", shape: shape, mk: mod(f), zero: func() interface{} { return &authTypes.ModuleAccount{} },
			amino: true, proto: true, json: true})
	}
	simple("auth.Supply", true, false, func() interface{} { return &authTypes.Supply{} }, map[string]func() interface{}{
		"typical": func() interface{} { return &authTypes.Supply{Total: coins(650000000000000)} },
		"nils":    func() interface{} { return &authTypes.Supply{} },
		"empties": func() interface{} { return &authTypes.Supply{Total: sdk.Coins{}} },
		"max": func() interface{} {
			return &authTypes.Supply{Total: sdk.Coins{{Denom: "upokt", Amount: maxBig}, {Denom: "zcoin", Amount: sdk.NewInt(1)}}}
		},
	})

	// ------------------------------------------------------------ parameters (stored as sorted amino JSON)
	param := func(shape string, mk func() interface{}, zero func() interface{}) {
		addCase(caseDef{typ: "param", shape: shape, mk: mk, zero: zero, json: true})
	}
	param("int64", func() interface{} { v := int64(math.MaxInt64); return &v }, func() interface{} { v := int64(0); return &v })
	param("int64neg", func() interface{} { v := int64(math.MinInt64); return &v }, func() interface{} { v := int64(0); return &v })
	param("uint64", func() interface{} { v := uint64(math.MaxUint64); return &v }, func() interface{} { v := uint64(0); return &v })
	param("duration", func() interface{} { v := 504 * time.Hour; return &v }, func() interface{} { v := time.Duration(0); return &v })
	param("string", func() interface{} { v := "upokt <&>   \"q\""; return &v }, func() interface{} { v := ""; return &v })
	param("bool", func() interface{} { v := true; return &v }, func() interface{} { v := false; return &v })
	param("dec", func() interface{} { v := sdk.NewDecWithPrec(5, 2); return &v }, func() interface{} { return &sdk.BigDec{} })
	param("strings", func() interface{} { v := chainsN(5); return &v }, func() interface{} { return &[]string{} })
	param("stringsempty", func() interface{} { v := []string{}; return &v }, func() interface{} { return &[]string{} })
	param("map", func() interface{} {
		v := map[string]int64{"0021": math.MaxInt64, "0001": 1, "03DF": -7, "0040": 9007199254740993}
		return &v
	}, func() interface{} { return &map[string]int64{} })
	param("feemultipliers", func() interface{} {
		return &authTypes.FeeMultipliers{FeeMultis: []authTypes.FeeMultiplier{{Key: "send", Multiplier: 2}, {Key: "stake_validator", Multiplier: math.MaxInt64}}, Default: 1}
	}, func() interface{} { return &authTypes.FeeMultipliers{} })
	param("address", func() interface{} { v := cAddr(8); return &v }, func() interface{} { return &sdk.Address{} })
}

// msgCases returns the catalogue entries that are transaction messages.
func msgCases() []*caseDef {
	buildCatalogue()
	var out []*caseDef
	for i := range allCases {
		if allCases[i].msg {
			out = append(out, &allCases[i])
		}
	}
	return out
}
