package main

// canon renders any value of the codec catalogue as a canonical text, so that an original
// and its decoded copy can be compared without relying on the code under test (no
// Marshal / String methods of the value are used, only reflection over its fields).
//
// strict: nil and empty slices / maps / byte strings are told apart.
// loose:  they are identified (the equivalences the types themselves define: a repeated
//         protobuf field, an amino list or a JSON array has no nil-versus-empty
//         distinction, sdk.Address.Empty(), Coins.Empty() ... treat them alike); every
//         place where only the loose comparison succeeds is recorded by the caller.

import (
	"fmt"
	"math/big"
	"reflect"
	"sort"
	"strings"
	"time"
	"unsafe"

	"github.com/willf/bloom"
)

var (
	bigIntType = reflect.TypeOf(big.Int{})
	timeType   = reflect.TypeOf(time.Time{})
	bloomType  = reflect.TypeOf(bloom.BloomFilter{})
)

func canon(v interface{}, strict bool) string {
	var sb strings.Builder
	canonValue(&sb, reflect.ValueOf(v), strict, 0)
	return sb.String()
}

// addressable returns v or an addressable copy of it, so that unexported fields below it
// (sdk.BigInt.i, sdk.BigDec.i) can be read through unsafe pointers.
func addressable(v reflect.Value) reflect.Value {
	if v.CanAddr() || !v.CanInterface() {
		return v
	}
	nv := reflect.New(v.Type()).Elem()
	nv.Set(v)
	return nv
}

func access(fv reflect.Value) reflect.Value {
	if fv.CanInterface() || !fv.CanAddr() {
		return fv
	}
	return reflect.NewAt(fv.Type(), unsafe.Pointer(fv.UnsafeAddr())).Elem()
}

func canonValue(sb *strings.Builder, v reflect.Value, strict bool, depth int) {
	if depth > 40 {
		sb.WriteString("<deep>")
		return
	}
	if !v.IsValid() {
		sb.WriteString("nil")
		return
	}
	v = addressable(v)
	switch v.Type() {
	case bigIntType:
		if v.CanAddr() {
			sb.WriteString("big:" + v.Addr().Interface().(*big.Int).String())
		} else {
			b := v.Interface().(big.Int)
			sb.WriteString("big:" + b.String())
		}
		return
	case timeType:
		t := v.Interface().(time.Time)
		sb.WriteString(fmt.Sprintf("time:%d.%09d", t.Unix(), t.Nanosecond()))
		return
	case bloomType:
		b := v.Interface().(bloom.BloomFilter)
		func() {
			defer func() {
				if r := recover(); r != nil {
					sb.WriteString("bloom:<uninitialised>")
				}
			}()
			enc, err := b.GobEncode()
			sb.WriteString(fmt.Sprintf("bloom:%x:%v", enc, err))
		}()
		return
	}
	switch v.Kind() {
	case reflect.Ptr:
		if v.IsNil() {
			// a nil *big.Int inside sdk.BigInt is the zero value of the wrapper
			if v.Type().Elem() == bigIntType {
				if strict {
					sb.WriteString("big:nil")
				} else {
					sb.WriteString("big:0")
				}
				return
			}
			sb.WriteString("nil")
			return
		}
		canonValue(sb, v.Elem(), strict, depth+1)
	case reflect.Interface:
		if v.IsNil() {
			sb.WriteString("nil")
			return
		}
		e := v.Elem()
		for e.Kind() == reflect.Ptr && !e.IsNil() {
			e = e.Elem()
		}
		sb.WriteString("<" + e.Type().String() + ">")
		canonValue(sb, e, strict, depth+1)
	case reflect.Struct:
		sb.WriteString("{")
		t := v.Type()
		for i := 0; i < v.NumField(); i++ {
			f := t.Field(i)
			if strings.HasPrefix(f.Name, "XXX_") {
				continue
			}
			sb.WriteString(f.Name + ":")
			fv := access(v.Field(i))
			if !fv.CanInterface() {
				sb.WriteString("<unreadable>")
			} else {
				canonValue(sb, fv, strict, depth+1)
			}
			sb.WriteString(";")
		}
		sb.WriteString("}")
	case reflect.Slice:
		if v.Type().Elem().Kind() == reflect.Uint8 {
			if v.IsNil() && strict {
				sb.WriteString("bytes:nil")
			} else {
				sb.WriteString(fmt.Sprintf("bytes:%x", v.Bytes()))
			}
			return
		}
		if v.IsNil() && strict {
			sb.WriteString("slice:nil")
			return
		}
		sb.WriteString("[")
		for i := 0; i < v.Len(); i++ {
			canonValue(sb, v.Index(i), strict, depth+1)
			sb.WriteString(",")
		}
		sb.WriteString("]")
	case reflect.Array:
		sb.WriteString("arr[")
		for i := 0; i < v.Len(); i++ {
			canonValue(sb, v.Index(i), strict, depth+1)
			sb.WriteString(",")
		}
		sb.WriteString("]")
	case reflect.Map:
		if v.IsNil() && strict {
			sb.WriteString("map:nil")
			return
		}
		keys := v.MapKeys()
		strs := make([]string, len(keys))
		for i, k := range keys {
			var kb, vb strings.Builder
			canonValue(&kb, k, strict, depth+1)
			canonValue(&vb, v.MapIndex(k), strict, depth+1)
			strs[i] = kb.String() + "=>" + vb.String()
		}
		sort.Strings(strs)
		sb.WriteString("map[" + strings.Join(strs, ",") + "]")
	case reflect.String:
		sb.WriteString(fmt.Sprintf("%q", v.String()))
	case reflect.Bool:
		sb.WriteString(fmt.Sprintf("%v", v.Bool()))
	case reflect.Int, reflect.Int8, reflect.Int16, reflect.Int32, reflect.Int64:
		sb.WriteString(fmt.Sprintf("%d", v.Int()))
	case reflect.Uint, reflect.Uint8, reflect.Uint16, reflect.Uint32, reflect.Uint64:
		sb.WriteString(fmt.Sprintf("%d", v.Uint()))
	case reflect.Float32, reflect.Float64:
		sb.WriteString(fmt.Sprintf("%g", v.Float()))
	default:
		sb.WriteString(fmt.Sprintf("?%s", v.Kind()))
	}
}

// firstDiff locates the first position where two canonical texts differ (for reports).
func firstDiff(a, b string) string {
	n := len(a)
	if len(b) < n {
		n = len(b)
	}
	i := 0
	for i < n && a[i] == b[i] {
		i++
	}
	lo := i - 60
	if lo < 0 {
		lo = 0
	}
	cut := func(s string) string {
		hi := i + 60
		if hi > len(s) {
			hi = len(s)
		}
		if lo > len(s) {
			return ""
		}
		return s[lo:hi]
	}
	return fmt.Sprintf("at %d: want ...%s... got ...%s...", i, cut(a), cut(b))
}

// nilEmptyPaths walks an original and its decoded copy in parallel and lists the places
// where they differ only as nil versus empty (documenting each equivalence the loose
// comparison relied on), e.g. "Validator.Chains: empty -> nil".
func nilEmptyPaths(orig, dec interface{}) []string {
	set := map[string]bool{}
	walkPair(reflect.ValueOf(orig), reflect.ValueOf(dec), "", set, 0)
	out := make([]string, 0, len(set))
	for k := range set {
		out = append(out, k)
	}
	sort.Strings(out)
	return out
}

func emptiness(v reflect.Value) string {
	if v.IsNil() {
		return "nil"
	}
	if v.Len() == 0 {
		return "empty"
	}
	return "filled"
}

func walkPair(a, b reflect.Value, path string, set map[string]bool, depth int) {
	if depth > 40 || !a.IsValid() || !b.IsValid() {
		return
	}
	a, b = addressable(a), addressable(b)
	for (a.Kind() == reflect.Ptr || a.Kind() == reflect.Interface) && !a.IsNil() {
		if a.Kind() == reflect.Ptr && a.Type().Elem() == bigIntType {
			break
		}
		a = addressable(a.Elem())
	}
	for (b.Kind() == reflect.Ptr || b.Kind() == reflect.Interface) && !b.IsNil() {
		if b.Kind() == reflect.Ptr && b.Type().Elem() == bigIntType {
			break
		}
		b = addressable(b.Elem())
	}
	if a.Type() != b.Type() {
		return
	}
	if path == "" {
		path = a.Type().Name()
		if path == "" {
			path = a.Type().String()
		}
	}
	switch a.Kind() {
	case reflect.Ptr:
		if a.Type().Elem() == bigIntType && a.IsNil() != b.IsNil() {
			set[path+": nil big.Int <-> 0"] = true
		}
	case reflect.Struct:
		if a.Type() == bigIntType || a.Type() == timeType || a.Type() == bloomType {
			return
		}
		for i := 0; i < a.NumField(); i++ {
			fa, fb := access(a.Field(i)), access(b.Field(i))
			if !fa.CanInterface() || !fb.CanInterface() {
				continue
			}
			walkPair(fa, fb, path+"."+a.Type().Field(i).Name, set, depth+1)
		}
	case reflect.Slice, reflect.Map:
		ea, eb := emptiness(a), emptiness(b)
		if ea != eb && ea != "filled" && eb != "filled" {
			set[path+": "+ea+" -> "+eb] = true
			return
		}
		if a.Kind() == reflect.Slice && a.Type().Elem().Kind() != reflect.Uint8 && a.Len() == b.Len() {
			for i := 0; i < a.Len(); i++ {
				walkPair(a.Index(i), b.Index(i), path+"[]", set, depth+1)
			}
		}
	}
}
