// vh-crypto: crypto engine (C39 signatures, C40 keybase / armor, C38 codec round trips).
//
//	vh-crypto replay-sig -in behaviours [-variants ed,secp,mixed] [-known-empty-multisig]
//	vh-crypto trace-sig  -out trace.ndjson -n TRACES
//	vh-crypto empty-multisig
//	vh-crypto replay-keybase -in behaviours -variants mem,lazy [-sample N -offset O]
//	vh-crypto replay-codec   -in behaviours [-known F-...]
//	vh-crypto trace-codec    -out trace.ndjson -n TRACES
//	vh-crypto list-cases
//	vh-crypto trace-keybase  -out trace.ndjson -n TRACES -steps K -variants mem,lazy
package main

import (
	"flag"
	"fmt"
	"os"
)

func main() {
	if len(os.Args) < 2 {
		fmt.Fprintln(os.Stderr, "usage: vh-crypto <command> ...")
		os.Exit(2)
	}
	cmd := os.Args[1]
	fs := flag.NewFlagSet(cmd, flag.ExitOnError)
	in := fs.String("in", "", "behaviour file")
	out := fs.String("out", "", "trace output file")
	variants := fs.String("variants", "ed,secp,mixed", "comma separated variants")
	n := fs.Int("n", 10, "number of traces")
	steps := fs.Int("steps", 30, "steps per trace")
	sample := fs.Int("sample", 1, "replay only every sample-th behaviour")
	offset := fs.Int("offset", 0, "offset of the sampled behaviours")
	npass := fs.Int("npass", 2, "number of passphrase ids of the specification instance")
	shard := fs.Int("shard", 0, "shard index (replay-codec)")
	nshards := fs.Int("nshards", 1, "number of shards: only behaviours with index = shard mod nshards are replayed")
	known := fs.String("known", "", "comma separated ids of known findings (counted instead of reported)")
	knownEmpty := fs.Bool("known-empty-multisig", false, "count (instead of reporting) the known empty-multisig deviation")
	_ = fs.Parse(os.Args[2:])
	switch cmd {
	case "replay-sig":
		replaySig(*in, *variants, *knownEmpty)
	case "trace-sig":
		traceSig(*out, *n)
	case "replay-keybase":
		replayKeybase(*in, *variants, *sample, *offset, *npass)
	case "trace-keybase":
		traceKeybase(*out, *n, *steps, *variants)
	case "replay-codec":
		replayCodec(*in, *known, *shard, *nshards)
	case "trace-codec":
		traceCodec(*out, *n)
	case "list-cases":
		listCases()
	case "empty-multisig":
		emptyMultisig()
	default:
		fmt.Fprintln(os.Stderr, "unknown command", cmd)
		os.Exit(2)
	}
}
