package main

import (
	"fmt"
	"time"

	"github.com/pokt-network/pocket-core/crypto/keys"
	"github.com/pokt-network/pocket-core/crypto/keys/mintkey"
)

func probe() {
	kb := keys.NewInMemory()
	t0 := time.Now()
	kp, err := kb.Create("pass")
	fmt.Println("create", time.Since(t0), err)
	t0 = time.Now()
	_, err = kb.ExportPrivateKeyObject(kp.GetAddress(), "pass")
	fmt.Println("export", time.Since(t0), err)
	t0 = time.Now()
	_, err = kb.ExportPrivateKeyObject(kp.GetAddress(), "wrong")
	fmt.Println("export wrong", time.Since(t0), err)
	fmt.Println(kp.PrivKeyArmor)
	a, err := kb.ExportPrivKeyEncryptedArmor(kp.GetAddress(), "pass", "", "hint\"x")
	fmt.Println(a, err)
	k, err := mintkey.UnarmorDecryptPrivKey(a, "")
	fmt.Println(k != nil, err)
	l, _ := kb.List()
	fmt.Println(len(l))
}
