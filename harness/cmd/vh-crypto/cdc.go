package main

import (
	"sync"

	"github.com/pokt-network/pocket-core/codec"
	cdcTypes "github.com/pokt-network/pocket-core/codec/types"
	"github.com/pokt-network/pocket-core/crypto"
	sdk "github.com/pokt-network/pocket-core/types"
	appsTypes "github.com/pokt-network/pocket-core/x/apps/types"
	authTypes "github.com/pokt-network/pocket-core/x/auth/types"
	govTypes "github.com/pokt-network/pocket-core/x/gov/types"
	nodesTypes "github.com/pokt-network/pocket-core/x/nodes/types"
	pcTypes "github.com/pokt-network/pocket-core/x/pocketcore/types"
	cryptoamino "github.com/tendermint/tendermint/crypto/encoding/amino"
)

var (
	cdcOnce sync.Once
	theCdc  *codec.Codec
)

// fullCodec builds the codec the way app.MakeCodec does: one codec.Codec on which every
// module registers its types (each module's RegisterCodec also makes it the module's
// ModuleCdc, exactly as in a running node).
func fullCodec() *codec.Codec {
	cdcOnce.Do(func() {
		cdc := codec.NewCodec(cdcTypes.NewInterfaceRegistry())
		appsTypes.RegisterCodec(cdc)
		authTypes.RegisterCodec(cdc)
		govTypes.RegisterCodec(cdc)
		nodesTypes.RegisterCodec(cdc)
		pcTypes.RegisterCodec(cdc)
		sdk.RegisterCodec(cdc)
		crypto.RegisterAmino(cdc.AminoCodec().Amino)
		cryptoamino.RegisterAmino(cdc.AminoCodec().Amino)
		codec.RegisterEvidences(cdc.AminoCodec(), cdc.ProtoCodec())
		theCdc = cdc
	})
	return theCdc
}

func buildSendTx(from, to sdk.Address, amount int64, pk crypto.PublicKey, sig []byte, entropy int64) ([]byte, error) {
	cdc := fullCodec()
	msg := &nodesTypes.MsgSend{FromAddress: from, ToAddress: to, Amount: sdk.NewInt(amount)}
	fee := sdk.NewCoins(sdk.NewCoin(sdk.DefaultStakeDenom, sdk.NewInt(10000)))
	tx := authTypes.NewTx(msg, fee, authTypes.StdSignature{PublicKey: pk, Signature: sig}, "", entropy)
	return authTypes.DefaultTxEncoder(cdc)(tx, -1)
}
