package main

import (
	"encoding/json"
	"fmt"
	"reflect"
	"sort"

	"verifharness/internal/hx"
)

// fields of the projection the design model owns (MCChainNodes.FocusFields)
var replayFields = []string{"bal", "supply", "nopk", "val", "ixStaked", "ixChain", "ixUnstaking", "ixWaiting",
	"prevPower", "prevTotal", "signing", "prevProposer", "tmSet", "missed"}

// canon maps both JSON renderings (TLC's ToJson and encoding/json) to one shape: empty
// functions / sequences / sets all become nil.
func canon(v interface{}) interface{} {
	switch x := v.(type) {
	case map[string]interface{}:
		if len(x) == 0 {
			return nil
		}
		out := map[string]interface{}{}
		for k, e := range x {
			out[k] = canon(e)
		}
		return out
	case []interface{}:
		if len(x) == 0 {
			return nil
		}
		out := make([]interface{}, len(x))
		for i, e := range x {
			out[i] = canon(e)
		}
		return out
	}
	return v
}

// diffState returns the first owned field on which spec and real state differ.
func diffState(want interface{}, got map[string]interface{}) (string, string) {
	w, ok := want.(map[string]interface{})
	if !ok {
		return "?", "expected state is not an object"
	}
	for _, f := range replayFields {
		a, b := canon(w[f]), canon(got[f])
		if !reflect.DeepEqual(a, b) {
			ab, _ := json.Marshal(a)
			bb, _ := json.Marshal(b)
			return f, fmt.Sprintf("%s: spec=%s real=%s", f, ab, bb)
		}
	}
	return "", ""
}

func namesOf(v interface{}) []string {
	out := strs(v)
	sort.Strings(out)
	return out
}

// replayNodes replays TLC behaviours of MCChainNodes (one block per history entry) on the
// real application, comparing the projected state after BeginBlock, after every DeliverTx
// and after EndBlock, and the reported validator updates.  A behaviour stops at its first
// divergence.  Chains have process-global state: behaviours run sequentially; use
// -shard/-of to spread them over processes.
func replayNodes(in string, shard, of int) {
	rep := hx.NewReport("chain-nodes", "replay-nodes")
	seen := map[string]bool{}
	err := hx.ReadBehaviours(in, func(idx int, beh []hx.Step) error {
		if idx%of != shard {
			return nil
		}
		rep.Behaviours++
		raw, _ := json.Marshal(beh)
		fresh := !seen[string(raw)]
		seen[string(raw)] = true
		w := newWorld(designCfg(hx.Seed()))
		nontrivial := false
		mismatch := func(step int, op, field, what string) {
			rep.AddMismatch(hx.Mismatch{Behaviour: idx, Step: step, Op: op, What: what, Variant: field, History: beh})
		}
	steps:
		for si, e := range beh {
			rep.Steps++
			var evs []evidenceSpec
			if arr, ok := e["evidence"].([]interface{}); ok {
				for _, x := range arr {
					t := x.([]interface{})
					evs = append(evs, evidenceSpec{Node: t[0].(string), Height: int64(t[1].(float64)), Time: int64(t[2].(float64)), Power: int64(t[3].(float64))})
				}
			}
			if len(evs) > 0 || len(namesOf(e["absent"])) > 0 {
				nontrivial = true
			}
			w.begin(blockOpts{Dt: int64(e.Int("dt")), Proposer: e.Str("proposer"), Absent: namesOf(e["absent"]), Evidence: evs})
			if w.s.Height != int64(e.Int("h")) || w.t != int64(e.Int("t")) {
				hx.Fatal("behaviour %d step %d: height/time out of step (real %d/%d, spec %d/%d)", idx, si, w.s.Height, w.t, e.Int("h"), e.Int("t"))
			}
			st, _ := w.snapshot()
			if f, why := diffState(e["begun"], st); f != "" {
				mismatch(si, "BeginBlock", f, "state after BeginBlock: "+why)
				w.end()
				break
			}
			txs, _ := e["txs"].([]interface{})
			posts, _ := e["posts"].([]interface{})
			for ti, raw := range txs {
				tx := absTx(raw.(map[string]interface{}))
				kind := hx.Step(tx).Str("kind")
				res := w.deliver(w.buildTx(tx), tx)
				post := hx.Step(posts[ti].(map[string]interface{}))
				rep.OpCounts[fmt.Sprintf("%s:%v", kind, res.Code == 0)]++
				if res.Code == 0 {
					nontrivial = true
				}
				if post.Bool("ok") != (res.Code == 0) {
					rep.AddMismatch(hx.Mismatch{Behaviour: idx, Step: si, Op: "DeliverTx:" + kind, What: "result", Variant: "result", Want: post.Bool("ok"),
						Got: fmt.Sprintf("code=%d codespace=%s log=%.160s", res.Code, res.Codespace, res.Log), History: beh})
					w.end()
					break steps
				}
				st, _ = w.snapshot()
				if f, why := diffState(post["st"], st); f != "" {
					mismatch(si, "DeliverTx:"+kind, f, "state after DeliverTx: "+why)
					w.end()
					break steps
				}
			}
			ups := w.updates(w.end())
			st, _ = w.snapshot()
			wantUps, _ := json.Marshal(canon(e["ups"]))
			gotUps, _ := json.Marshal(canon(jsonClone(ups)))
			if string(wantUps) != string(gotUps) {
				mismatch(si, "EndBlock", "updates", fmt.Sprintf("validator updates: spec=%s real=%s", wantUps, gotUps))
				break
			}
			if len(ups) > 0 {
				rep.OpCounts["endblock:updates"]++
			}
			if f, why := diffState(e["ended"], st); f != "" {
				mismatch(si, "EndBlock", f, "state after EndBlock: "+why)
				break
			}
		}
		if fresh && nontrivial {
			rep.Nontrivial++
		}
		if idx%997 == 5 {
			var brief []interface{}
			for _, e := range beh {
				brief = append(brief, map[string]interface{}{"h": e["h"], "dt": e["dt"], "absent": e["absent"], "evidence": e["evidence"], "txs": e["txs"], "ups": e["ups"]})
			}
			rep.AddSample(brief)
		}
		return nil
	})
	if err != nil {
		hx.Fatal("%v", err)
	}
	rep.Distinct = len(seen)
	rep.Print()
}
