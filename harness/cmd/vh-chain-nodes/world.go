package main

import (
	"os"
	"bytes"
	"crypto/sha256"
	"encoding/binary"
	"encoding/hex"
	"encoding/json"
	"sort"
	"time"

	sdk "github.com/pokt-network/pocket-core/types"
	nodesTypes "github.com/pokt-network/pocket-core/x/nodes/types"
	abci "github.com/tendermint/tendermint/abci/types"
	tmtypes "github.com/tendermint/tendermint/types"

	"verifharness/chainsim"
	"verifharness/internal/hx"
)

// ChainUniverse lists every chain id the drivers use (ascending byte order).
var ChainUniverse = []string{"0001", "0002", "0003", "0021", "00a1"}

// nodeCfg describes one world: the small-number economy of the nodes module.
type nodeCfg struct {
	Seed           int64
	GenesisNodes   []chainsim.NodeSpec
	StakeMin       int64
	MaxValidators  int64
	UnstakingTime  int64 // block intervals
	BlocksPerSess  int64
	MaxJailed      int64
	Window         int64
	MinSignedPct   int64 // MinSignedPerWindow in percent
	JailDuration   int64 // block intervals
	DowntimePpm    int64 // SlashFractionDowntime in parts per million
	DoubleSignPct  int64
	MaxChains      int64
	EvidenceAgeMin int64 // MaxEvidenceAge in minutes (= block intervals)
	Ceiling        int64
	Features       map[string]int64 // overrides of activation heights
	Warm           int              // empty blocks before recording / replay starts
}

// key roles (indexes into Sim.Keys): 0,1 genesis nodes; 2 node staked by transaction;
// 3 its output address; 4 delegator / alternative output; 5 unrelated funded key;
// 6 DAO + ACL owner; 7,8 further node keys; 9 never funded.
const (
	kOut   = 3
	kDel   = 4
	kOther = 5
	kOwner = 6
)

func designCfg(seed int64) nodeCfg {
	return nodeCfg{Seed: seed,
		GenesisNodes: []chainsim.NodeSpec{
			{Key: 0, Output: -1, Tokens: 5000000, Chains: []string{"0001"}},
			{Key: 1, Output: -1, Tokens: 3000000, Chains: []string{"0001", "0002"}}},
		StakeMin: 2000000, MaxValidators: 2, UnstakingTime: 2, BlocksPerSess: 2, MaxJailed: 2, Window: 10,
		MinSignedPct: 90, JailDuration: 2, DowntimePpm: 100000, DoubleSignPct: 50, MaxChains: 2,
		EvidenceAgeMin: 30, Ceiling: 4000000, Warm: 2}
}

func traceCfg(seed int64, variant int) nodeCfg {
	c := nodeCfg{Seed: seed,
		GenesisNodes: []chainsim.NodeSpec{
			{Key: 0, Output: -1, Tokens: 5000000, Chains: []string{"0001"}},
			{Key: 1, Output: -1, Tokens: 3000000, Chains: []string{"0001", "0002"}},
			{Key: 7, Output: -1, Tokens: 4000000, Chains: []string{"0002"}}},
		StakeMin: 2000000, MaxValidators: 3, UnstakingTime: 3, BlocksPerSess: 4, MaxJailed: 3, Window: 10,
		MinSignedPct: 80, JailDuration: 3, DowntimePpm: 100000, DoubleSignPct: 50, MaxChains: 2,
		EvidenceAgeMin: 30, Ceiling: 4000000, Warm: 2}
	switch variant % 4 {
	case 1: // features that gate edit-stake rules become active during the run
		c.Features = map[string]int64{"OEDIT": 9, "RewardDelegators": 13, "VEDIT": 6}
		c.MaxValidators = 2
	case 2:
		c.BlocksPerSess, c.UnstakingTime, c.MaxJailed, c.JailDuration = 3, 5, 5, 2
		c.MinSignedPct, c.DowntimePpm = 70, 200000
	case 3:
		c.BlocksPerSess, c.UnstakingTime, c.MaxValidators = 5, 1, 4
		c.Features = map[string]int64{"RSCAL": 0}
	}
	return c
}

func (c nodeCfg) simConfig() chainsim.Config {
	feats := chainsim.DefaultFeatures()
	for k, v := range c.Features {
		feats[k] = v
	}
	return chainsim.Config{Seed: c.Seed, NKeys: 10,
		Balances: map[int]int64{0: 40000000, 1: 40000000, 2: 40000000, 3: 30000000, 4: 20000000, 5: 20000000, 6: 20000000, 7: 40000000, 8: 40000000},
		Nodes:    c.GenesisNodes, DAOTokens: 1000000, DAOOwner: kOwner, Servicer: -1, Features: feats,
		NodeParams: func(p *nodesTypes.Params) {
			p.StakeMinimum = c.StakeMin
			p.MaxValidators = c.MaxValidators
			p.UnstakingTime = time.Duration(c.UnstakingTime) * chainsim.BlockInterval
			p.SessionBlockFrequency = c.BlocksPerSess
			p.MaxJailedBlocks = c.MaxJailed
			p.SignedBlocksWindow = c.Window
			p.MinSignedPerWindow = sdk.NewDecWithPrec(c.MinSignedPct, 2)
			p.DowntimeJailDuration = time.Duration(c.JailDuration) * chainsim.BlockInterval
			p.SlashFractionDowntime = sdk.NewDecWithPrec(c.DowntimePpm, 6)
			p.SlashFractionDoubleSign = sdk.NewDecWithPrec(c.DoubleSignPct, 2)
			p.MaximumChains = c.MaxChains
			p.MaxEvidenceAge = time.Duration(c.EvidenceAgeMin) * time.Minute
			p.ServicerStakeWeightCeiling = c.Ceiling
		}}
}

// world is a chain plus the clock of this module's scenarios and (optionally) a trace.
type world struct {
	s       *chainsim.Sim
	cfg     nodeCfg
	t       int64 // time of the last begun block (block intervals since T0)
	tw      *hx.TraceWriter
	lastCfg string
	entropy int64
	lagSets []map[string]chainsim.ValInfo // consensus sets after earlier EndBlocks (vote lag)
	Lag     int                           // votes are built from the set `Lag` blocks ago
}

func newWorld(c nodeCfg) *world {
	w := &world{s: chainsim.New(c.simConfig()), cfg: c}
	for i := 0; i < c.Warm; i++ {
		w.t++
		w.s.Block(nil, chainsim.BlockOpts{Time: timeOf(w.t)})
	}
	// The RSCAL activation block resets the stake-weight parameters to their mainnet
	// defaults (15e9 uPOKT, outside the small-number economy).  One more warm-up block puts
	// the small values back, the way a governance change would, before anything is recorded.
	w.t++
	w.s.BeginBlock(chainsim.BlockOpts{Time: timeOf(w.t)})
	nk := w.s.App.VerifNodesKeeper()
	p := nk.GetParams(w.s.Ctx())
	p.ServicerStakeFloorMultiplier = 1000000
	p.ServicerStakeWeightCeiling = c.Ceiling
	nk.SetParams(w.s.Ctx(), p)
	w.s.EndBlock()
	w.s.Commit()
	return w
}

func timeOf(t int64) *time.Time {
	tm := chainsim.T0.Add(time.Duration(t) * chainsim.BlockInterval)
	return &tm
}

func (w *world) name(i int) string { return w.s.Name(w.s.Addr(i)) }

func (w *world) keyIdx(name string) int {
	for i := range w.s.Keys {
		if w.name(i) == name {
			return i
		}
	}
	return -1
}

func (w *world) addrOf(name string) sdk.Address {
	if name == "" {
		return nil
	}
	for a, n := range w.s.Names {
		if n == name {
			ad, _ := sdk.AddressFromHex(a)
			return ad
		}
	}
	return nil
}

// ---- projection: chainsim's plus the fields only this module needs ----------------

var focusFields = []string{"bal", "supply", "nopk", "badCoins", "val", "ixStaked", "ixChain", "ixUnstaking", "ixWaiting",
	"prevPower", "prevTotal", "signing", "prevProposer", "tmSet", "missed"}

// missedBits reads the raw missed-block bit array (prefix 0x12 || address || index LE).
func (w *world) missedBits() map[string][]int64 {
	out := map[string][]int64{}
	ctx := w.s.Ctx()
	store := ctx.KVStore(w.s.App.Keys[nodesTypes.StoreKey])
	it, _ := sdk.KVStorePrefixIterator(store, nodesTypes.ValidatorMissedBlockBitArrayKey)
	defer it.Close()
	for ; it.Valid(); it.Next() {
		k := it.Key()
		if len(k) != 1+sdk.AddrLen+8 {
			continue
		}
		var b sdk.Bool
		if err := w.s.App.VerifCodec().UnmarshalBinaryLengthPrefixed(it.Value(), &b, ctx.BlockHeight()); err != nil || !bool(b) {
			continue
		}
		n := w.s.Name(sdk.Address(k[1 : 1+sdk.AddrLen]))
		out[n] = append(out[n], int64(binary.LittleEndian.Uint64(k[1+sdk.AddrLen:])))
	}
	for n := range out {
		sort.Slice(out[n], func(i, j int) bool { return out[n][i] < out[n][j] })
	}
	return out
}

// extras are the configuration values the specification needs beyond chainsim's Cfg.
func (w *world) extras() map[string]interface{} {
	ctx := w.s.Ctx()
	nk := w.s.App.VerifNodesKeeper()
	idx := make([]int, len(w.s.Keys))
	for i := range idx {
		idx[i] = i
	}
	sort.Slice(idx, func(a, b int) bool { return bytes.Compare(w.s.Addr(idx[a]), w.s.Addr(idx[b])) < 0 })
	rank := map[string]int{}
	for pos, i := range idx {
		rank[w.name(i)] = pos
	}
	crank := map[string]int{}
	for i, c := range ChainUniverse {
		crank[c] = i
	}
	age := nk.MaxEvidenceAge(ctx)
	return map[string]interface{}{"rank": rank, "crank": crank, "minSigned": nk.MinBlocksSignedPerWindow(ctx),
		"maxEvidenceAge": int64(age / chainsim.BlockInterval), "maxEvidenceAgeMin": int64(age.Minutes())}
}

// snapshot returns the focused core state and the configuration (with nx).
func (w *world) snapshot() (map[string]interface{}, map[string]interface{}) {
	core, cfg := w.s.Split(w.s.Project())
	core["missed"] = w.missedBits()
	keep := map[string]interface{}{}
	for _, k := range focusFields {
		if v, ok := core[k]; ok {
			keep[k] = v
			delete(core, k)
		}
	}
	delete(core, "h")
	rb, _ := json.Marshal(core)
	sum := sha256.Sum256(rb)
	keep["rest"] = hex.EncodeToString(sum[:6])
	cb, _ := json.Marshal(cfg)
	var cm map[string]interface{}
	_ = json.Unmarshal(cb, &cm)
	cm["nx"] = w.extras()
	// normalise through JSON so that both values are plain maps / slices / float64
	kb, _ := json.Marshal(keep)
	var km map[string]interface{}
	_ = json.Unmarshal(kb, &km)
	cb, _ = json.Marshal(cm)
	_ = json.Unmarshal(cb, &cm)
	return km, cm
}

func (w *world) emit(ev map[string]interface{}) {
	if w.tw == nil {
		return
	}
	st, cfg := w.snapshot()
	ev["st"] = st
	ev["h"] = w.s.Height
	ev["t"] = w.t
	cb, _ := json.Marshal(cfg)
	if string(cb) != w.lastCfg {
		w.lastCfg = string(cb)
		ev["cfg"] = cfg
	}
	w.tw.Emit(ev)
}

func (w *world) reset(label string) {
	w.lastCfg = ""
	w.emit(map[string]interface{}{"ev": "reset", "label": label})
}

// ---- block steps -------------------------------------------------------------------

type evidenceSpec struct {
	Node   string
	Height int64
	Time   int64
	Power  int64
}

type blockOpts struct {
	Dt       int64 // time advance (block intervals)
	AbsTime  int64 // absolute time (overrides Dt when > 0)
	Proposer string
	Absent   []string // names of validators that did not sign
	Evidence []evidenceSpec
}

func copySet(m map[string]chainsim.ValInfo) map[string]chainsim.ValInfo {
	out := map[string]chainsim.ValInfo{}
	for k, v := range m {
		out[k] = v
	}
	return out
}

// begin runs BeginBlock.  With Lag > 0 the votes come from the consensus set of `Lag`
// blocks ago (Tendermint applies validator updates with a delay), not from the current one.
func (w *world) begin(o blockOpts) {
	if o.AbsTime > 0 {
		w.t = o.AbsTime
	} else {
		w.t += o.Dt
	}
	cur := w.s.ValSet
	voteSet := cur
	if w.Lag > 0 && len(w.lagSets) > 0 {
		i := len(w.lagSets) - w.Lag
		if i < 0 {
			i = 0
		}
		voteSet = w.lagSets[i]
	}
	absent := map[string]bool{}
	for _, n := range o.Absent {
		absent[hex.EncodeToString(w.addrOf(n))] = true
	}
	var evs []abci.Evidence
	for _, e := range o.Evidence {
		evs = append(evs, abci.Evidence{Type: tmtypes.ABCIEvidenceTypeDuplicateVote,
			Validator: abci.Validator{Address: w.addrOf(e.Node), Power: e.Power}, Height: e.Height, Time: *timeOf(e.Time)})
	}
	prop := w.addrOf(o.Proposer)
	if prop == nil {
		prop = w.s.Addr(0)
	}
	w.s.ValSet = voteSet
	votes := w.s.Votes(absent)
	w.s.BeginBlock(chainsim.BlockOpts{Time: timeOf(w.t), Proposer: prop, Absent: absent, Evidence: evs})
	w.s.ValSet = cur
	if w.tw != nil {
		vs := [][]interface{}{}
		for _, v := range votes {
			vs = append(vs, []interface{}{w.s.Name(sdk.Address(v.Validator.Address)), v.Validator.Power, v.SignedLastBlock})
		}
		es := [][]interface{}{}
		for _, e := range o.Evidence {
			es = append(es, []interface{}{e.Node, e.Height, e.Time, e.Power})
		}
		w.emit(map[string]interface{}{"ev": "BeginBlock", "proposer": w.s.Name(prop), "votes": vs, "evidence": es})
	}
}

// wallOK reports what ValidateUnjailMessage's wall-clock comparison will see for `node`:
// true unless the stored JailedUntil is after time.Now().
func (w *world) wallOK(node string) bool {
	si, ok := w.s.App.VerifNodesKeeper().GetValidatorSigningInfo(w.s.Ctx(), w.addrOf(node))
	if !ok {
		return true
	}
	return !si.JailedUntil.After(time.Now())
}

func (w *world) deliver(bz []byte, abs map[string]interface{}) abci.ResponseDeliverTx {
	wall := true
	if abs["kind"] == "node_unjail" {
		wall = w.wallOK(abs["node"].(string))
	}
	res := w.s.DeliverTx(bz)
	if w.tw != nil {
		a := map[string]interface{}{}
		for k, v := range abs {
			a[k] = v
		}
		if _, ok := a["dup"]; !ok {
			a["dup"] = "no"
		}
		w.emit(map[string]interface{}{"ev": "DeliverTx", "tx": a, "wall": wall,
			"res": map[string]interface{}{"code": res.Code, "codespace": res.Codespace}})
	}
	return res
}

// challenge calls the keeper's BurnForChallenge on the block's working state (what the
// proof handler does for a successful challenge).
func (w *world) challenge(node string, challenges int64) {
	ctx := w.s.Ctx().WithBlockHeader(abci.Header{ChainID: w.s.Cfg.ChainID, Height: w.s.Height, Time: *timeOf(w.t)})
	w.s.App.VerifNodesKeeper().BurnForChallenge(ctx, sdk.NewInt(challenges), w.addrOf(node))
	w.emit(map[string]interface{}{"ev": "Challenge", "node": node, "challenges": challenges})
}

// noiseBeforeEnd: off-chain activity between the last DeliverTx and EndBlock - CheckTx and app/simulate of a
// (well signed, unchanged) stake message for every node record.  It is not a trace event: the EndBlock that
// follows must still be explained from the last recorded state (a node-local cache filled here must not be
// what EndBlock reads).
func (w *world) noiseBeforeEnd() {
	if w.tw == nil {
		return
	}
	st := w.s.Project()
	names := make([]string, 0, len(st.Val))
	for n := range st.Val {
		names = append(names, n)
	}
	sort.Strings(names)
	for _, n := range names {
		v := st.Val[n]
		out := v.Output
		if out == "" {
			out = n
		}
		c1, c2 := w.s.Noise(w.buildTx(w.stakeTx(n, out, v.Tokens, v.Chains, v.URL, v.Delegators, n)))
		if os.Getenv("VERIF_DEBUG_NOISE") != "" {
			println("noise", n, c1, c2)
		}
	}
}

func (w *world) end() []abci.ValidatorUpdate {
	w.noiseBeforeEnd()
	res := w.s.EndBlock()
	w.s.Commit()
	w.lagSets = append(w.lagSets, copySet(w.s.ValSet))
	if len(w.lagSets) > 4 {
		w.lagSets = w.lagSets[1:]
	}
	if w.tw != nil {
		w.emit(map[string]interface{}{"ev": "EndBlock", "updates": w.updates(res.ValidatorUpdates)})
	}
	return res.ValidatorUpdates
}

func (w *world) updates(ups []abci.ValidatorUpdate) [][]interface{} {
	out := [][]interface{}{}
	for _, u := range ups {
		h := sha256.Sum256(u.PubKey.Data)
		out = append(out, []interface{}{w.s.Name(sdk.Address(h[:20])), u.Power})
	}
	return out
}

func chainsimAddr(pub []byte) sdk.Address {
	h := sha256.Sum256(pub)
	return sdk.Address(h[:20])
}
