package main

import (
	"math/rand"
	"sort"
	"strings"
	"time"

	"verifharness/chainsim"
	"verifharness/internal/hx"
)

// ---- helpers shared by the random and the scripted drivers ---------------------------

func (w *world) block(o blockOpts, txs ...absTx) []uint32 {
	if o.Dt == 0 && o.AbsTime == 0 {
		o.Dt = 1
	}
	w.begin(o)
	var codes []uint32
	for _, tx := range txs {
		r := w.deliver(w.buildTx(tx), tx)
		codes = append(codes, r.Code)
	}
	w.end()
	return codes
}

func (w *world) valNames() []string {
	var out []string
	for _, v := range w.s.ValSet {
		out = append(out, w.s.Name(chainsimAddr(v.PubKey)))
	}
	sort.Strings(out)
	return out
}

// run blocks until `pred` holds (at most max blocks); returns whether it did
func (w *world) until(max int, o func() blockOpts, pred func(st chainsim.State) bool) bool {
	for i := 0; i < max; i++ {
		if pred(w.s.Project()) {
			return true
		}
		w.block(o())
	}
	return pred(w.s.Project())
}

func plain() blockOpts { return blockOpts{Dt: 1, Proposer: "a1"} }

// ---- random driver -----------------------------------------------------------------

var urls = []string{"https://node.example:443", "https://e1.io:1", "https://e2.io:2"}

type rnd struct {
	w       *world
	r       *rand.Rand
	victim  string
	missing int
	rep     *hx.Report
}

func (g *rnd) pick(xs ...string) string { return xs[g.r.Intn(len(xs))] }

func (g *rnd) chains() []string {
	n := 1 + g.r.Intn(2)
	if g.r.Intn(12) == 0 {
		n = 3 // more than MaximumChains
	}
	perm := g.r.Perm(len(ChainUniverse))
	var cs []string
	for i := 0; i < n; i++ {
		cs = append(cs, ChainUniverse[perm[i]])
	}
	return cs
}

func (g *rnd) delegators() map[string]int64 {
	switch g.r.Intn(4) {
	case 0:
		return map[string]int64{}
	case 1:
		return map[string]int64{"a5": 10}
	case 2:
		return map[string]int64{"a5": 10, "a6": 25}
	default:
		return map[string]int64{"a6": int64(1 + g.r.Intn(60))}
	}
}

var nodeNames = []string{"a1", "a2", "a3", "a8", "a9"} // a1, a2, a8 staked at genesis

// stakeOrEdit builds a stake message for a random node: a new stake when it has no record,
// otherwise an edit with a random subset of changed fields and a random signer kind.
func (g *rnd) stakeOrEdit(st chainsim.State) absTx {
	w := g.w
	node := g.pick(nodeNames...)
	v, found := st.Val[node]
	out := g.pick("a4", "a5", node, "a4")
	if !found {
		amount := g.r.Int63n(4)*1000000 + w.cfg.StakeMin - 1000000*int64(g.r.Intn(2)) + int64(g.r.Intn(2))*500000
		signer := g.pick(node, out, node, "a6")
		if g.r.Intn(15) == 0 {
			out = ""
		}
		return w.stakeTx(node, out, amount, g.chains(), g.pick(urls...), g.delegators(), signer)
	}
	amount := v.Tokens
	switch g.r.Intn(6) {
	case 0:
		amount = v.Tokens - 1 - g.r.Int63n(1000000)
	case 1:
		amount = v.Tokens + 1000000
	case 2:
		amount = v.Tokens + 1 + g.r.Int63n(999999)
	case 3:
		amount = v.Tokens + 2000000
	}
	if amount <= 0 {
		amount = 1
	}
	chains := v.Chains
	if g.r.Intn(3) == 0 {
		chains = g.chains()
	}
	url := v.URL
	if g.r.Intn(3) == 0 {
		url = g.pick(urls...)
	}
	output := v.Output
	if output == "" || g.r.Intn(3) == 0 {
		output = out
	}
	dels := v.Delegators
	if g.r.Intn(3) == 0 {
		dels = g.delegators()
	}
	cur := v.Output
	if cur == "" {
		cur = node
	}
	signer := g.pick(node, cur, output, node, cur, "a6")
	return w.stakeTx(node, output, amount, chains, url, dels, signer)
}

func (g *rnd) unstakeOrUnjail(st chainsim.State, kind string) absTx {
	w := g.w
	node := g.pick(nodeNames...)
	if kind == "node_unjail" && g.r.Intn(4) > 0 {
		for _, n := range nodeNames {
			if v, ok := st.Val[n]; ok && v.Jailed {
				node = n
			}
		}
	}
	out := node
	if v, ok := st.Val[node]; ok && v.Output != "" {
		out = v.Output
	}
	msgSigner := g.pick(node, out, node, out, "a6")
	signer := msgSigner
	if g.r.Intn(4) == 0 {
		signer = g.pick(node, "a6")
	}
	if kind == "node_unjail" {
		return w.unjailTx(node, msgSigner, signer)
	}
	return w.unstakeTx(node, msgSigner, signer)
}

func (g *rnd) tx(st chainsim.State) absTx {
	w := g.w
	switch x := g.r.Intn(100); {
	case x < 45:
		return g.stakeOrEdit(st)
	case x < 62:
		return g.unstakeOrUnjail(st, "node_unstake")
	case x < 84:
		return g.unstakeOrUnjail(st, "node_unjail")
	case x < 90:
		return w.sendTx(g.pick("a6", "a5"), g.pick("staked_tokens_pool", "a4", "a7"), 1+g.r.Int63n(50000))
	default:
		from := g.pick("a7", "a7", "a6")
		if g.r.Intn(2) == 0 {
			return w.paramTx(from, "pos/MaxValidators", int64(1+g.r.Intn(4)))
		}
		return w.paramTx(from, "pos/StakeMinimum", int64(1+g.r.Intn(3))*1000000)
	}
}

func (g *rnd) blockOpts(st chainsim.State) blockOpts {
	w := g.w
	o := blockOpts{Dt: 1}
	if g.r.Intn(7) == 0 {
		o.Dt = int64(2 + g.r.Intn(5))
	}
	vals := w.valNames()
	if len(vals) > 0 {
		o.Proposer = vals[g.r.Intn(len(vals))]
	} else {
		o.Proposer = "a1"
	}
	// downtime streaks against one validator at a time
	if g.missing == 0 && len(vals) > 0 && g.r.Intn(6) == 0 {
		g.victim = vals[g.r.Intn(len(vals))]
		g.missing = 2 + g.r.Intn(6)
	}
	if g.missing > 0 {
		o.Absent = append(o.Absent, g.victim)
		g.missing--
	}
	if len(vals) > 1 && g.r.Intn(10) == 0 {
		o.Absent = append(o.Absent, vals[g.r.Intn(len(vals))])
	}
	if g.r.Intn(9) == 0 {
		n := g.pick(nodeNames...)
		o.Evidence = append(o.Evidence, evidenceSpec{Node: n, Height: w.s.Height + 1 - int64(g.r.Intn(5)),
			Time: w.t + o.Dt - int64(g.r.Intn(40)), Power: int64(1 + g.r.Intn(6))})
		if o.Evidence[0].Time < 1 {
			o.Evidence[0].Time = 1
		}
	}
	return o
}

func randomChain(tw *hx.TraceWriter, rep *hx.Report, idx, blocks int) {
	r := hx.Rng(int64(idx) + 77)
	w := newWorld(traceCfg(hx.Seed()*1000+int64(idx), idx))
	w.Lag = idx % 3
	w.tw = tw
	w.reset("random")
	g := &rnd{w: w, r: r, rep: rep}
	for b := 0; b < blocks; b++ {
		st := w.s.Project()
		o := g.blockOpts(st)
		w.begin(o)
		ntx := 0
		switch x := r.Intn(10); {
		case x < 4:
			ntx = 1
		case x < 6:
			ntx = 2
		case x < 7:
			ntx = 3
		}
		for i := 0; i < ntx; i++ {
			tx := g.tx(w.s.Project())
			res := w.deliver(w.buildTx(tx), tx)
			rep.Steps++
			k := tx["kind"].(string)
			if res.Code == 0 {
				rep.OpCounts[k+":ok"]++
			} else {
				rep.OpCounts[k+":"+res.Codespace+"/"+itoa(int(res.Code))]++
			}
		}
		if r.Intn(25) == 0 {
			w.challenge(g.pick(nodeNames...), int64(1+r.Intn(400)))
			rep.OpCounts["challenge"]++
		}
		ups := w.end()
		rep.Steps += 2
		if len(ups) > 0 {
			rep.OpCounts["endblock:updates"]++
		}
	}
	rep.Behaviours++
}

func itoa(i int) string {
	if i == 0 {
		return "0"
	}
	s := ""
	for i > 0 {
		s = string(rune('0'+i%10)) + s
		i /= 10
	}
	return s
}

// ---- scripted scenarios --------------------------------------------------------------

type scenario struct {
	name string
	run  func(tw *hx.TraceWriter, rep *hx.Report)
}

func startScenario(tw *hx.TraceWriter, c nodeCfg, label string) *world {
	w := newWorld(c)
	w.tw = tw
	w.reset(label)
	return w
}

// editMatrix: node a3 (output a4, delegator a5) staked by transaction at and above the
// weight ceiling; every changed-field subset x signer kind x amount class, before and
// after the OEDIT / RewardDelegators activation heights.
func scEditMatrix(tw *hx.TraceWriter, rep *hx.Report) {
	for regime := 0; regime < 4; regime++ {
		c := traceCfg(hx.Seed()*1000+501+int64(regime), 0)
		switch regime {
		case 0: // neither output edits nor delegators
			c.Features = map[string]int64{"OEDIT": 0, "RewardDelegators": 0}
		case 1:
			c.Features = map[string]int64{"RewardDelegators": 0}
		case 3: // both features become active in the middle of the matrix
			c.Features = map[string]int64{"OEDIT": 8, "RewardDelegators": 13}
		}
		w := startScenario(tw, c, "edit-matrix")
		w.block(plain(), w.stakeTx("a3", "a4", 5000000, []string{"0001"}, urls[1], nil, "a3"),
			w.stakeTx("a9", "a9", 2000000, []string{"0002"}, urls[1], nil, "a9"))
		for _, signer := range []string{"a3", "OUT", "NEWOUT", "a6", "a5"} {
			for _, dAmt := range []int64{-1, 0, 1000000} {
				w.begin(plain())
				for _, what := range []string{"none", "chains", "url", "output", "delegators", "output+delegators", "all"} {
					v := w.s.Project().Val["a3"]
					out, chains, url, dels := v.Output, v.Chains, v.URL, v.Delegators
					if strings.Contains(what, "chains") || what == "all" {
						if len(v.Chains) == 1 {
							chains = []string{"0001", "0002"}
						} else {
							chains = []string{"0002"}
						}
					}
					if what == "url" || what == "all" {
						url = urls[1]
						if v.URL == urls[1] {
							url = urls[2]
						}
					}
					if strings.Contains(what, "output") || what == "all" {
						out = "a4"
						if v.Output == "a4" {
							out = "a5"
						}
					}
					if strings.Contains(what, "delegators") || what == "all" {
						switch len(v.Delegators) {
						case 0:
							dels = map[string]int64{"a5": 10}
						case 1:
							dels = map[string]int64{"a5": 10, "a6": 20}
						default:
							dels = map[string]int64{}
						}
					}
					sg := signer
					if signer == "OUT" {
						sg = v.Output
					} else if signer == "NEWOUT" {
						sg = out
					}
					tx := w.stakeTx("a3", out, v.Tokens+dAmt, chains, url, dels, sg)
					res := w.deliver(w.buildTx(tx), tx)
					rep.Steps++
					rep.OpCounts["edit:"+what+":"+signer+":"+itoa(int(res.Code))]++
				}
				w.end()
			}
		}
		// below the ceiling: same-bin rule on the second node
		v := w.s.Project().Val["a9"]
		for _, amt := range []int64{v.Tokens, v.Tokens + 500000, v.Tokens + 1000000, v.Tokens + 1000000, v.Tokens + 2000000} {
			w.block(plain(), w.stakeTx("a9", "a9", amt, []string{"0002"}, urls[1], nil, "a9"))
		}
		// an edit while waiting to unstake is refused (whoever signs)
		w.block(plain(), w.unstakeTx("a3", "a3", "a3"))
		v = w.s.Project().Val["a3"]
		w.block(plain(), w.stakeTx("a3", v.Output, v.Tokens+1000000, []string{"0003"}, urls[2], v.Delegators, "a3"),
			w.stakeTx("a3", v.Output, v.Tokens, v.Chains, v.URL, v.Delegators, v.Output))
		rep.Behaviours++
	}
}

// delegatorEdits: node a3 (output a4) staked with two reward delegators; every shape of a
// changed delegator map (another key in a map of the same size, another share under the
// same key, one more, one less, all replaced, unchanged) signed by the output address, by
// an unrelated key and by the operator.  Only the operator's edits may take effect.
func scDelegatorEdits(tw *hx.TraceWriter, rep *hx.Report) {
	for _, start := range []map[string]int64{{"a5": 10, "a6": 25}, {"a5": 10}} {
		c := traceCfg(hx.Seed()*1000+551+int64(len(start)), 0)
		w := startScenario(tw, c, "delegator-edits")
		w.block(plain(), w.stakeTx("a3", "a4", 5000000, []string{"0001"}, urls[1], start, "a3"))
		shapes := func(cur map[string]int64) []map[string]int64 {
			cp := func() map[string]int64 {
				m := map[string]int64{}
				for k, v := range cur {
					m[k] = v
				}
				return m
			}
			keys := make([]string, 0, len(cur))
			for k := range cur {
				keys = append(keys, k)
			}
			sort.Strings(keys)
			fresh := ""
			for _, k := range []string{"a4", "a6", "a5", "a9"} {
				if _, in := cur[k]; !in {
					fresh = k
					break
				}
			}
			var out []map[string]int64
			if len(keys) > 0 {
				m := cp() // another key, same size, same share
				m[fresh] = m[keys[0]]
				delete(m, keys[0])
				out = append(out, m)
				m = cp() // another key, same size, another share
				delete(m, keys[len(keys)-1])
				m[fresh] = 90 - int64(10*len(keys))
				out = append(out, m)
				m = cp() // same keys, one share changed
				m[keys[0]]++
				out = append(out, m)
				m = cp() // one less
				delete(m, keys[0])
				out = append(out, m)
			}
			m := cp() // one more
			m[fresh] = 7
			out = append(out, m)
			out = append(out, cp())   // unchanged
			all := map[string]int64{} // all replaced, same size
			for i := range keys {
				all[[]string{"a4", "a9", "a8"}[i]] = int64(5 + i)
			}
			if len(all) > 0 {
				out = append(out, all)
			}
			return out
		}
		for _, signer := range []string{"a4", "a6", "a3", "a4"} {
			v := w.s.Project().Val["a3"]
			for _, dels := range shapes(v.Delegators) {
				v = w.s.Project().Val["a3"]
				tx := w.stakeTx("a3", v.Output, v.Tokens, v.Chains, v.URL, dels, signer)
				w.begin(plain())
				res := w.deliver(w.buildTx(tx), tx)
				w.end()
				rep.Steps++
				rep.OpCounts["delegator-edit:"+signer+":"+itoa(int(res.Code))]++
			}
		}
		rep.Behaviours++
	}
}

// unstakeSession: begin-unstake at every height of a session, with block-time jumps of
// 0..many intervals around the completion time, by operator and by output address.
func scUnstakeSession(tw *hx.TraceWriter, rep *hx.Report) {
	for phase := int64(0); phase < 4; phase++ {
		for _, jump := range []int64{1, 2, 7} {
			c := traceCfg(hx.Seed()*1000+520+phase*10+jump, 0)
			w := startScenario(tw, c, "unstake-session")
			w.block(plain(), w.stakeTx("a3", "a4", 4000000, []string{"0001"}, urls[1], map[string]int64{"a5": 10}, "a4"))
			for i := int64(0); i < phase; i++ {
				w.block(plain())
			}
			signer := "a3"
			if jump == 2 {
				signer = "a4"
			}
			w.block(plain(), w.unstakeTx("a3", signer, signer), w.unstakeTx("a1", "a1", "a1"))
			// a second request while waiting, an edit while waiting
			w.block(plain(), w.unstakeTx("a3", "a3", "a3"))
			for i := 0; i < 4; i++ {
				w.block(plain())
			}
			// duplicate queue entry: slash the unstaking node by evidence, then jump
			w.block(blockOpts{Dt: 1, Proposer: "a2", Evidence: []evidenceSpec{{Node: "a3", Height: w.s.Height, Time: w.t, Power: 1}}})
			w.block(blockOpts{Dt: jump, Proposer: "a2"})
			for i := 0; i < 5; i++ {
				w.block(blockOpts{Dt: 1, Proposer: "a2"})
			}
			// stake again after the record is gone
			w.block(blockOpts{Dt: 1, Proposer: "a2"}, w.stakeTx("a3", "a5", 3000000, []string{"0002"}, urls[2], nil, "a3"))
			w.block(blockOpts{Dt: 1, Proposer: "a2"})
			rep.Behaviours++
		}
	}
}

// restakeWhileUnstaking: a node that HAS BEGUN unstaking (status unstaking, tokens still in the
// pool) receives stake messages - same amount, a bump, by operator and by output address - while
// the unstaking period runs; they must be refused and the stake must come back exactly once.
func scRestakeWhileUnstaking(tw *hx.TraceWriter, rep *hx.Report) {
	for variant := 0; variant < 3; variant++ {
		c := traceCfg(hx.Seed()*1000+590+int64(variant), 0)
		w := startScenario(tw, c, "restake-while-unstaking")
		w.block(plain(), w.stakeTx("a3", "a4", 4000000, []string{"0001"}, urls[1], nil, "a3"))
		w.block(plain(), w.unstakeTx("a3", "a3", "a3"))
		unstaking := func(st chainsim.State) bool { v, ok := st.Val["a3"]; return ok && v.Status == 1 }
		if !w.until(8, plain, unstaking) {
			hx.Fatal("restake-while-unstaking: a3 never reached the unstaking status")
		}
		v := w.s.Project().Val["a3"]
		switch variant {
		case 0:
			w.block(plain(), w.stakeTx("a3", v.Output, v.Tokens, v.Chains, v.URL, v.Delegators, "a3"))
		case 1:
			w.block(plain(), w.stakeTx("a3", v.Output, v.Tokens+1000000, v.Chains, v.URL, v.Delegators, "a3"),
				w.stakeTx("a3", v.Output, v.Tokens, []string{"0002"}, urls[2], v.Delegators, v.Output))
		default:
			w.block(plain(), w.stakeTx("a3", v.Output, v.Tokens+2000000, v.Chains, v.URL, v.Delegators, v.Output),
				w.unstakeTx("a3", "a3", "a3"))
		}
		for i := 0; i < 8; i++ {
			w.block(blockOpts{Dt: 1, Proposer: "a2"})
		}
		rep.Behaviours++
	}
}

// chainRespell: a node re-spells a chain id in the other hex case ("00a1" <-> "00A1": the same chain, the
// same index key), declares both spellings, drops one of them, and moves between that chain and others;
// the per-chain index must list the node under the chain as long as its record declares it.
func scChainRespell(tw *hx.TraceWriter, rep *hx.Report) {
	c := traceCfg(hx.Seed()*1000+597, 0)
	w := startScenario(tw, c, "chain-respell")
	w.block(plain(), w.stakeTx("a3", "a4", 4000000, []string{"00a1"}, urls[1], nil, "a3"))
	for _, chains := range [][]string{{"00A1"}, {"00a1", "0001"}, {"00A1", "0001"}, {"00A1", "00a1"}, {"00a1"}, {"00A1", "00a1"}, {"00A1"},
		{"0002"}, {"00A1", "0002"}, {"00a1"}} {
		v := w.s.Project().Val["a3"]
		w.block(plain(), w.stakeTx("a3", v.Output, v.Tokens, chains, v.URL, v.Delegators, "a3"))
		rep.Steps++
	}
	w.block(plain(), w.unstakeTx("a3", "a3", "a3"))
	for i := 0; i < 8; i++ {
		w.block(plain())
	}
	rep.Behaviours++
}

// slashWhileWaiting: a node asks to unstake (it waits for the end of the session, unjailed), and is
// slashed below the minimum stake by double-sign evidence while it waits - at every phase of the session,
// so that in some runs the slash lands while it waits and in others after it has begun unstaking.  It must
// be jailed at once and leave the consensus set.
func scSlashWhileWaiting(tw *hx.TraceWriter, rep *hx.Report) {
	for phase := int64(0); phase < 4; phase++ {
		c := traceCfg(hx.Seed()*1000+610+phase, 0)
		w := startScenario(tw, c, "slash-while-waiting")
		w.block(plain(), w.stakeTx("a3", "a4", 2500000, []string{"0001"}, urls[1], nil, "a3"))
		for i := int64(0); i < phase; i++ {
			w.block(plain())
		}
		w.block(plain(), w.unstakeTx("a3", "a3", "a3"))
		// 50% double-sign slash: 2.5 -> 1.25 POKT, below the 2 POKT minimum
		w.block(blockOpts{Dt: 1, Proposer: "a2", Evidence: []evidenceSpec{{Node: "a3", Height: w.s.Height, Time: w.t, Power: 2}}})
		for i := 0; i < 8; i++ {
			w.block(blockOpts{Dt: 1, Proposer: "a2"})
		}
		rep.Behaviours++
	}
}

// jailed reports whether `n` is jailed in the projected state
func jailed(n string) func(chainsim.State) bool {
	return func(st chainsim.State) bool { v, ok := st.Val[n]; return ok && v.Jailed }
}

// jailUnjail: jail by missed blocks, unjail attempts at jailedUntil-1, =, +1 by every
// signer kind; unjail when not jailed; jail again; slash below the minimum by evidence.
func scJailUnjail(tw *hx.TraceWriter, rep *hx.Report) {
	for _, off := range []int64{-1, 0, 1} {
		c := traceCfg(hx.Seed()*1000+560+off, 0)
		c.JailDuration = 4
		w := startScenario(tw, c, "jail-unjail")
		w.block(plain(), w.stakeTx("a3", "a4", 6000000, []string{"0001"}, urls[1], nil, "a4"))
		w.block(plain(), w.unjailTx("a3", "a3", "a3")) // not jailed
		miss := func() blockOpts { return blockOpts{Dt: 1, Proposer: "a1", Absent: []string{"a3"}} }
		if !w.until(12, miss, jailed("a3")) {
			hx.Fatal("scenario jail-unjail: a3 was not jailed")
		}
		until := w.s.Project().Signing["a3"].JailedUntil
		w.block(plain(), w.unjailTx("a3", "a6", "a6"), w.unjailTx("a3", "a3", "a3")) // unauthorized; too early
		// jump to jailedUntil+off
		if until+off > w.t {
			w.block(blockOpts{AbsTime: until + off, Proposer: "a1"}, w.unjailTx("a3", "a6", "a3"), w.unjailTx("a3", "a4", "a4"))
		}
		w.block(plain(), w.unjailTx("a3", "a3", "a3"), w.unjailTx("a3", "a3", "a3"))
		w.block(plain())
		// second jail, then evidence slashes it below the minimum: forced unstake
		w.until(12, miss, jailed("a3"))
		w.block(blockOpts{Dt: 1, Proposer: "a1", Evidence: []evidenceSpec{{Node: "a3", Height: w.s.Height, Time: w.t, Power: 9}}})
		w.block(plain(), w.unjailTx("a3", "a3", "a3")) // too low: leaves a waiting entry
		for i := 0; i < 9; i++ {
			w.block(blockOpts{Dt: 1, Proposer: "a1"})
		}
		// evidence age classes against a1: too old in blocks, too old in time, future height
		w.block(blockOpts{Dt: 1, Proposer: "a2", Evidence: []evidenceSpec{
			{Node: "a1", Height: w.s.Height - 3, Time: w.t, Power: 1},
			{Node: "a1", Height: w.s.Height, Time: w.t - 40, Power: 1},
			{Node: "a1", Height: w.s.Height + 5, Time: w.t, Power: 1},
			{Node: "a1", Height: w.s.Height, Time: w.t - 30, Power: 1}}})
		w.block(plain())
		rep.Behaviours++
	}
}

// forceUnstake: a jailed node that stays jailed beyond MaxJailedBlocks is queued to
// unstake and leaves at the next session end; jailing of an unstaking node (vote lag).
func scForceUnstake(tw *hx.TraceWriter, rep *hx.Report) {
	for lag := 0; lag < 3; lag++ {
		c := traceCfg(hx.Seed()*1000+580+int64(lag), 2)
		w := startScenario(tw, c, "force-unstake")
		w.Lag = lag
		w.block(plain(), w.stakeTx("a3", "a4", 6000000, []string{"0001", "0002"}, urls[1], nil, "a3"))
		w.block(plain())
		w.block(plain(), w.unstakeTx("a1", "a1", "a1"))
		miss := func() blockOpts { return blockOpts{Dt: 1, Proposer: "a2", Absent: []string{"a3", "a1"}} }
		w.until(14, miss, jailed("a3"))
		for i := 0; i < 14; i++ {
			w.block(blockOpts{Dt: 1, Proposer: "a2", Absent: []string{"a1"}})
		}
		rep.Behaviours++
	}
}

// params: MaxValidators and StakeMinimum changed through governance transactions
func scParams(tw *hx.TraceWriter, rep *hx.Report) {
	c := traceCfg(hx.Seed()*1000+600, 0)
	w := startScenario(tw, c, "params")
	w.block(plain(), w.stakeTx("a3", "a4", 6000000, []string{"0001"}, urls[1], nil, "a3"),
		w.stakeTx("a9", "a9", 2000000, []string{"0002"}, urls[1], nil, "a9"))
	for _, mv := range []int64{1, 2, 4, 5, 0, 3} {
		w.block(plain(), w.paramTx("a7", "pos/MaxValidators", mv))
		w.block(plain())
	}
	w.block(plain(), w.paramTx("a6", "pos/MaxValidators", 1)) // not the ACL owner
	w.block(plain(), w.paramTx("a7", "pos/StakeMinimum", 3000000))
	w.block(plain(), w.stakeTx("a6", "a6", 2500000, []string{"0002"}, urls[1], nil, "a6")) // below the new minimum
	// a2 (3.0) is slashed by downtime below the new minimum
	miss := func() blockOpts { return blockOpts{Dt: 1, Proposer: "a1", Absent: []string{"a2"}} }
	w.until(12, miss, jailed("a2"))
	for i := 0; i < 10; i++ {
		w.block(plain())
	}
	// minimum lowered below the power reduction: a zero-power staked node
	w.block(plain(), w.paramTx("a7", "pos/StakeMinimum", 500000))
	w.block(plain(), w.stakeTx("a6", "a6", 700000, []string{"0002"}, urls[1], nil, "a6"))
	for i := 0; i < 3; i++ {
		w.block(plain())
	}
	rep.Behaviours++
}

// donation: anyone can send coins to the pool address (known finding of C19)
func scDonation(tw *hx.TraceWriter, rep *hx.Report) {
	c := traceCfg(hx.Seed()*1000+620, 0)
	w := startScenario(tw, c, "donation")
	w.block(plain(), w.sendTx("a6", "staked_tokens_pool", 12345))
	w.block(plain(), w.unstakeTx("a2", "a2", "a2"))
	for i := 0; i < 8; i++ {
		w.block(plain())
	}
	w.block(plain(), w.sendTx("a5", "staked_tokens_pool", 5))
	w.block(plain())
	rep.Behaviours++
}

// editBypass: a jailed node edit-stakes (which drops its signing info) and is then
// unjailed before its jail period is over (known finding of C25)
func scEditBypass(tw *hx.TraceWriter, rep *hx.Report) {
	c := traceCfg(hx.Seed()*1000+640, 0)
	c.JailDuration = 8
	c.MaxJailed = 12
	w := startScenario(tw, c, "edit-bypass")
	w.block(plain(), w.stakeTx("a3", "a4", 6000000, []string{"0001"}, urls[1], nil, "a3"))
	miss := func() blockOpts { return blockOpts{Dt: 1, Proposer: "a1", Absent: []string{"a3"}} }
	if !w.until(12, miss, jailed("a3")) {
		hx.Fatal("scenario edit-bypass: a3 was not jailed")
	}
	v := w.s.Project().Val["a3"]
	w.block(plain(), w.unjailTx("a3", "a3", "a3")) // refused: jail period not over
	w.block(plain(), w.stakeTx("a3", "a4", v.Tokens, v.Chains, urls[2], nil, "a3"), w.unjailTx("a3", "a3", "a3"))
	w.block(plain(), w.unjailTx("a3", "a3", "a3")) // accepted although the period is not over
	w.block(plain())
	rep.Behaviours++
}

// wallClock: the same unjail history with block timestamps one year after the wall clock
// (known finding of C25 / C12: ValidateUnjailMessage reads time.Now())
func scWallClock(tw *hx.TraceWriter, rep *hx.Report) {
	c := traceCfg(hx.Seed()*1000+660, 0)
	w := startScenario(tw, c, "wall-clock")
	future := int64(time.Now().Add(366*24*time.Hour).Sub(chainsim.T0) / chainsim.BlockInterval)
	w.block(blockOpts{AbsTime: future, Proposer: "a1"}, w.stakeTx("a3", "a4", 6000000, []string{"0001"}, urls[1], nil, "a3"))
	miss := func() blockOpts { return blockOpts{Dt: 1, Proposer: "a1", Absent: []string{"a3"}} }
	if !w.until(12, miss, jailed("a3")) {
		hx.Fatal("scenario wall-clock: a3 was not jailed")
	}
	until := w.s.Project().Signing["a3"].JailedUntil
	w.block(blockOpts{AbsTime: until + 1, Proposer: "a1"}, w.unjailTx("a3", "a3", "a3"))
	w.block(plain())
	rep.Behaviours++
}

var scenarios = []scenario{
	{"edit-matrix", scEditMatrix}, {"delegator-edits", scDelegatorEdits}, {"unstake-session", scUnstakeSession}, {"restake-while-unstaking", scRestakeWhileUnstaking}, {"chain-respell", scChainRespell}, {"slash-while-waiting", scSlashWhileWaiting}, {"jail-unjail", scJailUnjail},
	{"force-unstake", scForceUnstake}, {"params", scParams}, {"donation", scDonation},
	{"edit-bypass", scEditBypass}, {"wall-clock", scWallClock},
}

func traceNodes(out string, n, blocks int, scen string) {
	tw, err := hx.NewTraceWriter(out)
	if err != nil {
		hx.Fatal("%v", err)
	}
	rep := hx.NewReport("chain-nodes", "trace-nodes")
	for _, sc := range scenarios {
		if scen == "all" || strings.Contains(","+scen+",", ","+sc.name+",") {
			sc.run(tw, rep)
			rep.OpCounts["scenario:"+sc.name]++
		}
	}
	for i := 0; i < n; i++ {
		randomChain(tw, rep, i, blocks)
	}
	if err := tw.Close(); err != nil {
		hx.Fatal("%v", err)
	}
	rep.Extra["events"] = tw.N
	rep.Print()
}
