// vh-chain-nodes: nodes module of the chain engine (x/nodes driven through ABCI by
// harness/chainsim).  Subcommands: init-state (projection of the warmed-up genesis for the
// design model), replay-nodes (TLC behaviours of MCChainNodes executed block by block on the
// real application), trace-nodes (seeded random + scripted scenario chains recorded as NDJSON
// for TraceChainNodes), smoke.
package main

import (
	"encoding/json"
	"flag"
	"fmt"
	"os"
	"time"

	"verifharness/internal/hx"
)

func smoke() {
	w := newWorld(designCfg(hx.Seed()))
	tw, _ := hx.NewTraceWriter("/dev/stdout")
	w.tw = tw
	w.reset("smoke")
	w.begin(blockOpts{Dt: 1, Proposer: "a1"})
	tx := w.stakeTx("a3", "a4", 5000000, []string{"0001", "0002"}, "https://e1.io:1", map[string]int64{"a5": 10}, "a4")
	res := w.deliver(w.buildTx(tx), tx)
	fmt.Fprintf(os.Stderr, "stake: code=%d cs=%s log=%.200s\n", res.Code, res.Codespace, res.Log)
	w.end()
	t0 := time.Now()
	for i := 0; i < 200; i++ {
		w.begin(blockOpts{Dt: 1, Proposer: "a1"})
		w.end()
	}
	fmt.Fprintf(os.Stderr, "200 recorded empty blocks: %v\n", time.Since(t0))
	tw.Close()
}

func initState(out string) {
	w := newWorld(designCfg(hx.Seed()))
	st, cfg := w.snapshot()
	b, _ := json.Marshal(map[string]interface{}{"st": st, "cfg": cfg, "h": w.s.Height, "t": w.t})
	if err := os.WriteFile(out, b, 0644); err != nil {
		hx.Fatal("%v", err)
	}
	hx.NewReport("chain-nodes", "init-state").Print()
}

func main() {
	if len(os.Args) < 2 {
		fmt.Fprintln(os.Stderr, "usage: vh-chain-nodes <cmd>")
		os.Exit(2)
	}
	fs := flag.NewFlagSet(os.Args[1], flag.ExitOnError)
	out := fs.String("out", "", "output file")
	in := fs.String("in", "", "behaviour file")
	n := fs.Int("n", 4, "random chains")
	blocks := fs.Int("blocks", 60, "blocks per random chain")
	scen := fs.String("scenarios", "all", "scripted scenarios to record (all | none | comma list)")
	shard := fs.Int("shard", 0, "shard index")
	of := fs.Int("of", 1, "number of shards")
	_ = fs.Parse(os.Args[2:])
	switch os.Args[1] {
	case "smoke":
		smoke()
	case "init-state":
		initState(*out)
	case "replay-nodes":
		replayNodes(*in, *shard, *of)
	case "trace-nodes":
		traceNodes(*out, *n, *blocks, *scen)
	default:
		os.Exit(2)
	}
}
