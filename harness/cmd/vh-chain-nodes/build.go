package main

import (
	"encoding/json"
	"sort"

	sdk "github.com/pokt-network/pocket-core/types"
	govTypes "github.com/pokt-network/pocket-core/x/gov/types"
	nodesTypes "github.com/pokt-network/pocket-core/x/nodes/types"
	authTypes "github.com/pokt-network/pocket-core/x/auth/types"

	"verifharness/chainsim"
	"verifharness/internal/hx"
)

// absTx is the abstract transaction record of the specification (ChainAuth / ChainNodes).
type absTx map[string]interface{}

func strs(v interface{}) []string {
	out := []string{}
	switch a := v.(type) {
	case []string:
		return append(out, a...)
	case []interface{}:
		for _, x := range a {
			if s, ok := x.(string); ok {
				out = append(out, s)
			}
		}
	}
	return out
}

func intMap(v interface{}) map[string]int64 {
	out := map[string]int64{}
	switch m := v.(type) {
	case map[string]int64:
		return m
	case map[string]interface{}:
		for k, x := range m {
			switch n := x.(type) {
			case float64:
				out[k] = int64(n)
			case int64:
				out[k] = n
			case int:
				out[k] = int64(n)
			}
		}
	}
	return out
}

// sigDefaults fills the signing dimensions of an abstract transaction.
func sigDefaults(a absTx, signer string, id int64) absTx {
	def := absTx{"signer": signer, "sigOK": true, "chainOK": true, "hasSig": true, "hasPK": true, "multisig": false,
		"depthOK": true, "fee": int64(10000), "feeValid": true, "memoLen": 0, "decodes": true, "basicOK": true, "id": id, "dup": "no"}
	for k, v := range def {
		if _, ok := a[k]; !ok {
			a[k] = v
		}
	}
	return a
}

// buildTx turns an abstract transaction into really signed bytes.
func (w *world) buildTx(a absTx) []byte {
	tx := hx.Step(a)
	o := chainsim.TxOpts{Fee: int64(tx.Int("fee")), Entropy: int64(tx.Int("id"))}
	if !tx.Bool("hasSig") {
		o.NoSig = true
	} else if !tx.Bool("sigOK") {
		o.CorruptSig = true
	}
	if !tx.Bool("chainOK") {
		o.ChainID = "other-chain"
	}
	si := w.keyIdx(tx.Str("signer"))
	if si < 0 {
		hx.Fatal("transaction names unknown signer %q", tx.Str("signer"))
	}
	o.Signer = w.s.Keys[si]
	var msg sdk.ProtoMsg
	switch tx.Str("kind") {
	case "node_stake":
		ni := w.keyIdx(tx.Str("node"))
		if ni < 0 {
			hx.Fatal("unknown node %q", tx.Str("node"))
		}
		m := &nodesTypes.MsgStake{PublicKey: w.s.Keys[ni].PublicKey(), Chains: strs(a["chains"]), Value: sdk.NewInt(int64(tx.Int("amount"))),
			ServiceUrl: tx.Str("url"), Output: w.addrOf(tx.Str("output"))}
		if d := intMap(a["delegators"]); len(d) > 0 {
			m.RewardDelegators = map[string]uint32{}
			for n, sh := range d {
				m.RewardDelegators[w.addrOf(n).String()] = uint32(sh)
			}
		}
		msg = m
	case "node_unstake":
		msg = &nodesTypes.MsgBeginUnstake{Address: w.addrOf(tx.Str("node")), Signer: w.addrOf(tx.Str("msgSigner"))}
	case "node_unjail":
		msg = &nodesTypes.MsgUnjail{ValidatorAddr: w.addrOf(tx.Str("node")), Signer: w.addrOf(tx.Str("msgSigner"))}
	case "send":
		msg = &nodesTypes.MsgSend{FromAddress: w.addrOf(tx.Str("from")), ToAddress: w.addrOf(tx.Str("to")), Amount: sdk.NewInt(int64(tx.Int("amount")))}
	case "change_param":
		val, err := w.s.App.VerifCodec().MarshalJSON(int64(tx.Int("value")))
		if err != nil {
			hx.Fatal("param value: %v", err)
		}
		msg = &govTypes.MsgChangeParam{FromAddress: w.addrOf(tx.Str("from")), ParamKey: tx.Str("key"), ParamVal: val}
	default:
		hx.Fatal("unknown transaction kind %q", tx.Str("kind"))
	}
	return w.s.SignTx(msg, o)
}

// ---- abstract transaction constructors ----------------------------------------------

func (w *world) nextID() int64 { w.entropy++; return w.entropy }

func (w *world) stakeTx(node, output string, amount int64, chains []string, url string, dels map[string]int64, signer string) absTx {
	cs := append([]string{}, chains...)
	sort.Strings(cs)
	if dels == nil {
		dels = map[string]int64{}
	}
	return sigDefaults(absTx{"kind": "node_stake", "node": node, "output": output, "amount": amount, "chains": cs, "url": url,
		"delegators": dels}, signer, w.nextID())
}

func (w *world) unstakeTx(node, msgSigner, signer string) absTx {
	return sigDefaults(absTx{"kind": "node_unstake", "node": node, "msgSigner": msgSigner}, signer, w.nextID())
}

func (w *world) unjailTx(node, msgSigner, signer string) absTx {
	return sigDefaults(absTx{"kind": "node_unjail", "node": node, "msgSigner": msgSigner}, signer, w.nextID())
}

func (w *world) sendTx(from, to string, amount int64) absTx {
	return sigDefaults(absTx{"kind": "send", "from": from, "to": to, "amount": amount}, from, w.nextID())
}

func (w *world) paramTx(from, key string, value int64) absTx {
	return sigDefaults(absTx{"kind": "change_param", "from": from, "key": key, "value": value}, from, w.nextID())
}

func jsonClone(v interface{}) interface{} {
	b, _ := json.Marshal(v)
	var out interface{}
	_ = json.Unmarshal(b, &out)
	return out
}

var _ = authTypes.FeeCollectorName
