// vh-relay: off-chain relay handling (keeper.HandleRelay, evidence CacheStorage) on a real
// PocketCoreApp built by harness/chainsim.  env.go builds the world every relay scenario
// runs in: a committed chain with a servicer identity, staked nodes / applications for
// the chains the scenarios name, an in-process HTTP server playing the hosted blockchains
// and builders for really signed relays.
package main

import (
	"encoding/hex"
	"fmt"
	"net/http"
	"net/http/httptest"
	"os"

	"github.com/pokt-network/pocket-core/crypto"
	sdk "github.com/pokt-network/pocket-core/types"
	appsTypes "github.com/pokt-network/pocket-core/x/apps/types"
	nodesTypes "github.com/pokt-network/pocket-core/x/nodes/types"
	pocketKeeper "github.com/pokt-network/pocket-core/x/pocketcore/keeper"
	pc "github.com/pokt-network/pocket-core/x/pocketcore/types"

	"verifharness/chainsim"
	"verifharness/internal/hx"
)

// Key indices of the deterministic key ring (chainsim.Key(seed, i)).
const (
	kOtherNode  = 0 // a second staked validator (consensus needs one; it serves chain 0002)
	kServicer   = 1 // THIS node: the servicer identity registered with AddPocketNode
	kClient     = 2 // client key named in the application tokens
	kClient2    = 3 // another client key (never named in a token)
	kAppAuth    = 4 // staked application for C35: chains 0001 + 0002, 2 relays per chain
	kAppUnstake = 5 // application that began unstaking at height 3 (record exists, status unstaking)
	kNoApp      = 6 // a key that never staked an application
	kAppMax1    = 7 // applications for C34: one chain (0001), max relays 1, 2, 3, 6 (and 4: kAppMax4)
	kAppMax2    = 8
	kAppMax3    = 9
	kAppMax6    = 10
	kNonNode    = 11 // a key that is no validator
	kAppMax4    = 12
	nKeys       = 13
)

const (
	chainServed    = "0001" // hosted here, servicer staked for it
	chainOtherNode = "0002" // hosted here, only the other node is staked for it
	chainNoApp     = "0003" // hosted here, servicer staked, no application staked for it
	chainNotHosted = "0004" // not in this node's hosted chains
	blocksPerSess  = 4
	finalHeight    = 10 // chain is committed up to here: sessions start at 1, 5, 9
	concRelayH     = 8  // C34: relays are handled on the state of height 8 (last block of session 5)
	concSessionH   = 5
)

// World is the committed chain plus everything needed to build and serve relays.
type World struct {
	Sim      *chainsim.Sim
	K        pocketKeeper.Keeper
	Node     *pc.PocketNode
	HTTP     *httptest.Server
	HTTPHits int
	Codes    map[sdk.CodeType]string
	dir      string // working directory of this process (evidence db), removed by Close
}

// errNames maps the real error codes to the names the specifications use; built from
// the real constructors so a renumbering in the code cannot be masked by the harness.
func errNames() map[sdk.CodeType]string {
	m := sdk.CodespaceType(pc.ModuleName)
	return map[sdk.CodeType]string{
		pc.NewInvalidBlockHeightError(m).Code():             "height",
		pc.NewEmptyPayloadDataError(m).Code():               "payload",
		pc.NewOutOfSyncRequestError(m).Code():               "sync",
		pc.NewRequestHashError(m).Code():                    "reqhash",
		pc.NewUnsupportedBlockchainNodeError(m).Code():      "nothosted",
		pc.NewAppNotFoundError(m).Code():                    "noapp",
		pc.NewChainsOverLimitError(m, 0, 0).Code():          "chainslimit",
		pc.NewSealedEvidenceError(m).Code():                 "sealed",
		pc.NewDuplicateProofError(m).Code():                 "dup",
		pc.NewOverServiceError(m).Code():                    "over",
		pc.NewPubKeySizeError(m).Code():                     "pksize",
		pc.NewPubKeyDecodeError(m).Code():                   "pkdecode",
		pc.NewInvalidEntropyError(m).Code():                 "entropy",
		pc.NewInvalidTokenError(m, fmt.Errorf("x")).Code():  "token",
		pc.NewInvalidSignatureError(m).Code():               "sig",
		pc.NewInvalidSignatureSizeError(m).Code():           "sigsize",
		pc.NewSigDecodeError(m).Code():                      "sigdecode",
		pc.NewInvalidNodePubKeyError(m).Code():              "servicer",
		pc.NewUnsupportedBlockchainAppError(m).Code():       "appchain",
		pc.NewInvalidSessionError(m).Code():                 "session",
		pc.NewInsufficientNodesError(m).Code():              "nodes",
		pc.NewHTTPExecutionError(m, fmt.Errorf("x")).Code(): "http",
		pc.NewHexDecodeError(m, fmt.Errorf("x")).Code():     "hex",
		pc.NewInvalidHashLengthError(m).Code():              "hashlen",
		pc.NewEmptyHashError(m).Code():                      "emptyhash",
	}
}

// NewWorld builds the chain.  The evidence store of the servicer is a goleveldb under
// ./data (sdk.DefaultTestingPocketConfig), so every process works in its own directory.
func NewWorld() *World {
	dir, err := os.MkdirTemp("", "vh-relay-")
	if err != nil {
		hx.Fatal("%v", err)
	}
	if err := os.Chdir(dir); err != nil {
		hx.Fatal("%v", err)
	}
	w := &World{Codes: errNames(), dir: dir}
	w.HTTP = httptest.NewServer(http.HandlerFunc(func(rw http.ResponseWriter, r *http.Request) {
		w.HTTPHits++
		_, _ = rw.Write([]byte(`{"id":1,"jsonrpc":"2.0","result":"0x1"}`))
	}))
	cfg := chainsim.Config{Seed: hx.Seed(), NKeys: nKeys,
		Balances: map[int]int64{kOtherNode: 20000000, kServicer: 20000000, kAppUnstake: 1000000},
		Nodes: []chainsim.NodeSpec{
			{Key: kOtherNode, Output: -1, Tokens: 5000000, Chains: []string{chainOtherNode}},
			{Key: kServicer, Output: -1, Tokens: 3000000, Chains: []string{chainServed, chainNoApp}},
		},
		Apps: []chainsim.AppSpec{
			{Key: kAppAuth, Tokens: 4500000, Chains: []string{chainServed, chainOtherNode}},
			{Key: kAppUnstake, Tokens: 2500000, Chains: []string{chainServed}},
			{Key: kAppMax1, Tokens: 1500000, Chains: []string{chainServed}},
			{Key: kAppMax2, Tokens: 2500000, Chains: []string{chainServed}},
			{Key: kAppMax3, Tokens: 3500000, Chains: []string{chainServed}},
			{Key: kAppMax6, Tokens: 6500000, Chains: []string{chainServed}},
			{Key: kAppMax4, Tokens: 4500000, Chains: []string{chainServed}},
		},
		DAOTokens: 1000000, DAOOwner: kOtherNode, Servicer: kServicer,
		AppParams: func(p *appsTypes.Params) {
			p.BaseRelaysPerPOKT = 100 // 1 relay per staked POKT: max relays = floor(stake / 10^6); stakes must exceed the 10^6 minimum
			p.MaxApplications = 16
			p.UnstakingTime = 100000 * chainsim.BlockInterval // the unstaking application keeps its record
		},
		NodeParams: func(p *nodesTypes.Params) { p.SessionBlockFrequency = blocksPerSess },
		PocketParams: func(p *pc.Params) {
			p.SessionNodeCount = 1
			p.MinimumNumberOfProofs = 2 // MinProofs of EvidenceOps.tla (1 would crash the merkle root generator)
			p.SupportedBlockchains = []string{chainServed, chainOtherNode, chainNoApp, chainNotHosted}
		},
	}
	s := chainsim.New(cfg)
	w.Sim = s
	for h := int64(1); h <= finalHeight; h++ {
		var txs [][]byte
		if h == 3 {
			msg := &appsTypes.MsgBeginUnstake{Address: s.Addr(kAppUnstake)}
			txs = append(txs, s.SignTx(msg, chainsim.TxOpts{Signer: s.Keys[kAppUnstake], Fee: 10000, Entropy: 1}))
		}
		r := s.Block(txs, chainsim.BlockOpts{})
		for _, x := range r.Results {
			if x.Code != 0 {
				hx.Fatal("world setup: tx in block %d failed: code=%d %s", h, x.Code, x.Log)
			}
		}
	}
	w.K = s.App.VerifPocketKeeper()
	w.Node = pc.GetPocketNode()
	if w.Node == nil || !w.Node.GetAddress().Equals(s.Addr(kServicer)) {
		hx.Fatal("servicer identity not registered")
	}
	// the keeper shares the HostedBlockchains object given to NewPocketCoreApp: host our chains
	hb := w.K.GetHostedBlockchains()
	hb.L.Lock()
	for _, c := range []string{chainServed, chainOtherNode, chainNoApp} {
		hb.M[c] = pc.HostedBlockchain{ID: c, URL: w.HTTP.URL}
	}
	hb.L.Unlock()
	return w
}

func (w *World) Close() {
	w.HTTP.Close()
	_ = os.Chdir(os.TempDir())
	_ = os.RemoveAll(w.dir)
}

// Ctx is the context the RPC layer builds for a relay (app.NewContext = PrevCtx over
// committed state), at an explicit height.
func (w *World) Ctx(h int64) sdk.Ctx {
	ctx, err := w.Sim.App.NewContext(h)
	if err != nil {
		hx.Fatal("NewContext(%d): %v", h, err)
	}
	return ctx
}

// ResetStores empties the servicer's evidence and session stores (cache, db, seal map).
func (w *World) ResetStores() {
	pc.ClearEvidence(w.Node.EvidenceStore)
	pc.ClearSessionCache(w.Node.SessionStore)
}

func (w *World) pubHex(i int) string { return w.Sim.Keys[i].PublicKey().RawString() }

// RelaySpec says how to build one relay; the zero alterations give a valid relay.
type RelaySpec struct {
	AppKey                                                      int    // key whose public key is the token's application key
	AppSigner                                                   int    // key that signs the token
	ClientInTok                                                 int    // key named as client in the token
	ProofSigner                                                 int    // key that signs the relay proof
	Version                                                     string // token version
	Chain                                                       string
	SessionH                                                    int64
	MetaH                                                       int64
	Entropy                                                     int64
	Servicer                                                    string // hex servicer public key in the proof
	Data                                                        string // payload data
	TamperData                                                  string // if non-empty: payload data replaced AFTER the request hash was computed
	ReqHash                                                     string // if non-empty: overrides the request hash
	CorruptTokSig, CorruptProofSig, EmptyProofSig, EmptyPayload bool
}

func flipHex(s string) string {
	b, _ := hex.DecodeString(s)
	b[len(b)/2] ^= 0x01
	return hex.EncodeToString(b)
}

// Build signs the token with the application key and the proof with the client key the
// way a gateway does (x/pocketcore/keeper/service_test.go).
func (w *World) Build(r RelaySpec) pc.Relay {
	rel := pc.Relay{
		Payload: pc.Payload{Data: r.Data, Method: "POST", Path: "", Headers: nil},
		Meta:    pc.RelayMeta{BlockHeight: r.MetaH},
		Proof: pc.RelayProof{
			Entropy: r.Entropy, SessionBlockHeight: r.SessionH, ServicerPubKey: r.Servicer, Blockchain: r.Chain,
			Token: pc.AAT{Version: r.Version, ApplicationPublicKey: w.pubHex(r.AppKey), ClientPublicKey: w.pubHex(r.ClientInTok)},
		},
	}
	if r.EmptyPayload {
		rel.Payload.Data = ""
	}
	rel.Proof.RequestHash = rel.RequestHashString()
	if r.ReqHash != "" {
		rel.Proof.RequestHash = r.ReqHash
	}
	if r.TamperData != "" {
		if r.EmptyPayload {
			rel.Payload.Method = "PUT" // keep the payload empty, still not what was hashed
		} else {
			rel.Payload.Data = r.TamperData
		}
	}
	ts, err := w.Sim.Keys[r.AppSigner].Sign(rel.Proof.Token.Hash())
	if err != nil {
		hx.Fatal("sign token: %v", err)
	}
	rel.Proof.Token.ApplicationSignature = hex.EncodeToString(ts)
	if r.CorruptTokSig {
		rel.Proof.Token.ApplicationSignature = flipHex(rel.Proof.Token.ApplicationSignature)
	}
	ps, err := w.Sim.Keys[r.ProofSigner].Sign(rel.Proof.Hash())
	if err != nil {
		hx.Fatal("sign proof: %v", err)
	}
	rel.Proof.Signature = hex.EncodeToString(ps)
	if r.CorruptProofSig {
		rel.Proof.Signature = flipHex(rel.Proof.Signature)
	}
	if r.EmptyProofSig {
		rel.Proof.Signature = ""
	}
	return rel
}

// ValidSpec is a relay every check accepts when handled at height ctxH.
func (w *World) ValidSpec(appKey int, sessionH, ctxH, entropy int64) RelaySpec {
	return RelaySpec{AppKey: appKey, AppSigner: appKey, ClientInTok: kClient, ProofSigner: kClient, Version: "0.0.1",
		Chain: chainServed, SessionH: sessionH, MetaH: ctxH, Entropy: entropy, Servicer: w.pubHex(kServicer),
		Data: `{"jsonrpc":"2.0","method":"eth_blockNumber","params":[],"id":1}`}
}

// EvView is the projection of the stored evidence of one session header, read without
// any of the side effects GetEvidence has (no sealing, no cache fill).
type EvView struct {
	Found  bool     `json:"found"`
	Cached bool     `json:"cached"` // present in the LRU layer (else only in the db)
	Num    int64    `json:"num"`    // NumOfProofs field
	Proofs []string `json:"proofs"` // proof hashes in stored order
	Cap    int      `json:"cap"`    // capacity of the stored Proofs slice (cached objects only, else -1)
	Sealed bool     `json:"sealed"` // seal map has the header
	ev     pc.Evidence
}

func (w *World) Header(appKey int, chain string, sessionH int64) pc.SessionHeader {
	return pc.SessionHeader{ApplicationPubKey: w.pubHex(appKey), Chain: chain, SessionBlockHeight: sessionH}
}

func (w *World) Peek(h pc.SessionHeader) EvView {
	st := w.Node.EvidenceStore
	v := EvView{Cap: -1, Proofs: []string{}}
	_, v.Sealed = st.SealMap.Load(h.HashString())
	key, err := pc.KeyForEvidence(h, pc.RelayEvidence)
	if err != nil {
		hx.Fatal("KeyForEvidence: %v", err)
	}
	if o, ok := st.Cache.Peek(hex.EncodeToString(key)); ok {
		v.Found, v.Cached = true, true
		v.ev = o.(pc.Evidence)
		v.Cap = cap(v.ev.Proofs)
	} else {
		bz, _ := st.DB.Get(key)
		if len(bz) == 0 {
			return v
		}
		o, err := pc.Evidence{}.UnmarshalObject(bz)
		if err != nil {
			hx.Fatal("stored evidence does not decode: %v", err)
		}
		v.Found = true
		v.ev = o.(pc.Evidence)
	}
	v.Num = v.ev.NumOfProofs
	for _, p := range v.ev.Proofs {
		v.Proofs = append(v.Proofs, p.HashString())
	}
	return v
}

// BloomHas reports which of the given proof hashes the stored bloom filter answers
// "present" for (ev must come from Peek with Found).
func (v EvView) BloomHas(hash []byte) bool { return v.Found && v.ev.Bloom.Test(hash) }

var _ = crypto.Ed25519PrivateKey{}
