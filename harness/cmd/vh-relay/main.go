// vh-relay: relay engine (C34 evidence under concurrent relays, C35 relay authorization).
package main

import (
	"encoding/json"
	"flag"
	"fmt"
	"os"
)

func smoke() {
	w := NewWorld()
	defer w.Close()
	for i, app := range []int{kAppAuth, kAppMax2, kAppMax2, kAppMax2, kAppUnstake, kNoApp} {
		sp := w.ValidSpec(app, 9, finalHeight, int64(100+i))
		resp, err := w.K.HandleRelay(w.Ctx(finalHeight), w.Build(sp))
		if err != nil {
			fmt.Fprintf(os.Stderr, "relay %d app key %d: rejected code=%d (%s) %s\n", i, app, err.Code(), w.Codes[err.Code()], err.Error())
		} else {
			fmt.Fprintf(os.Stderr, "relay %d app key %d: served response=%s sig=%.16s..\n", i, app, resp.Response, resp.Signature)
		}
		b, _ := json.Marshal(w.Peek(w.Header(app, chainServed, 9)))
		fmt.Fprintf(os.Stderr, "   evidence: %s\n", b)
	}
	fmt.Println(`{"engine":"relay","mode":"smoke"}`)
}

func main() {
	if len(os.Args) < 2 {
		fmt.Fprintln(os.Stderr, "usage: vh-relay <smoke|replay-conc|trace-conc|replay-auth|trace-auth> ...")
		os.Exit(2)
	}
	fs := flag.NewFlagSet(os.Args[1], flag.ExitOnError)
	in := fs.String("in", "", "behaviour file (TLC output)")
	out := fs.String("out", "", "trace output (NDJSON)")
	n := fs.Int("n", 20, "number of recorded traces")
	shard := fs.Int("shard", 0, "shard index")
	of := fs.Int("of", 1, "number of shards")
	big := fs.Bool("big", false, "larger random scenarios (thorough tier)")
	_ = fs.Parse(os.Args[2:])
	switch os.Args[1] {
	case "smoke":
		smoke()
	case "replay-conc":
		replayConc(*in, *shard, *of)
	case "trace-conc":
		traceConc(*out, *n, *big)
	case "replay-auth":
		replayAuth(*in, *shard, *of)
	case "trace-auth":
		traceAuth(*out, *n, *big)
	default:
		fmt.Fprintln(os.Stderr, "unknown command", os.Args[1])
		os.Exit(2)
	}
}
