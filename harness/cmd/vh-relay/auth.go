package main

import (
	"encoding/json"
	"fmt"
	"sort"
	"strings"

	sdk "github.com/pokt-network/pocket-core/types"
	pc "github.com/pokt-network/pocket-core/x/pocketcore/types"

	"verifharness/internal/hx"
)

// ---- C35: relays are served only with valid client and application authorization

var chainOf = map[string]string{"c1": chainServed, "c2": chainOtherNode, "c3": chainNoApp, "c4": chainNotHosted}
var appKeyOf = map[string]int{"a1": kAppAuth, "a2": kAppUnstake, "none": kNoApp}

// specOf turns the abstract relay of RelayAuthOps.tla into a really signed relay.
func (w *World) specOf(r hx.Step) RelaySpec {
	app, ok := appKeyOf[r.Str("app")]
	if !ok {
		hx.Fatal("unknown app %q", r.Str("app"))
	}
	sp := RelaySpec{AppKey: app, AppSigner: app, ClientInTok: kClient, ProofSigner: kClient, Version: "0.0.1",
		Chain: chainOf[r.Str("chain")], SessionH: int64(r.Int("sbh")), MetaH: int64(r.Int("metaH")),
		Entropy: int64(r.Int("entropy")), Servicer: w.pubHex(kServicer),
		Data: `{"jsonrpc":"2.0","method":"eth_blockNumber","params":[],"id":1}`}
	if sp.Entropy > 0 {
		sp.Entropy += 5000
	}
	if sp.Chain == "" {
		hx.Fatal("unknown chain %q", r.Str("chain"))
	}
	switch r.Str("payload") {
	case "ok":
	case "empty":
		sp.EmptyPayload = true
	default:
		hx.Fatal("payload %q", r.Str("payload"))
	}
	switch r.Str("reqHash") {
	case "ok":
	case "tampered":
		sp.TamperData = `{"jsonrpc":"2.0","method":"eth_sendRawTransaction","params":["0x00"],"id":1}`
	default:
		hx.Fatal("reqHash %q", r.Str("reqHash"))
	}
	switch r.Str("tokVer") {
	case "ok":
	case "missing":
		sp.Version = ""
	case "unsupported":
		sp.Version = "0.0.2"
	default:
		hx.Fatal("tokVer %q", r.Str("tokVer"))
	}
	switch r.Str("tokSig") {
	case "ok":
	case "corrupt":
		sp.CorruptTokSig = true
	case "otherkey":
		sp.AppSigner = kClient
	default:
		hx.Fatal("tokSig %q", r.Str("tokSig"))
	}
	switch r.Str("tokClient") {
	case "signer":
	case "other":
		sp.ClientInTok = kClient2 // the proof is still signed by kClient
	default:
		hx.Fatal("tokClient %q", r.Str("tokClient"))
	}
	switch r.Str("proofSig") {
	case "ok":
	case "corrupt":
		sp.CorruptProofSig = true
	case "empty":
		sp.EmptyProofSig = true
	default:
		hx.Fatal("proofSig %q", r.Str("proofSig"))
	}
	switch r.Str("servicer") {
	case "self":
	case "othernode":
		sp.Servicer = w.pubHex(kOtherNode)
	case "nonnode":
		sp.Servicer = w.pubHex(kNonNode)
	case "malformed":
		sp.Servicer = "zz" + w.pubHex(kServicer)[2:]
	default:
		hx.Fatal("servicer %q", r.Str("servicer"))
	}
	return sp
}

// storeTotal counts the proofs of every evidence in the servicer's store (cache + db),
// without side effects.
func (w *World) storeTotal(headers []pc.SessionHeader) int {
	t := 0
	for _, h := range headers {
		t += len(w.Peek(h).Proofs)
	}
	return t
}

func (w *World) allHeaders() []pc.SessionHeader {
	var hs []pc.SessionHeader
	for _, a := range []int{kAppAuth, kAppUnstake, kNoApp} {
		for _, c := range []string{chainServed, chainOtherNode, chainNoApp, chainNotHosted} {
			for _, h := range []int64{9, 5, 1, 13, 0, 6} {
				hs = append(hs, w.Header(a, c, h))
			}
		}
	}
	return hs
}

type authResult struct {
	out     string
	served  bool
	n       int
	sealed  bool
	total   int
	bloomFP bool
	signed  bool
}

// handleAuth sends one relay to the real HandleRelay and observes the outcome.
func (w *World) handleAuth(r hx.Step, tol int, headers []pc.SessionHeader) authResult {
	pc.GlobalPocketConfig.ClientSessionSyncAllowance = int64(tol)
	sp := w.specOf(r)
	rel := w.Build(sp)
	hdr := w.Header(sp.AppKey, sp.Chain, sp.SessionH)
	before := w.Peek(hdr)
	hits := w.HTTPHits
	resp, err := w.K.HandleRelay(w.Ctx(finalHeight), rel)
	var res authResult
	if err != nil {
		name, ok := w.Codes[err.Code()]
		if !ok {
			name = fmt.Sprintf("code%d", err.Code())
		}
		res.out = name
		if name == "dup" { // is the proof really stored, or did the bloom filter give a false positive?
			found := false
			for _, h := range before.Proofs {
				if h == rel.Proof.HashString() {
					found = true
				}
			}
			res.bloomFP = !found
		}
		if w.HTTPHits != hits {
			res.out += "+executed" // a rejected relay must not reach the hosted chain
		}
	} else {
		res.out, res.served = "ok", true
		res.signed = resp != nil && resp.Signature != "" && resp.Response != "" && resp.Proof.HashString() == rel.Proof.HashString()
		if !res.signed {
			res.out = "unsigned"
		}
	}
	after := w.Peek(hdr)
	res.n, res.sealed = len(after.Proofs), after.Sealed
	res.total = w.storeTotal(headers)
	return res
}

// assertWorld checks the facts RelayAuthOps.tla states about the chain (machinery, not a verdict).
func (w *World) assertWorld() {
	for _, h := range []int64{5, 6, 9} {
		ctx := w.Ctx(h)
		ak := w.Sim.App.VerifAppsKeeper()
		a1, ok1 := ak.GetApplication(ctx, w.Sim.Addr(kAppAuth))
		a2, ok2 := ak.GetApplication(ctx, w.Sim.Addr(kAppUnstake))
		_, ok3 := ak.GetApplication(ctx, w.Sim.Addr(kNoApp))
		if !ok1 || !a1.IsStaked() || a1.MaxRelays.Int64() != 4 || len(a1.Chains) != 2 {
			hx.Fatal("world: a1 at height %d is not the staked application the specification assumes: %v", h, a1)
		}
		if !ok2 || !a2.IsUnstaking() || a2.MaxRelays.Int64() != 2 {
			hx.Fatal("world: a2 at height %d is not unstaking: found=%v status=%v", h, ok2, a2.Status)
		}
		if ok3 {
			hx.Fatal("world: key 'none' has an application record")
		}
	}
	if w.K.BlocksPerSession(w.Ctx(finalHeight)) != blocksPerSess || w.K.GetLatestSessionBlockHeight(w.Ctx(finalHeight)) != 9 {
		hx.Fatal("world: session geometry differs from the specification")
	}
	if pc.GlobalPocketConfig.ClientBlockSyncAllowance != 10 {
		hx.Fatal("world: ClientBlockSyncAllowance = %d", pc.GlobalPocketConfig.ClientBlockSyncAllowance)
	}
}

// replayAuth replays the transitions of RelayAuth.tla on the real HandleRelay.
// Mismatch kinds: "served" and "evidence" are inside the footprint of C35; "code" (same
// served/rejected verdict, other rejection reason) is reported separately.
func replayAuth(in string, shard, of int) {
	rep := hx.NewReport("relay", "replay-auth")
	w := NewWorld()
	defer w.Close()
	w.assertWorld()
	headers := w.allHeaders()
	seen := map[string]bool{}
	known, bloomFP, codeOnly := 0, 0, 0
	var knownSample interface{}
	err := hx.ReadBehaviours(in, func(idx int, beh []hx.Step) error {
		if idx%of != shard {
			return nil
		}
		rep.Behaviours++
		raw, _ := json.Marshal(beh)
		fresh := !seen[string(raw)]
		seen[string(raw)] = true
		w.ResetStores()
		nontrivial := false
		for si, st := range beh {
			r := hx.Step(st["relay"].(map[string]interface{}))
			rep.Steps++
			if st.Has("disp") && st.Bool("disp") {
				// the client asks this node for the session first (the node caches what it computes)
				sp := w.specOf(r)
				_, _ = w.K.HandleDispatch(w.Ctx(finalHeight), w.Header(sp.AppKey, sp.Chain, sp.SessionH))
				rep.OpCounts["dispatch-first"]++
			}
			totalBefore := w.storeTotal(headers)
			got := w.handleAuth(r, st.Int("tol"), headers)
			rep.OpCounts[got.out]++
			if got.bloomFP {
				bloomFP++ // the code's own approximate filter answered "present" for an absent proof: not judged
				return nil
			}
			mism := func(what string, want, g interface{}) {
				rep.AddMismatch(hx.Mismatch{Behaviour: idx, Step: si, Op: "HandleRelay", What: what, Want: want, Got: g, History: beh})
			}
			if got.served != st.Bool("served") {
				mism("served", st.Bool("served"), got.out)
				return nil
			}
			wantEv := hx.Step(st["ev"].(map[string]interface{}))
			if got.n != wantEv.Int("n") || got.sealed != wantEv.Bool("sealed") || got.total != st.Int("total") {
				mism("evidence", map[string]interface{}{"n": wantEv.Int("n"), "sealed": wantEv.Bool("sealed"), "total": st.Int("total")},
					map[string]interface{}{"n": got.n, "sealed": got.sealed, "total": got.total})
				return nil
			}
			// the property on the real outcome, in its own words (authorized / known computed by the
			// specification from the way the relay was built)
			if got.served && !st.Bool("authorized") {
				if st.Bool("known") {
					known++
					if knownSample == nil {
						knownSample = map[string]interface{}{"relay": r, "real": got.out, "evidence_proofs": got.n}
					}
				} else {
					mism("served: relay served without valid authorization", "rejected", got.out)
					return nil
				}
			}
			if !got.served && got.total != totalBefore {
				mism("evidence: a rejected relay changed the stored proofs", totalBefore, got.total)
				return nil
			}
			if got.out != st.Str("out") {
				codeOnly++
				mism("code", st.Str("out"), got.out)
				return nil
			}
			if si == len(beh)-1 && !st.Bool("authorized") || got.served {
				nontrivial = true
			}
		}
		if fresh && nontrivial {
			rep.Nontrivial++
		}
		if idx%3000 == 11 {
			rep.AddSample(beh)
		}
		return nil
	})
	if err != nil {
		hx.Fatal("%v", err)
	}
	rep.Distinct = len(seen)
	rep.Extra["known_unstaking_app_served"] = known
	rep.Extra["known_sample"] = knownSample
	rep.Extra["bloom_false_positives_skipped"] = bloomFP
	rep.Extra["code_only_mismatches"] = codeOnly
	rep.Print()
}

// ---- code -> spec

// fieldDom mirrors FieldDom of RelayAuthOps.tla (the space relays are drawn from).
var fieldDom = map[string][]interface{}{
	"payload":   {"ok", "empty"},
	"metaH":     {10, 20, 21, 0, -1, 11, 9, 15, 3},
	"reqHash":   {"ok", "tampered"},
	"chain":     {"c1", "c2", "c3", "c4"},
	"sbh":       {9, 5, 1, 13, 0, 6},
	"app":       {"a1", "a2", "none"},
	"tokVer":    {"ok", "missing", "unsupported"},
	"tokSig":    {"ok", "corrupt", "otherkey"},
	"tokClient": {"signer", "other"},
	"proofSig":  {"ok", "corrupt", "empty"},
	"servicer":  {"self", "othernode", "nonnode", "malformed"},
	"entropy":   {1, 2, 3, 4, -5},
}

// traceAuth records what the real HandleRelay does with random relays: a well-formed
// relay with 0..3 randomly altered fields, several per run so that entropy reuse and the
// relay limit occur.  No expected outcome is computed here.
func traceAuth(out string, n int, big bool) {
	rep := hx.NewReport("relay", "trace-auth")
	w := NewWorld()
	defer w.Close()
	w.assertWorld()
	headers := w.allHeaders()
	tw, err := hx.NewTraceWriter(out)
	if err != nil {
		hx.Fatal("%v", err)
	}
	rng := hx.Rng(35)
	names := make([]string, 0, len(fieldDom))
	for k := range fieldDom {
		names = append(names, k)
	}
	sort.Strings(names)
	base := map[string]interface{}{"payload": "ok", "metaH": 10, "reqHash": "ok", "chain": "c1", "sbh": 9, "app": "a1",
		"tokVer": "ok", "tokSig": "ok", "tokClient": "signer", "proofSig": "ok", "servicer": "self", "entropy": 1}
	perRun := 6
	if big {
		perRun = 10
	}
	for t := 0; t < n; t++ {
		w.ResetStores()
		tol := rng.Intn(2)
		tw.Emit(map[string]interface{}{"op": "reset", "tol": tol})
		rep.Behaviours++
		var sent []map[string]interface{}
		for i := 0; i < 2+rng.Intn(perRun); i++ {
			var r map[string]interface{}
			if len(sent) > 0 && rng.Intn(5) == 0 {
				r = sent[rng.Intn(len(sent))] // the same relay again
			} else {
				r = map[string]interface{}{}
				for k, v := range base {
					r[k] = v
				}
				r["entropy"] = 1 + rng.Intn(4)
				for a := rng.Intn(4); a > 0; a-- {
					f := names[rng.Intn(len(names))]
					r[f] = fieldDom[f][rng.Intn(len(fieldDom[f]))]
				}
			}
			sent = append(sent, r)
			b, _ := json.Marshal(r)
			var st hx.Step
			_ = json.Unmarshal(b, &st)
			disp := rng.Intn(3) == 0
			if disp {
				// an unauthenticated dispatch request for the relay's application and chain first: the node
				// caches the session it computes, whether or not it belongs to it
				sp := w.specOf(st)
				_, _ = w.K.HandleDispatch(w.Ctx(finalHeight), w.Header(sp.AppKey, sp.Chain, sp.SessionH))
				rep.OpCounts["dispatch-first"]++
			}
			got := w.handleAuth(st, tol, headers)
			rep.Steps++
			rep.OpCounts[got.out]++
			ev := map[string]interface{}{"op": "relay", "relay": r, "disp": disp, "out": got.out, "served": got.served,
				"ev": map[string]interface{}{"n": got.n, "sealed": got.sealed}, "total": got.total}
			if got.bloomFP {
				ev["op"] = "skip" // filter false positive: not judged; the run ends here
				tw.Emit(ev)
				break
			}
			if strings.HasSuffix(got.out, "+executed") || got.out == "unsigned" {
				ev["fail"] = "rejected relay reached the hosted chain / served relay without signed response"
			}
			tw.Emit(ev)
		}
		rep.Nontrivial++
	}
	if err := tw.Close(); err != nil {
		hx.Fatal("%v", err)
	}
	rep.Extra["events"] = tw.N
	rep.Print()
}

var _ = sdk.CodeType(0)
