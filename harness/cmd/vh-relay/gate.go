package main

import (
	"bytes"
	"runtime"
	"strconv"
	"sync"

	sdk "github.com/pokt-network/pocket-core/types"
	pc "github.com/pokt-network/pocket-core/x/pocketcore/types"
)

// Deterministic scheduling of concurrent HandleRelay calls.  Every relay runs in its own
// goroutine; pc.VerifYield (build tag verif) is called by the code at "relay:validated",
// "setproof:loaded" and "relay:stored".  The gate installed there makes the calling
// goroutine announce the point it reached and wait for permission, so exactly one
// goroutine runs at a time and the controller decides which: an interleaving is a list of
// relay ids.  No sleeps, no timing.

type announce struct {
	point string // scheduling point reached, "start", or "return"
	resp  *pc.RelayResponse
	err   sdk.Error
	panic interface{}
}

type proc struct {
	id     int
	resume chan struct{}
	ev     chan announce
	done   bool
}

type Sched struct {
	mu      sync.Mutex
	byG     map[uint64]*proc
	procs   map[int]*proc
	through bool // drain mode: gates let everything pass
}

func goid() uint64 {
	var buf [64]byte
	n := runtime.Stack(buf[:], false)
	f := bytes.Fields(buf[:n]) // "goroutine 123 [running]:"
	id, _ := strconv.ParseUint(string(f[1]), 10, 64)
	return id
}

func NewSched() *Sched {
	s := &Sched{byG: map[uint64]*proc{}, procs: map[int]*proc{}}
	pc.VerifYield = s.yield
	return s
}

func (s *Sched) yield(point string) {
	s.mu.Lock()
	p := s.byG[goid()]
	through := s.through
	s.mu.Unlock()
	if p == nil || through { // not one of ours (sequential calls of the controller) or draining
		return
	}
	p.ev <- announce{point: point}
	<-p.resume
}

// Spawn starts a goroutine that will run fn once first released; it parks at "start".
func (s *Sched) Spawn(id int, fn func() (*pc.RelayResponse, sdk.Error)) {
	p := &proc{id: id, resume: make(chan struct{}), ev: make(chan announce)}
	s.procs[id] = p
	go func() {
		s.mu.Lock()
		s.byG[goid()] = p
		s.mu.Unlock()
		p.ev <- announce{point: "start"}
		<-p.resume
		var a announce
		func() {
			defer func() {
				if r := recover(); r != nil {
					a.panic = r
				}
			}()
			a.resp, a.err = fn()
		}()
		a.point = "return"
		p.ev <- a
	}()
	<-p.ev // parked at "start"
}

// Step lets goroutine id run until its next scheduling point or its return.
func (s *Sched) Step(id int) announce {
	p := s.procs[id]
	p.resume <- struct{}{}
	a := <-p.ev
	if a.point == "return" {
		p.done = true
	}
	return a
}

// Drain lets every unfinished goroutine run to completion (results ignored).
func (s *Sched) Drain() {
	s.mu.Lock()
	s.through = true
	s.mu.Unlock()
	for _, p := range s.procs {
		for !p.done {
			p.resume <- struct{}{}
			a := <-p.ev
			if a.point == "return" {
				p.done = true
			}
		}
	}
	s.mu.Lock()
	s.through = false
	s.byG = map[uint64]*proc{}
	s.procs = map[int]*proc{}
	s.mu.Unlock()
}
