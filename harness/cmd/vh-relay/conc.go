package main

import (
	"encoding/json"
	"fmt"
	"reflect"
	"sort"

	"github.com/pokt-network/pocket-core/crypto"
	sdk "github.com/pokt-network/pocket-core/types"
	"github.com/pokt-network/pocket-core/x/auth"
	"github.com/pokt-network/pocket-core/x/auth/util"
	pc "github.com/pokt-network/pocket-core/x/pocketcore/types"
	"github.com/tendermint/tendermint/rpc/client"

	"verifharness/internal/hx"
)

// ---- C34: concurrent relays for one session, interleaved at the code's scheduling points

type stubTM struct{ client.Client }

// Scenario is the configuration entry of a behaviour / the "reset" event of a trace.
type Scenario struct {
	Proofs []int // proof id of each relay (equal ids = identical relays)
	Max    int   // relays the application allows this node in the session
	Pre    int   // proofs stored by earlier sequential relays (ids 101..100+Pre)
}

func appForMax(max int) int {
	switch max {
	case 1:
		return kAppMax1
	case 2:
		return kAppMax2
	case 3:
		return kAppMax3
	case 4:
		return kAppMax4
	case 6:
		return kAppMax6
	}
	hx.Fatal("no application staked for max relays %d", max)
	return -1
}

// Run is one scenario set up on the real node.
type Run struct {
	w       *World
	sc      Scenario
	app     int
	header  pc.SessionHeader
	relays  map[int]pc.Relay // proof id -> relay
	idOf    map[string]int   // proof hash -> proof id
	hashes  map[int][]byte
	sched   *Sched
	claimed int
}

// chooseEntropies picks, deterministically, an entropy per proof id such that the bloom
// filter the code builds for `max` relays has no false positive among the scenario's
// proofs (a false positive would make the real code reject a distinct relay as duplicate;
// the specification models the filter as an exact set -- stated as an assumption).
var entropyMemo = map[string]map[int]pc.Relay{}

func (w *World) chooseEntropies(app int, max int, ids []int) map[int]pc.Relay {
	key := fmt.Sprint(app, max, ids)
	if m, ok := entropyMemo[key]; ok {
		return m
	}
	m := w.chooseEntropies1(app, max, ids)
	entropyMemo[key] = m
	return m
}

// maxDistinct: how many distinct proofs a scenario with this allowance may use.  The code sizes
// the filter for `max` elements (10 bits for 1, 20 for 2, 29 for 3, 39 for 4, 58 for 6; 7 hash functions)
// and racing relays can add every proof of the scenario to one shared filter, so beyond these
// numbers no choice of entropies avoids false positives.
func maxDistinct(max int) int {
	switch max {
	case 1:
		return 2
	case 2:
		return 4
	case 3:
		return 5
	case 4:
		return 6
	}
	return 8
}

func (w *World) chooseEntropies1(app int, max int, ids []int) map[int]pc.Relay {
	out := map[int]pc.Relay{}
	ent := map[int]int64{}
	for _, id := range ids {
		ent[id] = int64(1000 + id)
	}
	probe := pc.SessionHeader{ApplicationPubKey: w.pubHex(app), Chain: chainServed, SessionBlockHeight: 777777}
	for round := 0; round < 10000; round++ {
		for _, id := range ids {
			out[id] = w.Build(w.ValidSpec(app, concSessionH, concRelayH, ent[id]))
		}
		bad := -1
		n := len(ids)
		for mask := 0; mask < 1<<n && bad < 0; mask++ {
			ev, err := pc.GetEvidence(probe, pc.RelayEvidence, sdk.NewInt(int64(max)), w.Node.EvidenceStore) // not stored: a fresh filter
			if err != nil {
				hx.Fatal("probe evidence: %v", err)
			}
			for i, id := range ids {
				if mask&(1<<i) != 0 {
					ev.Bloom.Add(out[id].Proof.Hash())
				}
			}
			for i, id := range ids {
				if mask&(1<<i) == 0 && ev.Bloom.Test(out[id].Proof.Hash()) {
					bad = id
					break
				}
			}
		}
		if bad < 0 {
			return out
		}
		ent[bad] += 7919
	}
	hx.Fatal("no collision-free entropies found")
	return nil
}

func (w *World) NewRun(sc Scenario, sched *Sched) (*Run, error) {
	r := &Run{w: w, sc: sc, app: appForMax(sc.Max), sched: sched, claimed: -1,
		idOf: map[string]int{}, hashes: map[int][]byte{}}
	r.header = w.Header(r.app, chainServed, concSessionH)
	w.ResetStores()
	seen := map[int]bool{}
	var ids []int
	for _, p := range sc.Proofs {
		if !seen[p] {
			seen[p] = true
			ids = append(ids, p)
		}
	}
	for i := 1; i <= sc.Pre; i++ {
		ids = append(ids, 100+i)
	}
	sort.Ints(ids)
	r.relays = w.chooseEntropies(r.app, sc.Max, ids)
	for id, rel := range r.relays {
		r.idOf[rel.Proof.HashString()] = id
		r.hashes[id] = rel.Proof.Hash()
	}
	// earlier relays of the session, served one after the other
	for i := 1; i <= sc.Pre; i++ {
		if _, err := w.K.HandleRelay(w.Ctx(concRelayH), r.relays[100+i]); err != nil {
			return r, fmt.Errorf("earlier sequential relay %d of %d rejected on an empty store: code %d", i, sc.Pre, err.Code())
		}
	}
	for i, p := range sc.Proofs {
		rel := r.relays[p]
		r.sched.Spawn(i+1, func() (*pc.RelayResponse, sdk.Error) {
			return w.K.HandleRelay(w.Ctx(concRelayH), rel)
		})
	}
	return r, nil
}

// View projects the stored evidence of the scenario's header into the specification's
// vocabulary (proof ids instead of hashes, the filter as the set of scenario proofs it
// answers "present" for).
func (r *Run) View() map[string]interface{} {
	v := r.w.Peek(r.header)
	proofs := []int{}
	for _, h := range v.Proofs {
		id, ok := r.idOf[h]
		if !ok {
			id = -1
		}
		proofs = append(proofs, id)
	}
	sort.Ints(proofs) // a multiset: the claim pass sorts the stored proofs in place
	bloom := []int{}
	for id, h := range r.hashes {
		if v.BloomHas(h) {
			bloom = append(bloom, id)
		}
	}
	sort.Ints(bloom)
	return map[string]interface{}{"found": v.Found, "cached": v.Cached, "num": int(v.Num), "proofs": proofs,
		"cap": v.Cap, "sealed": v.Sealed, "bloom": bloom}
}

// Do performs one step and returns what the goroutine announced ("relay:validated", ...,
// "ok", or the name of the rejection) -- or "claim" for a claim pass.
func (r *Run) Do(op string, id int) (string, error) {
	if op == "C" {
		if err := r.Claim(); err != nil {
			return "claim-panic", err
		}
		return "claim", nil
	}
	a := r.sched.Step(id)
	if a.panic != nil {
		return "", fmt.Errorf("HandleRelay panicked: %v", a.panic)
	}
	if a.point != "return" {
		return a.point, nil
	}
	if a.err != nil {
		name, ok := r.w.Codes[a.err.Code()]
		if !ok {
			name = fmt.Sprintf("code%d", a.err.Code())
		}
		return name, nil
	}
	// a served relay carries a response signed by the servicer
	if a.resp == nil || a.resp.Signature == "" || a.resp.Response == "" {
		return "unsigned", nil
	}
	return "ok", nil
}

// Claim runs the real SendClaimTx on the committed state of the latest height (the
// session of the relays is over there); the claim transaction itself is captured.
func (r *Run) Claim() (err error) {
	w := r.w
	defer func() {
		if p := recover(); p != nil {
			err = fmt.Errorf("SendClaimTx panicked: %v", p)
		}
	}()
	claimTx := func(pk crypto.PrivateKey, cliCtx util.CLIContext, txBuilder auth.TxBuilder, header pc.SessionHeader,
		totalProofs int64, root pc.HashRange, evidenceType pc.EvidenceType) (*sdk.TxResponse, error) {
		if header.HashString() == r.header.HashString() {
			r.claimed = int(totalProofs)
		}
		return &sdk.TxResponse{}, nil
	}
	w.K.SendClaimTx(w.Ctx(finalHeight), w.K, stubTM{}, w.Node, claimTx)
	return nil
}

func (r *Run) Finish() { r.sched.Drain() }

// ---- property C34 evaluated on the REAL projection

type propState struct {
	ans     map[int]bool // relays answered with a signed response while the evidence was not sealed
	dropped map[int]bool // proofs that were in an evidence a claim pass deleted (below the minimum)
	refused map[int]bool // relays whose store step found the evidence sealed
	proofOf []int
	pre     int
	max     int
}

func intsOf(v interface{}) []int {
	switch x := v.(type) {
	case []int:
		return x
	case []interface{}:
		return hx.Ints(x)
	}
	return nil
}

// observe updates the ghosts of the property from what the step really did.
func (p *propState) observe(op string, id int, out string, before, after map[string]interface{}) {
	if op == "S" && before["sealed"].(bool) && before["found"].(bool) {
		p.refused[id] = true
	}
	if op == "R" && out == "ok" && !before["sealed"].(bool) && !p.refused[id] {
		p.ans[id] = true
	}
	if op == "C" && before["found"].(bool) && !after["found"].(bool) { // the claim pass deleted the evidence
		for _, x := range intsOf(before["proofs"]) {
			p.dropped[x] = true
		}
	}
}

// evaluate returns duplicated proof ids, over-limit flag, and the missing answered relays
// (relay ids; pre-stored relays by their proof id).
func (p *propState) evaluate(view map[string]interface{}) (dups []int, over bool, missing []int) {
	proofs := intsOf(view["proofs"])
	cnt := map[int]int{}
	for _, x := range proofs {
		cnt[x]++
	}
	for x, c := range cnt {
		if c > 1 {
			dups = append(dups, x)
		}
	}
	sort.Ints(dups)
	over = len(proofs) > p.max || view["num"].(int) > p.max
	for r := range p.ans {
		if cnt[p.proofOf[r-1]] == 0 && !p.dropped[p.proofOf[r-1]] {
			missing = append(missing, r)
		}
	}
	for i := 1; i <= p.pre; i++ {
		if cnt[100+i] == 0 && !p.dropped[100+i] {
			missing = append(missing, 100+i)
		}
	}
	sort.Ints(missing)
	return
}

func normView(v interface{}) map[string]interface{} {
	b, _ := json.Marshal(v)
	var m map[string]interface{}
	_ = json.Unmarshal(b, &m)
	for _, k := range []string{"proofs", "bloom"} {
		if m[k] == nil {
			m[k] = []interface{}{}
		}
	}
	return m
}

func subset(a, b []int) bool {
	in := map[int]bool{}
	for _, x := range b {
		in[x] = true
	}
	for _, x := range a {
		if !in[x] {
			return false
		}
	}
	return true
}

// replayConc replays TLC's interleavings (MCEvidenceConc) on the real HandleRelay.
// After every step the announced point / reply and the projected evidence must equal the
// specification's, and the property is evaluated on the REAL evidence: a violation inside
// one of the model's known race shapes (kdup / kerased of the history entry) is counted
// as a known finding, any other one is a mismatch.
func replayConc(in string, shard, of int) {
	rep := hx.NewReport("relay", "replay-conc")
	w := NewWorld()
	defer w.Close()
	sched := NewSched()
	known := map[string]int{}
	seen := map[string]bool{}
	reasonOnly := 0
	var knownSample = map[string]interface{}{}
	err := hx.ReadBehaviours(in, func(idx int, beh []hx.Step) error {
		if idx%of != shard {
			return nil
		}
		rep.Behaviours++
		raw, _ := json.Marshal(beh)
		fresh := !seen[string(raw)]
		seen[string(raw)] = true
		cfg := beh[0]
		sc := Scenario{Proofs: hx.Ints(cfg["proofs"]), Max: cfg.Int("max"), Pre: cfg.Int("pre")}
		run, rerr := w.NewRun(sc, sched)
		defer run.Finish()
		if rerr != nil {
			rep.AddMismatch(hx.Mismatch{Behaviour: idx, Step: 0, Op: "cfg", What: "exec", Got: rerr.Error(), History: beh})
			return nil
		}
		ps := &propState{ans: map[int]bool{}, dropped: map[int]bool{}, refused: map[int]bool{}, proofOf: sc.Proofs, pre: sc.Pre, max: sc.Max}
		mism := func(si int, op, what string, want, got interface{}) {
			rep.AddMismatch(hx.Mismatch{Behaviour: idx, Step: si, Op: op, What: what, Want: want, Got: got, History: beh})
		}
		if got := normView(run.View()); !reflect.DeepEqual(got, normView(cfg["view"])) {
			mism(0, "cfg", "evidence after the pre-stored relays", cfg["view"], got)
			return nil
		}
		concurrent := false
		for si := 1; si < len(beh); si++ {
			st := beh[si]
			op, id := st.Str("op"), st.Int("r")
			rep.Steps++
			rep.OpCounts[op]++
			before := run.View()
			out, err := run.Do(op, id)
			if err != nil {
				mism(si, op, "exec", nil, err.Error())
				return nil
			}
			view := run.View()
			if out != st.Str("out") {
				if isRejection(out) && isRejection(st.Str("out")) {
					reasonOnly++ // rejected either way, for another reason: outside the footprint of C34
				} else {
					mism(si, op, "announced point / reply", st.Str("out"), out)
					return nil
				}
			}
			if got := normView(view); !reflect.DeepEqual(got, normView(st["view"])) {
				mism(si, op, "stored evidence after the step", st["view"], got)
				return nil
			}
			if op == "C" && run.claimed != st.Int("claimed") {
				mism(si, op, "proofs claimed", st.Int("claimed"), run.claimed)
				return nil
			}
			ps.observe(op, id, out, before, view)
			if op != "C" && si > 1 {
				for sj := 1; sj < si; sj++ {
					if beh[sj].Str("op") != "C" && beh[sj].Int("r") != id && !isDoneBefore(beh, beh[sj].Int("r"), si) {
						concurrent = true
					}
				}
			}
			// the property on the real evidence
			dups, over, missing := ps.evaluate(view)
			kdup, kerased := hx.Ints(st["kdup"]), hx.Ints(st["kerased"])
			if len(dups) > 0 {
				if subset(dups, kdup) {
					known["F-C34-a"]++
					if _, ok := knownSample["F-C34-a"]; !ok {
						knownSample["F-C34-a"] = map[string]interface{}{"behaviour": beh[:si+1], "real_evidence": view}
					}
				} else if st.Bool("krevived") {
					known["F-C34-c"]++
					if _, ok := knownSample["F-C34-c"]; !ok {
						knownSample["F-C34-c"] = map[string]interface{}{"behaviour": beh[:si+1], "real_evidence": view}
					}
				} else {
					mism(si, op, "property: duplicate proof in the stored evidence outside the known race shapes", kdup, dups)
					return nil
				}
			}
			if over {
				if st.Bool("krevived") {
					known["F-C34-c"]++
					if _, ok := knownSample["F-C34-c"]; !ok {
						knownSample["F-C34-c"] = map[string]interface{}{"behaviour": beh[:si+1], "real_evidence": view}
					}
				} else {
					mism(si, op, "property: more proofs stored than the application allows (outside the known shape)", sc.Max, view)
					return nil
				}
			}
			if len(missing) > 0 {
				if subset(missing, kerased) {
					known["F-C34-b"]++
					if _, ok := knownSample["F-C34-b"]; !ok {
						knownSample["F-C34-b"] = map[string]interface{}{"behaviour": beh[:si+1], "real_evidence": view, "answered_but_missing": missing}
					}
				} else {
					mism(si, op, "property: relay answered before sealing is not in the stored evidence (outside the known race shape)", kerased, missing)
					return nil
				}
			}
		}
		if fresh && concurrent {
			rep.Nontrivial++
		}
		if idx%2000 == 7 {
			rep.AddSample(beh)
		}
		return nil
	})
	if err != nil {
		hx.Fatal("%v", err)
	}
	rep.Distinct = len(seen)
	rep.Extra["known"] = known
	rep.Extra["known_samples"] = knownSample
	rep.Extra["reason_only_differences"] = reasonOnly
	rep.Print()
}

func isRejection(out string) bool {
	switch out {
	case "relay:validated", "setproof:loaded", "relay:stored", "ok", "claim", "claim-panic", "unsigned":
		return false
	}
	return true
}

// isDoneBefore: did relay r finish (reply or rejection) before step si of the behaviour?
func isDoneBefore(beh []hx.Step, r int, si int) bool {
	for sj := 1; sj < si; sj++ {
		if beh[sj].Int("r") == r && beh[sj].Str("op") != "C" {
			o := beh[sj].Str("out")
			if o != "relay:validated" && o != "setproof:loaded" && o != "relay:stored" {
				return true
			}
		}
	}
	return false
}

// traceConc records executions of concurrent relays under a seeded random scheduler
// (code -> spec).  The driver keeps no model of the evidence: it only knows which
// goroutines have not returned yet.  One NDJSON event per step.
func traceConc(out string, n int, big bool) {
	rep := hx.NewReport("relay", "trace-conc")
	w := NewWorld()
	defer w.Close()
	sched := NewSched()
	tw, err := hx.NewTraceWriter(out)
	if err != nil {
		hx.Fatal("%v", err)
	}
	rng := hx.Rng(34)
	maxes := []int{1, 2, 3, 4, 6}
	for t := 0; t < n; t++ {
		nrel := 2 + rng.Intn(3)
		if big {
			nrel = 2 + rng.Intn(5)
		}
		sc := Scenario{Max: maxes[rng.Intn(len(maxes))]}
		if sc.Max > 1 {
			sc.Pre = rng.Intn(sc.Max)
			if sc.Pre > 3 {
				sc.Pre = 3
			}
		}
		nproofs := maxDistinct(sc.Max) - sc.Pre
		if nproofs > nrel {
			nproofs = nrel
		}
		nproofs = 1 + rng.Intn(nproofs)
		for i := 0; i < nrel; i++ {
			sc.Proofs = append(sc.Proofs, 1+rng.Intn(nproofs))
		}
		claims := rng.Intn(3)
		if sc.Max < 2 && claims > 1 {
			// an allowance below pocketcore/MinimumNumberOfProofs: a second claim pass can find a revived
			// evidence above the allowance and GenerateMerkleRoot panics on the single remaining leaf
			claims = 1
		}
		run, rerr := w.NewRun(sc, sched)
		if rerr != nil {
			tw.Emit(map[string]interface{}{"op": "reset", "proofs": sc.Proofs, "max": sc.Max, "pre": sc.Pre, "view": run.View(), "fail": rerr.Error()})
			run.Finish()
			continue
		}
		tw.Emit(map[string]interface{}{"op": "reset", "proofs": sc.Proofs, "max": sc.Max, "pre": sc.Pre, "view": run.View()})
		rep.Behaviours++
		live := map[int]bool{}
		for i := range sc.Proofs {
			live[i+1] = true
		}
		opOf := map[string]string{"start": "V", "relay:validated": "L", "setproof:loaded": "S", "relay:stored": "R"}
		at := map[int]string{}
		for i := range sc.Proofs {
			at[i+1] = "start"
		}
		failed := false
		for (len(live) > 0 || claims > 0) && !failed {
			var ids []int
			for id := range live {
				ids = append(ids, id)
			}
			sort.Ints(ids)
			pick := rng.Intn(len(ids) + 1)
			if claims > 0 && (pick == len(ids) || len(ids) == 0) {
				if len(ids) > 0 && rng.Intn(3) != 0 { // claims are rarer than relay steps
					continue
				}
				cout := "claim"
				cev := map[string]interface{}{"op": "C", "r": 0}
				if err := run.Claim(); err != nil {
					cout, failed = "claim-panic", true
					cev["fail"] = err.Error()
				}
				claims--
				rep.Steps++
				rep.OpCounts["C"]++
				cev["out"], cev["view"], cev["claimed"] = cout, run.View(), run.claimed
				tw.Emit(cev)
				continue
			}
			if len(ids) == 0 || pick == len(ids) {
				continue
			}
			id := ids[pick]
			op, ok := opOf[at[id]]
			if !ok {
				hx.Fatal("goroutine %d parked at unknown point %q", id, at[id])
			}
			res, err := run.Do(op, id)
			rep.Steps++
			rep.OpCounts[op]++
			ev := map[string]interface{}{"op": op, "r": id, "view": run.View(), "claimed": run.claimed}
			if err != nil {
				ev["out"] = "panic"
				ev["fail"] = err.Error()
				failed = true
			} else {
				ev["out"] = res
			}
			tw.Emit(ev)
			if _, parked := opOf[res]; parked && err == nil {
				at[id] = res
			} else {
				delete(live, id)
			}
		}
		run.Finish()
		if nrel >= 2 {
			rep.Nontrivial++
		}
	}
	if err := tw.Close(); err != nil {
		hx.Fatal("%v", err)
	}
	rep.Extra["events"] = tw.N
	rep.Print()
}
