package main

// C33: session node selection.  Replays Session.tla behaviours on the real
// types.NewSessionNodes over a real nodes keeper (the index stream wanted by the behaviour is
// obtained by searching a session key whose real hash stream starts with it) and records
// random-world traces for TraceSession.tla.

import (
	"bytes"
	"encoding/binary"
	"encoding/hex"
	"fmt"
	"math/rand"
	"sort"
	"strings"
	"sync"
	"sync/atomic"

	"github.com/pokt-network/pocket-core/crypto"
	sdk "github.com/pokt-network/pocket-core/types"
	nodesTypes "github.com/pokt-network/pocket-core/x/nodes/types"
	pcTypes "github.com/pokt-network/pocket-core/x/pocketcore/types"

	"verifharness/internal/hx"
)

const sessChain = "0001"

var otherChains = []string{"0002", "0003", "0004", "0005"}

const sessMaxChains = 3

// realStream computes the first `length` indices (1-based) the real selection loop draws:
// PseudorandomSelection(total, key), key = Hash(key), ...
func realStream(total int, key []byte, length int) []int {
	out := make([]int, 0, length)
	k := append([]byte{}, key...)
	for i := 0; i < length; i++ {
		idx := pcTypes.PseudorandomSelection(sdk.NewInt(int64(total)), k)
		out = append(out, int(idx.Int64())+1)
		k = pcTypes.Hash(k)
	}
	return out
}

// streamUntilAllDrawn: the stream up to the point where every index has appeared (the loop
// cannot run longer), capped.
func streamUntilAllDrawn(total int, key []byte, limit int) []int {
	out := []int{}
	if total == 0 {
		return out
	}
	seen := map[int]bool{}
	k := append([]byte{}, key...)
	for len(out) < limit {
		idx := int(pcTypes.PseudorandomSelection(sdk.NewInt(int64(total)), k).Int64()) + 1
		out = append(out, idx)
		seen[idx] = true
		k = pcTypes.Hash(k)
		if len(seen) == total {
			break
		}
	}
	return out
}

func picksKey(p []int) string {
	var sb strings.Builder
	for _, x := range p {
		sb.WriteByte(byte('0' + x))
	}
	return sb.String()
}

// keyTable[n][prefix] = a session key whose real index stream over n candidates starts with prefix.
type keyTable struct {
	depth int
	m     map[int]map[string][]byte
}

func buildKeyTable(maxN, depth int) *keyTable {
	kt := &keyTable{depth: depth, m: map[int]map[string][]byte{}}
	var wg sync.WaitGroup
	var mu sync.Mutex
	for n := 1; n <= maxN; n++ {
		wg.Add(1)
		go func(n int) {
			defer wg.Done()
			want := 1
			for i := 0; i < depth; i++ {
				want *= n
			}
			tab := map[string][]byte{}
			full := 0
			var ctr uint64
			for full < want {
				var seed [16]byte
				binary.BigEndian.PutUint64(seed[:], ctr)
				binary.BigEndian.PutUint64(seed[8:], uint64(n))
				ctr++
				key := pcTypes.Hash(seed[:])
				st := realStream(n, key, depth)
				for l := 1; l <= depth; l++ {
					pk := picksKey(st[:l])
					if _, ok := tab[pk]; !ok {
						tab[pk] = key
						if l == depth {
							full++
						}
					}
				}
				if ctr > 400000000 {
					hx.Fatal("key search for n=%d depth=%d did not finish", n, depth)
				}
			}
			mu.Lock()
			kt.m[n] = tab
			mu.Unlock()
		}(n)
	}
	wg.Wait()
	return kt
}

func (kt *keyTable) find(n int, picks []int) []byte {
	if len(picks) == 0 || n == 0 {
		return pcTypes.Hash([]byte("any"))
	}
	return kt.m[n][picksKey(picks)]
}

// ---------------------------------------------------------------------------- populations

var heightCounter int64 = 1000

type population struct {
	sessCtx, refCtx sdk.Context
	cands           []sdk.Address // candidates in index order
}

func staked(addr sdk.Address, pk crypto.PublicKey, chains []string) nodesTypes.Validator {
	return nodesTypes.NewValidator(addr, pk, chains, "https://node.example:443", sdk.NewInt(15000000000), nil)
}

func sortedAddrs(tag byte, base, n int) ([]sdk.Address, map[string]crypto.PublicKey) {
	pks := map[string]crypto.PublicKey{}
	as := make([]sdk.Address, n)
	for i := 0; i < n; i++ {
		pk := pubN(tag, base+i)
		as[i] = sdk.Address(pk.Address())
		pks[as[i].String()] = pk
	}
	sort.Slice(as, func(i, j int) bool { return bytes.Compare(as[i], as[j]) < 0 })
	return as, pks
}

// buildPopulation writes the session-start state and the reference state into two independent
// cache-wrapped views of the same (empty) base store.  Candidate i (index order) gets condition
// ref[i] in the reference state.  Distractors that must never be selected are added around them.
func buildPopulation(w *world, n int, ref []string, rng *rand.Rand, base int) *population {
	h := atomic.AddInt64(&heightCounter, 10)
	sc, _ := w.ctx.CacheContext()
	rc, _ := w.ctx.CacheContext()
	sc, rc = sc.WithBlockHeight(h), rc.WithBlockHeight(h+3)
	for _, c := range []sdk.Context{sc, rc} {
		p := nodesTypes.DefaultParams()
		p.MaximumChains = sessMaxChains
		w.nk.SetParams(c, p)
	}
	cands, pks := sortedAddrs(10, base, n)
	someChains := func(k int) []string {
		cs := []string{sessChain}
		perm := rng.Perm(len(otherChains))
		for i := 0; i < k; i++ {
			cs = append(cs, otherChains[perm[i]])
		}
		rng.Shuffle(len(cs), func(i, j int) { cs[i], cs[j] = cs[j], cs[i] })
		return cs
	}
	for i, a := range cands {
		v := staked(a, pks[a.String()], someChains(rng.Intn(sessMaxChains)))
		w.nk.SetValidator(sc, v)
		w.nk.SetStakedValidatorByChains(sc, v)
		switch ref[i] {
		case "ok":
			if rng.Intn(3) == 0 {
				v.Chains = someChains(rng.Intn(sessMaxChains)) // edited, still serving the chain, within the limit
			}
			if rng.Intn(4) == 0 {
				v.Status = sdk.Unstaking // began unstaking after the session started: still served
			}
			w.nk.SetValidator(rc, v)
			if v.Status == sdk.Staked {
				w.nk.SetStakedValidatorByChains(rc, v)
			}
		case "jailed":
			v.Jailed = true
			w.nk.SetValidator(rc, v)
			w.nk.SetStakedValidatorByChains(rc, v)
		case "over":
			v.Chains = someChains(sessMaxChains + rng.Intn(2)) // 4 or 5 chains > MaxChains
			w.nk.SetValidator(rc, v)
			w.nk.SetStakedValidatorByChains(rc, v)
		case "nochain":
			v.Chains = []string{otherChains[rng.Intn(len(otherChains))]}
			w.nk.SetValidator(rc, v)
			w.nk.SetStakedValidatorByChains(rc, v)
		case "gone":
			// no record at all in the reference state
		default:
			hx.Fatal("unknown status %q", ref[i])
		}
	}
	// distractors: staked for other chains only (both states); unstaked record listing the chain
	// (never indexed); staked for the chain only AFTER the session started (reference state only)
	ds, dpk := sortedAddrs(11, base, 5)
	for _, c := range []sdk.Context{sc, rc} {
		v := staked(ds[0], dpk[ds[0].String()], []string{"0002", "0003"})
		w.nk.SetValidator(c, v)
		w.nk.SetStakedValidatorByChains(c, v)
		u := staked(ds[1], dpk[ds[1].String()], []string{sessChain})
		u.Status = sdk.Unstaked
		w.nk.SetValidator(c, u)
	}
	// a node that served the chain, left it BEFORE the session started and came back after it started -
	// all through the real edit-stake path, so that the per-chain index is what the keeper maintains
	for _, c := range []sdk.Context{sc, rc} {
		back := staked(ds[3], dpk[ds[3].String()], []string{sessChain})
		w.nk.SetValidator(c, back)
		w.nk.SetStakedValidatorByChains(c, back)
		away := back
		away.Chains = []string{"0002"}
		if err := w.nk.EditStakeValidator(c, back, away, back.StakedTokens, dpk[ds[3].String()]); err != nil {
			hx.Fatal("edit-stake (away): %v", err)
		}
	}
	{
		cur, _ := w.nk.GetValidator(rc, ds[3])
		again := cur
		again.Chains = []string{sessChain, "0002"}
		if err := w.nk.EditStakeValidator(rc, cur, again, cur.StakedTokens, dpk[ds[3].String()]); err != nil {
			hx.Fatal("edit-stake (back): %v", err)
		}
	}
	late := staked(ds[2], dpk[ds[2].String()], []string{sessChain})
	w.nk.SetValidator(rc, late)
	w.nk.SetStakedValidatorByChains(rc, late)
	return &population{sessCtx: sc, refCtx: rc, cands: cands}
}

func (p *population) index(a sdk.Address) int {
	for i, c := range p.cands {
		if c.Equals(a) {
			return i + 1
		}
	}
	return 0
}

// callNodes runs the real selection and maps the result into the specification's vocabulary.
func callNodes(w *world, p *population, key []byte, N int) (res string, sel []int, fail string) {
	defer func() {
		if rc := recover(); rc != nil {
			fail = fmt.Sprintf("panic: %v", rc)
		}
	}()
	nodes, err := pcTypes.NewSessionNodes(p.sessCtx, p.refCtx, w.nk, sessChain, pcTypes.SessionKey(key), N)
	if err != nil {
		if err.Code() != pcTypes.CodeInsufficientNodesError {
			return "", nil, "unexpected error: " + err.Error()
		}
		return "fail", []int{}, ""
	}
	sel = make([]int, len(nodes))
	for i, a := range nodes {
		sel[i] = p.index(a)
	}
	return "ok", sel, ""
}

func eqInts(a, b []int) bool {
	if len(a) != len(b) {
		return false
	}
	for i := range a {
		if a[i] != b[i] {
			return false
		}
	}
	return true
}

func strs(v interface{}) []string {
	arr, _ := v.([]interface{})
	out := make([]string, len(arr))
	for i, e := range arr {
		out[i], _ = e.(string)
	}
	return out
}

func replaySession(in string, maxNodes, maxPicks int) {
	setFeatureSchedule()
	kt := buildKeyTable(maxNodes, maxPicks)
	rep := hx.NewReport("reward", "replay-session")
	pool := sync.Pool{New: func() interface{} { return newWorld(5) }}
	err := hx.ParallelBehaviours(in, hx.Workers(), rep, func(idx int, beh []hx.Step, fresh bool, rep *hx.Report) {
		w := pool.Get().(*world)
		defer pool.Put(w)
		if len(beh) == 0 || beh[0].Str("op") != "Setup" {
			hx.Fatal("behaviour %d does not start with Setup", idx)
		}
		s0 := beh[0]
		n, N, ref := s0.Int("n"), s0.Int("N"), strs(s0["ref"])
		picks := []int{}
		for _, s := range beh[1:] {
			if s.Str("op") == "Pick" {
				picks = append(picks, s.Int("i"))
			}
		}
		last := beh[len(beh)-1]
		wantRes, wantSel := last.Str("res"), hx.Ints(last["sel"])
		if wantRes == "fail" {
			wantSel = []int{}
		}
		if wantRes != "ok" && wantRes != "fail" {
			return // loop not finished within the bound: the real outcome depends on the rest of the stream
		}
		rep.Steps += len(beh)
		key := kt.find(n, picks)
		if key == nil {
			hx.Fatal("no session key for n=%d picks=%v", n, picks)
		}
		rng := rand.New(rand.NewSource(hx.Seed()*1315423911 + int64(idx)))
		pop := buildPopulation(w, n, ref, rng, idx*16)
		mm := func(what string, want, got interface{}) {
			rep.AddMismatch(hx.Mismatch{Behaviour: idx, Step: len(beh) - 1, Op: "NewSessionNodes", What: what, Want: want, Got: got, History: beh})
		}
		res, sel, fail := callNodes(w, pop, key, N)
		if fail != "" {
			mm("exec", last, fail)
			return
		}
		if res != wantRes || !eqInts(sel, wantSel) {
			mm("session nodes (candidate indices)", []interface{}{wantRes, wantSel}, []interface{}{res, sel})
			return
		}
		// same inputs again (now served from the staked-by-chain cache of that height): same session
		res2, sel2, fail2 := callNodes(w, pop, key, N)
		if fail2 != "" || res2 != res || !eqInts(sel2, sel) {
			mm("second call differs (determinism)", []interface{}{res, sel}, []interface{}{res2, sel2, fail2})
			return
		}
		if fresh && n >= 2 && len(picks) >= 2 {
			rep.Nontrivial++
		}
		if idx%20000 == 5 {
			rep.AddSample(beh)
		}
	})
	if err != nil {
		hx.Fatal("%v", err)
	}
	rep.Print()
}

// ---------------------------------------------------------------------------- traces

// projectRef reads the candidates of the session-start state from the raw staked-by-chain index
// and the condition of each of them from the validator records of the reference state.
func projectRef(w *world, sessCtx, refCtx sdk.Context) (cands []sdk.Address, ref []string) {
	cb, _ := hex.DecodeString(sessChain)
	st := sessCtx.KVStore(w.posKey)
	it, _ := sdk.KVStorePrefixIterator(st, nodesTypes.KeyForValidatorsByNetworkID(cb))
	for ; it.Valid(); it.Next() {
		cands = append(cands, append(sdk.Address{}, nodesTypes.AddressForValidatorByNetworkIDKey(it.Key(), cb)...))
	}
	it.Close()
	maxChains := w.nk.MaxChains(sessCtx)
	ref = make([]string, len(cands))
	for i, a := range cands {
		v, found := w.nk.GetValidator(refCtx, a)
		has := false
		for _, c := range v.Chains {
			if c == sessChain {
				has = true
			}
		}
		switch {
		case !found:
			ref[i] = "gone"
		case v.Jailed:
			ref[i] = "jailed"
		case !has:
			ref[i] = "nochain"
		case int64(len(v.Chains)) > maxChains:
			ref[i] = "over"
		default:
			ref[i] = "ok"
		}
	}
	return
}

func randStatuses(rng *rand.Rand, n int) []string {
	ref := make([]string, n)
	pBad := []float64{0, 0.15, 0.4, 0.8, 1}[rng.Intn(5)]
	bad := []string{"jailed", "jailed", "over", "gone", "nochain"}
	for i := range ref {
		if rng.Float64() < pBad {
			ref[i] = bad[rng.Intn(len(bad))]
		} else {
			ref[i] = "ok"
		}
	}
	return ref
}

func traceSession(out string, worlds int) {
	setFeatureSchedule()
	tw, err := hx.NewTraceWriter(out)
	if err != nil {
		hx.Fatal("%v", err)
	}
	rep := hx.NewReport("reward", "trace-session")
	w := newWorld(5)
	appPK := hex.EncodeToString(pubN(20, 1).RawBytes())
	for t := 0; t < worlds; t++ {
		rng := hx.Rng(int64(330000 + t))
		n := []int{0, 1, 2, 3, 4, 5, 6, 8, 12, 24, 30}[rng.Intn(11)]
		N := []int{1, 2, 3, 5, 5, 24}[rng.Intn(6)]
		if rng.Intn(3) == 0 && n > 0 {
			N = 1 + rng.Intn(n) // around the population size
		}
		want := randStatuses(rng, n)
		pop := buildPopulation(w, n, want, rng, 100000+t*64)
		// apply some reference-state changes through the keeper's own state transitions
		for i, a := range pop.cands {
			if want[i] == "ok" && rng.Intn(6) == 0 {
				w.nk.JailValidator(pop.refCtx, a)
			} else if want[i] == "ok" && rng.Intn(8) == 0 {
				if v, ok := w.nk.GetValidator(pop.refCtx, a); ok && v.Status == sdk.Staked {
					w.nk.BeginUnstakingValidator(pop.refCtx, v)
				}
			} else if want[i] == "jailed" && rng.Intn(5) == 0 {
				w.nk.DeleteValidator(pop.refCtx, a)
			}
		}
		cands, ref := projectRef(w, pop.sessCtx, pop.refCtx)
		pop.cands = cands
		blockHash := hex.EncodeToString(pcTypes.Hash([]byte(fmt.Sprintf("block-%d-%d", hx.Seed(), t))))
		key, kerr := pcTypes.NewSessionKey(appPK, sessChain, blockHash)
		if kerr != nil {
			hx.Fatal("NewSessionKey: %v", kerr)
		}
		stream := streamUntilAllDrawn(len(cands), key, 20000)
		rep.Behaviours++
		if len(cands) >= 2 && N <= len(cands) {
			rep.Nontrivial++
		}
		for call := 1; call <= 4; call++ {
			ev := map[string]interface{}{"op": "session", "world": t, "call": call, "n": len(cands), "ref": ref, "N": N, "stream": stream}
			var res string
			var sel []int
			var fail string
			switch call {
			case 3:
				// fresh process-wide cache: recomputed from the store
				sdk.VbCCache.Purge()
				res, sel, fail = callNodes(w, pop, key, N)
				ev["via"] = "NewSessionNodes (cache purged)"
			case 4:
				ev["via"] = "NewSession"
				func() {
					defer func() {
						if rc := recover(); rc != nil {
							fail = fmt.Sprintf("panic: %v", rc)
						}
					}()
					hdr := pcTypes.SessionHeader{ApplicationPubKey: appPK, Chain: sessChain, SessionBlockHeight: pop.sessCtx.BlockHeight()}
					s, e := pcTypes.NewSession(pop.sessCtx, pop.refCtx, w.nk, hdr, blockHash, N)
					if e != nil {
						if e.Code() != pcTypes.CodeInsufficientNodesError {
							fail = "unexpected error: " + e.Error()
						}
						res, sel = "fail", []int{}
						return
					}
					res = "ok"
					for _, a := range s.SessionNodes {
						sel = append(sel, pop.index(a))
					}
					if !bytes.Equal(s.SessionKey, key) {
						fail = "NewSession used a different session key than NewSessionKey"
					}
				}()
			default:
				res, sel, fail = callNodes(w, pop, key, N)
				ev["via"] = "NewSessionNodes"
			}
			if sel == nil {
				sel = []int{}
			}
			ev["res"], ev["sel"] = res, sel
			if fail != "" {
				ev["fail"] = fail
			}
			tw.Emit(ev)
			rep.Steps++
		}
	}
	if err := tw.Close(); err != nil {
		hx.Fatal("%v", err)
	}
	rep.Extra["events"] = tw.N
	rep.Print()
}
