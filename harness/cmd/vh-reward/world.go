package main

import (
	"encoding/binary"
	"time"

	"github.com/pokt-network/pocket-core/codec"
	cdctypes "github.com/pokt-network/pocket-core/codec/types"
	"github.com/pokt-network/pocket-core/crypto"
	"github.com/pokt-network/pocket-core/store"
	sdk "github.com/pokt-network/pocket-core/types"
	"github.com/pokt-network/pocket-core/x/auth"
	authTypes "github.com/pokt-network/pocket-core/x/auth/types"
	"github.com/pokt-network/pocket-core/x/gov"
	govTypes "github.com/pokt-network/pocket-core/x/gov/types"
	nodesKeeper "github.com/pokt-network/pocket-core/x/nodes/keeper"
	nodesTypes "github.com/pokt-network/pocket-core/x/nodes/types"
	abci "github.com/tendermint/tendermint/abci/types"
	"github.com/tendermint/tendermint/libs/log"
	tmtypes "github.com/tendermint/tendermint/types"
	dbm "github.com/tendermint/tm-db"

	"verifharness/internal/hx"
)

// Height at which the keeper-level worlds of C26/C27 run.  RewardForRelaysPerChain pays the
// output address only from codec.NonCustodial2AllowanceHeight (a compile-time constant) on,
// so the context height has to be beyond it.
const rewardHeight = 100000

// setFeatureSchedule installs the process-global feature schedule the way a node that
// replayed all upgrades has it (the real gating globals, not codec.TestMode).
func setFeatureSchedule() {
	codec.TestMode = 0
	codec.OldUpgradeHeight = 1
	codec.UpgradeHeight = 2
	for _, k := range []string{
		codec.UpgradeCodecUpdateKey, codec.ValidatorSplitUpdateKey, codec.NonCustodialUpdateKey,
		codec.EnforceMaxChainsUpdateKey, codec.TxCacheEnhancementKey, codec.MaxRelayProtKey,
		codec.ReplayBurnKey, codec.BlockSizeModifyKey, codec.RSCALKey, codec.VEDITKey,
		codec.OutputAddressEditKey, codec.ClearUnjailedValSessionKey, codec.PerChainRTTM,
		codec.AppTransferKey, codec.RewardDelegatorsKey,
	} {
		codec.UpgradeFeatureMap[k] = 1
	}
}

func makeCodec() *codec.Codec {
	cdc := codec.NewCodec(cdctypes.NewInterfaceRegistry())
	auth.RegisterCodec(cdc)
	gov.RegisterCodec(cdc)
	sdk.RegisterCodec(cdc)
	crypto.RegisterAmino(cdc.AminoCodec().Amino)
	return cdc
}

type noopPocketKeeper struct{}

func (noopPocketKeeper) ClearSessionCache() {}

// world = real auth keeper + real nodes keeper over an in-memory root multistore
// (same construction as x/nodes/keeper/common_test.go:createTestInput, exported APIs only).
type world struct {
	ms     sdk.CommitMultiStore
	ctx    sdk.Context
	ak     auth.Keeper
	nk     nodesKeeper.Keeper
	cdc    *codec.Codec
	posKey *sdk.KVStoreKey
	accKey *sdk.KVStoreKey
}

func newWorld(height int64) *world {
	keyAcc := sdk.NewKVStoreKey(auth.StoreKey)
	keyPOS := sdk.NewKVStoreKey(nodesTypes.StoreKey)
	db := dbm.NewMemDB()
	ms := store.NewCommitMultiStore(db, false, 5000000)
	ms.MountStoreWithDB(keyAcc, sdk.StoreTypeIAVL, db)
	ms.MountStoreWithDB(keyPOS, sdk.StoreTypeIAVL, db)
	ms.MountStoreWithDB(sdk.ParamsKey, sdk.StoreTypeIAVL, db)
	ms.MountStoreWithDB(sdk.ParamsTKey, sdk.StoreTypeTransient, db)
	if err := ms.LoadLatestVersion(); err != nil {
		hx.Fatal("LoadLatestVersion: %v", err)
	}
	ctx := sdk.NewContext(ms, abci.Header{ChainID: "verif-chain", Height: height, Time: time.Unix(1700000000, 0)},
		false, log.NewNopLogger()).WithAppVersion("0.0.0")
	ctx = ctx.WithConsensusParams(&abci.ConsensusParams{
		Validator: &abci.ValidatorParams{PubKeyTypes: []string{tmtypes.ABCIPubKeyTypeEd25519}},
	})
	cdc := makeCodec()
	maccPerms := map[string][]string{
		auth.FeeCollectorName:     nil,
		nodesTypes.StakedPoolName: {auth.Burner, auth.Staking, auth.Minter},
		govTypes.DAOAccountName:   {auth.Burner, auth.Staking},
	}
	ak := auth.NewKeeper(cdc, keyAcc, sdk.NewSubspace(auth.DefaultParamspace), maccPerms)
	ak.SetParams(ctx, authTypes.DefaultParams())
	ak.SetSupply(ctx, authTypes.NewSupply(sdk.NewCoins()))
	nk := nodesKeeper.NewKeeper(cdc, keyPOS, ak, sdk.NewSubspace(nodesKeeper.DefaultParamspace), nodesTypes.ModuleName)
	nk.PocketKeeper = noopPocketKeeper{}
	nk.SetParams(ctx, nodesTypes.DefaultParams())
	return &world{ms: ms, ctx: ctx, ak: ak, nk: nk, cdc: cdc, posKey: keyPOS, accKey: keyAcc}
}

// addrN derives a deterministic 20-byte address from a tag and an index.
func addrN(tag byte, i int) sdk.Address {
	var seed [32]byte
	seed[0] = tag
	binary.BigEndian.PutUint64(seed[8:], uint64(i))
	binary.BigEndian.PutUint64(seed[16:], uint64(hx.Seed()))
	var pk crypto.Ed25519PublicKey
	copy(pk[:], seed[:])
	return sdk.Address(pk.Address())
}

func pubN(tag byte, i int) crypto.Ed25519PublicKey {
	var seed [32]byte
	seed[0] = tag
	binary.BigEndian.PutUint64(seed[8:], uint64(i))
	binary.BigEndian.PutUint64(seed[16:], uint64(hx.Seed()))
	var pk crypto.Ed25519PublicKey
	copy(pk[:], seed[:])
	return pk
}

func (w *world) balance(ctx sdk.Ctx, a sdk.Address) sdk.BigInt {
	return w.ak.GetCoins(ctx, a).AmountOf(sdk.DefaultStakeDenom)
}

func (w *world) supply(ctx sdk.Ctx) sdk.BigInt {
	return w.ak.GetSupply(ctx).GetTotal().AmountOf(sdk.DefaultStakeDenom)
}

func ucoins(n sdk.BigInt) sdk.Coins { return sdk.NewCoins(sdk.NewCoin(sdk.DefaultStakeDenom, n)) }
