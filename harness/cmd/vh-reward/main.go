package main

import (
	"flag"
	"fmt"
	"os"
)

// vh-reward: reward engine (C26 reward/fee split, C27 stake weighting, C33 sessions).
//
//	vh-reward replay-split   -in behaviours [-payer N]
//	vh-reward trace-split    -out trace.ndjson -n WORLDS -steps K
//	vh-reward replay-weight  -in behaviours
//	vh-reward replay-session -in behaviours -maxnodes N -maxpicks K
//	vh-reward trace-session  -out trace.ndjson -n WORLDS
//	vh-reward trace-dispatch -out trace.ndjson -n WORLDS   (keeper.HandleDispatch over committed versions)
//	vh-reward trace-weight   -out trace.ndjson -mode main|manybins|confirm -tier quick|thorough [-f F -ceil C]
func main() {
	if len(os.Args) < 2 {
		fmt.Fprintln(os.Stderr, "usage: vh-reward <cmd> ...")
		os.Exit(2)
	}
	cmd := os.Args[1]
	fs := flag.NewFlagSet(cmd, flag.ExitOnError)
	in := fs.String("in", "", "behaviour file")
	out := fs.String("out", "", "trace output file")
	n := fs.Int("n", 10, "number of worlds / traces")
	steps := fs.Int("steps", 12, "steps per trace")
	payer := fs.Int64("payer", 1000, "initial balance of the fee payer (PayerInit of the specification)")
	mode := fs.String("mode", "main", "trace-weight: main | manybins | confirm")
	tier := fs.String("tier", "quick", "quick | thorough")
	ff := fs.Int64("f", 2, "confirm: ServicerStakeFloorMultiplier")
	fc := fs.Int64("ceil", 2, "confirm: ServicerStakeWeightCeiling")
	maxNodes := fs.Int("maxnodes", 5, "replay-session: MaxNodes of the specification instance")
	maxPicks := fs.Int("maxpicks", 6, "replay-session: MaxPicks of the specification instance")
	_ = fs.Parse(os.Args[2:])
	switch cmd {
	case "replay-split":
		replaySplit(*in, *payer)
	case "trace-split":
		traceSplit(*out, *n, *steps)
	case "replay-weight":
		replayWeight(*in)
	case "trace-weight":
		traceWeight(*out, *mode, *tier, *ff, *fc)
	case "replay-session":
		replaySession(*in, *maxNodes, *maxPicks)
	case "trace-session":
		traceSession(*out, *n)
	case "trace-dispatch":
		traceDispatch(*out, *n)
	default:
		fmt.Fprintln(os.Stderr, "unknown command", cmd)
		os.Exit(2)
	}
}
