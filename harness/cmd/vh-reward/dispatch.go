package main

// C33 through the keeper's session entry point: pocketcore keeper.HandleDispatch over a root
// multistore with committed versions and a block store (ctx.PrevCtx needs both).  Blocks 1..5
// build the population (session start = block 5 with 4 blocks per session), blocks 6..H change
// it; the dispatch runs at height H.  Single-threaded: the session cache, the staked-by-chain
// cache and the upgrade schedule are process-global.

import (
	"encoding/hex"
	"fmt"
	"time"

	"github.com/pokt-network/pocket-core/store"
	sdk "github.com/pokt-network/pocket-core/types"
	appsKeeper "github.com/pokt-network/pocket-core/x/apps/keeper"
	appsTypes "github.com/pokt-network/pocket-core/x/apps/types"
	"github.com/pokt-network/pocket-core/x/auth"
	authTypes "github.com/pokt-network/pocket-core/x/auth/types"
	govTypes "github.com/pokt-network/pocket-core/x/gov/types"
	nodesKeeper "github.com/pokt-network/pocket-core/x/nodes/keeper"
	nodesTypes "github.com/pokt-network/pocket-core/x/nodes/types"
	pcKeeper "github.com/pokt-network/pocket-core/x/pocketcore/keeper"
	pcTypes "github.com/pokt-network/pocket-core/x/pocketcore/types"
	abci "github.com/tendermint/tendermint/abci/types"
	tmcfg "github.com/tendermint/tendermint/config"
	"github.com/tendermint/tendermint/libs/log"
	tmStore "github.com/tendermint/tendermint/store"
	tmtypes "github.com/tendermint/tendermint/types"
	dbm "github.com/tendermint/tm-db"

	"verifharness/internal/hx"
)

type dispatchWorld struct {
	world
	pk     pcKeeper.Keeper
	bs     *tmStore.BlockStore
	lastID tmtypes.BlockID
}

func newDispatchWorld() *dispatchWorld {
	keyAcc := sdk.NewKVStoreKey(auth.StoreKey)
	keyPOS := sdk.NewKVStoreKey(nodesTypes.StoreKey)
	keyApps := sdk.NewKVStoreKey(appsTypes.StoreKey)
	keyPC := sdk.NewKVStoreKey(pcTypes.StoreKey)
	db := dbm.NewMemDB()
	ms := store.NewCommitMultiStore(db, false, 5000000)
	for _, k := range []*sdk.KVStoreKey{keyAcc, keyPOS, keyApps, keyPC, sdk.ParamsKey} {
		ms.MountStoreWithDB(k, sdk.StoreTypeIAVL, nil)
	}
	ms.MountStoreWithDB(sdk.ParamsTKey, sdk.StoreTypeTransient, nil)
	if err := ms.LoadLatestVersion(); err != nil {
		hx.Fatal("LoadLatestVersion: %v", err)
	}
	cdc := makeCodec()
	maccPerms := map[string][]string{
		auth.FeeCollectorName:     nil,
		nodesTypes.StakedPoolName: {auth.Burner, auth.Staking, auth.Minter},
		appsTypes.StakedPoolName:  {auth.Burner, auth.Staking, auth.Minter},
		govTypes.DAOAccountName:   {auth.Burner, auth.Staking},
	}
	ak := auth.NewKeeper(cdc, keyAcc, sdk.NewSubspace(auth.DefaultParamspace), maccPerms)
	nk := nodesKeeper.NewKeeper(cdc, keyPOS, ak, sdk.NewSubspace(nodesKeeper.DefaultParamspace), nodesTypes.ModuleName)
	nk.PocketKeeper = noopPocketKeeper{}
	appk := appsKeeper.NewKeeper(cdc, keyApps, nk, ak, nil, sdk.NewSubspace(appsTypes.DefaultParamspace), appsTypes.ModuleName)
	hb := pcTypes.HostedBlockchains{M: map[string]pcTypes.HostedBlockchain{}}
	pk := pcKeeper.NewKeeper(keyPC, cdc, ak, nk, appk, &hb, sdk.NewSubspace(pcTypes.DefaultParamspace))
	dw := &dispatchWorld{pk: pk, bs: tmStore.NewBlockStore(dbm.NewMemDB())}
	dw.world = world{ms: ms, ak: ak, nk: nk, cdc: cdc, posKey: keyPOS, accKey: keyAcc}
	return dw
}

// beginBlock saves block h in the block store (as Tendermint does before BeginBlock) and
// returns the context of that block over the working state.
func (dw *dispatchWorld) beginBlock(h int64) sdk.Context {
	blk := tmtypes.MakeBlock(h, nil, &tmtypes.Commit{}, nil)
	blk.Header.ChainID = "verif-chain"
	blk.Header.Time = time.Unix(1700000000+h*60, 0).UTC()
	blk.Header.LastBlockID = dw.lastID
	blk.Header.ConsensusHash = pcTypes.Hash([]byte("consensus"))
	blk.Header.AppHash = pcTypes.Hash([]byte(fmt.Sprintf("app-%d", h)))
	blk.Header.ProposerAddress = tmtypes.Address(addrN(9, 1))
	ps := blk.MakePartSet(65536)
	dw.bs.SaveBlock(blk, ps, &tmtypes.Commit{})
	dw.lastID = tmtypes.BlockID{Hash: blk.Hash(), PartsHeader: ps.Header()}
	hdr := abci.Header{ChainID: "verif-chain", Height: h, Time: blk.Header.Time,
		LastBlockId: abci.BlockID{Hash: blk.Header.LastBlockID.Hash}, ConsensusHash: blk.Header.ConsensusHash,
		AppHash: blk.Header.AppHash, ProposerAddress: blk.Header.ProposerAddress}
	ctx := sdk.NewContext(dw.ms, hdr, false, log.NewNopLogger()).WithAppVersion("0.0.0").WithBlockStore(dw.bs)
	return ctx
}

func traceDispatch(out string, worlds int) {
	setFeatureSchedule()
	sessCache := &pcTypes.CacheStorage{}
	sessCache.Init("", "", tmcfg.DefaultLevelDBOpts(), 1000, true)
	pcTypes.GlobalSessionCache = sessCache
	tw, err := hx.NewTraceWriter(out)
	if err != nil {
		hx.Fatal("%v", err)
	}
	rep := hx.NewReport("reward", "trace-dispatch")
	const sessionStart = 5
	for t := 0; t < worlds; t++ {
		rng := hx.Rng(int64(770000 + t))
		sdk.VbCCache.Purge()
		pcTypes.ClearSessionCache(pcTypes.GlobalSessionCache)
		dw := newDispatchWorld()
		n := []int{0, 1, 2, 3, 4, 5, 6, 8, 12}[rng.Intn(9)]
		N := int64([]int{1, 2, 3, 5}[rng.Intn(4)])
		H := int64(sessionStart + rng.Intn(4)) // 5..8: same session; 5 = dispatched on the session block itself
		want := randStatuses(rng, n)
		cands, pks := sortedAddrs(12, 500000+t*64, n)
		late, lpk := sortedAddrs(13, 500000+t*64, 2)
		var ctx sdk.Context
		for h := int64(1); h <= H; h++ {
			ctx = dw.beginBlock(h)
			if h == 1 {
				dw.ak.SetParams(ctx, authTypes.DefaultParams())
				dw.ak.SetSupply(ctx, authTypes.NewSupply(sdk.NewCoins()))
				np := nodesTypes.DefaultParams()
				np.SessionBlockFrequency = 4
				np.MaximumChains = sessMaxChains
				dw.nk.SetParams(ctx, np)
				pp := pcTypes.DefaultParams()
				pp.SessionNodeCount = N
				pp.SupportedBlockchains = []string{sessChain}
				dw.pk.SetParams(ctx, pp)
				o := staked(late[0], lpk[late[0].String()], []string{"0002"})
				dw.nk.SetValidator(ctx, o)
				dw.nk.SetStakedValidatorByChains(ctx, o)
			}
			if h <= sessionStart {
				// candidates stake during the blocks up to the session block
				for i, a := range cands {
					if int64(i%sessionStart)+1 == h {
						v := staked(a, pks[a.String()], []string{sessChain, "0002"}[:1+rng.Intn(2)])
						dw.nk.SetValidator(ctx, v)
						dw.nk.SetStakedValidatorByChains(ctx, v)
						dw.nk.SetValidatorSigningInfo(ctx, a, nodesTypes.ValidatorSigningInfo{Address: a, StartHeight: h, JailedUntil: time.Unix(0, 0)})
					}
				}
			} else if h == sessionStart+1 {
				// the reference state drifts away from the session-start state through the keeper's own transitions
				for i, a := range cands {
					v, _ := dw.nk.GetValidator(ctx, a)
					switch want[i] {
					case "jailed":
						dw.nk.JailValidator(ctx, a)
					case "over", "nochain":
						nv := v
						nv.Chains = []string{sessChain, "0002", "0003", "0004"}
						if want[i] == "nochain" {
							nv.Chains = []string{"0003"}
						}
						if e := dw.nk.EditStakeValidator(ctx, v, nv, v.StakedTokens, pks[a.String()]); e != nil {
							hx.Fatal("EditStakeValidator: %v", e)
						}
					case "gone":
						dw.nk.BeginUnstakingValidator(ctx, v)
						v, _ = dw.nk.GetValidator(ctx, a)
						dw.nk.DeleteValidator(ctx, v.Address)
					default:
						if rng.Intn(4) == 0 {
							dw.nk.BeginUnstakingValidator(ctx, v)
						}
					}
				}
				l := staked(late[1], lpk[late[1].String()], []string{sessChain})
				dw.nk.SetValidator(ctx, l)
				dw.nk.SetStakedValidatorByChains(ctx, l)
			}
			dw.ms.Commit()
		}
		// dispatch context: working state after the last commit, at height H
		appPK := hex.EncodeToString(pubN(21, t).RawBytes())
		hs := dw.pk.GetLatestSessionBlockHeight(ctx)
		sessCtxI, perr := ctx.PrevCtx(hs)
		if perr != nil {
			hx.Fatal("PrevCtx(%d): %v", hs, perr)
		}
		pcands, ref := projectRef(&dw.world, sessCtxI, ctx)
		pop := &population{cands: pcands}
		bh, berr := sessCtxI.BlockHash(dw.cdc, hs)
		if berr != nil {
			hx.Fatal("BlockHash: %v", berr)
		}
		key, kerr := pcTypes.NewSessionKey(appPK, sessChain, hex.EncodeToString(bh))
		if kerr != nil {
			hx.Fatal("NewSessionKey: %v", kerr)
		}
		stream := streamUntilAllDrawn(len(pcands), key, 20000)
		rep.Behaviours++
		if len(pcands) >= 2 && int(N) <= len(pcands) && H > sessionStart {
			rep.Nontrivial++
		}
		for call := 1; call <= 2; call++ {
			ev := map[string]interface{}{"op": "session", "world": 1000000 + t, "call": call, "n": len(pcands), "ref": ref, "N": N,
				"stream": stream, "via": []string{"HandleDispatch", "HandleDispatch (session cache)"}[call-1], "height": H, "session_height": hs}
			res, sel, fail := "", []int{}, ""
			func() {
				defer func() {
					if rc := recover(); rc != nil {
						fail = fmt.Sprintf("panic: %v", rc)
					}
				}()
				resp, e := dw.pk.HandleDispatch(ctx, pcTypes.SessionHeader{ApplicationPubKey: appPK, Chain: sessChain})
				if e != nil {
					if e.Code() != pcTypes.CodeInsufficientNodesError {
						fail = "unexpected error: " + e.Error()
					}
					res = "fail"
					return
				}
				res = "ok"
				for _, nd := range resp.Session.SessionNodes {
					if nd == nil {
						sel = append(sel, 0)
						continue
					}
					sel = append(sel, pop.index(nd.GetAddress()))
				}
				if hex.EncodeToString(resp.Session.SessionKey) != hex.EncodeToString(key) || resp.Session.SessionHeader.SessionBlockHeight != hs {
					fail = "dispatch used another session key / session height than the exported functions give"
				}
			}()
			ev["res"], ev["sel"] = res, sel
			if fail != "" {
				ev["fail"] = fail
			}
			tw.Emit(ev)
			rep.Steps++
		}
	}
	if err := tw.Close(); err != nil {
		hx.Fatal("%v", err)
	}
	rep.Extra["events"] = tw.N
	rep.Print()
}
