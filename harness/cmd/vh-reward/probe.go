package main

import (
	"fmt"
	"time"

	sdk "github.com/pokt-network/pocket-core/types"
	"github.com/pokt-network/pocket-core/x/auth"
	govTypes "github.com/pokt-network/pocket-core/x/gov/types"
	nodesKeeper "github.com/pokt-network/pocket-core/x/nodes/keeper"
	nodesTypes "github.com/pokt-network/pocket-core/x/nodes/types"
	abci "github.com/tendermint/tendermint/abci/types"
)

func probe() {
	setFeatureSchedule()
	w := newWorld(rewardHeight)
	p := nodesTypes.DefaultParams()
	p.ServicerStakeFloorMultiplier = 10
	p.ServicerStakeWeightCeiling = 10
	p.ServicerStakeWeightMultiplier = sdk.NewDec(1)
	p.ServicerStakeFloorMultiplierExponent = sdk.NewDec(1)
	p.RelaysToTokensMultiplier = 1
	p.DAOAllocation = 10
	p.ProposerAllocation = 1
	p.StakeMinimum = 0
	w.nk.SetParams(w.ctx, p)
	ap := w.ak.GetParams(w.ctx)
	ap.FeeMultiplier.Default = 0
	w.ak.SetParams(w.ctx, ap)
	op, out, d1, d2 := addrN(1, 1), addrN(2, 1), addrN(3, 1), addrN(3, 2)
	val := nodesTypes.Validator{Address: op, PublicKey: pubN(1, 1), Status: sdk.Staked, Chains: []string{"0001"},
		ServiceURL: "https://x:443", StakedTokens: sdk.NewInt(15), OutputAddress: out,
		RewardDelegators: map[string]uint32{d1.String(): 33, d2.String(): 10}}
	w.nk.SetValidator(w.ctx, val)
	t0 := time.Now()
	for i := 0; i < 1000; i++ {
		cc, _ := w.ctx.CacheContext()
		w.nk.RewardForRelays(cc, sdk.NewInt(299), op)
		if i == 0 {
			fmt.Println("supply", w.supply(cc), "op", w.balance(cc, op), "out", w.balance(cc, out), "d1", w.balance(cc, d1), "d2", w.balance(cc, d2),
				"fee", w.balance(cc, w.ak.GetModuleAddress(auth.FeeCollectorName)), "dao", w.balance(cc, w.ak.GetModuleAddress(govTypes.DAOAccountName)),
				"pool", w.balance(cc, w.ak.GetModuleAddress(nodesTypes.StakedPoolName)))
			w.nk.SetPreviousProposer(cc, op)
			nodesKeeper.BeginBlocker(cc, abci.RequestBeginBlock{Header: abci.Header{ProposerAddress: op}}, w.nk)
			fmt.Println("supply", w.supply(cc), "op", w.balance(cc, op), "out", w.balance(cc, out), "d1", w.balance(cc, d1), "d2", w.balance(cc, d2),
				"fee", w.balance(cc, w.ak.GetModuleAddress(auth.FeeCollectorName)), "dao", w.balance(cc, w.ak.GetModuleAddress(govTypes.DAOAccountName)))
		}
	}
	fmt.Println("1000 rewards", time.Since(t0))
	// burn
	w.ak.MintCoins(w.ctx, nodesTypes.StakedPoolName, ucoins(sdk.NewInt(1000000)))
	t0 = time.Now()
	for i := 0; i < 1000; i++ {
		cc, _ := w.ctx.CacheContext()
		val.StakedTokens = sdk.NewInt(int64(10 + i%30))
		w.nk.SetValidator(cc, val)
		w.nk.BurnForChallenge(cc, sdk.NewInt(3), op)
		v2, _ := w.nk.GetValidator(cc, op)
		if i < 25 {
			fmt.Println("stake", val.StakedTokens, "after burn", v2.StakedTokens, "status", v2.Status)
		}
	}
	fmt.Println("1000 burns", time.Since(t0))
	// dao+prop = 0
	func() {
		defer func() { fmt.Println("recovered:", recover()) }()
		cc, _ := w.ctx.CacheContext()
		p.DAOAllocation, p.ProposerAllocation = 0, 0
		w.nk.SetParams(cc, p)
		w.ak.MintCoins(cc, nodesTypes.StakedPoolName, ucoins(sdk.NewInt(50)))
		w.ak.SendCoinsFromModuleToModule(cc, nodesTypes.StakedPoolName, auth.FeeCollectorName, ucoins(sdk.NewInt(50)))
		w.nk.SetPreviousProposer(cc, op)
		nodesKeeper.BeginBlocker(cc, abci.RequestBeginBlock{Header: abci.Header{ProposerAddress: op}}, w.nk)
		fmt.Println("no panic; fee", w.balance(cc, w.ak.GetModuleAddress(auth.FeeCollectorName)))
	}()
}
