package main

// C27: stake-weighted reward / burn.  (a) replays StakeWeight.tla behaviours (structural layer,
// W(bin) = bin) on the real CalculateRelayReward / BurnForChallenge; (b) sweeps the real functions
// over stake / count / exponent / multiplier grids under a deadline and logs the results as
// base-10^4 limbs for TraceReward.tla (numeric layer).

import (
	"fmt"
	"math/big"
	"sort"
	"sync"
	"time"

	sdk "github.com/pokt-network/pocket-core/types"
	nodesTypes "github.com/pokt-network/pocket-core/x/nodes/types"

	"verifharness/internal/hx"
)

type weightWorld struct {
	*world
	op sdk.Address
}

func newWeightWorld() *weightWorld {
	w := newWorld(rewardHeight)
	// the staked pool must be able to cover every burn
	if err := w.ak.MintCoins(w.ctx, nodesTypes.StakedPoolName, ucoins(sdk.NewInt(1).Mul(sdk.NewInt(4000000000000000000)))); err != nil {
		hx.Fatal("mint: %v", err)
	}
	return &weightWorld{world: w, op: addrN(1, 1)}
}

type weightParams struct {
	f, ceil, mult int64
	exp           int64  // exponent * 100
	wm            string // ServicerStakeWeightMultiplier as a decimal string
}

func (ww *weightWorld) setParams(ctx sdk.Ctx, p weightParams) {
	np := nodesTypes.DefaultParams()
	np.DAOAllocation, np.ProposerAllocation = 0, 0 // nodeReward = the computed coins
	np.RelaysToTokensMultiplier = p.mult
	np.ServicerStakeFloorMultiplier, np.ServicerStakeWeightCeiling = p.f, p.ceil
	np.ServicerStakeWeightMultiplier = sdk.MustNewDecFromStr(p.wm)
	np.ServicerStakeFloorMultiplierExponent = sdk.NewDecWithPrec(p.exp, 2)
	np.StakeMinimum = 0 // a burn must not trigger the forced unstake
	ww.nk.SetParams(ctx, np)
}

// reward = nodeReward of CalculateRelayReward with zero DAO / proposer allocation.
func (ww *weightWorld) reward(ctx sdk.Ctx, stake, count int64) *big.Int {
	n, _ := ww.nk.CalculateRelayReward(ctx, "", sdk.NewInt(count), sdk.NewInt(stake))
	return n.BigInt()
}

// burn = decrease of the validator's staked tokens caused by BurnForChallenge.
func (ww *weightWorld) burn(ctx sdk.Context, stake, count int64) *big.Int {
	cc, _ := ctx.CacheContext()
	val := nodesTypes.Validator{Address: ww.op, PublicKey: pubN(1, 1), Status: sdk.Staked, Chains: []string{"0001"},
		ServiceURL: "https://node.example:443", StakedTokens: sdk.NewInt(stake)}
	ww.nk.SetValidator(cc, val)
	ww.nk.BurnForChallenge(cc, sdk.NewInt(count), ww.op)
	after, found := ww.nk.GetValidator(cc, ww.op)
	if !found {
		panic("validator disappeared after BurnForChallenge")
	}
	return new(big.Int).Sub(big.NewInt(stake), after.StakedTokens.BigInt())
}

// selfCheckIdentityWeight: the structural replay realises W(bin) = bin with exponent 1; that
// needs FracPow(bin, 1.00) to be bin up to a positive error far below 1/(mult*count).
func selfCheckIdentityWeight(maxBin int64) {
	for b := int64(0); b <= maxBin; b++ {
		v := sdk.NewInt(b).ToDec().FracPow(sdk.NewDec(1), 100)
		lo, hi := sdk.NewInt(b).ToDec(), sdk.NewInt(b).ToDec().Add(sdk.NewDecWithPrec(1, 9))
		if v.LT(lo) || v.GT(hi) {
			hx.Fatal("FracPow(%d, 1.00) = %s is not within [bin, bin+1e-9]: the structural replay cannot realise W(bin)=bin", b, v)
		}
	}
}

func replayWeight(in string) {
	setFeatureSchedule()
	selfCheckIdentityWeight(12)
	rep := hx.NewReport("reward", "replay-weight")
	pool := sync.Pool{New: func() interface{} { return newWeightWorld() }}
	err := hx.ParallelBehaviours(in, hx.Workers(), rep, func(idx int, beh []hx.Step, fresh bool, rep *hx.Report) {
		ww := pool.Get().(*weightWorld)
		defer pool.Put(ww)
		cc, _ := ww.ctx.CacheContext()
		var f, ceil int64
		for si, s := range beh {
			rep.Steps++
			rep.OpCounts[s.Str("op")]++
			switch s.Str("op") {
			case "Setup":
				f, ceil = int64(s.Int("f")), int64(s.Int("ceil"))
			case "Eval":
				var got *big.Int
				var perr string
				func() {
					defer func() {
						if rc := recover(); rc != nil {
							perr = fmt.Sprintf("panic: %v", rc)
						}
					}()
					ww.setParams(cc, weightParams{f: f, ceil: ceil, mult: int64(s.Int("mult")), exp: 100, wm: "1"})
					if s.Str("fn") == "burn" {
						got = ww.burn(cc, int64(s.Int("stake")), int64(s.Int("count")))
					} else {
						got = ww.reward(cc, int64(s.Int("stake")), int64(s.Int("count")))
					}
				}()
				if perr != "" {
					rep.AddMismatch(hx.Mismatch{Behaviour: idx, Step: si, Op: s.Str("fn"), What: "exec", Want: s, Got: perr, History: beh})
					return
				}
				if got.Cmp(big.NewInt(int64(s.Int("applied")))) != 0 {
					rep.AddMismatch(hx.Mismatch{Behaviour: idx, Step: si, Op: s.Str("fn"), What: "amount (bin " + fmt.Sprint(s.Int("bin")) + ")",
						Want: s.Int("applied"), Got: got.String(), History: beh})
					return
				}
				if fresh && s.Int("count") > 0 && int64(s.Int("stake")) >= f {
					rep.Nontrivial++
				}
			}
		}
		if idx%1000 == 3 {
			rep.AddSample(beh)
		}
	})
	if err != nil {
		hx.Fatal("%v", err)
	}
	rep.Print()
}

// ---------------------------------------------------------------------------- numeric sweep

func limbs(v *big.Int) []int64 {
	out := []int64{}
	if v.Sign() == 0 {
		return out
	}
	x := new(big.Int).Abs(v)
	base := big.NewInt(10000)
	m := new(big.Int)
	for x.Sign() > 0 {
		x.DivMod(x, base, m)
		out = append(out, m.Int64())
	}
	for i, j := 0, len(out)-1; i < j; i, j = i+1, j-1 {
		out[i], out[j] = out[j], out[i]
	}
	return out
}

type series struct {
	fn, dir      string
	p            weightParams
	fixed        int64   // the count (dir=stake) or the stake (dir=count)
	sweep        []int64 // stakes or counts, ascending
	events       []map[string]interface{}
	evals, tmout int
}

const evalDeadline = 30 * time.Second

// evalPoint evaluates one point of a series on the series' own context (its parameter set).
func (ww *weightWorld) evalPoint(cc sdk.Context, s *series, x int64) (ev map[string]interface{}, timedOut bool) {
	stake, count := x, s.fixed
	if s.dir == "count" {
		stake, count = s.fixed, x
	}
	type result struct {
		v    *big.Int
		fail string
	}
	ch := make(chan result, 1)
	go func() {
		defer func() {
			if rc := recover(); rc != nil {
				ch <- result{fail: fmt.Sprintf("panic: %v", rc)}
			}
		}()
		if s.fn == "burn" {
			ch <- result{v: ww.burn(cc, stake, count)}
		} else {
			ch <- result{v: ww.reward(cc, stake, count)}
		}
	}()
	select {
	case r := <-ch:
		ev = map[string]interface{}{"op": "eval", "stake": stake, "count": count}
		if r.fail != "" {
			ev["fail"], ev["coins"], ev["neg"] = r.fail, []int64{}, false
		} else {
			ev["coins"], ev["neg"] = limbs(r.v), r.v.Sign() < 0
		}
		return ev, false
	case <-time.After(evalDeadline):
		return map[string]interface{}{"op": "timeout", "stake": stake, "count": count, "deadline_s": int(evalDeadline.Seconds())}, true
	}
}

// runGroup evaluates sibling series (same function, direction, bin layout and exponent; different
// weight multiplier / relay multiplier) point by point in turn, the even members ascending and the
// odd ones descending: the value of a (stake, parameter set) must not depend on what was evaluated
// before it under another parameter set.  Each series' events are emitted in ascending order.
func (ww *weightWorld) runGroup(group []*series) {
	type run struct {
		s    *series
		cc   sdk.Context
		evs  []map[string]interface{}
		next int
		dead bool
	}
	runs := make([]*run, len(group))
	for i, s := range group {
		cc, _ := ww.ctx.CacheContext()
		ww.setParams(cc, s.p)
		runs[i] = &run{s: s, cc: cc, evs: make([]map[string]interface{}, len(s.sweep))}
	}
	for live := true; live; {
		live = false
		for i, r := range runs {
			if r.dead || r.next >= len(r.s.sweep) {
				continue
			}
			live = true
			k := r.next
			if i%2 == 1 {
				k = len(r.s.sweep) - 1 - r.next
			}
			r.next++
			ev, tmo := ww.evalPoint(r.cc, r.s, r.s.sweep[k])
			r.evs[k] = ev
			if tmo {
				r.dead = true
				r.s.tmout++
				// the world may still be in use by the runaway evaluation: give up the whole group
				for _, o := range runs {
					o.dead = true
				}
			} else {
				r.s.evals++
			}
		}
	}
	for _, r := range runs {
		s := r.s
		s.events = append(s.events, map[string]interface{}{"op": "series", "fn": s.fn, "dir": s.dir, "f": s.p.f, "ceil": s.p.ceil,
			"exp": s.p.exp, "wm": s.p.wm, "mult": s.p.mult, "fixed": s.fixed})
		for _, ev := range r.evs {
			if ev == nil {
				break // abandoned after a timeout (ascending members) ...
			}
			s.events = append(s.events, ev)
			if ev["op"] == "timeout" {
				break
			}
		}
	}
}

type gridCfg struct {
	f, ceil int64
	combos  [][2]int64 // (count, mult) for the stake sweeps
}

func boundaryStakes(f, ceil int64, ks []int64) []int64 {
	set := map[int64]bool{}
	add := func(v int64) {
		if v >= 0 && v < 2147483647 {
			set[v] = true
		}
	}
	for _, k := range ks {
		add(k*f - 1)
		add(k * f)
		add(k*f + 1)
	}
	for _, v := range []int64{ceil - 1, ceil, ceil + 1, 2*ceil - 1, 2 * ceil} {
		add(v)
	}
	out := make([]int64, 0, len(set))
	for v := range set {
		out = append(out, v)
	}
	sort.Slice(out, func(i, j int) bool { return out[i] < out[j] })
	return out
}

func allBins(f, ceil int64) []int64 {
	ks := []int64{}
	for k := int64(0); k*f <= 2*ceil; k++ {
		ks = append(ks, k)
	}
	return ks
}

func wmFloat(wm string) float64 {
	var x float64
	fmt.Sscanf(wm, "%g", &x)
	return x
}

// burnObservable: the burn is observed through the validator's tokens and simpleSlash caps it at
// the stake; keeping mult*count <= f*min(1, wm) keeps the computed burn <= stake for every bin >= 1,
// so the cap cannot fake or hide a plateau.
func burnObservable(p weightParams, count int64) bool {
	lim := float64(p.f)
	if w := wmFloat(p.wm); w < 1 {
		lim *= w
	}
	return float64(p.mult)*float64(count) <= lim
}

func traceWeight(out, mode, tier string, cf, cceil int64) {
	setFeatureSchedule()
	var all []*series
	counts := []int64{0, 1, 7, 1000, 1000000}
	mults := []int64{1, 1000, 12345}
	addStakeSeries := func(fn string, p weightParams, count int64, stakes []int64) {
		if fn == "burn" && !burnObservable(p, count) {
			return
		}
		all = append(all, &series{fn: fn, dir: "stake", p: p, fixed: count, sweep: stakes})
	}
	switch mode {
	case "confirm":
		// the design model's counterexample (f, ceil) executed on the real burn function, all stakes
		stakes := []int64{}
		for s := int64(0); s <= 2*cceil+cf; s++ {
			stakes = append(stakes, s)
		}
		addStakeSeries("burn", weightParams{f: cf, ceil: cceil, mult: 1, exp: 100, wm: "1"}, 1, stakes)
	case "manybins":
		// 600 bins: the 100th-root iteration overflows from bin 499 on
		f, ceil := int64(1000000), int64(600000000)
		stakes := boundaryStakes(f, ceil, []int64{0, 1, 2, 100, 400, 497, 498, 499, 500, 501, 599, 600, 601, 1200})
		for _, e := range []int64{0, 1, 50, 100} {
			for _, fn := range []string{"reward", "burn"} {
				addStakeSeries(fn, weightParams{f: f, ceil: ceil, mult: 1000, exp: e, wm: "1"}, 1000, stakes)
			}
		}
	case "main":
		var combosA [][2]int64
		for _, c := range counts {
			for _, m := range mults {
				combosA = append(combosA, [2]int64{c, m})
			}
		}
		cfgs := []gridCfg{
			{100000000, 400000000, combosA},                                                      // 4 bins (PIP-22 shape)
			{10000000, 400000000, [][2]int64{{1000, 1000}, {7, 12345}}},                          // 40 bins
			{30000000, 100000000, [][2]int64{{1, 1}, {1000, 1000}, {1000000, 12345}, {7, 1000}}}, // ceiling not a multiple of f
			{500000000, 500000000, [][2]int64{{1, 1}, {1000, 1000}, {1000000, 12345}}},           // one bin (default parameters' shape)
		}
		for e := int64(0); e <= 100; e++ {
			if tier != "thorough" && !(e == 0 || e == 100 || e%10 == hx.Seed()%10) {
				continue
			}
			wms := []string{"1"}
			if e%10 == 3 {
				wms = append(wms, "0.5")
			}
			if e%10 == 7 {
				wms = append(wms, "2.75")
			}
			if tier != "thorough" && e%10 == hx.Seed()%10 && len(wms) == 1 {
				wms = append(wms, []string{"0.5", "2.75"}[e/10%2])
			}
			for _, wm := range wms {
				for _, g := range cfgs {
					stakes := boundaryStakes(g.f, g.ceil, allBins(g.f, g.ceil))
					for _, cm := range g.combos {
						p := weightParams{f: g.f, ceil: g.ceil, mult: cm[1], exp: e, wm: wm}
						addStakeSeries("reward", p, cm[0], stakes)
						addStakeSeries("burn", p, cm[0], stakes)
					}
					// sweeps in the relay / challenge count at fixed stakes
					for _, st := range []int64{g.f - 1, g.f, g.ceil - 1, g.ceil, g.ceil + 1, 2 * g.ceil} {
						for _, m := range mults {
							p := weightParams{f: g.f, ceil: g.ceil, mult: m, exp: e, wm: wm}
							for _, fn := range []string{"reward", "burn"} {
								all = append(all, &series{fn: fn, dir: "count", p: p, fixed: st, sweep: counts})
							}
						}
					}
				}
			}
		}
	default:
		hx.Fatal("unknown mode %q", mode)
	}
	// run the series on a pool of worlds, keep the file order deterministic; sibling series (same
	// function, direction, bin layout, exponent and fixed value) are evaluated interleaved (runGroup)
	var groups [][]*series
	gidx := map[string]int{}
	for _, s := range all {
		k := fmt.Sprintf("%s %s %d %d %d %d", s.fn, s.dir, s.p.f, s.p.ceil, s.p.exp, s.fixed)
		if g, ok := gidx[k]; ok {
			groups[g] = append(groups[g], s)
		} else {
			gidx[k] = len(groups)
			groups = append(groups, []*series{s})
		}
	}
	jobs := make(chan []*series, len(groups))
	for _, g := range groups {
		jobs <- g
	}
	close(jobs)
	var wg sync.WaitGroup
	nw := hx.Workers()
	if nw > 8 {
		nw = 8
	}
	for i := 0; i < nw; i++ {
		wg.Add(1)
		go func() {
			defer wg.Done()
			ww := newWeightWorld()
			for g := range jobs {
				ww.runGroup(g)
				for _, s := range g {
					if s.tmout > 0 {
						ww = newWeightWorld()
						break
					}
				}
			}
		}()
	}
	wg.Wait()
	tw, err := hx.NewTraceWriter(out)
	if err != nil {
		hx.Fatal("%v", err)
	}
	rep := hx.NewReport("reward", "trace-weight-"+mode)
	distinct := map[string]bool{}
	for _, s := range all {
		for _, ev := range s.events {
			tw.Emit(ev)
		}
		rep.Behaviours++
		rep.Steps += s.evals
		rep.OpCounts[s.fn+"/"+s.dir] += s.evals
		rep.OpCounts["timeout"] += s.tmout
		distinct[fmt.Sprintf("%s %d %d %d %s", s.fn, s.p.f, s.p.ceil, s.p.exp, s.p.wm)] = true
		if s.p.exp > 0 && s.p.ceil >= 2*s.p.f {
			rep.Nontrivial++
		}
	}
	if err := tw.Close(); err != nil {
		hx.Fatal("%v", err)
	}
	rep.Distinct = len(distinct)
	rep.Extra["events"] = tw.N
	rep.Extra["series"] = len(all)
	rep.Print()
}
