package main

// C26: reward / fee distribution.  Replays Reward.tla behaviours on the real nodes keeper
// (RewardForRelays, BeginBlocker -> blockReward, and the exported CalculateRelayReward /
// SplitNodeRewards) and records random-driver traces for TraceSplit.tla.

import (
	"fmt"
	"math/rand"
	"sync"

	sdk "github.com/pokt-network/pocket-core/types"
	"github.com/pokt-network/pocket-core/x/auth"
	govTypes "github.com/pokt-network/pocket-core/x/gov/types"
	nodesKeeper "github.com/pokt-network/pocket-core/x/nodes/keeper"
	nodesTypes "github.com/pokt-network/pocket-core/x/nodes/types"
	pcTypes "github.com/pokt-network/pocket-core/x/pocketcore/types"
	abci "github.com/tendermint/tendermint/abci/types"
	"github.com/tendermint/tendermint/libs/log"

	"verifharness/internal/hx"
)

const feeUnit = pcTypes.ClaimFee + pcTypes.ProofFee // reward cost per unit of the auth fee multiplier

// ledger is the specification's view of the money: balances of the accounts the
// distribution touches, and the total supply.
type ledger struct {
	Op, Out, Fee, Dao, Payer int64
	D                        []int64
	Supply                   int64
}

func (l ledger) balJSON() map[string]interface{} {
	d := l.D
	if d == nil {
		d = []int64{}
	}
	return map[string]interface{}{"op": l.Op, "out": l.Out, "fee": l.Fee, "dao": l.Dao, "payer": l.Payer, "d": d}
}

func ledgerFromSpec(s hx.Step) ledger {
	b, _ := s["bal"].(map[string]interface{})
	bs := hx.Step(b)
	l := ledger{Op: int64(bs.Int("op")), Out: int64(bs.Int("out")), Fee: int64(bs.Int("fee")), Dao: int64(bs.Int("dao")),
		Payer: int64(bs.Int("payer")), Supply: int64(s.Int("supply"))}
	for _, v := range hx.Ints(bs["d"]) {
		l.D = append(l.D, int64(v))
	}
	return l
}

func (l ledger) equal(o ledger) bool {
	if l.Op != o.Op || l.Out != o.Out || l.Fee != o.Fee || l.Dao != o.Dao || l.Payer != o.Payer || l.Supply != o.Supply || len(l.D) != len(o.D) {
		return false
	}
	for i := range l.D {
		if l.D[i] != o.D[i] {
			return false
		}
	}
	return true
}

// splitWorld is one base world (payer funded) from which every behaviour gets a
// cache-wrapped context that is thrown away afterwards.
type splitWorld struct {
	*world
	op, out, payer, feeAddr, daoAddr sdk.Address
}

func newSplitWorld(payerInit int64) *splitWorld {
	w := newWorld(rewardHeight)
	sw := &splitWorld{world: w, op: addrN(1, 1), out: addrN(2, 1), payer: addrN(4, 1),
		feeAddr: w.ak.GetModuleAddress(auth.FeeCollectorName), daoAddr: w.ak.GetModuleAddress(govTypes.DAOAccountName)}
	if payerInit > 0 {
		if err := w.ak.MintCoins(w.ctx, nodesTypes.StakedPoolName, ucoins(sdk.NewInt(payerInit))); err != nil {
			hx.Fatal("mint: %v", err)
		}
		if err := w.ak.SendCoinsFromModuleToAccount(w.ctx, nodesTypes.StakedPoolName, sw.payer, ucoins(sdk.NewInt(payerInit))); err != nil {
			hx.Fatal("fund payer: %v", err)
		}
	}
	return sw
}

type splitRun struct {
	sw     *splitWorld
	ctx    sdk.Context
	deleg  []sdk.Address
	shares []int
	val    nodesTypes.Validator
}

func (sw *splitWorld) begin() *splitRun {
	cc, _ := sw.ctx.CacheContext()
	return &splitRun{sw: sw, ctx: cc}
}

func (r *splitRun) configure(dao, prop, cost int, shares []int) string {
	if cost%feeUnit != 0 {
		return fmt.Sprintf("reward cost %d is not a multiple of fee(claim)+fee(proof)=%d", cost, feeUnit)
	}
	w := r.sw
	p := nodesTypes.DefaultParams()
	p.DAOAllocation, p.ProposerAllocation = int64(dao), int64(prop)
	// stake weighting active with weight exactly 1 (one bin, exponent 1, multiplier 1): coins = relays
	p.RelaysToTokensMultiplier = 1
	p.ServicerStakeFloorMultiplier, p.ServicerStakeWeightCeiling = 10, 10
	p.ServicerStakeWeightMultiplier = sdk.NewDec(1)
	p.ServicerStakeFloorMultiplierExponent = sdk.NewDec(1)
	p.StakeMinimum = 0
	w.nk.SetParams(r.ctx, p)
	ap := w.ak.GetParams(r.ctx)
	ap.FeeMultiplier.Default = int64(cost / feeUnit)
	w.ak.SetParams(r.ctx, ap)
	r.shares = shares
	r.deleg = nil
	dm := map[string]uint32{}
	for i, s := range shares {
		a := addrN(3, i+1)
		r.deleg = append(r.deleg, a)
		dm[a.String()] = uint32(s)
	}
	if len(dm) == 0 {
		dm = nil
	}
	r.val = nodesTypes.Validator{Address: w.op, PublicKey: pubN(1, 1), Status: sdk.Staked, Chains: []string{"0001"},
		ServiceURL: "https://node.example:443", StakedTokens: sdk.NewInt(15), OutputAddress: w.out, RewardDelegators: dm}
	w.nk.SetValidator(r.ctx, r.val)
	w.nk.SetPreviousProposer(r.ctx, w.op)
	return ""
}

func i64(b sdk.BigInt) int64 {
	if !b.BigInt().IsInt64() {
		return -1 << 62
	}
	return b.Int64()
}

func (r *splitRun) ledger() ledger {
	w := r.sw
	l := ledger{Op: i64(w.balance(r.ctx, w.op)), Out: i64(w.balance(r.ctx, w.out)), Fee: i64(w.balance(r.ctx, w.feeAddr)),
		Dao: i64(w.balance(r.ctx, w.daoAddr)), Payer: i64(w.balance(r.ctx, w.payer)), Supply: i64(w.supply(r.ctx))}
	for _, a := range r.deleg {
		l.D = append(l.D, i64(w.balance(r.ctx, a)))
	}
	return l
}

func (r *splitRun) relayReward(n int64) int64 {
	return i64(r.sw.nk.RewardForRelays(r.ctx, sdk.NewInt(n), r.sw.op))
}

func (r *splitRun) collectFee(n int64) string {
	if err := r.sw.ak.SendCoinsFromAccountToModule(r.ctx, r.sw.payer, auth.FeeCollectorName, ucoins(sdk.NewInt(n))); err != nil {
		return err.Error()
	}
	return ""
}

func (r *splitRun) blockReward() {
	nodesKeeper.BeginBlocker(r.ctx, abci.RequestBeginBlock{Header: abci.Header{ProposerAddress: r.sw.op}}, r.sw.nk)
}

// directSplit calls the exported pure pieces: CalculateRelayReward (-> splitRewards) and
// SplitNodeRewards, returning fees, node side, per-delegator parts and the output part.
func (r *splitRun) directSplit(reward, net int64) (node, fees int64, d []int64, out int64) {
	nb, fb := r.sw.nk.CalculateRelayReward(r.ctx, "", sdk.NewInt(reward), r.val.StakedTokens)
	node, fees = i64(nb), i64(fb)
	d = make([]int64, len(r.deleg))
	_ = nodesKeeper.SplitNodeRewards(log.NewNopLogger(), sdk.NewInt(net), r.sw.out, r.val.RewardDelegators,
		func(a sdk.Address, c sdk.BigInt) {
			if a.Equals(r.sw.out) {
				out += i64(c)
				return
			}
			for i, da := range r.deleg {
				if da.Equals(a) {
					d[i] += i64(c)
					return
				}
			}
			out = -1 << 40 // paid to an unknown address
		})
	return
}

func intsToI64(v []int) []int64 {
	o := make([]int64, len(v))
	for i, x := range v {
		o[i] = int64(x)
	}
	return o
}

func eqI64(a, b []int64) bool {
	if len(a) != len(b) {
		return false
	}
	for i := range a {
		if a[i] != b[i] {
			return false
		}
	}
	return true
}

// replaySplit executes Reward.tla behaviours.
func replaySplit(in string, payerInit int64) {
	setFeatureSchedule()
	rep := hx.NewReport("reward", "replay-split")
	pool := sync.Pool{New: func() interface{} { return newSplitWorld(payerInit) }}
	err := hx.ParallelBehaviours(in, hx.Workers(), rep, func(idx int, beh []hx.Step, fresh bool, rep *hx.Report) {
		sw := pool.Get().(*splitWorld)
		defer pool.Put(sw)
		run := sw.begin()
		nontrivial := false
		mismatch := func(si int, s hx.Step, what string, want, got interface{}) {
			rep.AddMismatch(hx.Mismatch{Behaviour: idx, Step: si, Op: s.Str("op"), What: what, Want: want, Got: got, History: beh})
		}
		for si, s := range beh {
			rep.Steps++
			rep.OpCounts[s.Str("op")]++
			bad := false
			func() {
				defer func() {
					if rc := recover(); rc != nil {
						mismatch(si, s, "exec", s, fmt.Sprintf("panic: %v", rc))
						bad = true
					}
				}()
				switch s.Str("op") {
				case "Configure":
					if e := run.configure(s.Int("dao"), s.Int("prop"), s.Int("cost"), hx.Ints(s["shares"])); e != "" {
						hx.Fatal("%s", e)
					}
					return
				case "RelayReward":
					if p, ok := s["parts"].(map[string]interface{}); ok {
						ps := hx.Step(p)
						node, fees, d, out := run.directSplit(int64(s.Int("r")), int64(ps.Int("net")))
						if fees != int64(ps.Int("fees")) || node != int64(ps.Int("net")+ps.Int("cost")) {
							mismatch(si, s, "CalculateRelayReward(node,fees)", []int{ps.Int("net") + ps.Int("cost"), ps.Int("fees")}, []int64{node, fees})
							bad = true
							return
						}
						if !eqI64(d, intsToI64(hx.Ints(ps["d"]))) || out != int64(ps.Int("out")) {
							mismatch(si, s, "SplitNodeRewards(delegators,output)", []interface{}{ps["d"], ps["out"]}, []interface{}{d, out})
							bad = true
							return
						}
					}
					got := run.relayReward(int64(s.Int("r")))
					if got != int64(s.Int("ret")) {
						mismatch(si, s, "ret", s.Int("ret"), got)
						bad = true
						return
					}
					if s.Int("r") > 0 && (len(run.shares) > 0 || s.Int("r") >= 3) {
						nontrivial = true
					}
				case "CollectFee":
					if e := run.collectFee(int64(s.Int("n"))); e != "" {
						mismatch(si, s, "exec", s, e)
						bad = true
						return
					}
				case "BlockReward":
					run.blockReward()
				default:
					hx.Fatal("unknown op %q", s.Str("op"))
				}
				want, got := ledgerFromSpec(s), run.ledger()
				if !want.equal(got) {
					mismatch(si, s, "ledger", want, got)
					bad = true
				}
			}()
			if bad {
				break
			}
		}
		if fresh && nontrivial {
			rep.Nontrivial++
		}
		if idx%40000 == 11 {
			rep.AddSample(beh)
		}
	})
	if err != nil {
		hx.Fatal("%v", err)
	}
	rep.Print()
}

// traceSplit: seeded random driver over a larger space than the design model (up to 8
// delegators, any allocations, amounts up to 2*10^7, reward cost 0 / 20000 / 40000, free
// interleaving).  It keeps no model of the expected balances: every event carries the real
// ledger after the call and TLC (TraceSplit.tla) recomputes it.
func traceSplit(out string, n, steps int) {
	setFeatureSchedule()
	tw, err := hx.NewTraceWriter(out)
	if err != nil {
		hx.Fatal("%v", err)
	}
	rep := hx.NewReport("reward", "trace-split")
	const payerInit = 400000000
	sw := newSplitWorld(payerInit)
	for t := 0; t < n; t++ {
		rng := hx.Rng(int64(7000 + t))
		run := sw.begin()
		dao := rng.Intn(101)
		prop := rng.Intn(101 - dao)
		if t%7 == 3 {
			dao, prop = 10, 1 // main-net values
		}
		if dao+prop == 0 {
			prop = 1 // blockReward divides by dao+prop (see Reward.tla)
		}
		shares := randShares(rng)
		cost := []int{0, feeUnit, 2 * feeUnit}[rng.Intn(3)]
		tw.Emit(map[string]interface{}{"op": "reset", "bal": ledger{Payer: payerInit}.balJSON(), "supply": payerInit})
		ev := hx.Step{"op": "Configure", "dao": dao, "prop": prop, "cost": cost, "shares": shares}
		if e := run.configure(dao, prop, cost, shares); e != "" {
			hx.Fatal("%s", e)
		}
		l := run.ledger()
		ev["bal"], ev["supply"] = l.balJSON(), l.Supply
		tw.Emit(ev)
		rep.Behaviours++
		minted := int64(0)
		for s := 0; s < steps; s++ {
			var ev hx.Step
			func() {
				defer func() {
					if rc := recover(); rc != nil {
						ev["fail"] = fmt.Sprintf("panic: %v", rc)
					}
				}()
				switch k := rng.Intn(10); {
				case k < 5:
					r := randAmount(rng)
					if minted+r > 1500000000 {
						r = int64(rng.Intn(1000))
					}
					minted += r
					ev = hx.Step{"op": "RelayReward", "r": r}
					ev["ret"] = run.relayReward(r)
				case k < 7:
					nfee := randAmount(rng) % 3000000
					if nfee > run.ledger().Payer {
						nfee = 0
					}
					ev = hx.Step{"op": "CollectFee", "n": nfee}
					if e := run.collectFee(nfee); e != "" {
						ev["fail"] = e
					}
				default:
					ev = hx.Step{"op": "BlockReward"}
					run.blockReward()
				}
			}()
			l := run.ledger()
			ev["bal"], ev["supply"] = l.balJSON(), l.Supply
			tw.Emit(ev)
			rep.Steps++
			rep.OpCounts[ev.Str("op")]++
		}
	}
	if err := tw.Close(); err != nil {
		hx.Fatal("%v", err)
	}
	rep.Extra["events"] = tw.N
	rep.Print()
}

func randShares(rng *rand.Rand) []int {
	n := rng.Intn(9) // 0..8 delegators
	shares := []int{}
	left := 100
	if rng.Intn(4) == 0 {
		left = 1 + rng.Intn(100)
	}
	for i := 0; i < n && left > 0; i++ {
		s := 1 + rng.Intn(left)
		if i < n-1 && rng.Intn(2) == 0 {
			s = 1 + rng.Intn((left+1)/2)
		}
		shares = append(shares, s)
		left -= s
	}
	return shares
}

// randAmount draws amounts of every magnitude up to 2*10^7, with small values and
// multiples of 100 over-represented (rounding boundaries).
func randAmount(rng *rand.Rand) int64 {
	switch rng.Intn(6) {
	case 0:
		return int64(rng.Intn(120))
	case 1:
		return int64(rng.Intn(200)) * 100
	case 2:
		return int64(rng.Intn(60000))
	case 3:
		return int64(feeUnit - 50 + rng.Intn(200))
	default:
		return int64(rng.Intn(20000000))
	}
}
