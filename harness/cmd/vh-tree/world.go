package main

import (
	"bytes"
	"crypto/sha256"
	"encoding/binary"
	"fmt"
	"math/rand"
	"sort"

	"github.com/pokt-network/pocket-core/store/iavl"
	dbm "github.com/tendermint/tm-db"

	"verifharness/internal/hx"
)

// ---------------------------------------------------------------------------
// key / value universes (the specification's keys 1..NK, values 1..NV)

// keyPool: ordered pool with prefix-related and boundary members (C03 replay).
var keyPool = [][]byte{
	{0x00}, {0x00, 0x00}, {0x00, 0x01}, []byte("a"), []byte("a\x00"), []byte("a\x00\x00"),
	[]byte("aa"), []byte("ab"), []byte("b"), []byte("b\xff"), []byte("b\xff\xff"), []byte("c"),
	[]byte("ca"), []byte("d"), {0xfe}, {0xff}, {0xff, 0x00}, {0xff, 0xff},
}

// flatPool: ordered pool in which no key extends another and no key ends in 0xff, so
// cpIncr(k) is "just after k" (the abstraction of ProofOps.tla is exact).
var flatPool = [][]byte{
	[]byte("k\x00\x01"), []byte("k\x00\x7f"), []byte("k10"), []byte("k11"), []byte("k1z"), []byte("k20"),
	[]byte("k2\xf0"), []byte("k30"), []byte("kAA"), []byte("kAB"), []byte("kz0"), []byte("l00"),
	[]byte("m\x80\x80"), []byte("\xfe\x01\x01"),
}

func pickUniverse(pool [][]byte, nk int, rng *rand.Rand) [][]byte {
	if nk > len(pool) {
		hx.Fatal("nk %d larger than key pool (%d)", nk, len(pool))
	}
	idx := rng.Perm(len(pool))[:nk]
	sort.Ints(idx)
	u := make([][]byte, nk)
	for i, j := range idx {
		u[i] = pool[j]
	}
	return u // the pools are listed in byte order, so u is sorted
}

// randomUniverse draws n distinct random byte strings (1..maxLen bytes, small alphabet so
// that prefix-related keys are frequent) and returns them sorted.
func randomUniverse(n, maxLen int, prefixFree bool, rng *rand.Rand) [][]byte {
	seen := map[string]bool{}
	var u [][]byte
	alphabet := []byte{0x00, 0x01, 'a', 'b', 'c', 0x7f, 0x80, 0xfe, 0xff}
	for len(u) < n {
		var k []byte
		if prefixFree {
			k = make([]byte, maxLen)
			for i := range k {
				k[i] = byte(1 + rng.Intn(250))
			}
		} else {
			l := 1 + rng.Intn(maxLen)
			k = make([]byte, l)
			for i := range k {
				if rng.Intn(3) == 0 {
					k[i] = byte(rng.Intn(256))
				} else {
					k[i] = alphabet[rng.Intn(len(alphabet))]
				}
			}
		}
		if !seen[string(k)] {
			seen[string(k)] = true
			u = append(u, k)
		}
	}
	sort.Slice(u, func(i, j int) bool { return bytes.Compare(u[i], u[j]) < 0 })
	return u
}

type universe struct {
	keys [][]byte
	idx  map[string]int
}

func newUniverse(keys [][]byte) *universe {
	u := &universe{keys: keys, idx: map[string]int{}}
	for i, k := range keys {
		u.idx[string(k)] = i + 1
	}
	return u
}

func (u *universe) key(i int) []byte {
	if i < 1 || i > len(u.keys) {
		return nil
	}
	return u.keys[i-1]
}

// keyIdx maps real key bytes to the specification's key (0 = nil, -2 = foreign).
func (u *universe) keyIdx(b []byte) int {
	if b == nil {
		return 0
	}
	if i, ok := u.idx[string(b)]; ok {
		return i
	}
	return -2
}

func val(v int) []byte { return []byte(fmt.Sprintf("val-%d", v)) }

func valIdx(b []byte) int {
	if b == nil {
		return 0
	}
	var v int
	if n, _ := fmt.Sscanf(string(b), "val-%d", &v); n == 1 {
		return v
	}
	return -2
}

// ---------------------------------------------------------------------------
// reading the REAL nodes: the node database stores  r<version> -> root hash  and
// n<hash> -> height, size, version, key, (value | left hash, right hash).

type dbNode struct {
	height      int
	size        int64
	version     int64
	key         []byte
	value       []byte
	left, right []byte
	hash        []byte
}

func readByteSlice(buf []byte) ([]byte, []byte, error) {
	l, n := binary.Uvarint(buf)
	if n <= 0 || uint64(len(buf)-n) < l {
		return nil, nil, fmt.Errorf("bad byte slice")
	}
	return append([]byte{}, buf[n:n+int(l)]...), buf[n+int(l):], nil
}

func decodeNode(buf []byte) (*dbNode, error) {
	h, n := binary.Varint(buf)
	if n <= 0 {
		return nil, fmt.Errorf("bad height")
	}
	buf = buf[n:]
	size, n := binary.Varint(buf)
	if n <= 0 {
		return nil, fmt.Errorf("bad size")
	}
	buf = buf[n:]
	ver, n := binary.Varint(buf)
	if n <= 0 {
		return nil, fmt.Errorf("bad version")
	}
	buf = buf[n:]
	nd := &dbNode{height: int(h), size: size, version: ver}
	var err error
	if nd.key, buf, err = readByteSlice(buf); err != nil {
		return nil, err
	}
	if nd.height == 0 {
		if nd.value, _, err = readByteSlice(buf); err != nil {
			return nil, err
		}
	} else {
		if nd.left, buf, err = readByteSlice(buf); err != nil {
			return nil, err
		}
		if nd.right, _, err = readByteSlice(buf); err != nil {
			return nil, err
		}
	}
	return nd, nil
}

func putVarint(b *bytes.Buffer, i int64) {
	var tmp [binary.MaxVarintLen64]byte
	b.Write(tmp[:binary.PutVarint(tmp[:], i)])
}

func putBytes(b *bytes.Buffer, bz []byte) {
	var tmp [binary.MaxVarintLen64]byte
	b.Write(tmp[:binary.PutUvarint(tmp[:], uint64(len(bz)))])
	b.Write(bz)
}

// hashOf recomputes the node hash from the stored fields (what Node.writeHashBytes covers).
func (n *dbNode) hashOf() []byte {
	var b bytes.Buffer
	putVarint(&b, int64(n.height))
	putVarint(&b, n.size)
	putVarint(&b, n.version)
	if n.height == 0 {
		putBytes(&b, n.key)
		vh := sha256.Sum256(n.value)
		putBytes(&b, vh[:])
	} else {
		putBytes(&b, n.left)
		putBytes(&b, n.right)
	}
	s := sha256.Sum256(b.Bytes())
	return s[:]
}

func rootKey(version int64) []byte {
	k := make([]byte, 9)
	k[0] = 'r'
	binary.BigEndian.PutUint64(k[1:], uint64(version))
	return k
}

// walkVersion reads version v from the database and returns it in the specification's
// node format: leaf [0,1,ver,key,val], inner [h,size,ver,key,left,right], empty [].
// hashes maps every node hash (hex string) to the node's position (in-order id).
// exists = false if there is no root record for v.
func walkVersion(db dbm.DB, u *universe, v int64) (tree []interface{}, exists bool, err error) {
	rh, e := db.Get(rootKey(v))
	if e != nil {
		return nil, false, e
	}
	if rh == nil {
		return nil, false, nil
	}
	if len(rh) == 0 {
		return []interface{}{}, true, nil
	}
	t, err := walkNode(db, u, rh)
	return t, true, err
}

func walkNode(db dbm.DB, u *universe, hash []byte) ([]interface{}, error) {
	raw, e := db.Get(append([]byte{'n'}, hash...))
	if e != nil || raw == nil {
		return nil, fmt.Errorf("node %x missing in the database", hash)
	}
	n, e := decodeNode(raw)
	if e != nil {
		return nil, fmt.Errorf("node %x undecodable: %v", hash, e)
	}
	if !bytes.Equal(n.hashOf(), hash) {
		return nil, fmt.Errorf("node %x: hash does not cover its stored fields (height %d size %d version %d)", hash, n.height, n.size, n.version)
	}
	ki := u.keyIdx(n.key)
	if n.height == 0 {
		return []interface{}{0, int(n.size), int(n.version), ki, valIdx(n.value)}, nil
	}
	l, e := walkNode(db, u, n.left)
	if e != nil {
		return nil, e
	}
	r, e := walkNode(db, u, n.right)
	if e != nil {
		return nil, e
	}
	return []interface{}{n.height, int(n.size), int(n.version), ki, l, r}, nil
}

// ---------------------------------------------------------------------------
// shapes: PRE-order list of [depth, isLeaf, key] (key only for leaves), which determines
// the shape of a full binary tree.

type shapeItem struct {
	Depth int
	Leaf  bool
	Key   int
}

// realShape uses the exported RenderShape (it walks the real nodes, working tree included);
// the encoder callback is invoked for a node before its children.
func realShape(t *iavl.ImmutableTree, u *universe) []shapeItem {
	var out []shapeItem
	t.RenderShape("", func(id []byte, depth int, isLeaf bool) string {
		it := shapeItem{Depth: depth, Leaf: isLeaf}
		if isLeaf {
			it.Key = u.keyIdx(id)
		}
		out = append(out, it)
		return ""
	})
	if t.Size() == 0 {
		return nil // RenderShape prints one "<nil>" line for an empty tree without calling the encoder
	}
	return out
}

// specShape flattens a specification tree (decoded JSON) the same way.
func specShape(tree interface{}, depth int, out *[]shapeItem) {
	n, _ := tree.([]interface{})
	if len(n) == 0 {
		return
	}
	if num(n[0]) == 0 {
		*out = append(*out, shapeItem{Depth: depth, Leaf: true, Key: num(n[3])})
		return
	}
	*out = append(*out, shapeItem{Depth: depth, Leaf: false})
	specShape(n[4], depth+1, out)
	specShape(n[5], depth+1, out)
}

// specLeaves lists the leaves [key, value] of a specification tree in order.
func specLeaves(tree interface{}, out *[][2]int) {
	n, _ := tree.([]interface{})
	if len(n) == 0 {
		return
	}
	if num(n[0]) == 0 {
		*out = append(*out, [2]int{num(n[3]), num(n[4])})
		return
	}
	specLeaves(n[4], out)
	specLeaves(n[5], out)
}

func num(v interface{}) int {
	switch x := v.(type) {
	case float64:
		return int(x)
	case int:
		return x
	case int64:
		return int(x)
	}
	return -999
}

// treesEqual compares a walked real tree with a specification tree (decoded JSON).
func treesEqual(a, b interface{}) bool {
	x, ok1 := a.([]interface{})
	y, ok2 := b.([]interface{})
	if ok1 != ok2 {
		return false
	}
	if !ok1 {
		return num(a) == num(b)
	}
	if len(x) != len(y) {
		return false
	}
	for i := range x {
		if !treesEqual(x[i], y[i]) {
			return false
		}
	}
	return true
}

// shapeHeight parses a pre-order shape, checks the AVL balance at every inner node from
// the true heights, and returns the height of the tree.
func shapeHeight(items []shapeItem) (int, string) {
	if len(items) == 0 {
		return 0, ""
	}
	pos := 0
	var rec func(depth int) (int, string)
	rec = func(depth int) (int, string) {
		if pos >= len(items) {
			return 0, "shape ends early"
		}
		it := items[pos]
		if it.Depth != depth {
			return 0, fmt.Sprintf("node %d at depth %d, expected %d", pos, it.Depth, depth)
		}
		at := pos
		pos++
		if it.Leaf {
			return 0, ""
		}
		hl, e := rec(depth + 1)
		if e != "" {
			return 0, e
		}
		hr, e := rec(depth + 1)
		if e != "" {
			return 0, e
		}
		if hl-hr > 1 || hr-hl > 1 {
			return 0, fmt.Sprintf("unbalanced inner node (pre-order position %d): left height %d, right height %d", at, hl, hr)
		}
		if hl > hr {
			return hl + 1, ""
		}
		return hr + 1, ""
	}
	h, e := rec(0)
	if e == "" && pos != len(items) {
		e = "trailing nodes in shape"
	}
	return h, e
}

// ---------------------------------------------------------------------------
// dump: read a whole tree through every exported observer and cross-check them.
// Returns the leaves [key, value] in order, or a description of an inconsistency
// between the observers themselves.

func dumpTree(t *iavl.ImmutableTree, u *universe) ([][2]int, string) {
	var asc [][2]int
	var prev []byte
	bad := ""
	t.Iterate(func(k, v []byte) bool {
		if prev != nil && bytes.Compare(prev, k) >= 0 {
			bad = fmt.Sprintf("Iterate not strictly increasing at %x", k)
			return true
		}
		prev = append([]byte{}, k...)
		asc = append(asc, [2]int{u.keyIdx(k), valIdx(v)})
		return false
	})
	if bad != "" {
		return nil, bad
	}
	var desc [][2]int
	t.IterateRange(nil, nil, false, func(k, v []byte) bool {
		desc = append(desc, [2]int{u.keyIdx(k), valIdx(v)})
		return false
	})
	if len(desc) != len(asc) {
		return nil, fmt.Sprintf("ascending iteration yields %d items, descending %d", len(asc), len(desc))
	}
	for i := range asc {
		if asc[i] != desc[len(desc)-1-i] {
			return nil, fmt.Sprintf("ascending and descending iteration disagree at position %d", i)
		}
		if asc[i][0] < 0 {
			return nil, "iteration yields a key outside the universe"
		}
	}
	if int(t.Size()) != len(asc) {
		return nil, fmt.Sprintf("Size() = %d but iteration yields %d items", t.Size(), len(asc))
	}
	present := map[int]int{}
	for i, kv := range asc {
		present[kv[0]] = kv[1]
		k, v := t.GetByIndex(int64(i))
		if u.keyIdx(k) != kv[0] || valIdx(v) != kv[1] {
			return nil, fmt.Sprintf("GetByIndex(%d) = (%d,%d), iteration has (%d,%d)", i, u.keyIdx(k), valIdx(v), kv[0], kv[1])
		}
	}
	for _, i := range []int64{-1, int64(len(asc))} {
		if k, v := t.GetByIndex(i); k != nil || v != nil {
			return nil, fmt.Sprintf("GetByIndex(%d) out of range returns a key", i)
		}
	}
	rank := 0
	for ki := 1; ki <= len(u.keys); ki++ {
		idx, v := t.Get(u.keys[ki-1])
		want, ok := present[ki]
		if ok != (v != nil) || (ok && valIdx(v) != want) {
			return nil, fmt.Sprintf("Get(key %d) = %d, iteration says %d", ki, valIdx(v), want)
		}
		if int(idx) != rank {
			return nil, fmt.Sprintf("Get(key %d) index = %d, %d smaller keys are present", ki, idx, rank)
		}
		if t.Has(u.keys[ki-1]) != ok {
			return nil, fmt.Sprintf("Has(key %d) = %v, iteration says %v", ki, !ok, ok)
		}
		if ok {
			rank++
		}
	}
	return asc, ""
}

func leavesEqual(a, b [][2]int) bool {
	if len(a) != len(b) {
		return false
	}
	for i := range a {
		if a[i] != b[i] {
			return false
		}
	}
	return true
}
