package main

// C05: store queries with prove=true through rootmulti.Store, verification with
// rootmulti.DefaultProofRuntime(), and the concrete form of every mutation class of
// ProofModel.tla applied to the decoded proof operators.

import (
	"bytes"
	"encoding/json"
	"fmt"
	"math/rand"
	"strings"

	"github.com/pokt-network/pocket-core/codec"
	ctypes "github.com/pokt-network/pocket-core/codec/types"
	"github.com/pokt-network/pocket-core/store/iavl"
	"github.com/pokt-network/pocket-core/store/rootmulti"
	"github.com/pokt-network/pocket-core/store/rootmulti/heightcache"
	"github.com/pokt-network/pocket-core/store/types"
	abci "github.com/tendermint/tendermint/abci/types"
	"github.com/tendermint/tendermint/crypto/merkle"
	"github.com/tendermint/tendermint/crypto/tmhash"
	dbm "github.com/tendermint/tm-db"

	"verifharness/internal/hx"
)

var cdc = codec.NewCodec(ctypes.NewInterfaceRegistry())

var junkHash = bytes.Repeat([]byte{0xEE}, 32)

// witness: the two proof operators a query returns, decoded.
type witness struct {
	typ   string // iavl.ProofOpIAVLValue | iavl.ProofOpIAVLAbsence
	opkey []byte
	proof *iavl.RangeProof // nil: empty tree
	mskey []byte
	infos []rootmulti.StoreInfo
}

// claim: what is being verified.
type claim struct {
	store string
	key   []byte
	kind  int // 1: key has value val, 2: key is absent
	val   []byte
	root  []byte
}

func clonePath(p iavl.PathToLeaf) iavl.PathToLeaf { return append(iavl.PathToLeaf{}, p...) }

func cloneProof(p *iavl.RangeProof) *iavl.RangeProof {
	if p == nil {
		return nil
	}
	q := &iavl.RangeProof{LeftPath: clonePath(p.LeftPath), Leaves: append([]iavl.ProofLeafNode{}, p.Leaves...)}
	for _, in := range p.InnerNodes {
		q.InnerNodes = append(q.InnerNodes, clonePath(in))
	}
	return q
}

func (w witness) clone() witness {
	c := w
	c.proof = cloneProof(w.proof)
	c.infos = append([]rootmulti.StoreInfo{}, w.infos...)
	return c
}

func (w witness) encode() *merkle.Proof {
	var op1 merkle.ProofOp
	if w.typ == iavl.ProofOpIAVLValue {
		op1 = iavl.NewValueOp(w.opkey, w.proof).ProofOp()
	} else {
		op1 = iavl.NewAbsenceOp(w.opkey, w.proof).ProofOp()
	}
	op2 := rootmulti.NewMultiStoreProofOp(w.mskey, rootmulti.NewMultiStoreProof(w.infos)).ProofOp()
	return &merkle.Proof{Ops: []merkle.ProofOp{op1, op2}}
}

func decodeWitness(p *merkle.Proof) (witness, error) {
	var w witness
	if p == nil || len(p.Ops) != 2 {
		return w, fmt.Errorf("expected 2 proof operators")
	}
	w.typ = p.Ops[0].Type
	w.opkey = p.Ops[0].Key
	switch w.typ {
	case iavl.ProofOpIAVLValue:
		var op iavl.ValueOp
		if err := cdc.LegacyUnmarshalBinaryLengthPrefixed(p.Ops[0].Data, &op); err != nil {
			return w, err
		}
		w.proof = op.Proof
	case iavl.ProofOpIAVLAbsence:
		var op iavl.AbsenceOp
		if err := cdc.LegacyUnmarshalBinaryLengthPrefixed(p.Ops[0].Data, &op); err != nil {
			return w, err
		}
		w.proof = op.Proof
	default:
		return w, fmt.Errorf("unexpected operator type %q", w.typ)
	}
	if p.Ops[1].Type != rootmulti.ProofOpMultiStore {
		return w, fmt.Errorf("second operator is %q", p.Ops[1].Type)
	}
	var ms rootmulti.MultiStoreProofOp
	if err := cdc.LegacyUnmarshalBinaryLengthPrefixed(p.Ops[1].Data, &ms); err != nil {
		return w, err
	}
	w.mskey = p.Ops[1].Key
	if ms.Proof != nil {
		w.infos = ms.Proof.StoreInfos
	}
	return w, nil
}

// verify runs the real verifier; a panic inside it counts as a rejection.
func verify(w witness, c claim) (accepted bool, why string) {
	defer func() {
		if r := recover(); r != nil {
			accepted, why = false, fmt.Sprintf("panic: %v", r)
		}
	}()
	kp := merkle.KeyPath{}
	kp = kp.AppendKey([]byte(c.store), merkle.KeyEncodingURL)
	kp = kp.AppendKey(c.key, merkle.KeyEncodingHex)
	prt := rootmulti.DefaultProofRuntime()
	var err error
	if c.kind == 1 {
		err = prt.VerifyValue(w.encode(), c.root, kp.String(), c.val)
	} else {
		err = prt.VerifyAbsence(w.encode(), c.root, kp.String())
	}
	if err != nil {
		return false, err.Error()
	}
	return true, ""
}

// ---------------------------------------------------------------------------
type proofWorld struct {
	db      dbm.DB
	ms      *rootmulti.Store
	k1, k2  *types.KVStoreKey
	u       *universe
	appHash map[int][]byte
}

func storeName(x int) string { return fmt.Sprintf("s%d", x) }

func newProofWorld(u *universe) *proofWorld {
	db := dbm.NewMemDB()
	ms := rootmulti.NewStore(db, false, 1000)
	ms.SetPruning(types.PruneNothing)
	w := &proofWorld{db: db, ms: ms, u: u, appHash: map[int][]byte{},
		k1: types.NewKVStoreKey(storeName(1)), k2: types.NewKVStoreKey(storeName(2))}
	ms.MountStoreWithDB(w.k1, types.StoreTypeIAVL, nil)
	ms.MountStoreWithDB(w.k2, types.StoreTypeIAVL, nil)
	if err := ms.LoadLatestVersion(); err != nil {
		hx.Fatal("LoadLatestVersion: %v", err)
	}
	// the sibling store of the specification: key 1 -> value 1, written before the first commit
	_ = ms.GetCommitKVStore(w.k2).Set(u.key(1), val(1))
	return w
}

func (w *proofWorld) set(k, v int)  { _ = w.ms.GetCommitKVStore(w.k1).Set(w.u.key(k), val(v)) }
func (w *proofWorld) remove(k int)  { _ = w.ms.GetCommitKVStore(w.k1).Delete(w.u.key(k)) }
func (w *proofWorld) commit() int {
	cid := w.ms.Commit()
	w.appHash[int(cid.Version)] = cid.Hash
	return int(cid.Version)
}

// query issues the ABCI store query with prove=true and decodes the answer.
func (w *proofWorld) query(store int, key []byte, ver int) (witness, claim, error) {
	res := w.ms.Query(abci.RequestQuery{Path: "/" + storeName(store) + "/key", Data: key, Height: int64(ver), Prove: true})
	if res.Code != 0 || res.Proof == nil {
		return witness{}, claim{}, fmt.Errorf("query failed: code %d log %q", res.Code, res.Log)
	}
	if int(res.Height) != ver {
		return witness{}, claim{}, fmt.Errorf("query answered height %d, asked %d", res.Height, ver)
	}
	wt, err := decodeWitness(res.Proof)
	if err != nil {
		return witness{}, claim{}, err
	}
	c := claim{store: storeName(store), key: key, root: w.appHash[ver], val: res.Value, kind: 2}
	if wt.typ == iavl.ProofOpIAVLValue {
		c.kind = 1
	}
	return wt, c, nil
}

// shape of a real proof in the vocabulary of ProofModel.tla's ProofShape
func pathShape(p iavl.PathToLeaf) [][]int {
	out := [][]int{}
	for _, n := range p {
		side := 0
		if len(n.Left) > 0 {
			side = 1
		}
		out = append(out, []int{int(n.Height), int(n.Size), int(n.Version), side})
	}
	return out
}

func proofShape(p *iavl.RangeProof, u *universe) map[string]interface{} {
	if p == nil {
		return map[string]interface{}{"nil": 1, "lp": [][]int{}, "inn": [][][]int{}, "lv": [][]int{}}
	}
	inn := [][][]int{}
	for _, q := range p.InnerNodes {
		inn = append(inn, pathShape(q))
	}
	lv := [][]int{}
	for _, l := range p.Leaves {
		lv = append(lv, []int{u.keyIdx(l.Key), int(l.Version)})
	}
	return map[string]interface{}{"nil": 0, "lp": pathShape(p.LeftPath), "inn": inn, "lv": lv}
}

func canon(v interface{}) string {
	b, _ := json.Marshal(v)
	var x interface{}
	_ = json.Unmarshal(b, &x)
	b, _ = json.Marshal(x)
	return string(b)
}

func honestProofWellFormed(p *iavl.RangeProof) string {
	if p == nil {
		return ""
	}
	paths := append([]iavl.PathToLeaf{p.LeftPath}, p.InnerNodes...)
	for _, q := range paths {
		for _, n := range q {
			if (len(n.Left) > 0) == (len(n.Right) > 0) {
				return "a returned proof node does not carry exactly one child hash"
			}
		}
	}
	return ""
}

// ---------------------------------------------------------------------------
// mutations (ProofModel.tla: Apply).  m = {c, p, i, x}

type mutation struct {
	C string `json:"c"`
	P int    `json:"p"`
	I int    `json:"i"`
	X int    `json:"x"`
}

func pathOf(pr *iavl.RangeProof, p int) *iavl.PathToLeaf {
	if p == 0 {
		return &pr.LeftPath
	}
	return &pr.InnerNodes[p-1]
}

func storeRoot(infos []rootmulti.StoreInfo, name string) []byte {
	for _, si := range infos {
		if si.Name == name {
			return si.Core.CommitID.Hash
		}
	}
	return nil
}

func infoIdx(infos []rootmulti.StoreInfo, name string) int {
	for i, si := range infos {
		if si.Name == name {
			return i
		}
	}
	return -1
}

func deepestRight(p iavl.PathToLeaf) int {
	d := -1
	for i, n := range p {
		if len(n.Right) > 0 {
			d = i
		}
	}
	return d
}

// mutate applies m to the honest pair (w0, c0) of a query for key k at version ver.
func (pw *proofWorld) mutate(w0 witness, c0 claim, k []byte, ver int, nbr []int, m mutation) (w witness, c claim, err error) {
	defer func() {
		if r := recover(); r != nil {
			err = fmt.Errorf("mutation %v not applicable to the real proof: %v", m, r)
		}
	}()
	w, c = w0.clone(), c0
	u := pw.u
	flip := func() {
		c.kind = 3 - c.kind
		if c.kind == 1 {
			c.val = val(1)
		} else {
			c.val = nil
		}
	}
	flipTyp := func() {
		if w.typ == iavl.ProofOpIAVLValue {
			w.typ = iavl.ProofOpIAVLAbsence
		} else {
			w.typ = iavl.ProofOpIAVLValue
		}
	}
	hashParam := func(x int) []byte {
		switch x {
		case 0:
			return nil
		case 1:
			return junkHash
		}
		return storeRoot(w0.infos, storeName(1))
	}
	switch m.C {
	case "none":
	case "key":
		w.opkey, c.key = u.key(m.X), u.key(m.X)
	case "claimkey":
		c.key = u.key(m.X)
	case "value":
		c.val = val(m.X)
	case "kind":
		flip()
	case "optype":
		flipTyp()
	case "kind_optype":
		flip()
		flipTyp()
	case "root":
		if m.X == 0 {
			c.root = junkHash
		} else {
			c.root = pw.appHash[m.X]
		}
	case "store":
		w.mskey, c.store = []byte(storeName(m.X)), storeName(m.X)
	case "claimstore":
		c.store = storeName(m.X)
	case "mskey":
		w.mskey = []byte(storeName(m.X))
	case "pin_h":
		(*pathOf(w.proof, m.P))[m.I-1].Height += int8(m.X)
	case "pin_s":
		(*pathOf(w.proof, m.P))[m.I-1].Size += int64(m.X)
	case "pin_ver":
		(*pathOf(w.proof, m.P))[m.I-1].Version += int64(m.X)
	case "pin_left":
		(*pathOf(w.proof, m.P))[m.I-1].Left = hashParam(m.X)
	case "pin_right":
		(*pathOf(w.proof, m.P))[m.I-1].Right = hashParam(m.X)
	case "path_drop":
		q := pathOf(w.proof, m.P)
		*q = append(clonePath((*q)[:m.I-1]), (*q)[m.I:]...)
	case "path_dup":
		q := pathOf(w.proof, m.P)
		*q = append(clonePath((*q)[:m.I]), (*q)[m.I-1:]...)
	case "path_swap":
		q := pathOf(w.proof, m.P)
		(*q)[m.I-1], (*q)[m.I] = (*q)[m.I], (*q)[m.I-1]
	case "leaf_key":
		w.proof.Leaves[m.I-1].Key = u.key(m.X)
	case "leaf_ver":
		w.proof.Leaves[m.I-1].Version += int64(m.X)
	case "leaf_vh":
		w.proof.Leaves[m.I-1].ValueHash = tmhash.Sum([]byte("some other value"))
	case "leaf_drop":
		l := w.proof.Leaves
		w.proof.Leaves = append(append([]iavl.ProofLeafNode{}, l[:m.I-1]...), l[m.I:]...)
		w.proof.InnerNodes = nil
	case "leaf_dup":
		l := w.proof.Leaves
		w.proof.Leaves = append(append([]iavl.ProofLeafNode{}, l[:m.I]...), l[m.I-1:]...)
		w.proof.InnerNodes = append(w.proof.InnerNodes, iavl.PathToLeaf{})
	case "leaf_swap":
		w.proof.Leaves[0], w.proof.Leaves[1] = w.proof.Leaves[1], w.proof.Leaves[0]
	case "inn_drop":
		w.proof.InnerNodes = nil
	case "proof_nil":
		w.proof = nil
	case "graft":
		forged := iavl.ProofLeafNode{Key: u.key(m.X), ValueHash: tmhash.Sum(badVal(u)), Version: 1}
		w.typ, w.opkey = iavl.ProofOpIAVLValue, u.key(m.X)
		w.proof.LeftPath[m.I-1].Right = forged.Hash()
		w.proof.InnerNodes = []iavl.PathToLeaf{{}}
		w.proof.Leaves = append(w.proof.Leaves, forged)
		c.key, c.kind, c.val = u.key(m.X), 1, badVal(u)
	case "skip":
		// predecessor's path, then far's genuine path inside the predecessor's right sibling
		P, _, e := pw.query(1, u.key(nbr[0]), ver)
		if e != nil {
			return w, c, e
		}
		S, _, e := pw.query(1, u.key(m.X), ver)
		if e != nil {
			return w, c, e
		}
		d := deepestRight(P.proof.LeftPath)
		w.typ = iavl.ProofOpIAVLAbsence
		w.proof = &iavl.RangeProof{LeftPath: clonePath(P.proof.LeftPath),
			InnerNodes: []iavl.PathToLeaf{clonePath(S.proof.LeftPath[d+1:])},
			Leaves:     []iavl.ProofLeafNode{P.proof.Leaves[0], S.proof.Leaves[0]}}
		c.kind, c.val = 2, nil
	case "ms_hash":
		w.infos[infoIdx(w.infos, storeName(m.X))].Core.CommitID.Hash = junkHash
	case "ms_name":
		w.infos[infoIdx(w.infos, storeName(m.X))].Name = storeName(3)
	case "ms_ver":
		w.infos[infoIdx(w.infos, storeName(m.X))].Core.CommitID.Version++
	case "ms_drop":
		i := infoIdx(w.infos, storeName(m.X))
		w.infos = append(append([]rootmulti.StoreInfo{}, w.infos[:i]...), w.infos[i+1:]...)
	case "ms_dup":
		fake := iavl.ProofLeafNode{Key: k, ValueHash: tmhash.Sum(badVal(u)), Version: 1}
		w.typ = iavl.ProofOpIAVLValue
		w.proof = &iavl.RangeProof{Leaves: []iavl.ProofLeafNode{fake}}
		fi := rootmulti.StoreInfo{Name: storeName(1)}
		fi.Core.CommitID = types.CommitID{Version: int64(ver), Hash: fake.Hash()}
		w.infos = append([]rootmulti.StoreInfo{fi}, w.infos...)
		c.kind, c.val = 1, badVal(u)
	default:
		return w, c, fmt.Errorf("unknown mutation class %q", m.C)
	}
	return w, c, nil
}

// badVal: a value no store holds (the specification's BADVAL)
func badVal(u *universe) []byte { return []byte("val-forged") }

func parseKnown(s string) map[string]bool {
	out := map[string]bool{}
	for _, c := range strings.Split(s, ",") {
		if c != "" {
			out[c] = true
		}
	}
	return out
}

type tally struct {
	cases, free, knownHits int
	abandoned              int
	byClass                map[string]int
	knownBy                map[string]int
}

// ---------------------------------------------------------------------------
// replayProof: behaviours of MCProof (Set / Remove / Save / Prove with its cases).
func replayProof(in string, nk int, knownList string) {
	rep := hx.NewReport("tree", "replay-proof")
	known := parseKnown(knownList)
	tallies := make(chan tally, 64)
	total := tally{byClass: map[string]int{}, knownBy: map[string]int{}}
	done := make(chan bool)
	go func() {
		for t := range tallies {
			total.cases += t.cases
			total.free += t.free
			total.knownHits += t.knownHits
			total.abandoned += t.abandoned
			for k, v := range t.byClass {
				total.byClass[k] += v
			}
			for k, v := range t.knownBy {
				total.knownBy[k] += v
			}
		}
		done <- true
	}()
	err := hx.ParallelBehaviours(in, hx.Workers(), rep, func(idx int, beh []hx.Step, fresh bool, rep *hx.Report) {
		last := beh[len(beh)-1]
		if last.Str("op") != "Prove" {
			return // histories that end in a mutation are prefixes of Prove histories
		}
		if fresh {
			rep.Nontrivial++
		}
		if idx%2000 == 5 {
			s := hx.Step{}
			for k, v := range last {
				if k != "cases" {
					s[k] = v
				}
			}
			rep.AddSample([]interface{}{beh[:len(beh)-1], s})
		}
		tl := tally{byClass: map[string]int{}, knownBy: map[string]int{}}
		rng := rand.New(rand.NewSource(hx.Seed()*7919 + int64(idx)*31))
		u := newUniverse(pickUniverse(flatPool, nk, rng))
		w := newProofWorld(u)
		mism := func(si int, s hx.Step, what string, want, got interface{}) {
			rep.AddMismatch(hx.Mismatch{Behaviour: idx, Step: si, Op: s.Str("op"), What: what, Want: want, Got: got, History: trimCases(beh)})
		}
		for si, s := range beh {
			rep.Steps++
			rep.OpCounts[s.Str("op")]++
			failed := false
			func() {
				defer func() {
					if r := recover(); r != nil {
						mism(si, s, "exec", s.Str("op"), fmt.Sprintf("panic: %v", r))
						failed = true
					}
				}()
				switch s.Str("op") {
				case "Set":
					w.set(s.Int("k"), s.Int("v"))
				case "Remove":
					w.remove(s.Int("k"))
				case "Save":
					if v := w.commit(); v != hx.Ints(s["ret"])[0] {
						mism(si, s, "ret", s["ret"], v)
						failed = true
					}
				case "Prove":
					failed = !w.prove(s, si, &tl, known, mism)
				}
			}()
			if failed {
				break
			}
		}
		tallies <- tl
	})
	close(tallies)
	<-done
	if err != nil {
		hx.Fatal("%v", err)
	}
	rep.Extra["cases"] = total.cases
	rep.Extra["cases_unconstrained"] = total.free
	rep.Extra["known_hits"] = total.knownBy
	rep.Extra["abandoned"] = total.abandoned
	rep.Extra["cases_by_class"] = total.byClass
	rep.Print()
}

// trimCases drops the (long) case lists from a behaviour kept for a replay file, except
// in the last step.
func trimCases(beh []hx.Step) []hx.Step {
	out := make([]hx.Step, len(beh))
	for i, s := range beh {
		if i < len(beh)-1 && s.Has("cases") {
			c := hx.Step{}
			for k, v := range s {
				if k != "cases" {
					c[k] = v
				}
			}
			out[i] = c
		} else {
			out[i] = s
		}
	}
	return out
}

// prove executes one Prove history entry: the honest query and all its mutation cases.
func (w *proofWorld) prove(s hx.Step, si int, tl *tally, known map[string]bool, mism func(int, hx.Step, string, interface{}, interface{})) bool {
	ver, k := s.Int("ver"), s.Int("k")
	key := w.u.key(k)
	wt, c, err := w.query(1, key, ver)
	if err != nil {
		mism(si, s, "query", "a proof", err.Error())
		return false
	}
	// what the honest node says: existence with the stored value / absence
	if c.kind != s.Int("kind") || valIdx(c.val) != s.Int("val") {
		mism(si, s, "answer", []int{s.Int("kind"), s.Int("val")}, []int{c.kind, valIdx(c.val)})
		return false
	}
	if bad := honestProofWellFormed(wt.proof); bad != "" {
		mism(si, s, "proof-form", "one child hash per node", bad)
		return false
	}
	if want, got := canon(s["shape"]), canon(proofShape(wt.proof, w.u)); want != got {
		// The real tree (or proof builder) is not the one the specification describes: that is
		// C03's business (tree shape), not a statement of C05.  The site-indexed mutations of
		// this query cannot be applied; what C05 does state is still checked: the honest answer
		// must verify.
		tl.abandoned++
		if ok, why := verify(wt, c); !ok {
			mism(si, s, "verdict:none", map[string]interface{}{"must_accept": true}, map[string]interface{}{"accepted": false, "error": why})
			return false
		}
		return true
	}
	nbr := hx.Ints(s["nbr"])
	cases, _ := s["cases"].([]interface{})
	for _, ci := range cases {
		cm, _ := ci.(map[string]interface{})
		var m mutation
		b, _ := json.Marshal(cm["m"])
		_ = json.Unmarshal(b, &m)
		exp, asis := num(cm["exp"]), num(cm["asis"])
		mw, mc, e := w.mutate(wt, c, key, ver, nbr, m)
		if e != nil {
			mism(si, s, "mutation", m, e.Error())
			return false
		}
		got, why := verify(mw, mc)
		tl.cases++
		tl.byClass[m.C]++
		if exp == 2 {
			tl.free++
			continue
		}
		if got != (exp == 1) {
			if known[m.C] && exp == 0 && asis == 1 {
				tl.knownHits++
				tl.knownBy[m.C]++
				continue
			}
			mism(si, s, "verdict:"+m.C, map[string]interface{}{"mutation": m, "must_accept": exp == 1, "model_as_is_accepts": asis == 1},
				map[string]interface{}{"accepted": got, "error": why})
			return false
		}
	}
	return true
}

// ---------------------------------------------------------------------------
// cpIncr as store/iavl/util.go has it (used ONLY to recognise the known-finding
// pattern "the key after the landing leaf is computed by incrementing its bytes").
func cpIncrBytes(bz []byte) []byte {
	ret := append([]byte{}, bz...)
	for i := len(bz) - 1; i >= 0; i-- {
		if ret[i] < 0xFF {
			ret[i]++
			return ret
		}
		ret[i] = 0
		if i == 0 {
			return append(ret, 0)
		}
	}
	return []byte{0}
}

// incrQuirk reports whether a query for key at version ver falls into that pattern:
// the leaf L the lookup lands on (predecessor, else first leaf) is followed by keys that
// sort before cpIncr(L), or cpIncr(L) >= cpIncr(key) although L < key and L is not the
// last leaf, or cpIncr(L) wraps around.  Keys are read from the real store at that version.
func (w *proofWorld) incrQuirk(key []byte, ver int) bool {
	st, err := w.ms.GetCommitStore(w.k1).(*iavl.Store).LazyLoadStore(int64(ver), heightcache.InvalidCache{})
	if err != nil || st == nil {
		return false
	}
	var L []byte
	rit, _ := st.ReverseIterator(nil, append(append([]byte{}, key...), 0)) // keys <= key
	if rit.Valid() {
		L = append([]byte{}, rit.Key()...)
	}
	rit.Close()
	if L == nil {
		it, _ := st.Iterator(nil, nil)
		if it.Valid() {
			L = append([]byte{}, it.Key()...)
		}
		it.Close()
	}
	if L == nil || bytes.Equal(L, key) {
		return false
	}
	var succ []byte // the next leaf after L
	it, _ := st.Iterator(append(append([]byte{}, L...), 0), nil)
	if it.Valid() {
		succ = append([]byte{}, it.Key()...)
	}
	it.Close()
	incL := cpIncrBytes(L)
	if bytes.Compare(incL, cpIncrBytes(key)) >= 0 { // the builder stops after L
		return bytes.Compare(L, key) < 0 && succ != nil
	}
	if bytes.Compare(incL, L) <= 0 { // L is all 0xff: the increment wraps around to the front
		return true
	}
	return succ != nil && bytes.Compare(succ, incL) < 0
}

// traceProof: seeded random driver.  Random histories over arbitrary byte-string keys are
// committed through rootmulti; random keys are queried with prove=true at random retained
// versions, the honest answer is verified, and randomly chosen mutations (the classes of
// ProofModel.tla, at random sites of the real proof) are verified as well.  Everything is
// logged; TraceProof.tla judges.  The driver keeps no model of the contents.
func traceProof(out string, n, steps, minKeys, maxKeys int, pool, knownList string) {
	tw, err := hx.NewTraceWriter(out)
	if err != nil {
		hx.Fatal("%v", err)
	}
	rep := hx.NewReport("tree", "trace-proof")
	quirks, quirkFails := 0, 0
	for tr := 0; tr < n; tr++ {
		rng := hx.Rng(int64(tr) + 5000)
		nk := minKeys + rng.Intn(maxKeys-minKeys+1)
		flat := pool == "flat" || (pool == "mixed" && tr%2 == 1)
		u := newUniverse(randomUniverse(nk, 5, flat, rng))
		w := newProofWorld(u)
		tw.Emit(map[string]interface{}{"op": "reset", "nk": nk, "flat": flat})
		latest := 0
		emitFail := func(ev hx.Step, e string) { ev["fail"] = e; tw.Emit(ev) }
		ok := true
		for s := 0; s < steps && ok; s++ {
			r := rng.Intn(100)
			switch {
			case r < 40:
				k, v := 1+rng.Intn(nk), 1+rng.Intn(3)
				w.set(k, v)
				tw.Emit(hx.Step{"op": "Set", "k": k, "v": v})
			case r < 55:
				k := 1 + rng.Intn(nk)
				w.remove(k)
				tw.Emit(hx.Step{"op": "Remove", "k": k})
			case r < 62 || latest == 0:
				latest = w.commit()
				tw.Emit(hx.Step{"op": "Save", "ret": []int{latest}})
			default:
				ver, k := 1+rng.Intn(latest), 1+rng.Intn(nk)
				ev := hx.Step{"op": "Query", "ver": ver, "k": k}
				func() {
					defer func() {
						if rec := recover(); rec != nil {
							if allFF(u.key(k)) {
								// known pattern: cpIncr(key) wraps around for a key of 0xff bytes and the
								// range-proof builder panics; the store itself is untouched
								quirks++
								quirkFails++
								tw.Emit(hx.Step{"op": "Query", "ver": ver, "k": k, "kind": 0, "val": 0, "leaves": []int{}, "ok": 0,
									"quirk": 1, "why": fmt.Sprintf("panic: %v", rec)})
								return
							}
							emitFail(ev, fmt.Sprintf("panic: %v", rec))
							ok = false
						}
					}()
					wt, c, e := w.query(1, u.key(k), ver)
					if e != nil {
						emitFail(ev, e.Error())
						ok = false
						return
					}
					ev["kind"], ev["val"] = c.kind, valIdx(c.val)
					lv := []int{}
					if wt.proof != nil {
						for _, l := range wt.proof.Leaves {
							lv = append(lv, u.keyIdx(l.Key))
						}
					}
					ev["leaves"] = lv
					acc, why := verify(wt, c)
					ev["ok"] = b2i(acc)
					q := w.incrQuirk(u.key(k), ver)
					ev["quirk"] = b2i(q)
					if q {
						quirks++
						if !acc {
							quirkFails++
						}
					}
					if !acc {
						ev["why"] = why
					}
					tw.Emit(ev)
					rep.Steps++
					rep.OpCounts["Query"]++
					if !acc {
						return
					}
					// a handful of random mutations of this witness
					for j := 0; j < 3; j++ {
						m, applicable := randomMutation(rng, wt, c, nk, k, latest, ver)
						if !applicable {
							continue
						}
						if m.C == "leaf_key" && bytes.Equal(u.key(m.X), wt.proof.Leaves[m.I-1].Key) {
							continue // not an alteration
						}
						mw, mc, e := w.mutate(wt, c, u.key(k), ver, nil, m)
						if e != nil {
							continue
						}
						acc, _ := verify(mw, mc)
						lb := 0 // the altered node hashes its LEFT hash (the right one is not covered)
						if m.C == "pin_right" && len((*pathOf(wt.proof, m.P))[m.I-1].Left) > 0 {
							lb = 1
						}
						tw.Emit(hx.Step{"op": "Tamper", "ver": ver, "k": k, "c": m.C, "p": m.P, "i": m.I, "x": m.X, "lb": lb, "ok": b2i(acc)})
						rep.Steps++
						rep.OpCounts["Tamper:"+m.C]++
					}
				}()
			}
		}
		rep.Behaviours++
	}
	if err := tw.Close(); err != nil {
		hx.Fatal("%v", err)
	}
	rep.Extra["events"] = tw.N
	rep.Extra["incr_quirk_queries"] = quirks
	rep.Extra["incr_quirk_rejected"] = quirkFails
	rep.Print()
}

func allFF(k []byte) bool {
	for _, b := range k {
		if b != 0xff {
			return false
		}
	}
	return len(k) > 0
}

func b2i(b bool) int {
	if b {
		return 1
	}
	return 0
}

// randomMutation draws a mutation whose verdict does not depend on the tree contents:
// the queried claim stays as it is (true) and the witness, the value or the root changes,
// or the claim becomes false by construction (graft / ms_dup with a value nobody wrote).
func randomMutation(rng *rand.Rand, wt witness, c claim, nk, k, latest, ver int) (mutation, bool) {
	pr := wt.proof
	classes := []string{"root", "ms_hash", "ms_name", "ms_drop", "mskey", "optype", "kind", "ms_dup"}
	if c.kind == 1 {
		classes = append(classes, "value")
	}
	if pr != nil {
		classes = append(classes, "leaf_key", "leaf_vh", "leaf_ver", "leaf_dup", "leaf_drop", "proof_nil")
		if len(pr.LeftPath) > 0 {
			classes = append(classes, "pin_h", "pin_s", "pin_ver", "pin_left", "pin_right", "pin_h", "pin_ver", "pin_left", "pin_right",
				"path_drop", "path_dup", "graft")
		}
		if len(pr.LeftPath) > 1 {
			classes = append(classes, "path_swap")
		}
		if len(pr.Leaves) == 2 {
			classes = append(classes, "leaf_swap", "inn_drop")
		}
	}
	cl := classes[rng.Intn(len(classes))]
	m := mutation{C: cl}
	pm := []int{-1, 1}[rng.Intn(2)]
	switch cl {
	case "root":
		m.X = 0
	case "ms_hash", "ms_name", "ms_drop":
		m.X = 1 + rng.Intn(2)
	case "mskey":
		m.X = 2
	case "value":
		m.X = 7 // a value index the driver never writes
	case "pin_h", "pin_s", "pin_ver", "pin_left", "pin_right", "path_drop", "path_dup", "path_swap":
		m.P = 0
		if len(pr.InnerNodes) > 0 && len(pr.InnerNodes[0]) > 0 && rng.Intn(3) == 0 {
			m.P = 1
		}
		q := *pathOf(pr, m.P)
		m.I = 1 + rng.Intn(len(q))
		if cl == "path_swap" {
			if len(q) < 2 {
				return m, false
			}
			m.I = 1 + rng.Intn(len(q)-1)
			a, b := q[m.I-1], q[m.I]
			if a.Height == b.Height && a.Size == b.Size && a.Version == b.Version && bytes.Equal(a.Left, b.Left) && bytes.Equal(a.Right, b.Right) {
				return m, false
			}
		}
		m.X = pm
		if cl == "pin_left" || cl == "pin_right" {
			m.X = 1 + rng.Intn(2)
			cur := q[m.I-1].Left
			if cl == "pin_right" {
				cur = q[m.I-1].Right
			}
			if len(cur) > 0 && rng.Intn(3) == 0 {
				m.X = 0
			}
		}
	case "leaf_key":
		m.I = 1 + rng.Intn(len(pr.Leaves))
		m.X = 1 + rng.Intn(nk)
		// (the altered leaf must differ from the original)
	case "leaf_vh", "leaf_dup", "leaf_drop":
		m.I = 1 + rng.Intn(len(pr.Leaves))
	case "leaf_ver":
		m.I = 1 + rng.Intn(len(pr.Leaves))
		m.X = pm
	case "graft":
		var cand []int
		for i, n := range pr.LeftPath {
			if len(n.Left) > 0 {
				cand = append(cand, i+1)
			}
		}
		if len(cand) == 0 || len(pr.Leaves) != 1 {
			return m, false
		}
		m.I = cand[rng.Intn(len(cand))]
		m.X = 1 + rng.Intn(nk)
	}
	return m, true
}

