package main

import (
	"fmt"
	"os"

	"github.com/pokt-network/pocket-core/codec"
	ctypes "github.com/pokt-network/pocket-core/codec/types"
	"github.com/pokt-network/pocket-core/store/iavl"
	"github.com/pokt-network/pocket-core/store/rootmulti"
	"github.com/pokt-network/pocket-core/store/types"
	abci "github.com/tendermint/tendermint/abci/types"
	"github.com/tendermint/tendermint/crypto/merkle"
	"github.com/tendermint/tendermint/crypto/tmhash"
	dbm "github.com/tendermint/tm-db"
)

var cdc = codec.NewCodec(ctypes.NewInterfaceRegistry())

func main() {
	db := dbm.NewMemDB()
	ms := rootmulti.NewStore(db, false, 1000)
	k1 := types.NewKVStoreKey("s1")
	k2 := types.NewKVStoreKey("s2")
	ms.MountStoreWithDB(k1, types.StoreTypeIAVL, nil)
	ms.MountStoreWithDB(k2, types.StoreTypeIAVL, nil)
	if err := ms.LoadLatestVersion(); err != nil {
		panic(err)
	}
	st := ms.GetCommitKVStore(k1)
	for _, k := range []string{"a", "b", "c", "d", "e"} {
		st.Set([]byte(k), []byte("v"+k))
	}
	ms.GetCommitKVStore(k2).Set([]byte("x"), []byte("y"))
	cid := ms.Commit()
	fmt.Printf("cid %d %X\n", cid.Version, cid.Hash)
	prt := rootmulti.DefaultProofRuntime()
	q := func(k string) abci.ResponseQuery {
		return ms.Query(abci.RequestQuery{Path: "/s1/key", Data: []byte(k), Prove: true, Height: 1})
	}
	res := q("b")
	fmt.Println("value", string(res.Value), "ops", len(res.Proof.Ops), res.Proof.Ops[0].Type, res.Proof.Ops[1].Type)
	fmt.Println("verify b:", prt.VerifyValue(res.Proof, cid.Hash, "/s1/b", []byte("vb")))
	var vop iavl.ValueOp
	if err := cdc.LegacyUnmarshalBinaryLengthPrefixed(res.Proof.Ops[0].Data, &vop); err != nil {
		panic(err)
	}
	fmt.Println(vop.Proof.String())
	// attack 1: set Right on a Left-bearing node (single-field mutation)
	for i := range vop.Proof.LeftPath {
		if len(vop.Proof.LeftPath[i].Left) > 0 {
			p2 := *vop.Proof
			p2.LeftPath = append(iavl.PathToLeaf{}, vop.Proof.LeftPath...)
			p2.LeftPath[i].Right = []byte("junkjunkjunkjunkjunkjunkjunkjunk")
			op := iavl.NewValueOp([]byte("b"), &iavl.RangeProof{LeftPath: p2.LeftPath, InnerNodes: p2.InnerNodes, Leaves: p2.Leaves}).ProofOp()
			pr := &merkle.Proof{Ops: []merkle.ProofOp{op, res.Proof.Ops[1]}}
			fmt.Println("mutated Right on node", i, "verify:", prt.VerifyValue(pr, cid.Hash, "/s1/b", []byte("vb")))
			// forgery: add a leaf "bb" -> "FORGED"
			forged := iavl.ProofLeafNode{Key: []byte("bb"), ValueHash: tmhash.Sum([]byte("FORGED")), Version: 1}
			p3 := &iavl.RangeProof{LeftPath: append(iavl.PathToLeaf{}, vop.Proof.LeftPath...), InnerNodes: []iavl.PathToLeaf{{}}, Leaves: []iavl.ProofLeafNode{vop.Proof.Leaves[0], forged}}
			p3.LeftPath[i].Right = forged.Hash()
			op3 := iavl.NewValueOp([]byte("bb"), p3).ProofOp()
			pr3 := &merkle.Proof{Ops: []merkle.ProofOp{op3, res.Proof.Ops[1]}}
			fmt.Println("FORGED existence of bb at node", i, "verify:", prt.VerifyValue(pr3, cid.Hash, "/s1/bb", []byte("FORGED")))
			break
		}
	}
	// attack 2: absence proof skipping a present key
	resA := q("bb") // absent between b and c
	var aop iavl.AbsenceOp
	if err := cdc.LegacyUnmarshalBinaryLengthPrefixed(resA.Proof.Ops[0].Data, &aop); err != nil {
		panic(err)
	}
	fmt.Println("absence bb honest:", prt.VerifyAbsence(resA.Proof, cid.Hash, "/s1/bb"))
	fmt.Println(aop.Proof.String())
	// same-length absent key: "b1" is not... use tree2 with 2-byte keys
	st2 := ms.GetCommitKVStore(k2)
	for _, k := range []string{"k1", "k3", "k5", "k7", "k9"} {
		st2.Set([]byte(k), []byte("v"+k))
	}
	cid2 := ms.Commit()
	q2 := func(k string) abci.ResponseQuery {
		return ms.Query(abci.RequestQuery{Path: "/s2/key", Data: []byte(k), Prove: true, Height: 2})
	}
	r4 := q2("k4")
	fmt.Println("absence k4 honest:", prt.VerifyAbsence(r4.Proof, cid2.Hash, "/s2/k4"))
	var a4 iavl.AbsenceOp
	cdc.LegacyUnmarshalBinaryLengthPrefixed(r4.Proof.Ops[0].Data, &a4)
	fmt.Println(a4.Proof.String())
	// try to prove absence of k5 (present) : take proof of existence for each key & range proofs
	s2 := ms.GetCommitStore(k2).(*iavl.Store)
	_ = s2
	for _, k := range []string{"k1", "k3", "k5", "k7", "k9", "x"} {
		r := q2(k)
		var v iavl.ValueOp
		cdc.LegacyUnmarshalBinaryLengthPrefixed(r.Proof.Ops[0].Data, &v)
		fmt.Println("KEY", k, v.Proof.String())
	}
	os.Exit(0)
}
