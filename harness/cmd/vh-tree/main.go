// vh-tree: tree engine (C03 versioned IAVL tree, C05 existence / absence proofs).
//
//	vh-tree replay-tree  -in behaviours -nk N [-variants imm,lazy] [-cache 100]
//	vh-tree trace-tree   -out trace.ndjson -n TRACES -steps K -minkeys 64 -maxkeys 512 -dump 50
//	vh-tree replay-proof -in behaviours -nk N [-known class,class,...]
//	vh-tree trace-proof  -out trace.ndjson -n TRACES -steps K -minkeys 16 -maxkeys 96 [-pool mixed|flat]
package main

import (
	"flag"
	"fmt"
	"os"
)

func main() {
	if len(os.Args) < 2 {
		fmt.Fprintln(os.Stderr, "usage: vh-tree <replay-tree|trace-tree|replay-proof|trace-proof> ...")
		os.Exit(2)
	}
	cmd := os.Args[1]
	fs := flag.NewFlagSet(cmd, flag.ExitOnError)
	in := fs.String("in", "", "behaviour file")
	out := fs.String("out", "", "trace output file")
	nk := fs.Int("nk", 4, "number of keys of the specification instance")
	variants := fs.String("variants", "imm,lazy", "comma separated variants")
	cache := fs.Int("cache", 100, "IAVL node cache size")
	n := fs.Int("n", 10, "number of traces")
	steps := fs.Int("steps", 400, "steps per trace")
	minKeys := fs.Int("minkeys", 64, "smallest key universe of a trace")
	maxKeys := fs.Int("maxkeys", 512, "largest key universe of a trace")
	dump := fs.Int("dump", 50, "full dump every k steps")
	known := fs.String("known", "", "mutation classes listed as known findings (counted, not reported as mismatches)")
	pool := fs.String("pool", "mixed", "trace-proof key universes: mixed (arbitrary byte strings) or flat (no key extends another)")
	_ = fs.Parse(os.Args[2:])
	switch cmd {
	case "replay-tree":
		replayTree(*in, *nk, *variants, *cache)
	case "trace-tree":
		traceTree(*out, *n, *steps, *minKeys, *maxKeys, *dump)
	case "replay-proof":
		replayProof(*in, *nk, *known)
	case "trace-proof":
		traceProof(*out, *n, *steps, *minKeys, *maxKeys, *pool, *known)
	default:
		fmt.Fprintln(os.Stderr, "unknown command", cmd)
		os.Exit(2)
	}
}
