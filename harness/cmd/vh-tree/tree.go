package main

// C03: replay of VersionedTree behaviours into iavl.MutableTree, and the seeded random
// driver whose recorded traces are validated by TraceTree.tla.

import (
	"fmt"
	"math/rand"
	"sort"
	"strings"

	"github.com/pokt-network/pocket-core/store/iavl"
	dbm "github.com/tendermint/tm-db"

	"verifharness/internal/hx"
)

type treeWorld struct {
	db      dbm.DB
	tree    *iavl.MutableTree
	u       *universe
	cache   int
	variant string // "imm": GetImmutable(v) for saved versions; "lazy": LazyLoadVersion(v)
}

func newTreeWorld(u *universe, cache int, variant string) *treeWorld {
	db := dbm.NewMemDB()
	t, err := iavl.NewMutableTree(db, cache)
	if err != nil {
		hx.Fatal("NewMutableTree: %v", err)
	}
	return &treeWorld{db: db, tree: t, u: u, cache: cache, variant: variant}
}

// at returns the tree addressed by t: 0 = working tree, v > 0 = saved version v.
func (w *treeWorld) at(t int) (*iavl.ImmutableTree, error) {
	if t == 0 {
		return w.tree.ImmutableTree, nil
	}
	if w.variant == "lazy" {
		mt, err := w.tree.LazyLoadVersion(int64(t))
		if err != nil {
			return nil, err
		}
		if mt == nil {
			return nil, fmt.Errorf("LazyLoadVersion(%d) returned nothing", t)
		}
		return mt.ImmutableTree, nil
	}
	return w.tree.GetImmutable(int64(t))
}

func flatPairs(u *universe, lim int, iter func(fn func(k, v []byte) bool)) []int {
	out := []int{}
	n := 0
	iter(func(k, v []byte) bool {
		out = append(out, u.keyIdx(k), valIdx(v))
		n++
		return lim > 0 && n >= lim
	})
	return out
}

// exec performs one specification action on the real tree and returns the observed
// result in the specification's vocabulary (a flat list of integers).
func (w *treeWorld) exec(s hx.Step) (got []int, err string) {
	defer func() {
		if r := recover(); r != nil {
			err = fmt.Sprintf("panic: %v", r)
		}
	}()
	b := func(x bool) int {
		if x {
			return 1
		}
		return 0
	}
	switch s.Str("op") {
	case "Set":
		return []int{b(w.tree.Set(w.u.key(s.Int("k")), val(s.Int("v"))))}, ""
	case "Remove":
		v, removed := w.tree.Remove(w.u.key(s.Int("k")))
		return []int{b(removed), valIdx(v)}, ""
	case "Save":
		_, ver, e := w.tree.SaveVersion()
		if e != nil {
			return nil, "SaveVersion: " + e.Error()
		}
		return []int{int(ver)}, ""
	case "Delete":
		e := w.tree.DeleteVersion(int64(s.Int("ver")))
		return []int{b(e == nil)}, ""
	case "Rollback":
		w.tree.Rollback()
		return []int{}, ""
	case "Reload":
		t, e := iavl.NewMutableTree(w.db, w.cache)
		if e != nil {
			return nil, e.Error()
		}
		ver, e := t.Load()
		if e != nil {
			return nil, "Load: " + e.Error()
		}
		w.tree = t
		return []int{int(ver)}, ""
	case "Overwrite":
		ver, e := w.tree.LoadVersionForOverwriting(int64(s.Int("ver")))
		if e != nil {
			return nil, "LoadVersionForOverwriting: " + e.Error()
		}
		return []int{int(ver)}, ""
	case "Get":
		t, e := w.at(s.Int("t"))
		if e != nil {
			return nil, e.Error()
		}
		idx, v := t.Get(w.u.key(s.Int("k")))
		return []int{int(idx), valIdx(v)}, ""
	case "Has":
		t, e := w.at(s.Int("t"))
		if e != nil {
			return nil, e.Error()
		}
		return []int{b(t.Has(w.u.key(s.Int("k"))))}, ""
	case "ByIndex":
		t, e := w.at(s.Int("t"))
		if e != nil {
			return nil, e.Error()
		}
		k, v := t.GetByIndex(int64(s.Int("i")))
		return []int{w.u.keyIdx(k), valIdx(v)}, ""
	case "Range":
		t, e := w.at(s.Int("t"))
		if e != nil {
			return nil, e.Error()
		}
		lo, hi, asc, lim := w.u.key(s.Int("lo")), w.u.key(s.Int("hi")), s.Bool("asc"), s.Int("lim")
		if s.Bool("incl") {
			return flatPairs(w.u, lim, func(fn func(k, v []byte) bool) {
				t.IterateRangeInclusive(lo, hi, asc, func(k, v []byte, _ int64) bool { return fn(k, v) })
			}), ""
		}
		return flatPairs(w.u, lim, func(fn func(k, v []byte) bool) { t.IterateRange(lo, hi, asc, fn) }), ""
	case "Versions":
		n := s.Int("n")
		if s.Has("ret") {
			n = len(hx.Ints(s["ret"]))
		}
		out := make([]int, n)
		for v := 1; v <= n; v++ {
			ex := w.tree.VersionExists(int64(v))
			_, e := w.tree.GetImmutable(int64(v))
			if ex != (e == nil) {
				return nil, fmt.Sprintf("VersionExists(%d) = %v but GetImmutable error = %v", v, ex, e)
			}
			out[v-1] = b(ex)
		}
		return out, ""
	}
	return nil, "unknown op " + s.Str("op")
}

func intsEqual(a, b []int) bool {
	if len(a) != len(b) {
		return false
	}
	for i := range a {
		if a[i] != b[i] {
			return false
		}
	}
	return true
}

// checkTree compares one real tree (t = 0 working, v saved) with the specification's tree.
func (w *treeWorld) checkTree(t int, want interface{}) (what string, wantV, gotV interface{}) {
	defer func() {
		if r := recover(); r != nil { // e.g. a node of a retained version is gone from the database
			what, wantV, gotV = "panic", "a readable tree", fmt.Sprintf("panic: %v", r)
		}
	}()
	real, e := w.at(t)
	if e != nil {
		return "tree-missing", t, e.Error()
	}
	// (1) the observers agree with each other and with the specification's leaves
	leaves, bad := dumpTree(real, w.u)
	if bad != "" {
		return "observers-inconsistent", t, bad
	}
	var wl [][2]int
	specLeaves(want, &wl)
	if !leavesEqual(wl, leaves) {
		return "contents", wl, leaves
	}
	// (2) the real node structure (walked through RenderShape) is balanced and is the
	// specification's shape
	rs := realShape(real, w.u)
	if h, e := shapeHeight(rs); e != "" {
		return "balance", "height-balanced tree", e
	} else if h != int(real.Height()) {
		return "height", h, int(real.Height())
	}
	var ss []shapeItem
	specShape(want, 0, &ss)
	if fmt.Sprint(ss) != fmt.Sprint(rs) {
		return "shape", ss, rs
	}
	// (3) saved versions: the persisted nodes (height, size, version, key, children),
	// read from the database, are exactly the specification's nodes
	if t > 0 {
		walked, exists, e := walkVersion(w.db, w.u, int64(t))
		if e != nil {
			return "nodes", want, e.Error()
		}
		if !exists {
			return "root-record", t, "missing"
		}
		if !treesEqual(walked, want) {
			return "nodes", want, walked
		}
	} else if wn, _ := want.([]interface{}); len(wn) > 0 {
		if int(real.Height()) != num(wn[0]) || int(real.Size()) != num(wn[1]) {
			return "root-height-size", []int{num(wn[0]), num(wn[1])}, []int{int(real.Height()), int(real.Size())}
		}
	}
	return "", nil, nil
}

// checkState compares the whole real state with the expected state of a history entry.
func (w *treeWorld) checkState(st map[string]interface{}) (what string, wantV, gotV interface{}) {
	if what, a, b := w.checkTree(0, st["w"]); what != "" {
		return "working-" + what, a, b
	}
	saved, _ := st["s"].([]interface{})
	vs := hx.Ints(st["vs"])
	sort.Ints(vs)
	avail := w.tree.AvailableVersions()
	if !intsEqual(vs, avail) && !(len(vs) == 0 && len(avail) == 0) {
		return "versions", vs, avail
	}
	if int(w.tree.Version()) != num(st["latest"]) {
		return "latest", num(st["latest"]), int(w.tree.Version())
	}
	retained := map[int]bool{}
	for _, v := range vs {
		retained[v] = true
		if what, a, b := w.checkTree(v, saved[v-1]); what != "" {
			return fmt.Sprintf("v%d-%s", v, what), a, b
		}
	}
	for v := 1; v <= len(saved)+1; v++ {
		if retained[v] {
			continue
		}
		if _, e := w.tree.GetImmutable(int64(v)); e == nil || w.tree.VersionExists(int64(v)) {
			return "deleted-version-readable", v, "GetImmutable succeeded"
		}
	}
	return "", nil, nil
}

func replayTree(in string, nk int, variants string, cache int) {
	rep := hx.NewReport("tree", "replay-tree")
	vs := strings.Split(variants, ",")
	err := hx.ParallelBehaviours(in, hx.Workers(), rep, func(idx int, beh []hx.Step, fresh bool, rep *hx.Report) {
		// non-trivial: the behaviour ends in a step that is checked against a tree built by
		// at least two earlier insertions (an observation or a state comparison)
		sets := 0
		for _, s := range beh[:len(beh)-1] {
			if s.Str("op") == "Set" {
				sets++
			}
		}
		if fresh && sets >= 2 {
			rep.Nontrivial++
		}
		if idx%40000 == 11 {
			rep.AddSample(beh)
		}
		for vi, variant := range vs {
			rng := rand.New(rand.NewSource(hx.Seed()*7919 + int64(idx)*31 + int64(vi)))
			w := newTreeWorld(newUniverse(pickUniverse(keyPool, nk, rng)), cache, variant)
			for si, s := range beh {
				rep.Steps++
				rep.OpCounts[s.Str("op")]++
				got, e := w.exec(s)
				if e != "" {
					rep.AddMismatch(hx.Mismatch{Behaviour: idx, Step: si, Op: s.Str("op"), What: "exec", Want: s, Got: e, History: beh, Variant: variant})
					break
				}
				if s.Has("ret") {
					if want := hx.Ints(s["ret"]); !intsEqual(want, got) {
						rep.AddMismatch(hx.Mismatch{Behaviour: idx, Step: si, Op: s.Str("op"), What: "ret", Want: want, Got: got, History: beh, Variant: variant})
						break
					}
				}
				if st, ok := s["st"].(map[string]interface{}); ok {
					if what, a, b := w.checkState(st); what != "" {
						rep.AddMismatch(hx.Mismatch{Behaviour: idx, Step: si, Op: s.Str("op"), What: what, Want: a, Got: b, History: beh, Variant: variant})
						break
					}
				} else if si == len(beh)-1 || si%8 == 7 {
					// no expected state in this entry: still require the real observers to be
					// mutually consistent and the real shape to be balanced
					if _, bad := dumpTree(w.tree.ImmutableTree, w.u); bad != "" {
						rep.AddMismatch(hx.Mismatch{Behaviour: idx, Step: si, Op: s.Str("op"), What: "observers-inconsistent", Want: "consistent observers", Got: bad, History: beh, Variant: variant})
						break
					}
				}
			}
		}
	})
	if err != nil {
		hx.Fatal("%v", err)
	}
	rep.Extra["variants"] = vs
	rep.Print()
}

// ---------------------------------------------------------------------------
// traceTree: seeded random driver over a large key space.  It keeps NO model of the
// contents: keys to probe are drawn at random, the real results are logged, TLC
// (TraceTree.tla) is the oracle.  The only bookkeeping is the list of retained version
// numbers (needed to address GetImmutable / DeleteVersion meaningfully).
func traceTree(out string, n, steps, minKeys, maxKeys int, dumpEvery int) {
	tw, err := hx.NewTraceWriter(out)
	if err != nil {
		hx.Fatal("%v", err)
	}
	rep := hx.NewReport("tree", "trace-tree")
	for tr := 0; tr < n; tr++ {
		rng := hx.Rng(int64(tr))
		nk := minKeys + rng.Intn(maxKeys-minKeys+1)
		u := newUniverse(randomUniverse(nk, 6, false, rng))
		variant := []string{"imm", "lazy"}[tr%2]
		cache := []int{0, 3, 1000}[tr%3] // tiny node caches force reads from the database
		w := newTreeWorld(u, cache, variant)
		tw.Emit(map[string]interface{}{"op": "reset", "nk": nk, "variant": variant, "cache": cache})
		versions := []int{}
		// key locality: most operations hit a window of the key space so that removals
		// and re-insertions of the same keys are frequent
		win := 1 + rng.Intn(nk)
		wlen := 8 + rng.Intn(24)
		pickKey := func() int {
			if rng.Intn(4) == 0 {
				return 1 + rng.Intn(nk)
			}
			k := win + rng.Intn(wlen)
			for k > nk {
				k -= nk
			}
			return k
		}
		pickTree := func() int {
			if len(versions) == 0 || rng.Intn(2) == 0 {
				return 0
			}
			return versions[rng.Intn(len(versions))]
		}
		emit := func(ev hx.Step) bool {
			got, e := w.exec(ev)
			if e != "" {
				ev["fail"] = e
			} else {
				ev["ret"] = got
			}
			tw.Emit(ev)
			rep.Steps++
			rep.OpCounts[ev.Str("op")]++
			return e == ""
		}
		dump := func(t int) (good bool) {
			defer func() {
				if r := recover(); r != nil {
					tw.Emit(hx.Step{"op": "Dump", "t": t, "fail": fmt.Sprintf("panic: %v", r)})
					good = false
				}
			}()
			real, e := w.at(t)
			if e != nil {
				tw.Emit(hx.Step{"op": "Dump", "t": t, "fail": e.Error()})
				return false
			}
			leaves, bad := dumpTree(real, u)
			ev := hx.Step{"op": "Dump", "t": t}
			if bad != "" {
				ev["fail"] = bad
				tw.Emit(ev)
				return false
			}
			flat := make([]int, 0, 2*len(leaves))
			for _, kv := range leaves {
				flat = append(flat, kv[0], kv[1])
			}
			ev["ret"] = flat
			rs := realShape(real, u)
			h, e2 := shapeHeight(rs)
			if e2 != "" {
				ev["fail"] = "balance: " + e2
				tw.Emit(ev)
				return false
			}
			sh := make([]int, 0, 2*len(rs))
			for _, it := range rs {
				if it.Leaf {
					sh = append(sh, it.Depth, it.Key)
				} else {
					sh = append(sh, it.Depth, 0)
				}
			}
			ev["shape"] = sh
			ev["height"] = []int{h, int(real.Height()), int(real.Size())}
			if t > 0 {
				walked, exists, e3 := walkVersion(w.db, u, int64(t))
				if e3 != nil || !exists {
					ev["fail"] = fmt.Sprintf("nodes of version %d unreadable: %v", t, e3)
					tw.Emit(ev)
					return false
				}
				ev["nodes"] = walked
			}
			tw.Emit(ev)
			rep.OpCounts["Dump"]++
			return true
		}
		ok := true
		for s := 0; s < steps && ok; s++ {
			if rng.Intn(40) == 0 {
				win = 1 + rng.Intn(nk)
			}
			r := rng.Intn(100)
			switch {
			case r < 34:
				ok = emit(hx.Step{"op": "Set", "k": pickKey(), "v": 1 + rng.Intn(3)})
			case r < 52:
				ok = emit(hx.Step{"op": "Remove", "k": pickKey()})
			case r < 57:
				if ok = emit(hx.Step{"op": "Save"}); ok {
					versions = append(versions, int(w.tree.Version()))
				}
			case r < 59:
				// delete an old version (never the latest); sometimes a bogus one
				if len(versions) > 1 && rng.Intn(5) != 0 {
					j := rng.Intn(len(versions) - 1)
					v := versions[j]
					if ok = emit(hx.Step{"op": "Delete", "ver": v}); ok {
						versions = append(versions[:j], versions[j+1:]...)
					}
				} else {
					ok = emit(hx.Step{"op": "Delete", "ver": int(w.tree.Version()) + rng.Intn(2)})
				}
			case r < 60:
				ok = emit(hx.Step{"op": "Rollback"})
			case r < 61:
				ok = emit(hx.Step{"op": "Reload"})
			case r < 72:
				ok = emit(hx.Step{"op": "Get", "t": pickTree(), "k": pickKey()})
			case r < 78:
				ok = emit(hx.Step{"op": "Has", "t": pickTree(), "k": pickKey()})
			case r < 84:
				ok = emit(hx.Step{"op": "ByIndex", "t": pickTree(), "i": rng.Intn(wlen+2) - 1})
			case r < 97:
				lo, hi := pickKey(), pickKey()
				if rng.Intn(5) == 0 {
					lo = 0
				}
				if rng.Intn(5) == 0 {
					hi = 0
				}
				ok = emit(hx.Step{"op": "Range", "t": pickTree(), "lo": lo, "hi": hi, "asc": rng.Intn(2) == 0,
					"incl": rng.Intn(3) == 0, "lim": 1 + rng.Intn(6)})
			default:
				ok = emit(hx.Step{"op": "Versions", "n": int(w.tree.Version())})
			}
			if ok && dumpEvery > 0 && s%dumpEvery == dumpEvery-1 {
				ok = dump(pickTree())
			}
			// keep at most 4 retained versions so that the specification's state stays small
			if ok && len(versions) > 4 {
				v := versions[0]
				if ok = emit(hx.Step{"op": "Delete", "ver": v}); ok {
					versions = versions[1:]
				}
			}
		}
		if ok {
			dump(0)
			for _, v := range versions {
				dump(v)
			}
		}
		rep.Behaviours++
	}
	if err := tw.Close(); err != nil {
		hx.Fatal("%v", err)
	}
	rep.Extra["events"] = tw.N
	rep.Print()
}
