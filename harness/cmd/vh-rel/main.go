// vh-rel: relational engine (C11, C12, C13, C43): the same chain executed by several
// real nodes that differ only in off-chain activity / run number / wall-clock delays /
// export-import; each node runs in its own process because pocket-core keeps
// process-global caches and codec switches.
//
//	vh-rel node                         (child) script on stdin -> result JSON on stdout
//	vh-rel replay-rel -in beh.txt [-shard i -of n]   TLC behaviours of ChainRel -> scripts -> A/B comparison
//	vh-rel random-rel -n N -out trace   random scripts (many query routes / tx kinds) -> A/B comparison events
//	vh-rel determinism -n N -runs R -out trace       same script R times (+ delayed run)
//	vh-rel export-import -n N -out trace             export at a height, re-import, compare projections
package main

import (
	"bytes"
	"crypto/sha256"
	"encoding/hex"
	"encoding/json"
	"flag"
	"fmt"
	"os"
	"os/exec"
	"runtime/debug"
	"strconv"
	"strings"
	"time"

	sdk "github.com/pokt-network/pocket-core/types"
	appsTypes "github.com/pokt-network/pocket-core/x/apps/types"
	govTypes "github.com/pokt-network/pocket-core/x/gov/types"
	nodesTypes "github.com/pokt-network/pocket-core/x/nodes/types"
	pocketTypes "github.com/pokt-network/pocket-core/x/pocketcore/types"
	abci "github.com/tendermint/tendermint/abci/types"

	"verifharness/chainsim"
	"verifharness/internal/hx"
)

// ---------------------------------------------------------------- scripts

// Action is one step of a node script.
type Action struct {
	A             string                   `json:"a"`              // block | checktx | simulate | abci | rpc | dispatch | store | sleep
	OnlyA         bool                     `json:"onlyA"`          // off-chain: executed by role A only
	Txs           []map[string]interface{} `json:"txs,omitempty"`  // block: abstract transactions
	Tx            map[string]interface{}   `json:"tx,omitempty"`   // checktx / simulate
	Path          string                   `json:"path,omitempty"` // abci / store query path
	Who           string                   `json:"who,omitempty"`  // subject account name
	Chain         string                   `json:"chain,omitempty"`
	Height        int64                    `json:"height,omitempty"`
	Ms            int                      `json:"ms,omitempty"`
	TimeOffsetSec int64                    `json:"timeOffsetSec,omitempty"`
	Absent        []string                 `json:"absent,omitempty"`   // block: validators that did not sign the previous block
	Proposer      string                   `json:"proposer,omitempty"` // block: proposer (default: first validator)
}

type Script struct {
	Seed            int64           `json:"seed"`
	Role            string          `json:"role"`
	T0Unix          int64           `json:"t0unix,omitempty"` // genesis time override (C12 wall-clock scenarios)
	Actions         []Action        `json:"actions"`
	Export          int64           `json:"export,omitempty"`          // export state at this height at the end
	Import          json.RawMessage `json:"import,omitempty"`          // start from this exported app state
	NoParamFeatures bool            `json:"noParamFeatures,omitempty"` // leave the features that add governance parameters inactive
}

type BlockOut struct {
	H     int64    `json:"h"`
	Hash  string   `json:"hash"`
	Codes []string `json:"codes"`
	Data  []string `json:"data"`
}

type NodeOut struct {
	Blocks    []BlockOut            `json:"blocks"`
	Final     chainsim.State        `json:"final"`
	Export    json.RawMessage       `json:"export,omitempty"`
	AtExport  *chainsim.State       `json:"atExport,omitempty"`
	ExpClaims []chainsim.ClaimState `json:"expClaims"` // the claims section of the exported document itself
	Off       []string              `json:"off"`       // outcomes of off-chain requests (informational)
	Panic     string                `json:"panic,omitempty"`
}

func relConfig(seed int64) chainsim.Config {
	return chainsim.Config{Seed: seed, NKeys: 30,
		Balances:  map[int]int64{0: 40000000, 1: 40000000, 2: 20000000, 3: 20000000, 4: 5000000, 5: 300000, 6: 30000, 7: 30000000, 8: 100000, 9: 100000, 10: 100000, 11: 100000, 12: 100000},
		Nodes:     []chainsim.NodeSpec{{Key: 0, Output: -1, Tokens: 5000000, Chains: []string{"0001"}}, {Key: 1, Output: -1, Tokens: 3000000, Chains: []string{"0001", "0002"}}},
		Apps:      []chainsim.AppSpec{{Key: 3, Tokens: 2000000, Chains: []string{"0001", "0002"}}},
		DAOTokens: 1000000, DAOOwner: 0, Servicer: -1}
}

func keyIdx(s *chainsim.Sim, name string) int {
	for i := range s.Keys {
		if s.Name(s.Addr(i)) == name {
			return i
		}
	}
	return -1
}

func addrOf(s *chainsim.Sim, name string) sdk.Address {
	for a, n := range s.Names {
		if n == name {
			ad, _ := sdk.AddressFromHex(a)
			return ad
		}
	}
	return nil
}

var entropy int64 = 1000

// buildTx makes real signed bytes from an abstract transaction.
func buildTx(s *chainsim.Sim, t map[string]interface{}) []byte {
	tx := hx.Step(t)
	entropy++
	e := entropy
	if tx.Has("id") {
		e = int64(tx.Int("id"))
	}
	fee := int64(10000)
	if tx.Has("fee") {
		fee = int64(tx.Int("fee"))
	}
	signer := tx.Str("signer")
	var msg sdk.ProtoMsg
	switch tx.Str("kind") {
	case "send":
		msg = &nodesTypes.MsgSend{FromAddress: addrOf(s, tx.Str("from")), ToAddress: addrOf(s, tx.Str("to")), Amount: sdk.NewInt(int64(tx.Int("amount")))}
		if signer == "" {
			signer = tx.Str("from")
		}
	case "app_stake":
		k := s.Keys[keyIdx(s, tx.Str("app"))]
		var chains []string // nil when empty: the decoded message has nil, and sign bytes are JSON
		for _, c := range hx.Step(t)["chains"].([]interface{}) {
			chains = append(chains, c.(string))
		}
		msg = &appsTypes.MsgStake{PubKey: k.PublicKey(), Chains: chains, Value: sdk.NewInt(int64(tx.Int("amount")))}
		if signer == "" {
			signer = tx.Str("app")
		}
	case "app_unstake":
		msg = &appsTypes.MsgBeginUnstake{Address: addrOf(s, tx.Str("app"))}
		if signer == "" {
			signer = tx.Str("app")
		}
	case "node_stake":
		k := s.Keys[keyIdx(s, tx.Str("node"))]
		chains := []string{}
		for _, c := range hx.Step(t)["chains"].([]interface{}) {
			chains = append(chains, c.(string))
		}
		m := &nodesTypes.MsgStake{PublicKey: k.PublicKey(), Chains: chains, Value: sdk.NewInt(int64(tx.Int("amount"))), ServiceUrl: "https://n.example:443"}
		if o := tx.Str("output"); o != "" {
			m.Output = addrOf(s, o)
		}
		if d, ok := t["delegators"].(map[string]interface{}); ok && len(d) > 0 {
			m.RewardDelegators = map[string]uint32{}
			for n, sh := range d {
				m.RewardDelegators[addrOf(s, n).String()] = uint32(sh.(float64))
			}
		}
		msg = m
		if signer == "" {
			signer = tx.Str("node")
		}
	case "claim":
		h := sha256.Sum256([]byte(fmt.Sprintf("root-%d", e)))
		msg = &pocketTypes.MsgClaim{
			SessionHeader: pocketTypes.SessionHeader{ApplicationPubKey: s.Keys[keyIdx(s, tx.Str("app"))].PublicKey().RawString(),
				Chain: tx.Str("chain"), SessionBlockHeight: int64(tx.Int("sessionHeight"))},
			MerkleRoot:   pocketTypes.HashRange{Hash: h[:], Range: pocketTypes.Range{Lower: 0, Upper: 1000000}},
			TotalProofs:  int64(tx.Int("total")),
			FromAddress:  addrOf(s, tx.Str("node")),
			EvidenceType: pocketTypes.RelayEvidence,
		}
		if signer == "" {
			signer = tx.Str("node")
		}
	case "node_unstake":
		msg = &nodesTypes.MsgBeginUnstake{Address: addrOf(s, tx.Str("node")), Signer: addrOf(s, signer)}
	case "node_unjail":
		msg = &nodesTypes.MsgUnjail{ValidatorAddr: addrOf(s, tx.Str("node")), Signer: addrOf(s, signer)}
	case "upgrade":
		var fs []string
		if l, ok := tx["features"].([]interface{}); ok {
			for _, f := range l {
				fs = append(fs, fmt.Sprint(f))
			}
		}
		msg = &govTypes.MsgUpgrade{Address: addrOf(s, tx.Str("from")), Upgrade: govTypes.Upgrade{Height: int64(tx.Int("height")), Version: tx.Str("version"), Features: fs}}
		if signer == "" {
			signer = tx.Str("from")
		}
	default:
		hx.Fatal("vh-rel: unknown tx kind %q", tx.Str("kind"))
	}
	corrupt, _ := t["corruptSig"].(bool)
	return s.SignTx(msg, chainsim.TxOpts{Signer: s.Keys[keyIdx(s, signer)], Fee: fee, Entropy: e, CorruptSig: corrupt})
}

// runNode executes a script on a fresh real node.
func runNode(sc Script) (out NodeOut) {
	defer func() {
		if r := recover(); r != nil {
			out.Panic = fmt.Sprint(r) + " @ " + stackTop()
		}
	}()
	if sc.T0Unix != 0 {
		chainsim.T0 = time.Unix(sc.T0Unix, 0).UTC()
	}
	cfg := relConfig(sc.Seed)
	{
		// VEDIT (edit-stake must reach a new stake bin) is left inactive: with the default
		// 15e9 bin size no edit-stake of the small economy could ever succeed
		f := chainsim.DefaultFeatures()
		delete(f, "VEDIT")
		cfg.Features = f
	}
	if sc.NoParamFeatures {
		f := chainsim.DefaultFeatures()
		delete(f, "VEDIT")
		for _, k := range []string{"BLOCK", "RSCAL", "PerChainRTTM"} {
			delete(f, k)
		}
		cfg.Features = f
	}
	if sc.Import != nil {
		var gs map[string]json.RawMessage
		if err := json.Unmarshal(sc.Import, &gs); err != nil {
			hx.Fatal("import: %v", err)
		}
		cfg.GenesisOverride = gs
	}
	s := chainsim.New(cfg)
	txCache := map[int][]byte{}
	var cur BlockOut
	for _, a := range sc.Actions {
		if a.OnlyA && sc.Role != "A" {
			continue
		}
		switch a.A {
		case "block":
			var txs [][]byte
			for _, t := range a.Txs {
				id := -1
				if v, ok := t["id"]; ok {
					id = int(v.(float64))
				}
				if bz, ok := txCache[id]; ok && id >= 0 {
					txs = append(txs, bz)
					continue
				}
				bz := buildTx(s, t)
				if id >= 0 {
					txCache[id] = bz
				}
				txs = append(txs, bz)
			}
			o := chainsim.BlockOpts{}
			if len(a.Absent) > 0 {
				o.Absent = map[string]bool{}
				for _, n := range a.Absent {
					o.Absent[hex.EncodeToString(addrOf(s, n))] = true
				}
			}
			if a.Proposer != "" {
				if _, in := s.ValSet[hex.EncodeToString(s.Keys[keyIdx(s, a.Proposer)].PublicKey().RawBytes())]; in {
					o.Proposer = addrOf(s, a.Proposer)
				}
			}
			if a.TimeOffsetSec != 0 {
				t := chainsim.T0.Add(time.Duration(s.Height+1)*chainsim.BlockInterval + time.Duration(a.TimeOffsetSec)*time.Second)
				o.Time = &t
			}
			r := s.Block(txs, o)
			b := BlockOut{H: r.Height, Hash: hex.EncodeToString(r.AppHash), Codes: []string{}, Data: []string{}}
			for _, x := range r.Results {
				b.Codes = append(b.Codes, fmt.Sprintf("%s/%d", x.Codespace, x.Code))
				b.Data = append(b.Data, hex.EncodeToString(x.Data))
			}
			out.Blocks = append(out.Blocks, b)
		case "begin":
			s.BeginBlock(chainsim.BlockOpts{})
			cur = BlockOut{H: s.Height, Codes: []string{}, Data: []string{}}
		case "tx":
			if !s.InBlock {
				s.BeginBlock(chainsim.BlockOpts{})
				cur = BlockOut{H: s.Height, Codes: []string{}, Data: []string{}}
			}
			for _, t := range a.Txs {
				x := s.DeliverTx(buildTx(s, t))
				cur.Codes = append(cur.Codes, fmt.Sprintf("%s/%d", x.Codespace, x.Code))
				cur.Data = append(cur.Data, hex.EncodeToString(x.Data))
			}
		case "commit":
			if s.InBlock {
				s.EndBlock()
				cur.Hash = hex.EncodeToString(s.Commit())
				out.Blocks = append(out.Blocks, cur)
			}
		case "checktx":
			r := s.CheckTx(buildTx(s, a.Tx))
			out.Off = append(out.Off, fmt.Sprintf("checktx:%d", r.Code))
		case "simulate":
			r := s.App.Query(abci.RequestQuery{Path: "app/simulate", Data: buildTx(s, a.Tx), Height: s.Height})
			out.Off = append(out.Off, fmt.Sprintf("simulate:%d", r.Code))
		case "abci":
			var data []byte
			switch a.Path {
			case "custom/application/application":
				data, _ = json.Marshal(appsTypes.QueryAppParams{Address: addrOf(s, a.Who)})
			case "custom/pos/validator":
				data, _ = json.Marshal(nodesTypes.QueryValidatorParams{Address: addrOf(s, a.Who)})
			case "custom/auth/account":
				data, _ = json.Marshal(map[string]interface{}{"Address": addrOf(s, a.Who)})
			}
			r := s.App.Query(abci.RequestQuery{Path: a.Path, Data: data, Height: a.Height})
			out.Off = append(out.Off, fmt.Sprintf("abci:%s@%d:%d", a.Path, a.Height, r.Code))
		case "store":
			r := s.App.Query(abci.RequestQuery{Path: a.Path, Data: []byte{0x01}, Height: a.Height, Prove: a.Height > 1})
			out.Off = append(out.Off, fmt.Sprintf("store:%s@%d:%d", a.Path, a.Height, r.Code))
		case "rpc":
			var err error
			switch a.Path {
			case "app":
				_, err = s.App.QueryApp(addrOf(s, a.Who).String(), a.Height)
			case "node":
				_, err = s.App.QueryNode(addrOf(s, a.Who).String(), a.Height)
			case "balance":
				_, err = s.App.QueryBalance(addrOf(s, a.Who).String(), a.Height)
			case "apps":
				_, err = s.App.QueryApps(a.Height, appsTypes.QueryApplicationsWithOpts{Page: 1, Limit: 100})
			case "nodes":
				_, err = s.App.QueryNodes(a.Height, nodesTypes.QueryValidatorsParams{Page: 1, Limit: 100})
			case "supply":
				_, _, err = s.App.QueryTotalNodeCoins(a.Height)
			}
			out.Off = append(out.Off, fmt.Sprintf("rpc:%s@%d:%v", a.Path, a.Height, err == nil))
		case "dispatch":
			hdr := pocketTypes.SessionHeader{ApplicationPubKey: s.Keys[keyIdx(s, a.Who)].PublicKey().RawString(), Chain: a.Chain}
			_, err := s.App.HandleDispatch(hdr)
			out.Off = append(out.Off, fmt.Sprintf("dispatch:%s:%v", a.Who, err == nil))
		case "sleep":
			time.Sleep(time.Duration(a.Ms) * time.Millisecond)
		default:
			hx.Fatal("vh-rel: unknown action %q", a.A)
		}
	}
	out.Final = s.Project()
	if sc.Export > 0 {
		ex, err := s.App.ExportAppState(sc.Export, false, nil)
		if err != nil {
			out.Panic = "export: " + err.Error()
			return
		}
		out.Export = ex
		out.ExpClaims = claimsOfExport(s, ex)
		ctx, err2 := s.App.NewContext(sc.Export)
		if err2 == nil {
			st := s.ProjectCtx(ctx)
			out.AtExport = &st
		}
	}
	return out
}

// child runs a script in a fresh process of this binary.
func child(sc Script) NodeOut {
	in, _ := json.Marshal(sc)
	cmd := exec.Command(os.Args[0], "node")
	cmd.Stdin = bytes.NewReader(in)
	cmd.Env = os.Environ()
	if sc.Import != nil {
		cmd.Env = append(cmd.Env, "VERIF_LOG=1") // an aborted import explains itself on stderr
	}
	var stdout, stderr bytes.Buffer
	cmd.Stdout = &stdout
	cmd.Stderr = &stderr
	err := cmd.Run()
	var out NodeOut
	if err != nil {
		out.Panic = fmt.Sprintf("node process failed: %v: %s", err, tail(stderr.String(), 600))
		return out
	}
	if e := json.Unmarshal(lastLine(stdout.Bytes()), &out); e != nil {
		out.Panic = "node output unparsable: " + e.Error()
	}
	return out
}

func tail(s string, n int) string {
	if len(s) > n {
		return s[len(s)-n:]
	}
	return s
}

func lastLine(b []byte) []byte {
	b = bytes.TrimSpace(b)
	if i := bytes.LastIndexByte(b, '\n'); i >= 0 {
		return b[i+1:]
	}
	return b
}

func main() {
	if len(os.Args) < 2 {
		fmt.Fprintln(os.Stderr, "usage: vh-rel <node|replay-rel|random-rel|determinism|export-import> ...")
		os.Exit(2)
	}
	fs := flag.NewFlagSet(os.Args[1], flag.ExitOnError)
	in := fs.String("in", "", "behaviour file")
	out := fs.String("out", "", "trace output")
	n := fs.Int("n", 10, "scenarios")
	runs := fs.Int("runs", 3, "runs per scenario")
	shard := fs.Int("shard", 0, "shard")
	of := fs.Int("of", 1, "shards")
	_ = fs.Parse(os.Args[2:])
	switch os.Args[1] {
	case "node":
		var sc Script
		if err := json.NewDecoder(os.Stdin).Decode(&sc); err != nil {
			hx.Fatal("script: %v", err)
		}
		o := runNode(sc)
		b, _ := json.Marshal(o)
		fmt.Println(string(b))
	case "replay-rel":
		replayRel(*in, *shard, *of)
	case "random-rel":
		randomRel(*out, *n)
	case "determinism":
		determinism(*out, *n, *runs)
	case "export-import":
		exportImport(*out, *n)
	default:
		os.Exit(2)
	}
}

// stackTop returns the first frames of the panicking goroutine inside /repo (diagnostics).
func stackTop() string {
	var out []string
	for _, l := range strings.Split(string(debug.Stack()), "\n") {
		if strings.Contains(l, "/repo/") && len(out) < 6 {
			out = append(out, strings.TrimSpace(l))
		}
	}
	return strings.Join(out, " | ")
}

// claimsOfExport reads the pending claims out of the exported genesis document (module
// pocketcore, field claims) in the vocabulary of the projection, so that the document can be
// compared with the state it was exported from even when the import does not go through.
func claimsOfExport(s *chainsim.Sim, ex json.RawMessage) []chainsim.ClaimState {
	out := []chainsim.ClaimState{}
	var mods map[string]json.RawMessage
	if json.Unmarshal(ex, &mods) != nil {
		return out
	}
	var pc struct {
		Claims []struct {
			Header struct {
				App     string      `json:"app_public_key"`
				Chain   string      `json:"chain"`
				Session json.Number `json:"session_height"`
			} `json:"header"`
			Total    json.Number `json:"total_proofs"`
			From     string      `json:"from_address"`
			Evidence json.Number `json:"evidence_type"`
			Expires  json.Number `json:"expiration_height"`
		} `json:"claims"`
	}
	d := json.NewDecoder(bytes.NewReader(mods["pocketcore"]))
	d.UseNumber()
	if d.Decode(&pc) != nil {
		return out
	}
	num := func(n json.Number) int64 { v, _ := strconv.ParseInt(strings.Trim(n.String(), "\""), 10, 64); return v }
	for _, c := range pc.Claims {
		a, _ := sdk.AddressFromHex(c.From)
		out = append(out, chainsim.ClaimState{Node: s.Name(a), App: s.NameOfPubKeyHex(c.Header.App), Chain: c.Header.Chain,
			SessionH: num(c.Header.Session), Total: num(c.Total), Evidence: int(num(c.Evidence)), Expires: num(c.Expires)})
	}
	return out
}
