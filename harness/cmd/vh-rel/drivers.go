package main

import (
	"encoding/json"
	"fmt"
	"math/rand"
	"reflect"
	"strings"
	"time"

	"verifharness/chainsim"
	"verifharness/internal/hx"
)

const warm = 2 // empty warm-up blocks (features active from height 2)

func warmActions() []Action {
	return []Action{{A: "block"}, {A: "block"}}
}

func stakeX(lvl int) map[string]interface{} {
	amt := 2000000
	if lvl == 2 {
		amt = 3000000
	}
	return map[string]interface{}{"kind": "app_stake", "app": "a8", "chains": []interface{}{"0001"}, "amount": float64(amt)}
}

// forgedTx is the forged transaction F of ChainRel: a well-formed send out of a5's account that
// carries a5's public key and a corrupted signature; the fixed id makes every submission
// (CheckTx, simulation, block) the very same bytes.
func forgedTx() map[string]interface{} {
	return map[string]interface{}{"kind": "send", "from": "a5", "to": "a6", "amount": float64(777), "id": float64(7777), "corruptSig": true}
}

// concretize turns a ChainRel behaviour into a node script.  X = a8; each transfer
// moves X to a fresh key (a9, a10, ...).
func concretize(beh []hx.Step, seed int64) Script {
	sc := Script{Seed: seed, Actions: warmActions()}
	nextTarget := 9
	open := false
	for _, st := range beh {
		switch st.Str("a") {
		case "tx":
			open = true
			if st.Str("kind") == "stake" {
				sc.Actions = append(sc.Actions, Action{A: "tx", Txs: []map[string]interface{}{stakeX(st.Int("lvl"))}})
			} else if st.Str("kind") == "forged" {
				sc.Actions = append(sc.Actions, Action{A: "tx", Txs: []map[string]interface{}{forgedTx()}})
			} else {
				tgt := fmt.Sprintf("a%d", nextTarget)
				nextTarget++
				tx := map[string]interface{}{"kind": "app_stake", "app": tgt, "chains": []interface{}{}, "amount": float64(0), "signer": "a8"}
				sc.Actions = append(sc.Actions, Action{A: "tx", Txs: []map[string]interface{}{tx}})
			}
		case "commit":
			open = false
			sc.Actions = append(sc.Actions, Action{A: "commit"})
		case "rpc":
			sc.Actions = append(sc.Actions, Action{A: "rpc", OnlyA: true, Path: "app", Who: "a8", Height: int64(warm + st.Int("h"))})
		case "abci":
			sc.Actions = append(sc.Actions, Action{A: "abci", OnlyA: true, Path: "custom/application/application", Who: "a8", Height: int64(warm + st.Int("h"))})
		case "checktx", "simulate":
			tx := stakeX(st.Int("lvl"))
			if st.Int("lvl") == 0 {
				tx = forgedTx()
			}
			sc.Actions = append(sc.Actions, Action{A: st.Str("a"), OnlyA: true, Tx: tx})
		}
	}
	if open {
		sc.Actions = append(sc.Actions, Action{A: "commit"}) // close the block so its codes and hash are compared
	}
	return sc
}

// compareAB returns the index of the first block where A and B differ (-1 = none) and what differed.
func compareAB(a, b NodeOut) (int, string) {
	if a.Panic != "" || b.Panic != "" {
		return 0, "panic: A=" + a.Panic + " B=" + b.Panic
	}
	for i := range a.Blocks {
		if i >= len(b.Blocks) {
			return i, "B has fewer blocks"
		}
		if !reflect.DeepEqual(a.Blocks[i].Codes, b.Blocks[i].Codes) {
			return i, fmt.Sprintf("result codes differ at height %d: A=%v B=%v", a.Blocks[i].H, a.Blocks[i].Codes, b.Blocks[i].Codes)
		}
		if !reflect.DeepEqual(a.Blocks[i].Data, b.Blocks[i].Data) {
			return i, fmt.Sprintf("result data differ at height %d", a.Blocks[i].H)
		}
		if a.Blocks[i].Hash != b.Blocks[i].Hash {
			return i, fmt.Sprintf("app hash differs at height %d: A=%s B=%s", a.Blocks[i].H, a.Blocks[i].Hash[:12], b.Blocks[i].Hash[:12])
		}
	}
	return -1, ""
}

// offKinds lists the off-chain request kinds a behaviour contains before block index upto.
func offKinds(beh []hx.Step) []string {
	seen := map[string]bool{}
	var out []string
	for _, st := range beh {
		if a := st.Str("a"); a != "tx" && a != "commit" && !seen[a] {
			seen[a] = true
			out = append(out, a)
		}
	}
	return out
}

// replayRel: every TLC behaviour of ChainRel is executed by a real node A (with the
// off-chain requests) and a real node B (without), in separate processes.
func replayRel(in string, shard, of int) {
	rep := hx.NewReport("rel", "replay-rel")
	seen := map[string]bool{}
	predictedDiv, realDiv, overapprox := 0, 0, 0
	var overList, underList []interface{}
	bCache := map[string]NodeOut{} // node B's run depends only on the consensus actions
	err := hx.ReadBehaviours(in, func(idx int, beh []hx.Step) error {
		if idx%of != shard {
			return nil
		}
		rep.Behaviours++
		raw, _ := json.Marshal(beh)
		fresh := !seen[string(raw)]
		seen[string(raw)] = true
		nOff := 0
		modelDiv := false
		for _, st := range beh {
			rep.Steps++
			rep.OpCounts[st.Str("a")]++
			if a := st.Str("a"); a != "tx" && a != "commit" {
				nOff++
			} else if st.Bool("div") {
				modelDiv = true
			}
		}
		if fresh && nOff > 0 {
			rep.Nontrivial++
		}
		sc := concretize(beh, hx.Seed())
		sc.Role = "A"
		a := child(sc)
		sc.Role = "B"
		var cons []Action
		for _, x := range sc.Actions {
			if !x.OnlyA {
				cons = append(cons, x)
			}
		}
		ck, _ := json.Marshal(cons)
		b, ok := bCache[string(ck)]
		if !ok {
			b = child(sc)
			bCache[string(ck)] = b
		}
		at, why := compareAB(a, b)
		if modelDiv {
			predictedDiv++
		}
		if at >= 0 && !modelDiv && len(underList) < 5 {
			underList = append(underList, beh)
		}
		if at >= 0 {
			realDiv++
			// A real divergence between a node that served off-chain requests and one that did not.
			rep.AddMismatch(hx.Mismatch{Behaviour: idx, Step: at - warm, Op: "block", What: why,
				Want: map[string]interface{}{"model_predicts_divergence": modelDiv, "off_chain": offKinds(beh)},
				Got:  a.Off, History: beh})
		} else if modelDiv {
			overapprox++ // the model (transcribing the unrepaired code) predicted a divergence that did not happen
			if len(overList) < 5 {
				overList = append(overList, beh)
			}
		}
		if idx%500 == 1 {
			rep.AddSample(map[string]interface{}{"behaviour": beh, "offA": a.Off})
		}
		return nil
	})
	if err != nil {
		hx.Fatal("%v", err)
	}
	rep.Distinct = len(seen)
	rep.Extra["model_predicted_divergent"] = predictedDiv
	rep.Extra["real_divergent"] = realDiv
	rep.Extra["model_overapprox"] = overapprox
	rep.Extra["overapprox_samples"] = overList
	rep.Extra["unpredicted_samples"] = underList
	// all mismatches are needed by the check (known-finding matching), not just the first five
	rep.Print()
}

// ---------------------------------------------------------------- random scripts

var queryPaths = []string{"custom/application/application", "custom/pos/validator", "custom/auth/account"}
var rpcPaths = []string{"app", "node", "balance", "apps", "nodes"}
var storePaths = []string{"/store/pos/key", "/store/application/key", "/store/auth/key"}

func randomScript(rng *rand.Rand, seed int64, withSim, withAbciOld bool) (Script, []string) {
	sc := Script{Seed: seed, Actions: warmActions()}
	names := []string{"a1", "a2", "a3", "a4", "a5", "a8"}
	kinds := map[string]bool{}
	h := int64(warm)
	nextTarget := 9
	staked := false
	for b := 0; b < 10; b++ {
		// off-chain requests before this block
		for k := rng.Intn(4); k > 0; k-- {
			var a Action
			switch r := rng.Intn(12); {
			case r < 3:
				a = Action{A: "rpc", Path: rpcPaths[rng.Intn(len(rpcPaths))], Who: names[rng.Intn(len(names))], Height: 1 + rng.Int63n(h)}
			case r < 6:
				hh := h
				if withAbciOld {
					hh = 1 + rng.Int63n(h)
				}
				a = Action{A: "abci", Path: queryPaths[rng.Intn(len(queryPaths))], Who: names[rng.Intn(len(names))], Height: hh}
			case r < 8:
				a = Action{A: "store", Path: storePaths[rng.Intn(len(storePaths))], Height: 2 + rng.Int63n(h-1)}
			case r < 9:
				a = Action{A: "checktx", Tx: map[string]interface{}{"kind": "send", "from": "a5", "to": "a6", "amount": float64(1 + rng.Intn(1000))}}
			case r < 10:
				// the forged transaction, by CheckTx or by simulation; it may be in a later block
				a = Action{A: []string{"checktx", "simulate"}[rng.Intn(2)], Tx: forgedTx()}
			case r < 11:
				a = Action{A: "dispatch", Who: "a4", Chain: "0001"}
			default:
				if withSim {
					a = Action{A: "simulate", Tx: map[string]interface{}{"kind": "send", "from": "a5", "to": "a6", "amount": float64(1 + rng.Intn(1000))}}
				} else {
					a = Action{A: "checktx", Tx: stakeX(1)}
				}
			}
			a.OnlyA = true
			kinds[a.A] = true
			if a.A == "abci" && a.Height < h {
				kinds["abci-old"] = true
			}
			sc.Actions = append(sc.Actions, a)
		}
		var txs []map[string]interface{}
		for k := rng.Intn(3); k > 0; k-- {
			switch rng.Intn(6) {
			case 5:
				txs = append(txs, forgedTx())
			case 0, 1:
				txs = append(txs, map[string]interface{}{"kind": "send", "from": "a5", "to": names[rng.Intn(len(names))], "amount": float64(1 + rng.Intn(5000))})
			case 2:
				txs = append(txs, stakeX(1+rng.Intn(2)))
				staked = true
			case 3:
				if staked && nextTarget <= 13 {
					txs = append(txs, map[string]interface{}{"kind": "app_stake", "app": fmt.Sprintf("a%d", nextTarget), "chains": []interface{}{}, "amount": float64(0), "signer": "a8"})
					nextTarget++
					staked = false
				}
			default:
				txs = append(txs, map[string]interface{}{"kind": "node_stake", "node": "a3", "chains": []interface{}{"0001"}, "amount": float64(2000000 + 1000000*rng.Intn(2)), "output": "a6"})
			}
		}
		sc.Actions = append(sc.Actions, Action{A: "block", Txs: txs})
		h++
	}
	var ks []string
	for k := range kinds {
		ks = append(ks, k)
	}
	return sc, ks
}

// sessionScript: the session cache path of C13.  Only a2 is staked for chain 0002 and the
// genesis application a4 is staked for 0001 and 0002, so with one node per session the
// session of (a4, 0002) is {a2}.  Node A serves a dispatch for that session (which caches
// it); then a2's record changes inside the session (edit-stake that drops / keeps the
// chain, stake bump, jail by absence); after the session has ended a2 claims it.  The
// claim needs no valid Merkle root to reach the session-membership check.
func sessionScript(rng *rand.Rand, seed int64, variant int) (Script, []string) {
	sc := Script{Seed: seed, Actions: warmActions()}
	kinds := []string{"dispatch"}
	// session 2 = heights 5..8 (blocks per session 4); we are at height 2
	for h := 3; h <= 4; h++ {
		sc.Actions = append(sc.Actions, Action{A: "block"})
	}
	// variant 0..7 enumerates (change kind x dispatch timing); larger values are random
	dispatchAt := 5 + rng.Intn(2) // before or after the first block of the session
	changeAt := 6 + rng.Intn(2)
	change := rng.Intn(4)
	if variant >= 0 && variant < 8 {
		change = variant % 4
		dispatchAt = 5 + variant/4
	}
	for h := 5; h <= 8; h++ {
		if h == dispatchAt {
			sc.Actions = append(sc.Actions, Action{A: "dispatch", OnlyA: true, Who: "a4", Chain: "0002"})
		}
		var txs []map[string]interface{}
		if h == changeAt {
			switch change {
			case 0: // drop the session's chain
				txs = append(txs, map[string]interface{}{"kind": "node_stake", "node": "a2", "chains": []interface{}{"0001"}, "amount": float64(3000000), "output": "a2"})
				kinds = append(kinds, "edit-drops-chain")
			case 1: // keep the chains, bump the stake
				txs = append(txs, map[string]interface{}{"kind": "node_stake", "node": "a2", "chains": []interface{}{"0001", "0002"}, "amount": float64(4000000), "output": "a2"})
				kinds = append(kinds, "edit-bump")
			case 2: // swap the other chain
				txs = append(txs, map[string]interface{}{"kind": "node_stake", "node": "a2", "chains": []interface{}{"0002", "0003"}, "amount": float64(3000000), "output": "a2"})
				kinds = append(kinds, "edit-swaps-other-chain")
			default: // begin unstaking
				txs = append(txs, map[string]interface{}{"kind": "node_unstake", "node": "a2", "signer": "a2"})
				kinds = append(kinds, "unstake")
			}
		}
		sc.Actions = append(sc.Actions, Action{A: "block", Txs: txs})
		if h == dispatchAt && rng.Intn(2) == 0 {
			sc.Actions = append(sc.Actions, Action{A: "dispatch", OnlyA: true, Who: "a4", Chain: "0002"})
		}
	}
	// session ended at 8; claims are accepted from 9 to S + W*B = 13; later ones must be refused
	// by every node, whether or not it has the session cached
	claimAt := 9 + rng.Intn(8)
	if variant >= 0 && variant < 8 && variant%2 == 1 {
		claimAt = 14 + rng.Intn(3)
	}
	for h := 9; h <= 17; h++ {
		var txs []map[string]interface{}
		if h == claimAt {
			txs = append(txs, map[string]interface{}{"kind": "claim", "node": "a2", "app": "a4", "chain": "0002", "sessionHeight": float64(5), "total": float64(5 + rng.Intn(20))})
		}
		sc.Actions = append(sc.Actions, Action{A: "block", Txs: txs})
	}
	return sc, kinds
}

// randomRel records, per random scenario, one event per block: whether node A (served
// off-chain requests) and node B (did not) agree, plus the kinds of requests A served.
func randomRel(out string, n int) {
	tw, err := hx.NewTraceWriter(out)
	if err != nil {
		hx.Fatal("%v", err)
	}
	rep := hx.NewReport("rel", "random-rel")
	for t := 0; t < n; t++ {
		rng := hx.Rng(int64(t) + 99)
		// a third of the scenarios avoid the request kinds with known findings, so that
		// everything else is judged on its own
		// the first eight scenarios are the session-cache family (every change kind x dispatch
		// timing), then random ones
		var sc Script
		var kinds []string
		if t < 8 {
			sc, kinds = sessionScript(rng, hx.Seed()*100+int64(t), t)
		} else {
			sc, kinds = randomScript(rng, hx.Seed()*100+int64(t), t%3 == 0, t%3 == 1)
		}
		sc.Role = "A"
		a := child(sc)
		sc.Role = "B"
		b := child(sc)
		at, why := compareAB(a, b)
		tw.Emit(map[string]interface{}{"ev": "scenario", "id": t, "kinds": kinds, "blocks": len(a.Blocks)})
		for i := range a.Blocks {
			same := at < 0 || i < at
			ev := map[string]interface{}{"ev": "block", "id": t, "i": i, "same": same, "kinds": kinds}
			if !same && i == at {
				ev["why"] = why
			}
			tw.Emit(ev)
			rep.Steps++
		}
		if at >= 0 {
			rep.AddMismatch(hx.Mismatch{Behaviour: t, Step: at, Op: "block", What: why, Want: kinds, Got: a.Off, History: sc})
		}
		if len(kinds) > 0 {
			rep.Nontrivial++
		}
		rep.Behaviours++
		if t < 2 {
			rep.AddSample(sc.Actions)
		}
	}
	_ = tw.Close()
	rep.Distinct = rep.Behaviours
	rep.Extra["events"] = tw.N
	rep.Print()
}

// ---------------------------------------------------------------- C12 determinism

// detDelegators: twelve reward-delegator accounts that do not exist yet.  The payout creates
// one account per delegator; with few delegators the IAVL tree often ends up the same whatever
// the creation order, with twelve nearly every order gives another root hash.
func detDelegatorNames() []string {
	var out []string
	for i := 15; i <= 26; i++ {
		out = append(out, fmt.Sprintf("a%d", i))
	}
	return out
}

func detDelegators() map[string]interface{} {
	m := map[string]interface{}{}
	for i, n := range detDelegatorNames() {
		m[n] = float64(3 + i%5)
	}
	return m
}

func determinismScript(rng *rand.Rand, seed int64) Script {
	sc := Script{Seed: seed, Actions: warmActions()}
	// a node staked by transaction with several NEW reward-delegator accounts (map iteration order)
	sc.Actions = append(sc.Actions, Action{A: "block", Txs: []map[string]interface{}{
		{"kind": "node_stake", "node": "a3", "chains": []interface{}{"0001"}, "amount": float64(6000000), "output": "a6",
			"delegators": detDelegators()}}})
	// the upgrade owner (a1) schedules features; several of them share an activation height (the stored
	// list is merged through a map), in two transactions so that the merge with stored features runs too
	sc.Actions = append(sc.Actions, Action{A: "block", Txs: []map[string]interface{}{
		{"kind": "upgrade", "from": "a1", "height": float64(1), "version": "FEATURE",
			"features": []interface{}{"F1:40", "F2:40", "F3:40", "F4:41", "F5:40", "F6:40"}}}})
	sc.Actions = append(sc.Actions, Action{A: "block", Txs: []map[string]interface{}{
		{"kind": "upgrade", "from": "a1", "height": float64(1), "version": "FEATURE",
			"features": []interface{}{"F7:40", "F8:50", "F9:40", "F2:45"}}}})
	names := []string{"a1", "a2", "a3", "a4", "a5", "a8"}
	for b := 0; b < 12; b++ {
		var txs []map[string]interface{}
		for k := 1 + rng.Intn(3); k > 0; k-- {
			switch rng.Intn(4) {
			case 0:
				txs = append(txs, stakeX(1+rng.Intn(2)))
			default:
				txs = append(txs, map[string]interface{}{"kind": "send", "from": "a5", "to": names[rng.Intn(len(names))], "amount": float64(1 + rng.Intn(5000))})
			}
		}
		// a3 (output a6, twelve delegator accounts that do not exist yet) proposes: the fees of
		// this block are paid out to its delegators at the next BeginBlock
		sc.Actions = append(sc.Actions, Action{A: "block", Txs: txs, Proposer: "a3"})
	}
	return sc
}

// unjailScript: a validator is jailed for missing blocks... is covered by the nodes module;
// here the wall-clock scenario only needs an unjail attempt whose JailedUntil lies between
// two wall-clock instants.  The chain's genesis time is set so that block times are
// "now"; run 1 executes immediately, run 2 sleeps before the unjail block.
func determinism(out string, n, runs int) {
	tw, err := hx.NewTraceWriter(out)
	if err != nil {
		hx.Fatal("%v", err)
	}
	rep := hx.NewReport("rel", "determinism")
	for t := 0; t < n; t++ {
		rng := hx.Rng(int64(t) + 555)
		sc := determinismScript(rng, hx.Seed()*100+int64(t))
		sc.Role = "B"
		var first NodeOut
		tw.Emit(map[string]interface{}{"ev": "scenario", "id": t, "runs": runs})
		for r := 0; r < runs; r++ {
			o := child(sc)
			if r == 0 {
				first = o
				paid := map[string]int64{}
				for _, d := range append(detDelegatorNames(), "a6") {
					paid[d] = o.Final.Bal[d]
				}
				tw.Emit(map[string]interface{}{"ev": "info", "id": t, "delegator_and_output_balances": paid, "a3": o.Final.Val["a3"], "tmSet": o.Final.TmSet,
					"codes": lastCodes(o), "upgrade": o.Final.Upgrade})
				continue
			}
			at, why := compareAB(first, o)
			ev := map[string]interface{}{"ev": "run", "id": t, "run": r, "same": at < 0, "kind": "repeat"}
			if at >= 0 {
				ev["why"] = why
				rep.AddMismatch(hx.Mismatch{Behaviour: t, Step: at, Op: "repeat-run", What: why, History: sc})
			}
			tw.Emit(ev)
			rep.Steps++
		}
		rep.Behaviours++
		rep.Nontrivial++
		if t == 0 {
			rep.AddSample(sc.Actions)
		}
	}
	// wall-clock scenario (once per invocation): see wallClock()
	wc := wallClock()
	tw.Emit(wc)
	if same, _ := wc["same"].(bool); !same {
		rep.AddMismatch(hx.Mismatch{Behaviour: -1, Op: "wall-clock", What: fmt.Sprint(wc["why"]), History: wc["script"]})
	}
	rep.Steps++
	_ = tw.Close()
	rep.Distinct = rep.Behaviours
	rep.Extra["events"] = tw.N
	rep.Print()
}

// wallClock: identical chain data executed promptly and with a pause.  The validator a1
// stops signing, gets jailed with JailedUntil = blockTime + DowntimeJailDuration; block
// times are arranged so that JailedUntil is a few seconds after the moment the prompt run
// reaches the unjail block; the delayed run sleeps past it.  Both runs see the same
// block timestamps (>= JailedUntil), so the outcome must be the same.
func wallClock() map[string]interface{} {
	build := func(t0 int64, sleepMs int) Script {
		sc := Script{Seed: hx.Seed(), T0Unix: t0, Role: "B", Actions: warmActions()}
		for i := 0; i < 8; i++ {
			sc.Actions = append(sc.Actions, Action{A: "block", Absent: []string{"a1"}})
		}
		sc.Actions = append(sc.Actions, Action{A: "sleep", Ms: sleepMs})
		// the unjail block's timestamp is 10 minutes ahead of schedule: block time > JailedUntil
		sc.Actions = append(sc.Actions, Action{A: "block", TimeOffsetSec: 600, Txs: []map[string]interface{}{
			{"kind": "node_unjail", "node": "a1", "signer": "a1", "id": float64(77)}}})
		sc.Actions = append(sc.Actions, Action{A: "block", TimeOffsetSec: 600})
		return sc
	}
	// dry run (chain time far in the past) to learn when a1's jail period ends, in block intervals
	dry := build(chainsim.T0.Unix(), 0)
	dry.Actions = dry.Actions[:len(dry.Actions)-3]
	d := child(dry)
	ju := d.Final.Signing["a1"].JailedUntil
	ev := map[string]interface{}{"ev": "run", "id": -1, "run": 1, "kind": "wall-clock", "jailedUntilIdx": ju}
	if d.Panic != "" || ju == 0 || !d.Final.Val["a1"].Jailed {
		ev["same"] = true
		ev["skipped"] = "a1 was not jailed in the dry run: " + d.Panic
		return ev
	}
	// genesis time such that JailedUntil = now + 7 s
	t0 := time.Now().UTC().Truncate(time.Second).Add(7*time.Second - time.Duration(ju)*chainsim.BlockInterval)
	prompt := child(build(t0.Unix(), 0))
	late := child(build(t0.Unix(), 12000))
	at, why := compareAB(prompt, late)
	ev["same"] = at < 0
	ev["script"] = build(t0.Unix(), 0).Actions
	if at >= 0 {
		ev["why"] = why
	}
	ev["prompt_codes"] = lastCodes(prompt)
	ev["delayed_codes"] = lastCodes(late)
	return ev
}

func lastCodes(o NodeOut) []string {
	var out []string
	for _, b := range o.Blocks {
		out = append(out, b.Codes...)
	}
	return out
}

// ---------------------------------------------------------------- C43 export / import

func exportImport(out string, n int) {
	tw, err := hx.NewTraceWriter(out)
	if err != nil {
		hx.Fatal("%v", err)
	}
	rep := hx.NewReport("rel", "export-import")
	for t := 0; t < n; t++ {
		rng := hx.Rng(int64(t) + 777)
		sc, _ := randomScript(rng, hx.Seed()*100+int64(t), false, false)
		// every other pair of scenarios exports while claims of two different servicers are pending
		pending := (t/4)%2 == 1
		if pending {
			sc = claimsScript(rng, hx.Seed()*100+int64(t))
		}
		// four scenario shapes: with / without the features that add governance parameters,
		// with / without unstaking records at export time
		sc.NoParamFeatures = t%2 == 0
		unstaking := (t/2)%2 == 0
		if unstaking {
			sc.Actions = append(sc.Actions, Action{A: "block", Txs: []map[string]interface{}{{"kind": "app_unstake", "app": "a4"}}})
			sc.Actions = append(sc.Actions, Action{A: "block", Txs: []map[string]interface{}{{"kind": "node_unstake", "node": "a2", "signer": "a2"}}})
		}
		for i := 0; i < 3; i++ {
			sc.Actions = append(sc.Actions, Action{A: "block"})
		}
		sc.Role = "B"
		nblocks := 0
		for _, a := range sc.Actions {
			if a.A == "block" {
				nblocks++
			}
		}
		sc.Export = int64(nblocks - rng.Intn(2))
		src := child(sc)
		ev := map[string]interface{}{"ev": "export", "id": t, "height": sc.Export, "noParamFeatures": sc.NoParamFeatures, "unstaking": unstaking, "pendingClaims": pending,
			"expClaims": append([]chainsim.ClaimState{}, src.ExpClaims...)}
		if src.Panic != "" || src.AtExport == nil {
			ev["ok"] = false
			ev["why"] = "export failed: " + src.Panic
			ev["reason"] = "export-failed"
			ev["src"] = map[string]interface{}{}
			ev["dst"] = map[string]interface{}{}
			tw.Emit(ev)
			rep.AddMismatch(hx.Mismatch{Behaviour: t, Op: "export", What: src.Panic, History: sc})
			rep.Behaviours++
			continue
		}
		imp := Script{Seed: sc.Seed, Role: "B", Import: src.Export, NoParamFeatures: sc.NoParamFeatures}
		dst := child(imp)
		ev["ok"] = dst.Panic == ""
		ev["reason"] = ""
		if dst.Panic != "" {
			ev["why"] = "import failed: " + tail(dst.Panic, 500)
			// label the abort by the message the application logged before exiting
			switch {
			case strings.Contains(dst.Panic, "module account total does not equal the amount in each"):
				ev["reason"] = "pool-mismatch"
			case strings.Contains(dst.Panic, "invalid ACL") && strings.Contains(dst.Panic, "not a recognized parameter"):
				ev["reason"] = "acl-unknown-param"
			default:
				ev["reason"] = "other"
			}
		}
		ev["src"] = exportView(*src.AtExport)
		if dst.Panic == "" {
			ev["dst"] = exportView(dst.Final)
		} else {
			ev["dst"] = map[string]interface{}{}
		}
		tw.Emit(ev)
		rep.Steps++
		rep.Behaviours++
		rep.Nontrivial++
		if t == 0 {
			rep.AddSample(map[string]interface{}{"script": sc.Actions, "export_height": sc.Export})
		}
	}
	_ = tw.Close()
	rep.Distinct = rep.Behaviours
	rep.Extra["events"] = tw.N
	rep.Print()
}

// claimsScript: a chain on which two different servicers hold a pending claim.  a2 drops chain
// 0001 before session 2 (heights 5..8) starts, so that a1 is the only node of the 0001 session
// and a2 the only node of the 0002 session; both claim once the session is over.
func claimsScript(rng *rand.Rand, seed int64) Script {
	sc := Script{Seed: seed, Actions: warmActions()}
	sc.Actions = append(sc.Actions, Action{A: "block", Txs: []map[string]interface{}{
		{"kind": "node_stake", "node": "a2", "chains": []interface{}{"0002"}, "amount": float64(3000000), "output": "a2"}}})
	for h := 4; h <= 8; h++ {
		var txs []map[string]interface{}
		if rng.Intn(2) == 0 {
			txs = append(txs, map[string]interface{}{"kind": "send", "from": "a5", "to": "a8", "amount": float64(1 + rng.Intn(5000))})
		}
		sc.Actions = append(sc.Actions, Action{A: "block", Txs: txs})
	}
	sc.Actions = append(sc.Actions, Action{A: "block", Txs: []map[string]interface{}{
		{"kind": "claim", "node": "a1", "app": "a4", "chain": "0001", "sessionHeight": float64(5), "total": float64(5 + rng.Intn(20))},
		{"kind": "claim", "node": "a2", "app": "a4", "chain": "0002", "sessionHeight": float64(5), "total": float64(5 + rng.Intn(20))}}})
	return sc
}

// exportView is the part of the projection C43 talks about.
func exportView(st chainsim.State) map[string]interface{} {
	b, _ := json.Marshal(st)
	var m map[string]interface{}
	_ = json.Unmarshal(b, &m)
	keep := map[string]interface{}{}
	for _, k := range []string{"bal", "supply", "val", "app", "claims", "nodeParams", "appParams", "pcParams", "acl", "daoOwner", "upgrade"} {
		keep[k] = m[k]
	}
	return keep
}
