// vh-chain-claims: chain module `claims` (x/pocketcore MsgClaim / MsgProof) driven through
// ABCI by harness/chainsim with REAL off-chain evidence (AATs, signed relay proofs,
// Merkle-sum-index roots and proofs produced by the real library functions).
package main

import (
	"flag"
	"fmt"
	"os"
)

func main() {
	if len(os.Args) < 2 {
		fmt.Fprintln(os.Stderr, "usage: vh-chain-claims <cmd>")
		os.Exit(2)
	}
	fs := flag.NewFlagSet(os.Args[1], flag.ExitOnError)
	out := fs.String("out", "", "output file")
	in := fs.String("in", "", "behaviour file")
	n := fs.Int("n", 4, "number of random traces")
	blocks := fs.Int("blocks", 40, "blocks per random trace")
	shard := fs.Int("shard", 0, "shard index")
	of := fs.Int("of", 1, "number of shards")
	cases := fs.Int("cases", 2000, "number of cases")
	both := fs.Bool("both", false, "replay every behaviour with and without off-chain dispatches")
	_ = fs.Parse(os.Args[2:])
	switch os.Args[1] {
	case "init-state":
		initState(*out)
	case "replay-claims":
		replayClaims(*in, *shard, *of, *both)
	case "replay-timing":
		replayTiming(*in, *out, *shard, *of)
	case "trace-claims":
		traceClaims(*out, *n, *blocks)
	case "index-fn":
		indexFn(*out, *cases)
	default:
		fmt.Fprintln(os.Stderr, "unknown command", os.Args[1])
		os.Exit(2)
	}
}
