package main

import (
	"encoding/json"
	"fmt"
	"os"

	sdk "github.com/pokt-network/pocket-core/types"
	pc "github.com/pokt-network/pocket-core/x/pocketcore/types"

	"verifharness/chainsim"
)

// smoke: development aid - one session, claim, proof; prints what the real chain says.
func smoke() {
	p := chainParams{B: 4, W: 2, Exp: 3}
	s := newSim(claimsConfig(1, p))
	b := newEvBook(s)
	say := func(f string, a ...interface{}) { fmt.Fprintf(os.Stderr, f+"\n", a...) }
	S := int64(5)
	for s.Height < S+p.B-1 {
		block(s)
	}
	{
		nk := s.App.VerifNodesKeeper()
		ctx := s.Ctx()
		for _, st := range []int64{1200000, 2500000, 3000000, 4700000, 9000000} {
			a, f := nk.CalculateRelayReward(ctx, "0001", sdk.NewInt(5), sdk.NewInt(st))
			say("reward stake=%d relays=5 -> node %s fee %s", st, a, f)
		}
		say("params: mult %s floor %s ceil %s exp %s wmult %s", nk.RelaysToTokensMultiplier(ctx), nk.ServicerStakeFloorMultiplier(ctx), nk.ServicerStakeWeightCeiling(ctx), nk.ServicerStakeFloorMultiplierExponent(ctx), nk.ServicerStakeWeightMultiplier(ctx))
	}
	ev := b.get(evKey{Node: kNode1, App: kApp1, Chain: "0001", SessionH: S, N: 5, Ev: 1, Cheat: -1})
	ent := int64(1)
	deliver := func(msg sdk.ProtoMsg, signer int) {
		ent++
		tx := s.SignTx(msg, chainsim.TxOpts{Signer: s.Keys[signer], Fee: 10000, Entropy: ent})
		r := s.DeliverTx(tx)
		say("  h=%d %T -> %s %.200s", s.Height, msg, classOf(r), r.Log)
	}
	// early claim is not possible any more (session ended); claim now
	begin(s)
	deliver(ev.claimMsg(s, 5), kNode1)
	deliver(ev.claimMsg(s, 5), kNode1) // duplicate (different bytes)
	f, _ := projectFocus(s, b, false)
	jb, _ := json.Marshal(f.Claims)
	say("claims: %s", jb)
	s.EndBlock()
	s.Commit()
	hdr := pc.SessionHeader{ApplicationPubKey: s.Keys[kApp1].PublicKey().RawString(), Chain: "0001", SessionBlockHeight: S}
	for s.Height < S+p.W*p.B+2 {
		begin(s)
		e := S + p.W*p.B - 1
		ia := indexAt(s, hdr, 5, []int64{e - 1, e, e + 1})
		say("h=%d idxAt=%v", s.Height, ia)
		if idx, ok := ia[fmt.Sprintf("%d", e)]; ok {
			before, _ := projectFocus(s, b, false)
			deliver(ev.proofMsg(b, int((idx+1)%5), int((idx+1)%5), false, 0), kNode1)
			deliver(ev.proofMsg(b, int(idx), int(idx), true, 0), kNode1)
			deliver(ev.proofMsg(b, int(idx), int(idx), false, 0), kNode1)
			deliver(ev.proofMsg(b, int(idx), int(idx), false, 0), kNode1)
			after, _ := projectFocus(s, b, false)
			say("   supply %d -> %d, a1 %d -> %d fee %d -> %d claims %d", before.Supply, after.Supply, before.Bal["a1"], after.Bal["a1"],
				before.Bal["fee_collector"], after.Bal["fee_collector"], len(after.Claims))
		} else {
			deliver(ev.proofMsg(b, 0, 0, false, 0), kNode1)
		}
		s.EndBlock()
		s.Commit()
	}
}

// smoke2: boundary height S+W*B: predicted index, cheat evidence, claim+proof twice in one block.
func smoke2() {
	p := chainParams{B: 4, W: 2, Exp: 3}
	s := newSim(claimsConfig(1, p))
	b := newEvBook(s)
	say := func(f string, a ...interface{}) { fmt.Fprintf(os.Stderr, f+"\n", a...) }
	S := int64(5)
	c := S + p.W*p.B
	for s.Height < c-1 {
		block(s)
	}
	hdr := pc.SessionHeader{ApplicationPubKey: s.Keys[kApp1].PublicKey().RawString(), Chain: "0001", SessionBlockHeight: S}
	pred := indexFromHash(hashOfBlock(s, c-1), hdr, 9)
	say("committed height %d; predicted index for total 9 from block %d = %d", s.Height, c-1, pred)
	ev := b.get(evKey{Node: kNode1, App: kApp1, Chain: "0001", SessionH: S, N: 9, Ev: 1, Cheat: int(pred)})
	ent := int64(1)
	deliver := func(msg sdk.ProtoMsg, signer int) {
		ent++
		tx := s.SignTx(msg, chainsim.TxOpts{Signer: s.Keys[signer], Fee: 10000, Entropy: ent})
		r := s.DeliverTx(tx)
		f, _ := projectFocus(s, b, false)
		say("  h=%d %T -> %s supply=%d a1=%d claims=%d", s.Height, msg, classOf(r), f.Supply, f.Bal["a1"], len(f.Claims))
	}
	begin(s)
	deliver(ev.claimMsg(s, 9), kNode1)
	deliver(ev.proofMsg(b, int(pred), int(pred), false, 0), kNode1)
	deliver(ev.claimMsg(s, 9), kNode1)
	deliver(ev.proofMsg(b, int(pred), int(pred), false, 0), kNode1)
	s.EndBlock()
	s.Commit()
	begin(s)
	deliver(ev.claimMsg(s, 9), kNode1)
	s.EndBlock()
	s.Commit()
}

