package main

import (
	"crypto/sha256"
	"encoding/binary"
	"fmt"
	"sort"

	pc "github.com/pokt-network/pocket-core/x/pocketcore/types"

	"verifharness/internal/hx"
)

type timingCase struct {
	idx int
	c   hx.Step
}

// replayTiming replays the cases of MCChainClaimsTiming: for every (B, W) the application
// accepts at genesis, ONE chain built with those parameters; at every height ch of a case a
// claim for the case's session is delivered; the real accept / reject decision must be the
// specification's.  For every accepted claim whose entropy block is already committed
// (boundary cases) the leaf index is predicted from the committed block BEFORE the claim
// is authored and a proof with exactly that index is delivered: it is paid iff the
// prediction is the index the chain enforces.
func replayTiming(in, out string, shard, of int) {
	rep := hx.NewReport("chain-claims", "replay-timing")
	groups := map[[3]int64][]timingCase{}
	modelOnly, others := 0, 0
	err := hx.ReadBehaviours(in, func(idx int, beh []hx.Step) error {
		for _, c := range beh {
			B, W := int64(c.Int("B")), int64(c.Int("W"))
			if B < 2 || W < 2 {
				modelOnly++ // rejected by genesis validation: cannot exist on a real chain
				continue
			}
			k := [3]int64{B, W, 0}
			if c.Bool("disp") {
				k[2] = 1 // the node serves dispatches: every session is in its cache when the claim arrives
			}
			groups[k] = append(groups[k], timingCase{idx, c})
		}
		return nil
	})
	if err != nil {
		hx.Fatal("%v", err)
	}
	keys := make([][3]int64, 0, len(groups))
	for k := range groups {
		keys = append(keys, k)
	}
	sort.Slice(keys, func(i, j int) bool { return keys[i][0]*1000+keys[i][1]*10+keys[i][2] < keys[j][0]*1000+keys[j][1]*10+keys[j][2] })
	var confirmations []interface{}
	for gi, k := range keys {
		if gi%of != shard {
			continue
		}
		cases := groups[k]
		sort.SliceStable(cases, func(i, j int) bool { return cases[i].c.Int("ch") < cases[j].c.Int("ch") })
		p := chainParams{B: k[0], W: k[1], Exp: k[1] + 1}
		disp := k[2] == 1
		s := newSim(claimsConfig(hx.Seed(), p))
		b := newEvBook(s)
		ent := int64(5000)
		ci := 0
		for ci < len(cases) {
			ch := int64(cases[ci].c.Int("ch"))
			for s.Height < ch-1 {
				blockD(s, disp)
			}
			// block ch-1 is committed and block ch does not exist: whatever is computed here is
			// known to everybody who authors a transaction for block ch
			type pending struct {
				tc   timingCase
				pred int64
				have bool
			}
			var todo []pending
			for ; ci < len(cases) && int64(cases[ci].c.Int("ch")) == ch; ci++ {
				tc := cases[ci]
				pd := pending{tc: tc}
				if bh := hashOfBlock(s, int64(tc.c.Int("entropyH"))); bh != nil {
					hdr := pc.SessionHeader{ApplicationPubKey: s.Keys[kApp1].PublicKey().RawString(), Chain: "0001", SessionBlockHeight: int64(tc.c.Int("S"))}
					pd.pred, pd.have = indexFromHash(bh, hdr, 5), true
				}
				todo = append(todo, pd)
			}
			begin(s)
			for _, pd := range todo {
				tc := pd.tc
				S := int64(tc.c.Int("S"))
				rep.Behaviours++
				rep.Steps++
				ev := b.get(evKey{Node: kNode1, App: kApp1, Chain: "0001", SessionH: S, N: 5, Ev: 1, Cheat: -1})
				ent++
				res := s.DeliverTx(s.SignTx(ev.claimMsg(s, 5), txo(s, kNode1, ent)))
				accepted := res.Code == 0
				rep.OpCounts[fmt.Sprintf("claim accepted=%v known=%v dispatched=%v", accepted, pd.have, disp)]++
				if accepted != tc.c.Bool("accepted") {
					// C31 is contradicted only by an ACCEPTED claim whose selecting block is already
					// committed; other disagreements (start of the window) are C32's and only counted
					if accepted && pd.have {
						rep.AddMismatch(hx.Mismatch{Behaviour: tc.idx, Op: "claim", What: fmt.Sprintf("claim for session %d accepted at height %d (B=%d W=%d) although block %d, whose hash selects the leaf, is already committed",
							S, ch, k[0], k[1], tc.c.Int("entropyH")), Want: tc.c.Bool("accepted"), Got: classOf(res), History: []hx.Step{tc.c}, Variant: fmt.Sprintf("dispatched=%v", disp)})
					} else {
						others++
					}
					continue
				}
				if accepted {
					rep.Nontrivial++
				}
				if accepted && pd.have && (pd.pred < 0 || pd.pred >= 5) {
					rep.AddMismatch(hx.Mismatch{Behaviour: tc.idx, Op: "index", What: "selected leaf index outside the claimed relay count", Want: "0..4", Got: pd.pred, History: []hx.Step{tc.c}})
					continue
				}
				if accepted && pd.have {
					// the selecting block was committed before this claim was authored
					ent++
					r2 := s.DeliverTx(s.SignTx(ev.proofMsg(b, int(pd.pred), int(pd.pred), false, 0), txo(s, kNode1, ent)))
					rep.Steps++
					conf := map[string]interface{}{"B": k[0], "W": k[1], "dispatched": disp, "sessionH": S, "claimHeight": ch, "entropyHeight": tc.c.Int("entropyH"),
						"lastAcceptedHeight": S + k[1]*k[0], "predictedIndex": pd.pred, "proofWithPredictedIndex": classOf(r2), "specBoundary": tc.c.Bool("boundary")}
					confirmations = append(confirmations, conf)
					if r2.Code == 0 && !tc.c.Bool("boundary") {
						rep.AddMismatch(hx.Mismatch{Behaviour: tc.idx, Op: "predict", What: "leaf index predictable at an accepted claim height other than the known boundary",
							Want: "unknown", Got: conf, History: []hx.Step{tc.c}})
					}
				}
			}
			s.EndBlock()
			s.Commit()
			if disp {
				dispatchAll(s)
			}
		}
	}
	rep.Distinct = rep.Behaviours
	rep.Extra["model_only_cases"] = modelOnly
	rep.Extra["other_disagreements"] = others
	rep.Extra["chains"] = len(keys)
	rep.Extra["boundary"] = confirmations
	rep.Print()
}

// indexFn evaluates the leaf-selection function with the real library code over many
// (block hash, session header, total) triples, each at least twice and in a different
// order, and logs the results for TraceChainClaims (range and determinism).
func indexFn(out string, cases int) {
	tw, err := hx.NewTraceWriter(out)
	if err != nil {
		hx.Fatal("%v", err)
	}
	rep := hx.NewReport("chain-claims", "index-fn")
	rng := hx.Rng(77)
	type key struct {
		h     [32]byte
		hdr   pc.SessionHeader
		total int64
	}
	var ks []key
	first := map[int]int64{}
	apps := []string{}
	for i := 0; i < 8; i++ {
		var sd [8]byte
		binary.BigEndian.PutUint64(sd[:], uint64(hx.Seed()*100+int64(i)))
		hh := sha256.Sum256(sd[:])
		apps = append(apps, fmt.Sprintf("%x", hh[:]))
	}
	totals := []int64{1, 2, 5, 6, 7, 8, 9, 16, 17, 100, 1000, 1001, 65537, 2000000000}
	for i := 0; i < cases; i++ {
		var k key
		rng.Read(k.h[:])
		if i%7 == 0 && i > 0 {
			k.h = ks[rng.Intn(len(ks))].h // same hash, other header / total
		}
		k.hdr = pc.SessionHeader{ApplicationPubKey: apps[rng.Intn(len(apps))], Chain: fmt.Sprintf("%04x", rng.Intn(4)+1), SessionBlockHeight: int64(1 + rng.Intn(50))}
		k.total = totals[rng.Intn(len(totals))]
		if rng.Intn(3) == 0 {
			k.total = 1 + rng.Int63n(5000)
		}
		ks = append(ks, k)
		first[i] = indexFromHash(k.h[:], k.hdr, k.total)
	}
	hist := map[int64]int{}
	for _, i := range rng.Perm(cases) { // re-evaluate in another order
		k := ks[i]
		a := indexFromHash(k.h[:], k.hdr, k.total)
		bb := indexFromHash(append([]byte{}, k.h[:]...), pc.SessionHeader{ApplicationPubKey: k.hdr.ApplicationPubKey, Chain: k.hdr.Chain, SessionBlockHeight: k.hdr.SessionBlockHeight}, k.total)
		tw.Emit(map[string]interface{}{"ev": "index", "case": i, "total": k.total, "idx": a, "again": bb, "first": first[i]})
		rep.Steps++
		if k.total == 5 {
			hist[a]++
		}
	}
	if err := tw.Close(); err != nil {
		hx.Fatal("%v", err)
	}
	rep.Behaviours = cases
	rep.Nontrivial = cases
	rep.Extra["events"] = tw.N
	rep.Extra["spread_total5"] = fmt.Sprint(hist)
	rep.Print()
}
