package main

import (
	"crypto/sha256"
	"encoding/hex"
	"encoding/json"
	"fmt"

	"github.com/pokt-network/pocket-core/codec"
	sdk "github.com/pokt-network/pocket-core/types"
	nodesTypes "github.com/pokt-network/pocket-core/x/nodes/types"
	pc "github.com/pokt-network/pocket-core/x/pocketcore/types"
	abci "github.com/tendermint/tendermint/abci/types"

	"verifharness/chainsim"
	"verifharness/internal/hx"
)

// Key indexes of the claims economy (names a1.. = index+1):
//
//	a1 a2   nodes staked for chain 0001 (a2 also 0002)      -> the session of chain 0001
//	a3      node staked for chain 0002 only                  -> never in a 0001 session
//	a4      application staked for chain 0001
//	a5      application staked for chain 0002 (its session has a2 and a3)
//	a6 a7   funded accounts, neither node nor application
//	a8      DAO owner; a10 gateway client (signs relays), a11.. spare
const (
	kNode1, kNode2, kNode3 = 0, 1, 2
	kApp1, kApp2           = 3, 4
	kUser1, kUser2         = 5, 6
	kOwner                 = 7
)

// chainParams are the consensus parameters a scenario varies.
type chainParams struct {
	B, W, Exp int64 // blocks per session, claim submission window, claim expiration (sessions)
	NodeCount int64 // session node count
	RSCAL     bool  // stake-weighted rewards (PIP-22) active from height 2
}

// featuresOf: every feature active from height 2, except RSCAL unless asked for.  At its
// activation height RSCAL resets the stake-weight parameters to the main-net defaults
// (15 000 POKT bins), which makes every reward of the small-number economy zero; the
// main configuration therefore keeps it off (reward = multiplier x relays).
func featuresOf(p chainParams) map[string]int64 {
	m := chainsim.DefaultFeatures()
	if !p.RSCAL {
		delete(m, codec.RSCALKey)
	}
	return m
}

func claimsConfig(seed int64, p chainParams) chainsim.Config {
	if p.NodeCount == 0 {
		p.NodeCount = 2
	}
	return chainsim.Config{Seed: seed, NKeys: 12,
		Balances: map[int]int64{kNode1: 30000000, kNode2: 30000000, kNode3: 30000000, kApp1: 20000000, kApp2: 20000000,
			kUser1: 5000000, kUser2: 300000, kOwner: 1000000},
		Nodes: []chainsim.NodeSpec{
			{Key: kNode1, Output: -1, Tokens: 2500000, Chains: []string{"0001"}},
			{Key: kNode2, Output: -1, Tokens: 4700000, Chains: []string{"0001", "0002"}},
			{Key: kNode3, Output: -1, Tokens: 1200000, Chains: []string{"0002"}}},
		Apps: []chainsim.AppSpec{{Key: kApp1, Tokens: 2000000, Chains: []string{"0001"}}, {Key: kApp2, Tokens: 3000000, Chains: []string{"0002"}}},
		DAOTokens: 1000000, DAOOwner: kOwner, Servicer: -1, Features: featuresOf(p),
		NodeParams: func(np *nodesTypes.Params) {
			np.SessionBlockFrequency = p.B
			np.RelaysToTokensMultiplier = 10000
		},
		PocketParams: func(pp *pc.Params) {
			pp.SessionNodeCount = p.NodeCount
			pp.ClaimSubmissionWindow = p.W
			pp.ClaimExpiration = p.Exp
			pp.SupportedBlockchains = []string{"0001", "0002"}
		},
	}
}

// begin starts the next block (header.LastBlockId = hash of the previous block, which is what
// Context.GetPrevBlockHash returns at the proof height).
func begin(s *chainsim.Sim) abci.ResponseBeginBlock {
	return s.BeginBlock(chainsim.BlockOpts{})
}

// block runs one whole block with the given transactions.
func block(s *chainsim.Sim, txs ...[]byte) []abci.ResponseDeliverTx {
	begin(s)
	var out []abci.ResponseDeliverTx
	for _, tx := range txs {
		out = append(out, s.DeliverTx(tx))
	}
	s.EndBlock()
	s.Commit()
	return out
}

// newSim builds a fresh chain (chainsim resets the process-global validators-by-chain cache
// and provides the node-local session cache the claim handler reads).  The session cache of
// a previous chain of this process is emptied: a fresh node has not served any dispatch.
func newSim(cfg chainsim.Config) *chainsim.Sim {
	s := chainsim.New(cfg)
	if pc.GlobalSessionCache != nil {
		pc.ClearSessionCache(pc.GlobalSessionCache)
	}
	return s
}

// dispatchPairs are the (application, chain) pairs a dispatching node is asked about.
var dispatchPairs = [][2]interface{}{{kApp1, "0001"}, {kApp2, "0002"}}

// dispatch plays the node's OFF-CHAIN part: a client asks for its session (RPC
// /v1/client/dispatch -> PocketCoreApp.HandleDispatch).  The session of the committed height
// is computed and stored in the node-local session cache, which ValidateClaim consults
// before it recomputes the session.  Consensus must not depend on it.
func dispatch(s *chainsim.Sim, app int, chain string) (cached bool) {
	defer func() {
		if r := recover(); r != nil {
			cached = false
		}
	}()
	_, err := s.App.HandleDispatch(pc.SessionHeader{ApplicationPubKey: s.Keys[app].PublicKey().RawString(), Chain: chain, SessionBlockHeight: 1})
	return err == nil
}

func dispatchAll(s *chainsim.Sim) {
	if s.Height < 1 {
		return
	}
	for _, p := range dispatchPairs {
		dispatch(s, p[0].(int), p[1].(string))
	}
}

// blockD runs one empty block and, when disp, serves dispatches after the commit.
func blockD(s *chainsim.Sim, disp bool) {
	block(s)
	if disp {
		dispatchAll(s)
	}
}

// ---- projection of the fields this module owns (chainsim's projection + claim roots)

type claimX struct {
	Node     string `json:"node"`
	App      string `json:"app"`
	Chain    string `json:"chain"`
	SessionH int64  `json:"sessionH"`
	Total    int64  `json:"total"`
	Evidence int    `json:"evidence"`
	Expires  int64  `json:"expires"`
	Root     int    `json:"root"` // evidence set id of the committed Merkle root (-1 unknown)
}

type valX struct {
	Status     int              `json:"status"`
	Jailed     bool             `json:"jailed"`
	Tokens     int64            `json:"tokens"`
	Chains     []string         `json:"chains"`
	Output     string           `json:"output"`
	Delegators map[string]int64 `json:"delegators"`
}

type appX struct {
	Status    int      `json:"status"`
	Chains    []string `json:"chains"`
	MaxRelays int64    `json:"maxRelays"`
}

// focus is the part of the state the claims specification reads and writes.
type focus struct {
	Bal          map[string]int64 `json:"bal"`
	Supply       int64            `json:"supply"`
	Nopk         map[string]bool  `json:"nopk"`
	BadCoins     []string         `json:"badCoins"`
	Val          map[string]valX  `json:"val"`
	App          map[string]appX  `json:"app"`
	Claims       []claimX         `json:"claims"`
	IxChain      [][]string       `json:"ixChain"`
	PrevProposer string           `json:"prevProposer"`
	Rest         string           `json:"rest,omitempty"` // digest of everything else
}

// capCfg turns the configuration into a JSON object whose integers fit TLC's 32-bit
// integers: values above 2*10^9 (the main-net stake-weight bins installed when RSCAL
// activates: 15*10^9) are logged as 2*10^9.  Every stake of the economy is far below
// that, so the bin computed from the capped value is the same (0).
func capCfg(cfg chainsim.Cfg) map[string]interface{} {
	m := toMap(cfg)
	var walk func(v interface{}) interface{}
	walk = func(v interface{}) interface{} {
		switch x := v.(type) {
		case map[string]interface{}:
			for k, e := range x {
				x[k] = walk(e)
			}
			return x
		case float64:
			if x > 2e9 {
				return float64(2e9)
			}
		}
		return v
	}
	walk(m)
	return m
}

func projectFocus(s *chainsim.Sim, b *evBook, withRest bool) (focus, chainsim.Cfg) {
	st := s.Project()
	core, cfg := s.Split(st)
	f := focus{Bal: st.Bal, Supply: st.Supply, Nopk: st.Nopk, BadCoins: st.BadCoins, Val: map[string]valX{}, App: map[string]appX{},
		Claims: []claimX{}, IxChain: st.IxChain, PrevProposer: st.PrevProposer}
	for n, v := range st.Val {
		f.Val[n] = valX{v.Status, v.Jailed, v.Tokens, v.Chains, v.Output, v.Delegators}
	}
	for n, a := range st.App {
		f.App[n] = appX{a.Status, a.Chains, a.MaxRelays}
	}
	for _, c := range s.App.VerifPocketKeeper().GetAllClaims(s.Ctx()) {
		root := -1
		if b != nil {
			if id, ok := b.roots[hex.EncodeToString(c.MerkleRoot.Hash)]; ok {
				root = id
			}
		}
		f.Claims = append(f.Claims, claimX{Node: s.Name(c.FromAddress), App: nameOfPub(s, c.SessionHeader.ApplicationPubKey), Chain: c.SessionHeader.Chain,
			SessionH: c.SessionHeader.SessionBlockHeight, Total: c.TotalProofs, Evidence: int(c.EvidenceType), Expires: c.ExpirationHeight, Root: root})
	}
	if withRest {
		for _, k := range []string{"bal", "supply", "nopk", "badCoins", "val", "app", "claims", "ixChain", "prevProposer", "h"} {
			delete(core, k)
		}
		rb, _ := json.Marshal(core)
		sum := sha256.Sum256(rb)
		f.Rest = hex.EncodeToString(sum[:8])
	}
	return f, cfg
}

func nameOfPub(s *chainsim.Sim, pubHex string) string {
	for _, k := range s.Keys {
		if k.PublicKey().RawString() == pubHex {
			return s.Name(chainsim.Addr(k))
		}
	}
	if len(pubHex) > 8 {
		return "x" + pubHex[:8]
	}
	return pubHex
}

func toMap(v interface{}) map[string]interface{} {
	b, _ := json.Marshal(v)
	var m map[string]interface{}
	_ = json.Unmarshal(b, &m)
	return m
}

func keyIdxOf(s *chainsim.Sim, name string) int {
	for i := range s.Keys {
		if s.Name(s.Addr(i)) == name {
			return i
		}
	}
	return -1
}

func addrOfName(s *chainsim.Sim, name string) sdk.Address {
	for a, n := range s.Names {
		if n == name {
			ad, _ := sdk.AddressFromHex(a)
			return ad
		}
	}
	return nil
}

func classOf(r abci.ResponseDeliverTx) string {
	if r.Code == 0 {
		return "ok"
	}
	return fmt.Sprintf("%s/%d", r.Codespace, r.Code)
}

// ---- recorder: one NDJSON event per ABCI call with the focus state (plus digest)

type recorder struct {
	disp    bool // serve dispatches after every commit (and log them)
	s       *chainsim.Sim
	b       *evBook
	w       *hx.TraceWriter
	lastCfg string
	seen    map[string]seenTx
}

type seenTx struct {
	Height  int64
	Indexed bool
}

func newRecorder(s *chainsim.Sim, b *evBook, w *hx.TraceWriter) *recorder {
	return &recorder{s: s, b: b, w: w, seen: map[string]seenTx{}}
}

func (r *recorder) emit(ev map[string]interface{}) {
	f, cfg := projectFocus(r.s, r.b, true)
	ev["st"] = f
	ev["h"] = r.s.Height
	cb, _ := json.Marshal(cfg)
	if string(cb) != r.lastCfg {
		r.lastCfg = string(cb)
		ev["cfg"] = capCfg(cfg)
	}
	r.w.Emit(ev)
}

func (r *recorder) reset(label string) {
	r.lastCfg = ""
	r.seen = map[string]seenTx{}
	r.emit(map[string]interface{}{"ev": "reset", "label": label})
}

func (r *recorder) beginBlock() {
	begin(r.s)
	prop := ""
	if m := r.s.BS.LoadBlockMeta(r.s.Height); m != nil {
		prop = r.s.Name(sdk.Address(m.Header.ProposerAddress))
	}
	r.emit(map[string]interface{}{"ev": "BeginBlock", "proposer": prop})
}

func (r *recorder) deliver(tx []byte, abs map[string]interface{}) abci.ResponseDeliverTx {
	sum := sha256.Sum256(tx)
	h := hex.EncodeToString(sum[:])
	dup := "no"
	if p, ok := r.seen[h]; ok {
		if p.Height == r.s.Height {
			dup = "inblock"
		} else if p.Indexed {
			dup = "indexed"
		}
	}
	res := r.s.DeliverTx(tx)
	anteFail := res.Codespace == "auth" && res.Code < 10
	if p, ok := r.seen[h]; !ok || !p.Indexed {
		r.seen[h] = seenTx{Height: r.s.Height, Indexed: !anteFail}
	}
	a := map[string]interface{}{}
	for k, v := range abs {
		a[k] = v
	}
	if _, ok := a["dup"]; !ok {
		a["dup"] = dup
	}
	r.emit(map[string]interface{}{"ev": "DeliverTx", "tx": a, "res": map[string]interface{}{"code": res.Code, "codespace": res.Codespace}})
	return res
}

func (r *recorder) endBlock() {
	r.s.EndBlock()
	r.emit(map[string]interface{}{"ev": "EndBlock"})
}

func (r *recorder) commit() {
	r.s.Commit()
	r.emit(map[string]interface{}{"ev": "Commit"})
	if r.disp {
		r.dispatchAll()
	}
}

// dispatchAll serves the dispatches and logs them (an off-chain event: the logged state must
// be the state of the previous event).
func (r *recorder) dispatchAll() {
	for _, p := range dispatchPairs {
		ok := dispatch(r.s, p[0].(int), p[1].(string))
		r.emit(map[string]interface{}{"ev": "dispatch", "app": r.s.Name(r.s.Addr(p[0].(int))), "chain": p[1], "cached": ok})
	}
}

func (r *recorder) emptyBlock() {
	r.beginBlock()
	r.endBlock()
	r.commit()
}

func txo(s *chainsim.Sim, signer int, entropy int64) chainsim.TxOpts {
	return chainsim.TxOpts{Signer: s.Keys[signer], Fee: 10000, Entropy: entropy}
}
