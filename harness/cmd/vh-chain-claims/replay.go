package main

import (
	"encoding/json"
	"fmt"
	"os"
	"reflect"
	"sort"
	"strconv"

	sdk "github.com/pokt-network/pocket-core/types"
	pc "github.com/pokt-network/pocket-core/x/pocketcore/types"

	"verifharness/chainsim"
	"verifharness/internal/hx"
)

// The design model's chain: 2 blocks per session, claims accepted for 2 sessions, claims
// expire after 2 sessions; started after height 4 (= end of the session that began at 3).
var mcParams = chainParams{B: 2, W: 2, Exp: 2}

const mcWarm = 4

// disp: the node serves dispatches after every commit, so that the session of every height
// is in its session cache when claims and proofs arrive.
func newMCSim(seed int64, disp bool) (*chainsim.Sim, *evBook) {
	s := newSim(claimsConfig(seed, mcParams))
	for s.Height < mcWarm {
		blockD(s, disp)
	}
	return s, newEvBook(s)
}

// evLeaves: evidence set id -> number of leaves (MCChainClaims.EvLeaves); set 3 = every relay twice.
func evLeaves(ev int) int {
	if ev == 2 || ev == 3 {
		return 6
	}
	return 5
}

// initState writes the projection of the warmed-up chain; TLC's design model starts from it.
func initState(out string) {
	s, b := newMCSim(hx.Seed(), false)
	f, cfg := projectFocus(s, b, false)
	votes := s.Votes(nil)
	prop := ""
	if len(votes) > 0 {
		prop = s.Name(sdk.Address(votes[0].Validator.Address))
	}
	bz, _ := json.Marshal(map[string]interface{}{"st": f, "cfg": capCfg(cfg), "h": s.Height, "proposer": prop})
	if err := os.WriteFile(out, bz, 0644); err != nil {
		hx.Fatal("%v", err)
	}
	hx.NewReport("chain-claims", "init-state").Print()
}

func sigOpts(s *chainsim.Sim, tx hx.Step) chainsim.TxOpts {
	o := chainsim.TxOpts{Fee: int64(tx.Int("fee")), Entropy: int64(tx.Int("id"))}
	if !tx.Bool("hasSig") {
		o.NoSig = true
	} else if !tx.Bool("sigOK") {
		o.CorruptSig = true
	}
	if !tx.Bool("chainOK") {
		o.ChainID = "other-chain"
	}
	si := keyIdxOf(s, tx.Str("signer"))
	if si < 0 {
		hx.Fatal("behaviour names unknown signer %q", tx.Str("signer"))
	}
	o.Signer = s.Keys[si]
	return o
}

// buildTx turns an abstract claim / proof transaction of a behaviour into real signed bytes.
// Index placeholders of proofs are offsets from the REQUIRED index, which is computed from
// the hash of the block the SPECIFICATION names as the entropy block (the key of idxAt).
// applicable = false: the behaviour assumed a parity of the required index (basicOK of a
// proof over duplicated relays) that the real block hash did not produce.
func buildTx(s *chainsim.Sim, b *evBook, tx hx.Step) (bz []byte, applicable bool) {
	node, app := keyIdxOf(s, tx.Str("node")), keyIdxOf(s, tx.Str("app"))
	if node < 0 || app < 0 {
		hx.Fatal("behaviour names unknown node/app %q %q", tx.Str("node"), tx.Str("app"))
	}
	S := int64(tx.Int("sessionH"))
	switch tx.Str("kind") {
	case "claim":
		root := tx.Int("root")
		ev := b.get(evKey{Node: node, App: app, Chain: tx.Str("chain"), SessionH: S, N: evLeaves(root), Ev: root, Dup: root == 3, Cheat: -1})
		return s.SignTx(ev.claimMsg(s, int64(tx.Int("total"))), sigOpts(s, tx)), true
	case "proof":
		evid := tx.Int("ev")
		n := evLeaves(evid)
		ev := b.get(evKey{Node: node, App: app, Chain: tx.Str("chain"), SessionH: S, N: n, Ev: evid, Dup: tx.Bool("dupEv"), Cheat: -1})
		hdr := pc.SessionHeader{ApplicationPubKey: s.Keys[app].PublicKey().RawString(), Chain: tx.Str("chain"), SessionBlockHeight: S}
		total := int64(n)
		if cl, found := s.App.VerifPocketKeeper().GetClaim(s.Ctx(), s.Addr(node), hdr, pc.RelayEvidence); found {
			total = cl.TotalProofs
		}
		req := int64(0)
		if m, ok := tx["idxAt"].(map[string]interface{}); ok {
			for k := range m {
				e, _ := strconv.ParseInt(k, 10, 64)
				if bh := hashOfBlock(s, e); bh != nil {
					req = indexFromHash(bh, hdr, total)
				}
			}
		}
		tIdx := int(req)
		if off := tx.Int("tIndex"); off != 0 {
			tIdx = int((req + int64(off)) % total)
		}
		leaf := int((req + int64(tx.Int("leafIdx"))) % int64(n))
		extra := 0
		if lv := tx.Int("levels"); lv > ceilLog2(n) {
			extra = -1
		}
		if tx.Bool("dupEv") && tx.Bool("basicOK") != (leaf%2 == 0) {
			return nil, false
		}
		return s.SignTx(ev.proofMsg(b, leaf, tIdx, tx.Str("leafKind") == "foreign", extra), sigOpts(s, tx)), true
	}
	hx.Fatal("unknown kind %q", tx.Str("kind"))
	return nil, false
}

func ceilLog2(n int) int {
	l := 0
	for (1 << uint(l)) < n {
		l++
	}
	return l
}

// specFocus is the state a history entry carries (MCChainClaims.Focus).
func realFocus(s *chainsim.Sim, b *evBook) map[string]interface{} {
	f, _ := projectFocus(s, b, false)
	tokens := map[string]int64{}
	for n, v := range f.Val {
		tokens[n] = v.Tokens
	}
	return toMap(map[string]interface{}{"bal": f.Bal, "supply": f.Supply, "claims": f.Claims, "tokens": tokens})
}

func canonClaims(v interface{}) []string {
	arr, _ := v.([]interface{})
	out := []string{}
	for _, e := range arr {
		bz, _ := json.Marshal(e) // map keys sorted
		out = append(out, string(bz))
	}
	sort.Strings(out)
	return out
}

func sameFocus(want interface{}, got map[string]interface{}) (bool, string) {
	w, ok := want.(map[string]interface{})
	if !ok {
		return false, "expected state is not an object"
	}
	for k := range w {
		a, g := w[k], got[k]
		if k == "claims" {
			ca, cg := canonClaims(a), canonClaims(g)
			if !reflect.DeepEqual(ca, cg) {
				return false, fmt.Sprintf("claims: spec=%v real=%v", ca, cg)
			}
			continue
		}
		if m, ok := a.([]interface{}); ok && len(m) == 0 {
			a = map[string]interface{}{}
		}
		if !reflect.DeepEqual(a, g) {
			if am, ok := a.(map[string]interface{}); ok {
				if gm, ok := g.(map[string]interface{}); ok {
					for kk := range am {
						if !reflect.DeepEqual(am[kk], gm[kk]) {
							return false, fmt.Sprintf("%s[%s]: spec=%v real=%v", k, kk, am[kk], gm[kk])
						}
					}
					for kk := range gm {
						if _, ok := am[kk]; !ok {
							return false, fmt.Sprintf("%s[%s]: spec=absent real=%v", k, kk, gm[kk])
						}
					}
				}
			}
			return false, fmt.Sprintf("%s: spec=%v real=%v", k, a, g)
		}
	}
	return true, ""
}

// replayClaims replays behaviours of MCChainClaims on the real application: a fresh chain
// per behaviour, real evidence, the projected state compared after every step.
func replayClaims(in string, shard, of int, both bool) {
	rep := hx.NewReport("chain-claims", "replay-claims")
	seen := map[string]bool{}
	repayConfirmed, boundaryClaims, skipped, dispatched := 0, 0, 0, 0
	var repaySample interface{}
	err := hx.ReadBehaviours(in, func(idx int, beh []hx.Step) error {
		if idx%of != shard {
			return nil
		}
		raw, _ := json.Marshal(beh)
		fresh := !seen[string(raw)]
		seen[string(raw)] = true
		variants := []bool{len(beh) > 0 && beh[0].Bool("disp")}
		if both {
			variants = append(variants, !variants[0])
		}
		for vi, disp := range variants {
			hist := beh
			if vi > 0 { // the same behaviour with the dispatch dimension flipped (the specification's verdicts do not depend on it)
				hist = make([]hx.Step, len(beh))
				for i, e := range beh {
					c := hx.Step{}
					for k, v := range e {
						c[k] = v
					}
					c["disp"] = disp
					hist[i] = c
				}
			}
			rep.Behaviours++
			if disp {
				dispatched++
			}
			okAll, nontrivial, hasRepay, hasBoundary, notApplicable := replayOne(rep, idx, hist, disp)
			if notApplicable {
				skipped++
			}
			if okAll && hasRepay {
				repayConfirmed++
				if repaySample == nil {
					repaySample = hist
				}
			}
			if okAll && hasBoundary {
				boundaryClaims++
			}
			if fresh && nontrivial && vi == 0 {
				rep.Nontrivial++
			}
		}
		if idx%2000 == 7 {
			rep.AddSample(beh)
		}
		return nil
	})
	if err != nil {
		hx.Fatal("%v", err)
	}
	rep.Distinct = len(seen)
	rep.Extra["repay_confirmed"] = repayConfirmed
	rep.Extra["not_applicable"] = skipped
	rep.Extra["dispatching_variants"] = dispatched
	rep.Extra["boundary_claims_confirmed"] = boundaryClaims
	if repaySample != nil {
		rep.Extra["repay_sample"] = repaySample
	}
	rep.Print()
}

// replayOne replays one behaviour on a fresh chain.
func replayOne(rep *hx.Report, idx int, beh []hx.Step, disp bool) (okAll, nontrivial, hasRepay, hasBoundary, notApplicable bool) {
	s, b := newMCSim(hx.Seed(), disp)
	begin(s)
	okAll = true
	variant := "no-dispatch"
	if disp {
		variant = "dispatched"
	}
	defer func() {
		if r := recover(); r != nil {
			okAll = false
			rep.AddMismatch(hx.Mismatch{Behaviour: idx, Op: "exec", What: fmt.Sprintf("panic: %v", r), History: beh, Variant: variant})
		}
	}()
	for si, step := range beh {
		rep.Steps++
		switch step.Str("ev") {
		case "block":
			s.EndBlock()
			s.Commit()
			if disp {
				dispatchAll(s)
			}
			begin(s)
			if int64(step.Int("h")) != s.Height {
				hx.Fatal("behaviour %d step %d: height %d, chain at %d", idx, si, step.Int("h"), s.Height)
			}
			if ok, why := sameFocus(step["st"], realFocus(s, b)); !ok {
				rep.AddMismatch(hx.Mismatch{Behaviour: idx, Step: si, Op: "BeginBlock", What: "state after BeginBlock: " + why, History: beh, Variant: variant})
				return false, nontrivial, hasRepay, hasBoundary, false
			}
		case "tx":
			tx := hx.Step(step["tx"].(map[string]interface{}))
			bz, applicable := buildTx(s, b, tx)
			if !applicable {
				return false, nontrivial, hasRepay, hasBoundary, true
			}
			res := s.DeliverTx(bz)
			rep.OpCounts[tx.Str("kind")+":"+step.Str("class")+"/"+step.Str("mclass")]++
			if step.Bool("ok") != (res.Code == 0) {
				rep.AddMismatch(hx.Mismatch{Behaviour: idx, Step: si, Op: "DeliverTx", What: "result of " + tx.Str("kind") + " (spec class " + step.Str("class") + "/" + step.Str("mclass") + ")",
					Want: step.Bool("ok"), Got: classOf(res), History: beh, Variant: variant})
				return false, nontrivial, hasRepay, hasBoundary, false
			}
			if ok, why := sameFocus(step["st"], realFocus(s, b)); !ok {
				rep.AddMismatch(hx.Mismatch{Behaviour: idx, Step: si, Op: "DeliverTx", What: "state after " + tx.Str("kind") + " (spec class " + step.Str("class") + "/" + step.Str("mclass") + "; real " + classOf(res) + "): " + why, History: beh, Variant: variant})
				return false, nontrivial, hasRepay, hasBoundary, false
			}
			if step.Bool("ok") || step.Str("mclass") == "replay" {
				nontrivial = true
			}
			if step.Bool("repay") {
				hasRepay = true
			}
			if tx.Str("kind") == "claim" && step.Bool("ok") && int64(step.Int("h")) == int64(tx.Int("sessionH"))+mcParams.W*mcParams.B {
				hasBoundary = true
			}
		}
	}
	return
}
