package main

import (
	"encoding/hex"
	"fmt"
	"math/rand"

	sdk "github.com/pokt-network/pocket-core/types"
	appsTypes "github.com/pokt-network/pocket-core/x/apps/types"
	nodesTypes "github.com/pokt-network/pocket-core/x/nodes/types"
	pc "github.com/pokt-network/pocket-core/x/pocketcore/types"
	abci "github.com/tendermint/tendermint/abci/types"

	"verifharness/chainsim"
	"verifharness/internal/hx"
)

// run is one recorded chain.
type run struct {
	s   *chainsim.Sim
	b   *evBook
	r   *recorder
	p   chainParams
	ent int64
	rep *hx.Report
}

// disp: the node serves off-chain dispatches after every commit (sessions cached).
func newRun(tw *hx.TraceWriter, rep *hx.Report, seed int64, p chainParams, disp bool, label string) *run {
	s := newSim(claimsConfig(seed, p))
	b := newEvBook(s)
	cr := &run{s: s, b: b, r: newRecorder(s, b, tw), p: p, ent: 1000, rep: rep}
	cr.r.disp = disp
	if disp {
		label += "-dispatched"
		rep.OpCounts["chains with dispatches"]++
	}
	cr.r.reset(label)
	rep.Behaviours++
	return cr
}

// evSpec names an evidence set of a trace: id = 10*leaves + variant; variant 3 = duplicated relays.
type evSpec struct {
	N     int
	Var   int
	Cheat int // -1, or the position of the single really signed relay
}

func (e evSpec) id() int { return e.N*10 + e.Var }

func (cr *run) evidence(node, app int, chain string, S int64, e evSpec) *evidence {
	return cr.b.get(evKey{Node: node, App: app, Chain: chain, SessionH: S, N: e.N, Ev: e.id(), Dup: e.Var == 3 && e.Cheat < 0, Cheat: e.Cheat})
}

func (cr *run) sig(signer int) (chainsim.TxOpts, map[string]interface{}) {
	cr.ent++
	o := chainsim.TxOpts{Signer: cr.s.Keys[signer], Fee: 10000, Entropy: cr.ent}
	return o, cr.s.SigFields(o, signer)
}

// sessionNodes computes the session with the real code (needed by the specification only
// when the session is a proper pseudorandom subset of the eligible nodes).
func (cr *run) sessionNodes(hdr pc.SessionHeader) []string {
	s := cr.s
	if hdr.SessionBlockHeight+cr.p.B-1 >= s.Height || hdr.SessionBlockHeight < 1 {
		return nil
	}
	defer func() { _ = recover() }()
	ctx := s.Ctx()
	sessCtx, err := ctx.PrevCtx(hdr.SessionBlockHeight)
	if err != nil {
		return nil
	}
	endCtx, err := ctx.PrevCtx(hdr.SessionBlockHeight + cr.p.B - 1)
	if err != nil {
		return nil
	}
	bh, err := sessCtx.BlockHash(s.App.VerifCodec(), sessCtx.BlockHeight())
	if err != nil {
		return nil
	}
	pk := s.App.VerifPocketKeeper()
	sess, e2 := pc.NewSession(sessCtx, endCtx, s.App.VerifNodesKeeper(), hdr, hex.EncodeToString(bh), int(pk.SessionNodeCount(sessCtx)))
	if e2 != nil {
		return nil
	}
	out := []string{}
	for _, a := range sess.SessionNodes {
		out = append(out, s.Name(a))
	}
	return out
}

func (cr *run) header(app int, chain string, S int64) pc.SessionHeader {
	return pc.SessionHeader{ApplicationPubKey: cr.s.Keys[app].PublicKey().RawString(), Chain: chain, SessionBlockHeight: S}
}

// claim delivers a claim transaction.
func (cr *run) claim(node, app int, chain string, S, total int64, e evSpec, signer int, extra map[string]interface{}) abci.ResponseDeliverTx {
	s := cr.s
	ev := cr.evidence(node, app, chain, S, e)
	o, abs := cr.sig(signer)
	abs["kind"], abs["node"], abs["app"], abs["chain"] = "claim", s.Name(s.Addr(node)), s.Name(s.Addr(app)), chain
	abs["sessionH"], abs["total"], abs["evidence"], abs["root"] = S, total, 1, e.id()
	if sn := cr.sessionNodes(cr.header(app, chain, S)); sn != nil {
		abs["sessNodes"] = sn
	}
	for k, v := range extra {
		abs[k] = v
	}
	res := cr.r.deliver(s.SignTx(ev.claimMsg(s, total), o), abs)
	cr.count("claim", res)
	return res
}

type proofOpts struct {
	Leaf     string // "req" (the leaf the entropy block selects), "next" (req+1), "prev" (the leaf block e-1 selects), "zero"
	TIndex   string // same vocabulary; "" = same as Leaf
	Foreign  bool
	AddLevel bool
	Signer   int // -1 = the node
}

// proof delivers a proof transaction for the claim (node, app, chain, S) built from evidence e.
func (cr *run) proof(node, app int, chain string, S int64, e evSpec, po proofOpts) abci.ResponseDeliverTx {
	s := cr.s
	ev := cr.evidence(node, app, chain, S, e)
	hdr := cr.header(app, chain, S)
	total := int64(e.N)
	if cl, found := s.App.VerifPocketKeeper().GetClaim(s.Ctx(), s.Addr(node), hdr, pc.RelayEvidence); found {
		total = cl.TotalProofs
	}
	eh := S + cr.p.W*cr.p.B - 1 // entropy block (reward protocol: last block before the proof window)
	ia := indexAt(s, hdr, total, []int64{eh - 2, eh - 1, eh, eh + 1})
	pick := func(what string) int {
		switch what {
		case "req":
			return int(ia[fmt.Sprintf("%d", eh)])
		case "next":
			return int((ia[fmt.Sprintf("%d", eh)] + 1) % total)
		case "prev":
			return int(ia[fmt.Sprintf("%d", eh-1)])
		case "after":
			return int(ia[fmt.Sprintf("%d", eh+1)])
		}
		return 0
	}
	leaf := pick(po.Leaf) % e.N
	tIdx := leaf
	if po.TIndex != "" {
		tIdx = pick(po.TIndex)
	}
	signer := node
	if po.Signer >= 0 {
		signer = po.Signer
	}
	extra := 0
	if po.AddLevel {
		extra = -1
	}
	msg := ev.proofMsg(cr.b, leaf, tIdx, po.Foreign, extra)
	o, abs := cr.sig(signer)
	abs["kind"], abs["node"], abs["app"], abs["chain"] = "proof", s.Name(s.Addr(node)), s.Name(s.Addr(app)), chain
	abs["sessionH"], abs["evidence"], abs["ev"], abs["leafIdx"], abs["tIndex"] = S, 1, e.id(), leaf, tIdx
	abs["levels"] = len(msg.MerkleProof.HashRanges)
	abs["leafKind"] = "member"
	if po.Foreign {
		abs["leafKind"] = "foreign"
	}
	dup := e.Var == 3 && e.Cheat < 0
	abs["dupEv"] = dup
	abs["idxAt"] = ia
	abs["basicOK"] = !(dup && leaf%2 == 1) // the copy's zero-width range fails MsgProof.ValidateBasic
	res := cr.r.deliver(s.SignTx(msg, o), abs)
	cr.count("proof", res)
	return res
}

func (cr *run) send(from, to int, amount int64) {
	s := cr.s
	o, abs := cr.sig(from)
	abs["kind"], abs["from"], abs["to"], abs["amount"] = "send", s.Name(s.Addr(from)), s.Name(s.Addr(to)), amount
	res := cr.r.deliver(s.SignTx(&nodesTypes.MsgSend{FromAddress: s.Addr(from), ToAddress: s.Addr(to), Amount: sdk.NewInt(amount)}, o), abs)
	cr.count("send", res)
}

func (cr *run) count(kind string, res abci.ResponseDeliverTx) {
	cr.rep.Steps++
	cr.rep.OpCounts[kind+":"+classOf(res)]++
}

// blockTo runs empty blocks until `h` is the executing block (BeginBlock done).
func (cr *run) blockTo(h int64) {
	if cr.s.InBlock && cr.s.Height == h {
		return
	}
	if cr.s.InBlock {
		cr.r.endBlock()
		cr.r.commit()
	}
	for cr.s.Height < h-1 {
		cr.r.emptyBlock()
	}
	cr.r.beginBlock()
}

func (cr *run) finish() {
	if cr.s.InBlock {
		cr.r.endBlock()
		cr.r.commit()
	}
}

// ---------------------------------------------------------------------------
// scripted scenarios over three sessions (B = 2, W = 2, expiration 2 sessions)
// ---------------------------------------------------------------------------

var e5 = evSpec{N: 5, Var: 1, Cheat: -1}
var e6 = evSpec{N: 6, Var: 2, Cheat: -1}
var e6dup = evSpec{N: 6, Var: 3, Cheat: -1}

func scenarioThreeSessions(tw *hx.TraceWriter, rep *hx.Report, seed int64, disp bool) {
	p := chainParams{B: 2, W: 2, Exp: 2}
	cr := newRun(tw, rep, seed, p, disp, "three-sessions")
	n1, n2, n3, a1, a2, notApp := kNode1, kNode2, kNode3, kApp1, kApp2, kUser1
	cr.blockTo(4)
	cr.claim(n1, a1, "0001", 3, 5, e5, n1, nil) // early: the session (3..4) has not ended
	cr.claim(n1, a1, "0001", 5, 5, e5, n1, nil) // session in the future
	cr.blockTo(5)
	cr.claim(n1, a1, "0001", 3, 5, e5, n1, nil)         // valid
	cr.proof(n1, a1, "0001", 3, e5, proofOpts{Leaf: "zero", Signer: -1}) // proof before the waiting period ends
	cr.claim(n1, a1, "0001", 3, 6, e6, n1, nil)         // duplicate claim: overwrites (new root, total, expiration)
	cr.claim(n1, a1, "0001", 3, 1001, e5, n1, nil)      // above the application's relays for this session
	cr.claim(n1, a1, "0001", 3, 1000, e5, n2, nil)      // wrong signer
	cr.claim(n3, a1, "0001", 3, 5, e5, n3, nil)         // node not in the session (serves 0002 only)
	cr.claim(n1, notApp, "0001", 3, 5, e5, n1, nil)     // not an application
	cr.claim(n1, a1, "0003", 3, 5, e5, n1, nil)         // unsupported chain
	cr.claim(n1, a2, "0001", 3, 5, e5, n1, nil)         // application staked for another chain
	cr.claim(n2, a1, "0001", 3, 5, e5, n2, nil)         // second session node: valid, never proved -> expires
	cr.send(kUser1, kUser2, 12345)
	cr.blockTo(6)
	cr.proof(n1, a1, "0001", 3, e6, proofOpts{Leaf: "zero", Signer: -1}) // still too early
	cr.claim(n1, a1, "0001", 6, 5, e5, n1, nil)                           // "session" 6 is not a session start: the code does not check
	cr.blockTo(7)
	cr.proof(n1, a1, "0001", 3, e6, proofOpts{Leaf: "next", Signer: -1})                   // wrong index
	cr.proof(n1, a1, "0001", 3, e6, proofOpts{Leaf: "req", Foreign: true, Signer: -1})     // wrong leaf
	cr.proof(n1, a1, "0001", 3, e6, proofOpts{Leaf: "next", TIndex: "req", Signer: -1})    // branch of another leaf under the required index
	cr.proof(n1, a1, "0001", 3, e6, proofOpts{Leaf: "req", AddLevel: true, Signer: -1})    // wrong number of levels
	cr.proof(n1, a1, "0001", 3, e6, proofOpts{Leaf: "req", Signer: n2})                    // wrong signer
	cr.proof(n1, a1, "0001", 3, e5, proofOpts{Leaf: "req", Signer: -1})                    // proof of the overwritten evidence
	cr.proof(n1, a1, "0001", 3, e6, proofOpts{Leaf: "prev", Signer: -1})                   // index from the block before the entropy block
	cr.proof(n1, a1, "0001", 3, e6, proofOpts{Leaf: "req", Signer: -1})                    // valid: paid
	cr.proof(n1, a1, "0001", 3, e6, proofOpts{Leaf: "req", Signer: -1})                    // proof twice
	cr.claim(n1, a1, "0001", 5, 5, e5, n1, nil)                                            // next session, valid
	cr.claim(n2, a1, "0001", 5, 6, e6dup, n2, nil)                                         // replayed relays
	cr.blockTo(8)
	cr.claim(n1, a1, "0001", 3, 5, e5, n1, nil) // late: the claim window is over
	cr.proof(n1, a1, "0001", 6, e5, proofOpts{Leaf: "zero", Signer: -1})
	cr.blockTo(9)                                                       // BeginBlock removes n2's claim for session 3 (expired, unpaid)
	cr.proof(n2, a1, "0001", 3, e5, proofOpts{Leaf: "req", Signer: -1}) // proof after expiry
	cr.proof(n1, a1, "0001", 5, e5, proofOpts{Leaf: "req", Signer: -1}) // valid
	cr.proof(n2, a1, "0001", 5, e6dup, proofOpts{Leaf: "req", Signer: -1})
	cr.claim(n2, a2, "0002", 7, 5, e5, n2, nil) // session 7..8 just ended: valid (chain 0002: nodes a2, a3)
	cr.claim(n3, a2, "0002", 7, 5, e5, n3, nil)
	cr.blockTo(10)
	cr.proof(n1, a1, "0001", 6, e5, proofOpts{Leaf: "req", Signer: -1})
	cr.send(kUser1, kNode1, 777)
	cr.blockTo(11)
	cr.proof(n2, a2, "0002", 7, e5, proofOpts{Leaf: "req", Signer: -1})
	cr.proof(n3, a2, "0002", 7, e5, proofOpts{Leaf: "after", Signer: -1}) // index from the block after the entropy block
	cr.proof(n3, a2, "0002", 7, e5, proofOpts{Leaf: "req", Signer: -1})
	cr.blockTo(14)
	cr.finish()
}

// scenarioBoundary: the last height at which a claim is accepted is S + W*B, whose previous
// block is the entropy block.  The required leaf is computed from the COMMITTED block
// before the claim is authored; the tree is then built with ONE really signed relay placed
// at that position; the claim for `total` relays is accepted and proved in the same block;
// the same claim is then submitted and paid again.
func scenarioBoundary(tw *hx.TraceWriter, rep *hx.Report, seed int64, p chainParams, total int, disp bool) map[string]interface{} {
	cr := newRun(tw, rep, seed, p, disp, fmt.Sprintf("boundary-B%d-W%d", p.B, p.W))
	s := cr.s
	S := p.B + 1
	if S < 3 {
		S = 2*p.B + 1
	}
	c := S + p.W*p.B
	cr.blockTo(c - 1)
	cr.finish() // block c-1 is committed; block c does not exist
	hdr := cr.header(kApp1, "0001", S)
	pred := indexFromHash(hashOfBlock(s, c-1), hdr, int64(total))
	e := evSpec{N: total, Var: 4, Cheat: int(pred)}
	before, _ := projectFocus(s, cr.b, false)
	cr.blockTo(c)
	r1 := cr.claim(kNode1, kApp1, "0001", S, int64(total), e, kNode1, map[string]interface{}{"predIdx": pred, "predFrom": c - 1})
	r2 := cr.proof(kNode1, kApp1, "0001", S, e, proofOpts{Leaf: "req", Signer: -1})
	mid, _ := projectFocus(s, cr.b, false)
	r3 := cr.claim(kNode1, kApp1, "0001", S, int64(total), e, kNode1, nil)
	r4 := cr.proof(kNode1, kApp1, "0001", S, e, proofOpts{Leaf: "req", Signer: -1})
	after, _ := projectFocus(s, cr.b, false)
	cr.blockTo(c + 1)
	r5 := cr.claim(kNode1, kApp1, "0001", S, int64(total), e, kNode1, nil) // one block later: rejected
	cr.finish()
	return map[string]interface{}{"B": p.B, "W": p.W, "dispatched": disp, "sessionH": S, "claimHeight": c, "entropyHeight": c - 1, "predictedIndex": pred,
		"total": total, "signedRelays": 1, "claim": classOf(r1), "proof": classOf(r2), "minted": mid.Supply - before.Supply,
		"claimAgain": classOf(r3), "proofAgain": classOf(r4), "mintedAgain": after.Supply - mid.Supply, "claimNextBlock": classOf(r5)}
}

// scenarioStakes: an application staked in the middle of the chain (claims for sessions
// before / after it), a node staked by transaction with an output address and delegators
// (three candidates for two seats: the session is pseudorandom and bound from the log).
func scenarioStakes(tw *hx.TraceWriter, rep *hx.Report, seed int64, rscal, disp bool) {
	p := chainParams{B: 2, W: 2, Exp: 3, RSCAL: rscal}
	cr := newRun(tw, rep, seed, p, disp, fmt.Sprintf("stakes-rscal-%v", rscal))
	s := cr.s
	newApp, newNode, out, del := 8, 10, 11, kUser2
	cr.blockTo(3)
	cr.send(kUser1, newApp, 3500000)
	cr.send(kUser1, newNode, 1300000)
	cr.blockTo(4)
	{
		o, abs := cr.sig(newApp)
		abs["kind"], abs["app"], abs["chains"], abs["amount"] = "app_stake", s.Name(s.Addr(newApp)), []string{"0001"}, 3000000
		cr.r.deliver(s.SignTx(&appsTypes.MsgStake{PubKey: s.Keys[newApp].PublicKey(), Chains: []string{"0001"}, Value: sdk.NewInt(3000000)}, o), abs)
		o, abs = cr.sig(newNode)
		abs["kind"], abs["node"], abs["output"], abs["chains"], abs["amount"] = "node_stake", s.Name(s.Addr(newNode)), s.Name(s.Addr(out)), []string{"0001"}, 1100000
		cr.r.deliver(s.SignTx(&nodesTypes.MsgStake{PublicKey: s.Keys[newNode].PublicKey(), Chains: []string{"0001"}, Value: sdk.NewInt(1100000),
			ServiceUrl: "https://node.example:443", Output: s.Addr(out), RewardDelegators: map[string]uint32{s.Addr(del).String(): 30}}, o), abs)
	}
	cr.blockTo(5)
	cr.claim(kNode1, newApp, "0001", 3, 5, e5, kNode1, nil) // the application did not exist when session 3 began
	cr.claim(kNode1, kApp1, "0001", 3, 5, e5, kNode1, nil)
	cr.blockTo(7)
	for _, n := range []int{kNode1, kNode2, newNode} {
		cr.claim(n, newApp, "0001", 5, 8, evSpec{N: 8, Var: 1, Cheat: -1}, n, nil) // staked at height 4: session 5 sees application and node
	}
	cr.proof(kNode1, kApp1, "0001", 3, e5, proofOpts{Leaf: "req", Signer: -1})
	cr.blockTo(9)
	for _, n := range []int{kNode1, kNode2, newNode} {
		cr.proof(n, newApp, "0001", 5, evSpec{N: 8, Var: 1, Cheat: -1}, proofOpts{Leaf: "req", Signer: -1})
	}
	cr.blockTo(11)
	cr.finish()
}

// scenarioStale: the servicers' records change INSIDE the session, after the node has served a
// dispatch for it (so the cached session was computed from the earlier records): one session
// node edit-stakes away from the chain (the code clears the session cache on edit-stake), the
// other begins to unstake (no cache clear; an unstaking node stays eligible).  Claims, late
// claims and proofs follow; with and without the dispatches the outcomes must be the
// specification's, which recomputes the session from the session-start / session-end states.
func scenarioStale(tw *hx.TraceWriter, rep *hx.Report, seed int64, disp, editStake bool) {
	p := chainParams{B: 4, W: 2, Exp: 3}
	cr := newRun(tw, rep, seed, p, disp, fmt.Sprintf("stale-session-edit-%v", editStake))
	s := cr.s
	cr.blockTo(6) // session 5..8 has begun; block 5 is committed (and dispatched)
	if editStake {
		o, abs := cr.sig(kNode1)
		abs["kind"], abs["node"], abs["output"], abs["chains"], abs["amount"] = "node_stake", s.Name(s.Addr(kNode1)), "", []string{"0002"}, 2600000
		res := cr.r.deliver(s.SignTx(&nodesTypes.MsgStake{PublicKey: s.Keys[kNode1].PublicKey(), Chains: []string{"0002"}, Value: sdk.NewInt(2600000),
			ServiceUrl: "https://node.example:443", Output: s.Addr(kNode1)}, o), abs)
		cr.count("node_stake", res)
	}
	cr.blockTo(7)
	{
		o, abs := cr.sig(kNode2)
		abs["kind"], abs["node"], abs["msgSigner"] = "node_unstake", s.Name(s.Addr(kNode2)), s.Name(s.Addr(kNode2))
		res := cr.r.deliver(s.SignTx(&nodesTypes.MsgBeginUnstake{Address: s.Addr(kNode2), Signer: s.Addr(kNode2)}, o), abs)
		cr.count("node_unstake", res)
	}
	cr.blockTo(9)
	for _, n := range []int{kNode1, kNode2, kNode3} {
		cr.claim(n, kApp1, "0001", 5, 5, e5, n, nil)
	}
	cr.blockTo(13) // = S + W*B
	for _, n := range []int{kNode1, kNode2} {
		cr.proof(n, kApp1, "0001", 5, e5, proofOpts{Leaf: "req", Signer: -1})
	}
	cr.blockTo(14)
	for _, n := range []int{kNode1, kNode2} {
		cr.claim(n, kApp1, "0001", 5, 5, e5, n, nil) // the claim window is over
	}
	cr.claim(kNode2, kApp1, "0001", 9, 5, e5, kNode2, nil) // next session: node 2 is unstaking but still a candidate of session 9?
	cr.blockTo(18)
	cr.claim(kNode2, kApp1, "0001", 5, 5, e5, kNode2, nil) // far too late
	cr.finish()
}

// ---------------------------------------------------------------------------
// seeded random chains
// ---------------------------------------------------------------------------

type sentClaim struct {
	node, app int
	chain     string
	S         int64
	e         evSpec
}

func randomChain(tw *hx.TraceWriter, rep *hx.Report, rng *rand.Rand, seed int64, blocks int) {
	p := chainParams{B: int64(2 + rng.Intn(2)), W: int64(2 + rng.Intn(2)), NodeCount: int64(1 + rng.Intn(2))}
	p.Exp = p.W + int64(rng.Intn(2))
	cr := newRun(tw, rep, seed, p, rng.Intn(2) == 0, fmt.Sprintf("random-B%d-W%d-E%d-N%d", p.B, p.W, p.Exp, p.NodeCount))
	nodes := []int{kNode1, kNode2, kNode3}
	apps := []int{kApp1, kApp1, kApp2, kUser1}
	chainOf := map[int]string{kApp1: "0001", kApp2: "0002", kUser1: "0001"}
	evs := []evSpec{e5, e6, e6dup, {N: 8, Var: 1, Cheat: -1}, {N: 9, Var: 1, Cheat: -1}}
	var claims []sentClaim
	for h := int64(1); h <= int64(blocks); h++ {
		cr.blockTo(h)
		if h < 3 {
			continue
		}
		cur := ((h-1)/p.B)*p.B + 1
		for k := rng.Intn(4); k > 0; k-- {
			switch rng.Intn(10) {
			case 0, 1, 2, 3: // claim
				node, app := nodes[rng.Intn(3)], apps[rng.Intn(4)]
				chain := chainOf[app]
				if rng.Intn(12) == 0 {
					chain = []string{"0001", "0002", "0003"}[rng.Intn(3)]
				}
				S := cur - p.B*int64(rng.Intn(int(p.W)+3))
				switch rng.Intn(15) {
				case 0:
					S++ // not a session start
				case 1:
					S = cur + p.B // future
				}
				if S < 1 {
					S = 1
				}
				e := evs[rng.Intn(len(evs))]
				total := int64(e.N)
				switch rng.Intn(12) {
				case 0:
					total = 1000
				case 1:
					total = 1001
				case 2:
					total = 2001
				case 3:
					total = int64(e.N) + 1
				}
				signer := node
				if rng.Intn(15) == 0 {
					signer = nodes[rng.Intn(3)]
				}
				if res := cr.claim(node, app, chain, S, total, e, signer, nil); res.Code == 0 {
					claims = append(claims, sentClaim{node, app, chain, S, e})
				}
			case 4, 5, 6, 7, 8: // proof for a claim that was accepted at some point
				if len(claims) == 0 {
					continue
				}
				cl := claims[rng.Intn(len(claims))]
				if rng.Intn(3) > 0 { // prefer claims whose proof window is open
					for try := 0; try < 6 && !(h >= cl.S+p.W*p.B && h <= cl.S+p.W*p.B+p.Exp*p.B); try++ {
						cl = claims[rng.Intn(len(claims))]
					}
				}
				po := proofOpts{Leaf: "req", Signer: -1}
				switch rng.Intn(14) {
				case 0:
					po.Leaf = "next"
				case 1:
					po.Leaf = "prev"
				case 2:
					po.Leaf = "after"
				case 3:
					po.Foreign = true
				case 4:
					po.Leaf, po.TIndex = "next", "req"
				case 5:
					po.AddLevel = true
				case 6:
					po.Signer = nodes[rng.Intn(3)]
				case 7:
					cl.e = evs[rng.Intn(len(evs))] // branch of another tree
				}
				cr.proof(cl.node, cl.app, cl.chain, cl.S, cl.e, po)
			default:
				cr.send([]int{kUser1, kNode1, kApp1}[rng.Intn(3)], rng.Intn(8), 1+rng.Int63n(5000))
			}
		}
	}
	cr.finish()
}

// traceClaims records the scripted scenarios plus nRandom seeded random chains.
func traceClaims(out string, nRandom, blocks int) {
	tw, err := hx.NewTraceWriter(out)
	if err != nil {
		hx.Fatal("%v", err)
	}
	rep := hx.NewReport("chain-claims", "trace-claims")
	seed := hx.Seed()
	scenarioThreeSessions(tw, rep, seed, false)
	var confirmations []interface{}
	confirmations = append(confirmations, scenarioBoundary(tw, rep, seed, chainParams{B: 2, W: 2, Exp: 2}, 9, false))
	confirmations = append(confirmations, scenarioBoundary(tw, rep, seed, chainParams{B: 4, W: 3, Exp: 3}, 33, true))
	scenarioThreeSessions(tw, rep, seed, true)
	scenarioStakes(tw, rep, seed, false, true)
	scenarioStakes(tw, rep, seed, true, false)
	for _, disp := range []bool{false, true} {
		scenarioStale(tw, rep, seed, disp, true)
		scenarioStale(tw, rep, seed, disp, false)
	}
	for t := 0; t < nRandom; t++ {
		randomChain(tw, rep, hx.Rng(int64(t)+31), seed*1000+int64(t), blocks)
	}
	if err := tw.Close(); err != nil {
		hx.Fatal("%v", err)
	}
	rep.Extra["events"] = tw.N
	rep.Extra["boundary"] = confirmations
	rep.Print()
}
