package main

import (
	"fmt"
	"math/rand"
	"sync"

	"verifharness/internal/hx"
)

// replay executes TLC-generated behaviours (Set / Remove / Commit / Reload, optionally a final
// witness Read) on the pair of real stores.  After the last step every read of the final state
// (allReads) is performed on both nodes and compared: node B (cache off) is the oracle.
//
// The verdict on a disagreement is TLC's (TraceHeightCache: explained by an open known
// deviation or a violation), so disagreements are not "mismatches" here; with -explain the
// distinct ones are written, each with the history that produced it, as a trace.  Mismatches
// are: a step that could not be executed, node B differing from the specification's reference
// content (what = "oracle"), and -- for behaviours that end in a witness Read -- that read
// disagreeing on the real code (what = "A!=B", used by `bin/check C10 --replay`).
func replay(in string, nk, capacity int, explain string, logall bool) {
	rep := hx.NewReport("hcache", "replay")
	var tw *hx.TraceWriter
	var twMu sync.Mutex
	if explain != "" {
		var err error
		if tw, err = hx.NewTraceWriter(explain); err != nil {
			hx.Fatal("%v", err)
		}
	}
	var seenMu sync.Mutex
	seen := map[string]bool{}
	var cnt struct {
		sync.Mutex
		reads, servedReads, disagreements, witnessRepro, witnessTotal int
		witness                                                     []map[string]interface{}
	}
	err := hx.ParallelBehaviours(in, hx.Workers(), rep, func(idx int, beh []hx.Step, fresh bool, rep *hx.Report) {
		rng := rand.New(rand.NewSource(hx.Seed()*7919 + int64(idx)*31))
		w := newWorld(universe(nk, rng), capacity)
		var events []map[string]interface{}
		events = append(events, map[string]interface{}{"op": "reset", "cap": capacity, "nk": nk})
		var committed [][]int // reference content per height, from the behaviour
		var witness *read
		var witnessDev string
		for si, s := range beh {
			rep.Steps++
			rep.OpCounts[s.Str("op")]++
			if s.Str("op") == "Read" {
				r := readOfStep(s)
				witness, witnessDev = &r, s.Str("dev")
				continue
			}
			if e := w.apply(s); e != "" {
				rep.AddMismatch(hx.Mismatch{Behaviour: idx, Step: si, Op: s.Str("op"), What: "exec", Want: s, Got: e, History: beh})
				return
			}
			ev := map[string]interface{}{"op": s.Str("op")}
			for _, f := range []string{"k", "v", "h"} {
				if s.Has(f) {
					ev[f] = s.Int(f)
				}
			}
			events = append(events, ev)
			if s.Str("op") == "Commit" {
				committed = append(committed, hx.Ints(s["view"]))
			}
		}
		// final state: every read on both nodes
		vc := viewCache{}
		content := map[string]string{} // node B's full content per view, for the distinctness signature
		anyServed := false
		var nReads, nServed, nDis int
		var newEvents []map[string]interface{}
		for _, r := range w.allReads() {
			ra, rb, e := w.pairRead(vc, r)
			if e != "" {
				rep.AddMismatch(hx.Mismatch{Behaviour: idx, Step: len(beh), Op: "Read", What: "exec", Want: r, Got: e, History: beh})
				return
			}
			nReads++
			if ra.served == 1 {
				anyServed = true
				nServed++
			}
			// oracle sanity: node B's point reads equal the content the specification committed
			if r.Via == "lazy" && r.Kind == "Get" && r.H-1 < len(committed) && committed[r.H-1] != nil {
				if want := committed[r.H-1][r.K-1]; rb.idx[0] != want {
					rep.AddMismatch(hx.Mismatch{Behaviour: idx, Step: len(beh), Op: "Read", What: "oracle", Want: want, Got: rb.idx, History: beh})
					return
				}
			}
			dis := ra.raw != rb.raw
			if dis {
				nDis++
			}
			if witness != nil && r == *witness {
				cnt.Lock()
				cnt.witnessTotal++
				if dis {
					cnt.witnessRepro++
				}
				cnt.witness = append(cnt.witness, map[string]interface{}{"dev": witnessDev, "read": r, "a": ra.idx, "b": rb.idx, "reproduced": dis})
				cnt.Unlock()
				if dis {
					rep.AddMismatch(hx.Mismatch{Behaviour: idx, Step: len(beh) - 1, Op: "Read", What: "A!=B", Want: rb.idx, Got: ra.idx, History: beh})
				}
			}
			log := logall
			if dis && !logall {
				// distinct = same kind of view, same read, same content of that height, same two results
				ck := fmt.Sprintf("%s/%d", r.Via, r.H)
				if _, ok := content[ck]; !ok {
					content[ck] = fmt.Sprint(w.doRead(w.viewOf(vc, w.b, "b", read{Via: r.Via, H: r.H}), read{Kind: "Iter", Asc: true}).idx)
				}
				sig := fmt.Sprintf("%s|%s|%d|%d|%d|%v|%s|%v|%v", r.Via, r.Kind, r.K, r.Lo, r.Hi, r.Asc, content[ck], ra.idx, rb.idx)
				seenMu.Lock()
				if !seen[sig] {
					seen[sig] = true
					log = true
				}
				seenMu.Unlock()
			}
			if log {
				ev := r.event(ra.idx, rb.idx)
				if ra.served >= 0 {
					ev["served"] = ra.served
				}
				newEvents = append(newEvents, ev)
			}
		}
		if e := w.auxDisagreement(); e != "" {
			rep.AddMismatch(hx.Mismatch{Behaviour: idx, Step: len(beh), Op: "Read", What: "A!=B aux", Got: e, History: beh})
		}
		// non-trivial: at least one height of the final state is served from the cache on node A
		if fresh && anyServed {
			rep.Nontrivial++
		}
		if idx%20000 == 11 {
			rep.AddSample(beh)
		}
		cnt.Lock()
		cnt.reads += nReads
		cnt.servedReads += nServed
		cnt.disagreements += nDis
		cnt.Unlock()
		if tw != nil && len(newEvents) > 0 {
			twMu.Lock()
			for _, ev := range events {
				tw.Emit(ev)
			}
			for _, ev := range newEvents {
				tw.Emit(ev)
			}
			twMu.Unlock()
		}
	})
	if err != nil {
		hx.Fatal("%v", err)
	}
	if tw != nil {
		rep.Extra["explain_events"] = tw.N
		if err := tw.Close(); err != nil {
			hx.Fatal("%v", err)
		}
	}
	rep.Extra["reads"] = cnt.reads
	rep.Extra["served_iter_reads"] = cnt.servedReads
	rep.Extra["disagreements"] = cnt.disagreements
	rep.Extra["distinct_disagreements"] = len(seen)
	rep.Extra["witness_total"] = cnt.witnessTotal
	rep.Extra["witness_reproduced"] = cnt.witnessRepro
	if len(cnt.witness) <= 64 {
		rep.Extra["witness"] = cnt.witness
	}
	rep.Print()
}
