package main

import (
	"bytes"
	"fmt"
	"math/rand"
	"sort"
	"strings"

	"github.com/pokt-network/pocket-core/store/rootmulti"
	"github.com/pokt-network/pocket-core/store/rootmulti/heightcache"
	"github.com/pokt-network/pocket-core/store/types"
	dbm "github.com/tendermint/tm-db"

	"verifharness/internal/hx"
)

// Result vocabulary shared with HeightCacheOps.tla.
const (
	vNil     = 0  // nil byte slice / absent
	vEmpty   = -1 // empty NON-nil byte slice
	vPanic   = -9 // the iterator panicked here
	vRunaway = -8 // iteration cut by the harness (more items than any store can hold)
	vUnknown = -2
)

// keyPool is an ordered pool of byte-string keys with prefix-related and boundary members; the
// universe of a run is a seeded sorted subset.
var keyPool = [][]byte{
	{0x00}, {0x00, 0x00}, {0x00, 0x01}, {0x01}, []byte("a"), []byte("a\x00"), []byte("a\x00\x00"),
	[]byte("aa"), []byte("ab"), []byte("b"), []byte("b\xff"), []byte("b\xff\xff"), []byte("c"),
	[]byte("ca"), []byte("d"), []byte("key/0001"), []byte("key/0002"), {0xfe}, {0xff}, {0xff, 0x00}, {0xff, 0xff},
}

func universe(nk int, rng *rand.Rand) [][]byte {
	if nk > len(keyPool) {
		hx.Fatal("nk %d larger than key pool", nk)
	}
	idx := rng.Perm(len(keyPool))[:nk]
	sort.Ints(idx)
	u := make([][]byte, nk)
	for i, j := range idx {
		u[i] = keyPool[j] // the pool is listed in byte order, so u is sorted
	}
	return u
}

// node is one full node's root multistore over its own database.
type node struct {
	db      dbm.DB
	rs      *rootmulti.Store
	cacheOn bool
	cap     int
}

var (
	mainKey = types.NewKVStoreKey("main")
	auxKey  = types.NewKVStoreKey("aux")
	tKey    = types.NewTransientStoreKey("transient_main")
)

// open builds a root multistore the way baseapp does (NewCommitMultiStore, mount, load latest).
// The cache capacity is a package constant (12); a smaller one is installed through the exported
// Cache field with the package's own constructor so that eviction happens in short histories.
func (n *node) open() {
	rs := rootmulti.NewStore(n.db, n.cacheOn, 1000)
	if n.cacheOn && n.cap > 0 {
		rs.Cache = heightcache.NewMultiStoreMemoryCache(int64(n.cap))
	}
	rs.MountStoreWithDB(mainKey, types.StoreTypeIAVL, nil)
	rs.MountStoreWithDB(auxKey, types.StoreTypeIAVL, nil)
	rs.MountStoreWithDB(tKey, types.StoreTypeTransient, nil)
	if err := rs.LoadLatestVersion(); err != nil {
		panic(fmt.Sprintf("LoadLatestVersion: %v", err))
	}
	n.rs = rs
}

func newNode(cacheOn bool, capacity int) *node {
	n := &node{db: dbm.NewMemDB(), cacheOn: cacheOn, cap: capacity}
	n.open()
	return n
}

// world = the compared pair plus the key / value mapping.
type world struct {
	a, b *node
	keys [][]byte // index k-1
}

func newWorld(keys [][]byte, capacity int) *world {
	return &world{a: newNode(true, capacity), b: newNode(false, 0), keys: keys}
}

func (w *world) val(v int) []byte {
	if v == vEmpty {
		return []byte{}
	}
	return []byte(fmt.Sprintf("val-%d", v))
}

func valIdx(b []byte) int {
	if b == nil {
		return vNil
	}
	if len(b) == 0 {
		return vEmpty
	}
	var v int
	if n, _ := fmt.Sscanf(string(b), "val-%d", &v); n == 1 {
		return v
	}
	return vUnknown
}

func (w *world) keyIdx(b []byte) int {
	if len(b) == 0 {
		return 0
	}
	for i, k := range w.keys {
		if bytes.Equal(k, b) {
			return i + 1
		}
	}
	return vUnknown
}

func (w *world) bound(i int) []byte {
	if i <= 0 || i > len(w.keys) {
		return nil
	}
	return w.keys[i-1]
}

func (w *world) height() int64 { return w.a.rs.LastCommitID().Version }

// apply performs one block-level step on both nodes.
func (w *world) apply(s hx.Step) (err string) {
	defer func() {
		if r := recover(); r != nil {
			err = fmt.Sprintf("panic: %v", r)
		}
	}()
	for _, n := range []*node{w.a, w.b} {
		switch s.Str("op") {
		case "Set":
			_ = n.rs.GetKVStore(mainKey).Set(w.keys[s.Int("k")-1], w.val(s.Int("v")))
		case "Remove":
			_ = n.rs.GetKVStore(mainKey).Delete(w.keys[s.Int("k")-1])
		case "Commit":
			h := n.rs.LastCommitID().Version + 1
			// the second substore holds different data, so a cache shared between substores shows
			_ = n.rs.GetKVStore(auxKey).Set([]byte("aux"), []byte(fmt.Sprintf("val-%d", 100+h)))
			_ = n.rs.GetKVStore(auxKey).Set([]byte(fmt.Sprintf("aux/%d", h)), []byte("val-7"))
			id := n.rs.Commit()
			if id.Version != int64(s.Int("h")) {
				return fmt.Sprintf("commit produced version %d, behaviour says %d", id.Version, s.Int("h"))
			}
		case "Reload":
			n.open()
		case "Read":
		default:
			return "unknown op " + s.Str("op")
		}
	}
	if s.Str("op") == "Commit" && w.a.rs.LastCommitID().Version != w.b.rs.LastCommitID().Version {
		return "nodes at different heights"
	}
	return ""
}

// ---------------------------------------------------------------------------- reads

// read identifies one read in the specification's vocabulary.
type read struct {
	Via  string // lazy | cms | work | workc
	H    int
	Kind string // Get | Has | Iter
	K    int
	Lo   int
	Hi   int
	Asc  bool
}

func (r read) event(a, b []int) map[string]interface{} {
	ev := map[string]interface{}{"op": "Read", "via": r.Via, "h": r.H, "kind": r.Kind, "a": a, "b": b}
	if r.Kind == "Iter" {
		ev["lo"], ev["hi"], ev["asc"] = r.Lo, r.Hi, r.Asc
	} else {
		ev["k"] = r.K
	}
	return ev
}

func (r read) step() hx.Step {
	rd := map[string]interface{}{"via": r.Via, "h": r.H, "kind": r.Kind}
	if r.Kind == "Iter" {
		rd["lo"], rd["hi"], rd["asc"] = r.Lo, r.Hi, r.Asc
	} else {
		rd["k"] = r.K
	}
	return hx.Step{"op": "Read", "read": rd}
}

func readOfStep(s hx.Step) read {
	m, _ := s["read"].(map[string]interface{})
	rs := hx.Step(m)
	return read{Via: rs.Str("via"), H: rs.Int("h"), Kind: rs.Str("kind"), K: rs.Int("k"),
		Lo: rs.Int("lo"), Hi: rs.Int("hi"), Asc: rs.Bool("asc")}
}

// view returns the KVStore of substore `key` a read goes through, obtained the way the
// application obtains it (types.Context.PrevCtx / baseapp query: LoadLazyVersion; the SDK
// query path: CacheMultiStoreWithVersion; block execution: the working stores).
func (n *node) view(via string, h int, key types.StoreKey) types.KVStore {
	switch via {
	case "lazy":
		st, err := n.rs.LoadLazyVersion(int64(h))
		if err != nil {
			panic(fmt.Sprintf("LoadLazyVersion(%d): %v", h, err))
		}
		return (*st).(*rootmulti.Store).GetKVStore(key)
	case "cms":
		cms, err := n.rs.CacheMultiStoreWithVersion(int64(h))
		if err != nil {
			panic(fmt.Sprintf("CacheMultiStoreWithVersion(%d): %v", h, err))
		}
		return cms.GetKVStore(key)
	case "work":
		return n.rs.GetKVStore(key)
	case "workc":
		return n.rs.CacheMultiStore().GetKVStore(key)
	}
	panic("unknown via " + via)
}

// result of one read on one node: raw (exact bytes, nil-ness, panic) for the A/B comparison and
// idx (the specification's vocabulary) for the log.
type result struct {
	raw    string
	idx    []int
	served int // 1 / 0: the iterator came from the height cache; -1 unknown
}

func rawBytes(b []byte) string {
	if b == nil {
		return "nil"
	}
	return fmt.Sprintf("%x.", b)
}

func (w *world) doRead(st types.KVStore, r read) (res result) {
	res.served = -1
	switch r.Kind {
	case "Get":
		func() {
			defer func() {
				if p := recover(); p != nil {
					res.raw, res.idx = "panic", []int{vPanic}
				}
			}()
			v, _ := st.Get(w.keys[r.K-1])
			res.raw, res.idx = rawBytes(v), []int{valIdx(v)}
		}()
	case "Has":
		func() {
			defer func() {
				if p := recover(); p != nil {
					res.raw, res.idx = "panic", []int{vPanic}
				}
			}()
			ok, _ := st.Has(w.keys[r.K-1])
			res.raw, res.idx = fmt.Sprint(ok), []int{0}
			if ok {
				res.idx[0] = 1
			}
		}()
	case "Iter":
		var sb strings.Builder
		idx := []int{}
		limit := 4*len(w.keys) + 16
		func() {
			var it types.Iterator
			defer func() {
				if p := recover(); p != nil {
					sb.WriteString("|panic")
					idx = append(idx, vPanic)
				}
				if it != nil {
					func() {
						defer func() { _ = recover() }()
						it.Close()
					}()
				}
			}()
			lo, hi := w.bound(r.Lo), w.bound(r.Hi)
			if r.Asc {
				it, _ = st.Iterator(lo, hi)
			} else {
				it, _ = st.ReverseIterator(lo, hi)
			}
			if _, ok := it.(*heightcache.MemoryHeightIterator); ok {
				res.served = 1
			} else if r.Via == "lazy" || r.Via == "work" {
				res.served = 0
			}
			for n := 0; it.Valid(); it.Next() {
				if n++; n > limit {
					sb.WriteString("|runaway")
					idx = append(idx, vRunaway)
					return
				}
				k, v := it.Key(), it.Value()
				sb.WriteString("|" + rawBytes(k) + "=" + rawBytes(v))
				idx = append(idx, w.keyIdx(k), valIdx(v))
			}
		}()
		res.raw, res.idx = sb.String(), idx
	}
	return res
}

// allReads enumerates every read of the final state: heights 1..H through both historical
// entry points and the working store through both of its entry points; every key (present or
// absent at that height) for Get / Has; every range from {nil} + universe, both directions.
func (w *world) allReads() []read {
	H := int(w.height())
	nk := len(w.keys)
	var out []read
	add := func(via string, h int) {
		for k := 1; k <= nk; k++ {
			out = append(out, read{Via: via, H: h, Kind: "Get", K: k}, read{Via: via, H: h, Kind: "Has", K: k})
		}
		for lo := 0; lo <= nk; lo++ {
			for hi := 0; hi <= nk; hi++ {
				out = append(out, read{Via: via, H: h, Kind: "Iter", Lo: lo, Hi: hi, Asc: true},
					read{Via: via, H: h, Kind: "Iter", Lo: lo, Hi: hi, Asc: false})
			}
		}
	}
	for h := 1; h <= H; h++ {
		add("lazy", h)
		add("cms", h)
	}
	add("work", H)
	add("workc", H)
	return out
}

// pairRead performs r on both nodes.  Store views are cached per (node, via, h) by the caller.
type viewCache map[string]types.KVStore

func (w *world) viewOf(vc viewCache, n *node, tag string, r read) types.KVStore {
	k := fmt.Sprintf("%s/%s/%d", tag, r.Via, r.H)
	if st, ok := vc[k]; ok {
		return st
	}
	// (a cachekv wrapper memoises point reads: Has after Get of the same key is answered from
	// the wrapper, as in the application; every key is read once per view here)
	st := n.view(r.Via, r.H, mainKey)
	vc[k] = st
	return st
}

func (w *world) pairRead(vc viewCache, r read) (ra, rb result, err string) {
	defer func() {
		if p := recover(); p != nil {
			err = fmt.Sprintf("panic while opening the store view: %v", p)
		}
	}()
	ra = w.doRead(w.viewOf(vc, w.a, "a", r), r)
	rb = w.doRead(w.viewOf(vc, w.b, "b", r), r)
	return ra, rb, ""
}

// auxDisagreement reads the second substore on both nodes at every height (point reads of keys
// that are present there): its content differs from the main substore's, so caches crossed
// between substores would show.
func (w *world) auxDisagreement() string {
	H := int(w.height())
	for h := 1; h <= H; h++ {
		for _, via := range []string{"lazy", "cms"} {
			var raw [2]string
			for i, n := range []*node{w.a, w.b} {
				func() {
					defer func() {
						if p := recover(); p != nil {
							raw[i] += "|panic"
						}
					}()
					st := n.view(via, h, auxKey)
					g, _ := st.Get([]byte("aux"))
					g2, _ := st.Get([]byte(fmt.Sprintf("aux/%d", h)))
					raw[i] = rawBytes(g) + "," + rawBytes(g2)
				}()
			}
			if raw[0] != raw[1] {
				return fmt.Sprintf("aux substore at height %d via %s: A=%s B=%s", h, via, raw[0], raw[1])
			}
		}
	}
	return ""
}
