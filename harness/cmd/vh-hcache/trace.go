package main

import (
	"verifharness/internal/hx"
)

// trace drives the pair of real stores with a seeded random block history over a larger space
// than the design model (more keys, more blocks, real capacities) and logs every step and every
// read with both real results.  The driver keeps no model of the contents and does not compare
// anything: TLC (TraceHeightCache) is the judge.
func trace(out string, n, blocks, nk, capacity, readsPerBlock int) {
	tw, err := hx.NewTraceWriter(out)
	if err != nil {
		hx.Fatal("%v", err)
	}
	rep := hx.NewReport("hcache", "trace")
	nReads, nDis := 0, 0
	for t := 0; t < n; t++ {
		rng := hx.Rng(int64(t))
		cp := capacity
		if cp < 0 { // mixed: small capacities and the real constant (0)
			cp = []int{2, 3, 4, 0, 1}[t%5]
		}
		logCap := cp
		if cp == 0 {
			logCap = 12 // rootmulti.MemoryCacheCapacity
		}
		w := newWorld(universe(nk, rng), cp)
		tw.Emit(map[string]interface{}{"op": "reset", "cap": logCap, "nk": nk})
		failed := false
		step := func(s hx.Step) {
			if failed {
				return
			}
			ev := map[string]interface{}{}
			for k, v := range s {
				ev[k] = v
			}
			if e := w.apply(s); e != "" {
				ev["fail"] = e
				failed = true
			}
			tw.Emit(ev)
			rep.Steps++
			rep.OpCounts[s.Str("op")]++
		}
		vc := viewCache{}
		doRead := func(r read) {
			if failed {
				return
			}
			ra, rb, e := w.pairRead(vc, r)
			if e != "" {
				tw.Emit(map[string]interface{}{"op": "Read", "fail": e})
				failed = true
				return
			}
			ev := r.event(ra.idx, rb.idx)
			if ra.served >= 0 {
				ev["served"] = ra.served
			}
			tw.Emit(ev)
			nReads++
			if ra.raw != rb.raw {
				nDis++
			}
			rep.OpCounts["Read"]++
		}
		randomRead := func() read {
			H := int(w.height())
			r := read{}
			switch x := rng.Intn(10); {
			case H == 0 || x == 0:
				r.Via, r.H = "work", H
			case x == 1:
				r.Via, r.H = "workc", H
			default:
				r.Via = []string{"lazy", "cms"}[rng.Intn(2)]
				// prefer recent heights (the ones the cache holds), sometimes any retained height
				if rng.Intn(4) == 0 {
					r.H = 1 + rng.Intn(H)
				} else {
					r.H = H - rng.Intn(min(H, 6))
				}
			}
			switch rng.Intn(5) {
			case 0:
				r.Kind, r.K = "Get", 1+rng.Intn(nk)
			case 1:
				r.Kind, r.K = "Has", 1+rng.Intn(nk)
			default:
				r.Kind, r.Lo, r.Hi, r.Asc = "Iter", rng.Intn(nk+1), rng.Intn(nk+1), rng.Intn(2) == 0
				if rng.Intn(3) == 0 {
					r.Lo = 0
				}
				if rng.Intn(3) == 0 {
					r.Hi = 0
				}
			}
			return r
		}
		for b := 0; b < blocks && !failed; b++ {
			if rng.Intn(12) == 0 {
				step(hx.Step{"op": "Reload", "h": int(w.height())})
				vc = viewCache{}
			}
			for i, m := 0, rng.Intn(5); i < m; i++ {
				k := 1 + rng.Intn(nk)
				if rng.Intn(3) == 0 {
					step(hx.Step{"op": "Remove", "k": k})
				} else {
					step(hx.Step{"op": "Set", "k": k, "v": []int{vEmpty, 1, 2, 3}[rng.Intn(4)]})
				}
				if rng.Intn(3) == 0 { // reads in the middle of a block (uncommitted writes present)
					vc = viewCache{}
					doRead(randomRead())
				}
			}
			step(hx.Step{"op": "Commit", "h": int(w.height()) + 1})
			vc = viewCache{}
			for i := 0; i < readsPerBlock; i++ {
				doRead(randomRead())
			}
		}
		// final sweep: every point read at the recent heights (the ones a cache can hold) and at
		// two older retained heights
		if !failed {
			H := int(w.height())
			hs := []int{}
			for h := H; h >= 1 && h > H-5; h-- {
				hs = append(hs, h)
			}
			if H > 5 {
				hs = append(hs, 1+rng.Intn(H-5), 1+rng.Intn(H-5))
			}
			for _, h := range hs {
				for _, via := range []string{"lazy", "cms"} {
					for k := 1; k <= nk; k++ {
						doRead(read{Via: via, H: h, Kind: "Get", K: k})
						doRead(read{Via: via, H: h, Kind: "Has", K: k})
					}
				}
			}
		}
		rep.Behaviours++
	}
	if err := tw.Close(); err != nil {
		hx.Fatal("%v", err)
	}
	rep.Extra["events"] = tw.N
	rep.Extra["reads"] = nReads
	rep.Extra["disagreements"] = nDis
	rep.Print()
}

func min(a, b int) int {
	if a < b {
		return a
	}
	return b
}
