// vh-hcache: hcache engine (C10: enabling the state cache never changes a read).
//
// Two real rootmulti.Stores on separate memdbs -- node A built with cache=true, node B with
// cache=false (the oracle) -- receive the same blocks; every read the application can issue at a
// past height (LoadLazyVersion, CacheMultiStoreWithVersion) or on the working store is performed
// on both and compared.
//
//	vh-hcache replay -in behaviours.ndjson -nk N -cap C [-explain trace.ndjson] [-logall]
//	vh-hcache trace  -out trace.ndjson -n TRACES -blocks B -nk N -cap C
package main

import (
	"flag"
	"fmt"
	"io"
	"log"
	"os"
)

func main() {
	if len(os.Args) < 2 {
		fmt.Fprintln(os.Stderr, "usage: vh-hcache <replay|trace> ...")
		os.Exit(2)
	}
	log.SetOutput(io.Discard) // iavl.LoadStore logs "Cache warmed." on every load
	cmd := os.Args[1]
	fs := flag.NewFlagSet(cmd, flag.ExitOnError)
	in := fs.String("in", "", "behaviour file")
	out := fs.String("out", "", "trace output file")
	explain := fs.String("explain", "", "replay: write the distinct A/B disagreements (with their histories) as a trace for TLC")
	logall := fs.Bool("logall", false, "replay: log every read of the final state, not only disagreements")
	nk := fs.Int("nk", 3, "number of keys of the specification instance")
	capacity := fs.Int("cap", 2, "capacity of the height cache of node A (0 = rootmulti.MemoryCacheCapacity)")
	n := fs.Int("n", 10, "number of traces")
	blocks := fs.Int("blocks", 8, "blocks per trace")
	reads := fs.Int("reads", 40, "sampled reads after each block")
	_ = fs.Parse(os.Args[2:])
	switch cmd {
	case "replay":
		replay(*in, *nk, *capacity, *explain, *logall)
	case "trace":
		trace(*out, *n, *blocks, *nk, *capacity, *reads)
	default:
		fmt.Fprintln(os.Stderr, "unknown command", cmd)
		os.Exit(2)
	}
}
