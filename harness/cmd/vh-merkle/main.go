// vh-merkle: merkle engine (C29 honest Merkle-sum-index proofs verify, C30 forged or
// replayed proofs are rejected).  Real code: x/pocketcore/types GenerateRoot,
// GenerateProofs, MerkleProof.Validate, Evidence.GenerateMerkleRoot/GenerateMerkleProof,
// codec.IsAfterCodecUpgrade.
//
//	vh-merkle replay -in cases.ndjson -gate default|h50|old10 -real R
//	    every line is one case of spec/merkle/MerkleSum.tla ([{"op":"case",...}]); it is
//	    executed R times on fresh real relay sets and the real verdict is compared with the
//	    specification's.
//	vh-merkle trace -out trace.ndjson -kind honest|forge -trees T -cases K -maxn N
//	    seeded random driver, logs abstract case + real verdict for TraceMerkle.tla.
package main

import (
	"flag"
	"fmt"
	"os"
)

func main() {
	if len(os.Args) < 2 {
		fmt.Fprintln(os.Stderr, "usage: vh-merkle <replay|trace> ...")
		os.Exit(2)
	}
	cmd := os.Args[1]
	fs := flag.NewFlagSet(cmd, flag.ExitOnError)
	in := fs.String("in", "", "case file (one TLC history per line)")
	out := fs.String("out", "", "trace output file")
	gate := fs.String("gate", "default", "codec gating schedule put in force for this process")
	real := fs.Int("real", 3, "real relay sets (realisations) per abstract case")
	kind := fs.String("kind", "honest", "trace kind: honest (C29) or forge (C30)")
	trees := fs.Int("trees", 50, "number of trees of a trace")
	cases := fs.Int("cases", 20, "cases per tree")
	maxn := fs.Int("maxn", 200, "largest relay count of a trace")
	_ = fs.Parse(os.Args[2:])
	switch cmd {
	case "replay":
		replay(*in, *gate, *real)
	case "trace":
		trace(*out, *kind, *trees, *cases, *maxn)
	default:
		fmt.Fprintln(os.Stderr, "unknown command", cmd)
		os.Exit(2)
	}
}
