package main

import (
	"bytes"
	"fmt"
	"math/rand"
	"runtime/debug"

	pc "github.com/pokt-network/pocket-core/x/pocketcore/types"

	"verifharness/internal/hx"
)

// trace: seeded random driver over a larger space than the design model (up to maxn
// relays, random session heights under all three gating schedules, random duplicate
// injections, random mutations with random arguments).  It keeps no model of the expected
// verdicts: it only respects the enabling conditions of the specification's mutations
// (a mutation must change the field it names), which it evaluates on the real structures.
//
//	{"op":"tree","gate":..,"h":..,"n":..,"dups":[ranks],"perm":[..],"extra":k}
//	{"op":"case","i":..,"site":..,"lvl":..,"kind":..,"arg":..,"vh":..,"via":..,
//	 "nsib":..,"levels":..,"valid":0/1,"replay":0/1}       (or "fail": message)
func trace(out, kind string, trees, cases, maxn int) {
	if out == "" {
		hx.Fatal("trace: -out required")
	}
	tw, err := hx.NewTraceWriter(out)
	if err != nil {
		hx.Fatal("trace: %v", err)
	}
	salt := int64(29)
	if kind == "forge" {
		salt = 30
	}
	rng := hx.Rng(salt)
	rep := hx.NewReport("merkle", "trace-"+kind)
	getSigner()
	for t := 0; t < trees; t++ {
		gateName := gateNames[rng.Intn(len(gateNames))]
		g := setGate(gateName)
		h := pickHeight(rng, g)
		n := pickN(rng, maxn)
		var dups []int
		dupTree := kind == "forge" && rng.Intn(100) < 35
		if dupTree {
			for len(dups) < 1+rng.Intn(3) {
				d := 1 + rng.Intn(n-1)
				if rng.Intn(3) == 0 && len(dups) > 0 && dups[len(dups)-1]+1 < n {
					d = dups[len(dups)-1] + 1 // a relay sent three times
				}
				if !containsInt(dups, d) {
					dups = insertSorted(dups, d)
				}
			}
		}
		extra := 0
		if rng.Intn(3) == 0 {
			extra = rng.Intn(4)
		}
		w := newWorld(rng, n, dups, h, extra)
		tw.Emit(map[string]interface{}{"op": "tree", "gate": gateName, "h": h, "n": n, "dups": w.dups, "perm": w.perm, "extra": extra})
		rep.Behaviours++
		if len(w.dups) > 0 || n > 17 {
			rep.Nontrivial++
		}
		for c := 0; c < cases; c++ {
			cs := caseSpec{I: pickLeaf(rng, n, w.dups), Site: "none", Lvl: -1, Arg: -1, validationHeight: h}
			cs.viaEvidence = rng.Intn(3) == 0
			ev := map[string]interface{}{"op": "case"}
			func() {
				defer func() {
					if p := recover(); p != nil {
						ev["fail"] = fmt.Sprintf("panic: %v\n%s", p, debug.Stack())
					}
				}()
				if kind == "forge" && !dupTree {
					chooseMutation(rng, w, g, &cs)
				}
				v := runCase(w, cs, rng)
				ev["nsib"], ev["levels"] = v.Nsib, v.Levels
				ev["valid"], ev["replay"] = b2i(v.Valid), b2i(v.Replay)
				if cs.Site == "none" && !v.LeafIsExpected {
					ev["fail"] = "GenerateProofs returned a leaf that is not the relay of rank i"
				}
			}()
			ev["i"], ev["site"], ev["lvl"], ev["kind"], ev["arg"] = cs.I, cs.Site, cs.Lvl, cs.Kind, cs.Arg
			ev["vh"] = cs.validationHeight
			ev["via"] = map[bool]string{false: "types", true: "evidence"}[cs.viaEvidence]
			tw.Emit(ev)
			rep.Steps++
			rep.OpCounts[cs.Site]++
			if t < 2 && c < 2 {
				rep.AddSample(ev)
			}
		}
	}
	if err := tw.Close(); err != nil {
		hx.Fatal("trace: %v", err)
	}
	rep.Extra["events"] = tw.N
	rep.Print()
}

func containsInt(s []int, x int) bool {
	for _, e := range s {
		if e == x {
			return true
		}
	}
	return false
}

func insertSorted(s []int, x int) []int {
	s = append(s, x)
	for k := len(s) - 1; k > 0 && s[k-1] > s[k]; k-- {
		s[k-1], s[k] = s[k], s[k-1]
	}
	return s
}

// session heights: the boundary heights of the schedule in force and random ones around them
func pickHeight(rng *rand.Rand, g gateDef) int64 {
	all := append(append([]int64{}, g.pre...), g.post...)
	switch rng.Intn(4) {
	case 0:
		return 1 + rng.Int63n(120)
	case 1:
		return 29900 + rng.Int63n(250)
	default:
		return all[rng.Intn(len(all))]
	}
}

// relay counts: around every power of two (padding regimes) and uniform
func pickN(rng *rand.Rand, maxn int) int {
	for {
		var n int
		if rng.Intn(5) < 2 {
			n = (1 << uint(3+rng.Intn(6))) + rng.Intn(3) - 1
		} else {
			n = 5 + rng.Intn(maxn-4)
		}
		if n >= 5 && n <= maxn {
			return n
		}
	}
}

// leaves: first, last, neighbours of duplicated ranks, random
func pickLeaf(rng *rand.Rand, n int, dups []int) int {
	switch r := rng.Intn(10); {
	case r == 0:
		return 0
	case r == 1:
		return n - 1
	case r < 7 && len(dups) > 0:
		i := dups[rng.Intn(len(dups))] + rng.Intn(5) - 2
		if i >= 0 && i < n {
			return i
		}
	}
	return rng.Intn(n)
}

var rangeKinds = []string{"dec", "inc", "zero", "collapse"}

func boundChanges(cur, other uint64, kind string) bool {
	if kind == "dec" && cur == 0 {
		return false // would wrap below zero
	}
	return newBound(cur, other, kind) != cur
}

func sameHR(a, b pc.HashRange) bool {
	return bytes.Equal(a.Hash, b.Hash) && a.Range.Lower == b.Range.Lower && a.Range.Upper == b.Range.Upper
}

// chooseMutation picks one enabled mutation for leaf cs.I of a tree of distinct relays.
func chooseMutation(rng *rand.Rand, w *world, g gateDef, cs *caseSpec) {
	n, h, i := w.n, w.height, cs.I
	root, sorted := pc.GenerateRoot(h, append([]pc.Proof{}, w.input[:n]...))
	mp, _ := pc.GenerateProofs(h, append([]pc.Proof{}, w.input[:n]...), i) // independent copy in arrival order
	_ = sorted
	L := len(mp.HashRanges)
	P := 1 << uint(L)
	otherLeaf := func() int {
		for {
			j := rng.Intn(n)
			if j != i {
				return j
			}
		}
	}
	for {
		cs.Site, cs.Kind, cs.Lvl, cs.Arg, cs.validationHeight = "none", "", -1, -1, h
		switch rng.Intn(17) {
		case 0:
			cs.Site, cs.Kind = "leaf", "fresh"
		case 1:
			cs.Site, cs.Kind, cs.Arg = "leaf", "other", otherLeaf()
		case 2:
			cs.Site, cs.Kind, cs.Arg = "xleaf", "leafAndTarget", otherLeaf()
		case 3:
			cs.Site, cs.Kind = "tgtHash", "flip"
		case 4, 5:
			cs.Kind = rangeKinds[rng.Intn(4)]
			if rng.Intn(2) == 0 {
				cs.Site = "tgtLower"
				if !boundChanges(mp.Target.Range.Lower, mp.Target.Range.Upper, cs.Kind) {
					continue
				}
			} else {
				cs.Site = "tgtUpper"
				if !boundChanges(mp.Target.Range.Upper, mp.Target.Range.Lower, cs.Kind) {
					continue
				}
			}
		case 6, 7, 8:
			cs.Site, cs.Kind = "index", "set"
			switch rng.Intn(6) {
			case 0:
				cs.Arg = rng.Intn(P)
			case 1:
				cs.Arg = i + P*(1+rng.Intn(1000))
			case 2:
				cs.Arg = i - P*(1+rng.Intn(1000))
			case 3:
				cs.Arg = -1
			case 4:
				cs.Arg = -rng.Intn(4 * P)
			default:
				cs.Arg = i ^ (1 << uint(rng.Intn(L+3))) // one bit of the index flipped
			}
			if cs.Arg == i {
				continue
			}
		case 9:
			cs.Site, cs.Kind, cs.Lvl = "sibHash", "flip", rng.Intn(L)
		case 10, 11:
			cs.Kind, cs.Lvl = rangeKinds[rng.Intn(4)], rng.Intn(L)
			s := mp.HashRanges[cs.Lvl]
			if rng.Intn(2) == 0 {
				cs.Site = "sibLower"
				if !boundChanges(s.Range.Lower, s.Range.Upper, cs.Kind) {
					continue
				}
			} else {
				cs.Site = "sibUpper"
				if !boundChanges(s.Range.Upper, s.Range.Lower, cs.Kind) {
					continue
				}
			}
		case 12:
			cs.Site, cs.Kind, cs.Lvl, cs.Arg = "sibSubst", "from", rng.Intn(L), otherLeaf()
			p2, _ := pc.GenerateProofs(h, append([]pc.Proof{}, sorted...), cs.Arg)
			if sameHR(p2.HashRanges[cs.Lvl], mp.HashRanges[cs.Lvl]) {
				continue
			}
		case 13:
			switch rng.Intn(3) {
			case 0:
				cs.Site, cs.Kind = "rootHash", "flip"
			case 1:
				cs.Site, cs.Kind = "rootLower", []string{"inc", "collapse"}[rng.Intn(2)]
				if !boundChanges(root.Range.Lower, root.Range.Upper, cs.Kind) {
					continue
				}
			default:
				cs.Site, cs.Kind = "rootUpper", rangeKinds[rng.Intn(4)]
				if !boundChanges(root.Range.Upper, root.Range.Lower, cs.Kind) {
					continue
				}
			}
		case 14:
			// a session height on the other side of the codec upgrade, from the schedule's table
			cs.Site, cs.Kind = "height", "other"
			if pc.ModuleCdc.IsAfterCodecUpgrade(h) {
				cs.validationHeight = g.pre[rng.Intn(len(g.pre))]
			} else {
				cs.validationHeight = g.post[rng.Intn(len(g.post))]
			}
		case 15:
			cs.Site, cs.Kind = "rootTree", "dropLast"
		default:
			cs.Site, cs.Kind = "levels", []string{"truncate", "extend"}[rng.Intn(2)]
			if cs.Kind == "truncate" && L < 2 {
				continue
			}
		}
		return
	}
}
