package main

import (
	"encoding/binary"
	"bytes"
	"crypto/ed25519"
	"crypto/sha256"
	"encoding/hex"
	"fmt"
	"math"
	"math/rand"
	"sync"

	tmcfg "github.com/tendermint/tendermint/config"

	"github.com/pokt-network/pocket-core/codec"
	"github.com/pokt-network/pocket-core/crypto"
	pc "github.com/pokt-network/pocket-core/x/pocketcore/types"

	"verifharness/internal/hx"
)

// ---------------------------------------------------------------- codec gating

// gateDef is one process-global schedule (codec.UpgradeHeight / codec.OldUpgradeHeight)
// with session heights on both sides of the codec upgrade it implies.  The same table is
// Gate(name) in spec/merkle/MerkleOps.tla; the heights are checked against the real
// IsAfterCodecUpgrade before they are used.
type gateDef struct {
	upg, old  int64
	pre, post []int64
}

var gates = map[string]gateDef{
	"default": {math.MaxInt64, 0, []int64{30023, 1, 2, 15000}, []int64{30024, 30025, 100000}},
	"h50":     {50, 0, []int64{49, 1, 25}, []int64{50, 51, 40000}},
	"old10":   {50, 10, []int64{9, 1, 5}, []int64{10, 11, 49, 50, 30024}},
}
var gateNames = []string{"default", "h50", "old10"}

func setGate(name string) gateDef {
	g, ok := gates[name]
	if !ok {
		hx.Fatal("unknown gate %q", name)
	}
	codec.UpgradeHeight = g.upg
	codec.OldUpgradeHeight = g.old
	codec.TestMode = 0
	for _, h := range g.pre {
		if pc.ModuleCdc.IsAfterCodecUpgrade(h) {
			hx.Fatal("gate %s: height %d expected before the codec upgrade", name, h)
		}
	}
	for _, h := range g.post {
		if !pc.ModuleCdc.IsAfterCodecUpgrade(h) {
			hx.Fatal("gate %s: height %d expected after the codec upgrade", name, h)
		}
	}
	return g
}

func (g gateDef) heightFor(variant string, r int) int64 {
	if variant == "post" {
		return g.post[r%len(g.post)]
	}
	return g.pre[r%len(g.pre)]
}

func otherVariant(v string) string {
	if v == "pre" {
		return "post"
	}
	return "pre"
}

// ---------------------------------------------------------------- real relays

func keyFrom(tag string, seed int64) crypto.Ed25519PrivateKey {
	s := sha256.Sum256([]byte(fmt.Sprintf("vh-merkle/%s/%d", tag, seed)))
	k, _ := crypto.Ed25519PrivateKey{}.PrivateKeyFromBytes(ed25519.NewKeyFromSeed(s[:]))
	return k.(crypto.Ed25519PrivateKey)
}

type signer struct {
	app, client, node crypto.Ed25519PrivateKey
	aat               pc.AAT
}

var (
	signerOnce sync.Once
	theSigner  signer
)

// one application / client / servicer identity per process (seeded); the AAT carries a
// real application signature
func getSigner() signer {
	signerOnce.Do(func() {
		s := signer{app: keyFrom("app", hx.Seed()), client: keyFrom("client", hx.Seed()), node: keyFrom("node", hx.Seed())}
		s.aat = pc.AAT{Version: "0.0.1", ApplicationPublicKey: s.app.PublicKey().RawString(), ClientPublicKey: s.client.PublicKey().RawString()}
		sig, err := s.app.Sign(s.aat.Hash())
		if err != nil {
			hx.Fatal("aat sign: %v", err)
		}
		s.aat.ApplicationSignature = hex.EncodeToString(sig)
		theSigner = s
		// the relays built below must be accepted by the code's own stateless validation
		rp := newRelay(rand.New(rand.NewSource(1)), 7)
		if err := rp.ValidateBasic(); err != nil {
			hx.Fatal("generated relay proof is not valid: %v", err)
		}
	})
	return theSigner
}

const chainID = "0021"

func newRelay(rng *rand.Rand, sessionHeight int64) pc.RelayProof {
	s := theSigner
	rp := pc.RelayProof{
		Entropy:            rng.Int63(),
		SessionBlockHeight: sessionHeight,
		ServicerPubKey:     s.node.PublicKey().RawString(),
		Blockchain:         chainID,
		Token:              s.aat,
		RequestHash:        hex.EncodeToString(pc.Hash([]byte(fmt.Sprintf("request-%d", rng.Int63())))),
	}
	sig, err := s.client.Sign(rp.Hash())
	if err != nil {
		hx.Fatal("relay sign: %v", err)
	}
	rp.Signature = hex.EncodeToString(sig)
	return rp
}

type baseEntry struct {
	once   sync.Once
	sorted []pc.Proof
	err    interface{}
}

var baseCache sync.Map

// distinctRelays returns m distinct signed relays of one session in the order the real
// code sorts them (GenerateRoot's second result).  Sets are shared between the worlds of a
// process that differ only in which ranks are duplicated (signing dominates the cost).
func distinctRelays(rng *rand.Rand, m int, height int64) []pc.Proof {
	key := fmt.Sprintf("%d/%d/%d", m, height, rng.Intn(4))
	e, _ := baseCache.LoadOrStore(key, &baseEntry{})
	be := e.(*baseEntry)
	be.once.Do(func() {
		defer func() {
			if p := recover(); p != nil {
				be.err = p
			}
		}()
		sum := int64(0)
		for _, c := range key {
			sum = sum*131 + int64(c)
		}
		r2 := rand.New(rand.NewSource(hx.Seed()*999983 + sum))
		distinct := make([]pc.Proof, m)
		for k := range distinct {
			distinct[k] = newRelay(r2, height)
		}
		_, be.sorted = pc.GenerateRoot(height, distinct)
	})
	if be.err != nil {
		panic(be.err)
	}
	return be.sorted
}

// world = one real relay multiset in the order the servicer collected it.
type world struct {
	n      int        // relays committed by the tree
	height int64      // session height of the tree
	input  []pc.Proof // collected order; input[:n] is what the tree commits (extras only on the evidence path)
	fresh  pc.Proof   // a relay that is not in the set
	perm   []int      // perm[k] = position in input of the leaf of rank k
	dups   []int      // ranks k whose relay has the same bytes as rank k-1 (from the real sort)
	sorted []pc.Proof // the relays in the order the real code sorted them
}

// newWorld builds n relays of which the ranks listed in dups (in the real sorted order)
// repeat their predecessor, shuffles them, and appends `extra` relays beyond n.
func newWorld(rng *rand.Rand, n int, dups []int, height int64, extra int) *world {
	getSigner()
	isDup := map[int]bool{}
	for _, d := range dups {
		isDup[d] = true
	}
	m := n - len(dups)
	// rank = position in the order the real code sorts in
	sortedDistinct := distinctRelays(rng, m, height)
	multi := make([]pc.Proof, 0, n+extra)
	next := 0
	for k := 0; k < n; k++ {
		if isDup[k] && k > 0 {
			multi = append(multi, multi[k-1])
		} else {
			multi = append(multi, sortedDistinct[next])
			next++
		}
	}
	order := rng.Perm(n)
	w := &world{n: n, height: height, fresh: newRelay(rng, height)}
	w.input = make([]pc.Proof, n, n+extra)
	for pos, k := range order {
		w.input[pos] = multi[k]
	}
	for e := 0; e < extra; e++ {
		w.input = append(w.input, newRelay(rng, height))
	}
	// ranks and duplicates as the real code sees them
	_, w.sorted = pc.GenerateRoot(height, append([]pc.Proof{}, w.input[:n]...))
	w.perm = make([]int, n)
	used := make([]bool, n)
	inB := make([][]byte, n)
	for pos := 0; pos < n; pos++ {
		inB[pos] = w.input[pos].Bytes()
	}
	var prev []byte
	for k, p := range w.sorted {
		pb := p.Bytes()
		w.perm[k] = -1
		for pos := 0; pos < n; pos++ {
			if !used[pos] && bytes.Equal(inB[pos], pb) {
				w.perm[k] = pos
				used[pos] = true
				break
			}
		}
		if k > 0 && bytes.Equal(prev, pb) {
			w.dups = append(w.dups, k)
		}
		prev = pb
	}
	if w.dups == nil {
		w.dups = []int{}
	}
	return w
}

// ---------------------------------------------------------------- one verification case on the real code

type caseSpec struct {
	I                int
	Site, Kind       string
	Lvl, Arg         int
	viaEvidence      bool  // Evidence.GenerateMerkleRoot / GenerateMerkleProof instead of GenerateRoot / GenerateProofs
	validationHeight int64 // height handed to Validate ("height" mutation: a height of the other variant)
}

type verdict struct {
	Valid, Replay  bool
	Nsib, Levels   int // len(HashRanges) of the generated proof; numOfLevels handed to Validate
	KeeperLevels   int // int(math.Ceil(math.Log2(float64(total)))) as keeper.ValidateProof computes it
	RootUpper      uint64
	LeafIsExpected bool
}

func flipBit(h []byte, rng *rand.Rand) []byte {
	out := append([]byte{}, h...)
	b := rng.Intn(len(out) * 8)
	out[b/8] ^= 1 << uint(b%8)
	return out
}

func newBound(cur, other uint64, kind string) uint64 {
	switch kind {
	case "dec":
		return cur - 1
	case "inc":
		return cur + 1
	case "zero":
		return 0
	case "collapse":
		return other
	}
	panic("unknown range mutation " + kind)
}

func mutLower(hr *pc.HashRange, kind string) {
	hr.Range.Lower = newBound(hr.Range.Lower, hr.Range.Upper, kind)
}
func mutUpper(hr *pc.HashRange, kind string) {
	hr.Range.Upper = newBound(hr.Range.Upper, hr.Range.Lower, kind)
}

func evidenceStore() *pc.CacheStorage {
	cs := &pc.CacheStorage{}
	cs.Init("", "", tmcfg.LevelDBOptions{}, 16, true)
	cs.SealMap = &sync.Map{}
	return cs
}

// runCase builds root and proof with the real code, applies the mutation to the real
// structures and returns MerkleProof.Validate's verdict.  Panics are the caller's.
func runCase(w *world, cs caseSpec, rng *rand.Rand) verdict {
	n := w.n
	h := w.height
	var root pc.HashRange
	var mp pc.MerkleProof
	var leaf pc.Proof
	var sorted []pc.Proof
	if cs.viaEvidence {
		ev := pc.Evidence{
			SessionHeader: pc.SessionHeader{ApplicationPubKey: getSigner().app.PublicKey().RawString(), Chain: chainID, SessionBlockHeight: h},
			NumOfProofs:   int64(len(w.input)),
			Proofs:        append([]pc.Proof{}, w.input...),
			EvidenceType:  pc.RelayEvidence,
		}
		root = ev.GenerateMerkleRoot(h, int64(n), evidenceStore())
		if cs.I%2 == 1 {
			// the proof is built from the evidence as it is read back from the evidence database after a
			// restart (arrival order), not from the object GenerateMerkleRoot sorted in place
			ev2 := ev
			ev2.Proofs = append([]pc.Proof{}, w.input...)
			ev2.NumOfProofs = int64(len(w.input))
			mp, leaf = ev2.GenerateMerkleProof(h, cs.I, int64(n))
		} else {
			mp, leaf = ev.GenerateMerkleProof(h, cs.I, int64(n))
		}
		sorted = w.sorted
	} else {
		root, sorted = pc.GenerateRoot(h, append([]pc.Proof{}, w.input[:n]...))
		// an independent copy in arrival order: GenerateProofs orders its input itself
		mp, leaf = pc.GenerateProofs(h, append([]pc.Proof{}, w.input[:n]...), cs.I)
	}
	v := verdict{Nsib: len(mp.HashRanges), KeeperLevels: int(math.Ceil(math.Log2(float64(n)))), RootUpper: root.Range.Upper}
	v.LeafIsExpected = bytes.Equal(leaf.Bytes(), w.sorted[cs.I].Bytes())
	levels := len(mp.HashRanges) // keeper.ValidateProof: levelCount := len(proof.MerkleProof.HashRanges)
	vh := cs.validationHeight
	mp.HashRanges = append([]pc.HashRange{}, mp.HashRanges...)
	proofOf := func(j int) pc.MerkleProof {
		p, _ := pc.GenerateProofs(h, append([]pc.Proof{}, sorted...), j)
		return p
	}
	switch cs.Site {
	case "none", "height":
	case "leaf":
		if cs.Kind == "fresh" {
			leaf = w.fresh
		} else {
			leaf = sorted[cs.Arg]
		}
	case "xleaf":
		leaf = sorted[cs.Arg]
		mp.Target = proofOf(cs.Arg).Target
	case "tgtHash":
		mp.Target.Hash = flipBit(mp.Target.Hash, rng)
	case "tgtLower":
		mutLower(&mp.Target, cs.Kind)
	case "tgtUpper":
		mutUpper(&mp.Target, cs.Kind)
	case "index":
		mp.TargetIndex = int64(cs.Arg)
	case "sibHash":
		if cs.Kind == "extend" && (cs.I>>uint(cs.Lvl))%2 == 0 {
			// the sibling is the RIGHT child at this level: its hash is followed, in the preimage of the
			// parent hash, by the two child indices (after the codec upgrade) and the parent's range
			sib := mp.HashRanges[cs.Lvl]
			parent := proofOf(cs.I) // recompute the target's range at this level from a fresh proof
			tr := parent.Target.Range
			for l := 0; l < cs.Lvl; l++ {
				s2 := parent.HashRanges[l].Range
				if (cs.I>>uint(l))%2 == 1 {
					tr.Lower = s2.Lower
				} else {
					tr.Upper = s2.Upper
				}
			}
			pr := pc.Range{Lower: tr.Lower, Upper: sib.Range.Upper}
			ext := append([]byte{}, sib.Hash...)
			if pc.ModuleCdc.IsAfterCodecUpgrade(vh) {
				ix := uint64(cs.I >> uint(cs.Lvl))
				b := make([]byte, 16)
				binary.LittleEndian.PutUint64(b, ix)
				binary.LittleEndian.PutUint64(b[8:], ix+1)
				ext = append(ext, b...)
			}
			mp.HashRanges[cs.Lvl].Hash = append(ext, pr.Bytes()...)
		} else {
			mp.HashRanges[cs.Lvl].Hash = flipBit(mp.HashRanges[cs.Lvl].Hash, rng)
		}
	case "sibLower":
		mutLower(&mp.HashRanges[cs.Lvl], cs.Kind)
	case "sibUpper":
		mutUpper(&mp.HashRanges[cs.Lvl], cs.Kind)
	case "sibSubst":
		mp.HashRanges[cs.Lvl] = proofOf(cs.Arg).HashRanges[cs.Lvl]
	case "rootHash":
		root.Hash = flipBit(root.Hash, rng)
	case "rootLower":
		mutLower(&root, cs.Kind)
	case "rootUpper":
		mutUpper(&root, cs.Kind)
	case "rootTree":
		root, _ = pc.GenerateRoot(h, append([]pc.Proof{}, sorted[:n-1]...))
	case "levels":
		if cs.Kind == "truncate" {
			mp.HashRanges = mp.HashRanges[:levels-1]
			levels--
		} else {
			mp.HashRanges = append(mp.HashRanges, mp.HashRanges[levels-1])
			levels++
		}
	default:
		panic("unknown mutation site " + cs.Site)
	}
	v.Levels = levels
	v.Valid, v.Replay = mp.Validate(vh, root, leaf, levels)
	return v
}

func b2i(b bool) int {
	if b {
		return 1
	}
	return 0
}
