package main

import (
	"fmt"
	"math/rand"
	"runtime/debug"
	"sync"

	pc "github.com/pokt-network/pocket-core/x/pocketcore/types"

	"verifharness/internal/hx"
)

// judged footprint of a case (see MerkleSum.tla):
//
//	honest, distinct relays (C29)     isValid must be true, len(HashRanges) = ceil(log2 n)
//	honest, duplicates, zw = 1 (C30)  (isValid, isReplayAttack) must be (false, true)
//	honest, duplicates, zw = 0        not judged (the property is silent)
//	forged, known = 0 (C30)           isValid must equal the specification's (false)
//	forged, known = 1                 known finding C30-1 if the real code accepts
type worldEntry struct {
	once sync.Once
	w    *world
	err  interface{}
}

var worldCache sync.Map

// cachedWorld returns the (immutable) relay set of one realisation; a panic of the real
// code while building it is re-raised for every case that needs it.
func cachedWorld(variant string, n int, dups []int, i, r int, h int64) *world {
	key := fmt.Sprintf("%s/%d/%v/%d/%d/%d", variant, n, dups, i, r, h)
	e, _ := worldCache.LoadOrStore(key, &worldEntry{})
	we := e.(*worldEntry)
	we.once.Do(func() {
		defer func() {
			if p := recover(); p != nil {
				we.err = p
			}
		}()
		sum := int64(0)
		for _, c := range key {
			sum = sum*131 + int64(c)
		}
		rng := rand.New(rand.NewSource(hx.Seed()*1000003 + sum))
		we.w = newWorld(rng, n, dups, h, rng.Intn(3))
	})
	if we.err != nil {
		panic(we.err)
	}
	return we.w
}

func replay(in, gateName string, real int) {
	if in == "" {
		hx.Fatal("replay: -in required")
	}
	g := setGate(gateName)
	getSigner()
	rep := hx.NewReport("merkle", "replay-"+gateName)
	var mu sync.Mutex
	knownHits, knownFixed, unjudged, flagDiffs, gateOps := 0, 0, 0, 0, 0
	var knownSample interface{}
	err := hx.ParallelBehaviours(in, hx.Workers(), rep, func(idx int, beh []hx.Step, fresh bool, wr *hx.Report) {
		if len(beh) != 1 {
			wr.AddMismatch(hx.Mismatch{Behaviour: idx, What: "malformed", Got: fmt.Sprintf("%d steps", len(beh))})
			return
		}
		st := beh[0]
		wr.Steps++
		wr.OpCounts[st.Str("op")+"/"+st.Str("site")]++
		if st.Str("op") == "gate" {
			if st.Str("gate") != gateName {
				return
			}
			got := b2i(pc.ModuleCdc.IsAfterCodecUpgrade(int64(st.Int("h"))))
			mu.Lock()
			gateOps++
			mu.Unlock()
			if got != st.Int("after") {
				wr.AddMismatch(hx.Mismatch{Behaviour: idx, Op: "gate", What: "gate", Want: st.Int("after"), Got: got, History: beh, Variant: gateName})
			}
			return
		}
		variant := st.Str("v")
		n, i := st.Int("n"), st.Int("i")
		dups := hx.Ints(st["dups"])
		site := st.Str("site")
		honest := site == "none"
		if fresh && (len(dups) > 0 || !honest || n > 8) {
			wr.Nontrivial++
		}
		for r := 0; r < real; r++ {
			// relays, heights and entry path of realisation r (seeded; independent of the verdict).
			// One relay set per (variant, n, duplicates, leaf mod 3, r), shared by the cases that agree on those.
			h := g.heightFor(variant, r+i%3+n)
			cs := caseSpec{I: i, Site: site, Kind: st.Str("kind"), Lvl: st.Int("lvl"), Arg: st.Int("arg"), validationHeight: h}
			if site == "height" {
				cs.validationHeight = g.heightFor(otherVariant(variant), r+idx)
			}
			cs.viaEvidence = (r+idx)%3 == 2
			rng := rand.New(rand.NewSource(hx.Seed()*7919 + int64(idx)*131 + int64(r)))
			realisation := fmt.Sprintf("%s h=%d vh=%d evidence=%v r=%d", gateName, h, cs.validationHeight, cs.viaEvidence, r)
			var v verdict
			var w *world
			failed := func() (msg string) {
				defer func() {
					if p := recover(); p != nil {
						msg = fmt.Sprintf("panic: %v\n%s", p, debug.Stack())
					}
				}()
				w = cachedWorld(variant, n, dups, i%3, r, h)
				if fmt.Sprint(w.dups) != fmt.Sprint(dups) {
					return fmt.Sprintf("real sort produced duplicates at %v, case asked for %v", w.dups, dups)
				}
				v = runCase(w, cs, rng)
				return ""
			}()
			if failed != "" {
				wr.AddMismatch(hx.Mismatch{Behaviour: idx, Op: "case", What: "exec", Got: failed, History: beh, Variant: realisation})
				break
			}
			mm := func(what string, want, got interface{}) {
				wr.AddMismatch(hx.Mismatch{Behaviour: idx, Op: "case", What: what, Want: want, Got: got, History: beh, Variant: realisation})
			}
			bad := false
			switch {
			case honest && len(dups) == 0:
				if !v.Valid {
					mm("isValid", 1, 0)
					bad = true
				}
				if v.Nsib != v.KeeperLevels || v.Nsib != st.Int("nsib") {
					mm("levels", st.Int("nsib"), map[string]int{"len(HashRanges)": v.Nsib, "ceil(log2(total))": v.KeeperLevels})
					bad = true
				}
				if !v.LeafIsExpected {
					mm("leaf", "leaf of rank i", "another relay")
					bad = true
				}
			case honest && st.Int("zw") == 1:
				if v.Valid || !v.Replay {
					mm("zeroWidth", []int{0, 1}, []int{b2i(v.Valid), b2i(v.Replay)})
					bad = true
				}
			case honest:
				mu.Lock()
				unjudged++
				if b2i(v.Valid) != st.Int("valid") {
					flagDiffs++
				}
				mu.Unlock()
			case st.Int("known") == 1:
				mu.Lock()
				if v.Valid {
					knownHits++
					if knownSample == nil {
						knownSample = map[string]interface{}{"case": st, "realisation": realisation, "real": []int{b2i(v.Valid), b2i(v.Replay)}}
					}
				} else {
					knownFixed++
				}
				mu.Unlock()
			default:
				if b2i(v.Valid) != st.Int("valid") {
					mm("isValid", st.Int("valid"), b2i(v.Valid))
					bad = true
				} else if b2i(v.Replay) != st.Int("replay") {
					mu.Lock()
					flagDiffs++ // isReplayAttack of a rejected forgery: outside the property
					mu.Unlock()
				}
			}
			if bad {
				break
			}
			if idx%5000 == 0 && r == 0 {
				wr.AddSample(map[string]interface{}{"case": st, "realisation": realisation, "real": []int{b2i(v.Valid), b2i(v.Replay)}, "rootUpper": fmt.Sprint(v.RootUpper), "perm": w.perm})
			}
		}
	})
	if err != nil {
		hx.Fatal("replay: %v", err)
	}
	rep.Extra["gate"] = gateName
	rep.Extra["realisations_per_case"] = real
	rep.Extra["known_hits"] = knownHits
	rep.Extra["known_not_reproduced"] = knownFixed
	rep.Extra["known_sample"] = knownSample
	rep.Extra["unjudged_offpath_duplicate_cases"] = unjudged
	rep.Extra["out_of_footprint_differences"] = flagDiffs
	rep.Extra["gate_ops"] = gateOps
	rep.Print()
}
