package main

import (
	"bytes"
	"encoding/hex"
	"fmt"
	"math/rand"
	"sort"

	"verifharness/internal/hx"
)

// Trace direction (code -> spec).  Seeded drivers exercise the real rootmulti.Store over a
// larger space than the design model (more keys, 8-20 blocks, removals and re-insertions so
// that orphaned nodes exist across versions, reopen / rollback / historical views / crashes
// at database-write boundaries) and log one NDJSON event per specification action with the
// REAL results: contents read back from the stores, versions, and real hashes projected to
// small ids in order of first appearance.  The drivers keep no model of the expected
// results (only what they need to respect the enabling conditions: which blocks were
// decided, whether the process is up); TraceMultiStore.tla is the oracle.

type tracer struct {
	tw       *hx.TraceWriter
	rep      *hx.Report
	w        *world
	rng      *rand.Rand
	nk       int
	ntk      int
	hids     map[string]int // real hash -> small id (per trace)
	chain    [][]write      // decided blocks
	blk      []write        // persistent writes of the block being built
	reexe    bool           // the pending decided block has been re-executed
	freeV    map[int]bool   // open view slots
	maxViews int
	failed   bool
	lastW    int // database writes performed by the last uninterrupted commit
}

func (t *tracer) hid(h []byte) int {
	if len(h) == 0 {
		return 0
	}
	k := hex.EncodeToString(h)
	if id, ok := t.hids[k]; ok {
		return id
	}
	id := len(t.hids) + 1
	t.hids[k] = id
	return id
}

func (t *tracer) emit(ev map[string]interface{}) {
	t.tw.Emit(ev)
	t.rep.Steps++
	t.rep.OpCounts[fmt.Sprint(ev["op"])]++
	if _, bad := ev["fail"]; bad {
		t.failed = true
	}
}

// try runs f and converts a panic of the real code into a "fail" field of the event.
func try(ev map[string]interface{}, f func()) {
	defer func() {
		if r := recover(); r != nil {
			ev["fail"] = fmt.Sprintf("panic: %v", r)
		}
	}()
	f()
}

func (t *tracer) dumpAll(get func(name string) ([]int, string)) (map[string][]int, string) {
	out := map[string][]int{}
	for _, name := range t.w.names {
		c, bad := get(name)
		if bad != "" {
			return nil, name + ": " + bad
		}
		out[name] = c
	}
	return out, ""
}

func (t *tracer) latest() int { return int(t.w.n.ms.LastCommitID().Version) }

func (t *tracer) write(s string, k, v int) {
	op := "Set"
	if v == 0 {
		op = "Del"
	}
	ev := map[string]interface{}{"op": op, "s": s, "k": k, "v": v}
	try(ev, func() { t.w.apply(t.w.n, []write{{s, k, v}}) })
	t.blk = append(t.blk, write{s, k, v})
	t.emit(ev)
}

func (t *tracer) twrite(k, v int) {
	op := "TSet"
	if v == 0 {
		op = "TDel"
	}
	ev := map[string]interface{}{"op": op, "k": k, "v": v}
	try(ev, func() {
		if v == 0 {
			t.w.n.del(transientName, t.w.tkeys[k-1])
		} else {
			t.w.n.set(transientName, t.w.tkeys[k-1], t.w.val(v))
		}
	})
	t.emit(ev)
}

func blkJSON(b []write) []interface{} {
	out := []interface{}{}
	for _, x := range b {
		out = append(out, map[string]interface{}{"s": x.s, "k": x.k, "v": x.v})
	}
	return out
}

func (t *tracer) reexecute() {
	ver := t.latest() + 1
	b := t.chain[ver-1]
	ev := map[string]interface{}{"op": "ReExecute", "ver": ver, "blk": blkJSON(b)}
	try(ev, func() { t.w.apply(t.w.n, b) })
	t.blk = append([]write{}, b...)
	t.reexe = true
	t.emit(ev)
}

// commit runs the real Commit, interrupted after `limit` database writes (limit < 0: not
// interrupted), and logs it split the way the specification splits it: BeginCommit,
// CommitSub per substore in the OBSERVED order of the database writes, Flush or Crash.
func (t *tracer) commit(limit int) {
	w := t.w
	ver := t.latest() + 1
	isNew := ver > len(t.chain)
	bev := map[string]interface{}{"op": "BeginCommit", "ver": ver, "new": isNew, "blk": blkJSON(t.blk)}
	if isNew {
		t.chain = append(t.chain, append([]write{}, t.blk...))
		try(bev, func() {
			id, subs := w.refExecute(t.blk)
			rs := map[string]int{}
			for name, h := range subs {
				rs[name] = t.hid(h)
			}
			bev["rsub"], bev["rhid"], bev["rver"] = rs, t.hid(id.Hash), id.Version
		})
	}
	t.emit(bev)
	var res commitResult
	cev := map[string]interface{}{}
	try(cev, func() { res = w.n.commit(limit) })
	t.lastW = len(res.writes)
	if f, bad := cev["fail"]; bad {
		t.emit(map[string]interface{}{"op": "Flush", "ver": ver, "fail": f})
		return
	}
	seen := map[string]bool{}
	proto := ""
	for i, wr := range res.writes {
		if wr.Kind != "batch" || len(wr.Owners) != 1 {
			proto = fmt.Sprintf("write %d: kind %s owners %v", i, wr.Kind, wr.Owners)
			break
		}
		o := wr.Owners[0]
		if o == "multi" {
			if res.crashed || i != len(res.writes)-1 {
				proto = fmt.Sprintf("write %d goes to the multistore records before the substores are done", i)
			}
			break
		}
		if seen[o] {
			proto = "two writes for substore " + o
			break
		}
		seen[o] = true
		t.emit(map[string]interface{}{"op": "CommitSub", "s": o, "wrote": true})
	}
	if proto != "" {
		t.emit(map[string]interface{}{"op": "Protocol", "detail": proto, "writes": res.writes})
	}
	if res.crashed {
		ev := map[string]interface{}{"op": "Crash", "phase": "commit", "n": limit, "latest": -1}
		try(ev, func() {
			nv := map[string]int{}
			for _, name := range w.names {
				nv[name] = len(rootVersions(w.n.be.db(), name))
			}
			ev["nv"] = nv
			di, err := readDiskInfo(w.n.be.db(), ver+1)
			if err != nil {
				panic(err)
			}
			ev["latest"] = di.Latest
		})
		t.emit(ev)
		t.blk, t.reexe = nil, false
		t.freeV = map[int]bool{}
		return
	}
	// substores whose SaveVersion found the version already in the database (no write)
	for _, name := range w.names {
		if !seen[name] {
			t.emit(map[string]interface{}{"op": "CommitSub", "s": name, "wrote": false})
		}
	}
	ev := map[string]interface{}{"op": "Flush", "ver": res.id.Version, "hid": t.hid(res.id.Hash)}
	try(ev, func() {
		n := w.n
		sub, sv := map[string]int{}, map[string]int{}
		for _, name := range w.names {
			cid := n.ms.GetCommitStore(n.keys[name]).LastCommitID()
			sub[name], sv[name] = t.hid(cid.Hash), int(cid.Version)
		}
		ev["sub"], ev["sv"] = sub, sv
		last := n.ms.LastCommitID()
		ev["lastver"], ev["lasthid"] = last.Version, t.hid(last.Hash)
		di, err := readDiskInfo(n.be.db(), int(res.id.Version))
		if err != nil {
			panic(err)
		}
		ev["latest"] = di.Latest
		info := di.Infos[int(res.id.Version)]
		if info == nil {
			info = map[string]int{}
		}
		ev["info"] = info
		ev["infohid"] = t.hid(di.Hashes[int(res.id.Version)])
		c, bad := t.dumpAll(func(name string) ([]int, string) { return w.contents(n.ms.GetKVStore(n.keys[name]), w.keys) })
		if bad != "" {
			panic(bad)
		}
		ev["c"] = c
		tc, bad := w.contents(n.ms.GetKVStore(n.keys[transientName]), w.tkeys)
		if bad != "" {
			panic(bad)
		}
		ev["t"] = tc
		extra, _ := readAll(n.ms.GetKVStore(n.keys[transientName]), nil)
		ev["tn"] = len(extra)
	})
	t.emit(ev)
	t.blk, t.reexe = nil, false
}

func (t *tracer) stop(op string) {
	t.emit(map[string]interface{}{"op": op, "phase": "idle"})
	t.w.n.down()
	t.blk, t.reexe = nil, false
	t.freeV = map[int]bool{}
}

// reopen = new process; `full` also reads every retained version back through LoadVersion(v).
func (t *tracer) reopen(full bool) {
	w := t.w
	ev := map[string]interface{}{"op": "Reopen"}
	try(ev, func() {
		if err := w.n.open(); err != nil {
			panic("LoadLatestVersion: " + err.Error())
		}
		n := w.n
		last := n.ms.LastCommitID()
		ev["ver"], ev["hid"] = last.Version, t.hid(last.Hash)
		sub, sv := map[string]int{}, map[string]int{}
		for _, name := range w.names {
			cid := n.ms.GetCommitStore(n.keys[name]).LastCommitID()
			sub[name], sv[name] = t.hid(cid.Hash), int(cid.Version)
		}
		ev["sub"], ev["sv"] = sub, sv
		for _, v := range sv {
			if int64(v) > last.Version && last.Version == 0 {
				// directly observable inconsistency (a substore is ahead of a multistore that never
				// committed): this trace ends here, whatever the specification makes of it
				t.failed = true
			}
		}
		c, bad := t.dumpAll(func(name string) ([]int, string) { return w.contents(n.ms.GetKVStore(n.keys[name]), w.keys) })
		if bad != "" {
			panic(bad)
		}
		ev["c"] = c
		extra, _ := readAll(n.ms.GetKVStore(n.keys[transientName]), nil)
		ev["tn"] = len(extra)
		vers := []interface{}{}
		if full {
			for v := 1; v <= int(last.Version); v++ {
				ms, keys, err := w.loadAt(v)
				if err != nil {
					panic(fmt.Sprintf("LoadVersion(%d): %v", v, err))
				}
				cid := ms.LastCommitID()
				cv, bad := t.dumpAll(func(name string) ([]int, string) { return w.contents(ms.GetKVStore(keys[name]), w.keys) })
				if bad != "" {
					panic(bad)
				}
				vers = append(vers, map[string]interface{}{"ver": cid.Version, "hid": t.hid(cid.Hash), "c": cv})
			}
		}
		ev["vers"] = vers
	})
	t.emit(ev)
}

func (t *tracer) rollback(v int) {
	w := t.w
	wasup := w.n.up()
	ev := map[string]interface{}{"op": "Rollback", "v": v, "wasup": wasup}
	try(ev, func() {
		err, _ := w.n.rollback(v, !(wasup && w.v.liveRB))
		if err != nil {
			panic("RollbackVersion: " + err.Error())
		}
		nv := map[string]int{}
		for _, name := range w.names {
			vs := rootVersions(w.n.be.db(), name)
			nv[name] = len(vs)
			for i, x := range vs {
				if x != i+1 {
					panic(fmt.Sprintf("substore %s has versions %v", name, vs))
				}
			}
		}
		ev["nv"] = nv
		di, err := readDiskInfo(w.n.be.db(), len(t.chain)+2)
		if err != nil {
			panic(err)
		}
		ev["latest"] = di.Latest
		infos := []int{}
		for x := range di.Infos {
			infos = append(infos, x)
		}
		sort.Ints(infos)
		ev["infos"] = infos
	})
	t.emit(ev)
	t.blk, t.reexe = nil, false
	t.freeV = map[int]bool{}
}

func (t *tracer) fork() {
	ver := t.latest()
	ev := map[string]interface{}{"op": "Fork", "ver": ver}
	try(ev, func() { t.w.refFork(ver) })
	t.chain = t.chain[:ver]
	t.emit(ev)
}

func (t *tracer) freeSlot() int {
	for r := 1; r <= t.maxViews; r++ {
		if !t.freeV[r] {
			return r
		}
	}
	return 0
}

// lazyTry opens a historical view at v (kept in a slot when v <= latest and it opened).
func (t *tracer) lazyTry(v int) {
	w := t.w
	r := t.freeSlot()
	if r == 0 {
		return
	}
	keep := v <= t.latest()
	ev := map[string]interface{}{"op": "LazyTry", "r": r, "v": v, "keep": keep}
	try(ev, func() {
		err := w.n.lazyLoad(r, v, w.v.entry)
		ev["ok"] = err == nil
		if err != nil {
			ev["err"] = err.Error()
		}
		// the other entry point must agree on whether the version can be opened
		other := "cmsv"
		if w.v.entry == "cmsv" {
			other = "lazy"
		}
		err2 := w.n.lazyLoad(-1, v, other)
		delete(w.n.views, -1)
		if (err2 == nil) != (err == nil) {
			panic(fmt.Sprintf("LoadLazyVersion and CacheMultiStoreWithVersion disagree on version %d: %v / %v", v, err, err2))
		}
		if err == nil && !keep {
			delete(w.n.views, r)
		}
		if err == nil && keep {
			t.freeV[r] = true
		}
	})
	t.emit(ev)
}

func (t *tracer) histGet(r int, s string, k int) {
	w := t.w
	ev := map[string]interface{}{"op": "HistGet", "r": r, "s": s, "k": k}
	try(ev, func() {
		vw := w.n.views[r]
		st := vw.kv(s)
		key := w.key(k)
		g, _ := st.Get(key)
		ret := w.valIdx(g)
		if h, _ := st.Has(key); h != (g != nil) {
			panic("Has and Get disagree on a historical view")
		}
		qv, qlog := w.n.queryAt(s, key, vw.ver)
		if !bytes.Equal(qv, g) {
			panic(fmt.Sprintf("store query at height %d returns %x (%s), the view %x", vw.ver, qv, qlog, g))
		}
		ev["ret"] = ret
	})
	t.emit(ev)
}

func (t *tracer) histIter(r int, s string, lo, hi int, asc bool) {
	w := t.w
	ev := map[string]interface{}{"op": "HistIter", "r": r, "s": s, "lo": lo, "hi": hi, "asc": asc}
	try(ev, func() {
		st := w.n.views[r].kv(s)
		var lob, hib []byte
		if lo >= 1 {
			lob = w.key(lo)
		}
		if hi <= len(w.keys) {
			hib = w.key(hi)
		}
		got := []int{}
		touch(st, w.keys)
		if asc {
			it, _ := st.Iterator(lob, hib)
			for ; it.Valid(); it.Next() {
				got = append(got, keyIdxIn(w.keys, it.Key()), w.valIdx(it.Value()))
			}
			it.Close()
		} else {
			it, _ := st.ReverseIterator(lob, hib)
			for ; it.Valid(); it.Next() {
				got = append(got, keyIdxIn(w.keys, it.Key()), w.valIdx(it.Value()))
			}
			it.Close()
		}
		ev["ret"] = got
	})
	t.emit(ev)
}

func (t *tracer) dropView(r int) {
	delete(t.w.n.views, r)
	delete(t.freeV, r)
	t.emit(map[string]interface{}{"op": "DropView", "r": r})
}

func (t *tracer) openSlots() []int {
	var out []int
	for r := range t.freeV {
		out = append(out, r)
	}
	sort.Ints(out)
	return out
}

// randomBlockWrites performs the persistent writes of one block: a mix of fresh inserts,
// overwrites, removals and re-insertions of earlier removed keys.
func (t *tracer) randomWrite() {
	s := t.w.names[t.rng.Intn(len(t.w.names))]
	k := 1 + t.rng.Intn(t.nk)
	if t.rng.Intn(100) < 35 {
		t.write(s, k, 0)
	} else {
		t.write(s, k, 1+t.rng.Intn(3))
	}
}

func (t *tracer) randomRead() {
	slots := t.openSlots()
	if len(slots) == 0 {
		return
	}
	r := slots[t.rng.Intn(len(slots))]
	s := t.w.names[t.rng.Intn(len(t.w.names))]
	if t.rng.Intn(2) == 0 {
		t.histGet(r, s, 1+t.rng.Intn(t.nk))
		return
	}
	lo, hi := t.rng.Intn(t.nk+1), 1+t.rng.Intn(t.nk+1)
	if t.rng.Intn(3) == 0 {
		lo = 0
	}
	if t.rng.Intn(3) == 0 {
		hi = t.nk + 1
	}
	t.histIter(r, s, lo, hi, t.rng.Intn(2) == 0)
}

// auditViews reads every open historical view completely (every substore, by range and by key).
func (t *tracer) auditViews() {
	for _, r := range t.openSlots() {
		for _, s := range t.w.names {
			if t.failed {
				return
			}
			t.histIter(r, s, 0, t.nk+1, t.rng.Intn(2) == 0)
		}
		t.histGet(r, t.w.names[t.rng.Intn(len(t.w.names))], 1+t.rng.Intn(t.nk))
	}
}

func (t *tracer) begin(v variant, names []string, scratch string, salt int64) {
	t.rng = hx.Rng(salt)
	t.w = newWorld(v, names, t.nk, t.ntk, t.rng, 0, scratch)
	t.hids = map[string]int{}
	t.chain, t.blk, t.reexe = nil, nil, false
	t.freeV = map[int]bool{}
	t.failed = false
	t.tw.Emit(map[string]interface{}{"op": "reset", "variant": v.name})
	if err := t.w.n.open(); err != nil {
		hx.Fatal("initial open: %v", err)
	}
}

func (t *tracer) end() {
	t.w.destroy()
	t.rep.Behaviours++
}

// finalAudit: clean restart with a read-back of every retained version, then one historical
// view per version read completely.
func (t *tracer) finalAudit() {
	if t.failed {
		return
	}
	if t.w.n.up() {
		t.stop("Close")
	}
	t.reopen(true)
	if t.failed {
		return
	}
	for v := 1; v <= t.latest() && !t.failed; v++ {
		t.lazyTry(v)
		for _, r := range t.openSlots() {
			for _, s := range t.w.names {
				t.histIter(r, s, 0, t.nk+1, v%2 == 0)
			}
			t.dropView(r)
		}
	}
	t.lazyTry(t.latest() + 1)
}

// ---------------------------------------------------------------------------------------
// random driver

func (t *tracer) runRandom(maxBlocks int) {
	target := 8 + t.rng.Intn(maxBlocks-7)
	K := len(t.w.names) + 1
	forkAllowed := false
	for steps := 0; steps < 3000 && !t.failed; steps++ {
		n := t.w.n
		if !n.up() {
			t.reopen(t.rng.Intn(4) == 0)
			continue
		}
		latest := t.latest()
		catching := latest < len(t.chain)
		if !catching && len(t.chain) >= target && len(t.blk) == 0 {
			break
		}
		r := t.rng.Intn(100)
		switch {
		case catching && !t.reexe && r < 55:
			if len(t.chain[latest]) == 0 {
				t.reexe = true
			} else {
				t.reexecute()
			}
		case catching && !t.reexe && r < 62 && forkAllowed:
			// only when nothing above the loaded version is left in the database (after a rollback)
			t.fork()
			forkAllowed = false
		case catching && !t.reexe:
			// a few reads / transient writes before re-executing
			if r < 80 {
				t.randomRead()
			} else {
				t.twrite(1+t.rng.Intn(t.ntk), t.rng.Intn(3))
			}
		case r < 38 && !catching:
			if len(t.blk) < 12 {
				t.randomWrite()
			}
		case r < 46:
			t.twrite(1+t.rng.Intn(t.ntk), t.rng.Intn(3))
		case r < 64:
			// commit, possibly interrupted
			if catching && !t.reexe {
				continue
			}
			forkAllowed = false
			if t.rng.Intn(100) < 30 {
				t.commit(t.rng.Intn(K)) // stops after 0..K-1 database writes
			} else {
				t.commit(-1)
				if t.rng.Intn(10) == 0 {
					t.stop("Crash") // after the last write of the commit
				} else if t.rng.Intn(10) < 7 {
					t.auditViews() // every open view read completely after the newer version was saved
				}
			}
		case r < 67:
			if len(t.blk) == 0 && !catching {
				t.stop("Close")
			}
		case r < 69:
			t.stop("Crash")
		case r < 71:
			if latest >= 2 && len(t.blk) == 0 {
				t.rollback(1 + t.rng.Intn(latest-1))
				forkAllowed = true
			}
		case r < 82:
			if latest >= 1 {
				if t.rng.Intn(6) == 0 {
					t.lazyTry(latest + 1 + t.rng.Intn(2))
				} else {
					t.lazyTry(1 + t.rng.Intn(latest))
				}
			}
		case r < 98:
			t.randomRead()
		default:
			if sl := t.openSlots(); len(sl) > 0 {
				t.dropView(sl[t.rng.Intn(len(sl))])
			}
		}
	}
	// finish: catch up if necessary, then audit
	for !t.failed {
		if !t.w.n.up() {
			t.reopen(false)
			continue
		}
		if t.latest() >= len(t.chain) {
			break
		}
		if !t.reexe && len(t.chain[t.latest()]) > 0 {
			t.reexecute()
		}
		t.commit(-1)
	}
	t.finalAudit()
}

// ---------------------------------------------------------------------------------------
// crash sweep: one seeded history of B blocks; the history is first run uninterrupted to
// MEASURE the number K_b of database writes of each block's commit (K_b = persistent
// substores + 1 on the pinned tree); then for EVERY block b and EVERY boundary i in 0..K_b
// (i = 0 before the first write, i = K_b after the last one) one run: blocks 1..b-1 committed
// normally, the commit of block b stopped after i writes, reopen, re-execute, commit, b+1..B.

func genHistory(rng *rand.Rand, names []string, nk, blocks int) [][]write {
	var h [][]write
	for b := 0; b < blocks; b++ {
		var blk []write
		n := rng.Intn(6)
		if b == 0 {
			n = 2 + rng.Intn(4)
		}
		for i := 0; i < n; i++ {
			s := names[rng.Intn(len(names))]
			k := 1 + rng.Intn(nk)
			v := 1 + rng.Intn(3)
			if rng.Intn(100) < 35 {
				v = 0
			}
			blk = append(blk, write{s, k, v})
		}
		h = append(h, blk)
	}
	return h
}

func (t *tracer) runBlock(b []write, limit int) {
	for _, x := range b {
		t.write(x.s, x.k, x.v)
	}
	t.twrite(1+t.rng.Intn(t.ntk), 1+t.rng.Intn(3))
	t.commit(limit)
}

// countWrites: the history once without interruption; returns the number of database writes
// each block's commit performed (the write boundaries the sweep enumerates).
func (t *tracer) countWrites(hist [][]write) []int {
	var counts []int
	for j := 0; j < len(hist) && !t.failed; j++ {
		t.runBlock(hist[j], -1)
		counts = append(counts, t.lastW)
	}
	t.finalAudit()
	return counts
}

// runSweepCase: the commit of block b stops after i of its K database writes (i = K: after the last one).
func (t *tracer) runSweepCase(hist [][]write, b, i, K int) {
	for j := 0; j < len(hist) && !t.failed; j++ {
		if j != b {
			t.runBlock(hist[j], -1)
			continue
		}
		if i < K {
			t.runBlock(hist[j], i)
		} else {
			t.runBlock(hist[j], -1)
			t.stop("Crash")
		}
		if t.w.n.up() { // fewer writes than measured: the commit completed
			t.stop("Crash")
		}
		t.reopen(true)
		if t.failed {
			return
		}
		if t.latest() < len(t.chain) {
			if len(t.chain[t.latest()]) > 0 {
				t.reexecute()
			}
			t.twrite(1, 2)
			t.commit(-1)
		}
	}
	t.finalAudit()
}

// rollback sweep: for every latest height L and every target v < L: L blocks, rollback to v,
// reopen, versions above v must not open, re-apply blocks v+1..B, audit.
func (t *tracer) runRollbackCase(hist [][]write, L, v int) {
	for j := 0; j < L && !t.failed; j++ {
		t.runBlock(hist[j], -1)
	}
	if t.failed {
		return
	}
	if (L+v)%2 == 0 {
		t.stop("Close")
	}
	t.rollback(v)
	t.reopen(true)
	if t.failed {
		return
	}
	t.lazyTry(v + 1)
	t.lazyTry(L)
	for j := v; j < len(hist) && !t.failed; j++ {
		if j < L {
			if len(t.chain[j]) > 0 {
				t.reexecute()
			}
			t.commit(-1)
		} else {
			t.runBlock(hist[j], -1)
		}
	}
	t.finalAudit()
}

func trace(out string, n int, mode string, names []string, nk, ntk, blocks int, variants []string, scratch string) {
	tw, err := hx.NewTraceWriter(out)
	if err != nil {
		hx.Fatal("%v", err)
	}
	rep := hx.NewReport("mstore", "trace-"+mode)
	t := &tracer{tw: tw, rep: rep, nk: nk, ntk: ntk, maxViews: 3}
	cases := 0
	switch mode {
	case "random":
		for i := 0; i < n; i++ {
			t.begin(parseVariant(variants[i%len(variants)]), names, scratch, int64(i))
			t.runRandom(blocks)
			t.end()
		}
	case "sweep":
		for h := 0; h < n; h++ {
			hist := genHistory(hx.Rng(int64(1000+h)), names, nk, blocks)
			t.begin(parseVariant(variants[h%len(variants)]), names, scratch, int64(h*100000+99999))
			counts := t.countWrites(hist)
			t.end()
			for b := 0; b < len(counts); b++ {
				for i := 0; i <= counts[b]; i++ {
					t.begin(parseVariant(variants[(h+cases)%len(variants)]), names, scratch, int64(h*100000+b*100+i))
					t.runSweepCase(hist, b, i, counts[b])
					t.end()
					cases++
				}
			}
		}
	case "rbsweep":
		for h := 0; h < n; h++ {
			hist := genHistory(hx.Rng(int64(2000+h)), names, nk, blocks)
			for L := 2; L <= len(hist); L++ {
				for v := 1; v < L; v++ {
					t.begin(parseVariant(variants[(h+cases)%len(variants)]), names, scratch, int64(h*100000+L*100+v))
					t.runRollbackCase(hist, L, v)
					t.end()
					cases++
				}
			}
		}
	default:
		hx.Fatal("unknown trace mode %q", mode)
	}
	if err := tw.Close(); err != nil {
		hx.Fatal("%v", err)
	}
	rep.Extra["events"] = tw.N
	rep.Extra["cases"] = cases
	rep.Print()
}
