package main

import (
	"bytes"
	"fmt"
	"strings"

	dbm "github.com/tendermint/tm-db"
)

// crashDB is the fault-injecting database wrapper of the mstore engine (C07).  It sits
// between rootmulti.Store (and the prefix DBs of its substores) and the real database and
// counts every call that *modifies* the database: Set, SetSync, Delete, DeleteSync and
// Batch.Write / WriteSync (one batch write = one atomic modification, which is what memdb
// and goleveldb guarantee).  When armed with limit n it lets n modifications through and
// panics with crashSignal on the attempt to perform modification n+1, before anything of
// it reaches the database: "the process stopped after the n-th database write".
//
// It also records, for every modification, its kind and which substores' key spaces it
// touched, so that the harness can (a) verify what the write boundaries of a commit are
// and (b) observe in which order rootmulti.Store.Commit (which ranges over a Go map)
// committed the substores.
type crashDB struct {
	inner dbm.DB
	armed bool
	limit int
	count int       // modifications that reached the database since arm()
	log   []writeOp // one entry per modification since arm()
}

type writeOp struct {
	Kind   string   `json:"kind"`   // set | delete | batch
	Owners []string `json:"owners"` // substore names / "multi" (commit info, latest version)
	NOps   int      `json:"nops"`   // operations in the batch (1 for direct calls)
}

type crashSignal struct{ after int }

func newCrashDB(inner dbm.DB) *crashDB { return &crashDB{inner: inner} }

// arm starts counting; limit < 0 = count only, never crash.
func (c *crashDB) arm(limit int) {
	c.armed, c.limit, c.count, c.log = true, limit, 0, nil
}

func (c *crashDB) disarm() { c.armed = false }

// ownerOf maps a raw database key to the substore whose key space it belongs to.
func ownerOf(key []byte) string {
	s := string(key)
	if strings.HasPrefix(s, "s/k:") {
		rest := s[4:]
		if i := strings.IndexByte(rest, '/'); i >= 0 {
			return rest[:i]
		}
	}
	return "multi"
}

func addOwner(owners []string, o string) []string {
	for _, x := range owners {
		if x == o {
			return owners
		}
	}
	return append(owners, o)
}

// before is called before every modification; it panics when the budget is used up.
func (c *crashDB) before(kind string, owners []string, nops int) {
	if !c.armed {
		return
	}
	if c.limit >= 0 && c.count >= c.limit {
		panic(crashSignal{after: c.count})
	}
	c.count++
	c.log = append(c.log, writeOp{Kind: kind, Owners: owners, NOps: nops})
}

func (c *crashDB) Get(k []byte) ([]byte, error) { return c.inner.Get(k) }
func (c *crashDB) Has(k []byte) (bool, error)   { return c.inner.Has(k) }
func (c *crashDB) Set(k, v []byte) error {
	c.before("set", []string{ownerOf(k)}, 1)
	return c.inner.Set(k, v)
}
func (c *crashDB) SetSync(k, v []byte) error {
	c.before("set", []string{ownerOf(k)}, 1)
	return c.inner.SetSync(k, v)
}
func (c *crashDB) Delete(k []byte) error {
	c.before("delete", []string{ownerOf(k)}, 1)
	return c.inner.Delete(k)
}
func (c *crashDB) DeleteSync(k []byte) error {
	c.before("delete", []string{ownerOf(k)}, 1)
	return c.inner.DeleteSync(k)
}
func (c *crashDB) Iterator(s, e []byte) (dbm.Iterator, error) { return c.inner.Iterator(s, e) }
func (c *crashDB) ReverseIterator(s, e []byte) (dbm.Iterator, error) {
	return c.inner.ReverseIterator(s, e)
}
func (c *crashDB) Close() error             { return nil } // the harness owns the inner database
func (c *crashDB) Print() error             { return c.inner.Print() }
func (c *crashDB) Stats() map[string]string { return c.inner.Stats() }
func (c *crashDB) NewBatch() dbm.Batch {
	return &crashBatch{c: c, inner: c.inner.NewBatch()}
}

type crashBatch struct {
	c      *crashDB
	inner  dbm.Batch
	owners []string
	nops   int
}

func (b *crashBatch) Set(k, v []byte) {
	b.owners = addOwner(b.owners, ownerOf(k))
	b.nops++
	b.inner.Set(k, v)
}
func (b *crashBatch) Delete(k []byte) {
	b.owners = addOwner(b.owners, ownerOf(k))
	b.nops++
	b.inner.Delete(k)
}
func (b *crashBatch) Write() error {
	b.c.before("batch", b.owners, b.nops)
	return b.inner.Write()
}
func (b *crashBatch) WriteSync() error {
	b.c.before("batch", b.owners, b.nops)
	return b.inner.WriteSync()
}
func (b *crashBatch) Close() { b.inner.Close() }

// ---------------------------------------------------------------------------------------
// raw read-only projections of the database (what survives a crash)

// rootVersions lists the versions of substore `name` that have a root record on disk
// (iavl root key = 'r' + 8-byte big-endian version under the substore prefix).
func rootVersions(db dbm.DB, name string) []int {
	prefix := []byte("s/k:" + name + "/r")
	end := append([]byte{}, prefix...)
	end[len(end)-1]++
	it, err := db.Iterator(prefix, end)
	if err != nil {
		panic(err)
	}
	defer it.Close()
	var out []int
	for ; it.Valid(); it.Next() {
		k := it.Key()
		if !bytes.HasPrefix(k, prefix) || len(k) != len(prefix)+8 {
			panic(fmt.Sprintf("unexpected root key %x", k))
		}
		v := 0
		for _, b := range k[len(prefix):] {
			v = v<<8 | int(b)
		}
		out = append(out, v)
	}
	return out
}
