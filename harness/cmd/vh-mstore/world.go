package main

import (
	"bytes"
	"fmt"
	"math/rand"
	"os"
	"path/filepath"
	"sort"
	"strings"
	"sync/atomic"

	"github.com/pokt-network/pocket-core/store/rootmulti"
	"github.com/pokt-network/pocket-core/store/types"
	dbm "github.com/tendermint/tm-db"
)

// keyPool: ordered pool of byte-string keys (prefix-related members, 0x00/0xff boundaries);
// a universe of NK keys is a sorted subset of it, so abstract key order = byte order.
var keyPool = [][]byte{
	{0x00}, {0x00, 0x00}, {0x00, 0x01}, []byte("a"), []byte("a\x00"), []byte("a\x00\x00"),
	[]byte("aa"), []byte("ab"), []byte("b"), []byte("b\xff"), []byte("b\xff\xff"), []byte("c"),
	[]byte("ca"), []byte("d"), []byte("key-with-a-longer-name/0001"), []byte("key-with-a-longer-name/0002"),
	{0xfe}, {0xff}, {0xff, 0x00}, {0xff, 0xff},
}

func universe(nk int, rng *rand.Rand) [][]byte {
	if nk > len(keyPool) {
		panic(fmt.Sprintf("nk %d larger than key pool", nk))
	}
	idx := rng.Perm(len(keyPool))[:nk]
	sort.Ints(idx)
	u := make([][]byte, nk)
	for i, j := range idx {
		u[i] = keyPool[j]
	}
	return u
}

// variant = how one abstract behaviour is realised on the real code.
//
//	mem | ldb      database back end (memdb; goleveldb in a scratch directory, reopen = close + open)
//	cms            block writes go through Store.CacheMultiStore().Write() instead of directly
//	c2             IAVL node cache of 2 nodes: children are (re)read from the database all the time
//	cmsv           historical views through CacheMultiStoreWithVersion instead of LoadLazyVersion
//	liverb         RollbackVersion runs on the live Store object when the process is up
//	hc             the node under test runs with the height cache on (rootmulti.NewStore(db, true, ..)); the
//	               reference node never does.  Used for C09 (historical reads), where the cache serves the reads.
//	@N             (replay) the variant is applied to every N-th behaviour only
type variant struct {
	name   string
	ldb    bool
	viaCMS bool
	cache  int64
	entry  string
	liveRB bool
	hcache bool
	every  int // replay: apply to every N-th behaviour only ("ldb@40")
}

func parseVariant(s string) variant {
	v := variant{name: s, cache: 100000, entry: "lazy", every: 1}
	if i := strings.IndexByte(s, '@'); i >= 0 {
		fmt.Sscanf(s[i+1:], "%d", &v.every)
		if v.every < 1 {
			v.every = 1
		}
		s = s[:i]
	}
	for _, p := range strings.Split(s, "-") {
		switch p {
		case "mem":
		case "ldb":
			v.ldb = true
		case "cms":
			v.viaCMS = true
		case "c2":
			v.cache = 2
		case "cmsv":
			v.entry = "cmsv"
		case "liverb":
			v.liveRB = true
		case "hc":
			v.hcache = true
		default:
			panic("unknown variant part " + p)
		}
	}
	return v
}

// world = node under test + reference node + the mapping abstract <-> concrete.
type world struct {
	v       variant
	names   []string
	keys    [][]byte // index k-1
	tkeys   [][]byte
	n       *node
	ref     *node
	scratch string

	refChain [][]write         // blocks executed by the reference node
	refApp   map[int][]byte    // version -> reference app hash
	subHash  map[int][]byte    // sub-digest id -> real IAVL root hash
	appHash  map[string][]byte // ids of all substores -> real app hash
}

type write struct {
	s string
	k int
	v int
}

func permutations(xs []string) [][]string {
	if len(xs) <= 1 {
		return [][]string{append([]string{}, xs...)}
	}
	var out [][]string
	for i := range xs {
		rest := append(append([]string{}, xs[:i]...), xs[i+1:]...)
		for _, p := range permutations(rest) {
			out = append(out, append([]string{xs[i]}, p...))
		}
	}
	return out
}

func newWorld(v variant, names []string, nk, ntk int, rng *rand.Rand, attempt int, scratch string) *world {
	w := &world{v: v, names: names, scratch: scratch, refApp: map[int][]byte{}, subHash: map[int][]byte{}, appHash: map[string][]byte{}}
	w.subHash[1] = nil // id 1 = "no version saved": the nil hash (digs is initialised with the empty digest)
	w.keys = universe(nk, rng)
	for i := 0; i < ntk; i++ {
		w.tkeys = append(w.tkeys, []byte(fmt.Sprintf("tk-%d", i+1)))
	}
	perms := permutations(append(append([]string{}, names...), transientName))
	mount := perms[(attempt+int(rng.Int31n(1<<20)))%len(perms)]
	o := nodeOpts{names: names, mount: mount, cacheSize: v.cache, viaCMS: v.viaCMS, heightCache: v.hcache}
	w.n = newNode(w.newBackend(), o)
	w.ref = newNode(&memBackend{dbm.NewMemDB()}, nodeOpts{names: names, mount: perms[0], cacheSize: 100000, viaCMS: v.viaCMS})
	return w
}

var dirSeq int64 // process-wide: worlds are created concurrently

func (w *world) newBackend() backend {
	if w.v.ldb {
		n := atomic.AddInt64(&dirSeq, 1)
		return newLevelBackend(filepath.Join(w.scratch, fmt.Sprintf("ldb-%d-%d", os.Getpid(), n)))
	}
	return &memBackend{dbm.NewMemDB()}
}

func (w *world) destroy() {
	if w.n != nil {
		w.n.be.destroy()
	}
}

func (w *world) key(k int) []byte { return w.keys[k-1] }
func (w *world) val(v int) []byte { return []byte(fmt.Sprintf("val-%d", v)) }
func (w *world) valIdx(b []byte) int {
	if b == nil {
		return 0
	}
	var v int
	if n, _ := fmt.Sscanf(string(b), "val-%d", &v); n == 1 {
		return v
	}
	return -2
}
func keyIdxIn(u [][]byte, b []byte) int {
	for i, k := range u {
		if bytes.Equal(k, b) {
			return i + 1
		}
	}
	return -2
}

// contents reads a KVStore completely (four ways) and returns value indices per abstract key.
func (w *world) contents(st types.KVStore, u [][]byte) ([]int, string) {
	pairs, bad := readAll(st, u)
	if bad != "" {
		return nil, bad
	}
	out := make([]int, len(u))
	for _, p := range pairs {
		ki := keyIdxIn(u, p[0])
		if ki < 0 {
			return nil, fmt.Sprintf("key outside the universe: %x", p[0])
		}
		out[ki-1] = w.valIdx(p[1])
	}
	return out, ""
}

func (w *world) apply(n *node, ws []write) {
	for _, x := range ws {
		if x.v == 0 {
			n.del(x.s, w.key(x.k))
		} else {
			n.set(x.s, w.key(x.k), w.val(x.v))
		}
	}
}

// refExecute lets the reference node execute one block: the same persistent writes, but its
// own, different transient writes; it is never reopened, crashed or rolled back.
func (w *world) refExecute(ws []write) (types.CommitID, map[string][]byte) {
	if !w.ref.up() {
		if err := w.ref.open(); err != nil {
			panic(fmt.Sprintf("reference node: %v", err))
		}
	}
	ver := len(w.refChain) + 1
	w.ref.set(transientName, []byte("ref-only"), []byte(fmt.Sprintf("junk-%d", ver)))
	w.ref.set(transientName, []byte(fmt.Sprintf("ref-%d", ver)), []byte("x"))
	w.apply(w.ref, ws)
	w.ref.set(transientName, []byte("ref-after"), []byte("y"))
	r := w.ref.commit(-1)
	w.refChain = append(w.refChain, ws)
	w.refApp[ver] = r.id.Hash
	subs := map[string][]byte{}
	for _, name := range w.names {
		subs[name] = w.ref.ms.GetCommitStore(w.ref.keys[name]).LastCommitID().Hash
	}
	return r.id, subs
}

// refFork rebuilds the reference node as a node that only ever executed the first `ver` blocks.
func (w *world) refFork(ver int) {
	chain := w.refChain[:ver]
	w.refChain = nil
	w.refApp = map[int][]byte{}
	w.ref = newNode(&memBackend{dbm.NewMemDB()}, w.ref.opts)
	for _, b := range chain {
		w.refExecute(b)
	}
}

// loadAt opens an independent Store object on the node's database at version v (LoadVersion).
func (w *world) loadAt(v int) (*rootmulti.Store, map[string]types.StoreKey, error) {
	ms, keys, _ := w.n.newStoreObject()
	if err := ms.LoadVersion(int64(v)); err != nil {
		return nil, nil, err
	}
	return ms, keys, nil
}
