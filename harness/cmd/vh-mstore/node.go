package main

import (
	"bytes"
	"fmt"
	"os"
	"sort"

	"github.com/pokt-network/pocket-core/codec"
	cdctypes "github.com/pokt-network/pocket-core/codec/types"
	"github.com/pokt-network/pocket-core/store/rootmulti"
	"github.com/pokt-network/pocket-core/store/types"
	sdk "github.com/pokt-network/pocket-core/types"
	abci "github.com/tendermint/tendermint/abci/types"
	dbm "github.com/tendermint/tm-db"
)

// ---------------------------------------------------------------------------------------
// database back ends: what survives when all in-memory store objects are dropped

type backend interface {
	db() dbm.DB // the open database
	restart()   // the process ended: close and open again (no-op for memdb)
	destroy()   // remove everything
	kind() string
}

type memBackend struct{ d *dbm.MemDB }

func (m *memBackend) db() dbm.DB   { return m.d }
func (m *memBackend) restart()     {}
func (m *memBackend) destroy()     {}
func (m *memBackend) kind() string { return "memdb" }

type levelBackend struct {
	dir string
	d   *dbm.GoLevelDB
}

func newLevelBackend(dir string) *levelBackend {
	if err := os.MkdirAll(dir, 0o755); err != nil {
		panic(err)
	}
	l := &levelBackend{dir: dir}
	l.open()
	return l
}
func (l *levelBackend) open() {
	d, err := dbm.NewGoLevelDB("app", l.dir)
	if err != nil {
		panic(fmt.Sprintf("goleveldb open: %v", err))
	}
	l.d = d
}
func (l *levelBackend) db() dbm.DB { return l.d }
func (l *levelBackend) restart() {
	if err := l.d.Close(); err != nil {
		panic(err)
	}
	l.open()
}
func (l *levelBackend) destroy() {
	_ = l.d.Close()
	_ = os.RemoveAll(l.dir)
}
func (l *levelBackend) kind() string { return "goleveldb" }

// ---------------------------------------------------------------------------------------
// node: one rootmulti.Store with IAVL substores and one transient store on one database

type nodeOpts struct {
	names       []string // persistent substore names
	mount       []string // mount order (a permutation of names + "t")
	heightCache bool     // height cache on (variant hc)
	cacheSize   int64    // IAVL node cache size (small = children are re-read from the database)
	viaCMS      bool     // block writes go through CacheMultiStore().Write() instead of directly to the substores
}

type view struct {
	ver   int
	kv    func(name string) types.KVStore
	entry string
}

type node struct {
	be    backend
	cdb   *crashDB
	opts  nodeOpts
	ms    *rootmulti.Store // nil = process down
	keys  map[string]types.StoreKey
	tkey  *types.TransientStoreKey
	cms   types.CacheMultiStore // pending block writes (viaCMS)
	views map[int]*view
}

const transientName = "t"

var infoCdc = codec.NewCodec(cdctypes.NewInterfaceRegistry())

func newNode(be backend, o nodeOpts) *node {
	return &node{be: be, cdb: newCrashDB(be.db()), opts: o, views: map[int]*view{}}
}

// newStoreObject builds a fresh rootmulti.Store with all substores mounted (not loaded).
func (n *node) newStoreObject() (*rootmulti.Store, map[string]types.StoreKey, *types.TransientStoreKey) {
	ms := rootmulti.NewStore(n.cdb, n.opts.heightCache /* on only in the "hc" variants of C09; C10 is another engine */, n.opts.cacheSize)
	keys := map[string]types.StoreKey{}
	var tkey *types.TransientStoreKey
	for _, name := range n.opts.mount {
		if name == transientName {
			tkey = types.NewTransientStoreKey(name)
			keys[name] = tkey
			ms.MountStoreWithDB(tkey, types.StoreTypeTransient, nil)
		} else {
			k := types.NewKVStoreKey(name)
			keys[name] = k
			ms.MountStoreWithDB(k, types.StoreTypeIAVL, nil)
		}
	}
	return ms, keys, tkey
}

// open = process start: new Store on the surviving database + LoadLatestVersion.
func (n *node) open() error {
	ms, keys, tkey := n.newStoreObject()
	if err := ms.LoadLatestVersion(); err != nil {
		return err
	}
	n.ms, n.keys, n.tkey = ms, keys, tkey
	n.cms = nil
	n.views = map[int]*view{}
	return nil
}

// down drops every in-memory object; the database "restarts" (close + open for goleveldb).
func (n *node) down() {
	n.closeViews()
	n.ms, n.keys, n.tkey, n.cms = nil, nil, nil, nil
	n.cdb.disarm()
	n.be.restart()
	n.cdb = newCrashDB(n.be.db())
}

func (n *node) closeViews() { n.views = map[int]*view{} }

func (n *node) up() bool { return n.ms != nil }

// wstore is the store block writes go to.
func (n *node) wstore(name string) types.KVStore {
	if n.opts.viaCMS {
		if n.cms == nil {
			n.cms = n.ms.CacheMultiStore()
		}
		return n.cms.GetKVStore(n.keys[name])
	}
	return n.ms.GetKVStore(n.keys[name])
}

func (n *node) set(name string, k, v []byte) { _ = n.wstore(name).Set(k, v) }
func (n *node) del(name string, k []byte)    { _ = n.wstore(name).Delete(k) }

type commitResult struct {
	crashed bool
	id      types.CommitID
	writes  []writeOp // database modifications performed by this Commit call
}

// commit runs the real rootmulti.Store.Commit.  limit >= 0: the process stops after `limit`
// database modifications (the panic raised by the wrapper is recovered here and every
// in-memory object is dropped); limit < 0: uninterrupted.
func (n *node) commit(limit int) (res commitResult) {
	if n.cms != nil {
		n.cms.Write()
		n.cms = nil
	}
	n.cdb.arm(limit)
	defer func() {
		res.writes = n.cdb.log
		n.cdb.disarm()
		if r := recover(); r != nil {
			if _, ok := r.(crashSignal); !ok {
				panic(r)
			}
			res.crashed = true
			n.down()
		}
	}()
	res.id = n.ms.Commit()
	return res
}

// rollback runs RollbackVersion on a fresh Store object (the way a maintenance tool would:
// new process, mount, roll back, exit) or on the running one, then drops all objects.
func (n *node) rollback(ver int, fresh bool) (err error, writes []writeOp) {
	ms := n.ms
	if fresh || ms == nil {
		ms, _, _ = n.newStoreObject()
	}
	n.cdb.arm(-1)
	err = ms.RollbackVersion(int64(ver))
	writes = n.cdb.log
	n.cdb.disarm()
	n.down()
	return err, writes
}

// ---------------------------------------------------------------------------------------
// historical views

func (n *node) lazyLoad(slot, ver int, entry string) error {
	switch entry {
	case "cmsv": // MultiStore.CacheMultiStoreWithVersion (SDK query path)
		c, err := n.ms.CacheMultiStoreWithVersion(int64(ver))
		if err != nil {
			return err
		}
		keys := n.keys
		n.views[slot] = &view{ver: ver, entry: entry, kv: func(name string) types.KVStore { return c.GetKVStore(keys[name]) }}
	default: // LoadLazyVersion: what Context.PrevCtx and baseapp custom queries use
		st, err := n.ms.LoadLazyVersion(int64(ver))
		if err != nil {
			return err
		}
		lms, ok := (*st).(*rootmulti.Store)
		if !ok {
			return fmt.Errorf("LoadLazyVersion returned %T", *st)
		}
		keys := n.keys
		n.views[slot] = &view{ver: ver, entry: entry, kv: func(name string) types.KVStore { return lms.GetKVStore(keys[name]) }}
	}
	return nil
}

// queryAt reads one key through the ABCI store query path at a height (third historical entry point).
func (n *node) queryAt(name string, key []byte, ver int) ([]byte, string) {
	res := n.ms.Query(abci.RequestQuery{Path: "/" + name + "/key", Data: key, Height: int64(ver)})
	return res.Value, res.Log
}

// ---------------------------------------------------------------------------------------
// projections

// readAll reads a KVStore in four independent ways (forward, reverse, Get, Has over the
// universe) and returns the pairs in ascending key order, or a description of an internal
// contradiction.
func readAll(st types.KVStore, universe [][]byte) (pairs [][2][]byte, bad string) {
	defer func() {
		if r := recover(); r != nil {
			bad = fmt.Sprintf("panic while reading: %v", r)
		}
	}()
	// Point reads first: the IAVL iterators walk the tree in goroutines of their own, where a
	// panic of the real code (e.g. a node missing from the database) could not be recovered.
	// Every node of the tree lies on the path to some key of the universe, so a damaged tree
	// panics here, in this goroutine, and is reported as a disagreement.
	touch(st, universe)
	it, _ := st.Iterator(nil, nil)
	for ; it.Valid(); it.Next() {
		pairs = append(pairs, [2][]byte{append([]byte{}, it.Key()...), append([]byte{}, it.Value()...)})
	}
	it.Close()
	for i := 1; i < len(pairs); i++ {
		if bytes.Compare(pairs[i-1][0], pairs[i][0]) >= 0 {
			return nil, "ascending iterator not strictly increasing"
		}
	}
	var rev [][2][]byte
	rit, _ := st.ReverseIterator(nil, nil)
	for ; rit.Valid(); rit.Next() {
		rev = append(rev, [2][]byte{append([]byte{}, rit.Key()...), append([]byte{}, rit.Value()...)})
	}
	rit.Close()
	if len(rev) != len(pairs) {
		return nil, fmt.Sprintf("forward iteration yields %d pairs, reverse %d", len(pairs), len(rev))
	}
	for i := range pairs {
		j := len(rev) - 1 - i
		if !bytes.Equal(pairs[i][0], rev[j][0]) || !bytes.Equal(pairs[i][1], rev[j][1]) {
			return nil, "forward and reverse iteration disagree"
		}
	}
	present := map[string][]byte{}
	for _, p := range pairs {
		present[string(p[0])] = p[1]
	}
	for _, k := range universe {
		g, _ := st.Get(k)
		h, _ := st.Has(k)
		want, ok := present[string(k)]
		if ok != h {
			return nil, fmt.Sprintf("Has(%x)=%v but iteration says %v", k, h, ok)
		}
		if ok && !bytes.Equal(g, want) {
			return nil, fmt.Sprintf("Get(%x) disagrees with iteration", k)
		}
		if !ok && g != nil {
			return nil, fmt.Sprintf("Get(%x) of an absent key returns %x", k, g)
		}
	}
	return pairs, ""
}

// touch reads every key of the universe by point lookup (see readAll).
func touch(st types.KVStore, universe [][]byte) {
	for _, k := range universe {
		_, _ = st.Get(k)
	}
}

// diskInfo decodes the commit-info record of a version and the latest-version record
// straight from the database (what survives a crash).
type diskInfo struct {
	Latest int
	Infos  map[int]map[string]int // version -> substore name -> substore version
	Hashes map[int][]byte         // version -> app hash recomputed from the stored commit info
}

func readDiskInfo(db dbm.DB, maxVer int) (diskInfo, error) {
	di := diskInfo{Infos: map[int]map[string]int{}, Hashes: map[int][]byte{}}
	bz, _ := db.Get([]byte("s/latest"))
	if bz != nil {
		var l sdk.Int64
		if err := infoCdc.LegacyUnmarshalBinaryLengthPrefixed(bz, &l); err != nil {
			return di, fmt.Errorf("latest-version record undecodable: %v", err)
		}
		di.Latest = int(l)
	}
	for v := 1; v <= maxVer; v++ {
		bz, _ := db.Get([]byte(fmt.Sprintf("s/%d", v)))
		if bz == nil {
			continue
		}
		var ci rootmulti.CommitInfo
		if err := infoCdc.LegacyUnmarshalBinaryLengthPrefixed(bz, &ci); err != nil {
			return di, fmt.Errorf("commit info %d undecodable: %v", v, err)
		}
		m := map[string]int{}
		for _, si := range ci.StoreInfos {
			m[si.Name] = int(si.Core.CommitID.Version)
		}
		if int(ci.Version) != v {
			m["#version"] = int(ci.Version)
		}
		di.Infos[v] = m
		di.Hashes[v] = ci.Hash()
	}
	return di, nil
}

func sortedNames(m map[string]int) []string {
	out := make([]string, 0, len(m))
	for k := range m {
		out = append(out, k)
	}
	sort.Strings(out)
	return out
}
