package main

import (
	"bytes"
	"encoding/hex"
	"fmt"
	"math/rand"
	"sort"
	"strings"

	"verifharness/internal/hx"
)

// ---------------------------------------------------------------------------------------
// decoding of history-record fields

func strMapInts(v interface{}) map[string]int {
	out := map[string]int{}
	if m, ok := v.(map[string]interface{}); ok {
		for k, x := range m {
			if f, ok := x.(float64); ok {
				out[k] = int(f)
			}
		}
	}
	return out
}

func strMapIntSlices(v interface{}) map[string][]int {
	out := map[string][]int{}
	if m, ok := v.(map[string]interface{}); ok {
		for k, x := range m {
			out[k] = hx.Ints(x)
		}
	}
	return out
}

func strSlice(v interface{}) []string {
	var out []string
	if a, ok := v.([]interface{}); ok {
		for _, x := range a {
			if s, ok := x.(string); ok {
				out = append(out, s)
			}
		}
	}
	sort.Strings(out)
	return out
}

func writesOf(v interface{}) []write {
	var out []write
	if a, ok := v.([]interface{}); ok {
		for _, x := range a {
			if m, ok := x.(map[string]interface{}); ok {
				st := hx.Step(m)
				out = append(out, write{s: st.Str("s"), k: st.Int("k"), v: st.Int("v")})
			}
		}
	}
	return out
}

func intsEqual(a, b []int) bool {
	if len(a) != len(b) {
		return false
	}
	for i := range a {
		if a[i] != b[i] {
			return false
		}
	}
	return true
}

func idsKey(names []string, ids map[string]int) string {
	parts := make([]string, len(names))
	for i, n := range names {
		parts[i] = fmt.Sprintf("%s=%d", n, ids[n])
	}
	return strings.Join(parts, ",")
}

// ---------------------------------------------------------------------------------------
// which property owns a disagreement (DESIGN.md section 2: a check judges its own footprint)

func owners(op, what, why string) []string {
	switch op {
	case "HistGet", "HistIter", "LazyLoad":
		return []string{"C09"}
	case "LazyLoadErr", "Rollback", "Fork":
		return []string{"C08"}
	case "Crash":
		return []string{"C07"}
	case "Reopen":
		switch why {
		case "crash":
			return []string{"C07"}
		case "rollback":
			return []string{"C08"}
		}
		if what == "transient" {
			return []string{"C06"}
		}
		return []string{"C04"}
	case "Flush":
		switch what {
		case "version", "commitinfo", "transient":
			return []string{"C06"}
		}
		switch why {
		case "crash":
			return []string{"C07"}
		case "rollback":
			return []string{"C08"}
		}
		if what == "apphash" || what == "subhash" {
			return []string{"C04", "C06"}
		}
		return []string{"C04"}
	}
	switch why { // block execution / commit entry while catching up after a crash or a rollback
	case "crash":
		return []string{"C07"}
	case "rollback":
		return []string{"C08"}
	}
	return []string{"C04"}
}

func owns(prop string, os []string) bool {
	if prop == "" {
		return true
	}
	for _, o := range os {
		if o == prop {
			return true
		}
	}
	return false
}

// ---------------------------------------------------------------------------------------

type diff struct {
	what  string
	want  interface{}
	got   interface{}
	known string
}

type retryOrder struct{} // the real Commit chose another (legal) substore order than the behaviour

// runner executes one behaviour on one world.
type runner struct {
	w        *world
	protoDev int // commits whose database writes do not have the shape the specification assumes
	flushes  int
}

func (r *runner) hashCheckSub(id int, h []byte) *diff {
	if old, ok := r.w.subHash[id]; ok {
		if !bytes.Equal(old, h) {
			return &diff{what: "subhash", want: hex.EncodeToString(old), got: hex.EncodeToString(h)}
		}
		return nil
	}
	r.w.subHash[id] = append([]byte{}, h...)
	return nil
}

func (r *runner) hashCheckApp(ids map[string]int, h []byte) *diff {
	k := idsKey(r.w.names, ids)
	if old, ok := r.w.appHash[k]; ok {
		if !bytes.Equal(old, h) {
			return &diff{what: "apphash", want: hex.EncodeToString(old) + " (ids " + k + ")", got: hex.EncodeToString(h)}
		}
		return nil
	}
	r.w.appHash[k] = append([]byte{}, h...)
	return nil
}

// checkLoaded compares a loaded Store (the node's own or an independent one) with the
// expected version, hash ids and contents.
func (r *runner) checkContents(get func(name string) ([]int, string), want map[string][]int) *diff {
	for _, name := range r.w.names {
		got, bad := get(name)
		if bad != "" {
			return &diff{what: "contents", want: want[name], got: name + ": " + bad}
		}
		if !intsEqual(got, want[name]) {
			return &diff{what: "contents", want: map[string]interface{}{name: want[name]}, got: map[string]interface{}{name: got}}
		}
	}
	return nil
}

func (r *runner) exec(s hx.Step) (d *diff) {
	w := r.w
	n := w.n
	defer func() {
		if rec := recover(); rec != nil {
			if _, ok := rec.(retryOrder); ok {
				panic(rec)
			}
			d = &diff{what: "exec", want: "no failure", got: fmt.Sprintf("panic: %v", rec)}
		}
	}()
	switch s.Str("op") {
	case "Set":
		n.set(s.Str("s"), w.key(s.Int("k")), w.val(s.Int("v")))
	case "Del":
		n.del(s.Str("s"), w.key(s.Int("k")))
	case "TSet":
		n.set(transientName, w.tkeys[s.Int("k")-1], w.val(s.Int("v")))
	case "TDel":
		n.del(transientName, w.tkeys[s.Int("k")-1])
	case "ReExecute":
		w.apply(n, writesOf(s["blk"]))
	case "Fork":
		w.refFork(s.Int("ver"))
	case "BeginCommit":
		if s.Bool("new") {
			id, subs := w.refExecute(writesOf(s["blk"]))
			if int(id.Version) != s.Int("ver") {
				return &diff{what: "exec", want: s.Int("ver"), got: fmt.Sprintf("reference node committed version %d", id.Version)}
			}
			rh := strMapInts(s["rh"])
			for _, name := range w.names {
				if d := r.hashCheckSub(rh[name], subs[name]); d != nil {
					return d
				}
			}
			if d := r.hashCheckApp(rh, id.Hash); d != nil {
				return d
			}
		}
	case "CommitSub":
		// performed inside the real Commit call at the following Flush / Crash record
	case "Flush":
		r.flushes++
		res := n.commit(-1)
		if res.crashed {
			return &diff{what: "exec", want: "commit", got: "crash"}
		}
		if int(res.id.Version) != s.Int("ver") {
			return &diff{what: "version", want: s.Int("ver"), got: res.id.Version}
		}
		// shape of the database writes: substore batches, then one multistore batch
		for i, wr := range res.writes {
			last := i == len(res.writes)-1
			if wr.Kind != "batch" || len(wr.Owners) != 1 || (last != (wr.Owners[0] == "multi")) {
				r.protoDev++
				break
			}
		}
		ids := strMapInts(s["h"])
		sv := strMapInts(s["sv"])
		for _, name := range w.names {
			cid := n.ms.GetCommitStore(n.keys[name]).LastCommitID()
			if int(cid.Version) != sv[name] {
				return &diff{what: "commitinfo", want: sv, got: fmt.Sprintf("substore %s at version %d", name, cid.Version)}
			}
			if d := r.hashCheckSub(ids[name], cid.Hash); d != nil {
				return d
			}
		}
		if d := r.hashCheckApp(ids, res.id.Hash); d != nil {
			return d
		}
		if last := n.ms.LastCommitID(); last.Version != res.id.Version || !bytes.Equal(last.Hash, res.id.Hash) {
			return &diff{what: "version", want: res.id.String(), got: "LastCommitID " + last.String()}
		}
		// commit id well formed: the stored commit info names exactly the persistent substores at
		// their versions, and the reported hash is the hash of that record
		di, err := readDiskInfo(n.be.db(), s.Int("ver"))
		if err != nil {
			return &diff{what: "commitinfo", want: "decodable", got: err.Error()}
		}
		info := di.Infos[s.Int("ver")]
		if di.Latest != s.Int("ver") || len(info) != len(sv) {
			return &diff{what: "commitinfo", want: sv, got: map[string]interface{}{"latest": di.Latest, "info": info}}
		}
		for name, v := range sv {
			if iv, ok := info[name]; !ok || iv != v {
				return &diff{what: "commitinfo", want: sv, got: info}
			}
		}
		if !bytes.Equal(di.Hashes[s.Int("ver")], res.id.Hash) {
			return &diff{what: "commitinfo", want: "hash of the stored commit info", got: hex.EncodeToString(res.id.Hash)}
		}
		if d := r.checkContents(func(name string) ([]int, string) {
			return w.contents(n.ms.GetKVStore(n.keys[name]), w.keys)
		}, strMapIntSlices(s["c"])); d != nil {
			return d
		}
		tgot, bad := w.contents(n.ms.GetKVStore(n.keys[transientName]), w.tkeys)
		if bad != "" || !intsEqual(tgot, hx.Ints(s["t"])) {
			return &diff{what: "transient", want: s["t"], got: fmt.Sprint(tgot, bad)}
		}
		if extra, _ := readAll(n.ms.GetKVStore(n.keys[transientName]), nil); len(extra) != 0 {
			return &diff{what: "transient", want: "empty", got: fmt.Sprintf("%d pairs", len(extra))}
		}
	case "Crash":
		if s.Str("phase") != "commit" {
			n.down()
			return nil
		}
		want := strSlice(s["wrote"])
		res := n.commit(s.Int("n"))
		if !res.crashed {
			return &diff{what: "exec", want: fmt.Sprintf("more than %d database writes in this commit", s.Int("n")), got: res.writes}
		}
		var got []string
		proto := false
		for _, wr := range res.writes {
			if wr.Kind != "batch" || len(wr.Owners) != 1 || wr.Owners[0] == "multi" {
				proto = true
			}
			got = append(got, wr.Owners...)
		}
		sort.Strings(got)
		if proto {
			r.protoDev++ // not the protocol the specification models: go on and let the properties judge
		} else if strings.Join(got, ",") != strings.Join(want, ",") {
			panic(retryOrder{})
		}
		if !proto {
			if d := r.checkDisk(strMapInts(s["nv"]), -1, s.Int("latest")); d != nil {
				return d
			}
		}
	case "Close":
		n.down()
	case "Reopen":
		known := s.Str("known")
		mk := func(d *diff) *diff {
			if d != nil {
				d.known = known
			}
			return d
		}
		if err := n.open(); err != nil {
			return mk(&diff{what: "exec", want: "LoadLatestVersion succeeds", got: err.Error()})
		}
		last := n.ms.LastCommitID()
		if int(last.Version) != s.Int("ver") {
			return mk(&diff{what: "version", want: s.Int("ver"), got: last.Version})
		}
		ids := strMapInts(s["h"])
		if s.Int("ver") == 0 {
			if len(last.Hash) != 0 {
				return mk(&diff{what: "apphash", want: "empty", got: hex.EncodeToString(last.Hash)})
			}
		} else if d := r.hashCheckApp(ids, last.Hash); d != nil {
			return mk(d)
		}
		for _, name := range w.names {
			cid := n.ms.GetCommitStore(n.keys[name]).LastCommitID()
			if d := r.hashCheckSub(ids[name], cid.Hash); d != nil {
				return mk(d)
			}
		}
		if d := r.checkContents(func(name string) ([]int, string) {
			return w.contents(n.ms.GetKVStore(n.keys[name]), w.keys)
		}, strMapIntSlices(s["c"])); d != nil {
			return mk(d)
		}
		if extra, _ := readAll(n.ms.GetKVStore(n.keys[transientName]), nil); len(extra) != 0 {
			return mk(&diff{what: "transient", want: "empty", got: fmt.Sprintf("%d pairs", len(extra))})
		}
		// every retained version read back through LoadVersion(v) on an independent Store object
		if vers, ok := s["vers"].([]interface{}); ok {
			for i, x := range vers {
				v := i + 1
				e := hx.Step(x.(map[string]interface{}))
				ms, keys, err := w.loadAt(v)
				if err != nil {
					return mk(&diff{what: "exec", want: fmt.Sprintf("LoadVersion(%d) succeeds", v), got: err.Error()})
				}
				cid := ms.LastCommitID()
				if int(cid.Version) != v {
					return mk(&diff{what: "version", want: v, got: cid.Version})
				}
				if d := r.hashCheckApp(strMapInts(e["h"]), cid.Hash); d != nil {
					return mk(d)
				}
				if d := r.checkContents(func(name string) ([]int, string) {
					return w.contents(ms.GetKVStore(keys[name]), w.keys)
				}, strMapIntSlices(e["c"])); d != nil {
					return mk(d)
				}
			}
		}
	case "Rollback":
		err, writes := n.rollback(s.Int("v"), !(s.Bool("wasup") && w.v.liveRB))
		if err != nil {
			return &diff{what: "exec", want: "RollbackVersion succeeds", got: err.Error()}
		}
		_ = writes
		if d := r.checkDisk(strMapInts(s["nv"]), s.Int("ni"), s.Int("latest")); d != nil {
			return d
		}
	case "LazyLoad":
		if err := n.lazyLoad(s.Int("r"), s.Int("v"), w.v.entry); err != nil {
			return &diff{what: "exec", want: "historical view opens", got: err.Error()}
		}
	case "LazyLoadErr":
		for _, entry := range []string{"lazy", "cmsv"} {
			if err := n.lazyLoad(-1, s.Int("v"), entry); err == nil {
				delete(n.views, -1)
				return &diff{what: "readable", want: fmt.Sprintf("version %d cannot be opened", s.Int("v")), got: entry + " view opened"}
			}
		}
	case "HistGet":
		vw := n.views[s.Int("r")]
		st := vw.kv(s.Str("s"))
		key := w.key(s.Int("k"))
		g, _ := st.Get(key)
		if got := w.valIdx(g); got != s.Int("ret") {
			return &diff{what: "ret", want: s.Int("ret"), got: got}
		}
		if h, _ := st.Has(key); h != (s.Int("ret") != 0) {
			return &diff{what: "ret", want: s.Int("ret") != 0, got: fmt.Sprintf("Has=%v", h)}
		}
		qv, qlog := n.queryAt(s.Str("s"), key, vw.ver)
		if got := w.valIdx(qv); got != s.Int("ret") {
			return &diff{what: "ret", want: s.Int("ret"), got: fmt.Sprintf("store query at height %d: %d %s", vw.ver, got, qlog)}
		}
	case "HistIter":
		vw := n.views[s.Int("r")]
		st := vw.kv(s.Str("s"))
		var lo, hi []byte
		if l := s.Int("lo"); l >= 1 {
			lo = w.key(l)
		}
		if h := s.Int("hi"); h <= len(w.keys) {
			hi = w.key(h)
		}
		var got []int
		var itErr string
		func() {
			defer func() {
				if rec := recover(); rec != nil {
					itErr = fmt.Sprint(rec)
				}
			}()
			touch(st, w.keys)
			if s.Bool("asc") {
				it, _ := st.Iterator(lo, hi)
				for ; it.Valid(); it.Next() {
					got = append(got, keyIdxIn(w.keys, it.Key()), w.valIdx(it.Value()))
				}
				it.Close()
			} else {
				it, _ := st.ReverseIterator(lo, hi)
				for ; it.Valid(); it.Next() {
					got = append(got, keyIdxIn(w.keys, it.Key()), w.valIdx(it.Value()))
				}
				it.Close()
			}
		}()
		if itErr != "" {
			return &diff{what: "exec", want: "iteration", got: itErr}
		}
		if want := hx.Ints(s["ret"]); !intsEqual(want, got) {
			return &diff{what: "ret", want: want, got: got}
		}
	case "DropView":
		delete(n.views, s.Int("r"))
	default:
		return &diff{what: "exec", want: "known op", got: s.Str("op")}
	}
	return nil
}

// checkDisk compares the raw database with the specification's database variables: saved
// versions of each substore, commit-info records, latest-version record.
func (r *runner) checkDisk(nv map[string]int, ni int, latest int) *diff {
	db := r.w.n.be.db()
	for _, name := range r.w.names {
		vs := rootVersions(db, name)
		ok := len(vs) == nv[name]
		for i, v := range vs {
			if v != i+1 {
				ok = false
			}
		}
		if !ok {
			return &diff{what: "disk", want: map[string]interface{}{"substore": name, "versions": nv[name]}, got: vs}
		}
	}
	max := latest + 4
	di, err := readDiskInfo(db, max)
	if err != nil {
		return &diff{what: "disk", want: "decodable records", got: err.Error()}
	}
	if di.Latest != latest {
		return &diff{what: "disk", want: map[string]int{"latest": latest}, got: di.Latest}
	}
	if ni >= 0 {
		for v := 1; v <= max; v++ {
			_, has := di.Infos[v]
			if has != (v <= ni) {
				return &diff{what: "disk", want: fmt.Sprintf("commit infos exactly 1..%d", ni), got: fmt.Sprintf("commit info %d present=%v", v, has)}
			}
		}
	}
	return nil
}

// ---------------------------------------------------------------------------------------

// nontrivial: a persistent write is followed by a step whose real outcome is compared with
// the specification (commit, crash, reopen, rollback, historical read / failed historical load).
func nontrivial(beh []hx.Step) bool {
	wrote := false
	for _, s := range beh {
		switch s.Str("op") {
		case "Set", "Del":
			wrote = true
		case "Flush", "Reopen", "Rollback", "HistGet", "HistIter", "LazyLoadErr":
			if wrote {
				return true
			}
		case "Crash":
			if wrote && s.Str("phase") == "commit" {
				return true
			}
		}
	}
	return false
}

func replay(in string, names []string, nk, ntk int, variants []string, prop, scratch string) {
	rep := hx.NewReport("mstore", "replay")
	abandoned := 0
	protoDev := 0
	retries := 0
	unreached := 0
	known := map[string]int{}
	type acc struct {
		abandoned, protoDev, retries, known, unreached int
		knownEx                             *hx.Mismatch
	}
	var knownEx *hx.Mismatch
	nKnown := 0
	accCh := make(chan acc, 1024)
	doneCh := make(chan struct{})
	go func() {
		for a := range accCh {
			abandoned += a.abandoned
			protoDev += a.protoDev
			retries += a.retries
			unreached += a.unreached
			nKnown += a.known
			if knownEx == nil && a.knownEx != nil {
				knownEx = a.knownEx
			}
		}
		close(doneCh)
	}()
	err := hx.ParallelBehaviours(in, hx.Workers(), rep, func(idx int, beh []hx.Step, fresh bool, rep *hx.Report) {
		if fresh && nontrivial(beh) {
			rep.Nontrivial++
		}
		if idx%20000 == 11 {
			rep.AddSample(beh)
		}
		var a acc
		for vi, vs := range variants {
			v := parseVariant(vs)
			if idx%v.every != 0 {
				continue
			}
		attempts:
			for attempt := 0; ; attempt++ {
				rng := rand.New(rand.NewSource(hx.Seed()*7919 + int64(idx)*31 + int64(vi)))
				w := newWorld(v, names, nk, ntk, rng, attempt, scratch)
				r := &runner{w: w}
				if err := w.n.open(); err != nil {
					hx.Fatal("initial open: %v", err)
				}
				retry := false
				func() {
					defer func() {
						if rec := recover(); rec != nil {
							if _, ok := rec.(retryOrder); ok {
								retry = true
								return
							}
							panic(rec)
						}
					}()
					for si, s := range beh {
						rep.Steps++
						if attempt == 0 {
							rep.OpCounts[s.Str("op")]++
						}
						d := r.exec(s)
						if d == nil {
							continue
						}
						why := s.Str("why")
						os := owners(s.Str("op"), d.what, why)
						if !owns(prop, os) {
							// outside the judged property's footprint: counted, reported by the owning
							// property's check.  The behaviour goes on unless the real code failed.
							a.abandoned++
							if d.what == "exec" {
								return
							}
							continue
						}
						m := hx.Mismatch{Behaviour: idx, Step: si, Op: s.Str("op"), What: d.what, Want: d.want, Got: d.got, History: beh, Variant: vs}
						if d.known != "" {
							// the pattern of a known finding (the specification marks the step): counted
							// and reported separately so that it cannot hide any other disagreement
							m.What = "known:" + d.known + ":" + d.what
							a.known++
							if a.knownEx == nil {
								a.knownEx = &m
							}
							return
						}
						rep.AddMismatch(m)
						return
					}
				}()
				a.protoDev += r.protoDev
				w.destroy()
				if !retry {
					break attempts
				}
				a.retries++
				if attempt > 400 {
					// the map iteration order of the real Commit never produced the substore order this behaviour
					// asks for: the behaviour cannot be replayed (a limit of the harness, never a verdict)
					a.unreached++
					break attempts
				}
			}
		}
		accCh <- a
	})
	close(accCh)
	<-doneCh
	if err != nil {
		hx.Fatal("%v", err)
	}
	if nKnown > 0 {
		known[strings.SplitN(knownEx.What, ":", 3)[1]] = nKnown
		rep.Extra["known_example"] = knownEx
	}
	rep.Extra["known"] = known
	rep.Extra["variants"] = variants
	rep.Extra["abandoned"] = abandoned
	rep.Extra["protocol_deviations"] = protoDev
	rep.Extra["order_retries"] = retries
	rep.Extra["order_unreached"] = unreached
	rep.Extra["prop"] = prop
	rep.Print()
}
