// vh-mstore: mstore engine (C04 C06 C07 C08 C09) on the real store/rootmulti.Store.
//
//	vh-mstore probe
//	vh-mstore replay -in behaviours.txt -stores s1,s2 -nk N -ntk N -variants mem,mem-cms-c2-cmsv [-prop C07] [-scratch DIR]
//	vh-mstore trace  -out trace.ndjson -n TRACES -mode random|sweep ...
package main

import (
	"flag"
	"fmt"
	"os"
	"strings"
)

func main() {
	if len(os.Args) < 2 {
		fmt.Fprintln(os.Stderr, "usage: vh-mstore <probe|replay|trace> ...")
		os.Exit(2)
	}
	cmd := os.Args[1]
	fs := flag.NewFlagSet(cmd, flag.ExitOnError)
	in := fs.String("in", "", "behaviour file")
	out := fs.String("out", "", "trace output file")
	stores := fs.String("stores", "s1,s2", "persistent substore names")
	nk := fs.Int("nk", 2, "keys of the specification instance")
	ntk := fs.Int("ntk", 1, "transient keys of the specification instance")
	variants := fs.String("variants", "mem", "comma separated variants")
	prop := fs.String("prop", "", "property whose footprint is judged (empty: everything)")
	scratch := fs.String("scratch", os.TempDir(), "scratch directory (goleveldb)")
	n := fs.Int("n", 10, "number of traces")
	mode := fs.String("mode", "random", "trace mode")
	blocks := fs.Int("blocks", 12, "maximum blocks per trace")
	_ = fs.Parse(os.Args[2:])
	names := strings.Split(*stores, ",")
	switch cmd {
	case "probe":
		probe()
	case "replay":
		replay(*in, names, *nk, *ntk, strings.Split(*variants, ","), *prop, *scratch)
	case "trace":
		trace(*out, *n, *mode, names, *nk, *ntk, *blocks, strings.Split(*variants, ","), *scratch)
	default:
		fmt.Fprintln(os.Stderr, "unknown command", cmd)
		os.Exit(2)
	}
}
