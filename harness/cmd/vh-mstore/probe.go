package main

import (
	"encoding/hex"
	"fmt"

	dbm "github.com/tendermint/tm-db"

	"verifharness/internal/hx"
)

// probe measures, on the real code, the facts the MultiStore specification relies on:
//   - which database modifications one rootmulti.Store.Commit performs (kinds, owners);
//   - the same for RollbackVersion;
//   - whether the known first-block deviation reproduces (crash during the very first
//     commit after a substore saved version 1: LoadLatestVersion -> LoadVersion(0) loads
//     "the latest version found" of that substore instead of an empty tree).
func probe() {
	rep := hx.NewReport("mstore", "probe")
	names := []string{"s1", "s2", "s3"}
	o := nodeOpts{names: names, mount: []string{"s1", "s2", "t", "s3"}, cacheSize: 1000}
	key := func(i int) []byte { return []byte(fmt.Sprintf("k%02d", i)) }

	// ---- write boundaries of Commit
	n := newNode(&memBackend{dbm.NewMemDB()}, o)
	if err := n.open(); err != nil {
		hx.Fatal("open: %v", err)
	}
	var commits []interface{}
	allBatch := true
	for b := 1; b <= 4; b++ {
		for i := 0; i < 3; i++ {
			n.set(names[(b+i)%3], key(i+b), []byte("v"))
		}
		if b == 3 {
			n.del("s1", key(3))
		}
		n.set(transientName, key(1), []byte("x"))
		r := n.commit(-1)
		commits = append(commits, r.writes)
		for _, w := range r.writes {
			if w.Kind != "batch" {
				allBatch = false
			}
		}
		if len(r.writes) != len(names)+1 {
			allBatch = false
		}
	}
	rep.Extra["commit_writes"] = commits
	rep.Extra["commit_is_one_batch_per_substore_plus_one"] = allBatch
	err, rw := n.rollback(2, true)
	rep.Extra["rollback_err"] = fmt.Sprint(err)
	rep.Extra["rollback_writes"] = rw

	// ---- first-block deviation (never fatal: a tree that cannot even reopen is left to the checks)
	found := false
	var detail []interface{}
	func() {
		defer func() {
			if r := recover(); r != nil {
				detail = append(detail, map[string]interface{}{"probe_failed": fmt.Sprint(r)})
				found = true // undetermined: keep the specification's default (deviation modelled)
			}
		}()
		o2 := nodeOpts{names: []string{"s1", "s2"}, mount: []string{"s1", "s2", "t"}, cacheSize: 1000}
		ref := newNode(&memBackend{dbm.NewMemDB()}, o2)
		_ = ref.open()
		ref.set("s1", key(1), []byte("a"))
		ref.set("s2", key(2), []byte("b"))
		refID := ref.commit(-1).id

		m := newNode(&memBackend{dbm.NewMemDB()}, o2)
		_ = m.open()
		m.set("s1", key(1), []byte("a"))
		m.set("s2", key(2), []byte("b"))
		r := m.commit(1) // stop after the first database write of the first commit
		if !r.crashed {
			panic("commit with limit 1 did not crash")
		}
		if err := m.open(); err != nil {
			panic("reopen: " + err.Error())
		}
		last := m.ms.LastCommitID()
		p1, _ := readAll(m.ms.GetKVStore(m.keys["s1"]), [][]byte{key(1)})
		p2, _ := readAll(m.ms.GetKVStore(m.keys["s2"]), [][]byte{key(2)})
		m.set("s1", key(1), []byte("a"))
		m.set("s2", key(2), []byte("b"))
		id2 := m.commit(-1).id
		d := map[string]interface{}{
			"saved_first": r.writes[0].Owners, "last_commit_after_reopen": last.Version,
			"s1_pairs_after_reopen": len(p1), "s2_pairs_after_reopen": len(p2),
			"reexecuted_hash": hex.EncodeToString(id2.Hash), "reference_hash": hex.EncodeToString(refID.Hash),
			"reexecuted_version": id2.Version,
		}
		detail = append(detail, d)
		if len(p1)+len(p2) > 0 || hex.EncodeToString(id2.Hash) != hex.EncodeToString(refID.Hash) {
			found = true
		}
	}()
	rep.Extra["firstblock_reproduces"] = found
	rep.Extra["firstblock_detail"] = detail
	rep.Print()
}
