package chainsim

import (
	"bytes"
	"encoding/binary"
	"encoding/json"

	authTypes "github.com/pokt-network/pocket-core/x/auth/types"
)

// splitPrefix splits length-prefixed tx bytes into (length, body).
func splitPrefix(bz []byte) (uint64, []byte, bool) {
	l, n := binary.Uvarint(bz)
	if n <= 0 || int(l) != len(bz)-n {
		return 0, nil, false
	}
	return l, bz[n:], true
}

func nonMinimalUvarint(x uint64) []byte {
	var b []byte
	for x >= 0x80 {
		b = append(b, byte(x)|0x80)
		x >>= 7
	}
	// last group with a continuation bit, followed by an empty group: same value, one byte longer
	return append(b, byte(x)|0x80, 0x00)
}

// Reencode returns different bytes that decode to the same signed transaction:
// variant 0 = non-minimal varint in the length prefix, variant 1 = an unknown field
// (number 15, varint 1) appended to the transaction message.  ok=false if the variant does
// not decode to an equal transaction with the real decoder at this height.
func (s *Sim) Reencode(bz []byte, variant int) ([]byte, bool) {
	l, body, ok := splitPrefix(bz)
	if !ok {
		return nil, false
	}
	var out []byte
	switch variant {
	case 0:
		out = append(nonMinimalUvarint(l), body...)
	default:
		nb := append(append([]byte{}, body...), 0x78, 0x01)
		p := make([]byte, binary.MaxVarintLen64)
		n := binary.PutUvarint(p, uint64(len(nb)))
		out = append(p[:n], nb...)
	}
	dec := authTypes.DefaultTxDecoder(memCodec())
	a, e1 := dec(bz, s.Height)
	b, e2 := dec(out, s.Height)
	if e1 != nil || e2 != nil {
		return nil, false
	}
	ja, _ := json.Marshal(a)
	jb, _ := json.Marshal(b)
	if !bytes.Equal(ja, jb) || bytes.Equal(bz, out) {
		return nil, false
	}
	return out, true
}
