package chainsim

import (
	"bytes"
	"crypto/sha256"
	"encoding/hex"
	"encoding/json"

	sdk "github.com/pokt-network/pocket-core/types"
	abci "github.com/tendermint/tendermint/abci/types"
	tmtypes "github.com/tendermint/tendermint/types"

	"verifharness/internal/hx"
)

// KindOf maps Msg.Type() to the specification's message kinds.
var KindOf = map[string]string{
	"send": "send", "stake_validator": "node_stake", "begin_unstake_validator": "node_unstake",
	"unjail_validator": "node_unjail", "app_stake": "app_stake", "app_begin_unstake": "app_unstake",
	"app_unjail": "app_unjail", "claim": "claim", "proof": "proof", "change_param": "change_param",
	"dao_tranfer": "dao_transfer", "upgrade": "upgrade",
}

// Cfg is the slowly changing part of the projection (logged only when it changes).
type Cfg struct {
	NodeParams     map[string]int64  `json:"nodeParams"`
	AppParams      map[string]int64  `json:"appParams"`
	PcParams       map[string]int64  `json:"pcParams"`
	ACL            map[string]string `json:"acl"`
	DAOOwner       string            `json:"daoOwner"`
	Upgrade        UpgradeState      `json:"upgrade"`
	FeatMem        map[string]int64  `json:"featMem"`
	FeeMult        map[string]int64  `json:"feeMult"`
	FeeMultDefault int64             `json:"feeMultDefault"`
	MaxMemo        int64             `json:"maxMemo"`
	Supported      []string          `json:"supported"`
}

// Split separates the per-event core state from the configuration.
func (s *Sim) Split(st State) (map[string]interface{}, Cfg) {
	ctx := s.Ctx()
	ap := s.App.VerifAccountKeeper().GetParams(ctx)
	fm := map[string]int64{}
	for _, m := range ap.FeeMultiplier.FeeMultis {
		if k, ok := KindOf[m.Key]; ok {
			fm[k] = m.Multiplier
		} else {
			fm[m.Key] = m.Multiplier
		}
	}
	pp := s.App.VerifPocketKeeper().GetParams(ctx)
	cfg := Cfg{NodeParams: st.NodeParams, AppParams: st.AppParams, PcParams: st.PcParams, ACL: st.ACL, DAOOwner: st.DAOOwner,
		Upgrade: st.Upgrade, FeatMem: st.FeatMem, FeeMult: fm, FeeMultDefault: ap.FeeMultiplier.Default,
		MaxMemo: int64(ap.MaxMemoCharacters), Supported: append([]string{}, pp.SupportedBlockchains...)}
	b, _ := json.Marshal(st)
	var core map[string]interface{}
	_ = json.Unmarshal(b, &core)
	for _, k := range []string{"nodeParams", "appParams", "pcParams", "acl", "daoOwner", "upgrade", "featMem"} {
		delete(core, k)
	}
	return core, cfg
}

// Recorder logs one NDJSON event per ABCI call with the projected post-state.
type Recorder struct {
	S       *Sim
	W       *hx.TraceWriter
	lastCfg string
	seen    map[string]seenTx // tx hash -> where it was delivered before
	effected map[string]bool  // signed content (abstract tx without dup) -> passed the ante handler before
	Full    bool              // log the core state on every event (default: yes)
	// Focus, when non-empty, lists the core-state fields logged in full; all other
	// fields are folded into "rest" (a digest), so "nothing else changed" is still
	// checkable by equality while events stay small (TLC parses ~100 KB/s of JSON).
	Focus []string
}

type seenTx struct {
	Height  int64
	Indexed bool
}

func NewRecorder(s *Sim, w *hx.TraceWriter) *Recorder {
	return &Recorder{S: s, W: w, seen: map[string]seenTx{}, effected: map[string]bool{}, Full: true}
}

func (r *Recorder) state(ev map[string]interface{}) {
	core, cfg := r.S.Split(r.S.Project())
	if len(r.Focus) > 0 {
		keep := map[string]interface{}{}
		for _, k := range r.Focus {
			if v, ok := core[k]; ok {
				keep[k] = v
				delete(core, k)
			}
		}
		rb, _ := json.Marshal(core) // map keys are sorted by encoding/json
		sum := sha256.Sum256(rb)
		keep["rest"] = hex.EncodeToString(sum[:8])
		core = keep
	}
	ev["st"] = core
	cb, _ := json.Marshal(cfg)
	if string(cb) != r.lastCfg {
		r.lastCfg = string(cb)
		ev["cfg"] = cfg
	}
	ev["h"] = r.S.Height
}

// Reset marks the start of a trace (a fresh chain).
func (r *Recorder) Reset(label string) {
	r.lastCfg = ""
	r.seen = map[string]seenTx{}
	r.effected = map[string]bool{}
	ev := map[string]interface{}{"ev": "reset", "label": label}
	r.state(ev)
	r.W.Emit(ev)
}

func (r *Recorder) BeginBlock(o BlockOpts) abci.ResponseBeginBlock {
	res := r.S.BeginBlock(o)
	absent := []string{}
	for a := range o.Absent {
		b, _ := hex.DecodeString(a)
		absent = append(absent, r.S.Name(sdk.Address(b)))
	}
	votes := [][]interface{}{}
	for _, v := range r.S.Votes(o.Absent) {
		votes = append(votes, []interface{}{r.S.Name(sdk.Address(v.Validator.Address)), v.Validator.Power, v.SignedLastBlock})
	}
	evd := [][]interface{}{}
	for _, e := range o.Evidence {
		evd = append(evd, []interface{}{r.S.Name(sdk.Address(e.Validator.Address)), e.Height, TimeIdx(e.Time), e.Validator.Power})
	}
	hdr := r.S.App.BlockStore().LoadBlockMeta(r.S.Height)
	prop := ""
	t := int64(0)
	if hdr != nil {
		prop = r.S.Name(sdk.Address(hdr.Header.ProposerAddress))
		t = TimeIdx(hdr.Header.Time)
	}
	ev := map[string]interface{}{"ev": "BeginBlock", "t": t, "proposer": prop, "votes": votes, "evidence": evd}
	r.state(ev)
	r.W.Emit(ev)
	return res
}

// DeliverTx delivers tx bytes; abs is the abstract transaction record (see ChainAuth.tla).
// The recorder fills in the duplicate-submission class from what it delivered before.
func (r *Recorder) DeliverTx(tx []byte, abs map[string]interface{}) abci.ResponseDeliverTx {
	h := hex.EncodeToString(tmtypes.Tx(tx).Hash())
	dup := "no"
	if p, ok := r.seen[h]; ok {
		if p.Height == r.S.Height {
			dup = "inblock"
		} else if p.Indexed {
			dup = "indexed"
		} else {
			dup = "no" // delivered before but rejected by the ante handler: never indexed
		}
	}
	res := r.S.DeliverTx(tx)
	anteFail := res.Codespace == "auth" && res.Code < 10
	if p, ok := r.seen[h]; !ok || !p.Indexed {
		r.seen[h] = seenTx{Height: r.S.Height, Indexed: !anteFail}
	}
	a := map[string]interface{}{}
	for k, v := range abs {
		a[k] = v
	}
	if v, ok := a["dup"]; !ok || (v == "reencoded" && dup != "no") {
		// identical bytes delivered before win over the caller's "re-encoding" label
		a["dup"] = dup
	}
	// identity of the signed content: the abstract record without the submission class
	ck := map[string]interface{}{}
	for k, v := range abs {
		if k != "dup" {
			ck[k] = v
		}
	}
	cb, _ := json.Marshal(ck)
	a["priorEffect"] = r.effected[string(cb)]
	if !anteFail {
		r.effected[string(cb)] = true
	}
	ev := map[string]interface{}{"ev": "DeliverTx", "tx": a,
		"res": map[string]interface{}{"code": res.Code, "codespace": res.Codespace}}
	r.state(ev)
	r.W.Emit(ev)
	return res
}

func (r *Recorder) EndBlock() abci.ResponseEndBlock {
	res := r.S.EndBlock()
	ups := [][]interface{}{}
	for _, u := range res.ValidatorUpdates {
		ups = append(ups, []interface{}{r.S.Name(sdk.Address(tmAddr(u.PubKey.Data))), u.Power})
	}
	ev := map[string]interface{}{"ev": "EndBlock", "updates": ups}
	r.state(ev)
	r.W.Emit(ev)
	return res
}

func (r *Recorder) Commit() []byte {
	prev := r.S.LastHash
	hash := r.S.Commit()
	ev := map[string]interface{}{"ev": "Commit", "hash": hex.EncodeToString(hash)[:16], "changed": !bytes.Equal(prev, hash)}
	r.state(ev)
	r.W.Emit(ev)
	return hash
}

// SigFields returns the signing dimensions of the abstract transaction record.
func (s *Sim) SigFields(o TxOpts, signerIdx int) map[string]interface{} {
	name := ""
	if signerIdx >= 0 {
		name = s.Name(s.Addr(signerIdx))
	}
	return map[string]interface{}{
		"signer": name, "sigOK": !o.CorruptSig && !o.NoSig && !o.BadSignBytes, "chainOK": o.ChainID == "" || o.ChainID == s.Cfg.ChainID,
		"hasSig": !o.NoSig, "hasPK": !o.NoPubKey, "multisig": false, "depthOK": true,
		"fee": o.Fee, "feeValid": o.FeeCoins == nil || o.FeeCoins.IsValid(), "memoLen": len(o.Memo),
		"decodes": true, "basicOK": true,
	}
}
