// Package chainsim drives a real PocketCoreApp through its ABCI methods without
// Tendermint.  It plays Tendermint's part deterministically: builds one block per
// height, saves it in an in-memory block store before BeginBlock (so historical
// contexts work), feeds LastCommitInfo votes from the validator set accumulated from
// the application's own updates, and indexes each block's TxResults after Commit (which
// is what makes duplicate-transaction detection operate as in production).
package chainsim

import (
	"crypto/ed25519"
	"crypto/sha256"
	"encoding/binary"
	"encoding/hex"
	"encoding/json"
	"errors"
	"fmt"
	"os"
	"sort"
	"time"

	"github.com/pokt-network/pocket-core/app"
	"github.com/pokt-network/pocket-core/codec"
	"github.com/pokt-network/pocket-core/crypto"
	sdk "github.com/pokt-network/pocket-core/types"
	"github.com/pokt-network/pocket-core/types/module"
	apps "github.com/pokt-network/pocket-core/x/apps"
	appsTypes "github.com/pokt-network/pocket-core/x/apps/types"
	"github.com/pokt-network/pocket-core/x/auth"
	authTypes "github.com/pokt-network/pocket-core/x/auth/types"
	"github.com/pokt-network/pocket-core/x/gov"
	govTypes "github.com/pokt-network/pocket-core/x/gov/types"
	"github.com/pokt-network/pocket-core/x/nodes"
	nodesTypes "github.com/pokt-network/pocket-core/x/nodes/types"
	pocket "github.com/pokt-network/pocket-core/x/pocketcore"
	pocketTypes "github.com/pokt-network/pocket-core/x/pocketcore/types"
	abci "github.com/tendermint/tendermint/abci/types"
	"github.com/tendermint/tendermint/libs/log"
	"github.com/tendermint/tendermint/rpc/client"
	ctypes "github.com/tendermint/tendermint/rpc/core/types"
	"github.com/tendermint/tendermint/state/txindex"
	tmStore "github.com/tendermint/tendermint/store"
	tmtypes "github.com/tendermint/tendermint/types"
	dbm "github.com/tendermint/tm-db"
)

// T0 is the genesis time; block h has time T0 + h*BlockInterval unless overridden.
var T0 = time.Date(2022, 1, 1, 0, 0, 0, 0, time.UTC)

const BlockInterval = time.Minute

// AllFeatures are the feature keys of codec/codec.go that gate behaviour.
var AllFeatures = []string{
	codec.NonCustodialUpdateKey, codec.EnforceMaxChainsUpdateKey, codec.TxCacheEnhancementKey,
	codec.MaxRelayProtKey, codec.ReplayBurnKey, codec.BlockSizeModifyKey, codec.RSCALKey,
	codec.VEDITKey, codec.OutputAddressEditKey, codec.ClearUnjailedValSessionKey,
	codec.PerChainRTTM, codec.AppTransferKey, codec.RewardDelegatorsKey,
}

// NodeSpec is a validator staked at genesis.
type NodeSpec struct {
	Key        int      // key index of the operator
	Output     int      // key index of the output address (-1 = none / custodial)
	Tokens     int64
	Chains     []string
	Jailed     bool
	Delegators map[int]uint32 // key index -> share
}

// AppSpec is an application staked at genesis.
type AppSpec struct {
	Key    int
	Tokens int64
	Chains []string
}

// Config describes the chain to build.
type Config struct {
	Seed       int64
	ChainID    string
	NKeys      int              // number of deterministic keys (named a1..aN)
	Balances   map[int]int64    // key index -> genesis balance
	CodecUpgradeAt int64        // height K of the codec (amino -> proto) upgrade: codec.OldUpgradeHeight = K, UpgradeHeight = K+1 (default K = 1: every recorded block is past it); transactions of blocks below K must be built with TxOpts.Legacy
	BigBase    map[int]string   // key index -> decimal number added to the genesis balance and subtracted again by the projection (balances at the 2^64 boundary while the specification keeps small numbers)
	Nodes      []NodeSpec
	Apps       []AppSpec
	DAOTokens  int64
	DAOOwner   int              // key index of DAO owner and ACL owner of every param
	ACLOwners  map[string]int   // overrides per ACL key
	Features   map[string]int64 // feature key -> activation height (default: all at 2)
	NodeParams func(*nodesTypes.Params)
	AppParams  func(*appsTypes.Params)
	PocketParams func(*pocketTypes.Params)
	AuthParams func(*authTypes.Params)
	DB         dbm.DB // nil = fresh memdb
	CacheOn    bool
	Servicer   int // key index registered as this node's servicer identity (-1 none)
	GenesisOverride app.GenesisState // if set, used verbatim (import of an export)
}

// Sim is a running chain.
type Sim struct {
	Cfg     Config
	App     *app.PocketCoreApp
	Keys    []crypto.PrivateKey
	DB      dbm.DB
	BS      *tmStore.BlockStore
	BSDB    dbm.DB
	Indexer txindex.TxIndexer
	IdxDB   dbm.DB
	Genesis app.GenesisState

	Height    int64 // last begun / committed height
	LastHash  []byte
	LastBlockID tmtypes.BlockID
	ValSet    map[string]ValInfo // hex(consensus address) -> power, as accumulated from updates
	InBlock   bool
	blockTxs  [][]byte
	blockRes  []abci.ResponseDeliverTx
	Names     map[string]string // hex address -> symbolic name
	LastUpdates []abci.ValidatorUpdate
	IndexerFailed string // last error of the tx indexer (replay protection is then inert)
}

type ValInfo struct {
	PubKey []byte
	Power  int64
}

type stubClient struct{ client.Client }

func (stubClient) ConsensusReactorStatus() (*ctypes.ResultConsensusReactorStatus, error) {
	return nil, errors.New("chainsim: no consensus reactor")
}

// Key derives the i-th deterministic private key of a seed.
func Key(seed int64, i int) crypto.PrivateKey {
	var b [16]byte
	binary.BigEndian.PutUint64(b[:8], uint64(seed))
	binary.BigEndian.PutUint64(b[8:], uint64(i))
	h := sha256.Sum256(b[:])
	return crypto.Ed25519PrivateKey(ed25519.NewKeyFromSeed(h[:]))
}

func Addr(k crypto.PrivateKey) sdk.Address { return sdk.Address(k.PublicKey().Address()) }

func (s *Sim) Addr(i int) sdk.Address { return Addr(s.Keys[i]) }

func memCodec() *codec.Codec { return app.Codec() }

// Codec returns the application codec.
func Codec() *codec.Codec { return app.Codec() }

// Logger is a nop logger unless VERIF_LOG is set (debugging).
func Logger() log.Logger {
	if os.Getenv("VERIF_LOG") != "" {
		return log.NewTMLogger(os.Stderr)
	}
	return log.NewNopLogger()
}

// SetFeatureGlobals installs the process-global upgrade schedule the way a node that
// replayed the upgrades would have it.
func SetFeatureGlobals(features map[string]int64) { SetFeatureGlobalsAt(features, 1) }

// SetFeatureGlobalsAt: the same with the codec upgrade at height k (GetCodecUpgradeHeight() = k).
func SetFeatureGlobalsAt(features map[string]int64, k int64) {
	if k < 1 {
		k = 1
	}
	codec.TestMode = 0
	codec.OldUpgradeHeight = k
	codec.UpgradeHeight = k + 1
	m := make(map[string]int64)
	for k, v := range features {
		if v > 0 {
			m[k] = v
		}
	}
	codec.UpgradeFeatureMap = m
}

func featureSlice(features map[string]int64) []string {
	var out []string
	for k, v := range features {
		if v > 0 {
			out = append(out, fmt.Sprintf("%s:%d", k, v))
		}
	}
	sort.Strings(out)
	return out
}

// DefaultFeatures: everything active from height 2.
func DefaultFeatures() map[string]int64 {
	m := map[string]int64{}
	for _, f := range AllFeatures {
		m[f] = 2
	}
	return m
}

// BuildGenesis builds the genesis state for cfg.
// bigBaseOf: the offset of account i (Config.BigBase), zero when it has none.
func bigBaseOf(cfg Config, i int) sdk.BigInt {
	if b, ok := cfg.BigBase[i]; ok {
		v, ok := sdk.NewIntFromString(b)
		if !ok {
			panic("chainsim: bad BigBase " + b)
		}
		return v
	}
	return sdk.ZeroInt()
}

func BuildGenesis(cfg Config, keys []crypto.PrivateKey) app.GenesisState {
	cdc := memCodec()
	gen := module.NewBasicManager(apps.AppModuleBasic{}, auth.AppModuleBasic{}, gov.AppModuleBasic{},
		nodes.AppModuleBasic{}, pocket.AppModuleBasic{}).DefaultGenesis()
	// --- nodes
	var pos nodesTypes.GenesisState
	cdc.MustUnmarshalJSON(gen[nodesTypes.ModuleName], &pos)
	pos.Params.StakeMinimum = 1000000
	pos.Params.UnstakingTime = 3 * BlockInterval
	pos.Params.MaxValidators = 3
	pos.Params.SessionBlockFrequency = 4
	pos.Params.MaxJailedBlocks = 3
	pos.Params.SignedBlocksWindow = 10
	pos.Params.DowntimeJailDuration = 2 * BlockInterval
	pos.Params.MaximumChains = 3
	pos.Params.RelaysToTokensMultiplier = 1000
	pos.Params.ServicerStakeFloorMultiplier = 1000000
	pos.Params.ServicerStakeWeightCeiling = 4000000
	if cfg.NodeParams != nil {
		cfg.NodeParams(&pos.Params)
	}
	for _, n := range cfg.Nodes {
		v := nodesTypes.Validator{
			Address: Addr(keys[n.Key]), PublicKey: keys[n.Key].PublicKey(), Jailed: n.Jailed,
			Status: sdk.Staked, Chains: n.Chains, ServiceURL: "https://node.example:443",
			StakedTokens: sdk.NewInt(n.Tokens),
		}
		if n.Output >= 0 {
			v.OutputAddress = Addr(keys[n.Output])
		}
		if len(n.Delegators) > 0 {
			v.RewardDelegators = map[string]uint32{}
			for ki, share := range n.Delegators {
				v.RewardDelegators[Addr(keys[ki]).String()] = share
			}
		}
		pos.Validators = append(pos.Validators, v)
	}
	gen[nodesTypes.ModuleName] = cdc.MustMarshalJSON(pos)
	// --- apps
	var ag appsTypes.GenesisState
	cdc.MustUnmarshalJSON(gen[appsTypes.ModuleName], &ag)
	ag.Params.AppStakeMin = 1000000
	ag.Params.UnstakingTime = 3 * BlockInterval
	ag.Params.MaxApplications = 3
	ag.Params.MaxChains = 2
	ag.Params.BaseRelaysPerPOKT = 100000 // 1000 relays per POKT (the parameter is in 1/100)
	if cfg.AppParams != nil {
		cfg.AppParams(&ag.Params)
	}
	for _, a := range cfg.Apps {
		ag.Applications = append(ag.Applications, appsTypes.Application{
			Address: Addr(keys[a.Key]), PublicKey: keys[a.Key].PublicKey(), Status: sdk.Staked,
			Chains: a.Chains, StakedTokens: sdk.NewInt(a.Tokens),
			MaxRelays: sdk.NewInt(a.Tokens / 1000000 * 1000),
		})
	}
	gen[appsTypes.ModuleName] = cdc.MustMarshalJSON(ag)
	// --- auth
	var au auth.GenesisState
	cdc.MustUnmarshalJSON(gen[auth.ModuleName], &au)
	idx := make([]int, 0, len(cfg.Balances))
	for i := range cfg.Balances {
		idx = append(idx, i)
	}
	sort.Ints(idx)
	for _, i := range idx {
		au.Accounts = append(au.Accounts, &auth.BaseAccount{
			Address: Addr(keys[i]), PubKey: keys[i].PublicKey(),
			Coins: sdk.NewCoins(sdk.NewCoin(sdk.DefaultStakeDenom, sdk.NewInt(cfg.Balances[i]).Add(bigBaseOf(cfg, i)))),
		})
	}
	if cfg.AuthParams != nil {
		cfg.AuthParams(&au.Params)
	}
	gen[auth.ModuleName] = cdc.MustMarshalJSON(au)
	// --- pocketcore
	var pc pocketTypes.GenesisState
	cdc.MustUnmarshalJSON(gen[pocketTypes.ModuleName], &pc)
	pc.Params.SupportedBlockchains = []string{"0001", "0002", "0003"}
	pc.Params.SessionNodeCount = 1
	pc.Params.ClaimSubmissionWindow = 2
	pc.Params.ClaimExpiration = 6
	pc.Params.MinimumNumberOfProofs = 5
	if cfg.PocketParams != nil {
		cfg.PocketParams(&pc.Params)
	}
	gen[pocketTypes.ModuleName] = cdc.MustMarshalJSON(pc)
	// --- gov
	var gg govTypes.GenesisState
	cdc.MustUnmarshalJSON(gen[govTypes.ModuleName], &gg)
	owner := Addr(keys[cfg.DAOOwner])
	acl := govTypes.ACL(make([]govTypes.ACLPair, 0))
	for _, k := range ACLKeys {
		o := owner
		if ki, ok := cfg.ACLOwners[k]; ok {
			o = Addr(keys[ki])
		}
		acl.SetOwner(k, o)
	}
	feats := cfg.Features
	if feats == nil {
		feats = DefaultFeatures()
	}
	gg.Params.ACL = acl
	gg.Params.DAOOwner = owner
	ck := cfg.CodecUpgradeAt
	if ck < 1 {
		ck = 1
	}
	gg.Params.Upgrade = govTypes.Upgrade{Height: ck + 1, Version: "0.1.0", OldUpgradeHeight: ck, Features: featureSlice(feats)}
	gg.DAOTokens = sdk.NewInt(cfg.DAOTokens)
	gen[govTypes.ModuleName] = cdc.MustMarshalJSON(gg)
	return gen
}

// ACLKeys lists every governance parameter key (see x/gov/types and app tests).
var ACLKeys = []string{
	"application/ApplicationStakeMinimum", "application/AppUnstakingTime", "application/BaseRelaysPerPOKT",
	"application/MaxApplications", "application/MaximumChains", "application/ParticipationRateOn",
	"application/StabilityAdjustment", "auth/MaxMemoCharacters", "auth/TxSigLimit", "auth/FeeMultipliers",
	"gov/acl", "gov/daoOwner", "gov/upgrade", "pocketcore/ClaimExpiration", "pocketcore/ClaimSubmissionWindow",
	"pocketcore/MinimumNumberOfProofs", "pocketcore/ReplayAttackBurnMultiplier", "pocketcore/SessionNodeCount",
	"pocketcore/SupportedBlockchains", "pos/BlocksPerSession", "pos/DAOAllocation",
	"pos/DowntimeJailDuration", "pos/MaxEvidenceAge", "pos/MaximumChains", "pos/MaxJailedBlocks",
	"pos/MaxValidators", "pos/MinSignedPerWindow", "pos/ProposerPercentage", "pos/RelaysToTokensMultiplier",
	"pos/SignedBlocksWindow", "pos/SlashFractionDoubleSign",
	"pos/SlashFractionDowntime", "pos/StakeDenom", "pos/StakeMinimum", "pos/UnstakingTime",
}

// New builds the chain and runs InitChain.
func New(cfg Config) *Sim {
	if cfg.ChainID == "" {
		cfg.ChainID = "verif-chain"
	}
	if cfg.NKeys == 0 {
		cfg.NKeys = 8
	}
	s := &Sim{Cfg: cfg, ValSet: map[string]ValInfo{}, Names: map[string]string{}}
	for i := 0; i < cfg.NKeys; i++ {
		s.Keys = append(s.Keys, Key(cfg.Seed, i))
		s.Names[Addr(s.Keys[i]).String()] = fmt.Sprintf("a%d", i+1)
	}
	for _, m := range []string{authTypes.FeeCollectorName, nodesTypes.StakedPoolName, appsTypes.StakedPoolName, govTypes.DAOAccountName} {
		s.Names[authTypes.NewModuleAddress(m).String()] = m
	}
	feats := cfg.Features
	if feats == nil {
		feats = DefaultFeatures()
	}
	SetFeatureGlobalsAt(feats, cfg.CodecUpgradeAt)
	logger := Logger()
	pocketTypes.CleanPocketNodes()
	if cfg.Servicer >= 0 && cfg.Servicer < len(s.Keys) && cfg.Servicer != 0 || cfg.Servicer > 0 {
		pocketTypes.AddPocketNode(s.Keys[cfg.Servicer], logger)
	}
	pocketTypes.InitConfig(&pocketTypes.HostedBlockchains{M: map[string]pocketTypes.HostedBlockchain{}}, logger, sdk.DefaultTestingPocketConfig())
	// process-global caches must not leak from a previous chain built in this process
	sdk.VbCCache = sdk.NewCache(100)
	if pocketTypes.GlobalSessionCache == nil {
		pocketTypes.GlobalSessionCache = new(pocketTypes.CacheStorage)
		pocketTypes.GlobalSessionCache.Init("", "", sdk.DefaultTestingPocketConfig().TendermintConfig.LevelDBOptions, 100, true)
	}
	if cfg.GenesisOverride != nil {
		s.Genesis = cfg.GenesisOverride
	} else {
		s.Genesis = BuildGenesis(cfg, s.Keys)
	}
	s.DB = cfg.DB
	if s.DB == nil {
		s.DB = dbm.NewMemDB()
	}
	s.open()
	vals := s.App.InitChain(abci.RequestInitChain{
		Time: T0, ChainId: cfg.ChainID,
		ConsensusParams: &abci.ConsensusParams{
			Block:     &abci.BlockParams{MaxBytes: 4000000, MaxGas: -1},
			Evidence:  &abci.EvidenceParams{MaxAge: 100000},
			Validator: &abci.ValidatorParams{PubKeyTypes: []string{"ed25519"}},
		},
	})
	s.applyUpdates(vals.Validators)
	return s
}

// open (re)creates the application object on s.DB (a restart when called again).
func (s *Sim) open() {
	app.GenState = s.Genesis
	s.App = app.NewPocketCoreApp(s.Genesis, nil, stubClient{}, &pocketTypes.HostedBlockchains{M: map[string]pocketTypes.HostedBlockchain{}},
		Logger(), s.DB, s.Cfg.CacheOn, 5000000)
	if s.BSDB == nil {
		s.BSDB = dbm.NewMemDB()
		s.IdxDB = dbm.NewMemDB()
	}
	s.BS = tmStore.NewBlockStore(s.BSDB)
	s.Indexer = sdk.NewTransactionIndexer(s.IdxDB)
	s.App.SetBlockstore(s.BS)
	s.App.SetTxIndexer(s.Indexer)
}

// Restart drops the application object and re-creates it on the same databases.
func (s *Sim) Restart() { s.open() }

func (s *Sim) applyUpdates(ups []abci.ValidatorUpdate) {
	s.LastUpdates = ups
	for _, u := range ups {
		k := hex.EncodeToString(u.PubKey.Data)
		if u.Power == 0 {
			delete(s.ValSet, k)
		} else {
			s.ValSet[k] = ValInfo{PubKey: u.PubKey.Data, Power: u.Power}
		}
	}
}

// BlockOpts controls one block.
type BlockOpts struct {
	Time      *time.Time // default T0 + h*interval
	Proposer  sdk.Address // default: first validator of the set (by address order)
	Absent    map[string]bool // hex addresses of validators that did not sign the last block
	Evidence  []abci.Evidence
}

func tmAddr(pub []byte) []byte {
	h := sha256.Sum256(pub)
	return h[:20]
}

// Votes builds LastCommitInfo from the accumulated validator set.
func (s *Sim) Votes(absent map[string]bool) []abci.VoteInfo {
	keys := make([]string, 0, len(s.ValSet))
	for k := range s.ValSet {
		keys = append(keys, k)
	}
	sort.Strings(keys)
	var out []abci.VoteInfo
	for _, k := range keys {
		v := s.ValSet[k]
		a := tmAddr(v.PubKey)
		out = append(out, abci.VoteInfo{Validator: abci.Validator{Address: a, Power: v.Power},
			SignedLastBlock: !absent[hex.EncodeToString(a)]})
	}
	return out
}

// BeginBlock starts block Height+1.
func (s *Sim) BeginBlock(o BlockOpts) abci.ResponseBeginBlock {
	if s.InBlock {
		panic("chainsim: BeginBlock inside a block")
	}
	h := s.Height + 1
	t := T0.Add(time.Duration(h) * BlockInterval)
	if o.Time != nil {
		t = *o.Time
	}
	votes := s.Votes(o.Absent)
	prop := []byte(o.Proposer)
	if prop == nil && len(votes) > 0 {
		prop = votes[0].Validator.Address
	}
	prev := s.LastBlockID // saveBlock advances LastBlockID to block h
	s.saveBlock(h, t, prop, nil)
	hdr := abci.Header{ChainID: s.Cfg.ChainID, Height: h, Time: t, ProposerAddress: prop, AppHash: s.LastHash,
		LastBlockId: abci.BlockID{Hash: prev.Hash}}
	res := s.App.BeginBlock(abci.RequestBeginBlock{Hash: s.blockHash(h), Header: hdr,
		LastCommitInfo: abci.LastCommitInfo{Votes: votes}, ByzantineValidators: o.Evidence})
	s.Height = h
	s.InBlock = true
	s.blockTxs = nil
	s.blockRes = nil
	return res
}

// saveBlock stores a block (meta + parts) for height h so that Context.PrevCtx /
// GetPrevBlockHash work as on a real node.
func (s *Sim) saveBlock(h int64, t time.Time, proposer []byte, txs [][]byte) {
	if s.BS.Height() >= h {
		return // already saved (restart and re-execution of the same height)
	}
	var ttxs []tmtypes.Tx
	for _, b := range txs {
		ttxs = append(ttxs, b)
	}
	blk := tmtypes.MakeBlock(h, ttxs, &tmtypes.Commit{}, nil)
	blk.ChainID = s.Cfg.ChainID
	blk.Time = t
	blk.LastBlockID = s.LastBlockID
	blk.AppHash = s.LastHash
	blk.ProposerAddress = proposer
	blk.ConsensusHash = []byte("chainsim-consensus-hash-32bytes!")
	blk.ValidatorsHash = blk.ConsensusHash
	blk.NextValidatorsHash = blk.ConsensusHash
	ps := blk.MakePartSet(65536)
	s.BS.SaveBlock(blk, ps, tmtypes.NewCommit(tmtypes.BlockID{Hash: blk.Hash(), PartsHeader: ps.Header()}, nil))
	s.LastBlockID = tmtypes.BlockID{Hash: blk.Hash(), PartsHeader: ps.Header()}
}

func (s *Sim) blockHash(h int64) []byte {
	if m := s.BS.LoadBlockMeta(h); m != nil {
		return m.BlockID.Hash
	}
	return nil
}

// DeliverTx delivers one transaction in the current block.
func (s *Sim) DeliverTx(tx []byte) abci.ResponseDeliverTx {
	if !s.InBlock {
		panic("chainsim: DeliverTx outside a block")
	}
	r := s.App.DeliverTx(abci.RequestDeliverTx{Tx: tx})
	s.blockTxs = append(s.blockTxs, tx)
	s.blockRes = append(s.blockRes, r)
	return r
}

func (s *Sim) CheckTx(tx []byte) abci.ResponseCheckTx {
	return s.App.CheckTx(abci.RequestCheckTx{Tx: tx})
}

// Simulate sends the transaction through the ABCI query "app/simulate" (the message handler
// runs on a branch of the check state that is thrown away; signatures are not verified).
func (s *Sim) Simulate(tx []byte) abci.ResponseQuery {
	return s.App.Query(abci.RequestQuery{Path: "app/simulate", Data: tx})
}

// Noise is off-chain activity that must have no effect on the chain: the transaction is run
// through CheckTx and through app/simulate. It is deliberately NOT an event of the recorded
// trace: the next recorded step is validated against the last recorded post-state, so any
// persistent or in-memory effect of the noise shows as a step the specification rejects.
func (s *Sim) Noise(tx []byte) (checkCode, simCode uint32) {
	c := s.CheckTx(tx)
	q := s.Simulate(tx)
	return c.Code, q.Code
}

// EndBlock ends the block and applies validator updates to the accumulated set.
func (s *Sim) EndBlock() abci.ResponseEndBlock {
	r := s.App.EndBlock(abci.RequestEndBlock{Height: s.Height})
	s.applyUpdates(r.ValidatorUpdates)
	return r
}

// Commit commits and indexes the block's transactions like Tendermint's indexer
// service does (every result is indexed; the indexer itself skips ante failures).
func (s *Sim) Commit() []byte {
	r := s.App.Commit()
	s.LastHash = r.Data
	s.InBlock = false
	if len(s.blockTxs) > 0 {
		b := txindex.NewBatch(int64(len(s.blockTxs)))
		for i, tx := range s.blockTxs {
			_ = b.Add(&tmtypes.TxResult{Height: s.Height, Index: uint32(i), Tx: tx, Result: s.blockRes[i]})
		}
		func() {
			// the indexer encodes results with the height-0 codec; on chains whose upgrade
			// height was reset to 0 that fails - remember it instead of killing the run
			defer func() {
				if r := recover(); r != nil {
					s.IndexerFailed = fmt.Sprint(r)
				}
			}()
			if err := s.Indexer.AddBatch(b); err != nil {
				s.IndexerFailed = err.Error()
			}
		}()
	}
	return r.Data
}

// BlockResult is what one block produced.
type BlockResult struct {
	Height  int64
	Results []abci.ResponseDeliverTx
	Updates []abci.ValidatorUpdate
	AppHash []byte
}

// Block runs a whole block.
func (s *Sim) Block(txs [][]byte, o BlockOpts) BlockResult {
	s.BeginBlock(o)
	var res []abci.ResponseDeliverTx
	for _, tx := range txs {
		res = append(res, s.DeliverTx(tx))
	}
	eb := s.EndBlock()
	hash := s.Commit()
	return BlockResult{Height: s.Height, Results: res, Updates: eb.ValidatorUpdates, AppHash: hash}
}

// ---- transactions

// TxOpts are the signing dimensions of a transaction.
type TxOpts struct {
	Signer     crypto.PrivateKey // key producing the signature
	Fee        int64
	Entropy    int64
	Memo       string
	ChainID    string // "" = the chain's id
	CorruptSig bool   // flip one signature bit after signing
	NoSig      bool   // empty signature bytes
	NoPubKey   bool   // omit the public key from the signature
	FeeCoins   sdk.Coins // overrides Fee when non-nil (invalid coin sets)
	Legacy     bool   // amino encoding
	BadSignBytes bool // sign over different content (entropy+1): right key, other message
	// Multi: sign with a multi-signature key made of these member keys (in this order);
	// MultiSignOrder optionally permutes the order in which signatures are placed
	Multi          []crypto.PrivateKey
	MultiSignOrder []int
}

// MultiKey builds the multi-signature public key of the given members.
func MultiKey(members []crypto.PrivateKey) crypto.PublicKeyMultiSignature {
	var pks []crypto.PublicKey
	for _, m := range members {
		pks = append(pks, m.PublicKey())
	}
	return crypto.PublicKeyMultiSignature{PublicKeys: pks}
}

// MultiAddr is the account address of a multi-signature key.
func MultiAddr(members []crypto.PrivateKey) sdk.Address {
	return sdk.Address(MultiKey(members).Address())
}

func signMulti(o TxOpts, sb []byte) ([]byte, crypto.PublicKey) {
	ms := crypto.MultiSignature{Sigs: make([][]byte, 0, len(o.Multi))}
	order := o.MultiSignOrder
	if order == nil {
		for i := range o.Multi {
			order = append(order, i)
		}
	}
	for _, i := range order {
		sig, err := o.Multi[i].Sign(sb)
		if err != nil {
			panic(err)
		}
		ms.Sigs = append(ms.Sigs, sig)
	}
	return ms.Marshal(), MultiKey(o.Multi)
}

// SignTx builds, signs and encodes a StdTx with the real codec for the current height.
func (s *Sim) SignTx(msg sdk.ProtoMsg, o TxOpts) []byte {
	chain := o.ChainID
	if chain == "" {
		chain = s.Cfg.ChainID
	}
	fee := o.FeeCoins
	if fee == nil {
		fee = sdk.NewCoins(sdk.NewCoin(sdk.DefaultStakeDenom, sdk.NewInt(o.Fee)))
	}
	signEntropy := o.Entropy
	if o.BadSignBytes {
		signEntropy++
	}
	sb, err := authTypes.StdSignBytes(chain, signEntropy, fee, msg, o.Memo)
	if err != nil {
		panic(err)
	}
	var sig []byte
	var pub crypto.PublicKey
	if len(o.Multi) > 0 {
		sig, pub = signMulti(o, sb)
	} else {
		sig, err = o.Signer.Sign(sb)
		if err != nil {
			panic(err)
		}
		pub = o.Signer.PublicKey()
	}
	if o.CorruptSig {
		sig[len(sig)/2] ^= 0x01
	}
	if o.NoSig {
		sig = []byte{}
	}
	ss := authTypes.StdSignature{PublicKey: pub, Signature: sig}
	if o.NoPubKey {
		ss.PublicKey = nil
	}
	tx := authTypes.NewTx(msg, fee, ss, o.Memo, o.Entropy)
	enc := authTypes.DefaultTxEncoder(memCodec())
	h := s.Height
	if o.Legacy {
		h = 0
	}
	bz, err := enc(tx, h)
	if err != nil {
		panic(err)
	}
	return bz
}

// Name maps an address to its symbolic name.
func (s *Sim) Name(a sdk.Address) string {
	if a == nil {
		return ""
	}
	if n, ok := s.Names[a.String()]; ok {
		return n
	}
	return "x" + a.String()[:8]
}

func mustJSON(v interface{}) string {
	b, err := json.Marshal(v)
	if err != nil {
		panic(err)
	}
	return string(b)
}
