package chainsim

import (
	"bytes"
	"encoding/binary"
	"sort"
	"time"

	"github.com/pokt-network/pocket-core/codec"
	sdk "github.com/pokt-network/pocket-core/types"
	appsTypes "github.com/pokt-network/pocket-core/x/apps/types"
	authTypes "github.com/pokt-network/pocket-core/x/auth/types"
	nodesTypes "github.com/pokt-network/pocket-core/x/nodes/types"
	pocketTypes "github.com/pokt-network/pocket-core/x/pocketcore/types"
	abci "github.com/tendermint/tendermint/abci/types"
	"github.com/tendermint/tendermint/libs/log"
)

// State is the projection of the application state into the specification's
// vocabulary (symbolic account names, small integers).  It is produced from the real
// keepers' getters AND from raw iteration of the index prefixes, so index images are
// the actual index entries.  No property logic lives here.
type State struct {
	H      int64            `json:"h"`
	Bal    map[string]int64 `json:"bal"`
	Supply int64            `json:"supply"`
	BadCoins []string       `json:"badCoins"` // accounts whose coin set is not canonical
	Nopk     map[string]bool `json:"nopk"`    // accounts without a stored public key
	Val    map[string]ValState `json:"val"`
	IxStaked    [][]interface{} `json:"ixStaked"`    // [name, power] in index (descending) order
	IxChain     [][]string      `json:"ixChain"`     // [chain, name]
	IxUnstaking [][]interface{} `json:"ixUnstaking"` // [time, [names]]
	IxWaiting   []string        `json:"ixWaiting"`
	PrevPower   map[string]int64 `json:"prevPower"`
	PrevTotal   int64            `json:"prevTotal"`
	Signing     map[string]SignState `json:"signing"`
	PrevProposer string          `json:"prevProposer"`
	App    map[string]AppState  `json:"app"`
	IxAppStaked    []string        `json:"ixAppStaked"`
	IxAppUnstaking [][]interface{} `json:"ixAppUnstaking"`
	Claims []ClaimState        `json:"claims"`
	NodeParams map[string]int64 `json:"nodeParams"`
	AppParams  map[string]int64 `json:"appParams"`
	PcParams   map[string]int64 `json:"pcParams"`
	ACL      map[string]string `json:"acl"`
	DAOOwner string            `json:"daoOwner"`
	Upgrade  UpgradeState      `json:"upgrade"`
	FeatMem  map[string]int64  `json:"featMem"`
	TmSet    map[string]int64  `json:"tmSet"`
}

type ValState struct {
	Status     int              `json:"status"` // 0 unstaked, 1 unstaking, 2 staked
	Jailed     bool             `json:"jailed"`
	Tokens     int64            `json:"tokens"`
	Chains     []string         `json:"chains"`
	Output     string           `json:"output"`
	Delegators map[string]int64 `json:"delegators"`
	UnstakeAt  int64            `json:"unstakeAt"` // block intervals since T0; 0 = zero time
	URL        string           `json:"url"`
	PubKeyOK   bool             `json:"pubkeyOK"` // address derives from the stored public key
}

type SignState struct {
	Missed       int64 `json:"missed"`
	Index        int64 `json:"index"`
	JailedUntil  int64 `json:"jailedUntil"`
	JailedBlocks int64 `json:"jailedBlocks"`
}

type AppState struct {
	Status    int      `json:"status"`
	Jailed    bool     `json:"jailed"`
	Tokens    int64    `json:"tokens"`
	Chains    []string `json:"chains"`
	MaxRelays int64    `json:"maxRelays"`
	UnstakeAt int64    `json:"unstakeAt"`
	PubKeyOK  bool     `json:"pubkeyOK"`
}

type ClaimState struct {
	Node     string `json:"node"`
	App      string `json:"app"`
	Chain    string `json:"chain"`
	SessionH int64  `json:"sessionH"`
	Total    int64  `json:"total"`
	Evidence int    `json:"evidence"`
	Expires  int64  `json:"expires"`
}

type UpgradeState struct {
	Height   int64    `json:"height"`
	Version  string   `json:"version"`
	Old      int64    `json:"old"`
	Features []string `json:"features"`
}

// TimeIdx converts a time to block intervals since T0 (0 for the zero time).
func TimeIdx(t time.Time) int64 {
	if t.IsZero() || t.Unix() <= 0 {
		return 0
	}
	return int64(t.Sub(T0) / BlockInterval)
}

// Ctx returns a context over the root multistore (committed state plus whatever the
// current block has written so far).
func (s *Sim) Ctx() sdk.Ctx {
	t := T0.Add(time.Duration(s.Height) * BlockInterval)
	return sdk.NewContext(s.App.Store(), abci.Header{ChainID: s.Cfg.ChainID, Height: s.Height, Time: t}, false, log.NewNopLogger()).
		WithBlockStore(s.App.BlockStore())
}

func amt(c sdk.Coins) int64 { return small(c.AmountOf(sdk.DefaultStakeDenom)) }

// OutOfRange is what the projection shows for an amount the specification's 32-bit integers cannot hold
// (it never equals an amount the specification computes).
const OutOfRange = -999999999

func small(v sdk.BigInt) int64 {
	if !v.IsInt64() || v.Int64() > 1<<31-1 || v.Int64() < -(1<<31-1) {
		return OutOfRange
	}
	return v.Int64()
}

func canonical(c sdk.Coins) bool {
	for i, x := range c {
		if !x.Amount.IsPositive() {
			return false
		}
		if i > 0 && c[i-1].Denom >= x.Denom {
			return false
		}
	}
	return true
}

// Project reads the whole application state.
func (s *Sim) Project() State {
	return s.ProjectCtx(s.Ctx())
}

func (s *Sim) ProjectCtx(ctx sdk.Ctx) State {
	st := State{H: ctx.BlockHeight(), Bal: map[string]int64{}, Val: map[string]ValState{}, PrevPower: map[string]int64{},
		Signing: map[string]SignState{}, App: map[string]AppState{}, ACL: map[string]string{}, FeatMem: map[string]int64{},
		TmSet: map[string]int64{}, IxStaked: [][]interface{}{}, IxChain: [][]string{}, IxUnstaking: [][]interface{}{},
		IxWaiting: []string{}, Nopk: map[string]bool{}, IxAppStaked: []string{}, IxAppUnstaking: [][]interface{}{}, Claims: []ClaimState{}, BadCoins: []string{}}
	ak, nk, apk, pk, gk := s.App.VerifAccountKeeper(), s.App.VerifNodesKeeper(), s.App.VerifAppsKeeper(), s.App.VerifPocketKeeper(), s.App.VerifGovKeeper()
	// --- auth
	for _, acc := range ak.GetAllAccounts(ctx) {
		n := s.Name(acc.GetAddress())
		st.Bal[n] = amt(acc.GetCoins())
		if len(s.Cfg.BigBase) > 0 {
			for i := range s.Keys {
				if s.Addr(i).Equals(acc.GetAddress()) {
					st.Bal[n] = small(acc.GetCoins().AmountOf(sdk.DefaultStakeDenom).Sub(bigBaseOf(s.Cfg, i)))
				}
			}
		}
		if !canonical(acc.GetCoins()) {
			st.BadCoins = append(st.BadCoins, n)
		}
		if acc.GetPubKey() == nil {
			st.Nopk[n] = true
		}
	}
	st.Supply = amt(ak.GetSupply(ctx).GetTotal())
	if len(s.Cfg.BigBase) > 0 {
		sup := ak.GetSupply(ctx).GetTotal().AmountOf(sdk.DefaultStakeDenom)
		for i := range s.Cfg.BigBase {
			sup = sup.Sub(bigBaseOf(s.Cfg, i))
		}
		st.Supply = small(sup)
	}
	// --- nodes: records
	for _, v := range nk.GetAllValidators(ctx) {
		vs := ValState{Status: int(v.Status), Jailed: v.Jailed, Tokens: v.StakedTokens.Int64(), Chains: append([]string{}, v.Chains...),
			Output: s.Name(v.OutputAddress), Delegators: map[string]int64{}, UnstakeAt: TimeIdx(v.UnstakingCompletionTime), URL: v.ServiceURL,
			PubKeyOK: v.PublicKey != nil && bytes.Equal(v.PublicKey.Address(), v.Address)}
		for a, sh := range v.RewardDelegators {
			addr, err := sdk.AddressFromHex(a)
			if err == nil {
				vs.Delegators[s.Name(addr)] = int64(sh)
			} else {
				vs.Delegators[a] = int64(sh)
			}
		}
		sort.Strings(vs.Chains)
		st.Val[s.Name(v.Address)] = vs
		if si, ok := nk.GetValidatorSigningInfo(ctx, v.Address); ok {
			st.Signing[s.Name(v.Address)] = SignState{Missed: si.MissedBlocksCounter, Index: si.Index,
				JailedUntil: TimeIdx(si.JailedUntil), JailedBlocks: si.JailedBlocksCounter}
		}
	}
	// --- nodes: raw indexes
	store := ctx.KVStore(s.App.Keys[nodesTypes.StoreKey])
	it, _ := sdk.KVStoreReversePrefixIterator(store, nodesTypes.StakedValidatorsKey)
	for ; it.Valid(); it.Next() {
		k := it.Key()
		power := int64(binary.BigEndian.Uint64(k[1:9]))
		addr := sdk.CopyBytes(k[9:])
		for i := range addr {
			addr[i] = ^addr[i]
		}
		st.IxStaked = append(st.IxStaked, []interface{}{s.Name(sdk.Address(addr)), power, s.Name(sdk.Address(it.Value()))})
	}
	it.Close()
	it, _ = sdk.KVStorePrefixIterator(store, nodesTypes.StakedValidatorsByNetIDKey)
	for ; it.Valid(); it.Next() {
		k := it.Key()
		// key = prefix || networkID (2 bytes: hex "0001" -> 0x00 0x01) || address
		nid := k[1 : len(k)-sdk.AddrLen]
		st.IxChain = append(st.IxChain, []string{hexs(nid), s.Name(sdk.Address(k[len(k)-sdk.AddrLen:]))})
	}
	it.Close()
	it, _ = sdk.KVStorePrefixIterator(store, nodesTypes.UnstakingValidatorsKey)
	for ; it.Valid(); it.Next() {
		t, err := sdk.ParseTimeBytes(it.Key()[1:])
		var addrs sdk.Addresses
		names := []string{}
		if e := s.App.VerifCodec().UnmarshalBinaryLengthPrefixed(it.Value(), &addrs, ctx.BlockHeight()); e == nil {
			for _, a := range addrs {
				names = append(names, s.Name(a))
			}
		} else {
			names = append(names, "UNDECODABLE")
		}
		ti := int64(-1)
		if err == nil {
			ti = TimeIdx(t)
		}
		st.IxUnstaking = append(st.IxUnstaking, []interface{}{ti, names})
	}
	it.Close()
	it, _ = sdk.KVStorePrefixIterator(store, nodesTypes.WaitingToBeginUnstakingKey)
	for ; it.Valid(); it.Next() {
		st.IxWaiting = append(st.IxWaiting, s.Name(sdk.Address(it.Key()[1:])))
	}
	it.Close()
	nk.IterateAndExecuteOverPrevStateValsByPower(ctx, func(a sdk.Address, p int64) bool {
		st.PrevPower[s.Name(a)] = p
		return false
	})
	st.PrevTotal = nk.PrevStateValidatorsPower(ctx).Int64()
	st.PrevProposer = s.Name(nk.GetPreviousProposer(ctx))
	// --- apps
	for _, a := range apk.GetAllApplications(ctx) {
		as := AppState{Status: int(a.Status), Jailed: a.Jailed, Tokens: a.StakedTokens.Int64(), Chains: append([]string{}, a.Chains...),
			MaxRelays: a.MaxRelays.Int64(), UnstakeAt: TimeIdx(a.UnstakingCompletionTime),
			PubKeyOK: a.PublicKey != nil && bytes.Equal(a.PublicKey.Address(), a.Address)}
		sort.Strings(as.Chains)
		st.App[s.Name(a.Address)] = as
	}
	astore := ctx.KVStore(s.App.Keys[appsTypes.StoreKey])
	it, _ = sdk.KVStoreReversePrefixIterator(astore, appsTypes.StakedAppsKey)
	for ; it.Valid(); it.Next() {
		st.IxAppStaked = append(st.IxAppStaked, s.Name(sdk.Address(it.Value())))
	}
	it.Close()
	it, _ = sdk.KVStorePrefixIterator(astore, appsTypes.UnstakingAppsKey)
	for ; it.Valid(); it.Next() {
		t, err := sdk.ParseTimeBytes(it.Key()[1:])
		var addrs sdk.Addresses
		names := []string{}
		if e := s.App.VerifCodec().UnmarshalBinaryLengthPrefixed(it.Value(), &addrs, ctx.BlockHeight()); e == nil {
			for _, a := range addrs {
				names = append(names, s.Name(a))
			}
		} else {
			names = append(names, "UNDECODABLE")
		}
		ti := int64(-1)
		if err == nil {
			ti = TimeIdx(t)
		}
		st.IxAppUnstaking = append(st.IxAppUnstaking, []interface{}{ti, names})
	}
	it.Close()
	// --- claims
	// read servicer by servicer (store order = address order), not through GetAllClaims: that is the
	// function the genesis export uses, and the projection must not share its mistakes
	addrs := make([]sdk.Address, 0, len(s.Keys))
	for i := range s.Keys {
		addrs = append(addrs, s.Addr(i))
	}
	sort.Slice(addrs, func(i, j int) bool { return bytes.Compare(addrs[i], addrs[j]) < 0 })
	for _, a := range addrs {
		cs, _ := pk.GetClaims(ctx, a)
		for _, c := range cs {
			st.Claims = append(st.Claims, ClaimState{Node: s.Name(c.FromAddress), App: s.nameOfPubKeyHex(c.SessionHeader.ApplicationPubKey),
				Chain: c.SessionHeader.Chain, SessionH: c.SessionHeader.SessionBlockHeight, Total: c.TotalProofs,
				Evidence: int(c.EvidenceType), Expires: c.ExpirationHeight})
		}
	}
	for n := len(pk.GetAllClaims(ctx)); len(st.Claims) < n; {
		st.Claims = append(st.Claims, ClaimState{Node: "?"}) // a claim of an address that is none of the harness keys
	}
	// --- params
	np := nk.GetParams(ctx)
	st.NodeParams = map[string]int64{"StakeMinimum": np.StakeMinimum, "MaxValidators": np.MaxValidators, "UnstakingTime": int64(np.UnstakingTime / BlockInterval),
		"SessionBlockFrequency": np.SessionBlockFrequency, "DAOAllocation": np.DAOAllocation, "ProposerAllocation": np.ProposerAllocation,
		"MaximumChains": np.MaximumChains, "MaxJailedBlocks": np.MaxJailedBlocks, "SignedBlocksWindow": np.SignedBlocksWindow,
		"DowntimeJailDuration": int64(np.DowntimeJailDuration / BlockInterval), "RelaysToTokensMultiplier": np.RelaysToTokensMultiplier,
		"MinSignedPerWindowPct": np.MinSignedPerWindow.MulInt64(100).TruncateInt64(),
		"SlashFractionDoubleSignPct": np.SlashFractionDoubleSign.MulInt64(100).TruncateInt64(),
		"SlashFractionDowntimePpm": np.SlashFractionDowntime.MulInt64(1000000).TruncateInt64(),
		"ServicerStakeFloorMultiplier": np.ServicerStakeFloorMultiplier, "ServicerStakeWeightCeiling": np.ServicerStakeWeightCeiling}
	ap := apk.GetParams(ctx)
	st.AppParams = map[string]int64{"AppStakeMin": ap.AppStakeMin, "MaxApplications": ap.MaxApplications, "MaxChains": ap.MaxChains,
		"UnstakingTime": int64(ap.UnstakingTime / BlockInterval), "BaseRelaysPerPOKT": ap.BaseRelaysPerPOKT, "StabilityAdjustment": ap.StabilityAdjustment}
	pp := pk.GetParams(ctx)
	st.PcParams = map[string]int64{"SessionNodeCount": pp.SessionNodeCount, "ClaimSubmissionWindow": pp.ClaimSubmissionWindow,
		"ClaimExpiration": pp.ClaimExpiration, "ReplayAttackBurnMultiplier": pp.ReplayAttackBurnMultiplier,
		"MinimumNumberOfProofs": pp.MinimumNumberOfProofs, "NSupported": int64(len(pp.SupportedBlockchains))}
	// --- gov
	for _, p := range gk.GetACL(ctx) {
		st.ACL[p.Key] = s.Name(p.Addr)
	}
	st.DAOOwner = s.Name(gk.GetDAOOwner(ctx))
	u := gk.GetUpgrade(ctx)
	st.Upgrade = UpgradeState{Height: u.Height, Version: u.Version, Old: u.OldUpgradeHeight, Features: append([]string{}, u.Features...)}
	for k, v := range codec.UpgradeFeatureMap {
		st.FeatMem[k] = v
	}
	// --- consensus set as accumulated from the reported updates (ghost)
	for _, v := range s.ValSet {
		st.TmSet[s.Name(sdk.Address(tmAddr(v.PubKey)))] = v.Power
	}
	return st
}

func hexs(b []byte) string {
	const d = "0123456789abcdef"
	out := make([]byte, 0, 2*len(b))
	for _, x := range b {
		out = append(out, d[x>>4], d[x&15])
	}
	return string(out)
}

// NameOfPubKeyHex: symbolic name of the account of a hex public key.
func (s *Sim) NameOfPubKeyHex(h string) string { return s.nameOfPubKeyHex(h) }

func (s *Sim) nameOfPubKeyHex(h string) string {
	for _, k := range s.Keys {
		if k.PublicKey().RawString() == h {
			return s.Name(Addr(k))
		}
	}
	if len(h) > 8 {
		return "x" + h[:8]
	}
	return h
}

var _ = authTypes.FeeCollectorName
var _ = pocketTypes.ModuleName
