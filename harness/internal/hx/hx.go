// Package hx holds the small amount of glue shared by all harness engines:
// reading behaviour files (one JSON array of history entries per line, as
// printed by TLC), writing NDJSON traces, and reporting results.
package hx

import (
	"bufio"
	"crypto/sha256"
	"encoding/json"
	"fmt"
	"math/rand"
	"os"
	"runtime"
	"sort"
	"strconv"
	"sync"
)

// Step is one history entry of a TLC behaviour (a TLA+ record).
type Step map[string]interface{}

func (s Step) Str(k string) string {
	if v, ok := s[k].(string); ok {
		return v
	}
	return ""
}

func (s Step) Int(k string) int {
	switch v := s[k].(type) {
	case int:
		return v
	case int64:
		return int(v)
	case float64:
		return int(v)
	case json.Number:
		n, _ := v.Int64()
		return int(n)
	}
	return 0
}

func (s Step) Bool(k string) bool {
	v, _ := s[k].(bool)
	return v
}

func (s Step) Has(k string) bool { _, ok := s[k]; return ok }

// Ints converts a JSON array of numbers.
func Ints(v interface{}) []int {
	arr, ok := v.([]interface{})
	if !ok {
		return nil
	}
	out := make([]int, len(arr))
	for i, e := range arr {
		if f, ok := e.(float64); ok {
			out[i] = int(f)
		}
	}
	return out
}

// ReadBehaviours streams a behaviour file, calling fn for each behaviour.
func ReadBehaviours(path string, fn func(idx int, beh []Step) error) error {
	f, err := os.Open(path)
	if err != nil {
		return err
	}
	defer f.Close()
	sc := bufio.NewScanner(f)
	sc.Buffer(make([]byte, 1<<20), 1<<28)
	idx := 0
	for sc.Scan() {
		line := sc.Bytes()
		if len(line) == 0 {
			continue
		}
		var beh []Step
		if err := json.Unmarshal(Unquote(line), &beh); err != nil {
			return fmt.Errorf("behaviour %d: %v", idx, err)
		}
		if err := fn(idx, beh); err != nil {
			return err
		}
		idx++
	}
	return sc.Err()
}

// Mismatch describes one disagreement between specification and implementation.
type Mismatch struct {
	Behaviour int         `json:"behaviour"`
	Step      int         `json:"step"`
	Op        string      `json:"op"`
	What      string      `json:"what"`
	Want      interface{} `json:"want"`
	Got       interface{} `json:"got"`
	History   interface{} `json:"history,omitempty"`
	Variant   string      `json:"variant,omitempty"`
}

// Report is printed as a single JSON object on stdout by every engine command.
type Report struct {
	Engine      string                 `json:"engine"`
	Mode        string                 `json:"mode"`
	Behaviours  int                    `json:"behaviours"`
	Steps       int                    `json:"steps"`
	Nontrivial  int                    `json:"nontrivial"`
	Distinct    int                    `json:"distinct"`
	Mismatches  []Mismatch             `json:"mismatches"`
	NMismatches int                    `json:"n_mismatches"`
	Samples     []interface{}          `json:"samples"`
	Extra       map[string]interface{} `json:"extra,omitempty"`
	OpCounts    map[string]int         `json:"op_counts,omitempty"`
}

func NewReport(engine, mode string) *Report {
	return &Report{Engine: engine, Mode: mode, Extra: map[string]interface{}{}, OpCounts: map[string]int{}}
}

// AddMismatch keeps the first few mismatches verbatim and counts all of them.
func (r *Report) AddMismatch(m Mismatch) {
	r.NMismatches++
	if len(r.Mismatches) < 5 {
		r.Mismatches = append(r.Mismatches, m)
	}
}

func (r *Report) AddSample(s interface{}) {
	if len(r.Samples) < 3 {
		r.Samples = append(r.Samples, s)
	}
}

func (r *Report) Print() {
	if r.Mismatches == nil {
		r.Mismatches = []Mismatch{}
	}
	if r.Samples == nil {
		r.Samples = []interface{}{}
	}
	enc := json.NewEncoder(os.Stdout)
	_ = enc.Encode(r)
}

// TraceWriter writes NDJSON events.
type TraceWriter struct {
	f *os.File
	w *bufio.Writer
	N int
}

func NewTraceWriter(path string) (*TraceWriter, error) {
	f, err := os.Create(path)
	if err != nil {
		return nil, err
	}
	return &TraceWriter{f: f, w: bufio.NewWriterSize(f, 1<<20)}, nil
}

func (t *TraceWriter) Emit(ev map[string]interface{}) {
	b, err := json.Marshal(ev)
	if err != nil {
		panic(err)
	}
	t.w.Write(b)
	t.w.WriteByte('\n')
	t.N++
}

func (t *TraceWriter) Close() error {
	if err := t.w.Flush(); err != nil {
		return err
	}
	return t.f.Close()
}

// Seed returns VERIF_SEED (default 1).
func Seed() int64 {
	if s := os.Getenv("VERIF_SEED"); s != "" {
		if n, err := strconv.ParseInt(s, 10, 64); err == nil {
			return n
		}
	}
	return 1
}

func Rng(salt int64) *rand.Rand { return rand.New(rand.NewSource(Seed()*1000003 + salt)) }

// SortedKeys returns the sorted keys of a string-keyed map.
func SortedKeys(m map[string]int) []string {
	ks := make([]string, 0, len(m))
	for k := range m {
		ks = append(ks, k)
	}
	sort.Strings(ks)
	return ks
}

// Fatal reports a machinery error (exit 2, never a violation).
func Fatal(format string, a ...interface{}) {
	fmt.Fprintf(os.Stderr, "HARNESS-ERROR: "+format+"\n", a...)
	os.Exit(2)
}

// Merge folds a worker's report into r.
func (r *Report) Merge(o *Report) {
	r.Behaviours += o.Behaviours
	r.Steps += o.Steps
	r.Nontrivial += o.Nontrivial
	r.NMismatches += o.NMismatches
	for _, m := range o.Mismatches {
		if len(r.Mismatches) < 5 {
			r.Mismatches = append(r.Mismatches, m)
		}
	}
	for _, s := range o.Samples {
		r.AddSample(s)
	}
	for k, v := range o.OpCounts {
		r.OpCounts[k] += v
	}
}

type behJob struct {
	idx  int
	line []byte
}

// ParallelBehaviours replays a behaviour file on `workers` goroutines.  fn gets the
// behaviour, whether its text was not seen before, and a per-worker report.
func ParallelBehaviours(path string, workers int, rep *Report, fn func(idx int, beh []Step, fresh bool, rep *Report)) error {
	f, err := os.Open(path)
	if err != nil {
		return err
	}
	defer f.Close()
	jobs := make(chan behJob, 1024)
	done := make(chan *Report, workers)
	var seenMu sync.Mutex
	seen := map[[32]byte]bool{}
	for w := 0; w < workers; w++ {
		go func() {
			wr := NewReport(rep.Engine, rep.Mode)
			for j := range jobs {
				var beh []Step
				if err := json.Unmarshal(Unquote(j.line), &beh); err != nil {
					wr.AddMismatch(Mismatch{Behaviour: j.idx, What: "unparsable behaviour", Got: err.Error()})
					continue
				}
				h := sha256.Sum256(j.line)
				seenMu.Lock()
				fresh := !seen[h]
				seen[h] = true
				seenMu.Unlock()
				wr.Behaviours++
				fn(j.idx, beh, fresh, wr)
			}
			done <- wr
		}()
	}
	sc := bufio.NewScanner(f)
	sc.Buffer(make([]byte, 1<<20), 1<<28)
	idx := 0
	for sc.Scan() {
		b := sc.Bytes()
		if len(b) == 0 {
			continue
		}
		jobs <- behJob{idx, append([]byte{}, b...)}
		idx++
	}
	close(jobs)
	for w := 0; w < workers; w++ {
		rep.Merge(<-done)
	}
	rep.Distinct = len(seen)
	return sc.Err()
}

// Workers returns the parallelism for replay (VERIF_WORKERS, default NumCPU).
func Workers() int {
	if s := os.Getenv("VERIF_WORKERS"); s != "" {
		if n, err := strconv.Atoi(s); err == nil && n > 0 {
			return n
		}
	}
	return runtime.NumCPU()
}

// Unquote accepts a behaviour line either as JSON or as the JSON string literal that
// TLC's PrintT(ToJson(..)) produces.
func Unquote(line []byte) []byte {
	if len(line) > 0 && line[0] == '"' {
		var s string
		if err := json.Unmarshal(line, &s); err == nil {
			return []byte(s)
		}
	}
	return line
}
