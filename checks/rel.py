"""relational engine: C11 C13 (off-chain activity never changes consensus), C12 (determinism),
C43 (exported genesis reproduces the state).  Spec: spec/rel (ChainRel, TraceRel);
harness: harness/cmd/vh-rel (every compared node is a separate process)."""
import json
import os
import re

import vf

SPEC = os.path.join(vf.VERIF, "spec", "rel")


def _known_file(c):
    p = os.path.join(c.scratch, "known.json")
    with open(p, "w") as f:
        json.dump([k["id"] for k in c.known], f)
    return p


def _validate(c, cfg, trace, what, cmd, n):
    """TLC validation of a relational trace; listed known findings that reproduce are printed by
    the specification itself (KNOWN-FINDING-SEEN) and reported, everything else is a violation."""
    res = vf.run_tlc(SPEC, "TraceRel", cfg, c.scratch, workers=1,
                     env={"TRACE_FILE": trace, "KNOWN_FILE": _known_file(c)}, timeout=900, tag="TraceRel-" + cfg)
    seen = set()
    with open(res.stdout_path, errors="replace") as f:
        for line in f:
            m = re.search(r'"KNOWN-FINDING-SEEN", "([^"]+)"', line)
            if m:
                seen.add(m.group(1))
    for kid in sorted(seen):
        what_k = next((k["what"] for k in c.known if k["id"] == kid), "")
        c.known_finding("%s %s" % (kid, what_k))
    c.add("trace_events_validated", max(res.distinct - 1, 0))
    if res.ok:
        c.add("traces_validated_against_impl", n)
        c.parts.append("%s: %d scenarios / %d comparison events accepted by TraceRel (%s)" % (what, n, res.distinct - 1, cfg))
    else:
        st = res.final_state
        line = None
        m = re.search(r"<<(\d+), \"(C\w+)\">>", st.get("errs", ""))
        if m:
            line = int(m.group(1))
        ctx = []
        if line:
            with open(trace) as f:
                for i, l in enumerate(f, 1):
                    if i == line:
                        e = json.loads(l)
                        for k in ("src", "dst", "script"):
                            e.pop(k, None)
                        ctx.append(e)
        c.violation("%s: TLC %s violated at trace line %s: %s" % (what, res.violated, line, json.dumps(ctx)[:600]),
                    {"kind": "trace", "harness_cmd": cmd, "violated": res.violated, "line": line, "context": ctx})
    return res


def _selftest(c, cfg, trace, corrupt, what):
    lines = open(trace).read().splitlines()
    bad = corrupt(lines)
    if bad is None:
        raise vf.MachineryError("binding self-test: nothing to corrupt (%s)" % what)
    p = os.path.join(c.scratch, "corrupt.ndjson")
    open(p, "w").write("\n".join(bad) + "\n")
    res = vf.run_tlc(SPEC, "TraceRel", cfg, c.scratch, workers=1, env={"TRACE_FILE": p, "KNOWN_FILE": _known_file(c)}, tag="TraceRel-selftest")
    if res.ok:
        raise vf.MachineryError("binding self-test failed: corrupted trace accepted (%s)" % what)
    c.parts.append("binding self-test (%s): rejected (%s)" % (what, res.violated))


def _informative(beh_in, beh_out, limit=None, seed=1):
    """Keep behaviours that end with a consensus step (DeliverTx or Commit) and contain an off-chain
    request before it: only those can show a divergence that a shorter behaviour has not shown."""
    import random
    keep = []
    with open(beh_in) as f:
        for line in f:
            h = json.loads(json.loads(line))
            if h and h[-1]["a"] in ("tx", "commit") and any(s["a"] not in ("tx", "commit") for s in h):
                keep.append(line)
    total = len(keep)
    if limit and len(keep) > limit:
        random.Random(seed).shuffle(keep)
        keep = keep[:limit]
    with open(beh_out, "w") as f:
        f.writelines(keep)
    return total, len(keep)


# ------------------------------------------------------------------------------ C11 / C13
def offchain(c):
    pid = c.pid
    thorough = c.tier == "thorough"
    vf.build_harness(["vh-rel"])
    c.assume("each compared node runs in its own process (pocket-core keeps process-global caches); node A serves off-chain "
             "requests between ABCI calls, node B executes the same blocks without them; equality of result codes, result data "
             "and app hash after every block is the oracle")
    c.assume("off-chain requests exercised: CheckTx, app/simulate, ABCI custom queries (application, validator, account) at latest "
             "and past heights, store queries with proofs, RPC helpers through Context.PrevCtx (app, node, balance, lists), dispatch; "
             "relays are covered by the relay engine (C34/C35)")
    # 1. design: the repaired design satisfies the property in every state; the design transcribing
    #    the unrepaired code (kept as a switch) is the generator of interleavings
    res = vf.run_tlc(SPEC, "ChainRel", "MCChainRel_repaired.cfg", c.scratch, workers=4, timeout=900)
    if not res.ok:
        raise vf.MachineryError("repaired design violates %s" % res.violated)
    c.add_tlc(res, "TLC exhaustive MCChainRel_repaired.cfg (invariants C11_C13_NoDivergence, SameEffective)")
    gen = "MCChainRel_gen_t.cfg" if thorough else "MCChainRel_gen_q.cfg"
    res = vf.run_tlc(SPEC, "ChainRel", gen, c.scratch, workers=4, timeout=900)
    if not res.ok:
        raise vf.MachineryError("generator model failed: %s" % res.violated)
    c.add_tlc(res, "TLC transition cover " + gen + " (pessimistic model: off-chain requests may change node-local state)")
    raw = os.path.join(c.scratch, "rel-all.txt")
    beh = os.path.join(c.scratch, "rel.txt")
    vf.extract_behaviours(res.stdout_path, raw)
    total, kept = _informative(raw, beh, limit=6000 if thorough else 400, seed=c.seed)   # ~2 processes x 0.7 s per behaviour
    if kept == 0:
        raise vf.MachineryError("no informative behaviours")
    c.parts.append("%d behaviours end in a block preceded by off-chain requests; %d replayed" % (total, kept))
    rep = vf.run_harness_sharded("vh-rel", ["replay-rel", "-in", beh], 12 if thorough else 8, env={"VERIF_SEED": c.seed}, timeout=3400)
    c.add_replay(rep, "ChainRel interleavings executed by real node pairs (A with, B without the off-chain requests)")
    for m in rep.get("mismatches", []):
        c.violation("%s: node that served %s diverged from a node that did not: %s" % (pid, m["want"].get("off_chain"), m["what"]),
                    {"kind": "behaviour", "harness_cmd": ["vh-rel", "replay-rel", "-in", "{in}"], "behaviour": m["history"], "mismatch": m})
    if c.violations:
        return c.finish(rule="stopped after the first failing stage")
    # 2. random scenarios with many request kinds and transaction kinds
    n = 68 if thorough else 14      # 8 session-cache scenarios + random ones
    tr = os.path.join(c.scratch, "rel-random.ndjson")
    targs = ["random-rel", "-n", n, "-out", tr]
    rep = vf.run_harness("vh-rel", targs, env={"VERIF_SEED": c.seed}, timeout=3000)
    c.add("impl_steps", rep["steps"])
    for s in rep.get("samples", [])[:1]:
        c.sample(s)
    res = _validate(c, "TraceRel_C11C13.cfg", tr, "random off-chain scenarios", ["vh-rel"] + [str(a) for a in targs], n)
    if res.ok:
        def corrupt(lines):
            for i, l in enumerate(lines):
                e = json.loads(l)
                if e.get("ev") == "block" and i > 3:
                    e["same"] = False
                    return lines[:i] + [json.dumps(e)] + lines[i + 1:]
            return None
        _selftest(c, "TraceRel_C11C13.cfg", tr, corrupt, "one block comparison flipped")
    return c.finish(
        rule="behaviours = transitions of the ChainRel state graph (stake / transfer blocks x CheckTx / simulate / ABCI query / RPC "
             "query at every committed height) that end in a block after at least one off-chain request, each executed by two real "
             "nodes in separate processes; plus random scenarios. non-trivial = contains an off-chain request",
        exhaustive=(kept == total))


# ------------------------------------------------------------------------------ C12
def determinism(c):
    thorough = c.tier == "thorough"
    vf.build_harness(["vh-rel"])
    c.assume("determinism is observed by executing identical chain data in fresh processes (map iteration order, goroutine "
             "scheduling and memory layout differ between runs) and, for the wall clock, by executing identical chain data "
             "promptly and after a pause that crosses a jail-period boundary placed at 'now'")
    res = vf.run_tlc(SPEC, "ChainRel", "MCChainRel_repaired.cfg", c.scratch, workers=4, timeout=900)
    c.add_tlc(res, "TLC exhaustive ChainRel (block results are functions of the chain data in the repaired design)")
    n, runs = (12, 8) if thorough else (3, 4)
    tr = os.path.join(c.scratch, "det.ndjson")
    targs = ["determinism", "-n", n, "-runs", runs, "-out", tr]
    rep = vf.run_harness("vh-rel", targs, env={"VERIF_SEED": c.seed}, timeout=3400)
    c.add_replay(rep, "scenarios (reward delegators paid to 12 new accounts, stakes, sends) executed %d times each + wall-clock scenario" % runs)
    c.add("evaluations", rep["steps"])
    res = _validate(c, "TraceRel_C12.cfg", tr, "repeat and delayed runs", ["vh-rel"] + [str(a) for a in targs], n)
    for l in open(tr):
        e = json.loads(l)
        if e.get("kind") == "wall-clock":
            e.pop("script", None)
            c.sample(e)
            if e.get("skipped"):
                raise vf.MachineryError("wall-clock scenario did not run: " + e["skipped"])
    if res.ok:
        def corrupt(lines):
            for i, l in enumerate(lines):
                e = json.loads(l)
                if e.get("ev") == "run":
                    e["same"] = False
                    return lines[:i] + [json.dumps(e)] + lines[i + 1:]
            return None
        _selftest(c, "TraceRel_C12.cfg", tr, corrupt, "one run comparison flipped")
    return c.finish(rule="each scenario is executed R times in fresh processes and compared block by block (codes, data, app hash); "
                         "non-trivial = every scenario pays reward delegators in map order", exhaustive=False)


# ------------------------------------------------------------------------------ C43
def export_import(c):
    thorough = c.tier == "thorough"
    vf.build_harness(["vh-rel"])
    c.assume("the exported application state is fed verbatim to InitChain of a fresh application (same keys, same feature schedule); "
             "compared: balances, supply, nodes, applications, claims, parameters, ACL, DAO owner, upgrade")
    n = 24 if thorough else 8
    tr = os.path.join(c.scratch, "export.ndjson")
    targs = ["export-import", "-n", n, "-out", tr]
    rep = vf.run_harness("vh-rel", targs, env={"VERIF_SEED": c.seed}, timeout=3400)
    c.add_replay(rep, "random chains exported at a late height and re-imported")
    res = _validate(c, "TraceRel_C43.cfg", tr, "export / import", ["vh-rel"] + [str(a) for a in targs], n)
    with open(tr) as f:
        e = json.loads(next(f))
        e["src"] = {"bal": e["src"].get("bal"), "supply": e["src"].get("supply")}
        e["dst"] = {"bal": e["dst"].get("bal"), "supply": e["dst"].get("supply")}
        c.sample(e)
    if res.ok:
        def corrupt(lines):
            for i, l in enumerate(lines):
                e = json.loads(l)
                if e.get("ev") == "export" and e.get("ok"):
                    k = sorted(e["dst"]["bal"])[0]
                    e["dst"]["bal"][k] += 5
                    return lines[:i] + [json.dumps(e)] + lines[i + 1:]
            return None
        _selftest(c, "TraceRel_C43.cfg", tr, corrupt, "one imported balance altered")
    c.cov["distinct_nontrivial"] = rep.get("nontrivial", 0)
    return c.finish(rule="scenarios = {random 10-16 block chains, chains with pending claims of two servicers} x {features that add "
                         "parameters on/off} x {unstaking records at export time yes/no}; the claims section of the exported document is "
                         "compared with the exported state as such; each exported, imported into a fresh process, projections compared by TraceRel with the listed "
                         "known findings excluded by named predicates", exhaustive=False)


NOTE = ("Trusted: TLC, chainsim, the process-per-node comparison glue (codes, data, app hash). Instruction-level data races inside "
        "one ABCI call and a live Tendermint (mempool, p2p) are outside the model.")
TECH = ("two-node TLA+ model (ChainRel.tla) of consensus vs off-chain read/write paths through node-local caches, model-checked by TLC; "
        "its interleavings executed by pairs of real nodes in separate processes; comparison traces validated by TLC (TraceRel.tla)")
PROPERTIES = {
    "C11": {"run": offchain, "level": "model_checking", "engine": "rel", "design_ref": "DESIGN.md section 6 C11", "technique": TECH,
            "engine_path": "spec/rel + harness/cmd/vh-rel + checks/rel.py",
            "text": "Every interleaving of CheckTx / simulate / ABCI query / RPC query with stake and transfer blocks in the bounded "
                    "two-node model is executed by a real node pair; the node that served the requests must produce the same codes, "
                    "data and app hash as the one that did not. Random scenarios add more request and transaction kinds.", "note": NOTE},
    "C13": {"run": offchain, "level": "model_checking", "engine": "rel", "design_ref": "DESIGN.md section 6 C13", "technique": TECH,
            "engine_path": "spec/rel + harness/cmd/vh-rel + checks/rel.py",
            "text": "Same machinery as C11 with the cache paths in focus: the model tracks the keeper LRU next to the store, so TLC "
                    "orders 'off-chain read, later state change, consensus read' in every way; dispatch and historical queries in the "
                    "random scenarios.", "note": NOTE},
    "C12": {"run": determinism, "level": "model_checking", "engine": "rel", "design_ref": "DESIGN.md section 6 C12",
            "engine_path": "spec/rel + harness/cmd/vh-rel + checks/rel.py",
            "technique": "repeat-run and delayed-run comparison of real nodes in fresh processes, comparison traces validated by TLC (TraceRel.tla); design model ChainRel",
            "text": "Identical chain data executed several times in fresh processes (Go map order and scheduling vary) and once with a "
                    "pause that moves the wall clock across a jail-period boundary must give identical codes, data and app hashes.",
            "note": NOTE + " Sampling, not exhaustive: nondeterminism that needs a rare map order may be missed; each scenario pays twelve new delegator accounts to make map-order effects likely."},
    "C43": {"run": export_import, "level": "model_checking", "engine": "rel", "design_ref": "DESIGN.md section 6 C43",
            "engine_path": "spec/rel + harness/cmd/vh-rel + checks/rel.py",
            "technique": "export/import of real application state in separate processes; projections compared by TLC against TraceRel.tla's C43 predicate with named known-finding exclusions",
            "text": "Random chains are exported at a late height and the export is fed to InitChain of a fresh application; the TLA+ "
                    "predicate compares every field the property names and classifies each discrepancy as a listed known finding or a violation. "
                    "Half of the scenarios export while claims of two different servicers are pending; the claims listed in the exported "
                    "document are compared with the exported state even when the import does not complete.",
            "note": NOTE + " The unchanged tree has four listed findings (see known_findings.json); until they are repaired an import only completes for chains without unstaking records and without parameter-adding features."},
}
ENGINE_KIND = "two-node / multi-run relational harness over the real PocketCoreApp with a TLA+ model of cache and store read paths"
