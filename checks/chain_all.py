"""chain engine, WHOLE application: the unified specification spec/chain/PocketChain.tla (ChainAuth + ChainBlock +
ChainNodes + ChainApps + ChainClaims + ChainGov composed in app.go's module order), its design model MCPocketChain
(steps of every module on one chain, replayed on the real PocketCoreApp) and whole-chain traces (long mixed chains and
scripted cross-module scenarios recorded by harness/cmd/vh-chain-all, validated by TracePocketChain with one cfg per
property).

This module registers NO property.  It exports

    whole_chain_part(c, pid)

which the per-module checks call on their vf.Check object: it adds the whole-chain stage for property `pid` (coverage,
violations, known findings) and does not call c.finish.  Stand-alone:  python3 checks/chain_all.py C19 [--tier quick]
[--seed 1]  (prints the verdict lines itself, writes no evidence)."""
import concurrent.futures
import json
import os
import re
import sys

if __name__ == "__main__":
    _root = os.path.dirname(os.path.dirname(os.path.abspath(__file__)))
    sys.path.insert(0, os.path.join(_root, "lib"))
    sys.path.insert(0, _root)
import vf

SPEC = os.path.join(vf.VERIF, "spec", "chain")
BIN = "vh-chain-all"
PROPERTIES = {}     # nothing is registered here (see the module docstring)

INV = {"C14": "C14_OnlyAuthorizedSignersChangeState", "C15": "C15_FeeChargedExactlyOnce", "C16": "C16_AtMostOnce",
       "C17": "C17_SupplyIsSumOfBalances", "C18": "C18_TransfersExact", "C19": "C19_NodePoolExact", "C20": "C20_AppPoolExact",
       "C21": "C21_IndexesAgreeWithRecords", "C22": "C22_UpdatesMatchTopStaked", "C23": "C23_EditStakeRules",
       "C24": "C24_UnstakeOnceWhenDue", "C25": "C25_SlashJailRules", "C26": "C26_RewardsAndFeesSplit", "C28": "C28_AdmissionAndTransfer",
       "C31": "C31_ProofLeafUnpredictable",
       "C32": "C32_ClaimsRewardedOnceWithProof", "C36": "C36_OnlyOwnersChangeParamsOrDaoFunds", "C37": "C37_UpgradesActivateAndAreNeverLost"}
PIDS = sorted(INV)
ALL = "all"      # development gate: every tag of every property (and "MODEL") is judged; cfg TracePocketChain_all.cfg

NODE_POOL, APP_POOL = "staked_tokens_pool", "application_staked_tokens_pool"
NODE_IDX = {"ixStaked", "ixChain", "ixUnstaking"}

# owner of the outcome of each transaction of the design model's menu (prefix of its name)
MENU_OWNER = [("send-bad-signature", {"C14"}), ("send-to-fee", {"C18", "C15"}), ("send", {"C18"}), ("node-edit", {"C23"}),
              ("node-unstake", {"C24"}), ("node-unjail", {"C25"}), ("node-stake", {"C19", "C21"}), ("app-stake-new", {"C28"}),
              ("app-transfer", {"C28"}), ("app-edit", {"C23"}), ("app-unstake", {"C24"}), ("claim", {"C32"}), ("proof", {"C32"}),
              ("param", {"C36"}), ("dao", {"C36"}), ("upgrade", {"C37", "C36"})]


def _keys(m):
    """the entries of a map-valued field that differ: the harness describes them as field[key]: spec=.. real=.."""
    return set(re.findall(r"\[([^\]]+)\]: spec=", m.get("what", "")))


def _pools(m):
    """which pool balances differ between specification and real state in a `bal` mismatch"""
    ks = _keys(m)
    return {p for p in (NODE_POOL, APP_POOL) if p in ks} if ks else {NODE_POOL, APP_POOL}


# the property whose statement reads a parameter (PocketChain.ParamUsers): a module that does not see a governance
# change of that parameter contradicts that property
CFG_USERS = {"MaxValidators": "C22", "StakeMinimum": "C25", "SessionBlockFrequency": "C24", "MaxJailedBlocks": "C24",
             "MaxApplications": "C28", "AppStakeMin": "C28", "MaxChains": "C28", "BaseRelaysPerPOKT": "C28",
             "ClaimExpiration": "C32", "ClaimSubmissionWindow": "C32", "SessionNodeCount": "C32", "MinimumNumberOfProofs": "C32",
             "ReplayAttackBurnMultiplier": "C25"}


def _cfg_tags(m):
    tags = {"C36"}
    if m.get("variant", "").startswith("cfg.fee"):
        tags.add("C15")
    for k in _keys(m):
        if k in CFG_USERS:
            tags.add(CFG_USERS[k])
    return tags


def tags_of_mismatch(m):
    """Properties whose footprint contains a spec/impl divergence found by replay-all (same attribution as
    TracePocketChain: by the diverging field, and by the owner of the delivered transaction)."""
    op, field = m.get("op", ""), m.get("variant", "")
    tags = set()
    if field in NODE_IDX:
        tags.add("C21")
    if field == "supply":
        tags.add("C17")
    if field == "bal":
        pools = _pools(m)
        if NODE_POOL in pools:
            tags.add("C19")
        if APP_POOL in pools:
            tags.add("C20")
    if field in ("acl", "daoOwner", "params"):
        tags.add("C36")
    if field.startswith("cfg."):
        tags |= _cfg_tags(m)
    if field in ("upg", "featMem", "probe", "active"):
        tags.add("C37")
    if field == "claims":
        tags.add("C32")
    if field == "appIx":
        tags.add("C28")
    if op == "BeginBlock":
        if field == "bal" and not tags:
            tags.add("C26")      # distribution of the collected fees
        if field in ("val", "signing", "missed", "ixWaiting", "supply"):
            tags.add("C25")
        if field in ("tmSet", "prevPower", "prevTotal"):
            tags.add("C22")
    elif op.startswith("DeliverTx:"):
        name = op.split(":", 1)[1]
        for prefix, owners in MENU_OWNER:
            if name.startswith(prefix):
                tags |= owners
                break
        if field == "bal" and "fee_collector" in _keys(m):
            tags.add("C15")
        if field == "bal" and name.startswith("proof"):
            tags.add("C26")      # who received how much of the relay reward
    elif op == "EndBlock":
        if field in ("updates", "tmSet", "prevPower", "prevTotal"):
            tags.add("C22")
        if field in ("val", "ixWaiting", "bal", "supply", "app", "appUnst"):
            tags.add("C24")
        if field in ("signing", "missed"):
            tags.add("C25")
    return tags


def _known_file(c):
    """every OPEN finding of every property is excluded by name inside the specification (so that a listed
    finding of another property cannot crowd out this property's tags)"""
    kf = os.path.join(c.scratch, "known-all.json")
    allk = json.load(open(os.path.join(vf.VERIF, "known_findings.json")))["findings"]
    with open(kf, "w") as f:
        json.dump([k["id"] for k in allk if k.get("status", "open") == "open"], f)
    return kf, {k["id"]: k for k in allk if k.get("status", "open") == "open"}


def _design_and_replay(c, pid, init, cfg, what, simulate=None):
    res = vf.run_tlc(SPEC, "MCPocketChain", cfg, c.scratch, workers=8, env={"INIT_FILE": init}, timeout=3000,
                     simulate=simulate, seed=c.seed if simulate else None, tag="MCPocketChain-" + what.replace(" ", "_"))
    if not res.ok and res.generated == 0 and res.violated and res.violated.endswith("_Design"):
        # the INITIAL state of the design model is the projection of the real chain after its warm-up
        # (transactions, fee distribution, session end): a property predicate false there is false on real-code state
        if pid == ALL or res.violated.startswith(pid + "_") or res.violated == "All_Design":
            c.violation("%s: the projection of the real warmed-up chain (design model's initial state) violates %s" % (pid, res.violated),
                        {"kind": "init-state", "harness_cmd": [BIN, "init-state"], "violated": res.violated, "final_state": res.final_state})
        else:
            c.note("whole-chain design model not run: the real start state violates %s (another property's predicate)" % res.violated)
        return
    if not res.ok:
        raise vf.MachineryError("whole-chain design model %s violates %s (a design counterexample is not a verdict; it must be "
                                "confirmed by replay on the real code)" % (cfg, res.violated))
    c.add_tlc(res, "TLC whole-chain design model, " + what)
    beh = os.path.join(c.scratch, "all-beh.txt")
    if vf.extract_behaviours(res.stdout_path, beh) == 0:
        raise vf.MachineryError("no behaviours emitted by " + cfg)
    os.remove(res.stdout_path)
    rep = vf.run_harness_sharded(BIN, ["replay-all", "-in", beh], 8, env={"VERIF_SEED": c.seed}, timeout=3000)
    os.remove(beh)
    if rep.get("behaviours", 0) == 0:
        raise vf.MachineryError("dead replay: no behaviour of %s was replayed" % cfg)
    c.add_replay(rep, "whole-chain %s: behaviours replayed block by block on PocketCoreApp (unified projection compared after "
                      "BeginBlock / DeliverTx / EndBlock)" % what)
    oc = c.cov.setdefault("whole_chain_replay_outcomes", {})
    for k, v in rep.get("op_counts", {}).items():
        oc[k] = oc.get(k, 0) + v
    mine, abandoned = [], 0
    for m in rep.get("mismatches", []):
        if pid == ALL or pid in tags_of_mismatch(m):
            mine.append(m)
        else:
            abandoned += 1
    c.cov["whole_chain_abandoned"] = c.cov.get("whole_chain_abandoned", 0) + abandoned
    vf.replay_mismatch_violations(c, dict(rep, mismatches=mine), pid + " whole-chain replay " + what, [BIN, "replay-all", "-in", "{in}"])


def _corruptor(pid):
    """Binding self-test: alter one logged value inside this property's footprint."""
    if pid == ALL:
        pid = "C17"

    def corrupt(lines):
        state, first_h = {}, 0
        for i, l in enumerate(lines):
            e = json.loads(l)
            st = e.get("st", {})
            prev = dict(state)
            if e.get("ev") == "reset":
                state = {}
                first_h = e.get("h", 0)
            state.update(st)
            if i < 8:
                continue
            ev, tx, ok = e.get("ev"), e.get("tx", {}), e.get("res", {}).get("code") == 0
            hit = False
            if pid == "C14" and ev == "DeliverTx" and e["res"].get("codespace") == "sdk" and e["res"].get("code") == 4:
                st["supply"] = state["supply"] + 1                     # an unauthenticated transaction that changed something
                hit = True
            elif pid == "C15" and ev == "DeliverTx" and ok and "bal" in st:
                st["bal"]["fee_collector"] += 1
                st["supply"] = state["supply"] + 1
                hit = True
            elif pid == "C16" and ev == "DeliverTx" and tx.get("dup") in ("indexed", "inblock") and e["res"].get("code") == 6 \
                    and tx.get("basicOK") and tx.get("feeValid") and tx.get("hasSig") and tx.get("memoLen", 0) < 70:
                st["supply"] = state["supply"] + 1                     # the second delivery of the same bytes changed something
                hit = True
            elif pid == "C17" and ev == "DeliverTx" and ok:
                st["supply"] = state["supply"] + 1
                hit = True
            elif pid == "C18" and ev == "DeliverTx" and ok and tx.get("kind") == "send" and "bal" in st and tx.get("to") in st["bal"]:
                st["bal"][tx["to"]] += 1
                st["supply"] = state["supply"] + 1
                hit = True
            elif pid in ("C19", "C20") and ev == "EndBlock":
                pool = NODE_POOL if pid == "C19" else APP_POOL
                bal = dict(state["bal"])
                bal[pool] += 1
                st["bal"] = bal
                st["supply"] = state["supply"] + 1
                hit = True
            elif pid == "C21" and ev == "EndBlock" and state.get("ixStaked"):
                ix = json.loads(json.dumps(state["ixStaked"]))
                ix[0][1] += 1                                           # an index entry under a power the node does not have
                st["ixStaked"] = ix
                hit = True
            elif pid == "C22" and ev == "EndBlock" and e.get("updates"):
                e["updates"] = e["updates"][:-1]                       # one reported update lost
                hit = True
            elif pid == "C23" and ev == "DeliverTx" and ok and tx.get("kind") == "node_stake" and "val" in st \
                    and prev.get("val", {}).get(tx["node"], {}).get("status") == 2:
                st["val"][tx["node"]]["tokens"] = prev["val"][tx["node"]]["tokens"] - 1     # an edit that lowered the stake
                hit = True
            elif pid == "C24" and ev == "EndBlock" and "val" in st and len(st["val"]) < len(prev.get("val", {})):
                gone = [n for n in prev["val"] if n not in st["val"]][0]
                st["val"][gone] = prev["val"][gone]                    # paid but the record is still there
                hit = True
            elif pid == "C25" and ev == "BeginBlock" and "val" in st and any(
                    v.get("jailed") and not prev.get("val", {}).get(n, {}).get("jailed", True) for n, v in st["val"].items()):
                n = [n for n, v in st["val"].items() if v.get("jailed") and not prev["val"].get(n, {}).get("jailed", True)][0]
                st["val"][n]["jailed"] = False                         # slashed for downtime but not jailed
                hit = True
            elif pid == "C26" and ev == "DeliverTx" and ok and tx.get("kind") == "proof" and "bal" in st and "supply" in st:
                a, b = sorted(k for k in st["bal"] if k.startswith("a"))[:2]
                st["bal"][a] += 1                                      # one uPOKT of the reward went to somebody else
                st["bal"][b] -= 1
                hit = True
            elif pid == "C28" and ev == "DeliverTx" and ok and tx.get("kind") == "app_stake" and "app" in st and tx.get("app") in st["app"]:
                st["app"][tx["app"]]["maxRelays"] += 1                 # allowance not derived from the stake
                hit = True
            elif pid == "C31" and ev == "DeliverTx" and ok and tx.get("kind") == "claim" and tx.get("sessionH", 0) - 8 >= first_h:
                tx["sessionH"] -= 8                                    # accepted long after its selecting block existed
                hit = True
            elif pid == "C32" and ev == "DeliverTx" and ok and tx.get("kind") == "proof" and "claims" in st:
                st["claims"] = prev["claims"]                          # paid but the claim is still there
                hit = True
            elif pid == "C36" and ev == "DeliverTx" and tx.get("kind") == "change_param" and not ok and "bal" in st:
                params = dict(state["params"])
                params[tx["key"]] = tx["val"]                          # a refused parameter change that took effect
                st["params"] = params
                hit = True
            elif pid == "C37" and ev == "DeliverTx" and ok and tx.get("kind") == "upgrade" and "featMem" in st:
                k = tx["upFeatures"][0][0]
                st["featMem"][k] += 1                                  # activated one block late
                hit = True
            if hit:
                return lines[:i] + [json.dumps(e)] + lines[i + 1:]
        return None
    return corrupt


def _validate_files(c, pid, files, kf, what, harness_cmd):
    """TLC validates every trace file with this property's cfg, in parallel (one worker each)."""
    cfg = "TracePocketChain_%s.cfg" % pid

    def one(i):
        return vf.run_tlc(SPEC, "TracePocketChain", cfg, c.scratch, workers=1, env={"TRACE_FILE": files[i], "KNOWN_FILE": kf},
                          timeout=3000, tag="TracePocketChain-%s-%d" % (pid, i))
    with concurrent.futures.ThreadPoolExecutor(max_workers=min(8, len(files))) as ex:
        results = list(ex.map(one, range(len(files))))
    seen = {}
    accepted = 0
    for path, res in zip(files, results):
        c.add("trace_events_validated", max(res.distinct - 1, 0))
        with open(res.stdout_path, errors="replace") as f:
            for line in f:
                m = re.search(r'"KNOWN-FINDING-SEEN", "([^"]+)", (\d+)', line)
                if m:
                    seen.setdefault(m.group(1), (os.path.basename(path), int(m.group(2))))
        if res.ok:
            accepted += 1
        else:
            vf.trace_violation_from_tlc(c, res, path, "%s (%s)" % (what, os.path.basename(path)), harness_cmd)
    c.parts.append("%s: %d/%d trace files (%d events) accepted by TracePocketChain with %s" % (
        what, accepted, len(files), sum(max(r.distinct - 1, 0) for r in results), INV.get(pid, "NoErrs")))
    return results, seen


def whole_chain_part(c, pid, selftest=True):
    """The whole-chain stage of property `pid` on the vf.Check object c (no c.finish)."""
    if pid not in INV and pid != ALL:
        return
    thorough = c.tier == "thorough"
    vf.build_harness([BIN])
    c.assume("whole-chain stage: the unified specification PocketChain.tla composes the module fragments in app.go's BeginBlock / "
             "EndBlock order; governance parameter values reach the typed configuration through the `typed` field of the change_param "
             "record, decoded by the harness from the bytes it sends; main-net stake-weight bins (15e9) are represented by 2e9 in the typed "
             "configuration (every stake is far below both); DAO / proposer allocations stay in {10,20} / {1,5}, where the 18-decimal "
             "quotient of the code and the specification's integer floor agree")

    # ---- (a) unified design model from the projection of a real chain; every transition replayed
    init = os.path.join(c.scratch, "all-init.json")
    vf.run_harness(BIN, ["init-state", "-out", init], env={"VERIF_SEED": c.seed})
    _design_and_replay(c, pid, init, "MCPocketChain_cover_q.cfg", "transition cover (2 blocks)")
    if thorough and not c.violations:
        # 48 random walks of 8 blocks; every successor of the last step is emitted (36 behaviours per walk)
        _design_and_replay(c, pid, init, "MCPocketChain_sim_t.cfg", "simulation (8 blocks deep)", simulate=dict(num=6, depth=10))
    if c.violations:
        return

    # ---- (b) mixed chains + scripted cross-module scenarios, validated with this property's invariant only
    nrand, blocks, split = (12, 250, 8) if thorough else (2, 100, 4)
    tr = os.path.join(c.scratch, "trace-all.ndjson")
    targs = ["trace-all", "-out", tr, "-n", nrand, "-blocks", blocks, "-scenarios", "all", "-split", split]
    rep = vf.run_harness(BIN, targs, env={"VERIF_SEED": c.seed}, timeout=3000)
    c.add("impl_steps", rep["steps"])
    oc = rep.get("op_counts", {})
    c.cov["whole_chain_trace_outcomes"] = {k: v for k, v in oc.items() if not k.startswith("path:")}
    c.cov["whole_chain_scenario_paths"] = {k[5:]: v for k, v in oc.items() if k.startswith("path:")}
    files = ["%s.%d" % (tr, i) for i in range(split)]
    kf, open_known = _known_file(c)
    cmd = [BIN] + [str(a) for a in targs]
    results, seen = _validate_files(c, pid, files, kf, "whole-chain traces (%d mixed chains of %d blocks + 13 cross-module scenarios)" % (nrand, blocks), cmd)
    if all(r.ok for r in results):
        c.add("traces_validated_against_impl", rep.get("behaviours", 0))
    for kid, (fn, line) in sorted(seen.items()):
        k = open_known.get(kid)
        if k and k.get("property") == pid:
            c.known_finding("%s %s (whole-chain trace %s line %d)" % (kid, k.get("what", ""), fn, line))

    # ---- (c) binding demonstration on one accepted file
    if selftest and all(r.ok for r in results):
        done = False
        for path in files:
            lines = open(path).read().splitlines()
            bad = _corruptor(pid)(lines)
            if bad is None:
                continue
            p = os.path.join(c.scratch, "corrupt-" + os.path.basename(path))
            with open(p, "w") as f:
                f.write("\n".join(bad) + "\n")
            res = vf.run_tlc(SPEC, "TracePocketChain", "TracePocketChain_%s.cfg" % pid, c.scratch, workers=1,
                             env={"TRACE_FILE": p, "KNOWN_FILE": kf}, timeout=3000, tag="TracePocketChain-selftest")
            if res.ok:
                raise vf.MachineryError("whole-chain binding self-test failed: corrupted trace accepted by TracePocketChain (%s)" % pid)
            c.parts.append("whole-chain binding self-test: one logged value inside the footprint of %s altered -> rejected (%s)" % (pid, res.violated))
            done = True
            break
        if not done:
            raise vf.MachineryError("whole-chain binding self-test: nothing to corrupt for " + pid)


def replay(c, path):
    """Re-execute a whole-chain TRACE replay file (written by the whole-chain stage of any application-level
    property) against the current tree: record the same chains again and validate them with the property's cfg."""
    r = json.load(open(path))
    cmd = r.get("harness_cmd") or []
    if isinstance(cmd, str):
        import ast
        cmd = ast.literal_eval(cmd)
    if r.get("kind") != "trace" or not cmd or cmd[0] != BIN:
        raise vf.MachineryError("not a whole-chain trace replay file")
    pid = c.pid
    vf.build_harness([BIN])
    args = [str(a) for a in cmd[1:]]
    tr = os.path.join(c.scratch, "trace-all.ndjson")
    split = 1
    for i, a in enumerate(args):
        if a == "-out":
            args[i + 1] = tr
        if a == "-split":
            split = int(args[i + 1])
    vf.run_harness(BIN, args, env={"VERIF_SEED": int(r.get("seed", c.seed))}, timeout=3000)
    files = ["%s.%d" % (tr, i) for i in range(split)] if split > 1 else [tr]
    kf, _ = _known_file(c)
    results, _ = _validate_files(c, pid, files, kf, "whole-chain traces (replay)", [BIN] + args)
    if c.violations:
        print("VIOLATION property=%s replay=%s" % (pid, path))
        print("  reproduced: " + c.violations[0][0][:500])
        c.cleanup()
        return 1
    print("NOT-REPRODUCED property=%s replay=%s" % (pid, path))
    c.cleanup()
    return 0


def main(argv):
    import argparse
    ap = argparse.ArgumentParser(description="run the whole-chain stage stand-alone for one property id")
    ap.add_argument("pid", choices=PIDS + [ALL])
    ap.add_argument("--tier", default=os.environ.get("VERIF_TIER", "quick"))
    ap.add_argument("--seed", type=int, default=int(os.environ.get("VERIF_SEED", "1") or 1))
    a = ap.parse_args(argv)
    c = vf.Check(a.pid, "model_checking", a.tier, a.seed)
    rc = 0
    try:
        whole_chain_part(c, a.pid)
        for p in c.parts:
            print("  " + p)
        for k in c.known_hits:
            print("KNOWN-FINDING: property=%s %s" % (a.pid, k))
        for summary, path in c.violations:
            print("VIOLATION property=%s replay=%s" % (a.pid, path))
            print("  " + summary)
            rc = 1
        if rc == 0:
            import time
            print("OK whole-chain stage property=%s tier=%s seed=%d wall=%.1fs" % (a.pid, a.tier, a.seed, time.time() - c.t0))
    except vf.MachineryError as e:
        print("MACHINERY-ERROR property=%s: %s" % (a.pid, e), file=sys.stderr)
        rc = 2
    finally:
        c.cleanup()
    return rc


if __name__ == "__main__":
    sys.exit(main(sys.argv[1:]))
