"""chain module `gov` (x/gov): C36 (only the designated owner can change parameters or move DAO funds) and C37 (feature
upgrades activate at their heights and are never lost).

Spec: spec/chain/ChainGov.tla (ACL-guarded parameter changes, DAO transfer / burn, upgrade messages = stored upgrade +
the process's activation map, governance BeginBlock, process restart), MCChainGov.tla (design model started from
projections of two real chains: stored upgrade height 2 / height 0), TraceChainGov.tla.  Harness: harness/cmd/vh-chain-gov."""
import json
import os

import vf

SPEC = os.path.join(vf.VERIF, "spec", "chain")
BIN = "vh-chain-gov"
REPLAY_CMD = [BIN, "replay-gov", "-in", "{in}"]
KNOWN_C37 = "F-C37-height-zero"
KNOWN_C37_SIM = "F-C37-simulate-sets-schedule"

C37_FIELDS = ("upg", "featMem", "probe")


def tags_of(op, stage, kind, fields):
    """Properties in whose footprint a replay divergence lies (op = tx / restart, stage = BeginBlock / result /
    DeliverTx / Restart, kind = message kind, fields = differing field paths)."""
    tags = set()
    if op == "restart" or stage == "Restart":
        return {"C37"}
    if stage == "BeginBlock":
        if "acl" in fields or "params" in fields or "daoOwner" in fields:
            tags.add("C36")
        if any(f in fields for f in C37_FIELDS):
            tags.add("C37")
        return tags
    if kind == "upgrade":
        tags.add("C37")
        if stage == "result" or not all(any(f.startswith(x) for x in C37_FIELDS) for f in fields.split(",") if f):
            tags.add("C36")       # authorization of the message / anything outside the upgrade fields
    elif kind in ("change_param", "dao_transfer", "dao_burn"):
        tags.add("C36")
        if any(f in fields for f in C37_FIELDS):
            tags.add("C37")
    return tags


def _prepare(c):
    vf.build_harness([BIN])
    c.assume("the harness plays Tendermint deterministically; transactions of this module are never resubmitted (the tx indexer is not fed)")
    c.assume("off-chain noise (CheckTx and the app/simulate query of forged transactions: rightful owner's address and public key, junk "
             "signature, control handed to an intruder; and of correctly signed ones) is interleaved with the recorded steps and is NOT an "
             "event: the next recorded step is judged from the last recorded post-state, so any persistent or in-memory effect is a rejected step")
    c.assume("parameter values are compared as raw stored bytes (values longer than 40 bytes by digest); a 'valid' value is the "
             "codec's own encoding of a well-typed value for that key, an 'invalid' one is not JSON")
    c.assume("a process restart is emulated in-process: the codec's global upgrade schedule is reset to its initial values and the "
             "application object re-created on the same databases; on the chain whose stored upgrade height is 0 chainsim's codec "
             "heights (2/1) stand for 'past the hard-coded codec upgrade height' and are re-installed after a restart (never the feature map)")
    c.assume("upgrade versions are kept <= the application version and well-formed (the gov BeginBlocker exits the process otherwise); "
             "version upgrades name a past height (2 or 3) so that the stored old-upgrade height never exceeds the current height "
             "(small-number stand-in for heights beyond the hard-coded codec upgrade height)")
    init = os.path.join(c.scratch, "gov-init.json")
    if not os.path.exists(init):
        vf.run_harness(BIN, ["init-state", "-out", init], env={"VERIF_SEED": c.seed})
    return init


def _model_stage(c, pid, init, cfg, what, workers=4):
    res = vf.run_tlc(SPEC, "MCChainGov", cfg, c.scratch, workers=workers, env={"INIT_FILE": init}, timeout=3000,
                     tag="MCChainGov-%s-%s" % (pid, os.path.splitext(cfg)[0]))
    if not res.ok:
        raise vf.MachineryError("design model %s violates %s (a design counterexample is not a verdict)" % (cfg, res.violated))
    c.add_tlc(res, "TLC exhaustive " + cfg)
    beh = os.path.join(c.scratch, "gov-beh-%s.txt" % os.path.splitext(cfg)[0])
    if vf.extract_behaviours(res.stdout_path, beh) == 0:
        raise vf.MachineryError("no behaviours emitted by " + cfg)
    os.remove(res.stdout_path)
    rep = vf.run_harness_sharded(BIN, ["replay-gov", "-in", beh], 8, env={"VERIF_SEED": c.seed}, timeout=3000)
    if rep.get("behaviours", 0) == 0:
        raise vf.MachineryError("no behaviour was replayed for " + cfg)
    c.add_replay(rep, "%s (%s) replayed on PocketCoreApp" % (what, cfg))
    oc = c.cov.setdefault("replay_classes", {})
    mine_n = other_n = known_n = 0
    for k, v in rep.get("op_counts", {}).items():
        if k.startswith("!"):
            op, stage, kind, fields = (k[1:].split("|", 3) + ["", "", ""])[:4]
            if pid in tags_of(op, stage, kind, fields):
                mine_n += v
            else:
                other_n += v
        else:
            oc[k] = oc.get(k, 0) + v
            if k == "known:" + KNOWN_C37:
                known_n += v
    mine = [m for m in rep.get("mismatches", []) if pid in tags_of(
        "restart" if m.get("variant") == "Restart" else "tx", m.get("variant") or "", m.get("op") or "",
        ",".join(p.split(": spec=")[0] for p in m.get("what", "").split("; ")))]
    if mine_n and not mine:
        mine = rep.get("mismatches", [])[:1]
    c.cov["abandoned"] = c.cov.get("abandoned", 0) + other_n
    if other_n:
        c.note("%d divergences outside %s's footprint (first: %s)" % (other_n, pid, rep["mismatches"][0].get("what", "")[:200]))
    if mine_n:
        vf.replay_mismatch_violations(c, dict(rep, mismatches=mine[:3]), "%s replay %s (%d divergences in footprint)" % (pid, cfg, mine_n), REPLAY_CMD)
    os.remove(beh)
    return known_n, rep


def _record(c, name, mode, n=0, blocks=0):
    tr = os.path.join(c.scratch, "gov-%s.ndjson" % name)
    args = ["trace-gov", "-mode", mode, "-out", tr, "-n", n, "-blocks", blocks]
    rep = vf.run_harness(BIN, args, env={"VERIF_SEED": c.seed}, timeout=3000)
    if rep.get("steps", 0) == 0:
        raise vf.MachineryError("trace driver recorded nothing (%s)" % mode)
    c.add("impl_steps", rep["steps"])
    oc = c.cov.setdefault("trace_result_classes", {})
    for k, v in rep.get("op_counts", {}).items():
        oc[k] = oc.get(k, 0) + v
    return tr, rep.get("behaviours", 0), [BIN] + [str(a) for a in args]


def _concat(c, name, paths):
    out = os.path.join(c.scratch, "gov-%s.ndjson" % name)
    with open(out, "w") as o:
        for p in paths:
            o.write(open(p).read())
    return out


def _corruptor(pid):
    def corrupt(lines):
        for i, l in enumerate(lines):
            e = json.loads(l)
            if e.get("ev") != "DeliverTx" or i < 6:
                continue
            tx = e["tx"]
            hit = False
            if pid == "C36" and tx["kind"] == "change_param" and e["res"]["code"] != 0 and "gp" not in e:
                # an unauthorized request that nevertheless changed the parameter
                prev = None
                for j in range(i, -1, -1):
                    pj = json.loads(lines[j])
                    if "gp" in pj:
                        prev = pj["gp"]
                        break
                if prev and tx["key"] in prev["params"]:
                    gp = json.loads(json.dumps(prev))
                    gp["params"][tx["key"]] = tx["val"] + "x"
                    e["gp"] = gp
                    hit = True
            elif pid == "C37" and tx["kind"] == "upgrade" and e["res"]["code"] == 0 and e["st"]["upg"]["features"]:
                e["st"]["upg"]["features"] = e["st"]["upg"]["features"][1:]      # a previously scheduled feature dropped
                hit = True
            if hit:
                return lines[:i] + [json.dumps(e)] + lines[i + 1:i + 4]
        return None
    return corrupt


def _trace_stage(c, pid, tr, what, cmd, n):
    res = vf.validate_trace(c, SPEC, "TraceChainGov", "TraceChainGov_%s.cfg" % pid, tr, what, cmd, n, timeout=3000)
    if res.ok:
        vf.binding_selftest(c, SPEC, "TraceChainGov", "TraceChainGov_%s.cfg" % pid, tr, _corruptor(pid),
                            "one logged field altered on an event in %s's footprint" % pid)
    with open(tr) as f:
        evs = []
        for line in f:
            e = json.loads(line)
            if e.get("ev") == "DeliverTx":
                e.pop("cfg", None)
                e.pop("gp", None)
                evs.append(e)
            if len(evs) >= 3:
                break
        c.sample(evs)
    return res


def c36(c):
    thorough = c.tier == "thorough"
    init = _prepare(c)
    for cfg, what in [("MCChainGov_params.cfg", "every ACL key x sender x value validity, both chains"),
                      ("MCChainGov_dao_t.cfg" if thorough else "MCChainGov_dao_q.cfg",
                       "DAO transfer / burn x sender x amount, owner and ACL changes followed by requests under the new owners"),
                      ("MCChainGov_upgrade_q.cfg", "upgrade messages x sender")]:
        _model_stage(c, "C36", init, cfg, what)
        if c.violations:
            return c.finish(rule="stopped after the first failing stage")
    paths, n = [], 0
    for mode in ("params", "dao", "upgrade", "intruder"):
        tr, k, cmd = _record(c, mode, mode)
        paths.append(tr)
        n += k
    tr, k, cmd = _record(c, "random", "random", 24 if thorough else 6, 40 if thorough else 25)
    paths.append(tr)
    _trace_stage(c, "C36", _concat(c, "all", paths), "scripted (every key x sender x validity; DAO; upgrades; intruder after off-chain forgeries) "
                 "+ random governance scenarios with off-chain noise", cmd, n + k)
    return c.finish(
        rule="behaviours = every transition of MCChainGov (params: every ACL key x {owner, owner of another key, unrelated} x {well-typed, "
             "unparsable}; dao: transfer/burn x sender x amount {0,1,balance,balance+1} x recipient, DAO-owner / ACL changes and requests "
             "under the new owners; upgrade x sender) from projections of two real chains, each replayed on a fresh PocketCoreApp with "
             "the whole projected state (all raw parameter values, ACL, balances, supply) compared after BeginBlock and DeliverTx; plus "
             "recorded scenarios validated by TLC. non-trivial = contains an authenticated governance transaction",
        exhaustive=True)


def c37(c):
    thorough = c.tier == "thorough"
    init = _prepare(c)
    known_n, rep = _model_stage(c, "C37", init, "MCChainGov_upgrade_t.cfg" if thorough else "MCChainGov_upgrade_q.cfg",
                                "sequences of upgrade messages with a restart possible at every point, both chains", workers=8 if thorough else 4)
    if c.violations:
        return c.finish(rule="stopped after the first failing stage")
    c.cov["known_pattern_reproductions_in_replay"] = known_n
    # The design model admits, on the known pattern only (stored height 0 with stored features), both the coded and the
    # conforming restart outcome.  Each replayed restart whose REAL outcome is the coded, feature-losing one is a
    # reproduction of the finding on the real code.
    entry = [k for k in c.known if k.get("id") == KNOWN_C37]
    if known_n:
        if entry:
            c.known_finding("%s: %s (%d replayed behaviours)" % (KNOWN_C37, entry[0]["what"], known_n))
        else:
            conf = (rep.get("extra") or {}).get("confirmed") or [{}]
            c.violation("C37 restart loses the activation map: after the restart the stored feature list still schedules the features but the "
                        "process's map is empty (real outcome = the coded branch of the specification's restart)",
                        {"kind": "behaviour", "harness_cmd": REPLAY_CMD, "behaviour": conf[0].get("behaviour"), "mismatch": conf[0]})
            return c.finish(rule="stopped after the first failing stage")
    paths, n = [], 0
    for mode in ("upgrade", "intruder"):
        tr, k, cmd = _record(c, mode, mode)
        paths.append(tr)
        n += k
    tr, k, cmd = _record(c, "random", "random", 24 if thorough else 6, 40 if thorough else 25)
    paths.append(tr)
    n += k
    tr = _concat(c, "all", paths)
    res = _trace_stage(c, "C37", tr, "scripted upgrade / restart / intruder + random governance scenarios with off-chain noise", cmd, n)
    if res.ok:
        # the two named deviations are excluded from the main invariant by their tags; the strict forms show them
        for cfg, kid, what in (("TraceChainGov_C37strict.cfg", KNOWN_C37, "recorded restart"),
                               ("TraceChainGov_C37sim.cfg", KNOWN_C37_SIM, "recorded app/simulate of a forged upgrade")):
            strict = vf.run_tlc(SPEC, "TraceChainGov", cfg, c.scratch, workers=1, env={"TRACE_FILE": tr},
                                tag="TraceChainGov-" + os.path.splitext(cfg)[0], timeout=3000)
            if strict.ok:
                continue
            ent = [k_ for k_ in c.known if k_.get("id") == kid]
            if ent:
                c.known_finding("%s: %s (%s)" % (kid, ent[0]["what"], what))
            else:
                vf.trace_violation_from_tlc(c, strict, tr, "C37 strict (%s)" % what, cmd)
    return c.finish(
        rule="behaviours = every transition of MCChainGov/upgrade: sequences of up to %d upgrade messages (new version, feature-only, "
             "duplicate inside a message, re-schedule, unsorted pair, height-1 message, foreign sender) with a process restart possible "
             "at every point, from a chain whose stored upgrade height is 2 and from one where it is 0; each replayed on a fresh "
             "PocketCoreApp comparing stored upgrade, process activation map and the real activation predicate on a height grid; plus "
             "recorded scripted / random scenarios validated by TLC. non-trivial = contains an authenticated upgrade or a restart" % (4 if thorough else 3),
        exhaustive=True)


def replay_c37(c, path):
    """Re-execute a replay file.  A behaviour that takes the feature-losing restart branch is reproduced when the real
    restart outcome equals that branch (counted by the harness), not only when spec and code diverge."""
    r = json.load(open(path))
    vf.build_harness([BIN])
    bf = os.path.join(c.scratch, "beh.ndjson")
    with open(bf, "w") as f:
        f.write(json.dumps(r["behaviour"]) + "\n")
    rep = vf.run_harness(BIN, ["replay-gov", "-in", bf])
    lost = sum(v for k, v in (rep.get("op_counts") or {}).items() if k.startswith("known:"))
    c.cleanup()
    if rep.get("n_mismatches", 0) > 0 or lost > 0:
        print("VIOLATION property=%s replay=%s" % (c.pid, path))
        print("  reproduced: " + (json.dumps(rep["mismatches"][0])[:400] if rep.get("mismatches") else
                                  "restart lost the activation map (%d restart steps took the coded branch)" % lost))
        return 1
    print("NOT-REPRODUCED property=%s replay=%s" % (c.pid, path))
    return 0


def _mk(run, pid, text):
    return {"run": run, "level": "model_checking", "engine": "chain", "design_ref": "DESIGN.md section 6 " + pid,
            "engine_path": "spec/chain + harness/chainsim + harness/cmd/vh-chain-gov + checks/chain_gov.py",
            "technique": "TLA+ model of the governance handlers, BeginBlock ACL extension, upgrade merge and process restart (ChainGov.tla) "
                         "with property-level step / state predicates, model-checked by TLC from projections of real chains (MCChainGov.tla); "
                         "every transition replayed through ABCI on the real PocketCoreApp; recorded traces validated by TLC (TraceChainGov.tla)",
            "text": text,
            "note": "Trusted: TLC, chainsim, the projection (raw param-store read via GetAllParamNameValue, ACL / DAO owner / stored upgrade via "
                    "keeper getters, codec.UpgradeFeatureMap and the real activation predicate), Go signing glue. Restart is emulated in-process "
                    "(codec globals reset, application re-created on the same DB). Not generated: malformed feature strings, version strings that "
                    "make the gov BeginBlocker exit the process, ACL keys of unknown subspaces (os.Exit in ModifyParam)."}


PROPERTIES = {
    "C36": _mk(c36, "C36", "every parameter key x sender (owner, owner of another key, unrelated) x value (well-typed, unparsable): the raw "
                            "parameter store changes exactly on that key iff the sender is the key's ACL owner and the value parses, otherwise "
                            "nothing but the fee; DAO transfer / burn iff sent by the DAO owner and amount <= DAO balance, moving / burning "
                            "exactly the amount (supply decreases on burn); upgrade only by the owner of gov/upgrade."),
    "C37": _mk(c37, "C37", "stored upgrade (height, version, old height, feature list) and the process's activation map modelled separately; "
                            "after every upgrade message the named features are scheduled at their heights, scheduled ones remain, the list is "
                            "sorted and duplicate-free, the real activation predicate agrees with the stored heights; a restart must reproduce "
                            "the map from state (known finding: lost when the stored upgrade height is 0)."),
}
PROPERTIES["C37"]["replay"] = replay_c37
ENGINE_KIND = "TLA+ application-level specification (ChainBase/ChainAuth/ChainBlock/ChainGov...) + ABCI replay and trace validation on the real PocketCoreApp"
