"""crypto engine: C39 (signatures), C40 (keybase / armor), C38 (codec round trips).  Spec: spec/crypto."""
import json
import os

import vf

SPEC = os.path.join(vf.VERIF, "spec", "crypto")
BIN = "vh-crypto"


def _known(c, fid):
    for f in c.known:
        if f.get("id") == fid:
            return f
    return None


def _cover(c, module, cfg, what, timeout=1800):
    res = vf.run_tlc(SPEC, module, cfg, c.scratch, workers=8, timeout=timeout)
    if not res.ok:
        raise vf.MachineryError("design model %s/%s violates %s: the specification itself is inconsistent" % (module, cfg, res.violated))
    c.add_tlc(res, what)
    beh = os.path.join(c.scratch, "beh-%s.txt" % os.path.splitext(cfg)[0])
    if vf.extract_behaviours(res.stdout_path, beh) == 0:
        raise vf.MachineryError("no behaviours emitted by " + cfg)
    os.remove(res.stdout_path)
    return beh


def _simulate(c, module, cfg, num, depth, what, timeout=1800):
    res = vf.run_tlc(SPEC, module, cfg, c.scratch, workers=8, simulate=dict(num=num, depth=depth), seed=c.seed,
                     timeout=timeout, tag="sim-" + os.path.splitext(cfg)[0])
    if not res.ok:
        raise vf.MachineryError("simulation of %s violates %s" % (cfg, res.violated))
    beh = os.path.join(c.scratch, "sim-%s.txt" % os.path.splitext(cfg)[0])
    if vf.extract_behaviours(res.stdout_path, beh) == 0:
        raise vf.MachineryError("no simulated behaviours from " + cfg)
    os.remove(res.stdout_path)
    c.parts.append("%s: %d states visited, %.1fs" % (what, res.generated, res.wall))
    return beh


# ------------------------------------------------------------------------------ C39
F_C39 = "F-C39-empty-multisig"


def c39(c):
    thorough = c.tier == "thorough"
    vf.build_harness([BIN])
    c.assume("ideal signatures: the only byte string verifying under key k for message m is Sign(sk(k), m) "
             "(both schemes sign deterministically); unforgeability is assumed, only produced signatures and the "
             "enumerated byte-level mutations of messages / signatures are exercised")
    c.assume("abstract key ids are mapped to seeded ed25519 / secp256k1 keys (variants: all-ed25519, all-secp256k1, "
             "alternating); AddSignature (getIndex) is only driven with homogeneous member keys because "
             "Ed25519PublicKey.Equals / Secp256k1PublicKey.Equals type-assert their argument (panic on a foreign key "
             "type; outside C39, which constrains VerifyBytes)")
    known = _known(c, F_C39)
    kflag = ["-known-empty-multisig"] if known else []
    hits = 0

    def replay(beh, what, variants="ed,secp,mixed"):
        nonlocal hits
        cmd = [BIN, "replay-sig", "-in", "{in}", "-variants", variants]
        rep = vf.run_harness(BIN, ["replay-sig", "-in", beh, "-variants", variants] + kflag, env={"VERIF_SEED": c.seed}, timeout=3000)
        c.add_replay(rep, what)
        vf.replay_mismatch_violations(c, rep, "C39 " + what, cmd)
        hits += rep.get("extra", {}).get("known_empty_multisig_hits", 0)
        os.remove(beh)
        return rep

    # 1. spec -> code: the stateless single-key matrix and the key / address encoding matrix
    beh = _cover(c, "MCSig", "MCSig_single.cfg", "TLC case matrix MCSig_single.cfg")
    replay(beh, "single-key case matrix (signer x message site x signature site) and encode/decode stability matrix, 8 real instances per case (every bit position)")
    # 2. spec -> code: every transition of the multi-signature builder / verifier state graph
    cfg = "MCSig_multi_t.cfg" if thorough else "MCSig_multi_q.cfg"
    beh = _cover(c, "MCSig", cfg, "TLC exhaustive " + cfg, timeout=3000)
    replay(beh, "transition cover %s replayed on PublicKeyMultiSignature / MultiSignature" % cfg)
    if c.violations:
        return c.finish(rule="stopped after the first failing stage")
    # 3. spec -> code: random builder histories over keys with up to 6 members
    beh = _simulate(c, "MCSig", "MCSig_sim.cfg", 1200 if thorough else 150, 16, "TLC -simulate MCSig_sim.cfg")
    replay(beh, "TLC -simulate builder histories (keys up to 6 members, 8 slots)")
    if c.violations:
        return c.finish(rule="stopped after the first failing stage")

    # 4. code -> spec: seeded driver (nested keys, 0..7 members, perturbed signature trees) validated by TraceSig
    ntr = 2500 if thorough else 150
    tr = os.path.join(c.scratch, "trace-sig.ndjson")
    targs = ["trace-sig", "-out", tr, "-n", ntr]
    rep = vf.run_harness(BIN, targs, env={"VERIF_SEED": c.seed})
    c.add("impl_steps", rep["steps"])
    hits += rep.get("extra", {}).get("known_empty_multisig_hits", 0)
    if known:
        os.environ["KNOWN_C39"] = "1"
    else:
        os.environ.pop("KNOWN_C39", None)
    res = vf.validate_trace(c, SPEC, "TraceSig", "TraceSig.cfg", tr, "seeded driver traces (nested multi-signature keys)",
                            [BIN] + [str(a) for a in targs], ntr, timeout=3000)
    with open(tr) as f:
        c.sample([json.loads(next(f)) for _ in range(4)])
    if res.ok:
        def corrupt(lines):
            for i, l in enumerate(lines):
                e = json.loads(l)
                if e.get("op") == "Verify" and i > 40 and e["key"]["t"] == "m" and len(e["key"]["ks"]) > 0:
                    e["ret"] = 1 - e["ret"]
                    return lines[:i] + [json.dumps(e)] + lines[i + 1:]
            return None
        vf.binding_selftest(c, SPEC, "TraceSig", "TraceSig.cfg", tr, corrupt, "one VerifyBytes result inverted")

    # 5. F-C39, re-checked concretely on every run
    rep = vf.run_harness(BIN, ["empty-multisig"], env={"VERIF_SEED": c.seed})
    ex = rep.get("extra", {})
    if ex.get("reproduced"):
        text = ("a multi-signature public key without member keys (4 bytes %s, accepted by NewPublicKey / NewPublicKeyBz / "
                "ProtoStdSignature.FromProto, address %s) verifies the 4-byte signature %s for every message: a decoded StdTx "
                "spending from that address passes the signer-address check and VerifyBytes (%d such verifications seen in "
                "replay and traces)" % (ex.get("key_bytes"), ex.get("address"), ex.get("sig_bytes"), hits))
        if known:
            c.known_finding(text)
        else:
            c.violation("C39 " + text, {"kind": "probe", "harness_cmd": [BIN, "empty-multisig"], "result": ex})
    elif hits:
        raise vf.MachineryError("empty-multisig probe did not reproduce but replay saw %d hits" % hits)
    return c.finish(
        rule="behaviours = (a) the full single-key case matrix, 8 seeded key/message instances each, (b) every transition of the "
             "bounded multi-signature state graph (all slot lists over {each member's signature, outsider, wrong message, corrupted, "
             "empty, pad} x the listed keys) as shortest history + transition, (c) simulated builder histories, (d) recorded driver "
             "traces; non-trivial = ends in a VerifyBytes observation or an encode/decode comparison",
        exhaustive=True)


def replay_c39(c, path):
    r = json.load(open(path))
    if r.get("kind") == "probe":
        vf.build_harness([BIN])
        rep = vf.run_harness(BIN, ["empty-multisig"])
        if rep.get("extra", {}).get("reproduced"):
            print("VIOLATION property=%s replay=%s" % (c.pid, path))
            print("  reproduced: " + json.dumps(rep["extra"])[:500])
            c.cleanup()
            return 1
        print("NOT-REPRODUCED property=%s replay=%s" % (c.pid, path))
        c.cleanup()
        return 0
    return _replay_any(c, path, r)


def _replay_any(c, path, r):
    if r.get("kind") == "trace":
        return _replay_trace(c, path, r)
    if r.get("kind") != "behaviour":
        raise vf.MachineryError("replay kind %r not understood by the crypto engine" % r.get("kind"))
    vf.build_harness([BIN])          # only this engine's binary
    bf = os.path.join(c.scratch, "beh.ndjson")
    with open(bf, "w") as f:
        f.write(json.dumps(r["behaviour"]) + "\n")
    cmd = r["harness_cmd"]
    rep = vf.run_harness(cmd[0], [bf if a == "{in}" else a for a in cmd[1:]], env={"VERIF_SEED": r.get("seed", 1)})
    if rep.get("n_mismatches", 0) > 0:
        print("VIOLATION property=%s replay=%s" % (c.pid, path))
        print("  reproduced: " + json.dumps(rep["mismatches"][0])[:500])
        c.cleanup()
        return 1
    print("NOT-REPRODUCED property=%s replay=%s" % (c.pid, path))
    c.cleanup()
    return 0


def _replay_trace(c, path, r):
    """Re-record the trace with the same seed / arguments and validate it again."""
    vf.build_harness([BIN])
    cmd = r["harness_cmd"]
    out = os.path.join(c.scratch, "replay-trace.ndjson")
    args = [out if (i > 0 and cmd[i - 1] == "-out") else a for i, a in enumerate(cmd)][1:]
    vf.run_harness(cmd[0], args, env={"VERIF_SEED": r.get("seed", 1)})
    module = r.get("module") or {"trace-sig": "TraceSig", "trace-keybase": "TraceKeybase", "trace-codec": "TraceCodec"}[cmd[1]]
    res = vf.run_tlc(SPEC, module, module + ".cfg", c.scratch, workers=1, env={"TRACE_FILE": out}, timeout=3000)
    if not res.ok:
        print("VIOLATION property=%s replay=%s" % (c.pid, path))
        print("  reproduced: %s violated, err=%s" % (res.violated, res.final_state.get("err")))
        c.cleanup()
        return 1
    print("NOT-REPRODUCED property=%s replay=%s" % (c.pid, path))
    c.cleanup()
    return 0


# ------------------------------------------------------------------------------ C40
def c40(c):
    thorough = c.tier == "thorough"
    vf.build_harness([BIN])
    c.assume("ideal authenticated encryption: scrypt + AES-GCM under another passphrase, or over an altered salt / ciphertext, "
             "fails to open (never yields another key); the armor fields hint and secparam are not authenticated by the code "
             "and altering them changes nothing (modelled as the code has it)")
    c.assume("passphrase ids map to real passphrases: empty, unicode (multi-byte, emoji, trailing blank), ascii, one with "
             "quote/backslash/newline/NUL, a 1 KiB one; Create binds a fresh slot to the random key generated by the keybase")
    c.assume("each keybase call costs 1-2 scrypt evaluations (N=32768): the quick tier replays a seeded 1-in-%d sample of the "
             "transition cover, the thorough tier the complete cover" % QUICK_SAMPLE)

    def replay(beh, what, variants, npass, sample=1):
        cmd = [BIN, "replay-keybase", "-in", "{in}", "-variants", variants, "-npass", str(npass)]
        rep = vf.run_harness(BIN, ["replay-keybase", "-in", beh, "-variants", variants, "-npass", npass, "-sample", sample, "-offset", c.seed],
                             env={"VERIF_SEED": c.seed}, timeout=5000)
        if rep.get("behaviours", 0) == 0:
            raise vf.MachineryError("no keybase behaviour replayed (%s)" % what)
        c.add_replay(rep, what)
        vf.replay_mismatch_violations(c, rep, "C40 " + what, cmd)
        os.remove(beh)

    # 1. spec -> code: transition cover of the keybase / armor state graph
    beh = _cover(c, "MCKeybase", "MCKeybase_cover.cfg", "TLC exhaustive MCKeybase_cover.cfg")
    if thorough:
        replay(beh, "complete transition cover MCKeybase_cover.cfg on keys.NewInMemory / lazy keybase / mintkey", "mem,lazy", 2)
        beh = _cover(c, "MCKeybase", "MCKeybase_cover_t.cfg", "TLC exhaustive MCKeybase_cover_t.cfg")
        replay(beh, "1-in-%d sample of transition cover MCKeybase_cover_t.cfg (3 passphrases, 3 keys)" % THOROUGH_SAMPLE_T, "mem,lazy", 3, THOROUGH_SAMPLE_T)
    else:
        replay(beh, "seeded 1-in-%d sample of transition cover MCKeybase_cover.cfg on keys.NewInMemory / mintkey" % QUICK_SAMPLE, "mem", 2, QUICK_SAMPLE)
    if c.violations:
        return c.finish(rule="stopped after the first failing stage")
    # 2. spec -> code: random operation sequences (4 keys, 3 passphrases, 3 armors)
    beh = _simulate(c, "MCKeybase", "MCKeybase_sim.cfg", 15 if thorough else 5, 12, "TLC -simulate MCKeybase_sim.cfg")
    replay(beh, "TLC -simulate operation sequences of length 10", "mem,lazy" if thorough else "mem", 3)
    if c.violations:
        return c.finish(rule="stopped after the first failing stage")

    # 3. code -> spec: seeded driver, validated by TraceKeybase
    ntr, steps = (100, 40) if thorough else (24, 25)
    tr = os.path.join(c.scratch, "trace-keybase.ndjson")
    targs = ["trace-keybase", "-out", tr, "-n", ntr, "-steps", steps, "-variants", "mem,lazy"]
    rep = vf.run_harness(BIN, targs, env={"VERIF_SEED": c.seed}, timeout=5000)
    c.add("impl_steps", rep["steps"])
    res = vf.validate_trace(c, SPEC, "TraceKeybase", "TraceKeybase.cfg", tr, "seeded driver traces (in-memory and on-disk keybase)",
                            [BIN] + [str(a) for a in targs], ntr, timeout=3000)
    with open(tr) as f:
        c.sample([json.loads(next(f)) for _ in range(8)])
    if res.ok:
        def corrupt(lines):
            for i, l in enumerate(lines):
                e = json.loads(l)
                if e.get("op") in ("ExportObj", "Sign", "Delete") and i > 10:
                    e["ret"] = [1 if e["ret"] == [0] else 0]
                    return lines[:i] + [json.dumps(e)] + lines[i + 1:]
            return None
        vf.binding_selftest(c, SPEC, "TraceKeybase", "TraceKeybase.cfg", tr, corrupt, "one unlock result inverted")
    return c.finish(
        rule="behaviours = transition cover of the Keybase state graph (quick: seeded sample; thorough: complete) as shortest history "
             "+ transition, simulated operation sequences, recorded driver traces; non-trivial = at least two calls and the last one "
             "unlocks, mutates, exports or decrypts",
        exhaustive=thorough)


QUICK_SAMPLE = 18
THOROUGH_SAMPLE_T = 200


def replay_generic(c, path):
    return _replay_any(c, path, json.load(open(path)))


# ------------------------------------------------------------------------------ C38
F_C38 = "F-C38-stdsignature-nil-pubkey"


def _spec_catalogue():
    import re
    txt = open(os.path.join(SPEC, "CodecCatalogue.tla")).read()
    cat = {}
    for m in re.finditer(r'\("([^"]+)" :> \[amino \|-> (\w+), proto \|-> (\w+), json \|-> (\w+), msg \|-> (\w+),\s*shapes \|-> \{([^}]*)\}\]\)', txt):
        cat[m.group(1)] = {"amino": m.group(2) == "TRUE", "proto": m.group(3) == "TRUE", "json": m.group(4) == "TRUE",
                           "msg": m.group(5) == "TRUE", "shapes": sorted(x.strip().strip('"') for x in m.group(6).split(","))}
    return cat


def _sharded_replay(c, beh, nshards, known):
    """Mode-machine histories change process-global codec settings as they run: shard them over processes."""
    import concurrent.futures as cf
    args = ["replay-codec", "-in", beh] + (["-known", known] if known else [])
    with cf.ThreadPoolExecutor(nshards) as ex:
        reps = list(ex.map(lambda i: vf.run_harness(BIN, args + ["-shard", i, "-nshards", nshards], env={"VERIF_SEED": c.seed}, timeout=3000),
                           range(nshards)))
    tot = dict(reps[0])
    for r in reps[1:]:
        for k in ("behaviours", "steps", "nontrivial", "distinct", "n_mismatches"):
            tot[k] = tot.get(k, 0) + r.get(k, 0)
        tot["mismatches"] = (tot.get("mismatches", []) + r.get("mismatches", []))[:5]
    return tot


def c38(c):
    thorough = c.tier == "thorough"
    vf.build_harness([BIN])
    c.assume("byte-level fidelity is decided by the replay comparison (reflection-based canonical form of original and decoded "
             "value, nil and empty identified only where listed under nil_empty_equivalences_used); the specification contributes "
             "the mode state machine, its model-checked invariants, the case enumeration and the permutation invariance")
    c.assume("decoders fed with the other format's bytes are assumed to fail (the fallback order relies on it); the harness checks "
             "the decoded value, so a decoder that wrongly succeeds is caught where the code promises the value")
    c.assume("governance discipline: upgrades are scheduled for future heights and never move GetCodecUpgradeHeight() to a height "
             "that has already begun (without this TLC finds unreadable legacy state; see CodecModes.tla Upgrade)")
    c.assume("public-key-typed fields always hold a key (constructors and ValidateBasic require one), except StdSignature.PublicKey "
             "which the code documents as optional; 8.0 node types (Validator, MsgStake with maps) exist only in the protobuf era")
    # 0. the two catalogues are the same
    rep = vf.run_harness(BIN, ["list-cases"])
    hcat = rep["extra"]["types"]
    scat = _spec_catalogue()
    if hcat != scat:
        diff = sorted(set(hcat) ^ set(scat)) or [t for t in hcat if hcat[t] != scat.get(t)]
        raise vf.MachineryError("harness catalogue and CodecCatalogue.tla differ: %s" % diff[:5])
    ncases = sum(len(v["shapes"]) for v in hcat.values())
    c.parts.append("catalogue: %d types, %d (type, shape) constructors, identical in spec and harness" % (len(hcat), ncases))
    known = _known(c, F_C38)
    kflag = F_C38 if known else ""
    hits = 0
    equiv = set()
    unjudged = {}

    def replay(beh, what, shards=1):
        nonlocal hits
        cmd = [BIN, "replay-codec", "-in", "{in}"]
        if shards > 1:
            rep = _sharded_replay(c, beh, shards, kflag)
        else:
            rep = vf.run_harness(BIN, ["replay-codec", "-in", beh] + (["-known", kflag] if kflag else []), env={"VERIF_SEED": c.seed}, timeout=3000)
        if rep.get("behaviours", 0) == 0:
            raise vf.MachineryError("nothing replayed: " + what)
        c.add_replay(rep, what)
        vf.replay_mismatch_violations(c, rep, "C38 " + what, cmd)
        ex = rep.get("extra", {})
        hits += sum(ex.get("known_hits", {}).values())
        equiv.update(ex.get("nil_empty_equivalences_used", []))
        for k, v in ex.get("unjudged_pairs", {}).items():
            unjudged[k] = unjudged.get(k, 0) + v
        os.remove(beh)
        return rep

    # 1. the mode state machine: model-checked, every transition replayed on the real codec
    for cfg in (["MCCodec_machine_test.cfg", "MCCodec_machine_main.cfg"] if thorough else ["MCCodec_machine_q.cfg"]):
        beh = _cover(c, "MCCodec", cfg, "TLC exhaustive " + cfg, timeout=3000)
        replay(beh, "mode state machine %s: Put/Get/Query/NextBlock/ConvertState/Upgrade on real encoded module state" % cfg, shards=8)
    if c.violations:
        return c.finish(rule="stopped after the first failing stage")
    # 2. the stateless matrices
    cfg = "MCCodec_cases.cfg" if thorough else "MCCodec_casesq.cfg"
    beh = _cover(c, "MCCodec", cfg, "TLC case matrices " + cfg, timeout=3000)
    replay(beh, "binary round trips (type x shape x configuration x override x encode/decode height, bare and length-prefixed), amino "
                "JSON round trips (plain and sorted), sign-bytes permutation invariance, whole transactions through "
                "DefaultTxEncoder / DefaultTxDecoder")
    if c.violations:
        return c.finish(rule="stopped after the first failing stage")

    # 3. code -> spec
    ntr = 1500 if thorough else 200
    tr = os.path.join(c.scratch, "trace-codec.ndjson")
    targs = ["trace-codec", "-out", tr, "-n", ntr]
    rep = vf.run_harness(BIN, targs, env={"VERIF_SEED": c.seed})
    c.add("impl_steps", rep["steps"])
    res = vf.validate_trace(c, SPEC, "TraceCodec", "TraceCodec.cfg", tr, "seeded driver traces (random upgrade heights, overrides, heights)",
                            [BIN] + [str(a) for a in targs], ntr, timeout=3000)
    with open(tr) as f:
        c.sample([json.loads(next(f)) for _ in range(4)])
    if res.ok:
        def corrupt(lines):
            for i, l in enumerate(lines):
                e = json.loads(l)
                if e.get("op") == "RT" and i > 30 and e.get("status") == "ok" and e.get("fmt") in ("amino", "proto"):
                    e["fmt"] = "amino" if e["fmt"] == "proto" else "proto"
                    return lines[:i] + [json.dumps(e)] + lines[i + 1:]
            return None
        vf.binding_selftest(c, SPEC, "TraceCodec", "TraceCodec.cfg", tr, corrupt, "the format of one encoding swapped")
    if hits:
        c.known_finding("a StdTx whose StdSignature carries no public key (documented as optional; accepted by the legacy codec, by the "
                        "protobuf decoder and by the ante handler) cannot be protobuf-encoded: StdSignature.ToProto dereferences the nil "
                        "key and panics (%d enumerated transactions); fix proposed in fixes/C38-stdsignature-nil-pubkey.diff" % hits)
    return c.finish(
        rule="cases = every transition of the bounded mode state machine as shortest history + transition, the enumerated stateless "
             "matrices, recorded driver events; distinct = distinct case text; non-trivial = the code promises the value back "
             "(exp = ok), or a sign-bytes permutation, or a machine history of more than two steps",
        exhaustive=True,
        extra_cov={"nil_empty_equivalences_used": sorted(equiv), "unjudged_pairs": unjudged})


ENGINE_KIND = "TLA+ specs SigIdeal / Keybase / CodecModes (TLC exhaustive cover + simulation) replayed into crypto, crypto/keys, codec; recorded traces validated by TraceSig / TraceKeybase / TraceCodec"
PROPERTIES = {
    "C38": {"run": c38, "replay": replay_generic, "level": "model_checking", "engine": "crypto", "design_ref": "DESIGN.md section 6 C38",
            "technique": "TLA+ model (CodecModes.tla over CodecOps.tla / CodecCatalogue.tla): the amino/protobuf mode state machine with ConvertState and governance re-scheduling is model-checked by TLC and every transition replayed on the real codec with real encoded values; TLC-enumerated case matrices (type x shape x configuration x override x heights; JSON; sign-bytes permutations; whole transactions) replayed; recorded traces validated by TLC (TraceCodec.tla)",
            "text": "The height-dependent choice between legacy amino and protobuf (UpgradeHeight, OldUpgradeHeight, the 30024 constant, the upgrade override, legacy-first fallback) is modelled as the code has it; TLC checks that stored module state and every historical snapshot stay decodable through the upgrade block, ConvertState in any module order and later re-scheduling. 27 types / 130+ explicit (type, shape) constructors (zero, nil, empty, maximal, secp256k1 and multi-signature keys) are pushed through both binary codecs at the enumerated height pairs, through amino JSON (plain and key-sorted), through the transaction encoder/decoder with six signature shapes, and the sign bytes of every message are checked invariant under seven member-order / white-space permutations.",
            "note": "Honest limit: byte-level fidelity is decided by the replay comparison (a reflection walk over original and decoded value), not by the model, where a round trip is the identity by construction; the model contributes the mode state machine (model-checked), the enumeration and the permutation invariance. Known finding F-C38: StdSignature without public key panics in ToProto."},
    "C40": {"run": c40, "replay": replay_generic, "level": "model_checking", "engine": "crypto", "design_ref": "DESIGN.md section 6 C40",
            "technique": "TLA+ model (Keybase.tla over KeybaseOps.tla) checked by TLC; transition cover and simulated operation sequences replayed on the real keybase and mintkey armor layer; recorded traces validated by TLC (TraceKeybase.tla)",
            "text": "The keybase is modelled as a map key -> protecting passphrase plus the list of exported armors; one action per API call (Create, ImportPrivateKeyObject, ImportPrivKey, ExportPrivKeyEncryptedArmor, ExportPrivateKeyObject, Delete, UnsafeDelete, Update, Get, List, Sign) and Decrypt(armor, passphrase, mutation site). Every call's real outcome (error or which key came back, the listing after every mutation, whether the signature verifies) is compared with the model for every right/wrong passphrase combination including the empty and a unicode passphrase and for 12 armor mutation sites.",
            "note": "Trusted: TLC, the Go glue identifying returned keys by their bytes. Cryptographic strength is assumed. hint/secparam are unauthenticated in the code (modelled so). Cost: ~0.1-0.4 s per call (scrypt), so the quick tier samples the cover."},
    "C39": {"run": c39, "replay": replay_c39, "level": "model_checking", "engine": "crypto", "design_ref": "DESIGN.md section 6 C39",
            "technique": "TLA+ model (SigIdeal.tla over SigOps.tla) checked by TLC; case matrix, exhaustive transition cover and simulated builder histories replayed on real ed25519/secp256k1/multi-signature keys; recorded traces validated by TLC (TraceSig.tla)",
            "text": "Ideal-signature model of VerifyBytes for single keys and of PublicKeyMultiSignature.VerifyBytes / MultiSignature.AddSignatureByIndex / AddSignature exactly as coded. Every slot list (each member's signature, an outsider's, wrong message, corrupted, empty, pad; every ordering, omission, duplicate, surplus) for the listed keys of 0..4 members is built through the real builder and verified on real keys; the single-key matrix flips first/middle/last bytes of message and signature, truncates, extends, swaps signer and key type and tries the secp256k1 high-S twin; keys, addresses and private keys are pushed through every exported encoding and back.",
            "note": "Trusted: TLC, the Go replay glue (key ring, slot <-> entry mapping). Unforgeability is assumed, not tested. Known finding F-C39: a member-less multi-signature key verifies anything."},
}
