"""tree engine: C03 (versioned IAVL tree = ordered map at every version, balanced, correct sizes),
C05 (existence / absence proofs sound and complete).  Spec: spec/tree."""
import json
import os

import vf

SPEC = os.path.join(vf.VERIF, "spec", "tree")


def _tlc_cover(c, module, cfg, what, workers=8, timeout=3000, keep=None):
    """Run a transition-cover configuration; returns (TLCResult, behaviour file, #behaviours)."""
    res = vf.run_tlc(SPEC, module, cfg, c.scratch, workers=workers, timeout=timeout)
    if not res.ok:
        raise vf.MachineryError("design model %s violates %s: the specification itself is inconsistent "
                                "(fix the model, this is not a verdict on the code)" % (cfg, res.violated))
    c.add_tlc(res, what)
    beh = os.path.join(c.scratch, "beh-" + os.path.splitext(cfg)[0] + ".txt")
    n = 0
    with open(res.stdout_path, errors="replace") as f, open(beh, "w") as o:
        for line in f:
            if line.startswith('"[') and (keep is None or keep in line):
                o.write(line)
                n += 1
    os.remove(res.stdout_path)
    if n == 0:
        raise vf.MachineryError("no behaviours emitted by " + cfg)
    return res, beh, n


# ------------------------------------------------------------------------------ C03
def c03(c):
    thorough = c.tier == "thorough"
    vf.build_harness(["vh-tree"])
    c.assume("abstract keys 1..NK are mapped (order preserving) to seeded sorted subsets of an 18-key byte-string pool "
             "with prefix-related keys and 0x00/0xff boundaries; values to short byte strings")
    c.assume("node fields are unexported: the working tree's node structure is read through the exported RenderShape "
             "(shape, hence true heights and balance at every inner node), Height(), Size() and the index arithmetic of "
             "Get/GetByIndex (which uses every inner size on the path); saved versions are additionally read node by node "
             "from the node database (height, size, version, key, child hashes, hash integrity) and compared with the "
             "specification's nodes")
    c.assume("re-saving an already existing version after LoadVersion(older) is not modelled (hash-dependent); "
             "DeleteVersion / Rollback / reload / LoadVersionForOverwriting are modelled and exercised")
    variants = "imm,lazy"

    # 1. spec -> code, exhaustive transition covers
    covers = [("MCVersionedTree_rot_q.cfg", 6, "all AVL shapes over 6 keys x every mutation and observer instance"),
              ("MCVersionedTree_ver_q.cfg", 3, "version management over 3 keys, <= 2 versions, histories <= 7"),
              ("MCVersionedTree_ver3_q.cfg", 2, "version management over 2 keys, <= 3 versions (middle versions deleted), histories <= 9")]
    if thorough:
        covers = [("MCVersionedTree_rot_t.cfg", 7, "all AVL shapes over 7 keys x every mutation and observer instance"),
                  ("MCVersionedTree_rotv_t.cfg", 3, "working tree + one saved version, 3 keys x 2 values, every observer instance on both"),
                  ("MCVersionedTree_ver_t.cfg", 3, "version management over 3 keys x 2 values, <= 3 versions, histories <= 7")]
    for cfg, nk, what in covers:
        res, beh, n = _tlc_cover(c, "MCVersionedTree", cfg, "TLC exhaustive " + cfg)
        cmd = ["vh-tree", "replay-tree", "-in", "{in}", "-nk", str(nk), "-variants", variants]
        rep = vf.run_harness("vh-tree", ["replay-tree", "-in", beh, "-nk", nk, "-variants", variants],
                             env={"VERIF_SEED": c.seed}, timeout=3000)
        c.add_replay(rep, "transition cover %s (%s) replayed on iavl.MutableTree (%s)" % (cfg, what, variants))
        vf.replay_mismatch_violations(c, rep, "C03 replay " + cfg, cmd)
        os.remove(beh)
        if c.violations:
            return c.finish(rule="stopped after the first failing stage")

    # 2. spec -> code, random deep behaviours (8 keys, 2 values, <= 6 versions, depth 60)
    num = 400 if thorough else 25
    res = vf.run_tlc(SPEC, "MCVersionedTree", "MCVersionedTree_sim.cfg", c.scratch, workers=8,
                     simulate=dict(num=num, depth=65), seed=c.seed, timeout=2400, tag="sim")
    if not res.ok:
        raise vf.MachineryError("simulation violates %s" % res.violated)
    beh = os.path.join(c.scratch, "sim.txt")
    if vf.extract_behaviours(res.stdout_path, beh) == 0:
        raise vf.MachineryError("no simulated behaviours")
    rep = vf.run_harness("vh-tree", ["replay-tree", "-in", beh, "-nk", 8, "-variants", variants], env={"VERIF_SEED": c.seed})
    c.add_replay(rep, "TLC -simulate depth 60 (8 keys, 2 values, <= 6 versions, delete / rollback / reload / overwrite)")
    vf.replay_mismatch_violations(c, rep, "C03 simulate", ["vh-tree", "replay-tree", "-in", "{in}", "-nk", "8", "-variants", variants])
    if c.violations:
        return c.finish(rule="stopped after the first failing stage")

    # 3. code -> spec: seeded random driver over 64..512 byte-string keys, validated by TraceTree
    ntr, steps = (40, 1500) if thorough else (10, 1000)
    tr = os.path.join(c.scratch, "trace-tree.ndjson")
    targs = ["trace-tree", "-out", tr, "-n", ntr, "-steps", steps, "-minkeys", 64, "-maxkeys", 512, "-dump", 100]
    rep = vf.run_harness("vh-tree", targs, env={"VERIF_SEED": c.seed})
    c.add("impl_steps", rep["steps"])
    res = vf.validate_trace(c, SPEC, "TraceTree", "TraceTree.cfg", tr,
                            "random driver traces (64-512 byte-string keys, sampled probes, full dumps every 100 steps)",
                            ["vh-tree"] + [str(a) for a in targs], ntr, timeout=3000)
    with open(tr) as f:
        c.sample([json.loads(next(f)) for _ in range(8)])

    # 4. binding demonstration: corrupt one logged result -> must be rejected
    if res.ok:
        def corrupt(lines):
            for i, l in enumerate(lines):
                e = json.loads(l)
                if e.get("op") == "Get" and i > 200 and "ret" in e:
                    e["ret"][0] += 1
                    return lines[:i] + [json.dumps(e)] + lines[i + 1:]
            return None
        vf.binding_selftest(c, SPEC, "TraceTree", "TraceTree.cfg", tr, corrupt, "one Get index altered")

        def corrupt2(lines):
            for i, l in enumerate(lines):
                e = json.loads(l)
                if e.get("op") == "Dump" and i > 200 and len(e.get("shape", [])) > 8:
                    e["shape"][4] += 1     # one node one level deeper
                    return lines[:i] + [json.dumps(e)] + lines[i + 1:]
            return None
        vf.binding_selftest(c, SPEC, "TraceTree", "TraceTree.cfg", tr, corrupt2, "one node depth of a dumped shape altered")

    return c.finish(
        rule="behaviours = (a) every transition of the bounded VersionedTree state graphs (states include the exact tree "
             "shapes, so every rotation case of insert / remove is a distinct transition), each as the shortest history reaching "
             "its source state plus the transition, (b) TLC-simulated depth-60 histories, (c) recorded random-driver traces; "
             "distinct = distinct history text; non-trivial = the checked step follows at least two insertions",
        exhaustive=True)


# ------------------------------------------------------------------------------ C05
KNOWN_CLASSES = {          # mutation class -> id of the known finding that explains an acceptance
    "pin_right": "C05-unhashed-right-child", "graft": "C05-unhashed-right-child",
    "skip": "C05-absence-non-adjacent", "ms_dup": "C05-duplicate-store-name",
}


def _known_c05(c):
    """ids of the open C05 entries of known_findings.json -> (classes to tolerate, text by id)"""
    ids = {f.get("id"): f.get("what", "") for f in c.known}
    classes = sorted(cl for cl, kid in KNOWN_CLASSES.items() if kid in ids)
    return ids, classes


def _report_known(c, ids, seen):
    for kid in sorted(seen):
        what = ids.get(kid, "")
        short = what.split(". ")[0][:260]
        c.known_finding("%s still reproduces (%s): %s" % (kid, "; ".join(seen[kid]), short))


def c05(c):
    thorough = c.tier == "thorough"
    vf.build_harness(["vh-tree"])
    ids, known_classes = _known_c05(c)
    c.assume("hashing is ideal in the model (a hash spells out its pre-image); collision resistance of SHA-256 is assumed, not checked")
    c.assume("exhaustive cases use key universes in which no key is a byte-prefix of another (12 fixed-length keys), where "
             "'the key after k' = cpIncr(k) is exact; arbitrary byte strings (prefix-related, 0xff runs) are covered by the "
             "recorded random-driver traces")
    c.assume("a mutation that turns the pair into another TRUE claim with a non-canonical witness is not judged (e.g. the absence "
             "witness of k also proves absence of other keys of the same gap); the store version inside a store info is not "
             "hashed by the code and not named by the property: its alteration is reported, not judged")

    # 1. design model + case generation: the verifier as the code is
    cfg, nk = ("MCProof_asis_t.cfg", 5) if thorough else ("MCProof_asis.cfg", 4)
    res, beh, n = _tlc_cover(c, "MCProof", cfg, "TLC exhaustive %s (verifier as the code is; soundness except the named known forgeries)" % cfg,
                             keep='\\"Prove\\"', timeout=6000)
    cmd = ["vh-tree", "replay-proof", "-in", "{in}", "-nk", str(nk), "-known", ",".join(known_classes)]
    rep = vf.run_harness("vh-tree", ["replay-proof", "-in", beh, "-nk", nk, "-known", ",".join(known_classes)],
                         env={"VERIF_SEED": c.seed}, timeout=3000)
    c.add_replay(rep, "every query of the enumerated trees / versions x every mutation class x site, through rootmulti "
                      "Query(prove=true) and DefaultProofRuntime")
    c.add("proof_cases_verified", rep["extra"]["cases"])
    c.add("proof_cases_unconstrained", rep["extra"]["cases_unconstrained"])
    c.cov["cases_by_class"] = rep["extra"]["cases_by_class"]
    c.cov["abandoned"] = rep["extra"].get("abandoned", 0)
    if c.cov["abandoned"]:
        c.note("%d queries abandoned: the real proof has not the structure the specification predicts (tree shape / proof builder "
               "differ from the model -- outside C05's statement, see C03); their honest answers were still verified" % c.cov["abandoned"])
    vf.replay_mismatch_violations(c, rep, "C05 replay " + cfg, cmd)
    known_seen = {}            # finding id -> list of "what was observed" fragments
    hits = rep["extra"].get("known_hits", {})
    for cl, k in sorted(hits.items()):
        if k:
            known_seen.setdefault(KNOWN_CLASSES[cl], []).append("mutation '%s' accepted in %d enumerated cases" % (cl, k))
    os.remove(beh)
    if c.violations:
        _report_known(c, ids, known_seen)
        return c.finish(rule="stopped after the first failing stage")

    # 2. design model only: with the three missing checks the verifier is sound without exception
    if thorough:
        res = vf.run_tlc(SPEC, "MCProof", "MCProof_fixed.cfg", c.scratch, workers=8, timeout=6000)
        if not res.ok:
            raise vf.MachineryError("MCProof_fixed.cfg violates %s" % res.violated)
        c.add_tlc(res, "TLC exhaustive MCProof_fixed.cfg (verifier with the three missing checks: sound and complete, design level only)")

    # 3. code -> spec: random driver over arbitrary byte-string keys (completeness on real keys,
    #    random mutations at random sites of deep proofs), validated by TraceProof
    ntr, steps = (80, 300) if thorough else (16, 250)
    tr = os.path.join(c.scratch, "trace-proof.ndjson")
    targs = ["trace-proof", "-out", tr, "-n", ntr, "-steps", steps, "-minkeys", 16, "-maxkeys", 96, "-pool", "mixed"]
    rep = vf.run_harness("vh-tree", targs, env={"VERIF_SEED": c.seed})
    c.add("impl_steps", rep["steps"])
    # the known patterns are excluded from the trace invariant by Known_C05_*; without the
    # corresponding known_findings.json entry they are violations
    tolerated = {"incr": "C05-next-key-by-increment" in ids, "pin_right": "pin_right" in known_classes,
                 "graft": "graft" in known_classes, "ms_dup": "ms_dup" in known_classes}
    counts = {}
    first = {}
    with open(tr) as f:
        for i, l in enumerate(f, 1):
            e = json.loads(l)
            k = None
            if e.get("op") == "Query" and e.get("quirk") == 1 and e.get("ok") == 0:
                k = "incr"
            elif e.get("op") == "Tamper" and e.get("ok") == 1 and (e["c"] in ("graft", "ms_dup") or (e["c"] == "pin_right" and e.get("lb") == 1)):
                k = e["c"]
            if k:
                counts[k] = counts.get(k, 0) + 1
                first.setdefault(k, (i, e))
    for k, nhit in sorted(counts.items()):
        kid = "C05-next-key-by-increment" if k == "incr" else KNOWN_CLASSES[k]
        if tolerated[k]:
            known_seen.setdefault(kid, []).append(
                ("%d honest absence answers that do not verify / queries that panic in the recorded traces" % nhit) if k == "incr"
                else "mutation '%s' accepted %d times in the recorded traces" % (k, nhit))
        else:
            i, e = first[k]
            c.violation("C05 trace: %s at trace line %d: %s" % (
                "the honest answer of the real node does not verify" if k == "incr" else "the real verifier accepts mutation '%s'" % k,
                i, json.dumps(e)[:300]),
                {"kind": "trace", "harness_cmd": ["vh-tree"] + [str(a) for a in targs], "line": i, "event": e})
    _report_known(c, ids, known_seen)
    res = vf.validate_trace(c, SPEC, "TraceProof", "TraceProof.cfg", tr,
                            "random driver traces (16-96 arbitrary byte-string keys: honest answers verified, random mutations)",
                            ["vh-tree"] + [str(a) for a in targs], ntr, timeout=3000)
    with open(tr) as f:
        c.sample([json.loads(next(f)) for _ in range(6)])
    if res.ok:
        def corrupt(lines):
            for i, l in enumerate(lines):
                e = json.loads(l)
                if e.get("op") == "Tamper" and i > 100 and e.get("ok") == 0 and e["c"] == "pin_h":
                    e["ok"] = 1
                    return lines[:i] + [json.dumps(e)] + lines[i + 1:]
            return None
        vf.binding_selftest(c, SPEC, "TraceProof", "TraceProof.cfg", tr, corrupt, "one rejected mutation logged as accepted")

        def corrupt2(lines):
            for i, l in enumerate(lines):
                e = json.loads(l)
                if e.get("op") == "Query" and i > 100 and e.get("kind") == 2 and e.get("quirk") == 0:
                    e["kind"], e["val"] = 1, 1
                    return lines[:i] + [json.dumps(e)] + lines[i + 1:]
            return None
        vf.binding_selftest(c, SPEC, "TraceProof", "TraceProof.cfg", tr, corrupt2, "one absence answer logged as existence")

    return c.finish(
        rule="cases = for every tree reachable over the key universe (all subsets, all AVL shapes, node versions <= MaxVersion), "
             "queried right after a commit at every retained version, every key position x every mutation of ProofModel.Mutations "
             "(claim, each proof-node field, leaves, path structure, root, multistore operator, three forgeries); each case is one "
             "real Query(prove=true) + one real ProofRuntime verification; plus recorded random-driver traces; non-trivial = a query "
             "history not seen before",
        exhaustive=True)


def _replay(c, path):
    """bin/check <id> --replay FILE: behaviours via the generic replay; recorded traces are
    regenerated from the stored seed + command and validated again."""
    r = json.load(open(path))
    if r.get("kind") != "trace":
        return vf.generic_replay(c, path)
    vf.build_harness(["vh-tree"])
    cmd = list(r["harness_cmd"])
    tr = os.path.join(c.scratch, "replay-trace.ndjson")
    cmd[cmd.index("-out") + 1] = tr
    vf.run_harness(cmd[0], cmd[1:], env={"VERIF_SEED": r.get("seed", 1)})
    module = "TraceTree" if cmd[1] == "trace-tree" else "TraceProof"
    bad = None
    if "event" in r:            # a logged known-pattern event reported as violation: look for it again
        with open(tr) as f:
            for i, l in enumerate(f, 1):
                if i == r.get("line") and json.loads(l) == r["event"]:
                    bad = "trace line %d reproduces: %s" % (i, l.strip()[:300])
    else:
        res = vf.run_tlc(SPEC, module, module + ".cfg", c.scratch, workers=1, env={"TRACE_FILE": tr}, timeout=3000)
        if not res.ok:
            bad = "TLC %s violated again (err=%s)" % (res.violated, res.final_state.get("err"))
    c.cleanup()
    if bad:
        print("VIOLATION property=%s replay=%s" % (c.pid, path))
        print("  reproduced: " + bad)
        return 1
    print("NOT-REPRODUCED property=%s replay=%s" % (c.pid, path))
    return 0


ENGINE_KIND = ("TLA+ specs TreeOps / VersionedTree / ProofOps / ProofModel (TLC exhaustive transition cover + simulation) replayed "
               "into store/iavl and store/rootmulti; recorded traces validated by TraceTree / TraceProof")
PROPERTIES = {
    "C03": {"run": c03, "replay": _replay, "level": "model_checking", "engine": "tree", "design_ref": "DESIGN.md section 6 C03",
            "technique": "TLA+ model of the IAVL algorithms (TreeOps.tla, VersionedTree.tla) checked by TLC against the ordered-map model; "
                         "transition-cover and simulated behaviours replayed into the real iavl.MutableTree with node-by-node comparison; "
                         "recorded traces validated by TLC (TraceTree.tla)",
            "text": "The specification transcribes recursiveSet / recursiveRemove / balance / rotations and the read paths; TLC shows that on "
                    "every reachable tree they implement an ordered map, stay balanced with correct sizes and never change a saved version. "
                    "Every transition of the bounded state graphs (all AVL shapes over 5-7 keys; versions, delete, rollback, reload over 3 keys) "
                    "and random depth-60 histories are executed on the real tree and compared observer by observer and node by node; random "
                    "traces over 64-512 byte-string keys are accepted by the specification. Bounded exhaustive + sampled, not a proof.",
            "note": "Trusted: TLC, the Go replay glue (key mapping, node-database decoder, RenderShape reader), tm-db memdb."},
    "C05": {"run": c05, "replay": _replay, "level": "model_checking", "engine": "tree", "design_ref": "DESIGN.md section 6 C05",
            "technique": "TLA+ model of proof construction and of the verifier with ideal hashing (ProofOps.tla, ProofModel.tla) checked by TLC; "
                         "every enumerated (tree, query, mutation) case executed through rootmulti Query(prove=true) and DefaultProofRuntime; "
                         "recorded traces over arbitrary byte-string keys validated by TLC (TraceProof.tla)",
            "text": "TLC enumerates all trees over 4 keys / <= 2 versions (quick) or 5 keys / <= 3 versions (thorough), every query position and ~35 mutations per witness, and decides "
                    "with the transcribed verifier which are accepted; the same cases run against the real code. Completeness: every honest "
                    "answer verifies. Soundness: no false claim and no altered witness verifies, except the forgeries listed as known findings "
                    "(reported on every run).",
            "note": "Limit: collision resistance is assumed. Exhaustive cases use prefix-free key universes; prefix-related keys only in the random traces."},
}
